package l4tls

// C07: parseRawClientHello vs the Lean model (field-level differential, incl. mutated hellos) and vs what Go's TLS server
// reports for the same bytes (tls.ClientHelloInfo captured in GetConfigForClient), for hellos produced by crypto/tls clients.

import (
	"context"
	"encoding/json"
	"sync/atomic"
	"crypto/ecdsa"
	"crypto/elliptic"
	"crypto/rand"
	"crypto/tls"
	"crypto/x509"
	"crypto/x509/pkix"
	"math/big"
	"encoding/binary"
	"fmt"
	"net"
	"reflect"
	"strings"
	"testing"
	"time"

	"github.com/caddyserver/caddy/v2"
	"go.uber.org/zap"

	"github.com/mholt/caddy-l4/layer4"
)

// a terminal handler that counts its invocations (for routed evaluations of the tls matcher)
type vTLSRec struct{}

var vTLSRecHits int32

func (vTLSRec) CaddyModule() caddy.ModuleInfo {
	return caddy.ModuleInfo{ID: "layer4.handlers.verif_tlsrec", New: func() caddy.Module { return new(vTLSRec) }}
}
func (*vTLSRec) Handle(*layer4.Connection, layer4.Handler) error {
	atomic.AddInt32(&vTLSRecHits, 1)
	return nil
}
func init() { caddy.RegisterModule(vTLSRec{}) }

func firstFlight(cfg *tls.Config) []byte {
	c1, c2 := net.Pipe()
	done := make(chan []byte, 1)
	go func() {
		var all []byte
		buf := make([]byte, 65536)
		c2.SetReadDeadline(time.Now().Add(2 * time.Second))
		for {
			n, err := c2.Read(buf)
			all = append(all, buf[:n]...)
			if len(all) >= 5 && len(all) >= 5+int(binary.BigEndian.Uint16(all[3:5])) {
				break
			}
			if err != nil {
				break
			}
		}
		c2.Close()
		done <- all
	}()
	cl := tls.Client(c1, cfg)
	cl.SetDeadline(time.Now().Add(2 * time.Second))
	_ = cl.Handshake()
	c1.Close()
	return <-done
}

// serverView feeds the record to a crypto/tls server and returns the ClientHelloInfo it reports
func serverView(record []byte) *tls.ClientHelloInfo {
	c1, c2 := net.Pipe()
	var got *tls.ClientHelloInfo
	srv := tls.Server(c2, &tls.Config{GetConfigForClient: func(chi *tls.ClientHelloInfo) (*tls.Config, error) {
		cp := *chi
		got = &cp
		return nil, fmt.Errorf("enough")
	}})
	go func() {
		c1.SetDeadline(time.Now().Add(2 * time.Second))
		c1.Write(record)
		buf := make([]byte, 4096)
		for {
			if _, err := c1.Read(buf); err != nil {
				break
			}
		}
		c1.Close()
	}()
	srv.SetDeadline(time.Now().Add(2 * time.Second))
	_ = srv.Handshake()
	c2.Close()
	return got
}

// selfSigned makes a throw-away certificate for the in-process TLS server used to obtain resumption hellos
func selfSigned() tls.Certificate {
	key, _ := ecdsa.GenerateKey(elliptic.P256(), rand.Reader)
	tmpl := &x509.Certificate{SerialNumber: big.NewInt(1), Subject: pkix.Name{CommonName: "verif"}, NotBefore: time.Now().Add(-time.Hour),
		NotAfter: time.Now().Add(time.Hour), DNSNames: []string{"example.com"}, KeyUsage: x509.KeyUsageDigitalSignature, ExtKeyUsage: []x509.ExtKeyUsage{x509.ExtKeyUsageServerAuth}}
	der, _ := x509.CreateCertificate(rand.Reader, tmpl, tmpl, &key.PublicKey, key)
	return tls.Certificate{Certificate: [][]byte{der}, PrivateKey: key}
}

type recConn struct {
	net.Conn
	wrote *[]byte
}

func (c recConn) Write(p []byte) (int, error) { *c.wrote = append(*c.wrote, p...); return c.Conn.Write(p) }

// resumptionHello completes one handshake with an in-process server and returns the ClientHello of a second connection
// that resumes the session (non-empty session ticket for TLS 1.2, pre_shared_key for TLS 1.3)
func resumptionHello(maxVer uint16, protos []string) []byte {
	cert := selfSigned()
	scfg := &tls.Config{Certificates: []tls.Certificate{cert}, MaxVersion: maxVer, NextProtos: protos}
	cache := tls.NewLRUClientSessionCache(4)
	var second []byte
	for round := 0; round < 2; round++ {
		c1, c2 := net.Pipe()
		go func() {
			srv := tls.Server(c2, scfg)
			srv.SetDeadline(time.Now().Add(2 * time.Second))
			if srv.Handshake() == nil {
				srv.Write([]byte("x"))
				buf := make([]byte, 16)
				srv.Read(buf)
			}
			c2.Close()
		}()
		var wrote []byte
		cl := tls.Client(recConn{c1, &wrote}, &tls.Config{ServerName: "example.com", InsecureSkipVerify: true, ClientSessionCache: cache, MaxVersion: maxVer, NextProtos: protos})
		cl.SetDeadline(time.Now().Add(2 * time.Second))
		if cl.Handshake() == nil {
			buf := make([]byte, 16)
			cl.Read(buf) // receive the session ticket(s)
		}
		cl.Close()
		if round == 1 && len(wrote) > 5 {
			l := int(binary.BigEndian.Uint16(wrote[3:5]))
			if len(wrote) >= 5+l {
				second = wrote[:5+l]
			}
		}
	}
	return second
}

func u16s[T ~uint16](xs []T) string {
	var s []string
	for _, x := range xs {
		s = append(s, fmt.Sprint(uint16(x)))
	}
	if len(s) == 0 {
		return "-"
	}
	return strings.Join(s, ",")
}

func infoLine(info ClientHelloInfo) string {
	var protos []string
	for _, p := range info.SupportedProtos {
		protos = append(protos, vhex([]byte(p)))
	}
	ps := "-"
	if len(protos) > 0 {
		ps = strings.Join(protos, ",")
	}
	return fmt.Sprintf("v=%d sni=%s alpn=%s vers=%s suites=%s curves=%s exts=%s", info.Version, vhex([]byte(info.ServerName)), ps,
		u16s(info.SupportedVersions), u16s(info.CipherSuites), u16s(info.SupportedCurves), u16s(info.Extensions))
}

func tlsConfigs(r *vrng) *tls.Config {
	cfg := &tls.Config{InsecureSkipVerify: true}
	names := []string{"", "example.com", "a.b.c.example.org", "xn--nxasmq6b.test", "localhost", strings.Repeat("a", 60) + ".example"}
	cfg.ServerName = names[r.intn(len(names))]
	switch r.intn(5) {
	case 1:
		cfg.NextProtos = []string{"h2", "http/1.1"}
	case 2:
		cfg.NextProtos = []string{"acme-tls/1"}
	case 3:
		cfg.NextProtos = []string{"h2"}
	case 4:
		cfg.NextProtos = []string{"a", strings.Repeat("p", 200), "http/1.1"}
	}
	switch r.intn(5) {
	case 1:
		cfg.MaxVersion = tls.VersionTLS12
	case 2:
		cfg.MinVersion = tls.VersionTLS13
	case 3:
		cfg.MinVersion, cfg.MaxVersion = tls.VersionTLS10, tls.VersionTLS11
	case 4:
		cfg.MaxVersion = tls.VersionTLS12
		cfg.CipherSuites = []uint16{tls.TLS_ECDHE_RSA_WITH_AES_128_GCM_SHA256, tls.TLS_RSA_WITH_AES_256_CBC_SHA}
	}
	switch r.intn(4) {
	case 1:
		cfg.CurvePreferences = []tls.CurveID{tls.X25519}
	case 2:
		cfg.CurvePreferences = []tls.CurveID{tls.CurveP256, tls.CurveP384}
	}
	if r.intn(4) == 0 {
		cfg.ClientSessionCache = tls.NewLRUClientSessionCache(4)
	}
	return cfg
}

func TestVerifTLS(t *testing.T) {
	out := vopen(t, "hello")
	defer out.close()
	ctx, cancel := caddy.NewContext(caddy.Context{Context: context.Background()})
	defer cancel()
	r := &vrng{vseed()*32452843 + 5}
	n := vcount(600)
	stats := map[string]int{}
	var base [][]byte
	for idx := 0; idx < n; idx++ {
		var rec []byte
		mutated := false
		if len(base) < 24 || r.intn(6) == 0 {
			if r.intn(4) == 0 {
				rec = resumptionHello(uint16(r.pick(tls.VersionTLS12, tls.VersionTLS13)), [][]string{nil, {"h2", "http/1.1"}}[r.intn(2)])
				stats["resumption hellos"]++
			} else {
				rec = firstFlight(tlsConfigs(r))
			}
			if len(rec) < 50 {
				idx--
				continue
			}
			if r.intn(5) == 0 {
				// what OpenSSL-style clients do and crypto/tls clients never do: the renegotiation signalling value 0x00ff among the
				// offered cipher suites (here in place of the last one); the hello stays well-formed and unmutated
				sidLen := int(rec[5+38])
				csOff := 5 + 39 + sidLen
				csLen := int(binary.BigEndian.Uint16(rec[csOff:]))
				if csLen >= 2 && csOff+2+csLen <= len(rec) {
					rec[csOff+csLen], rec[csOff+csLen+1] = 0x00, 0xff
					stats["hellos with SCSV 0x00ff"]++
				}
			}
			base = append(base, rec)
		} else {
			rec = append([]byte(nil), base[r.intn(len(base))]...)
			mutated = true
			body := rec[5:]
			switch r.intn(6) {
			case 0:
				body[r.intn(len(body))] ^= byte(1 << r.intn(8))
			case 1:
				body[r.intn(len(body))] = byte(r.pick(0, 1, 0x2e, 0xff, 16))
			case 2:
				rec = rec[:5+r.intn(len(body))]
			case 3:
				rec = append(rec, r.bytes(r.pick(1, 2, 5), 256)...)
			case 4:
				// append a dot to the server name if present, keeping lengths consistent is not attempted: a plain corruption
				if i := strings.Index(string(body), "example"); i > 0 {
					body[i+6] = '.'
				}
			case 5:
				i := 38 + r.intn(len(body)-38)
				body[i], body[min(i+1, len(body)-1)] = body[min(i+1, len(body)-1)], body[i]
			}
			binary.BigEndian.PutUint16(rec[3:5], uint16(len(rec)-5))
		}
		raw := rec[5:]
		fmt.Fprintf(out.cases, "hello %s\n", vhex(raw))
		out.cases.Flush()
		info := parseRawClientHello(raw)
		line := infoLine(info)
		fmt.Fprintln(out.out, line)
		stats[fmt.Sprintf("mutated=%v", mutated)]++
		if mutated {
			continue
		}
		// the terminating server's view of the same bytes
		sv := serverView(rec)
		if sv == nil {
			out.fail(idx, "server-rejected-hello", "crypto/tls did not report a ClientHelloInfo for a hello produced by a crypto/tls client")
			continue
		}
		switch {
		case info.ServerName != sv.ServerName:
			out.fail(idx, "sni-differs", fmt.Sprintf("matcher sees server name %q, Go's TLS server reports %q", info.ServerName, sv.ServerName))
		case !reflect.DeepEqual(append([]string{}, info.SupportedProtos...), append([]string{}, sv.SupportedProtos...)):
			out.fail(idx, "alpn-differs", fmt.Sprintf("matcher sees ALPN %q, Go's TLS server reports %q", info.SupportedProtos, sv.SupportedProtos))
		case !reflect.DeepEqual(append([]uint16{}, info.SupportedVersions...), append([]uint16{}, sv.SupportedVersions...)):
			out.fail(idx, "versions-differ", fmt.Sprintf("matcher sees versions %v, Go's TLS server reports %v", info.SupportedVersions, sv.SupportedVersions))
		case !reflect.DeepEqual(append([]uint16{}, info.CipherSuites...), append([]uint16{}, sv.CipherSuites...)):
			out.fail(idx, "suites-differ", fmt.Sprintf("matcher sees %d cipher suites, Go's TLS server reports %d", len(info.CipherSuites), len(sv.CipherSuites)))
		case u16s(info.SupportedCurves) != u16s(sv.SupportedCurves):
			out.fail(idx, "curves-differ", fmt.Sprintf("matcher sees curves %v, Go's TLS server reports %v", info.SupportedCurves, sv.SupportedCurves))
		}
		// the matcher proper: verdict and placeholders through the public Match, sni / alpn sub-matchers, fragments undecided
		m := &MatchTLS{}
		m.Provision(ctx)
		sc := &sconn{}
		cx := layer4.WrapConnection(sc, append([]byte(nil), rec...), zap.NewNop())
		ok, err := layer4.MatcherSet{m}.Match(cx)
		repl := cx.Context.Value(layer4.ReplacerCtxKey).(*caddy.Replacer)
		sn, _ := repl.GetString("l4.tls.server_name")
		if !ok || err != nil {
			out.fail(idx, "hello-not-matched", fmt.Sprintf("the tls matcher does not match a complete hello of a crypto/tls client (%v, %v)", ok, err))
		} else if sn != sv.ServerName {
			out.fail(idx, "placeholder-sni", fmt.Sprintf("{l4.tls.server_name} is %q, the TLS server would see %q", sn, sv.ServerName))
		}
		if len(sv.SupportedProtos) > 0 {
			am := MatchALPN{sv.SupportedProtos[len(sv.SupportedProtos)-1]}
			if !am.Match(&info.ClientHelloInfo) {
				out.fail(idx, "alpn-matcher", fmt.Sprintf("the alpn matcher for %q rejects a hello offering %q", am[0], sv.SupportedProtos))
			}
			nm := MatchALPN{"zz-not-offered"}
			if nm.Match(&info.ClientHelloInfo) {
				out.fail(idx, "alpn-matcher", "the alpn matcher accepts a protocol the hello does not offer")
			}
		}
		for _, k := range []int{1, 5, 6, len(rec) / 2, len(rec) - 1} {
			cx2 := layer4.WrapConnection(&sconn{}, append([]byte(nil), rec[:k]...), zap.NewNop())
			ok2, err2 := layer4.MatcherSet{m}.Match(cx2)
			if ok2 || err2 == nil {
				out.fail(idx, "incomplete-decided", fmt.Sprintf("the tls matcher decided (%v, %v) on the first %d of %d bytes of a hello", ok2, err2, k, len(rec)))
			}
		}
		// a second TLS layer on the same connection (TLS in TLS, or a subroute behind the tls handler): after the outer hello was
		// matched above, the connection is wrapped (as the tls handler does after terminating) and the wrapped stream starts with
		// another ClientHello, which the matcher must judge on its own bytes
		if idx%4 == 0 {
			inner := firstFlight(&tls.Config{ServerName: "inner.example", NextProtos: []string{"inner-proto"}, InsecureSkipVerify: true})
			if len(inner) > 50 {
				var routes layer4.RouteList
				if err := json.Unmarshal([]byte(`[{"match":[{"tls":{"sni":["inner.example"],"alpn":["inner-proto"]}}],"handle":[{"handler":"verif_tlsrec"}]}]`), &routes); err != nil {
					t.Fatal(err)
				}
				if err := routes.Provision(ctx); err != nil {
					t.Fatal(err)
				}
				cxB := cx.Wrap(&sconn{chunks: [][]byte{inner}})
				before := atomic.LoadInt32(&vTLSRecHits)
				_ = routes.Compile(zap.NewNop(), time.Second, layer4.HandlerFunc(func(*layer4.Connection) error { return nil })).Handle(cxB)
				snB, _ := cxB.Context.Value(layer4.ReplacerCtxKey).(*caddy.Replacer).GetString("l4.tls.server_name")
				if atomic.LoadInt32(&vTLSRecHits) == before {
					out.fail(idx, "nested-hello-mismatch", fmt.Sprintf("after the outer hello (server name %q) was matched and the connection wrapped, a route for the inner hello's own server name and protocol (inner.example, inner-proto) does not match it; {l4.tls.server_name} is %q", sv.ServerName, snB))
				}
				stats["nested hellos"]++
			}
		}
		nonHs := append([]byte(nil), rec...)
		nonHs[0] = byte(r.pick(0x14, 0x15, 0x17, 0x18, 0))
		cx3 := layer4.WrapConnection(&sconn{}, nonHs, zap.NewNop())
		if ok3, _ := (layer4.MatcherSet{m}).Match(cx3); ok3 {
			out.fail(idx, "non-handshake-matched", fmt.Sprintf("a record of type %#x matched the tls matcher", nonHs[0]))
		}
	}
	out.stats(stats)
}

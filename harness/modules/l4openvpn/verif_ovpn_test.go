package l4openvpn

// C06: the verdict of the OpenVPN matcher on a complete client reset message is a function of the message and the
// configuration — not of which digests earlier connections through the same matcher instance used. The auth-mode packets
// of the repository's own test file (signed with groupKey12Hex, one per HMAC digest) are evaluated in random orders on ONE
// provisioned matcher (no auth_digest configured: the matcher tries the digests itself and remembers the last one that
// authenticated); each verdict is compared with the verdict of a freshly provisioned matcher on the same bytes.

import (
	"context"
	"fmt"
	"net"
	"testing"

	"github.com/caddyserver/caddy/v2"
	"go.uber.org/zap"

	"github.com/mholt/caddy-l4/layer4"
)

func TestVerifOvpnState(t *testing.T) {
	out := vopen(t, "ovpnstate")
	defer out.close()
	ctx, cancel := caddy.NewContext(caddy.Context{Context: context.Background()})
	defer cancel()
	r := &vrng{vseed()*2750159 + 7}
	n := vcount(40)
	type pk struct {
		name string
		data []byte
	}
	packets := []pk{
		{"md5", authMD5Packet1}, {"sha1", authSHA1Packet1}, {"ripemd160", authRIPEMD160Packet1}, {"sha224", authSHA224Packet1},
		{"sha256", authSHA256Packet1}, {"sha384", authSHA384Packet1}, {"sha512", authSHA512Packet1}, {"sha512-224", authSHA512224Packet1},
		{"md5#2", authMD5Packet2}, {"sha1#2", authSHA1Packet2}, {"sha256#2", authSHA256Packet2}, {"plain", plainPacket1},
	}
	verdict := func(m *MatchOpenVPN, data []byte) string {
		sc := &sconn{local: &net.UDPAddr{IP: net.IPv4(127, 0, 0, 1), Port: 1194}, remote: &net.UDPAddr{IP: net.IPv4(127, 0, 0, 1), Port: 40000}}
		cx := layer4.WrapConnection(sc, append([]byte(nil), data...), zap.NewNop())
		ok, err := layer4.MatcherSet{m}.Match(cx)
		switch {
		case err != nil:
			return "more/err"
		case ok:
			return "yes"
		}
		return "no"
	}
	fresh := func() *MatchOpenVPN {
		m := &MatchOpenVPN{IgnoreTimestamp: true, GroupKey: groupKey12Hex}
		if err := m.Provision(ctx); err != nil {
			t.Fatal(err)
		}
		return m
	}
	stats := map[string]int{}
	for idx := 0; idx < n; idx++ {
		shared := fresh()
		k := 3 + r.intn(6)
		var order []string
		var sig, desc string
		for j := 0; j < k; j++ {
			p := packets[r.intn(len(packets))]
			order = append(order, p.name)
			want := verdict(fresh(), p.data)
			got := verdict(shared, p.data)
			stats["verdict "+want]++
			if got != want && sig == "" {
				sig = "verdict-depends-on-history:openvpn"
				desc = fmt.Sprintf("connection %d through one matcher instance (messages so far: %v): the %s message is answered %s, a freshly provisioned matcher answers %s on the same bytes", j+1, order, p.name, got, want)
			}
		}
		fmt.Fprintf(out.cases, "ovpnstate %v\n", order)
		if sig != "" {
			out.fail(idx, sig, desc)
			fmt.Fprintln(out.out, "FAIL")
		} else {
			fmt.Fprintln(out.out, "ok")
		}
	}
	out.stats(stats)
}

package l4socks

// C16: the real SOCKS5 handler behind scripted client dialogues; outbound actions are observed at a loopback target.

import (
	"context"
	"encoding/binary"
	"fmt"
	"io"
	"net"
	"os"
	"strings"
	"sync/atomic"
	"testing"
	"time"

	"github.com/caddyserver/caddy/v2"
	"go.uber.org/zap"

	"github.com/mholt/caddy-l4/layer4"
)

func TestVerifSocks5(t *testing.T) {
	out := vopen(t, "socks5")
	defer out.close()
	ctx, cancel := caddy.NewContext(caddy.Context{Context: context.Background()})
	defer cancel()
	os.Unsetenv("VERIF_UNSET_ENV")
	// the target of CONNECT requests: counts accepted connections
	target, err := net.Listen("tcp", "127.0.0.1:0")
	if err != nil {
		t.Fatal(err)
	}
	defer target.Close()
	var accepts atomic.Int64
	go func() {
		for {
			c, err := target.Accept()
			if err != nil {
				return
			}
			accepts.Add(1)
			c.Close()
		}
	}()
	tport := target.Addr().(*net.TCPAddr).Port
	r := &vrng{vseed()*86028121 + 9}
	n := vcount(400)
	stats := map[string]int{}
	for idx := 0; idx < n; idx++ {
		// configuration
		var commands []string
		var cmdTok []string
		for k := r.pick(0, 0, 1, 1, 2, 3); k > 0; k-- {
			c := []string{"CONNECT", "connect", "ASSOCIATE", "BIND", "bind", "{env.VERIF_UNSET_ENV}", "UDP"}[r.intn(7)]
			commands = append(commands, c)
			switch strings.ToUpper(c) {
			case "CONNECT":
				cmdTok = append(cmdTok, "1")
			case "BIND":
				cmdTok = append(cmdTok, "2")
			case "ASSOCIATE":
				cmdTok = append(cmdTok, "3")
			default:
				cmdTok = append(cmdTok, "x")
			}
		}
		creds := map[string]string{}
		var credTok []string
		for k := r.pick(0, 0, 1, 1, 2); k > 0; k-- {
			u := []string{"bob", "alice", "", "{env.VERIF_UNSET_ENV}", "b"}[r.intn(5)]
			p := []string{"pw", "", "secret", "{env.VERIF_UNSET_ENV}"}[r.intn(4)]
			if _, dup := creds[u]; dup {
				continue
			}
			creds[u] = p
			uu, pp := strings.ReplaceAll(u, "{env.VERIF_UNSET_ENV}", ""), strings.ReplaceAll(p, "{env.VERIF_UNSET_ENV}", "")
			credTok = append(credTok, vhex([]byte(uu))+":"+vhex([]byte(pp)))
		}
		// two raw names that resolve to the same (empty) name collapse in the handler's map in an unspecified order: avoid
		if _, a := creds[""]; a {
			if _, b := creds["{env.VERIF_UNSET_ENV}"]; b {
				delete(creds, "{env.VERIF_UNSET_ENV}")
				credTok = credTok[:0]
				for u, p := range creds {
					uu, pp := strings.ReplaceAll(u, "{env.VERIF_UNSET_ENV}", ""), strings.ReplaceAll(p, "{env.VERIF_UNSET_ENV}", "")
					credTok = append(credTok, vhex([]byte(uu))+":"+vhex([]byte(pp)))
				}
			}
		}
		h := &Socks5Handler{Commands: commands, Credentials: creds}
		// client
		var methods []byte
		for k := r.pick(1, 1, 2, 3); k > 0; k-- {
			methods = append(methods, byte(r.pick(0, 0, 2, 2, 1, 0x80)))
		}
		user := []string{"bob", "alice", "", "b", "mallory"}[r.intn(5)]
		pass := []string{"pw", "", "secret", "wrong"}[r.intn(4)]
		cmd := byte(r.pick(1, 1, 1, 2, 3, 3, 0, 4, 0xff))
		atyp := byte(r.pick(1, 1, 1, 3, 4, 9))
		var mt []string
		for _, m := range methods {
			mt = append(mt, fmt.Sprint(m))
		}
		parts := []string{"socks5", fmt.Sprint(len(cmdTok))}
		parts = append(parts, cmdTok...)
		parts = append(parts, fmt.Sprint(len(credTok)))
		parts = append(parts, credTok...)
		parts = append(parts, fmt.Sprint(len(mt)))
		parts = append(parts, mt...)
		parts = append(parts, vhex([]byte(user)), vhex([]byte(pass)), fmt.Sprint(cmd), fmt.Sprint(b2i(atyp != 9)))
		fmt.Fprintln(out.cases, strings.Join(parts, " "))
		out.cases.Flush()
		if err := h.Provision(ctx); err != nil {
			fmt.Fprintln(out.out, "provision-error")
			stats["provision-error"]++
			continue
		}
		before := accepts.Load()
		c1, c2 := net.Pipe()
		done := make(chan struct{})
		go func() {
			defer close(done)
			cx := layer4.WrapConnection(c2, nil, zap.NewNop())
			_ = h.Handle(cx, nil)
			c2.Close()
		}()
		outcome := func() string {
			c1.SetDeadline(time.Now().Add(3 * time.Second))
			c1.Write(append([]byte{5, byte(len(methods))}, methods...))
			rep := make([]byte, 2)
			if _, err := io.ReadFull(c1, rep); err != nil {
				return "closed-at-greeting"
			}
			if rep[1] == 0xff {
				return "no-acceptable-method"
			}
			if rep[1] == 2 {
				msg := append([]byte{1, byte(len(user))}, []byte(user)...)
				msg = append(append(msg, byte(len(pass))), []byte(pass)...)
				c1.Write(msg)
				st := make([]byte, 2)
				if _, err := io.ReadFull(c1, st); err != nil {
					return "closed-at-auth"
				}
				if st[1] != 0 {
					return "auth-failed"
				}
			}
			req := []byte{5, cmd, 0, atyp}
			switch atyp {
			case 1:
				req = append(req, 127, 0, 0, 1)
			case 3:
				req = append(append(req, 9), []byte("localhost")...)
			case 4:
				req = append(req, net.ParseIP("::1").To16()...)
			default:
				req = append(req, 1, 2, 3, 4)
			}
			req = binary.BigEndian.AppendUint16(req, uint16(tport))
			c1.Write(req)
			rp := make([]byte, 4)
			if _, err := io.ReadFull(c1, rp); err != nil {
				return "closed-at-request"
			}
			switch rp[1] {
			case 0:
				return fmt.Sprintf("act %d", cmd)
			case 2:
				return "rule-failure"
			case 7:
				return "command-not-supported"
			case 8:
				return "addr-type-not-supported"
			}
			return fmt.Sprintf("reply-%d", rp[1])
		}()
		c1.Close()
		select {
		case <-done:
		case <-time.After(3 * time.Second):
		}
		time.Sleep(2 * time.Millisecond)
		connected := accepts.Load() - before
		// CONNECT over IPv6 loopback may be refused by the sandbox (no ::1 listener): reply 5/4/3 count as "acted" for the model
		line := outcome
		if strings.HasPrefix(outcome, "reply-") && cmd == 1 {
			line = "act 1"
		}
		fmt.Fprintln(out.out, line)
		stats[strings.Fields(line)[0]]++
		// the property's own predicate, independent of the model
		enabled := map[byte]bool{}
		if len(commands) == 0 {
			enabled[1], enabled[3] = true, true
		}
		for _, c := range commands {
			switch strings.ToUpper(c) {
			case "CONNECT":
				enabled[1] = true
			case "BIND":
				enabled[2] = true
			case "ASSOCIATE":
				enabled[3] = true
			}
		}
		authOK := len(creds) == 0
		for u, p := range creds {
			uu, pp := strings.ReplaceAll(u, "{env.VERIF_UNSET_ENV}", ""), strings.ReplaceAll(p, "{env.VERIF_UNSET_ENV}", "")
			if uu != "" && uu == user && pp == pass {
				authOK = true
			}
		}
		acted := connected > 0 || strings.HasPrefix(outcome, "act ")
		switch {
		case acted && !enabled[cmd]:
			out.fail(idx, "disabled-command-served", fmt.Sprintf("command %d was executed (reply %q, %d outbound connections) although it is not enabled by commands=%v", cmd, outcome, connected, commands))
		case acted && !authOK:
			out.fail(idx, "unauthenticated-served", fmt.Sprintf("command %d was executed for user %q / %q although credentials %v are configured", cmd, user, pass, creds))
		case connected > 0 && cmd != 1:
			out.fail(idx, "outbound-without-connect", fmt.Sprintf("an outbound connection was made for command %d", cmd))
		}
	}
	out.stats(stats)
}

func b2i(b bool) int {
	if b {
		return 1
	}
	return 0
}

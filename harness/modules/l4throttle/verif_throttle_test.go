package l4throttle

// C17: the real throttle handler over an observed client connection.
//   stream "throttle"  — exact differential: Provision's defaults, the batch handed to the underlying conn, and the token
//                        bucket of golang.org/x/time/rate driven with explicit times (dyadic values: exact float arithmetic)
//   stream "thrtimed"  — real-time oracle: cumulative bytes pulled from the client(s) vs burst + rate × elapsed, latency
//                        before the first read, stream integrity (one-sided, with a small allowance)

import (
	"context"
	"fmt"
	"io"
	"sort"
	"strings"
	"sync"
	"testing"
	"time"

	"github.com/caddyserver/caddy/v2"
	"go.uber.org/zap"
	"golang.org/x/time/rate"

	"github.com/mholt/caddy-l4/layer4"
)

// obsConn is the client side: an endless patterned stream; every Read that reaches it is recorded
type obsRec struct {
	conn    int
	tcall   time.Time
	tret    time.Time
	lenp, n int
}
type obsShared struct {
	mu   sync.Mutex
	recs []obsRec
}
type obsConn struct {
	sconn
	sh    *obsShared
	id    int
	pos   int
	short int // if > 0 return at most this many bytes per read
	pace  time.Duration
}

func obsByte(id, pos int) byte { return byte(pos*7 + id*31 + pos/251) }

func (o *obsConn) Read(p []byte) (int, error) {
	tc := time.Now()
	n := len(p)
	if o.short > 0 && n > o.short {
		n = o.short
	}
	for i := 0; i < n; i++ {
		p[i] = obsByte(o.id, o.pos+i)
	}
	o.pos += n
	if o.pace > 0 {
		time.Sleep(o.pace)
	}
	tr := time.Now()
	o.sh.mu.Lock()
	o.sh.recs = append(o.sh.recs, obsRec{o.id, tc, tr, len(p), n})
	o.sh.mu.Unlock()
	return n, nil
}

func newThrottle(t *testing.T, ctx caddy.Context, rps float64, burst int, trps float64, tburst int, lat time.Duration) (*Handler, error) {
	h := &Handler{ReadBytesPerSecond: rps, ReadBurstSize: burst, TotalReadBytesPerSecond: trps, TotalReadBurstSize: tburst, Latency: caddy.Duration(lat)}
	err := h.Provision(ctx)
	return h, err
}

func TestVerifThrottle(t *testing.T) {
	out := vopen(t, "throttle")
	defer out.close()
	ctx, cancel := caddy.NewContext(caddy.Context{Context: context.Background()})
	defer cancel()
	r := &vrng{vseed()*7919 + 17}
	n := vcount(3000)
	stats := map[string]int{}
	idx := 0
	emit := func(c, g string) {
		fmt.Fprintln(out.cases, c)
		fmt.Fprintln(out.out, g)
		idx++
	}
	for k := 0; k < n; k++ {
		switch k % 3 {
		case 0:
			// Provision: default burst and whether a limiter exists
			rn := r.pick(0, 0, 1, 2, 3, 5, 7, 10, 4096, 65537, 1<<20+3)
			rd := r.pick(1, 1, 2, 4)
			b := r.pick(0, 0, 0, 1, 2, 7, 4096)
			rps := float64(rn) / float64(rd)
			h, err := newThrottle(t, ctx, rps, b, rps, b, 0)
			if err != nil {
				t.Fatalf("provision: %v", err)
			}
			got := fmt.Sprintf("burst=%d has=%d", h.TotalReadBurstSize, map[bool]int{false: 0, true: 1}[h.totalLimiter != nil])
			if h.ReadBurstSize != h.TotalReadBurstSize {
				out.fail(idx, "provision-asymmetric", fmt.Sprintf("same rate/burst give local burst %d, total burst %d", h.ReadBurstSize, h.TotalReadBurstSize))
			}
			if rps > 0 && h.TotalReadBurstSize <= 0 {
				out.fail(idx, "provision-zero-burst", "a positive rate was provisioned with a zero burst: every read would be refused")
			}
			stats["prov"]++
			emit(fmt.Sprintf("throttle prov %d %d %d", rn, rd, b), got)
		case 1:
			// the batch that reaches the underlying conn for a caller buffer of p bytes
			hasT, hasL := r.intn(2), r.intn(2)
			tB, lB := r.pick(1, 2, 5, 64, 1000, 4096, 70000), r.pick(1, 3, 5, 64, 999, 4096, 70000)
			p := r.pick(1, 2, 4, 5, 63, 64, 65, 1000, 4095, 4096, 4097, 65536, 100000)
			var trps, rps float64
			tb, lb := 0, 0
			if hasT == 1 {
				trps, tb = 1e9, tB
			}
			if hasL == 1 {
				rps, lb = 1e9, lB
			}
			h, err := newThrottle(t, ctx, rps, lb, trps, tb, 0)
			if err != nil {
				t.Fatalf("provision: %v", err)
			}
			sh := &obsShared{}
			oc := &obsConn{sh: sh}
			cx := layer4.WrapConnection(oc, []byte{}, zap.NewNop())
			var gotN int
			err = h.Handle(cx, layer4.HandlerFunc(func(cx *layer4.Connection) error {
				buf := make([]byte, p)
				var e error
				gotN, e = cx.Read(buf)
				return e
			}))
			g := "error"
			if err == nil && len(sh.recs) == 1 {
				g = fmt.Sprintf("batch=%d", sh.recs[0].lenp)
				if gotN != sh.recs[0].n {
					out.fail(idx, "read-count", fmt.Sprintf("underlying conn returned %d bytes, Read reported %d", sh.recs[0].n, gotN))
				}
			} else if err != nil {
				out.fail(idx, "read-refused", fmt.Sprintf("a read of %d bytes failed: %v", p, err))
			}
			stats["batch"]++
			emit(fmt.Sprintf("throttle batch %d %d %d %d %d", hasT, tB, hasL, lB, p), g)
		case 2:
			// x/time/rate token bucket with explicit times (supports the model's reservation rule)
			burst := r.pick(1, 4, 64, 1000, 4096)
			rate2 := r.pick(256, 512, 1024, 4096, 1<<20)
			lim := rate.NewLimiter(rate.Limit(rate2), burst)
			ops := 1 + r.intn(12)
			t0 := time.Unix(1700000000, 0)
			tt := t0
			var cs, gs []string
			for i := 0; i < ops; i++ {
				dt := time.Duration(r.pick(0, 0, 1, 1, 2, 3, 8, 64, 600)) * 1953125
				nn := 1 + r.intn(burst)
				tt = tt.Add(dt)
				res := lim.ReserveN(tt, nn)
				cs = append(cs, fmt.Sprintf("%d %d", int64(dt), nn))
				gs = append(gs, fmt.Sprintf("%d", int64(res.DelayFrom(tt))))
			}
			stats["bucket"]++
			emit(fmt.Sprintf("throttle bucket %d %d 1 %d %s", burst, rate2, ops, strings.Join(cs, " ")), strings.Join(gs, " "))
		}
	}
	out.stats(stats)
}

// ---- real-time oracle ----

type thrScenario struct {
	rps, trps     float64
	burst, tburst int
	lat           time.Duration
	conns         int
	bufSize       int
	short         int
	dur           time.Duration
}

func (s thrScenario) String() string {
	return fmt.Sprintf("thr rps=%g burst=%d trps=%g tburst=%d lat=%dms conns=%d buf=%d short=%d dur=%dms", s.rps, s.burst, s.trps, s.tburst,
		s.lat.Milliseconds(), s.conns, s.bufSize, s.short, s.dur.Milliseconds())
}

type thrResult struct {
	summary string
	fails   [][2]string
}

func runThrScenario(ctx caddy.Context, sc thrScenario) thrResult {
	var res thrResult
	h := &Handler{ReadBytesPerSecond: sc.rps, ReadBurstSize: sc.burst, TotalReadBytesPerSecond: sc.trps, TotalReadBurstSize: sc.tburst, Latency: caddy.Duration(sc.lat)}
	if err := h.Provision(ctx); err != nil {
		res.summary = "provision-error"
		return res
	}
	sh := &obsShared{}
	var wg sync.WaitGroup
	starts := make([]time.Time, sc.conns)
	integrity := make([]string, sc.conns)
	delivered := make([]int, sc.conns)
	for c := 0; c < sc.conns; c++ {
		wg.Add(1)
		go func(c int) {
			defer wg.Done()
			oc := &obsConn{sh: sh, id: c, short: sc.short}
			if sc.rps == 0 && sc.trps == 0 && sc.burst == 0 && sc.tburst == 0 {
				oc.pace = time.Millisecond
			}
			cx := layer4.WrapConnection(oc, []byte{}, zap.NewNop())
			cctx, cancel := context.WithCancel(cx.Context)
			cx.Context = cctx
			stop := time.AfterFunc(sc.dur, cancel)
			defer stop.Stop()
			defer cancel()
			starts[c] = time.Now()
			end := starts[c].Add(sc.dur)
			_ = h.Handle(cx, layer4.HandlerFunc(func(cx *layer4.Connection) error {
				buf := make([]byte, sc.bufSize)
				pos := 0
				for time.Now().Before(end) {
					n, err := cx.Read(buf)
					for i := 0; i < n; i++ {
						if buf[i] != obsByte(c, pos+i) && integrity[c] == "" {
							integrity[c] = fmt.Sprintf("conn %d: byte at stream offset %d differs from what the client sent", c, pos+i)
						}
					}
					pos += n
					delivered[c] = pos
					if err != nil {
						if err != io.EOF && !strings.Contains(err.Error(), "context canceled") && !strings.Contains(err.Error(), "would exceed") {
							integrity[c] = "read error: " + err.Error()
						}
						return nil
					}
				}
				return nil
			}))
		}(c)
	}
	wg.Wait()
	sh.mu.Lock()
	recs := append([]obsRec(nil), sh.recs...)
	sh.mu.Unlock()
	sort.SliceStable(recs, func(i, j int) bool { return recs[i].tret.Before(recs[j].tret) })
	add := func(sig, desc string) { res.fails = append(res.fails, [2]string{sig, desc}) }
	// provisioned limits
	lBurst, tBurst := float64(h.ReadBurstSize), float64(h.TotalReadBurstSize)
	hasL := sc.rps > 0 || h.ReadBurstSize > 0
	hasT := sc.trps > 0 || h.TotalReadBurstSize > 0
	const slack = 3 * time.Millisecond
	// per connection
	total := 0
	perConn := make([]int, sc.conns)
	first := make([]time.Time, sc.conns)
	var firstAll time.Time
	for _, rc := range recs {
		if first[rc.conn].IsZero() || rc.tcall.Before(first[rc.conn]) {
			first[rc.conn] = rc.tcall
		}
		if firstAll.IsZero() || rc.tcall.Before(firstAll) {
			firstAll = rc.tcall
		}
	}
	reportedL, reportedT := false, false
	for _, rc := range recs {
		perConn[rc.conn] += rc.n
		total += rc.n
		if hasL && !reportedL {
			el := rc.tret.Sub(first[rc.conn]) + slack
			bound := lBurst + sc.rps*el.Seconds() + 1
			if float64(perConn[rc.conn]) > bound {
				add("per-conn-bound", fmt.Sprintf("conn %d had read %d bytes %.1f ms after its first read: more than burst %d + %g B/s × elapsed = %.0f",
					rc.conn, perConn[rc.conn], float64(rc.tret.Sub(first[rc.conn]).Microseconds())/1000, h.ReadBurstSize, sc.rps, bound))
				reportedL = true
			}
		}
		if hasT && !reportedT {
			el := rc.tret.Sub(firstAll) + slack
			bound := tBurst + sc.trps*el.Seconds() + 1
			if float64(total) > bound {
				add("total-bound", fmt.Sprintf("%d connections together had read %d bytes %.1f ms after the first read: more than total burst %d + %g B/s × elapsed = %.0f",
					sc.conns, total, float64(rc.tret.Sub(firstAll).Microseconds())/1000, h.TotalReadBurstSize, sc.trps, bound))
				reportedT = true
			}
		}
		if rc.lenp > sc.bufSize || (hasL && rc.lenp > h.ReadBurstSize) || (hasT && rc.lenp > h.TotalReadBurstSize) {
			add("batch-exceeds", fmt.Sprintf("the client conn was asked for %d bytes (caller buffer %d, burst %d, total burst %d)", rc.lenp, sc.bufSize, h.ReadBurstSize, h.TotalReadBurstSize))
		}
	}
	for c := 0; c < sc.conns; c++ {
		if !first[c].IsZero() && first[c].Sub(starts[c]) < sc.lat-2*time.Millisecond {
			add("latency", fmt.Sprintf("conn %d: first read from the client %.1f ms after Handle, configured latency %d ms", c,
				float64(first[c].Sub(starts[c]).Microseconds())/1000, sc.lat.Milliseconds()))
		}
		if integrity[c] != "" {
			add("stream", integrity[c])
		}
		if delivered[c] != perConn[c] {
			add("stream", fmt.Sprintf("conn %d: %d bytes pulled from the client, %d delivered to the next handler", c, perConn[c], delivered[c]))
		}
		if first[c].IsZero() && !hasT && sc.dur > sc.lat+150*time.Millisecond {
			add("no-progress", fmt.Sprintf("conn %d: nothing was read although the latency of %d ms had long passed", c, sc.lat.Milliseconds()))
		}
	}
	// progress: a limiter with a positive rate must not starve the connection (liveness sanity; generous)
	res.summary = fmt.Sprintf("reads=%d total=%d", len(recs), total)
	return res
}

func TestVerifThrottleTimed(t *testing.T) {
	out := vopen(t, "thrtimed")
	defer out.close()
	ctx, cancel := caddy.NewContext(caddy.Context{Context: context.Background()})
	defer cancel()
	r := &vrng{vseed()*104729 + 5}
	n := vcount(24)
	var scs []thrScenario
	for k := 0; k < n; k++ {
		sc := thrScenario{dur: time.Duration(r.pick(350, 450, 600)) * time.Millisecond, conns: r.pick(1, 1, 2, 3, 4, 8), bufSize: r.pick(512, 4096, 32768, 65536)}
		rates := []float64{2048, 8192, 16384, 65536, 262144, 1 << 20}
		switch k % 6 {
		case 0: // per-connection limit only
			sc.rps = rates[r.intn(len(rates))]
			sc.burst = r.pick(0, 0, 512, 4096)
		case 1: // total limit only
			sc.trps = rates[r.intn(len(rates))]
			sc.tburst = r.pick(0, 0, 512, 4096)
		case 2: // both, total tighter
			sc.trps = rates[r.intn(3)]
			sc.rps = sc.trps * float64(r.pick(2, 4, 8))
			sc.burst, sc.tburst = r.pick(0, 1024, 4096), r.pick(0, 1024, 2048)
		case 3: // both, local tighter
			sc.rps = rates[r.intn(3)]
			sc.trps = sc.rps * float64(sc.conns) * float64(r.pick(2, 4))
			sc.burst, sc.tburst = r.pick(0, 1024, 2048), r.pick(0, 4096)
		case 4: // latency only (no limiter at all) or latency with a limiter
			sc.lat = time.Duration(r.pick(60, 120, 200)) * time.Millisecond
			if r.intn(2) == 0 {
				sc.rps = rates[2+r.intn(3)]
			}
			sc.short = 4096
			sc.dur = 300 * time.Millisecond
		case 5: // short reads from the client, both limiters, latency
			sc.rps, sc.trps = rates[1+r.intn(3)], rates[1+r.intn(3)]
			sc.short = r.pick(1, 100, 1000)
			sc.lat = time.Duration(r.pick(0, 40)) * time.Millisecond
			sc.burst, sc.tburst = r.pick(0, 256, 4096), r.pick(0, 256, 4096)
		}
		if sc.rps == 0 && sc.trps == 0 && sc.short == 0 {
			sc.short = 4096
		}
		scs = append(scs, sc)
	}
	results := make([]thrResult, len(scs))
	const par = 6
	for base := 0; base < len(scs); base += par {
		var wg sync.WaitGroup
		for i := base; i < base+par && i < len(scs); i++ {
			wg.Add(1)
			go func(i int) {
				defer wg.Done()
				results[i] = runThrScenario(ctx, scs[i])
				// a timing verdict is reported only if it reproduces three times
				if len(results[i].fails) > 0 {
					for rep := 0; rep < 2; rep++ {
						again := runThrScenario(ctx, scs[i])
						if len(again.fails) == 0 {
							results[i].fails = nil
							break
						}
					}
				}
			}(i)
		}
		wg.Wait()
	}
	kinds := map[string]int{}
	for i, sc := range scs {
		fmt.Fprintln(out.cases, sc.String())
		fmt.Fprintln(out.out, results[i].summary)
		for _, f := range results[i].fails {
			out.fail(i, f[0], f[1])
		}
		kinds[fmt.Sprintf("kind%d", i%6)]++
	}
	out.stats(kinds)
}

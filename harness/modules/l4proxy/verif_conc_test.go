package l4proxy

// C08: state shared between connections (round-robin counter, peer counters) under concurrent use.

import (
	"fmt"
	"sync"
	"testing"
)

func TestVerifLBConcurrent(t *testing.T) {
	out := vopen(t, "lbconc")
	defer out.close()
	r := &vrng{vseed()*1299709 + 3}
	n := vcount(6)
	for idx := 0; idx < n; idx++ {
		size := r.pick(2, 3, 5, 7)
		workers := r.pick(4, 8, 16)
		per := 3000 * size
		var pool UpstreamPool
		for i := 0; i < size; i++ {
			pool = append(pool, &Upstream{Dial: []string{fmt.Sprintf("10.0.0.%d:80", i+1)}, peers: []*peer{{}}})
		}
		rr := &RoundRobinSelection{}
		counts := make([][]int, workers)
		var wg sync.WaitGroup
		for w := 0; w < workers; w++ {
			counts[w] = make([]int, size)
			wg.Add(1)
			go func(w int) {
				defer wg.Done()
				for k := 0; k < per; k++ {
					u := rr.Select(pool, nil)
					for i, x := range pool {
						if x == u {
							counts[w][i]++
						}
					}
					// peer counters are touched concurrently as well
					_ = pool[k%size].peers[0].countConn(1)
					_ = pool[k%size].peers[0].countConn(-1)
				}
			}(w)
		}
		wg.Wait()
		total := make([]int, size)
		for w := range counts {
			for i, c := range counts[w] {
				total[i] += c
			}
		}
		fmt.Fprintf(out.cases, "lbconc size=%d workers=%d per=%d\n", size, workers, per)
		want := workers * per / size
		ok := true
		for _, c := range total {
			if c != want {
				ok = false
			}
		}
		if !ok {
			out.fail(idx, "round-robin-turns-lost", fmt.Sprintf("%d workers × %d selections over %d always-available upstreams were distributed %v instead of %d each: concurrent selections took the same turn", workers, per, size, total, want))
			fmt.Fprintf(out.out, "FAIL %v\n", total)
		} else {
			fmt.Fprintf(out.out, "ok %d each over %d upstreams (%d workers)\n", want, size, workers)
		}
		for i, u := range pool {
			if c := u.peers[0].getNumConns(); c != 0 {
				out.fail(idx, "peer-counter-drift", fmt.Sprintf("peer %d connection counter is %d after balanced concurrent +1/-1", i, c))
			}
		}
	}
	out.stats(map[string]int{"histories": n})
}

package l4proxy

// C03: the real Handler.Handle / proxy relaying between a real client socket and 1-3 loopback upstream servers.
// Fault-free scenarios are compared with the terminal state of the Lean relay model (exact); every scenario is judged by the
// property's own predicates (byte-exact per direction, end-of-stream propagation, handler return, upstream connections closed).

import (
	"bytes"
	"context"
	"errors"
	"fmt"
	"io"
	"net"
	"os"
	"runtime"
	"strings"
	"sync"
	"testing"
	"time"

	"github.com/caddyserver/caddy/v2"
	"go.uber.org/zap"

	"github.com/mholt/caddy-l4/layer4"
)

type relayUpScript struct {
	now, held []relayChunk // sent at once / only after the client's end-of-stream was seen
	resetAfter int     // >= 0: abrupt close after reading that many bytes
	delay      func()
}

type relayUpResult struct {
	got    []byte
	eof    bool // Read returned io.EOF (not an error)
	err    string
	done   chan struct{}
}

type relayUp struct {
	ln     net.Listener
	dial   string
	mu     sync.Mutex
	script *relayUpScript
	res    *relayUpResult
}

func newRelayUp(t *testing.T, unix bool, dir string, i int) *relayUp {
	var ln net.Listener
	var err error
	u := &relayUp{}
	if unix {
		p := fmt.Sprintf("%s/u%d.sock", dir, i)
		ln, err = net.Listen("unix", p)
		u.dial = "unix/" + p
	} else {
		ln, err = net.Listen("tcp", "127.0.0.1:0")
		if err == nil {
			u.dial = ln.Addr().String()
		}
	}
	if err != nil {
		t.Fatal(err)
	}
	u.ln = ln
	go func() {
		for {
			c, err := ln.Accept()
			if err != nil {
				return
			}
			u.mu.Lock()
			sc, res := u.script, u.res
			u.mu.Unlock()
			go serveRelayUp(c, sc, res)
		}
	}()
	return u
}

type halfCloser interface{ CloseWrite() error }

func abruptClose(c net.Conn) {
	if tc, ok := c.(*net.TCPConn); ok {
		_ = tc.SetLinger(0)
	}
	_ = c.Close()
}

func serveRelayUp(c net.Conn, sc *relayUpScript, res *relayUpResult) {
	defer close(res.done)
	if sc == nil {
		c.Close()
		return
	}
	readDone := make(chan struct{})
	go func() {
		defer close(readDone)
		buf := make([]byte, 32<<10)
		for {
			n, err := c.Read(buf)
			res.got = append(res.got, buf[:n]...)
			if sc.resetAfter >= 0 && len(res.got) >= sc.resetAfter {
				abruptClose(c)
				res.err = "reset-by-script"
				return
			}
			if err != nil {
				if errors.Is(err, io.EOF) {
					res.eof = true
				} else {
					res.err = err.Error()
				}
				return
			}
		}
	}()
	for _, ch := range sc.now {
		sc.delay()
		if _, err := c.Write(ch.b); err != nil {
			break
		}
	}
	if len(sc.held) > 0 {
		<-readDone
		for _, ch := range sc.held {
			sc.delay()
			if _, err := c.Write(ch.b); err != nil {
				break
			}
		}
	}
	if sc.resetAfter < 0 {
		if hc, ok := c.(halfCloser); ok {
			_ = hc.CloseWrite()
		}
	}
	<-readDone
	if sc.resetAfter < 0 {
		c.Close()
	}
}

func countFDs() int {
	ents, err := os.ReadDir("/proc/self/fd")
	if err != nil {
		return -1
	}
	n := 0
	for _, e := range ents {
		l, err := os.Readlink("/proc/self/fd/" + e.Name())
		if err == nil && strings.HasPrefix(l, "socket:") {
			n++
		}
	}
	return n
}

func settle(f func() bool) bool {
	for i := 0; i < 400; i++ {
		if f() {
			return true
		}
		time.Sleep(5 * time.Millisecond)
	}
	return f()
}

// a chunk is described by (base, span, seed, len): byte q = base + splitmix(seed)_q % span; the Lean driver expands the same descriptor
type relayChunk struct {
	b    []byte
	desc string
}

func mkRelayChunk(base, span int, seed uint64, sz int) relayChunk {
	seed &= 0xffffffff
	b := make([]byte, sz)
	x := &vrng{seed}
	for q := range b {
		b[q] = byte(base + x.intn(span))
	}
	return relayChunk{b, fmt.Sprintf("g%d.%d.%d.%d", base, span, seed, sz)}
}

func relayChunks(r *vrng, tagBase, tagSpan int, big bool) []relayChunk {
	var out []relayChunk
	n := r.pick(0, 1, 1, 2, 3, 5)
	for j := 0; j < n; j++ {
		sz := r.pick(1, 2, 10, 100, 1000, 5000)
		if big && r.intn(4) == 0 {
			sz = r.pick(70000, 200000, 600000)
		}
		out = append(out, mkRelayChunk(tagBase, tagSpan, r.next(), sz))
	}
	return out
}

func chunkToks(cs []relayChunk) string {
	var sb strings.Builder
	fmt.Fprintf(&sb, "%d", len(cs))
	for _, c := range cs {
		sb.WriteString(" " + c.desc)
	}
	return sb.String()
}

func TestVerifRelay(t *testing.T) {
	out := vopen(t, "relay")
	defer out.close()
	ctx, cancel := caddy.NewContext(caddy.Context{Context: context.Background()})
	defer cancel()
	dir := t.TempDir()
	var ups [2][]*relayUp // [tcp|unix][i]
	for kind := 0; kind < 2; kind++ {
		for i := 0; i < 3; i++ {
			u := newRelayUp(t, kind == 1, dir, i)
			defer u.ln.Close()
			ups[kind] = append(ups[kind], u)
		}
	}
	handlers := map[string]*Handler{}
	getHandler := func(kind, k int) *Handler {
		key := fmt.Sprintf("%d/%d", kind, k)
		if h, ok := handlers[key]; ok {
			return h
		}
		var dial []string
		for i := 0; i < k; i++ {
			dial = append(dial, ups[kind][i].dial)
		}
		h := &Handler{Upstreams: UpstreamPool{&Upstream{Dial: dial}}}
		if err := h.Provision(ctx); err != nil {
			t.Fatal(err)
		}
		handlers[key] = h
		return h
	}
	cln, err := net.Listen("tcp", "127.0.0.1:0")
	if err != nil {
		t.Fatal(err)
	}
	defer cln.Close()

	r := &vrng{vseed()*15485863 + 41}
	n := vcount(150)
	stats := map[string]int{}
	baseG := 0
	nfail := 0
	fail := func(idx int, sig, desc string) { nfail++; out.fail(idx, sig, desc) }
	for idx := 0; idx < n; idx++ {
		k := r.pick(1, 1, 2, 2, 3)
		kind := r.pick(0, 0, 0, 1)
		fault := r.pick(0, 0, 0, 0, 0, 0, 1, 2) // none | client reset | upstream reset
		faultUp := r.intn(k)
		mode := r.intn(3) // 0: client finishes promptly; 1: client half-closes only after it saw end-of-stream; 2: client half-closes after a pause
		big := r.intn(3) == 0
		preC := mkRelayChunk(0, 200, r.next(), r.pick(0, 0, 1, 50, 2048, 4000, 8192, 8193, 9000, 10239))
		pre := preC.b
		pause := r.pick(1, 3, 8)
		dr := &vrng{r.next()}
		cchunks := relayChunks(r, 0, 200, big)
		scripts := make([]*relayUpScript, k)
		anyHeld := false
		delay := func() {
			if d := dr.pick(0, 0, 0, 1, 2); d > 0 {
				time.Sleep(time.Duration(d) * time.Millisecond)
			}
		}
		var dmu sync.Mutex
		sdelay := func() { dmu.Lock(); defer dmu.Unlock(); delay() }
		for i := 0; i < k; i++ {
			sc := &relayUpScript{resetAfter: -1, delay: sdelay}
			sc.now = relayChunks(r, 200+18*i, 18, big)
			if mode != 1 && r.intn(3) == 0 {
				sc.held = relayChunks(r, 200+18*i, 18, false)
				if len(sc.held) > 0 {
					anyHeld = true
				}
			}
			scripts[i] = sc
		}
		var sentC []byte
		sentC = append(sentC, pre...)
		for _, c := range cchunks {
			sentC = append(sentC, c.b...)
		}
		if fault == 2 {
			scripts[faultUp].resetAfter = r.intn(len(sentC) + 1)
		}
		clientResetAfter := -1
		if fault == 1 {
			clientResetAfter = r.intn(len(cchunks) + 1)
		}
		// ---- case line for the model
		var sb strings.Builder
		fmt.Fprintf(&sb, "relay %d %d %d %s %s", k, fault, mode, preC.desc, chunkToks(cchunks))
		for i := 0; i < k; i++ {
			fmt.Fprintf(&sb, " %s %s", chunkToks(scripts[i].now), chunkToks(scripts[i].held))
		}
		fmt.Fprintf(&sb, " %d", r.intn(1000))
		fmt.Fprintln(out.cases, sb.String())
		stats[fmt.Sprintf("k=%d", k)]++
		stats[fmt.Sprintf("fault=%d", fault)]++
		stats[fmt.Sprintf("mode=%d", mode)]++
		if anyHeld {
			stats["held-back-response"]++
		}
		if kind == 1 {
			stats["unix-upstreams"]++
		}

		// ---- run against the real handler
		runtime.GC()
		if idx == 0 {
			baseG = runtime.NumGoroutine()
		}
		fd0 := countFDs()
		results := make([]*relayUpResult, k)
		for i := 0; i < k; i++ {
			results[i] = &relayUpResult{done: make(chan struct{})}
			u := ups[kind][i]
			u.mu.Lock()
			u.script, u.res = scripts[i], results[i]
			u.mu.Unlock()
		}
		cc, err := net.Dial("tcp", cln.Addr().String())
		if err != nil {
			t.Fatal(err)
		}
		sc, err := cln.Accept()
		if err != nil {
			t.Fatal(err)
		}
		h := getHandler(kind, k)
		cx := layer4.WrapConnection(sc, append(make([]byte, 0, len(pre)+16), pre...), zap.NewNop())
		retCh := make(chan error, 1)
		go func() { retCh <- h.Handle(cx, nil) }()

		var clGot []byte
		clEOF := false
		clErr := ""
		clReadDone := make(chan struct{})
		sawEOF := make(chan struct{})
		go func() {
			defer close(clReadDone)
			buf := make([]byte, 32<<10)
			for {
				nn, err := cc.Read(buf)
				clGot = append(clGot, buf[:nn]...)
				if err != nil {
					if errors.Is(err, io.EOF) {
						clEOF = true
						close(sawEOF)
					} else {
						clErr = err.Error()
					}
					return
				}
			}
		}()
		clWriteDone := make(chan struct{})
		go func() {
			defer close(clWriteDone)
			for j, ch := range cchunks {
				if clientResetAfter == j {
					abruptClose(cc)
					return
				}
				sdelay()
				if _, err := cc.Write(ch.b); err != nil {
					return
				}
			}
			if clientResetAfter == len(cchunks) {
				abruptClose(cc)
				return
			}
			switch mode {
			case 1:
				if !anyHeld {
					select {
					case <-sawEOF:
					case <-time.After(8 * time.Second):
					}
				}
			case 2:
				time.Sleep(time.Duration(pause) * time.Millisecond)
			}
			_ = cc.(*net.TCPConn).CloseWrite()
		}()

		returned := false
		select {
		case <-retCh:
			returned = true
		case <-time.After(12 * time.Second):
		}
		// what layer4.Server.handle does after the handler chain returns
		_ = cx.Close()
		waitOr := func(ch chan struct{}) bool {
			select {
			case <-ch:
				return true
			case <-time.After(3 * time.Second):
				return false
			}
		}
		joined := waitOr(clWriteDone) && waitOr(clReadDone)
		for i := 0; i < k; i++ {
			if !waitOr(results[i].done) {
				joined = false
			}
		}
		cc.Close()
		if !returned {
			// release whatever is stuck so that the next scenario starts clean
			for i := 0; i < k; i++ {
				u := ups[kind][i]
				_ = u
			}
		}
		leak := 0
		fdOK := settle(func() bool { leak = countFDs() - fd0; return leak <= 0 })
		gOK := settle(func() bool { return runtime.NumGoroutine() <= baseG+1 })

		// ---- observation line
		var ob strings.Builder
		b2i := func(b bool) int {
			if b {
				return 1
			}
			return 0
		}
		fmt.Fprintf(&ob, "ret=%d cleof=%d", b2i(returned), b2i(clEOF))
		for i := 0; i < k; i++ {
			var mine []byte
			lo, hi := byte(200+18*i), byte(200+18*i+18)
			for _, b := range clGot {
				if b >= lo && b < hi {
					mine = append(mine, b)
				}
			}
			var sentU []byte
			for _, c := range scripts[i].now {
				sentU = append(sentU, c.b...)
			}
			for _, c := range scripts[i].held {
				sentU = append(sentU, c.b...)
			}
			fmt.Fprintf(&ob, " | u%d recv=%s eof=%d cl=%s closed=%d", i, vdigest(results[i].got), b2i(results[i].eof), vdigest(mine), b2i(fdOK))
			// ---- the property's predicates
			got := results[i].got
			if !bytes.HasPrefix(sentC, got) {
				fail(idx, "upstream-stream", fmt.Sprintf("upstream %d received %d bytes that are not a prefix of the client's %d-byte stream (first difference at %d)", i, len(got), len(sentC), firstDiff(sentC, got)))
			} else if fault == 0 && !bytes.Equal(sentC, got) {
				fail(idx, "upstream-stream", fmt.Sprintf("upstream %d received only %d of the client's %d bytes (prefetched %d) although nobody closed abruptly", i, len(got), len(sentC), len(pre)))
			}
			if !bytes.HasPrefix(sentU, mine) {
				fail(idx, "client-stream", fmt.Sprintf("the client received %d bytes of upstream %d that are not a prefix of what it sent (%d bytes; first difference at %d)", len(mine), i, len(sentU), firstDiff(sentU, mine)))
			} else if fault == 0 && !bytes.Equal(sentU, mine) {
				fail(idx, "client-stream", fmt.Sprintf("the client received only %d of the %d bytes upstream %d sent although nobody closed abruptly", len(mine), len(sentU), i))
			}
			if fault == 0 && !results[i].eof {
				fail(idx, "eof-not-propagated", fmt.Sprintf("upstream %d never observed end-of-stream after the client half-closed (read error %q)", i, results[i].err))
			}
		}
		if fault == 0 && !clEOF {
			fail(idx, "eof-not-propagated", fmt.Sprintf("the client never observed end-of-stream after every upstream half-closed (read error %q)", clErr))
		}
		if len(clGot) > 0 {
			for _, b := range clGot {
				if b < 200 || int(b) >= 200+18*k {
					fail(idx, "client-stream", fmt.Sprintf("the client received byte %d that no upstream sent", b))
					break
				}
			}
		}
		if !returned {
			fail(idx, "handler-not-returned", fmt.Sprintf("Handle did not return within 12 s (k=%d fault=%d mode=%d held=%v)", k, fault, mode, anyHeld))
		} else {
			if !fdOK {
				fail(idx, "upstream-conn-leaked", fmt.Sprintf("%d socket(s) still open after Handle returned and every peer closed its side", leak))
			}
			if !gOK && joined {
				fail(idx, "goroutine-leak", fmt.Sprintf("%d goroutines after the scenario, %d before the first", runtime.NumGoroutine(), baseG))
			}
		}
		fmt.Fprintln(out.out, ob.String())
		out.cases.Flush()
		out.out.Flush()
		out.orc.Flush()
		if !returned || nfail >= 5 {
			// do not let a stuck scenario poison the following ones; a handful of failing scenarios is enough
			break
		}
	}
	out.stats(stats)
}

func firstDiff(a, b []byte) int {
	for i := 0; i < len(a) && i < len(b); i++ {
		if a[i] != b[i] {
			return i
		}
	}
	if len(a) < len(b) {
		return len(a)
	}
	return len(b)
}

// TestVerifRelayUDP: upstreams whose transport offers no half-close (UDP).  The model (upCW = false) says: once the client has
// finished sending, the pump closes the upstream sockets, the copies end, the handler returns and everything is closed; what
// the upstreams received is exactly the client's stream.  Judged by oracle only (datagram timing makes the client side
// schedule-dependent).
func TestVerifRelayUDP(t *testing.T) {
	out := vopen(t, "relayudp")
	defer out.close()
	ctx, cancel := caddy.NewContext(caddy.Context{Context: context.Background()})
	defer cancel()
	type udpUp struct {
		pc    net.PacketConn
		mu    sync.Mutex
		got   []byte
		reply [][]byte
	}
	var ups []*udpUp
	var dial []string
	for i := 0; i < 2; i++ {
		pc, err := net.ListenPacket("udp", "127.0.0.1:0")
		if err != nil {
			t.Fatal(err)
		}
		defer pc.Close()
		u := &udpUp{pc: pc}
		ups = append(ups, u)
		dial = append(dial, "udp/"+pc.LocalAddr().String())
		go func() {
			buf := make([]byte, 65536)
			for {
				n, addr, err := pc.ReadFrom(buf)
				if err != nil {
					return
				}
				u.mu.Lock()
				first := len(u.got) == 0
				u.got = append(u.got, buf[:n]...)
				reply := u.reply
				u.mu.Unlock()
				if first {
					for _, c := range reply {
						_, _ = pc.WriteTo(c, addr)
					}
				}
			}
		}()
	}
	handlers := map[int]*Handler{}
	for k := 1; k <= 2; k++ {
		h := &Handler{Upstreams: UpstreamPool{&Upstream{Dial: dial[:k]}}}
		if err := h.Provision(ctx); err != nil {
			t.Fatal(err)
		}
		handlers[k] = h
	}
	cln, err := net.Listen("tcp", "127.0.0.1:0")
	if err != nil {
		t.Fatal(err)
	}
	defer cln.Close()
	r := &vrng{vseed()*86028121 + 3}
	n := vcount(20)
	nfail := 0
	fail := func(idx int, sig, desc string) { nfail++; out.fail(idx, sig, desc) }
	for idx := 0; idx < n && nfail < 3; idx++ {
		k := r.pick(1, 1, 2)
		pre := mkRelayChunk(0, 200, r.next(), r.pick(0, 1, 50, 900))
		var cchunks []relayChunk
		for j := r.pick(1, 2, 3); j > 0; j-- {
			cchunks = append(cchunks, mkRelayChunk(0, 200, r.next(), r.pick(1, 10, 300, 1200)))
		}
		sentC := append([]byte{}, pre.b...)
		for _, c := range cchunks {
			sentC = append(sentC, c.b...)
		}
		for i := 0; i < k; i++ {
			ups[i].mu.Lock()
			ups[i].got = nil
			ups[i].reply = nil
			for j := r.pick(0, 1, 2); j > 0; j-- {
				ups[i].reply = append(ups[i].reply, mkRelayChunk(200+18*i, 18, r.next(), r.pick(1, 100, 1000)).b)
			}
			ups[i].mu.Unlock()
		}
		closeMode := r.intn(2) // 0: half-close, 1: full close by the client
		fmt.Fprintf(out.cases, "relayudp k=%d pre=%d chunks=%d close=%d\n", k, len(pre.b), len(cchunks), closeMode)
		fd0 := countFDs()
		cc, err := net.Dial("tcp", cln.Addr().String())
		if err != nil {
			t.Fatal(err)
		}
		sc, err := cln.Accept()
		if err != nil {
			t.Fatal(err)
		}
		h := handlers[k]
		cx := layer4.WrapConnection(sc, append(make([]byte, 0, len(pre.b)+16), pre.b...), zap.NewNop())
		ret := make(chan error, 1)
		go func() { ret <- h.Handle(cx, nil) }()
		var clGot []byte
		rd := make(chan struct{})
		go func() {
			defer close(rd)
			buf := make([]byte, 65536)
			for {
				nn, err := cc.Read(buf)
				clGot = append(clGot, buf[:nn]...)
				if err != nil {
					return
				}
			}
		}()
		for _, c := range cchunks {
			time.Sleep(time.Duration(r.pick(0, 1, 3)) * time.Millisecond)
			_, _ = cc.Write(c.b)
		}
		time.Sleep(30 * time.Millisecond) // let the replies of the datagram upstreams arrive
		if closeMode == 0 {
			_ = cc.(*net.TCPConn).CloseWrite()
		} else {
			_ = cc.Close()
		}
		returned := false
		select {
		case <-ret:
			returned = true
		case <-time.After(5 * time.Second):
		}
		_ = cx.Close()
		select {
		case <-rd:
		case <-time.After(2 * time.Second):
		}
		cc.Close()
		okAll := true
		if !returned {
			okAll = false
			fail(idx, "handler-not-returned", fmt.Sprintf("with %d datagram upstream(s), Handle did not return within 5 s after the client finished (close mode %d)", k, closeMode))
		} else {
			leak := 0
			if !settle(func() bool { leak = countFDs() - fd0; return leak <= 0 }) {
				okAll = false
				fail(idx, "upstream-conn-leaked", fmt.Sprintf("%d socket(s) still open after Handle returned (datagram upstreams)", leak))
			}
			for i, p := range h.Upstreams[0].peers {
				if c := p.getNumConns(); c != 0 {
					okAll = false
					fail(idx, "upstream-conn-leaked", fmt.Sprintf("peer %d still counts %d open connection(s) after Handle returned", i, c))
				}
			}
		}
		for i := 0; i < k; i++ {
			ups[i].mu.Lock()
			got := append([]byte{}, ups[i].got...)
			ups[i].mu.Unlock()
			if !bytes.Equal(got, sentC) {
				okAll = false
				fail(idx, "upstream-stream", fmt.Sprintf("datagram upstream %d received %d bytes, the client sent %d (first difference at %d)", i, len(got), len(sentC), firstDiff(sentC, got)))
			}
		}
		for _, b := range clGot {
			if b < 200 || int(b) >= 200+18*k {
				okAll = false
				fail(idx, "client-stream", fmt.Sprintf("the client received byte %d that no upstream sent", b))
				break
			}
		}
		fmt.Fprintf(out.out, "ok=%v ret=%v\n", okAll, returned)
		out.cases.Flush()
		out.out.Flush()
		out.orc.Flush()
		if !returned {
			break
		}
	}
	out.stats(map[string]int{"histories": n})
}

// eofDataConn is a downstream transport that, as the io.Reader contract allows (and crypto/tls does when the last record and
// close_notify arrive together), returns its final bytes together with io.EOF.
type eofDataConn struct {
	mu      sync.Mutex
	chunks  [][]byte
	written []byte
}

func (c *eofDataConn) Read(p []byte) (int, error) {
	c.mu.Lock()
	defer c.mu.Unlock()
	if len(c.chunks) == 0 {
		return 0, io.EOF
	}
	n := copy(p, c.chunks[0])
	if n < len(c.chunks[0]) {
		c.chunks[0] = c.chunks[0][n:]
		return n, nil
	}
	c.chunks = c.chunks[1:]
	if len(c.chunks) == 0 {
		return n, io.EOF
	}
	return n, nil
}
func (c *eofDataConn) Write(p []byte) (int, error) {
	c.mu.Lock()
	defer c.mu.Unlock()
	c.written = append(c.written, p...)
	return len(p), nil
}
func (c *eofDataConn) Close() error                     { return nil }
func (c *eofDataConn) LocalAddr() net.Addr              { return &net.TCPAddr{IP: net.IPv4(127, 0, 0, 1), Port: 443} }
func (c *eofDataConn) RemoteAddr() net.Addr             { return &net.TCPAddr{IP: net.IPv4(127, 0, 0, 1), Port: 40002} }
func (c *eofDataConn) SetDeadline(time.Time) error      { return nil }
func (c *eofDataConn) SetReadDeadline(time.Time) error  { return nil }
func (c *eofDataConn) SetWriteDeadline(time.Time) error { return nil }

// TestVerifRelayEOF: the client's last bytes arrive together with end-of-stream.  Every upstream must still receive the whole
// stream.  Oracle only.
func TestVerifRelayEOF(t *testing.T) {
	out := vopen(t, "relayeof")
	defer out.close()
	ctx, cancel := caddy.NewContext(caddy.Context{Context: context.Background()})
	defer cancel()
	var ups []*relayUp
	var dial []string
	for i := 0; i < 2; i++ {
		u := newRelayUp(t, false, "", i)
		defer u.ln.Close()
		ups = append(ups, u)
		dial = append(dial, u.dial)
	}
	handlers := map[int]*Handler{}
	for k := 1; k <= 2; k++ {
		h := &Handler{Upstreams: UpstreamPool{&Upstream{Dial: dial[:k]}}}
		if err := h.Provision(ctx); err != nil {
			t.Fatal(err)
		}
		handlers[k] = h
	}
	r := &vrng{vseed()*67867967 + 19}
	n := vcount(30)
	nfail := 0
	for idx := 0; idx < n && nfail < 3; idx++ {
		k := r.pick(1, 1, 2)
		pre := mkRelayChunk(0, 200, r.next(), r.pick(0, 0, 1, 50, 3000))
		var chunks [][]byte
		sentC := append([]byte{}, pre.b...)
		for j := r.pick(1, 1, 2, 3); j > 0; j-- {
			c := mkRelayChunk(0, 200, r.next(), r.pick(1, 12, 700, 16384, 40000)).b
			chunks = append(chunks, c)
			sentC = append(sentC, c...)
		}
		fmt.Fprintf(out.cases, "relayeof k=%d pre=%d chunks=%d total=%d\n", k, len(pre.b), len(chunks), len(sentC))
		results := make([]*relayUpResult, k)
		for i := 0; i < k; i++ {
			results[i] = &relayUpResult{done: make(chan struct{})}
			ups[i].mu.Lock()
			ups[i].script, ups[i].res = &relayUpScript{resetAfter: -1, delay: func() {}}, results[i]
			ups[i].mu.Unlock()
		}
		down := &eofDataConn{chunks: chunks}
		cx := layer4.WrapConnection(down, append(make([]byte, 0, len(pre.b)+16), pre.b...), zap.NewNop())
		ret := make(chan error, 1)
		go func() { ret <- handlers[k].Handle(cx, nil) }()
		returned := false
		select {
		case <-ret:
			returned = true
		case <-time.After(5 * time.Second):
		}
		ok := returned
		if !returned {
			nfail++
			out.fail(idx, "handler-not-returned", "Handle did not return within 5 s after the client's stream ended")
		}
		for i := 0; i < k; i++ {
			select {
			case <-results[i].done:
			case <-time.After(2 * time.Second):
			}
			if got := results[i].got; !bytes.Equal(got, sentC) {
				ok = false
				nfail++
				out.fail(idx, "upstream-stream", fmt.Sprintf("upstream %d received %d of the client's %d bytes: the bytes delivered together with end-of-stream (last chunk of %d) are missing or wrong (first difference at %d)", i, len(got), len(sentC), len(chunks[len(chunks)-1]), firstDiff(sentC, got)))
			}
		}
		fmt.Fprintf(out.out, "ok=%v\n", ok)
		out.cases.Flush()
		out.out.Flush()
		out.orc.Flush()
		if !returned {
			break
		}
	}
	out.stats(map[string]int{"histories": n})
}

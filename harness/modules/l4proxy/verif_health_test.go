package l4proxy

// C11: timed histories against the real Handler (Provision, Handle's retry loop, countFailure and its forgetters, connection
// counting, doActiveHealthCheck) with loopback peers that can be switched off and on.  Each history is also run through the Lean
// model (exact comparison of outcomes and of the peer counters at the sample instants; the model answers `*` when a decision
// falls within 25 ms of a forgetter or of a planned outage), and judged by predicates computed from the harness' own event log.

import (
	"os"
	"context"
	"fmt"
	"net"
	"strings"
	"sync"
	"sync/atomic"
	"testing"
	"time"

	"github.com/caddyserver/caddy/v2"
	"go.uber.org/zap"

	"github.com/mholt/caddy-l4/layer4"
)

type hpeer struct {
	addr string
	mu   sync.Mutex
	ln   net.Listener
	est  chan byte // tags of connections on which the proxied stream started
}

func (p *hpeer) serve(ln net.Listener) {
	for {
		c, err := ln.Accept()
		if err != nil {
			return
		}
		go func() {
			defer c.Close()
			b := make([]byte, 1)
			if n, _ := c.Read(b); n == 1 {
				p.est <- b[0]
				buf := make([]byte, 256)
				for {
					if _, err := c.Read(buf); err != nil {
						return
					}
				}
			}
		}()
	}
}

func (p *hpeer) set(up bool) {
	p.mu.Lock()
	defer p.mu.Unlock()
	if up && p.ln == nil {
		for i := 0; i < 50; i++ {
			ln, err := net.Listen("tcp", p.addr)
			if err == nil {
				p.ln = ln
				go p.serve(ln)
				return
			}
			time.Sleep(2 * time.Millisecond)
		}
		panic("cannot re-listen on " + p.addr)
	}
	if !up && p.ln != nil {
		p.ln.Close()
		p.ln = nil
	}
}

func newHPeer(t *testing.T) *hpeer {
	ln, err := net.Listen("tcp", "127.0.0.1:0")
	if err != nil {
		t.Fatal(err)
	}
	p := &hpeer{addr: ln.Addr().String(), ln: ln, est: make(chan byte, 64)}
	go p.serve(ln)
	return p
}

type hconn struct {
	up     int
	client net.Conn
	ret    chan error
}

type hsample struct {
	t     int
	nf    int // directly reported failures before this sample
	fails []int32
	conns []int32
}

// loadMonitor: an independent probe of the machine, running next to the histories: a goroutine sleeps 5 ms at a time and
// records how late it wakes up; a history during which it woke up more than 4 ms late was run on an overloaded machine
type loadMonitor struct {
	mu      sync.Mutex
	at      []time.Time
	late    []time.Duration
	stopped chan struct{}
}

func startLoadMonitor() *loadMonitor {
	m := &loadMonitor{stopped: make(chan struct{})}
	go func() {
		for {
			select {
			case <-m.stopped:
				return
			default:
			}
			t0 := time.Now()
			time.Sleep(5 * time.Millisecond)
			l := time.Since(t0) - 5*time.Millisecond
			m.mu.Lock()
			m.at = append(m.at, t0)
			m.late = append(m.late, l)
			m.mu.Unlock()
		}
	}()
	return m
}

func (m *loadMonitor) overloaded(from, to time.Time) bool {
	m.mu.Lock()
	defer m.mu.Unlock()
	for i := len(m.at) - 1; i >= 0 && !m.at[i].Before(from.Add(-10*time.Millisecond)); i-- {
		if m.at[i].Before(to) && m.late[i] > 4*time.Millisecond {
			return true
		}
	}
	return false
}

func TestVerifHealth(t *testing.T) {
	mon := startLoadMonitor()
	defer close(mon.stopped)
	out := vopen(t, "health")
	defer out.close()
	r := &vrng{vseed()*32452843 + 5}
	n := vcount(40)
	stats := map[string]int{}
	const workers = 8
	type result struct {
		caseLine, obs string
		fails        [][2]string
		st           map[string]int
	}
	results := make([]result, n)
	seeds := make([]uint64, n)
	for i := range seeds {
		seeds[i] = r.next()
	}
	var wg sync.WaitGroup
	var next int32 = -1
	for w := 0; w < workers; w++ {
		wg.Add(1)
		go func() {
			defer wg.Done()
			peers := []*hpeer{newHPeer(t), newHPeer(t), newHPeer(t), newHPeer(t)}
			defer func() {
				for _, p := range peers {
					p.set(false)
				}
			}()
			for {
				i := int(atomic.AddInt32(&next, 1))
				if i >= n {
					return
				}
				var res result
				loadedTries, tries := 0, 0
				for try := 0; try < 3; try++ {
					var clean bool
					hStart := time.Now()
					res, clean = healthHistory(seeds[i], peers)
					during := mon.overloaded(hStart, time.Now())
					if during {
						clean = false // run on an overloaded machine: re-made like a noisy history
					}
					// a millisecond-level judgement (how long Handle kept retrying) is re-made like a noisy history
					for _, f := range res.fails {
						if strings.HasPrefix(f[0], "retry-") {
							clean = false
						}
					}
					if clean {
						break
					}
					tries++
					res.st["retimed"]++
					// is it the machine? a probe the code under test cannot influence: how late do two 20 ms sleeps wake up
					late := time.Duration(0)
					for k := 0; k < 2; k++ {
						t0 := time.Now()
						time.Sleep(20 * time.Millisecond)
						late = max(late, time.Since(t0)-20*time.Millisecond)
					}
					if late > 4*time.Millisecond || during {
						loadedTries++
					}
				}
				if tries == 3 && loadedTries == 3 {
					// three noisy runs, each on a measurably overloaded machine: the millisecond-level judgements of this history are not
					// made (the case is passed on as a note; the model is not consulted)
					res = result{caseLine: "note health history skipped: machine overloaded (sleep probe late by more than 4 ms on each of three runs)", obs: "skipped", st: map[string]int{"skipped-overloaded": 1}}
				}
				results[i] = res
			}
		}()
	}
	wg.Wait()
	for i, res := range results {
		fmt.Fprintln(out.cases, res.caseLine)
		fmt.Fprintln(out.out, res.obs)
		for _, f := range res.fails {
			out.fail(i, f[0], f[1])
		}
		for k, v := range res.st {
			stats[k] += v
		}
	}
	// configuration reloads: the peers of an upstream are kept across reloads (same dial address), and so is what is remembered
	// about them; a failure counted under the old configuration must still be forgotten fail_duration after it happened
	nrel := 2
	if os.Getenv("VERIF_TIER") == "thorough" {
		nrel = 12
	}
	for k := 0; k < nrel; k++ {
		line, obs, sig, desc := reloadScenario(t, r)
		fmt.Fprintln(out.cases, line)
		fmt.Fprintln(out.out, obs)
		if sig != "" {
			out.fail(n+k, sig, desc)
		}
		stats["reload scenarios"]++
	}
	out.stats(stats)
}

// reloadScenario: a dial failure is counted, then the configuration is reloaded (the new handler is provisioned before the old
// one is cancelled and cleaned up, as Caddy does) at some point inside the failure window
func reloadScenario(t *testing.T, r *vrng) (line, obs, sig, desc string) {
	p := newHPeer(t)
	defer p.set(false)
	failDur := r.pick(160, 200, 260)
	reloadAt := r.pick(5, 40, 90)
	line = fmt.Sprintf("hreload fail_duration=%dms reload_at=%dms", failDur, reloadAt)
	mk := func() (*Handler, func()) {
		h := &Handler{LoadBalancing: &LoadBalancing{SelectionPolicy: &FirstSelection{}}}
		h.HealthChecks = &HealthChecks{Passive: &PassiveHealthChecks{FailDuration: caddy.Duration(time.Duration(failDur) * time.Millisecond), MaxFails: 1}}
		h.Upstreams = []*Upstream{{Dial: []string{p.addr}}}
		ctx, cancel := caddy.NewContext(caddy.Context{Context: context.Background()})
		if err := h.Provision(ctx); err != nil {
			panic(err)
		}
		return h, func() { cancel(); _ = h.Cleanup() }
	}
	handle := func(h *Handler) error {
		cl, sv := net.Pipe()
		defer cl.Close()
		cx := layer4.WrapConnection(sv, nil, zap.NewNop())
		ret := make(chan error, 1)
		go func() { ret <- h.Handle(cx, layer4.HandlerFunc(func(*layer4.Connection) error { return nil })) }()
		go func() { cl.Write([]byte{1}); time.Sleep(20 * time.Millisecond); cl.Close() }()
		select {
		case err := <-ret:
			return err
		case <-time.After(2 * time.Second):
			return fmt.Errorf("handler did not return")
		}
	}
	h1, stop1 := mk()
	p.set(false)
	t0 := time.Now()
	err1 := handle(h1) // refused: one failure is remembered
	if err1 == nil {
		stop1()
		return line, "*", "", "" // the dial unexpectedly succeeded: nothing to judge
	}
	time.Sleep(time.Until(t0.Add(time.Duration(reloadAt) * time.Millisecond)))
	h2, stop2 := mk()
	stop1()
	defer stop2()
	p.set(true)
	time.Sleep(time.Until(t0.Add(time.Duration(failDur+150) * time.Millisecond)))
	// a late forgetter (loaded machine) is not a forgotten forgetter: give it two more seconds
	for t1 := time.Now(); atomic.LoadInt32(&h2.Upstreams[0].peers[0].fails) != 0 && time.Since(t1) < 2*time.Second; {
		time.Sleep(10 * time.Millisecond)
	}
	f := atomic.LoadInt32(&h2.Upstreams[0].peers[0].fails)
	avail := h2.Upstreams[0].available()
	err2 := handle(h2)
	obs = "*"
	if f != 0 || !avail || err2 != nil {
		sig = "failure-not-forgotten-after-reload"
		desc = fmt.Sprintf("a dial failure at t=0 is still remembered more than %d ms later (fail_duration %d ms) after a configuration reload at %d ms: fails=%d available=%v, a new connection gets %v", failDur+2150, failDur, reloadAt, f, avail, err2)
	}
	return line, obs, sig, desc
}

func healthHistory(seed uint64, peers []*hpeer) (res struct {
	caseLine, obs string
	fails        [][2]string
	st           map[string]int
}, clean bool) {
	res.st = map[string]int{}
	clean = true
	r := &vrng{seed}
	for _, p := range peers {
		p.set(true)
		for len(p.est) > 0 {
			<-p.est
		}
	}
	// ---- configuration
	nUp := r.pick(1, 2, 2, 3)
	var ups [][]int
	pid := 0
	for u := 0; u < nUp && pid < len(peers); u++ {
		np := 1
		if r.intn(4) == 0 && pid+1 < len(peers) {
			np = 2
		}
		var ps []int
		for j := 0; j < np; j++ {
			ps = append(ps, pid)
			pid++
		}
		ups = append(ups, ps)
	}
	nUp = len(ups)
	nPeers := pid
	passive := r.intn(5) != 0
	failDur := r.pick(0, 150, 150, 220, 300)
	maxFails := r.pick(0, 1, 1, 2, 3)
	ucc := r.pick(0, 0, 1, 2)
	tryDur := r.pick(0, 0, 100, 180)
	tryInt := 0
	if tryDur > 0 {
		tryInt = r.pick(40, 60)
	}
	h := &Handler{LoadBalancing: &LoadBalancing{SelectionPolicy: &FirstSelection{}, TryDuration: caddy.Duration(time.Duration(tryDur) * time.Millisecond), TryInterval: caddy.Duration(time.Duration(tryInt) * time.Millisecond)}}
	h.HealthChecks = &HealthChecks{Active: &ActiveHealthChecks{Interval: caddy.Duration(time.Hour), Timeout: caddy.Duration(200 * time.Millisecond)}}
	if passive {
		h.HealthChecks.Passive = &PassiveHealthChecks{FailDuration: caddy.Duration(time.Duration(failDur) * time.Millisecond), MaxFails: maxFails, UnhealthyConnectionCount: ucc}
	}
	var sb strings.Builder
	fmt.Fprintf(&sb, "health %d", nUp)
	var umax []int
	for _, ps := range ups {
		mc := r.pick(0, 0, 1, 2)
		umax = append(umax, mc)
		var dial []string
		for _, p := range ps {
			dial = append(dial, peers[p].addr)
		}
		h.Upstreams = append(h.Upstreams, &Upstream{Dial: dial, MaxConnections: mc})
		fmt.Fprintf(&sb, " %d", len(ps))
		for _, p := range ps {
			fmt.Fprintf(&sb, " %d", p)
		}
		fmt.Fprintf(&sb, " %d", mc)
	}
	b2i := func(b bool) int {
		if b {
			return 1
		}
		return 0
	}
	fmt.Fprintf(&sb, " %d %d %d %d %d %d", b2i(passive), failDur, maxFails, ucc, tryDur, tryInt)
	ctx, cancel := caddy.NewContext(caddy.Context{Context: context.Background()})
	if err := h.Provision(ctx); err != nil {
		panic(err)
	}
	defer func() {
		cancel()
		_ = h.Cleanup()
	}()
	time.Sleep(15 * time.Millisecond) // the initial active check of every peer (all are up)
	peerObj := make([]*peer, nPeers)
	for u, ps := range ups {
		for j, p := range ps {
			peerObj[p] = h.Upstreams[u].peers[j]
		}
	}
	// effective settings, computed by the harness from the documentation (for the predicates below)
	effMax := make([]int, nUp)
	for u := range ups {
		effMax[u] = umax[u]
		if effMax[u] == 0 && passive {
			effMax[u] = ucc
		}
	}

	// ---- events
	t0 := time.Now()
	ms := func() int { return int(time.Since(t0) / time.Millisecond) }
	var ev, obs []string
	var open []*hconn
	var failLog [][2]int // (peer, time) of direct countFailure calls and observed refused dials
	var tagc byte
	fail := func(sig, desc string) { res.fails = append(res.fails, [2]string{sig, desc}) }
	upNow := make([]bool, nPeers)
	for i := range upNow {
		upNow[i] = true
	}
	nev := r.pick(4, 6, 8, 10, 12)
	var samples []hsample
	sample := func() {
		t := ms()
		ev = append(ev, fmt.Sprintf("a %d s", t))
		var sbo strings.Builder
		sbo.WriteString("s")
		smp := hsample{t: t, nf: len(failLog)}
		for p := 0; p < nPeers; p++ {
			f, c, uh := atomic.LoadInt32(&peerObj[p].fails), atomic.LoadInt32(&peerObj[p].numConns), atomic.LoadInt32(&peerObj[p].unhealthy)
			fmt.Fprintf(&sbo, " f%dc%du%d", f, c, uh)
			smp.fails = append(smp.fails, f)
			smp.conns = append(smp.conns, c)
			if f < 0 || c < 0 {
				fail("counter-negative", fmt.Sprintf("peer %d: fails=%d conns=%d at %d ms", p, f, c, t))
			}
			// the connection count of a peer is the number of proxied connections open through upstreams that dial it
			// (from the harness' own list of the connections it has open; events are sequential, so nothing is in flight)
			want := 0
			for _, hc := range open {
				for _, q := range ups[hc.up] {
					if q == p {
						want++
					}
				}
			}
			if int(c) != want {
				fail("conn-count", fmt.Sprintf("peer %d counts %d open connections at %d ms, %d proxied connections are open through it", p, c, t, want))
			}
		}
		for u := range ups {
			fmt.Fprintf(&sbo, " a%d", b2i(h.Upstreams[u].available()))
		}
		samples = append(samples, smp)
		obs = append(obs, sbo.String())
	}
	for e := 0; e < nev; e++ {
		if d := r.pick(0, 5, 30, 60, 120, 200); d > 0 {
			time.Sleep(time.Duration(d) * time.Millisecond)
		}
		switch k := r.intn(12); {
		case k < 4: // a client connects
			// sometimes a peer goes down / comes back while the handler is retrying
			flipAt := -1
			if tryDur > 0 && r.intn(3) == 0 {
				p := r.intn(nPeers)
				dt := r.pick(20, 50, 80, 110)
				to := !upNow[p]
				t := ms()
				flipAt = t + dt
				ev = append(ev, fmt.Sprintf("a %d pl %d %d %d", t, t+dt, p, b2i(to)))
				obs = append(obs, "pl")
				upNow[p] = to
				go func() {
					time.Sleep(time.Until(t0.Add(time.Duration(t+dt) * time.Millisecond)))
					peers[p].set(to)
				}()
				res.st["planned-flip"]++
			}
			tagc++
			tag := tagc
			cl, sv := net.Pipe()
			cx := layer4.WrapConnection(sv, nil, zap.NewNop())
			hc := &hconn{client: cl, ret: make(chan error, 1), up: -1}
			// what the harness can say beforehand
			preFull := make([]bool, nUp)
			for u := range ups {
				preFull[u] = h.Upstreams[u].full()
			}
			t := ms()
			ev = append(ev, fmt.Sprintf("a %d h", t))
			start := time.Now()
			go func() { hc.ret <- h.Handle(cx, nil) }()
			go func() { _, _ = cl.Write([]byte{tag}) }()
			// settled: Handle returned, or every peer of one upstream has seen the stream start
			seen := make([]int, nUp)
			outcome := ""
			deadline := time.After(4 * time.Second)
		wait:
			for {
				cases := make([]chan byte, nPeers)
				for p := 0; p < nPeers; p++ {
					cases[p] = peers[p].est
				}
				var gotPeer = -1
				select {
				case err := <-hc.ret:
					if err != nil && err.Error() == "no upstreams available" {
						outcome = "noup"
					} else if err != nil {
						outcome = "dialerr"
					} else {
						outcome = "returned-nil"
					}
					hc.ret <- err
					break wait
				case b := <-pick4(cases, 0):
					if b == tag {
						gotPeer = 0
					}
				case b := <-pick4(cases, 1):
					if b == tag {
						gotPeer = 1
					}
				case b := <-pick4(cases, 2):
					if b == tag {
						gotPeer = 2
					}
				case b := <-pick4(cases, 3):
					if b == tag {
						gotPeer = 3
					}
				case <-deadline:
					outcome = "stuck"
					break wait
				}
				if gotPeer >= 0 {
					for u, ps := range ups {
						for _, p := range ps {
							if p == gotPeer {
								seen[u]++
								if seen[u] == len(ps) {
									outcome = fmt.Sprintf("proxied:%d", u)
									hc.up = u
									break wait
								}
							}
						}
					}
				}
			}
			dur := int(time.Since(start) / time.Millisecond)
			retries := 0
			if tryInt > 0 {
				retries = (dur + tryInt/2) / tryInt
				if off := dur - retries*tryInt; off > tryInt/3 || off < -tryInt/3 {
					clean = false
				}
			} else if dur > 25 {
				clean = false
			}
			obs = append(obs, fmt.Sprintf("%s r%d", outcome, retries))
			res.st["handle:"+strings.SplitN(outcome, ":", 2)[0]]++
			if retries > 0 {
				res.st["handle-retried"]++
			}
			if hc.up >= 0 {
				open = append(open, hc)
				if preFull[hc.up] {
					fail("limit-exceeded", fmt.Sprintf("upstream %d had reached its limit of %d open connections and was given another one at %d ms", hc.up, effMax[hc.up], t))
				}
			} else {
				cl.Close()
				if outcome != "stuck" && outcome != "returned-nil" {
					// the property's retry clause: not given up before try_duration, and not much later than one more interval
					if dur+8 < tryDur {
						fail("retry-gave-up-early", fmt.Sprintf("Handle failed after %d ms with try_duration %d ms", dur, tryDur))
					}
					if dur > tryDur+tryInt+150 {
						fail("retry-too-long", fmt.Sprintf("Handle failed only after %d ms with try_duration %d ms and try_interval %d ms", dur, tryDur, tryInt))
					}
				}
			}
			if flipAt >= 0 {
				// the planned outage / recovery must have happened before the history goes on
				if d := time.Until(t0.Add(time.Duration(flipAt+12) * time.Millisecond)); d > 0 {
					time.Sleep(d)
				}
			}
			if outcome == "stuck" || outcome == "returned-nil" {
				fail("handle-stuck", fmt.Sprintf("Handle neither failed nor connected the client to all peers of an upstream (%s)", outcome))
			}
		case k < 6: // a proxied connection ends
			if len(open) == 0 {
				continue
			}
			j := r.intn(len(open))
			hc := open[j]
			open = append(open[:j], open[j+1:]...)
			t := ms()
			ev = append(ev, fmt.Sprintf("a %d c %d", t, hc.up))
			hc.client.Close()
			select {
			case <-hc.ret:
				obs = append(obs, "closed")
			case <-time.After(3 * time.Second):
				obs = append(obs, "close-stuck")
				fail("handle-stuck", "Handle did not return after the client closed")
			}
		case k < 8: // a peer goes down or comes back
			p := r.intn(nPeers)
			upNow[p] = !upNow[p]
			peers[p].set(upNow[p])
			ev = append(ev, fmt.Sprintf("a %d u %d %d", ms(), p, b2i(upNow[p])))
			obs = append(obs, "u")
			res.st["flip"]++
		case k < 9: // an active health check of one peer
			p := r.intn(nPeers)
			ev = append(ev, fmt.Sprintf("a %d p %d", ms(), p))
			_ = h.doActiveHealthCheck(peerObj[p])
			obs = append(obs, "p")
			res.st["probe"]++
			want := int32(b2i(!upNow[p]))
			if got := atomic.LoadInt32(&peerObj[p].unhealthy); got != want {
				fail("active-flag", fmt.Sprintf("peer %d accepts=%v but after an active check its unhealthy flag is %d", p, upNow[p], got))
			}
		case k < 10: // a dial failure reported for a peer (in-flight dials may fail whatever the rotation state is by then)
			p := r.intn(nPeers)
			t := ms()
			ev = append(ev, fmt.Sprintf("a %d f %d", t, p))
			h.countFailure(peerObj[p])
			failLog = append(failLog, [2]int{p, t})
			obs = append(obs, "f")
			res.st["direct-failure"]++
		default:
			sample()
		}
		if e%3 == 2 {
			sample()
		}
	}
	sample()
	// the failure window, from the harness' own log of directly reported failures: each is remembered for fail_duration
	// (lower bound only: refused dials of Handle add to the count)
	if passive && failDur > 0 {
		for _, smp := range samples {
			for p := 0; p < nPeers; p++ {
				lo := 0
				for _, f := range failLog[:smp.nf] {
					if f[0] == p && f[1] <= smp.t && smp.t < f[1]+failDur-25 {
						lo++
					}
				}
				if int(smp.fails[p]) < lo {
					fail("failure-window", fmt.Sprintf("peer %d: %d dial failures were reported in the last %d ms before %d ms but only %d are remembered", p, lo, failDur, smp.t, smp.fails[p]))
				}
			}
		}
	}
	// ---- wind down: close everything, wait for the forgetters; every counter must return to zero
	for _, hc := range open {
		hc.client.Close()
		select {
		case <-hc.ret:
		case <-time.After(3 * time.Second):
			fail("handle-stuck", "Handle did not return after the client closed (wind down)")
		}
	}
	time.Sleep(time.Duration(failDur+40) * time.Millisecond)
	// the forgetters may be late on a loaded machine: a drift is a counter that does not come back at all
	for t1 := time.Now(); time.Since(t1) < 2*time.Second; time.Sleep(10 * time.Millisecond) {
		zero := true
		for p := 0; p < nPeers; p++ {
			if atomic.LoadInt32(&peerObj[p].fails) != 0 || atomic.LoadInt32(&peerObj[p].numConns) != 0 {
				zero = false
			}
		}
		if zero {
			break
		}
	}
	for p := 0; p < nPeers; p++ {
		f, c := atomic.LoadInt32(&peerObj[p].fails), atomic.LoadInt32(&peerObj[p].numConns)
		if f != 0 || c != 0 {
			fail("counter-drift", fmt.Sprintf("peer %d: fails=%d conns=%d after every connection ended and fail_duration (%d ms) passed", p, f, c, failDur))
		}
	}
	res.caseLine = sb.String() + fmt.Sprintf(" %d ", len(ev)) + strings.Join(ev, " ")
	res.obs = strings.Join(obs, " ; ")
	res.st["histories"]++
	return res, clean
}

// pick4 returns the i-th channel or nil (a nil channel blocks forever in a select)
func pick4(cs []chan byte, i int) chan byte {
	if i < len(cs) {
		return cs[i]
	}
	return nil
}

package l4proxy

// C10: selection policies on pools built in-package with chosen peer state.

import (
	"context"
	"time"

	"github.com/caddyserver/caddy/v2"
	"fmt"
	"net"
	"sort"
	"strings"
	"testing"

	"go.uber.org/zap"

	"github.com/mholt/caddy-l4/layer4"
)

type vaddrConn struct {
	net.Conn
	remote net.Addr
}

func (c vaddrConn) RemoteAddr() net.Addr { return c.remote }
func (c vaddrConn) LocalAddr() net.Addr  { return &net.TCPAddr{IP: net.IPv4(127, 0, 0, 1), Port: 1} }

// lbCtx is set by the tests that may provision pools through Handler.Provision
var lbCtx *caddy.Context

// documented limits of every upstream of the current pool: [max_connections, max_fails]
var lbEff = map[*Upstream][2]int{}

// vpool builds a pool with chosen peer state.  One pool in three is configured the way a user does — upstreams with dial
// addresses and max_connections, passive health checks on the handler — and goes through Handler.Provision; the limits the
// model is told are then the documented ones (max_fails defaults to 1 when fail_duration is set, unhealthy_connection_count
// is the default of max_connections), not values read back from the provisioned objects.
func vpool(r *vrng, n int, emit func(string, ...any)) UpstreamPool {
	var pool UpstreamPool
	emit("%d", n)
	nps := make([]int, n)
	for i := 0; i < n; i++ {
		nps[i] = r.pick(1, 1, 1, 2)
		var dial []string
		for j := 0; j < nps[i]; j++ {
			dial = append(dial, fmt.Sprintf("10.0.%d.%d:%d", i, j+1, 8000+r.intn(3)))
		}
		pool = append(pool, &Upstream{Dial: dial, MaxConnections: r.pick(0, 0, 0, 1, 2, 3)})
	}
	effFails := make([]int, n)
	effConns := make([]int, n)
	if lbCtx != nil && n > 0 && r.intn(3) == 0 {
		rawFails, ucc := r.pick(0, 0, 1, 2), r.pick(0, 0, 2, 3)
		h := &Handler{Upstreams: pool, HealthChecks: &HealthChecks{Passive: &PassiveHealthChecks{FailDuration: caddy.Duration(10 * time.Second), MaxFails: rawFails, UnhealthyConnectionCount: ucc}}}
		for i, u := range pool {
			effConns[i] = u.MaxConnections
			if effConns[i] == 0 {
				effConns[i] = ucc
			}
			effFails[i] = rawFails
			if rawFails == 0 {
				effFails[i] = 1
			}
		}
		if err := h.Provision(*lbCtx); err != nil {
			panic(err)
		}
		_ = h.Cleanup() // the peers stay referenced by the upstreams; forget them in the global pool
	} else {
		for i, u := range pool {
			maxFails := r.pick(0, 0, 1, 2)
			if maxFails > 0 || r.intn(2) == 0 {
				u.healthCheckPolicy = &PassiveHealthChecks{MaxFails: maxFails}
			}
			for j := 0; j < nps[i]; j++ {
				u.peers = append(u.peers, &peer{})
			}
			effFails[i], effConns[i] = maxFails, u.MaxConnections
		}
	}
	for i, u := range pool {
		lbEff[u] = [2]int{effConns[i], effFails[i]}
		emit("%s %d %d %d", vhex([]byte(u.String())), effConns[i], effFails[i], nps[i])
		for _, p := range u.peers {
			if r.intn(5) == 0 {
				p.unhealthy = 1
			}
			p.fails = int32(r.pick(0, 0, 0, 1, 2, 3))
			p.numConns = int32(r.pick(0, 0, 1, 1, 2, 3, 5))
			emit("%d %d %d", p.unhealthy, p.fails, p.numConns)
		}
	}
	return pool
}

func idxOf(pool UpstreamPool, u *Upstream) int {
	for i, x := range pool {
		if x == u {
			return i
		}
	}
	return -1
}

func TestVerifLB(t *testing.T) {
	out := vopen(t, "lb")
	defer out.close()
	ctx, cancel := caddy.NewContext(caddy.Context{Context: context.Background()})
	defer cancel()
	lbCtx = &ctx
	defer func() { lbCtx = nil }()
	r := &vrng{vseed()*92821 + 13}
	n := vcount(4000)
	stats := map[string]int{}
	for idx := 0; idx < n; idx++ {
		var tok []string
		emit := func(f string, a ...any) { tok = append(tok, fmt.Sprintf(f, a...)) }
		policy := []string{"first", "round_robin", "ip_hash", "least_conn", "random", "random_choose"}[r.intn(6)]
		randomised := policy == "least_conn" || policy == "random" || policy == "random_choose"
		size := r.pick(0, 1, 2, 3, 4, 5, 6, 8)
		if randomised {
			size = r.pick(0, 1, 2, 3, 4)
		}
		emit("lb %s", policy)
		choose := 2
		if policy == "random_choose" {
			choose = r.pick(2, 2, 3, 4)
			emit("%d", choose)
		}
		pool := vpool(r, size, emit)
		ip := fmt.Sprintf("%d.%d.%d.%d", r.pick(10, 192, 203), r.intn(256), r.intn(256), r.intn(256))
		if r.intn(6) == 0 {
			// in the form the code sees it (RemoteAddr().String() prints the canonical text: `2001:db8::0` is `2001:db8::`)
			ip = net.ParseIP("2001:db8::" + fmt.Sprintf("%x", r.intn(65536))).String()
		}
		if policy == "ip_hash" && size > 0 && r.intn(6) == 0 {
			// boundary of the rendezvous hash: client / upstream pairs whose FNV-1a hash is exactly 0
			w := [][2]string{{"127.0.0.1:1013", "10.151.16.46"}, {"10.0.0.1:8081", "200.158.0.127"}, {"10.0.0.1:8083", "86.171.89.136"}}[r.intn(3)]
			k := r.intn(size)
			pool[k].Dial = []string{w[0]}
			ip = w[1]
			// re-emit the pool with the changed name
			tok = tok[:0]
			emit("lb %s", policy)
			emit("%d", size)
			for _, u := range pool {
				emit("%s %d %d %d", vhex([]byte(u.String())), lbEff[u][0], lbEff[u][1], len(u.peers))
				for _, p := range u.peers {
					emit("%d %d %d", p.unhealthy, p.fails, p.numConns)
				}
			}
		}
		cx := layer4.WrapConnection(vaddrConn{remote: &net.TCPAddr{IP: net.ParseIP(ip), Port: 5000 + r.intn(100)}}, nil, zap.NewNop())
		robin0 := uint32(r.pick(0, 1, 5, 1<<32-2, 1<<32-1, r.intn(1000)))
		nsel := r.pick(1, 1, 2, 3, size, 2*size+1)
		emit("%s %d %d", vhex([]byte(ip)), robin0, nsel)
		var avail []int
		// availability as the property defines it, computed from the peer counters and the configured limits (not by the code
		// under test): every peer is marked up, remembers fewer than max_fails failures (when passive checks set it), and has
		// fewer than max_connections open connections (when a limit is set)
		for i, u := range pool {
			ok := true
			for _, p := range u.peers {
				if p.unhealthy != 0 {
					ok = false
				}
				if lbEff[u][1] > 0 && int(p.fails) >= lbEff[u][1] {
					ok = false
				}
				if lbEff[u][0] > 0 && int(p.numConns) >= lbEff[u][0] {
					ok = false
				}
			}
			if ok {
				avail = append(avail, i)
			}
		}
		stats[policy]++
		stats[fmt.Sprintf("available=%d", len(avail))]++
		fmt.Fprintln(out.cases, strings.Join(tok, " "))
		out.cases.Flush()
		fail := func(sig, desc string) { out.fail(idx, sig+":"+policy, desc) }
		inAvail := func(i int) bool {
			for _, a := range avail {
				if a == i {
					return true
				}
			}
			return false
		}
		checkOne := func(u *Upstream) int {
			i := idxOf(pool, u)
			switch {
			case u == nil && len(avail) > 0:
				fail("none-though-available", fmt.Sprintf("%s returned no upstream although %d are available", policy, len(avail)))
			case u != nil && !inAvail(i):
				fail("unavailable-selected", fmt.Sprintf("%s selected upstream %d which is not available", policy, i))
			}
			return i
		}
		var line string
		panicked := safelyLB(func() {
			switch policy {
			case "first":
				i := checkOne((&FirstSelection{}).Select(pool, cx))
				if len(avail) > 0 && i != avail[0] {
					fail("not-earliest", fmt.Sprintf("first selected %d, the earliest available is %d", i, avail[0]))
				}
				line = fmt.Sprint(i)
			case "round_robin":
				rr := &RoundRobinSelection{robin: robin0}
				var seq []string
				var picks []int
				for k := 0; k < nsel; k++ {
					i := checkOne(rr.Select(pool, cx))
					seq = append(seq, fmt.Sprint(i))
					picks = append(picks, i)
				}
				// every window of len(avail) consecutive selections visits each available upstream exactly once
				if m := len(avail); m > 0 && uint64(robin0)+uint64(nsel)*uint64(len(pool)) < 1<<32 {
					for s := 0; s+m <= len(picks); s++ {
						seen := map[int]int{}
						for _, p := range picks[s : s+m] {
							seen[p]++
						}
						for _, a := range avail {
							if seen[a] != 1 {
								fail("cycle", fmt.Sprintf("round_robin visited upstream %d %d times in a cycle of %d selections (%v)", a, seen[a], m, picks[s:s+m]))
							}
						}
					}
				}
				line = strings.Join(seq, ",") + fmt.Sprintf(" robin=%d", rr.robin)
			case "ip_hash":
				p := &IPHashSelection{}
				u := p.Select(pool, cx)
				i := checkOne(u)
				if u2 := p.Select(pool, cx); u2 != u {
					fail("nondeterministic", "ip_hash chose differently for the same client and pool")
				}
				// the choice is a function of the client's IP address, not of how the socket layer represents it: an IPv4 client
				// is reported in the 4-byte form by an IPv4 listener and in the 16-byte form by a dual-stack one
				if ip4 := net.ParseIP(ip).To4(); ip4 != nil {
					for _, alt := range []net.Addr{&net.TCPAddr{IP: ip4, Port: 5001}, &net.UDPAddr{IP: ip4.To16(), Port: 5002}, &net.UDPAddr{IP: ip4, Port: 5003}} {
						cxa := layer4.WrapConnection(vaddrConn{remote: alt}, nil, zap.NewNop())
						if ua := p.Select(pool, cxa); ua != u {
							fail("ip-form", fmt.Sprintf("ip_hash sends client %s to upstream %d or %d depending on the form of its address (%T, %d-byte IP)", ip, i, idxOf(pool, ua), alt, len(ip4)))
							break
						}
					}
				}
				// removing any other upstream keeps the client's choice
				for k := range pool {
					if k == i || u == nil {
						continue
					}
					sub := append(append(UpstreamPool{}, pool[:k]...), pool[k+1:]...)
					if u3 := p.Select(sub, cx); u3 != u {
						fail("inconsistent", fmt.Sprintf("ip_hash moved the client from upstream %d after upstream %d left", i, k))
					}
				}
				line = fmt.Sprint(i)
			default:
				obs := map[int]bool{}
				for k := 0; k < 400; k++ {
					var u *Upstream
					switch policy {
					case "least_conn":
						u = (&LeastConnSelection{}).Select(pool, cx)
					case "random":
						u = (&RandomSelection{}).Select(pool, cx)
					case "random_choose":
						u = (&RandomChoiceSelection{Choose: choose}).Select(pool, cx)
					}
					i := checkOne(u)
					obs[i] = true
					if policy == "least_conn" && u != nil {
						for _, a := range avail {
							if pool[a].totalConns() < u.totalConns() {
								fail("not-least", fmt.Sprintf("least_conn selected upstream %d with %d connections although %d has %d", i, u.totalConns(), a, pool[a].totalConns()))
							}
						}
					}
				}
				var o []int
				for i := range obs {
					o = append(o, i)
				}
				sort.Ints(o)
				var os []string
				for _, i := range o {
					os = append(os, fmt.Sprint(i))
				}
				line = "obs:" + strings.Join(os, ",")
			}
		})
		if panicked {
			line = "panic"
			fail("panic", fmt.Sprintf("%s panicked on a pool of %d upstreams (%d available)", policy, len(pool), len(avail)))
		}
		fmt.Fprintln(out.out, line)
	}
	out.stats(stats)
}

func safelyLB(f func()) (p bool) {
	defer func() {
		if recover() != nil {
			p = true
		}
	}()
	f()
	return false
}

package integration

// C18: wire-message codecs are exact inverses. For every exported message type: FromBytes on byte strings of every length
// around the accepted sizes (accept ⇒ ToBytes reproduces the input), and ToBytes→FromBytes on generated messages.

import (
	"bytes"
	"fmt"
	"reflect"
	"strings"
	"testing"

	"github.com/mholt/caddy-l4/modules/l4openvpn"
	"github.com/mholt/caddy-l4/modules/l4rdp"
	"github.com/mholt/caddy-l4/modules/l4winbox"
	"github.com/mholt/caddy-l4/modules/l4wireguard"
)

type codec struct {
	name  string
	sizes []int // interesting lengths
	model bool  // a Lean layout / model exists
	// dec parses src; returns a canonical field string, the re-encoded bytes and whether parsing succeeded
	dec func(src []byte) (fields string, re []byte, ok bool)
	// gen produces a well-formed message: canonical fields and its encoding (nil = none)
	gen func(r *vrng) (fields string, enc []byte)
}

func hexf(b []byte) string { return vhex(b) }

func safely(f func()) (panicked bool) {
	defer func() {
		if recover() != nil {
			panicked = true
		}
	}()
	f()
	return false
}

var codecs = []codec{
	{name: "tpkt", sizes: []int{4}, model: true,
		dec: func(src []byte) (string, []byte, bool) {
			h := &l4rdp.TPKTHeader{}
			if h.FromBytes(src) != nil {
				return "", nil, false
			}
			re, _ := h.ToBytes()
			return fmt.Sprintf("%d %d %d", h.Version, h.Reserved, h.Length), re, true
		}},
	{name: "x224", sizes: []int{7}, model: true,
		dec: func(src []byte) (string, []byte, bool) {
			x := &l4rdp.X224Crq{}
			if x.FromBytes(src) != nil {
				return "", nil, false
			}
			re, _ := x.ToBytes()
			return fmt.Sprintf("%d %d %d %d %d", x.Length, x.TypeCredit, x.DstRef, x.SrcRef, x.ClassOptions), re, true
		}},
	{name: "negreq", sizes: []int{8}, model: true,
		dec: func(src []byte) (string, []byte, bool) {
			x := &l4rdp.RDPNegReq{}
			if x.FromBytes(src) != nil {
				return "", nil, false
			}
			re, _ := x.ToBytes()
			return fmt.Sprintf("%d %d %d %d", x.Type, x.Flags, x.Length, x.Protocols), re, true
		}},
	{name: "corrinfo", sizes: []int{36}, model: true,
		dec: func(src []byte) (string, []byte, bool) {
			x := &l4rdp.RDPCorrInfo{}
			if x.FromBytes(src) != nil {
				return "", nil, false
			}
			re, _ := x.ToBytes()
			return fmt.Sprintf("%d %d %d %s %s", x.Type, x.Flags, x.Length, hexf(x.Identity[:]), hexf(x.Reserved[:])), re, true
		}},
	{name: "wginit", sizes: []int{148}, model: true,
		dec: func(src []byte) (string, []byte, bool) {
			x := &l4wireguard.MessageInitiation{}
			if x.FromBytes(src) != nil {
				return "", nil, false
			}
			re, _ := x.ToBytes()
			return fmt.Sprintf("%d %d %s %s %s %s %s", x.Type, x.Sender, hexf(x.Ephemeral[:]), hexf(x.Static[:]), hexf(x.Timestamp[:]), hexf(x.MAC1[:]), hexf(x.MAC2[:])), re, true
		}},
	{name: "ovpnplain", sizes: []int{14}, model: true,
		dec: func(src []byte) (string, []byte, bool) {
			x := &l4openvpn.MessagePlain{}
			if x.FromBytes(src) != nil {
				return "", nil, false
			}
			return fmt.Sprintf("%d %d %d %d", int(x.Opcode)<<3|int(x.KeyID), x.LocalSessionID, x.PrevPacketIDsCount, x.ThisPacketID), x.ToBytes(), true
		}},
	{name: "rdptoken", sizes: []int{11, 12, 40}, model: true,
		dec: func(src []byte) (string, []byte, bool) {
			x := &l4rdp.RDPToken{}
			if x.FromBytes(src) != nil {
				return "", nil, false
			}
			re, _ := x.ToBytes()
			return fmt.Sprintf("%d %d %d %d %d %d %d %d %s", x.Version, x.Reserved, x.Length, x.LengthIndicator, x.TypeCredit, x.DstRef, x.SrcRef, x.ClassOptions, hexf(x.Optional)), re, true
		}},
	{name: "wgtransport", sizes: []int{16, 17, 32, 60}, model: true,
		dec: func(src []byte) (string, []byte, bool) {
			x := &l4wireguard.MessageTransport{}
			if x.FromBytes(src) != nil {
				return "", nil, false
			}
			re, _ := x.ToBytes()
			return fmt.Sprintf("%d %d %d %s", x.Type, x.Receiver, x.Counter, hexf(x.Content)), re, true
		}},
	{name: "winboxauth", sizes: []int{37, 60, 257, 258, 259, 293, 294}, model: true,
		dec: func(src []byte) (string, []byte, bool) {
			x := &l4winbox.MessageAuth{}
			if x.FromBytes(src) != nil {
				return "", nil, false
			}
			return fmt.Sprintf("%d %s %s", x.PublicKeyParity, hexf(x.PublicKeyBytes), hexf([]byte(x.Username))), x.ToBytes(), true
		},
		gen: func(r *vrng) (string, []byte) {
			ulen := r.pick(1, 3, 8, 100, 219, 220, 221, 222, 223, 250, 253)
			u := make([]byte, ulen)
			for i := range u {
				u[i] = "abrXYZ019r"[r.intn(10)]
			}
			if r.intn(4) == 0 {
				// names around the RoMON suffix "+r": made of 'r' only, or ending in 'r' after a separator
				u = []byte([]string{"r", "rrr", "admin.r", "a-rr", "operator", "router", "r.r"}[r.intn(7)])
			}
			if r.intn(2) == 0 {
				u = append(u, "+r"...) // RoMON mode
			}
			x := &l4winbox.MessageAuth{Username: string(u), PublicKeyBytes: r.bytes(32, 255), PublicKeyParity: byte(r.intn(2))}
			for i := range x.PublicKeyBytes {
				x.PublicKeyBytes[i]++ // no delimiter inside the key
			}
			return fmt.Sprintf("%d %s %s", x.PublicKeyParity, hexf(x.PublicKeyBytes), hexf(u)), x.ToBytes()
		}},
	{name: "ovpnauth", sizes: []int{38, 54, 86},
		dec: func(src []byte) (string, []byte, bool) {
			x := &l4openvpn.MessageAuth{}
			x.Digest = l4openvpn.AuthDigestDefault
			if x.FromBytes(src) != nil {
				return "", nil, false
			}
			return fmt.Sprintf("%+v", *x), x.ToBytes(), true
		}},
	{name: "ovpncrypt", sizes: []int{54},
		dec: func(src []byte) (string, []byte, bool) {
			x := &l4openvpn.MessageCrypt{}
			if x.FromBytes(src) != nil {
				return "", nil, false
			}
			return fmt.Sprintf("%+v", *x), x.ToBytes(), true
		}},
	{name: "ovpncrypt2", sizes: []int{344, 400, 1078},
		dec: func(src []byte) (string, []byte, bool) {
			x := &l4openvpn.MessageCrypt2{}
			if x.FromBytes(src) != nil {
				return "", nil, false
			}
			return fmt.Sprintf("%+v", *x), x.ToBytes(), true
		},
		// structured messages over the whole range of wrapped-key lengths (290..1024 bytes, the length repeated in the last two
		// bytes): the parser for messages with a header must accept exactly what the header-less parser accepts
		gen: func(r *vrng) (string, []byte) {
			w := r.pick(290, 291, 400, 600, 1023, 1024, 1024)
			src := append([]byte{10 << 3}, r.bytes(53, 256)...)
			wk := r.bytes(w, 256)
			wk[w-2], wk[w-1] = byte(w>>8), byte(w)
			src = append(src, wk...)
			hdr := &l4openvpn.MessageHeader{}
			if hdr.FromBytes(src[:1]) != nil {
				return "", src
			}
			y := &l4openvpn.MessageCrypt2{}
			if y.FromBytesHeadless(src[1:], hdr) != nil {
				return "", src
			}
			return fmt.Sprintf("%+v", *y), src
		}},
}

func TestVerifCodec(t *testing.T) {
	out := vopen(t, "codec")
	defer out.close()
	r := &vrng{vseed()*40503 + 7}
	n := vcount(20000)
	stats := map[string]int{}
	for idx := 0; idx < n; idx++ {
		c := codecs[r.intn(len(codecs))]
		var src []byte
		wantFields := ""
		if c.gen != nil && r.intn(2) == 0 {
			wantFields, src = c.gen(r)
		} else {
			base := c.sizes[r.intn(len(c.sizes))]
			l := base + r.pick(0, 0, 0, 0, -1, 1, -2, 2, 5, 64, -base)
			if l < 0 {
				l = 0
			}
			src = r.bytes(l, 256)
			if c.name == "ovpnplain" || strings.HasPrefix(c.name, "ovpn") {
				if len(src) > 0 && r.intn(4) != 0 {
					op := 7
					if c.name == "ovpncrypt2" {
						op = 10
					}
					src[0] = byte(op << 3)
				}
			}
			if c.name == "winboxauth" && len(src) > 2 && r.intn(3) != 0 {
				// a structurally plausible message: header + alnum name + delimiter + key + parity
				u := 1 + r.intn(8)
				body := append(append(bytes.Repeat([]byte{'a'}, u), 0), append(bytes.Repeat([]byte{9}, 32), byte(r.intn(3)))...)
				src = append([]byte{byte(len(body)), 6}, body...)
				if r.intn(4) == 0 {
					src = append(src, r.bytes(r.pick(1, 2, 300), 256)...)
				}
			}
		}
		line := "codec " + c.name + " " + vhex(src)
		if !c.model {
			line = "codec - -"
		}
		fmt.Fprintln(out.cases, line)
		out.cases.Flush()
		var fields string
		var re []byte
		var ok bool
		if safely(func() { fields, re, ok = c.dec(src) }) {
			fmt.Fprintln(out.out, "panic")
			out.fail(idx, "codec-panic:"+c.name, fmt.Sprintf("%s FromBytes/ToBytes panics on a %d-byte input %s", c.name, len(src), vdigest(src)))
			stats[c.name+":panic"]++
			continue
		}
		switch {
		case !ok:
			fmt.Fprintln(out.out, pick(c.model, "err", "*"))
			stats[c.name+":rejected"]++
			if wantFields != "" {
				out.fail(idx, "dec-enc:"+c.name, fmt.Sprintf("%s: the encoding of a well-formed message is rejected by the parser (%d bytes)", c.name, len(src)))
			}
		default:
			fmt.Fprintln(out.out, pick(c.model, "ok "+fields, "*"))
			stats[c.name+":accepted"]++
			if !bytes.Equal(re, src) {
				out.fail(idx, "enc-dec:"+c.name, fmt.Sprintf("%s: parsing a %d-byte input succeeds but serialising the result gives %d bytes / different bytes (truncated or padded): %s", c.name, len(src), len(re), vdigest(src)))
			}
			if wantFields != "" && !reflect.DeepEqual(fields, wantFields) {
				out.fail(idx, "dec-enc:"+c.name, fmt.Sprintf("%s: serialising then parsing a well-formed message gives a different message", c.name))
			}
		}
	}
	out.stats(stats)
}

func pick(b bool, x, y string) string {
	if b {
		return x
	}
	return y
}

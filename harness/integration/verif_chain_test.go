package integration

// Verification harness: chains of the real handlers (throttle, tee, proxy_protocol, subroute) behind real matching,
// driven by a scripted client. C01: every consuming handler sees the client's stream exactly once, in order. C12: the
// PROXY header is stripped exactly and its addresses are honoured.

import (
	"os"
	"bytes"
	"context"
	"encoding/json"
	"fmt"
	"io"
	"net"
	"strings"
	"sync"
	"testing"
	"time"

	"github.com/caddyserver/caddy/v2"
	"github.com/mastercactapus/proxyprotocol"
	"go.uber.org/zap"

	"github.com/mholt/caddy-l4/layer4"
)

// vneed matches once `n` bytes are available (it forces prefetch rounds)
type vneed struct {
	N int `json:"n"`
}

func (vneed) CaddyModule() caddy.ModuleInfo {
	return caddy.ModuleInfo{ID: "layer4.matchers.vneed", New: func() caddy.Module { return new(vneed) }}
}
func (m *vneed) Match(cx *layer4.Connection) (bool, error) {
	buf := make([]byte, m.N)
	if _, err := io.ReadFull(cx, buf); err != nil {
		return false, err
	}
	return true, nil
}

// vrec reads `take` bytes (or everything when take < 0) with reads of size `rsz` and records them under `id`
type vrec struct {
	ID   string `json:"id"`
	Take int    `json:"take"`
	Rsz  int    `json:"rsz"`
	Term bool   `json:"term"`
}

var (
	vrecMu   sync.Mutex
	vrecData = map[string][]byte{}
	vrecAddr = map[string]string{}
	vrecDone = map[string]chan struct{}{}
	vrecTwice = map[string]int{}
)

func (vrec) CaddyModule() caddy.ModuleInfo {
	return caddy.ModuleInfo{ID: "layer4.handlers.vrec", New: func() caddy.Module { return new(vrec) }}
}
func (h *vrec) Handle(cx *layer4.Connection, next layer4.Handler) error {
	var got []byte
	p := make([]byte, h.Rsz)
	for h.Take < 0 || len(got) < h.Take {
		q := p
		if h.Take >= 0 && h.Take-len(got) < len(q) {
			q = q[:h.Take-len(got)]
		}
		n, err := cx.Read(q)
		got = append(got, q[:n]...)
		if err != nil {
			break
		}
	}
	vrecMu.Lock()
	vrecData[h.ID] = got
	vrecAddr[h.ID] = cx.RemoteAddr().String() + ">" + cx.LocalAddr().String()
	if ch, ok := vrecDone[h.ID]; ok {
		select {
		case <-ch:
			vrecTwice[h.ID]++ // the same recorder ran twice for one connection
		default:
			close(ch)
		}
	}
	vrecMu.Unlock()
	if h.Term {
		return nil
	}
	return next.Handle(cx)
}

var vregOnce sync.Once

func vreg() {
	vregOnce.Do(func() {
		caddy.RegisterModule(vneed{})
		caddy.RegisterModule(vrec{})
	})
}

type chainCase struct {
	desc     string
	routes   []map[string]any
	stream   []byte // everything the client sends
	payload  []byte // the stream without the PROXY header
	expect   map[string][2]int // recorder id -> [from, to) of payload (to = -1: until the end)
	chunks   [][]byte
	wantAddr string // expected remote>local seen after proxy_protocol ("" = unchanged)
	recAfterPP string
}

func split(r *vrng, b []byte) [][]byte {
	var out [][]byte
	mode := r.intn(4)
	for len(b) > 0 {
		var n int
		switch mode {
		case 0:
			n = len(b)
		case 1:
			n = 1 + r.intn(7)
		case 2:
			n = r.pick(1, 100, 2047, 2048, 2049, 4096, 5000)
		default:
			n = 1 + r.intn(len(b))
		}
		if n > len(b) {
			n = len(b)
		}
		out = append(out, b[:n])
		b = b[n:]
	}
	return out
}

func ppHeader(r *vrng) ([]byte, string) {
	src := &net.TCPAddr{IP: net.IPv4(10, byte(r.intn(250)), byte(r.intn(250)), byte(1 + r.intn(250))), Port: 1 + r.intn(65000)}
	dst := &net.TCPAddr{IP: net.IPv4(192, 168, byte(r.intn(250)), byte(1 + r.intn(250))), Port: 1 + r.intn(65000)}
	var buf bytes.Buffer
	if r.intn(2) == 0 {
		h := proxyprotocol.HeaderV1{SrcIP: src.IP, DestIP: dst.IP, SrcPort: src.Port, DestPort: dst.Port}
		h.WriteTo(&buf)
	} else {
		h := proxyprotocol.HeaderV2{Command: proxyprotocol.CmdProxy, Src: src, Dest: dst}
		h.WriteTo(&buf)
	}
	return buf.Bytes(), src.String() + ">" + dst.String()
}

func genChain(r *vrng, id int) chainCase {
	c := chainCase{expect: map[string][2]int{}}
	plen := r.pick(0, 1, 5, 100, 2048, 4095, 4096, 4097, 5000, 8192, 12000, 20000, 40000)
	c.payload = (&vrng{r.next()}).bytes(plen, 256)
	var handlers []map[string]any
	var desc []string
	pos := 0 // payload offset the next handler starts at
	usePP := r.intn(3) == 0
	if usePP {
		hdr, addr := ppHeader(r)
		c.stream = append(append([]byte{}, hdr...), c.payload...)
		c.wantAddr = addr
		handlers = append(handlers, map[string]any{"handler": "proxy_protocol"})
		desc = append(desc, fmt.Sprintf("proxy_protocol(hdr %d)", len(hdr)))
	} else {
		c.stream = c.payload
	}
	rec := func(take int, term bool) map[string]any {
		rid := fmt.Sprintf("c%d-r%d", id, len(c.expect))
		to := -1
		if take >= 0 {
			to = pos + take
			if to > len(c.payload) {
				to = len(c.payload)
			}
		}
		c.expect[rid] = [2]int{pos, to}
		if to >= 0 {
			pos = to
		} else {
			pos = len(c.payload)
		}
		if c.recAfterPP == "" {
			c.recAfterPP = rid
		}
		return map[string]any{"handler": "vrec", "id": rid, "take": take, "rsz": r.pick(1, 7, 512, 4096, 32768), "term": term}
	}
	// how much the route's own matcher forces into the matching buffer
	need := r.pick(0, 0, 0, 1, 20, 2048, 2049, 4097, 6000, 8192)
	n := r.intn(4)
	for i := 0; i < n; i++ {
		switch r.intn(4) {
		case 0:
			b := r.pick(1, 64, 1000, 5000)
			handlers = append(handlers, map[string]any{"handler": "throttle", "read_bytes_per_second": 1e12, "read_burst_size": b})
			desc = append(desc, fmt.Sprintf("throttle(%d)", b))
		case 1:
			// tee: the branch records everything from the current position
			rid := fmt.Sprintf("c%d-t%d", id, len(c.expect))
			c.expect[rid] = [2]int{pos, -2} // -2: branch sees everything the main line reads (all of it, as the last handler drains)
			handlers = append(handlers, map[string]any{"handler": "tee", "branch": []map[string]any{{"handler": "vrec", "id": rid, "take": -1, "rsz": r.pick(3, 512, 4096), "term": true}}})
			desc = append(desc, "tee")
			if c.recAfterPP == "" {
				c.recAfterPP = rid
			}
		case 2:
			take := r.pick(0, 1, 3, 100, 3000, 5000)
			handlers = append(handlers, rec(take, false))
			desc = append(desc, fmt.Sprintf("rec(%d)", take))
		case 3:
			ineed := r.pick(0, 1, 10, 2049, 4097)
			if ineed > len(c.payload)-pos {
				ineed = 0 // the nested route must be able to match on what is left of the stream
			}
			if need >= 8192 && pos < 8192+2048 {
				// the matching buffer is full and (partly) unread: a nested matcher asking for more than is left in it runs
				// into the buffer limit and the connection is dropped — conforming behaviour (C05), not a routing failure
				ineed = 0
			}
			take := r.pick(0, 2, 100)
			inner := []map[string]any{{"match": []map[string]any{{"vneed": map[string]any{"n": ineed}}}, "handle": []map[string]any{rec(take, false)}}}
			handlers = append(handlers, map[string]any{"handler": "subroute", "routes": inner})
			desc = append(desc, fmt.Sprintf("subroute(need %d, rec %d)", ineed, take))
		}
	}
	handlers = append(handlers, rec(-1, true))
	desc = append(desc, "rec(all)")
	c.routes = []map[string]any{{"match": []map[string]any{{"vneed": map[string]any{"n": need}}}, "handle": handlers}}
	split2 := ""
	if len(handlers) > 1 && need == 0 && r.intn(2) == 0 {
		// (only when the first route is decided at once: a later route that matches may run while an earlier one is still
		// undecided — the router's documented behaviour)
		// the same handlers as two consecutive routes: the first is non-terminal, the second has no matcher (matches everything):
		// what follows a handler is then the router's own continuation for this connection, not the next handler of its route
		k := 1 + r.intn(len(handlers)-1)
		c.routes = []map[string]any{
			{"match": []map[string]any{{"vneed": map[string]any{"n": need}}}, "handle": handlers[:k]},
			{"handle": handlers[k:]},
		}
		split2 = fmt.Sprintf(" routes=%d+%d", k, len(handlers)-k)
	}
	c.desc = fmt.Sprintf("payload=%d need=%d chain=%s%s", plen, need, strings.Join(desc, ","), split2)
	c.chunks = split(r, c.stream)
	return c
}

// runChain provisions and compiles the route list once — as a server does — and serves `conns` connections with it, one after
// the other, each carrying the same stream: handler instances (and whatever they cache) are shared between connections.
func runChain(t *testing.T, ctx caddy.Context, c chainCase, conns int) (sig, desc string) {
	raw, _ := json.Marshal(c.routes)
	var routes layer4.RouteList
	if err := json.Unmarshal(raw, &routes); err != nil {
		t.Fatalf("route json: %v", err)
	}
	if err := routes.Provision(ctx); err != nil {
		t.Fatalf("provision: %v (%s)", err, raw)
	}
	fell := false
	h := routes.Compile(zap.NewNop(), time.Hour, layer4.HandlerFunc(func(cx *layer4.Connection) error { fell = true; return nil }))
	for k := 0; k < conns; k++ {
		sig, desc = runChainConn(c, h, &fell)
		if sig != "" {
			if k > 0 {
				desc = fmt.Sprintf("connection %d served by the same provisioned handlers: %s", k+1, desc)
			}
			return sig, desc
		}
	}
	return "", ""
}

func runChainConn(c chainCase, h layer4.Handler, fell *bool) (sig, desc string) {
	*fell = false
	vrecMu.Lock()
	for id := range c.expect {
		vrecDone[id] = make(chan struct{})
		delete(vrecData, id)
		delete(vrecAddr, id)
	}
	vrecMu.Unlock()
	chunks := make([][]byte, len(c.chunks))
	copy(chunks, c.chunks)
	sc := &sconn{chunks: chunks, eof: true, eofWithLast: len(c.stream)%3 == 1, remote: &net.TCPAddr{IP: net.IPv4(127, 0, 0, 1), Port: 40001}}
	cx := layer4.WrapConnection(sc, make([]byte, 0, 2048), zap.NewNop())
	err := h.Handle(cx)
	need := c.routes[0]["match"].([]map[string]any)[0]["vneed"].(map[string]any)["n"].(int)
	if need > len(c.stream) || need > 8192+2048 {
		return "", "" // never matches: nothing to check
	}
	if err != nil {
		return "chain-error", fmt.Sprintf("handler chain returned %v", err)
	}
	if *fell {
		return "chain-fallback", "the route did not match although enough bytes were sent"
	}
	for id, rng := range c.expect {
		vrecMu.Lock()
		ch := vrecDone[id]
		vrecMu.Unlock()
		select {
		case <-ch:
		case <-time.After(5 * time.Second):
			return "recorder-missing", fmt.Sprintf("recorder %s never finished", id)
		}
		vrecMu.Lock()
		got := vrecData[id]
		vrecMu.Unlock()
		from, to := rng[0], rng[1]
		if from > len(c.payload) {
			from = len(c.payload)
		}
		if to < 0 {
			to = len(c.payload)
		}
		want := c.payload[from:to]
		if !bytes.Equal(got, want) {
			k := 0
			for k < len(got) && k < len(want) && got[k] == want[k] {
				k++
			}
			return "stream", fmt.Sprintf("recorder %s read %d bytes, expected payload[%d:%d] (%d bytes); first difference at +%d", id, len(got), from, to, len(want), k)
		}
	}
	vrecMu.Lock()
	for id := range c.expect {
		if vrecTwice[id] > 0 {
			vrecMu.Unlock()
			return "handler-ran-twice", fmt.Sprintf("recorder %s was invoked %d times for one connection", id, vrecTwice[id]+1)
		}
	}
	vrecMu.Unlock()
	if c.wantAddr != "" && c.recAfterPP != "" {
		vrecMu.Lock()
		a := vrecAddr[c.recAfterPP]
		vrecMu.Unlock()
		if a != c.wantAddr {
			return "pp-addr", fmt.Sprintf("after proxy_protocol the handler saw addresses %s, header declared %s", a, c.wantAddr)
		}
	}
	return "", ""
}

func TestVerifChain(t *testing.T) {
	vreg()
	out := vopen(t, "chain")
	defer out.close()
	ctx, cancel := caddy.NewContext(caddy.Context{Context: context.Background()})
	defer cancel()
	r := &vrng{vseed()*15485863 + 3}
	n := vcount(400)
	stats := map[string]int{}
	for i := 0; i < n; i++ {
		c := genChain(r, i)
		fmt.Fprintf(out.cases, "chain %s chunks=%d\n", c.desc, len(c.chunks))
		out.cases.Flush()
		conns := r.pick(1, 1, 2, 3)
		if only := os.Getenv("VERIF_ONLY"); only != "" && only != fmt.Sprint(i) {
			continue
		}
		sig, desc := runChain(t, ctx, c, conns)
		if conns > 1 {
			stats["chains serving several connections"]++
		}
		if sig != "" {
			out.fail(i, sig, desc)
			fmt.Fprintf(out.out, "FAIL %s\n", sig)
		} else {
			fmt.Fprintf(out.out, "ok %s\n", c.desc)
		}
		for _, k := range []string{"proxy_protocol", "throttle", "tee", "subroute"} {
			if strings.Contains(c.desc, k) {
				stats["chains with "+k]++
			}
		}
	}
	out.stats(stats)
}

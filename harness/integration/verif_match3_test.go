package integration

import (
	"bytes"
	"crypto/tls"
	"encoding/binary"
	"encoding/json"
	"fmt"
	"net"
	"strings"
	"time"

	"github.com/caddyserver/caddy/v2"
	"github.com/miekg/dns"

	"github.com/mholt/caddy-l4/layer4"
	"github.com/mholt/caddy-l4/modules/l4clock"
	"github.com/mholt/caddy-l4/modules/l4dns"
	"github.com/mholt/caddy-l4/modules/l4http"
	"github.com/mholt/caddy-l4/modules/l4openvpn"
	"github.com/mholt/caddy-l4/modules/l4tls"
)

// clientHello produces the first flight of a crypto/tls client with the given configuration
func clientHello(cfg *tls.Config) []byte {
	c1, c2 := net.Pipe()
	done := make(chan []byte, 1)
	go func() {
		var all []byte
		buf := make([]byte, 65536)
		c2.SetReadDeadline(time.Now().Add(2 * time.Second))
		for {
			n, err := c2.Read(buf)
			all = append(all, buf[:n]...)
			if len(all) >= 5 {
				want := 5 + int(binary.BigEndian.Uint16(all[3:5]))
				if len(all) >= want {
					break
				}
			}
			if err != nil {
				break
			}
		}
		c2.Close()
		done <- all
	}()
	cl := tls.Client(c1, cfg)
	cl.SetDeadline(time.Now().Add(2 * time.Second))
	_ = cl.Handshake()
	c1.Close()
	return <-done
}

var helloCache [][]byte

func someHello(r *vrng) []byte {
	if len(helloCache) == 0 {
		for _, cfg := range []*tls.Config{
			{ServerName: "example.com", InsecureSkipVerify: true},
			{ServerName: "a.b.example.org", NextProtos: []string{"h2", "http/1.1"}, InsecureSkipVerify: true},
			{InsecureSkipVerify: true, MaxVersion: tls.VersionTLS12},
			{ServerName: "x.test", NextProtos: []string{"acme-tls/1"}, MinVersion: tls.VersionTLS13, InsecureSkipVerify: true},
		} {
			helloCache = append(helloCache, clientHello(cfg))
		}
	}
	return helloCache[r.intn(len(helloCache))]
}

func genTLS(r *vrng, ctx caddy.Context) mcase {
	m := &l4tls.MatchTLS{}
	prov(ctx, m)
	msg := append([]byte(nil), someHello(r)...)
	switch r.intn(8) {
	case 0:
		msg[0] = byte(r.pick(0x15, 0x17, 0x14, 0))
	case 1:
		binary.BigEndian.PutUint16(msg[3:], uint16(r.pick(0, 1, 4, len(msg)-5+1, len(msg)-6, 16384, 65535)))
	case 2:
		msg = append(msg, r.bytes(10, 256)...)
	}
	return mcase{name: "tls", m: m, msg: mutate(r, msg), model: true}
}

func dnsRules(r *vrng) (l4dns.MatchDNSRules, [][3]string) {
	var rs l4dns.MatchDNSRules
	var ref [][3]string
	for k := r.pick(0, 1, 1, 1, 2); k > 0; k-- {
		ru := &l4dns.MatchDNSRule{}
		var x [3]string
		if r.intn(4) == 0 {
			ru.Class = []string{"IN", "IN", "CH"}[r.intn(3)]
			x[0] = ru.Class
		}
		if r.intn(2) == 0 {
			ru.Type = []string{"A", "MX"}[r.intn(2)]
			x[1] = ru.Type
		}
		if r.intn(2) == 0 {
			ru.Name = []string{"example.com.", "example.org."}[r.intn(2)]
			x[2] = ru.Name
		}
		rs = append(rs, ru)
		ref = append(ref, x)
	}
	return rs, ref
}

// independent reference for a rule list: some rule whose non-empty fields all equal the question's
func refRules(ref [][3]string, class, typ, name string) bool {
	for _, x := range ref {
		if (x[0] == "" || x[0] == class) && (x[1] == "" || x[1] == typ) && (x[2] == "" || x[2] == name) {
			return true
		}
	}
	return false
}

func b2i(b bool) int {
	if b {
		return 1
	}
	return 0
}

func genDNS(r *vrng, ctx caddy.Context) mcase {
	m := &l4dns.MatchDNS{PreferAllow: r.intn(2) == 0, DefaultDeny: r.intn(2) == 0}
	var aref, dref [][3]string
	m.Allow, aref = dnsRules(r)
	m.Deny, dref = dnsRules(r)
	prov(ctx, m)
	q := new(dns.Msg)
	q.Id = uint16(r.intn(65536))
	q.RecursionDesired = true
	nq := r.pick(1, 1, 1, 2, 0)
	for i := 0; i < nq; i++ {
		q.Question = append(q.Question, dns.Question{
			Name:   []string{"example.com.", "example.com.", "example.org.", "example.org.", "zz.test."}[r.intn(5)],
			Qtype:  uint16(r.pick(int(dns.TypeA), int(dns.TypeA), int(dns.TypeMX), int(dns.TypeMX), int(dns.TypeTXT), 65280)),
			Qclass: uint16(r.pick(int(dns.ClassINET), int(dns.ClassINET), int(dns.ClassINET), int(dns.ClassINET), int(dns.ClassCHAOS), 77)),
		})
	}
	switch r.intn(16) {
	case 0:
		q.Response = true
	case 1:
		q.Rcode = dns.RcodeServerFailure
	case 2:
		q.Zero = true
	}
	raw, err := q.Pack()
	if err != nil {
		raw = r.bytes(20, 256)
	}
	udp := r.intn(2) == 0
	msg := raw
	if !udp {
		msg = append(binary.BigEndian.AppendUint16(nil, uint16(len(raw))), raw...)
		switch r.intn(10) {
		case 0:
			binary.BigEndian.PutUint16(msg, uint16(r.pick(0, 11, 12, len(raw)-1, len(raw)+1, 65535)))
		case 1:
			msg = append(msg, 0)
		}
	}
	hasAllow, hasDeny := len(m.Allow) > 0, len(m.Deny) > 0
	// reference decision for a well-formed query: every question must be acceptable
	exp := ""
	if err == nil && len(msg) == len(raw)+2*b2i(!udp) && (udp || int(binary.BigEndian.Uint16(msg)) == len(raw)) {
		exp = "yes"
		if len(q.Question) == 0 || q.Response || q.Rcode != dns.RcodeSuccess || q.Zero {
			exp = "no"
		}
		for _, qq := range q.Question {
			cv, cf := dns.ClassToString[qq.Qclass]
			tv, tf := dns.TypeToString[qq.Qtype]
			if !hasAllow && !hasDeny {
				continue
			}
			den, all := refRules(dref, cv, tv, qq.Name), refRules(aref, cv, tv, qq.Name)
			ok := cf && tf
			switch {
			case den && all:
				ok = ok && m.PreferAllow
			case den:
				ok = false
			case all:
			default:
				ok = ok && !(m.DefaultDeny || (hasAllow && !hasDeny))
			}
			if !ok {
				exp = "no"
			}
		}
	}
	msg = mutate(r, msg)
	return mcase{name: "dns", m: m, msg: msg, model: true, udp: udp, expect: exp, cfgFn: func(p []byte) string {
		cfg := fmt.Sprintf("%d %d %d %d", b2i(hasAllow), b2i(hasDeny), b2i(m.PreferAllow), b2i(m.DefaultDeny))
		// the bytes the matcher hands to the DNS library
		var body []byte
		if udp {
			body = p
		} else if len(p) >= 2 {
			n := int(binary.BigEndian.Uint16(p))
			if len(p)-2 >= n {
				body = p[2 : 2+n]
			}
		}
		um := new(dns.Msg)
		if body == nil || um.Unpack(body) != nil {
			return cfg + " u 0"
		}
		s := fmt.Sprintf(" u 1 %d %d %d %d %d", um.Len(), len(um.Question), b2i(um.Response), b2i(um.Rcode == dns.RcodeSuccess), b2i(um.Zero))
		for _, qq := range um.Question {
			cv, cf := dns.ClassToString[qq.Qclass]
			tv, tf := dns.TypeToString[qq.Qtype]
			s += fmt.Sprintf(" %d %d %d %d", b2i(cf), b2i(tf), b2i(refRules(dref, cv, tv, qq.Name)), b2i(refRules(aref, cv, tv, qq.Name)))
		}
		return cfg + s
	}}
}

func genOpenVPN(r *vrng, ctx caddy.Context) mcase {
	m := &l4openvpn.MatchOpenVPN{Modes: []string{"plain"}}
	prov(ctx, m)
	body := []byte{7 << 3}
	body = binary.BigEndian.AppendUint64(body, uint64(r.pick(1, 0, 1<<40, 77)))
	body = append(body, byte(r.pick(0, 0, 0, 1)))
	body = binary.BigEndian.AppendUint32(body, uint32(r.pick(0, 0, 0, 1)))
	switch r.intn(8) {
	case 0:
		body[0] = byte(r.pick(7<<3|1, 10<<3, 8<<3, 0))
	case 1:
		body = append(body, r.bytes(r.pick(1, 24, 72, 73, 300), 256)...)
	}
	udp := r.intn(2) == 0
	msg := body
	if !udp {
		msg = append(binary.BigEndian.AppendUint16(nil, uint16(len(body))), body...)
		if r.intn(8) == 0 {
			binary.BigEndian.PutUint16(msg, uint16(r.pick(0, 13, 14, 15, 86, 87, 1078, 1079)))
		}
	}
	return mcase{name: "openvpn", cfg: "1 0 0 0", m: m, msg: mutate(r, msg), model: true, udp: udp}
}

func genHTTP(r *vrng, ctx caddy.Context) mcase {
	if r.intn(6) == 0 {
		// path filters on request targets with percent-escapes, over HTTP/1.1 and over HTTP/2 with prior knowledge: the filter
		// sees the decoded path whichever way the request arrives
		pcs := []struct{ sub, target, want string }{
			{`[{"path":["/files/my report"]}]`, "/files/my%20report", "yes"},
			{`[{"path":["/files/my report"]}]`, "/files/other", "no"},
			{`[{"not":[{"path":["/admin*"]}]}]`, "/%61dmin/users", "no"},
			{`[{"not":[{"path":["/admin*"]}]}]`, "/public", "yes"},
			{`[{"path":["/a b/*"]}]`, "/a%20b/c?x=%20", "yes"},
			{`[{"path":["/plain"]}]`, "/plain?q=1", "yes"},
		}
		pc := pcs[r.intn(len(pcs))]
		pm := &l4http.MatchHTTP{}
		if err := json.Unmarshal([]byte(pc.sub), pm); err != nil {
			panic(err)
		}
		prov(ctx, pm)
		var msg []byte
		if r.intn(2) == 0 {
			msg = []byte("GET " + pc.target + " HTTP/1.1\r\nHost: example.com\r\n\r\n")
		} else {
			frame := func(typ, flags byte, stream uint32, payload []byte) []byte {
				f := []byte{byte(len(payload) >> 16), byte(len(payload) >> 8), byte(len(payload)), typ, flags, 0, 0, 0, 0}
				binary.BigEndian.PutUint32(f[5:], stream)
				return append(f, payload...)
			}
			msg = append([]byte("PRI * HTTP/2.0\r\n\r\nSM\r\n\r\n"), frame(4, 0, 0, nil)...)
			hp := []byte{0x82, 0x86, 0x44, byte(len(pc.target))} // :method GET, :scheme http, :path (literal, indexed name 4)
			hp = append(hp, pc.target...)
			hp = append(append(hp, 0x41, 0x0b), []byte("example.com")...)
			msg = append(msg, frame(1, 5, 1, hp)...)
		}
		return mcase{name: "http", m: pm, msg: msg, model: true, rawJSON: pc.sub, expect: pc.want}
	}
	m := &l4http.MatchHTTP{}
	subs := []string{`[]`, `[]`, `[{"host":["example.com"]}]`, `[{"method":["GET"]}]`, `[{"path":["/"]}]`, `[{"host":["example.com"],"method":["GET"]}]`}
	sub := subs[r.intn(len(subs))]
	if err := json.Unmarshal([]byte(sub), m); err != nil {
		panic(err)
	}
	prov(ctx, m)
	reqs := []string{
		"GET / HTTP/1.1\r\nHost: example.com\r\n\r\n",
		"POST /a/b?c=d HTTP/1.0\r\nHost: x\r\nContent-Length: 0\r\n\r\n",
		"GET / HTTP/1.1\nHost: example.com\n\n",
		"PRI * HTTP/2.0\r\n\r\nSM\r\n\r\n\x00\x00\x00\x04\x00\x00\x00\x00\x00",
		"GET /HTTP/1.1\r\n\r\n",
		"SSH-2.0-x\r\n",
		"GET /" + strings.Repeat("a", 9000) + " HTTP/1.1\r\n\r\n",
		"short\n",
		"0123456789\n",
		" HTTP/1.1\n",
	}
	msg := []byte(reqs[r.intn(len(reqs))])
	if r.intn(3) == 0 {
		// HTTP/2 with prior knowledge: preface, k non-HEADERS frames, then HEADERS
		frame := func(typ, flags byte, stream uint32, payload []byte) []byte {
			f := []byte{byte(len(payload) >> 16), byte(len(payload) >> 8), byte(len(payload)), typ, flags, 0, 0, 0, 0}
			binary.BigEndian.PutUint32(f[5:], stream)
			return append(f, payload...)
		}
		msg = []byte("PRI * HTTP/2.0\r\n\r\nSM\r\n\r\n")
		for k := r.pick(0, 0, 1, 1, 2, 3, 8, 9, 10, 11, 14); k > 0; k-- {
			switch r.intn(4) {
			case 0:
				msg = append(msg, frame(4, 0, 0, nil)...)
			case 1:
				msg = append(msg, frame(8, 0, 0, []byte{0, 0, 1, 0})...)
			case 2:
				msg = append(msg, frame(2, 0, uint32(1+2*r.intn(5)), []byte{0, 0, 0, 0, 16})...)
			case 3:
				msg = append(msg, frame(6, 0, 0, make([]byte, 8))...)
			}
		}
		hp := append([]byte{0x82, 0x86, 0x84, 0x41, 0x0b}, []byte("example.com")...)
		msg = append(msg, frame(1, 5, 1, hp)...)
		if r.intn(3) != 0 {
			return mcase{name: "http", m: m, msg: msg, model: true, rawJSON: sub}
		}
	}
	return mcase{name: "http", m: m, msg: mutate(r, msg), model: true, rawJSON: sub}
}

func genClock(r *vrng, ctx caddy.Context) mcase {
	hms := func(s int) string { return fmt.Sprintf("%02d:%02d:%02d", s/3600, s/60%60, s%60) }
	after, before := r.pick(0, 0, 3600, 43200, 86399), r.pick(0, 0, 1, 3600, 43200, 86399)
	offs := r.pick(0, 0, 3600, -18000, 19800)
	tz := "UTC"
	if offs != 0 {
		sign := "+"
		o := offs
		if o < 0 {
			sign, o = "-", -o
		}
		tz = fmt.Sprintf("%s%02d:%02d", sign, o/3600, o/60%60)
	}
	// zones with daylight saving time: the wall clock depends on the date of the connection, not on the date of provisioning.
	// Offsets on 2024-05-17 / 2024-01-18 from the zones' published rules (not computed with the library under test).
	wrapDay := 0
	if r.intn(3) == 0 {
		z := r.intn(4)
		name := []string{"America/New_York", "Europe/Berlin", "Australia/Sydney", "Asia/Kolkata"}[z]
		may := []int{-4 * 3600, 2 * 3600, 10 * 3600, 19800}[z]
		jan := []int{-5 * 3600, 1 * 3600, 11 * 3600, 19800}[z]
		mz := &l4clock.MatchClock{After: hms(after), Before: hms(before), Timezone: name}
		if mz.Provision(ctx) == nil {
			tz, offs = name, may
			if r.intn(2) == 0 {
				wrapDay, offs = -120, jan
			}
		}
	}
	m := &l4clock.MatchClock{After: hms(after), Before: hms(before), Timezone: tz}
	prov(ctx, m)
	now := r.pick(0, 1, 3599, 3600, 3601, 43199, 43200, 86399, r.intn(86400))
	// the harness fixes the wrap time of the connection; the reference computes the zone-local second of the day
	local := ((now+offs)%86400 + 86400) % 86400
	// reference: the window [after, before) on the zone-local clock, "before 00:00:00" meaning midnight, bounds swapped if reversed
	lo, hi := after, before
	if hi == 0 {
		hi = 86400
	}
	if hi < lo {
		lo, hi = hi, lo
	}
	exp := "no"
	if lo <= local && local < hi {
		exp = "yes"
	}
	return mcase{name: "clock", cfg: fmt.Sprintf("%d %d %d", after, before, local), m: m, msg: r.bytes(r.intn(3), 256), model: true, wrapTime: now + 1, wrapDay: wrapDay, expect: exp}
}

func genIP(r *vrng, ctx caddy.Context) mcase {
	sets := [][]string{{"10.0.0.0/8"}, {"192.168.1.7"}, {"10.1.0.0/16", "172.16.0.0/12"}, {"fd00::/8"}, {"::1", "127.0.0.0/8"}, {"0.0.0.0/0"}, {"2001:db8::/33"}}
	ranges := sets[r.intn(len(sets))]
	addrs := []string{"10.1.2.3", "10.200.0.1", "192.168.1.7", "192.168.1.8", "172.20.0.9", "8.8.8.8", "127.0.0.1", "::1", "fd12::1", "2001:db8:7fff::1", "2001:db8:8000::1"}
	a := addrs[r.intn(len(addrs))]
	remote := r.intn(2) == 0
	var m layer4.ConnMatcher
	name := "local_ip"
	if remote {
		mm := &layer4.MatchRemoteIP{Ranges: ranges}
		prov(ctx, mm)
		m = mm
		name = "remote_ip"
	} else {
		mm := &layer4.MatchLocalIP{Ranges: ranges}
		prov(ctx, mm)
		m = mm
	}
	tokOf := func(ip net.IP) (int, string) {
		if v4 := ip.To4(); v4 != nil && !strings.Contains(ip.String(), ":") {
			return 0, fmt.Sprintf("%d", binary.BigEndian.Uint32(v4))
		}
		v := new(bytes.Buffer)
		for _, b := range ip.To16() {
			fmt.Fprintf(v, "%02x", b)
		}
		return 1, "x" + v.String()
	}
	cfg := fmt.Sprintf("%d", len(ranges))
	for _, s := range ranges {
		if !strings.Contains(s, "/") {
			if strings.Contains(s, ":") {
				s += "/128"
			} else {
				s += "/32"
			}
		}
		ip, ipn, err := net.ParseCIDR(s)
		if err != nil {
			panic(err)
		}
		_ = ip
		ones, _ := ipn.Mask.Size()
		is6, v := tokOf(ipn.IP)
		if strings.Contains(s, ":") {
			is6 = 1
			if !strings.HasPrefix(v, "x") {
				vv := new(bytes.Buffer)
				for _, b := range ipn.IP.To16() {
					fmt.Fprintf(vv, "%02x", b)
				}
				v = "x" + vv.String()
			}
		}
		cfg += fmt.Sprintf(" %d %s %d", is6, v, ones)
	}
	is6, v := tokOf(net.ParseIP(a))
	cfg += fmt.Sprintf(" %d %s", is6, v)
	exp := "no"
	for _, s := range ranges {
		if !strings.Contains(s, "/") {
			if strings.Contains(s, ":") {
				s += "/128"
			} else {
				s += "/32"
			}
		}
		_, ipn, _ := net.ParseCIDR(s)
		if ipn.Contains(net.ParseIP(a)) && strings.Contains(s, ":") == strings.Contains(a, ":") {
			exp = "yes"
		}
	}
	return mcase{name: "ip", cfg: cfg, m: m, msg: r.bytes(r.intn(3), 256), model: true, addr: a, addrRemote: remote, nameOverride: name, expect: exp}
}

func init() {
	mgens = append(mgens, genTLS, genDNS, genDNS, genOpenVPN, genHTTP, genHTTP, genClock, genIP)
}

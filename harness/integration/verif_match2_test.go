package integration

import (
	"encoding/binary"
	"fmt"
	"net"
	"regexp"
	"strings"

	"github.com/caddyserver/caddy/v2"

	"github.com/mholt/caddy-l4/modules/l4rdp"
	"github.com/mholt/caddy-l4/modules/l4winbox"
	"github.com/mholt/caddy-l4/modules/l4wireguard"
)

// regexp configurations are restricted to anchored literal prefixes so that the model can evaluate them itself
func rePrefix(r *vrng, choices ...string) (pattern, tok string) {
	if r.intn(3) != 0 {
		return "", "-"
	}
	p := choices[r.intn(len(choices))]
	return "^" + regexp.QuoteMeta(p), "p:" + vhex([]byte(p))
}

func genWinbox(r *vrng, ctx caddy.Context) mcase {
	ulen := r.pick(1, 1, 2, 3, 5, 8, 30, 219, 220, 221, 222, 223, 240, 253, 255)
	user := make([]byte, ulen)
	alnum := "abrXYZ019"
	mid := "abrXYZ019-#.@_"
	for i := range user {
		if i == 0 || i == ulen-1 {
			user[i] = alnum[r.intn(len(alnum))]
		} else {
			user[i] = mid[r.intn(len(mid))]
		}
	}
	if r.intn(8) == 0 && ulen > 0 {
		user[r.intn(ulen)] = byte(r.pick(' ', '+', 0, 0xff, '/'))
	}
	if r.intn(6) == 0 {
		// names around the RoMON suffix "+r": made of 'r' only, or ending in 'r' after a separator
		user = []byte([]string{"r", "rrr", "admin.r", "a-rr", "operator", "router"}[r.intn(6)])
	}
	us := string(user)
	if r.intn(3) == 0 {
		us += "+r"
	}
	msg := &l4winbox.MessageAuth{Username: us, PublicKeyBytes: r.bytes(r.pick(32, 32, 32, 32, 31, 33, 0), 256), PublicKeyParity: byte(r.pick(0, 1, 1, 0, 2))}
	raw := msg.ToBytes()
	corrupted := false
	if len(raw) > 259 && r.intn(3) == 0 {
		// the continuation chunk must be typed 0xFF
		raw[258] = byte(r.pick(0x06, 0x06, 0x00, 0xfe, 0x07))
		corrupted = true
	}
	if len(raw) > 40 && r.intn(12) == 0 {
		raw[1] = byte(r.pick(0xff, 0x05, 0x07))
		corrupted = true
	}
	m := &l4winbox.MatchWinbox{}
	std, rom := 1, 1
	switch r.intn(4) {
	case 1:
		m.Modes = []string{"standard"}
		rom = 0
	case 2:
		m.Modes = []string{"RoMON"}
		std = 0
	case 3:
		m.Modes = []string{"romon", "standard"}
	}
	utok := "-"
	retok := "-"
	switch r.intn(4) {
	case 0:
		m.Username = strings.TrimSuffix(us, "+r")
		if r.intn(3) == 0 {
			m.Username = "other"
		}
		utok = vhex([]byte(m.Username))
	case 1:
		m.UsernameRegexp, retok = rePrefix(r, "a", "ab", "X", string(alnum[int(us[0])%len(alnum)]))
	}
	prov(ctx, m)
	// reference: a well-formed auth message (user name syntax, 32-byte key, parity bit) in an accepted mode with an accepted name
	base := strings.TrimSuffix(us, "+r")
	isRomon := strings.HasSuffix(us, "+r")
	nameOK := regexp.MustCompile("^[0-9A-Za-z](?:[-#.0-9@A-Z_a-z]+[0-9A-Za-z])?$").MatchString(base)
	exp := "yes"
	if !nameOK || len(msg.PublicKeyBytes) != 32 || msg.PublicKeyParity > 1 || len(us) > 255 || strings.ContainsRune(us, 0) {
		exp = "no"
	}
	if (isRomon && rom == 0) || (!isRomon && std == 0) {
		exp = "no"
	}
	if m.Username != "" && m.Username != base {
		exp = "no"
	}
	if m.Username == "" && m.UsernameRegexp != "" && !regexp.MustCompile(m.UsernameRegexp).MatchString(base) {
		exp = "no"
	}
	if len(msg.PublicKeyBytes) != 32 {
		exp = "" // the key may itself contain the delimiter: not stated
	}
	if corrupted {
		exp = "no" // a chunk type other than 0x06 (first) / 0xFF (continuation) is not a WinBox auth message
	}
	return mcase{name: "winbox", cfg: fmt.Sprintf("%d %d %s %s", std, rom, utok, retok), m: m, msg: mutate(r, raw), model: true, expect: exp}
}

func genWireguard(r *vrng, ctx caddy.Context) mcase {
	zero := uint32(r.pick(0, 0, 0, 1, 256, 0x01020300, 0xffffffff))
	m := &l4wireguard.MatchWireGuard{Zero: zero}
	var msg []byte
	switch r.intn(5) {
	case 0, 1:
		msg = r.bytes(148, 256)
		binary.LittleEndian.PutUint32(msg, (zero&0xffffff00)|1)
	case 2:
		msg = r.bytes(32, 256)
		binary.LittleEndian.PutUint32(msg, (zero&0xffffff00)|4)
	case 3:
		msg = r.bytes(r.pick(31, 33, 64, 92, 147, 149, 150, 300), 256)
		binary.LittleEndian.PutUint32(msg, uint32(r.pick(1, 2, 3, 4)))
	default:
		msg = r.bytes(148, 256)
		binary.LittleEndian.PutUint32(msg, uint32(r.pick(1, 4, 0x101, 0x104)))
	}
	exp := "no"
	ty := binary.LittleEndian.Uint32(msg)
	if (len(msg) == 148 && ty == (zero&0xffffff00)|1) || (len(msg) == 32 && ty == (zero&0xffffff00)|4) {
		exp = "yes"
	}
	return mcase{name: "wireguard", cfg: fmt.Sprintf("%d", zero), m: m, msg: mutate(r, msg), model: true, udp: true, expect: exp}
}

func genRDP(r *vrng, ctx caddy.Context) mcase {
	m := &l4rdp.MatchRDP{}
	// payload part 1: cookie / token / custom / nothing
	var p1 []byte
	kind := r.intn(6)
	hash := []string{"user", "a", "Administr", strings.Repeat("h", 229), strings.Repeat("h", 230)}[r.intn(5)]
	ipNum, portNum := uint32(r.pick(0x0100000a, 0x0a00000a, 0x0101a8c0, 1, 0xffffffff)), uint16(r.pick(0x3d0d, 0x5000, 1, 65535))
	info := []string{"custom", "x", "Cookie: mstshash", strings.Repeat("c", 246)}[r.intn(4)]
	switch kind {
	case 0, 1:
		p1 = []byte("Cookie: mstshash=" + hash + "\r\n")
	case 2:
		opt := fmt.Sprintf("Cookie: msts=%d.%d.0000\r\n", ipNum, portNum)
		if r.intn(5) == 0 {
			opt = fmt.Sprintf("Cookie: msts=%d.%d.%s\r\n", ipNum, portNum, []string{"000", "0001", "0000.1"}[r.intn(3)])
		}
		if r.intn(4) == 0 {
			opt = "\r\n"[:0]
		}
		tl := 11 + len(opt)
		tok := []byte{3, 0, byte(tl >> 8), byte(tl), byte(tl - 5), 0xe0, 0, 0, 0, 0, 0}
		p1 = append(tok, opt...)
		if len(opt) == 0 {
			// a bare token cannot contain CR LF: the request then has no routing token at all
			p1 = append(p1, '\r', '\n')
			p1[3] = byte(len(p1))
			p1[4] = byte(len(p1) - 5)
		}
	case 3:
		p1 = []byte(info + "\r\n")
	case 4:
		p1 = nil
	case 5:
		p1 = []byte("\r\n")
	}
	// payload part 2: negotiation request (+ correlation info)
	var p2 []byte
	if r.intn(4) != 0 {
		flags := byte(r.pick(0, 0, 1, 2, 8, 8, 11, 4, 16))
		protos := uint32(r.pick(0, 1, 3, 3, 11, 7, 2, 8, 10, 31, 32))
		p2 = []byte{1, flags, 8, 0, 0, 0, 0, 0}
		binary.LittleEndian.PutUint32(p2[4:], protos)
		if r.intn(10) == 0 {
			p2[0] = 2
		}
		if flags&8 != 0 && r.intn(5) != 0 {
			ci := make([]byte, 36)
			ci[0], ci[2] = 6, 36
			copy(ci[4:20], r.bytes(16, 256))
			if ci[4] == 0 || ci[4] == 0xf4 {
				ci[4] = 1
			}
			for i := 4; i < 20; i++ {
				if ci[i] == 13 && r.intn(3) != 0 {
					ci[i] = 14
				}
			}
			if r.intn(8) == 0 {
				ci[4] = byte(r.pick(0, 0xf4))
			}
			if r.intn(8) == 0 {
				ci[20+r.intn(16)] = 1
			}
			p2 = append(p2, ci...)
		}
	}
	payload := append(p1, p2...)
	if len(payload) > 248 {
		payload = payload[:248]
	}
	xl := len(payload) + 6
	hl := xl + 5
	msg := []byte{3, 0, byte(hl >> 8), byte(hl), byte(xl), 0xe0, 0, 0, 0, 0, 0}
	msg = append(msg, payload...)
	if r.intn(10) == 0 {
		msg = append(msg, byte(r.intn(256))) // trailing data
	}
	if r.intn(12) == 0 {
		msg[r.pick(0, 1, 3, 4, 5, 6, 10)] ^= byte(1 << r.intn(8))
	}
	// configuration (the Caddyfile forbids combining the three groups; JSON does not, but we follow the documented use)
	chash, cre, ips, v6, ports, cinfo, cire := "-", "-", []string{}, 0, []uint16{}, "-", "-"
	switch r.intn(6) {
	case 0:
		m.CookieHash = []string{hash, "user", "zzz"}[r.intn(3)]
		h := m.CookieHash
		if len(h) > 229 {
			h = h[:229]
		}
		chash = vhex([]byte(h))
	case 1:
		m.CookieHashRegexp, cre = rePrefix(r, "u", "us", "A", "h")
	case 2:
		nets := [][]string{{"10.0.0.0/8"}, {"192.168.1.1"}, {"10.0.0.10/32", "192.168.0.0/16"}, {"fd00::/8"}}[r.intn(4)]
		m.CookieIPs = nets
		for _, n := range nets {
			s := n
			if !strings.Contains(s, "/") {
				s += "/32"
			}
			_, ipn, err := net.ParseCIDR(s)
			if err != nil {
				panic(err)
			}
			if ip4 := ipn.IP.To4(); ip4 != nil && !strings.Contains(n, ":") {
				ones, _ := ipn.Mask.Size()
				ips = append(ips, fmt.Sprintf("%d %d", binary.BigEndian.Uint32(ip4), ones))
			} else {
				v6 = 1
			}
		}
		if r.intn(2) == 0 {
			m.CookiePorts = []uint16{3389, 80}
			ports = m.CookiePorts
		}
	case 3:
		m.CookiePorts = []uint16{uint16(r.pick(3389, 80, 256))}
		ports = m.CookiePorts
	case 4:
		m.CustomInfo = []string{info, "custom", "nope"}[r.intn(3)]
		ci := m.CustomInfo
		if len(ci) > 246 {
			ci = ci[:246]
		}
		cinfo = vhex([]byte(ci))
		if r.intn(3) == 0 {
			m.CustomInfoRegexp, cire = rePrefix(r, "c", "cu", "x")
		}
	}
	prov(ctx, m)
	cfg := fmt.Sprintf("%s %s %d", chash, cre, len(ips))
	for _, s := range ips {
		cfg += " " + s
	}
	cfg += fmt.Sprintf(" %d %d", v6, len(ports))
	for _, p := range ports {
		cfg += fmt.Sprintf(" %d", p)
	}
	cfg += fmt.Sprintf(" %s %s", cinfo, cire)
	return mcase{name: "rdp", cfg: cfg, m: m, msg: mutate(r, msg), model: true}
}

func init() {
	mgens = append(mgens, genWinbox, genWinbox, genWireguard, genRDP, genRDP, genRDP)
}

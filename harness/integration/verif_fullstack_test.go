package integration

// Full stack (C01, C03, C08): a real Caddy instance is loaded in-process with the layer4 app listening on loopback — real
// listener, Server.handle, pooled matching buffers, the tls matcher, TLS termination by the `tls` handler (internal issuer,
// nothing leaves the sandbox), the proxy handler — and concurrent clients send tagged streams through a TLS-terminated route
// and through a plain route to loopback upstreams that echo.  Judged byte-exactly per client, with end-of-stream both ways.

import (
	"bytes"
	"crypto/tls"
	"errors"
	"fmt"
	"io"
	"net"
	"os"
	"sync"
	"testing"
	"time"

	"github.com/caddyserver/caddy/v2"
	_ "github.com/caddyserver/caddy/v2/modules/caddyhttp"
	_ "github.com/caddyserver/caddy/v2/modules/caddypki"
	_ "github.com/caddyserver/caddy/v2/modules/caddytls"
)

type fsUpstream struct {
	ln    net.Listener
	mu    sync.Mutex
	seen  map[string][]byte // first 12 bytes (the client's tag) → everything received on that connection
	eofOK map[string]bool
}

func newFSUpstream(t *testing.T, afterEOF bool) *fsUpstream {
	ln, err := net.Listen("tcp", "127.0.0.1:0")
	if err != nil {
		t.Fatal(err)
	}
	u := &fsUpstream{ln: ln, seen: map[string][]byte{}, eofOK: map[string]bool{}}
	go func() {
		for {
			c, err := ln.Accept()
			if err != nil {
				return
			}
			go func() {
				defer c.Close()
				var got []byte
				buf := make([]byte, 16<<10)
				eof := false
				for {
					n, err := c.Read(buf)
					got = append(got, buf[:n]...)
					if !afterEOF && n > 0 {
						if _, werr := c.Write(buf[:n]); werr != nil {
							break
						}
					}
					if err != nil {
						eof = errors.Is(err, io.EOF)
						break
					}
				}
				if afterEOF {
					_, _ = c.Write(got)
				}
				if tc, ok := c.(*net.TCPConn); ok {
					_ = tc.CloseWrite()
				}
				tag := string(got)
				if len(tag) > 12 {
					tag = tag[:12]
				}
				u.mu.Lock()
				u.seen[tag] = got
				u.eofOK[tag] = eof
				u.mu.Unlock()
			}()
		}
	}()
	return u
}

func TestVerifFullStack(t *testing.T) {
	out := vopen(t, "fullstack")
	defer out.close()
	dir := t.TempDir()
	os.Setenv("XDG_DATA_HOME", dir)
	os.Setenv("XDG_CONFIG_HOME", dir)
	streaming, after := newFSUpstream(t, false), newFSUpstream(t, true)
	defer streaming.ln.Close()
	defer after.ln.Close()
	tmp, _ := net.Listen("tcp", "127.0.0.1:0")
	addr := tmp.Addr().String()
	tmp.Close()
	tmp2, _ := net.Listen("tcp", "127.0.0.1:0")
	httpAddr := tmp2.Addr().String()
	tmp2.Close()
	tmpu, _ := net.ListenPacket("udp", "127.0.0.1:0")
	udpAddr := tmpu.LocalAddr().String()
	tmpu.Close()
	cfg := fmt.Sprintf(`{"admin":{"disabled":true},"logging":{"logs":{"default":{"level":"ERROR"}}},
	 "apps":{"pki":{"certificate_authorities":{"local":{"install_trust":false}}},
	  "tls":{"certificates":{"automate":["localhost"]},"automation":{"policies":[{"subjects":["localhost"],"issuers":[{"module":"internal"}]}]}},
	  "http":{"servers":{"web":{"listen":["%s"],"automatic_https":{"disable":true},
	    "listener_wrappers":[{"wrapper":"layer4","routes":[
	      {"match":[{"tls":{}}],"handle":[{"handler":"tls"},{"handler":"throttle","read_bytes_per_second":100000000,"read_burst_size":1000000}]},
	      {"match":[{"regexp":{"pattern":"^RAW","count":3}}],"handle":[{"handler":"echo"}]}]}],
	    "routes":[{"handle":[{"handler":"static_response","body":"hello from the wrapped http server scheme={http.request.scheme} tls={http.request.tls.version}"}]}]}}},
	  "layer4":{"servers":{"u":{"listen":["udp/%s"],"routes":[{"handle":[{"handler":"echo"}]}]},"s":{"listen":["%s"],"routes":[
	    {"match":[{"tls":{"sni":["localhost"]}}],"handle":[{"handler":"tls"},{"handler":"subroute","routes":[
	        {"match":[{"regexp":{"pattern":"^S","count":1}}],"handle":[{"handler":"proxy","upstreams":[{"dial":["%s"]}]}]},
	        {"handle":[{"handler":"proxy","upstreams":[{"dial":["%s"]}]}]}]}]},
	    {"match":[{"regexp":{"pattern":"^S","count":1}}],"handle":[{"handler":"proxy","upstreams":[{"dial":["%s"]}]}]},
	    {"handle":[{"handler":"proxy","upstreams":[{"dial":["%s"]}]}]}]}}}}}`,
		httpAddr, udpAddr, addr, streaming.ln.Addr(), after.ln.Addr(), streaming.ln.Addr(), after.ln.Addr())
	if err := caddy.Load([]byte(cfg), true); err != nil {
		t.Fatalf("caddy.Load: %v", err)
	}
	defer caddy.Stop()

	r := &vrng{vseed()*122949829 + 23}
	n := vcount(12)
	stats := map[string]int{}
	cid := 0
	for idx := 0; idx < n; idx++ {
		nc := r.pick(1, 2, 4, 8, 16)
		fmt.Fprintf(out.cases, "fullstack clients=%d\n", nc)
		type result struct {
			id               int
			useTLS, stream   bool
			sent, got        []byte
			eof              bool
			err              string
		}
		res := make([]*result, nc)
		var wg sync.WaitGroup
		for k := 0; k < nc; k++ {
			cid++
			rr := &vrng{r.next()}
			rs := &result{id: cid, useTLS: rr.intn(3) != 0, stream: rr.intn(2) == 0}
			res[k] = rs
			size := rr.pick(0, 1, 100, 3000, 9000, 20000, 70000, 200000)
			first := byte('A') // routed to the upstream that answers after end-of-stream
			if rs.stream {
				first = 'S'
			}
			rs.sent = append([]byte(fmt.Sprintf("%c%010d|", first, cid)), rr.bytes(size, 256)...)
			wg.Add(1)
			go func() {
				defer wg.Done()
				var c net.Conn
				var err error
				if rs.useTLS {
					c, err = tls.Dial("tcp", addr, &tls.Config{ServerName: "localhost", InsecureSkipVerify: true, MaxVersion: uint16(rr.pick(tls.VersionTLS12, tls.VersionTLS13))})
				} else {
					c, err = net.Dial("tcp", addr)
				}
				if err != nil {
					rs.err = err.Error()
					return
				}
				defer c.Close()
				_ = c.SetDeadline(time.Now().Add(20 * time.Second))
				rd := make(chan struct{})
				go func() {
					defer close(rd)
					b, err := io.ReadAll(c)
					rs.got = b
					rs.eof = err == nil
					if err != nil {
						rs.err = err.Error()
					}
				}()
				rest := rs.sent
				for len(rest) > 0 {
					k := rr.pick(1, 7, 512, 4096, 40000, len(rest))
					if k > len(rest) {
						k = len(rest)
					}
					if _, err := c.Write(rest[:k]); err != nil {
						rs.err = "write: " + err.Error()
						break
					}
					rest = rest[k:]
					if rr.intn(4) == 0 {
						time.Sleep(time.Duration(rr.intn(3)) * time.Millisecond)
					}
				}
				switch cc := c.(type) {
				case *tls.Conn:
					_ = cc.CloseWrite()
				case *net.TCPConn:
					_ = cc.CloseWrite()
				}
				<-rd
			}()
		}
		wg.Wait()
		time.Sleep(20 * time.Millisecond)
		okAll := true
		for _, rs := range res {
			kind := map[bool]string{true: "tls", false: "plain"}[rs.useTLS] + "/" + map[bool]string{true: "streaming", false: "after-eof"}[rs.stream]
			stats[kind]++
			up := after
			if rs.stream {
				up = streaming
			}
			tag := string(rs.sent[:12])
			up.mu.Lock()
			seen, eofOK := up.seen[tag], up.eofOK[tag]
			up.mu.Unlock()
			other := streaming
			if rs.stream {
				other = after
			}
			other.mu.Lock()
			misrouted := len(other.seen[tag])
			other.mu.Unlock()
			switch {
			case !bytes.Equal(seen, rs.sent):
				okAll = false
				sig := "upstream-stream"
				if len(seen) >= 12 && !bytes.Equal(seen[:12], rs.sent[:12]) {
					sig = "cross-talk"
				}
				if misrouted > 0 {
					sig = "misrouted"
				}
				out.fail(idx, sig, fmt.Sprintf("client %d (%s, %d bytes): its upstream received %d bytes (the other upstream %d), first difference at %d, client got %d bytes back (client error %q)", rs.id, kind, len(rs.sent), len(seen), misrouted, firstDiffStr(string(rs.sent), string(seen)), len(rs.got), rs.err))
			case !eofOK:
				okAll = false
				out.fail(idx, "eof-not-propagated", fmt.Sprintf("client %d (%s): the upstream did not observe a clean end-of-stream after the client half-closed", rs.id, kind))
			case !bytes.Equal(rs.got, rs.sent):
				okAll = false
				sig := "client-stream"
				if len(rs.got) >= 12 && !bytes.Equal(rs.got[:12], rs.sent[:12]) {
					sig = "cross-talk"
				}
				out.fail(idx, sig, fmt.Sprintf("client %d (%s, %d bytes): it received %d bytes back, first difference at %d (error %q)", rs.id, kind, len(rs.sent), len(rs.got), firstDiffStr(string(rs.sent), string(rs.got)), rs.err))
			case !rs.eof:
				okAll = false
				out.fail(idx, "eof-not-propagated", fmt.Sprintf("client %d (%s): no clean end-of-stream after the upstream finished (%s)", rs.id, kind, rs.err))
			}
		}
		fmt.Fprintf(out.out, "ok=%v clients=%d\n", okAll, nc)
		out.cases.Flush()
		out.out.Flush()
		out.orc.Flush()
	}
	// ---- listener wrapper in front of a real HTTP server (C13): TLS terminated by layer4 and handed over with its connection
	// state, plaintext HTTP handed over untouched, RAW connections consumed by layer4 and never delivered
	hidx := n
	fmt.Fprintf(out.cases, "fullstack listener-wrapper\n")
	var hw sync.WaitGroup
	var hmu sync.Mutex
	hfail := func(sig, desc string) { hmu.Lock(); out.fail(hidx, sig, desc); hmu.Unlock() }
	const want = "hello from the wrapped http server"
	for k := 0; k < 24; k++ {
		kind := k % 3
		hw.Add(1)
		go func(k int) {
			defer hw.Done()
			var c net.Conn
			var err error
			if kind == 0 {
				c, err = tls.Dial("tcp", httpAddr, &tls.Config{ServerName: "localhost", InsecureSkipVerify: true, NextProtos: []string{"http/1.1"}})
			} else {
				c, err = net.Dial("tcp", httpAddr)
			}
			if err != nil {
				hfail("wrapper-handoff", fmt.Sprintf("client %d (kind %d) cannot connect: %v", k, kind, err))
				return
			}
			defer c.Close()
			_ = c.SetDeadline(time.Now().Add(10 * time.Second))
			if kind == 2 {
				msg := []byte(fmt.Sprintf("RAW%06d-payload", k))
				_, _ = c.Write(msg)
				got := make([]byte, len(msg))
				if _, err := io.ReadFull(c, got); err != nil || !bytes.Equal(got, msg) {
					hfail("wrapper-consumed", fmt.Sprintf("RAW client %d: echo by the layer4 route failed: got %q err %v", k, got, err))
				}
				return
			}
			req := fmt.Sprintf("GET /%d HTTP/1.1\r\nHost: localhost\r\nConnection: close\r\n\r\n", k)
			// the request arrives in two pieces: the first is prefetched by layer4 for matching, the rest is read by the http server
			_, _ = c.Write([]byte(req[:7]))
			time.Sleep(time.Duration(k%4) * time.Millisecond)
			_, _ = c.Write([]byte(req[7:]))
			resp, err := io.ReadAll(c)
			if err != nil || !bytes.Contains(resp, []byte(want)) || !bytes.HasPrefix(resp, []byte("HTTP/1.1 200")) {
				hfail("wrapper-handoff", fmt.Sprintf("http client %d (tls=%v): the wrapped server did not answer the request handed over by layer4: %q err %v", k, kind == 0, clipb(resp), err))
			} else if kind == 0 && !(bytes.Contains(resp, []byte("scheme=https")) && bytes.Contains(resp, []byte("tls=tls1."))) {
				// TLS was terminated by layer4 (and another connection-wrapping handler ran after it): the wrapped server must still see
				// the TLS connection state
				hfail("wrapper-tls-state", fmt.Sprintf("https client %d: the wrapped http server does not see the TLS connection state of the connection layer4 terminated: %q", k, clipb(resp)))
			} else if kind == 1 && !bytes.Contains(resp, []byte("scheme=http ")) {
				hfail("wrapper-tls-state", fmt.Sprintf("plain http client %d: the wrapped server reports %q", k, clipb(resp)))
			}
		}(k)
	}
	hw.Wait()
	fmt.Fprintln(out.out, "listener-wrapper done")
	stats["wrapper-clients"] = 24

	// ---- UDP server (C09): every client gets back exactly its own datagrams, in order
	uidx := n + 1
	fmt.Fprintf(out.cases, "fullstack udp\n")
	var uw sync.WaitGroup
	for k := 0; k < 6; k++ {
		uw.Add(1)
		go func(k int) {
			defer uw.Done()
			c, err := net.Dial("udp", udpAddr)
			if err != nil {
				return
			}
			defer c.Close()
			buf := make([]byte, 2048)
			for j := 0; j < 30; j++ {
				msg := []byte(fmt.Sprintf("u%02d-%03d-%s", k, j, bytes.Repeat([]byte{'x'}, j*7%200)))
				_, _ = c.Write(msg)
				_ = c.SetReadDeadline(time.Now().Add(3 * time.Second))
				nr, err := c.Read(buf)
				if err != nil || !bytes.Equal(buf[:nr], msg) {
					hmu.Lock()
					out.fail(uidx, "udp-echo", fmt.Sprintf("udp client %d datagram %d: got %q err %v, sent %q", k, j, clipb(buf[:nr]), err, clipb(msg)))
					hmu.Unlock()
					return
				}
			}
		}(k)
	}
	uw.Wait()
	fmt.Fprintln(out.out, "udp done")
	stats["udp-datagrams"] = 180
	out.stats(stats)
}

func clipb(b []byte) []byte {
	if len(b) > 80 {
		return b[:80]
	}
	return b
}

package integration

// Full stack (C01, C03, C08): a real Caddy instance is loaded in-process with the layer4 app listening on loopback — real
// listener, Server.handle, pooled matching buffers, the tls matcher, TLS termination by the `tls` handler (internal issuer,
// nothing leaves the sandbox), the proxy handler — and concurrent clients send tagged streams through a TLS-terminated route
// and through a plain route to loopback upstreams that echo.  Judged byte-exactly per client, with end-of-stream both ways.

import (
	"bytes"
	"crypto/tls"
	"errors"
	"fmt"
	"io"
	"net"
	"os"
	"sync"
	"testing"
	"time"

	"github.com/caddyserver/caddy/v2"
	_ "github.com/caddyserver/caddy/v2/modules/caddypki"
	_ "github.com/caddyserver/caddy/v2/modules/caddytls"
)

type fsUpstream struct {
	ln    net.Listener
	mu    sync.Mutex
	seen  map[string][]byte // first 12 bytes (the client's tag) → everything received on that connection
	eofOK map[string]bool
}

func newFSUpstream(t *testing.T, afterEOF bool) *fsUpstream {
	ln, err := net.Listen("tcp", "127.0.0.1:0")
	if err != nil {
		t.Fatal(err)
	}
	u := &fsUpstream{ln: ln, seen: map[string][]byte{}, eofOK: map[string]bool{}}
	go func() {
		for {
			c, err := ln.Accept()
			if err != nil {
				return
			}
			go func() {
				defer c.Close()
				var got []byte
				buf := make([]byte, 16<<10)
				eof := false
				for {
					n, err := c.Read(buf)
					got = append(got, buf[:n]...)
					if !afterEOF && n > 0 {
						if _, werr := c.Write(buf[:n]); werr != nil {
							break
						}
					}
					if err != nil {
						eof = errors.Is(err, io.EOF)
						break
					}
				}
				if afterEOF {
					_, _ = c.Write(got)
				}
				if tc, ok := c.(*net.TCPConn); ok {
					_ = tc.CloseWrite()
				}
				tag := string(got)
				if len(tag) > 12 {
					tag = tag[:12]
				}
				u.mu.Lock()
				u.seen[tag] = got
				u.eofOK[tag] = eof
				u.mu.Unlock()
			}()
		}
	}()
	return u
}

func TestVerifFullStack(t *testing.T) {
	out := vopen(t, "fullstack")
	defer out.close()
	dir := t.TempDir()
	os.Setenv("XDG_DATA_HOME", dir)
	os.Setenv("XDG_CONFIG_HOME", dir)
	streaming, after := newFSUpstream(t, false), newFSUpstream(t, true)
	defer streaming.ln.Close()
	defer after.ln.Close()
	tmp, _ := net.Listen("tcp", "127.0.0.1:0")
	addr := tmp.Addr().String()
	tmp.Close()
	cfg := fmt.Sprintf(`{"admin":{"disabled":true},"logging":{"logs":{"default":{"level":"ERROR"}}},
	 "apps":{"pki":{"certificate_authorities":{"local":{"install_trust":false}}},
	  "tls":{"certificates":{"automate":["localhost"]},"automation":{"policies":[{"subjects":["localhost"],"issuers":[{"module":"internal"}]}]}},
	  "layer4":{"servers":{"s":{"listen":["%s"],"routes":[
	    {"match":[{"tls":{"sni":["localhost"]}}],"handle":[{"handler":"tls"},{"handler":"subroute","routes":[
	        {"match":[{"regexp":{"pattern":"^S","count":1}}],"handle":[{"handler":"proxy","upstreams":[{"dial":["%s"]}]}]},
	        {"handle":[{"handler":"proxy","upstreams":[{"dial":["%s"]}]}]}]}]},
	    {"match":[{"regexp":{"pattern":"^S","count":1}}],"handle":[{"handler":"proxy","upstreams":[{"dial":["%s"]}]}]},
	    {"handle":[{"handler":"proxy","upstreams":[{"dial":["%s"]}]}]}]}}}}}`,
		addr, streaming.ln.Addr(), after.ln.Addr(), streaming.ln.Addr(), after.ln.Addr())
	if err := caddy.Load([]byte(cfg), true); err != nil {
		t.Fatalf("caddy.Load: %v", err)
	}
	defer caddy.Stop()

	r := &vrng{vseed()*122949829 + 23}
	n := vcount(12)
	stats := map[string]int{}
	cid := 0
	for idx := 0; idx < n; idx++ {
		nc := r.pick(1, 2, 4, 8, 16)
		fmt.Fprintf(out.cases, "fullstack clients=%d\n", nc)
		type result struct {
			id               int
			useTLS, stream   bool
			sent, got        []byte
			eof              bool
			err              string
		}
		res := make([]*result, nc)
		var wg sync.WaitGroup
		for k := 0; k < nc; k++ {
			cid++
			rr := &vrng{r.next()}
			rs := &result{id: cid, useTLS: rr.intn(3) != 0, stream: rr.intn(2) == 0}
			res[k] = rs
			size := rr.pick(0, 1, 100, 3000, 9000, 20000, 70000, 200000)
			first := byte('A') // routed to the upstream that answers after end-of-stream
			if rs.stream {
				first = 'S'
			}
			rs.sent = append([]byte(fmt.Sprintf("%c%010d|", first, cid)), rr.bytes(size, 256)...)
			wg.Add(1)
			go func() {
				defer wg.Done()
				var c net.Conn
				var err error
				if rs.useTLS {
					c, err = tls.Dial("tcp", addr, &tls.Config{ServerName: "localhost", InsecureSkipVerify: true, MaxVersion: uint16(rr.pick(tls.VersionTLS12, tls.VersionTLS13))})
				} else {
					c, err = net.Dial("tcp", addr)
				}
				if err != nil {
					rs.err = err.Error()
					return
				}
				defer c.Close()
				_ = c.SetDeadline(time.Now().Add(20 * time.Second))
				rd := make(chan struct{})
				go func() {
					defer close(rd)
					b, err := io.ReadAll(c)
					rs.got = b
					rs.eof = err == nil
					if err != nil {
						rs.err = err.Error()
					}
				}()
				rest := rs.sent
				for len(rest) > 0 {
					k := rr.pick(1, 7, 512, 4096, 40000, len(rest))
					if k > len(rest) {
						k = len(rest)
					}
					if _, err := c.Write(rest[:k]); err != nil {
						rs.err = "write: " + err.Error()
						break
					}
					rest = rest[k:]
					if rr.intn(4) == 0 {
						time.Sleep(time.Duration(rr.intn(3)) * time.Millisecond)
					}
				}
				switch cc := c.(type) {
				case *tls.Conn:
					_ = cc.CloseWrite()
				case *net.TCPConn:
					_ = cc.CloseWrite()
				}
				<-rd
			}()
		}
		wg.Wait()
		time.Sleep(20 * time.Millisecond)
		okAll := true
		for _, rs := range res {
			kind := map[bool]string{true: "tls", false: "plain"}[rs.useTLS] + "/" + map[bool]string{true: "streaming", false: "after-eof"}[rs.stream]
			stats[kind]++
			up := after
			if rs.stream {
				up = streaming
			}
			tag := string(rs.sent[:12])
			up.mu.Lock()
			seen, eofOK := up.seen[tag], up.eofOK[tag]
			up.mu.Unlock()
			other := streaming
			if rs.stream {
				other = after
			}
			other.mu.Lock()
			misrouted := len(other.seen[tag])
			other.mu.Unlock()
			switch {
			case !bytes.Equal(seen, rs.sent):
				okAll = false
				sig := "upstream-stream"
				if len(seen) >= 12 && !bytes.Equal(seen[:12], rs.sent[:12]) {
					sig = "cross-talk"
				}
				if misrouted > 0 {
					sig = "misrouted"
				}
				out.fail(idx, sig, fmt.Sprintf("client %d (%s, %d bytes): its upstream received %d bytes (the other upstream %d), first difference at %d, client got %d bytes back (client error %q)", rs.id, kind, len(rs.sent), len(seen), misrouted, firstDiffStr(string(rs.sent), string(seen)), len(rs.got), rs.err))
			case !eofOK:
				okAll = false
				out.fail(idx, "eof-not-propagated", fmt.Sprintf("client %d (%s): the upstream did not observe a clean end-of-stream after the client half-closed", rs.id, kind))
			case !bytes.Equal(rs.got, rs.sent):
				okAll = false
				sig := "client-stream"
				if len(rs.got) >= 12 && !bytes.Equal(rs.got[:12], rs.sent[:12]) {
					sig = "cross-talk"
				}
				out.fail(idx, sig, fmt.Sprintf("client %d (%s, %d bytes): it received %d bytes back, first difference at %d (error %q)", rs.id, kind, len(rs.sent), len(rs.got), firstDiffStr(string(rs.sent), string(rs.got)), rs.err))
			case !rs.eof:
				okAll = false
				out.fail(idx, "eof-not-propagated", fmt.Sprintf("client %d (%s): no clean end-of-stream after the upstream finished (%s)", rs.id, kind, rs.err))
			}
		}
		fmt.Fprintf(out.out, "ok=%v clients=%d\n", okAll, nc)
		out.cases.Flush()
		out.out.Flush()
		out.orc.Flush()
	}
	out.stats(stats)
}

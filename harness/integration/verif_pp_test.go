package integration

// C12: the proxy handler sends exactly one well-formed PROXY header (configured version, the client's effective addresses)
// to every peer, followed by the client's stream; received headers are honoured when the peer is allowed.

import (
	"bytes"
	"context"
	"encoding/json"
	"fmt"
	"io"
	"net"
	"strings"
	"sync"
	"testing"
	"time"

	"github.com/caddyserver/caddy/v2"
	"github.com/mastercactapus/proxyprotocol"
	"go.uber.org/zap"

	"github.com/mholt/caddy-l4/layer4"
)

type upstreamSink struct {
	ln   net.Listener
	mu   sync.Mutex
	got  [][]byte
	cond chan struct{}
}

func newSink(t *testing.T) *upstreamSink {
	ln, err := net.Listen("tcp", "127.0.0.1:0")
	if err != nil {
		t.Fatal(err)
	}
	s := &upstreamSink{ln: ln, cond: make(chan struct{}, 1024)}
	go func() {
		for {
			c, err := ln.Accept()
			if err != nil {
				return
			}
			go func() {
				b, _ := io.ReadAll(c)
				c.Close()
				s.mu.Lock()
				s.got = append(s.got, b)
				s.mu.Unlock()
				s.cond <- struct{}{}
			}()
		}
	}()
	return s
}

func (s *upstreamSink) take(timeout time.Duration) ([]byte, bool) {
	select {
	case <-s.cond:
	case <-time.After(timeout):
		return nil, false
	}
	s.mu.Lock()
	defer s.mu.Unlock()
	b := s.got[0]
	s.got = s.got[1:]
	return b, true
}

func randAddr(r *vrng, v6 bool) *net.TCPAddr {
	if v6 {
		ip := make(net.IP, 16)
		copy(ip, []byte{0x20, 0x01, 0x0d, 0xb8})
		for i := 4; i < 16; i++ {
			ip[i] = byte(r.intn(256))
		}
		return &net.TCPAddr{IP: ip, Port: 1 + r.intn(65535)}
	}
	ip := net.IPv4(byte(1+r.intn(223)), byte(r.intn(256)), byte(r.intn(256)), byte(1+r.intn(254)))
	if r.intn(2) == 0 {
		ip = ip.To4() // the 4-byte form an IPv4 listener reports; otherwise the 16-byte form of a dual-stack listener
	}
	return &net.TCPAddr{IP: ip, Port: 1 + r.intn(65535)}
}

func ipTok(a *net.TCPAddr) string {
	if v4 := a.IP.To4(); v4 != nil {
		return vhex(v4)
	}
	return vhex(a.IP.To16())
}

func TestVerifPP(t *testing.T) {
	vreg()
	out := vopen(t, "pp")
	defer out.close()
	ctx, cancel := caddy.NewContext(caddy.Context{Context: context.Background()})
	defer cancel()
	sinks := []*upstreamSink{newSink(t), newSink(t)}
	defer sinks[0].ln.Close()
	defer sinks[1].ln.Close()
	r := &vrng{vseed()*6700417 + 29}
	n := vcount(300)
	stats := map[string]int{}
	for idx := 0; idx < n; idx++ {
		ver := r.pick(1, 2, 2)
		v6 := r.intn(4) == 0
		client, server := randAddr(r, v6), randAddr(r, v6)
		npeers := r.pick(1, 1, 2)
		payload := (&vrng{r.next()}).bytes(r.pick(0, 1, 10, 100, 3000, 9000), 256)
		// optional received PROXY header in front of the stream
		var inHdr []byte
		effSrc, effDst := client, server
		var handlers []map[string]any
		desc := fmt.Sprintf("v%d peers=%d v6=%v payload=%d", ver, npeers, v6, len(payload))
		if r.intn(2) == 0 {
			hs, hd := randAddr(r, v6), randAddr(r, v6)
			var buf bytes.Buffer
			declares := true // the header declares addresses (otherwise the connection keeps its own)
			v2sig := []byte("\r\n\r\n\x00\r\nQUIT\n")
			rawV2 := func(verCmd, fam byte, body []byte) {
				buf.Write(v2sig)
				buf.Write([]byte{verCmd, fam, byte(len(body) >> 8), byte(len(body))})
				buf.Write(body)
			}
			addrBlock := func() []byte { // the address block of a TCP4 / TCP6 header for hs > hd
				var b []byte
				if v6 {
					b = append(append(b, hs.IP.To16()...), hd.IP.To16()...)
				} else {
					b = append(append(b, hs.IP.To4()...), hd.IP.To4()...)
				}
				return append(b, byte(hs.Port>>8), byte(hs.Port), byte(hd.Port>>8), byte(hd.Port))
			}
			fam := byte(0x11)
			if v6 {
				fam = 0x21
			}
			switch r.intn(7) {
			case 0, 1:
				proxyprotocol.HeaderV1{SrcIP: hs.IP, DestIP: hd.IP, SrcPort: hs.Port, DestPort: hd.Port}.WriteTo(&buf)
			case 2, 3:
				proxyprotocol.HeaderV2{Command: proxyprotocol.CmdProxy, Src: hs, Dest: hd}.WriteTo(&buf)
			case 4: // v2 LOCAL without addresses (what a balancer's health check sends)
				rawV2(0x20, 0x00, nil)
				declares = false
				desc += " hdr=v2-local"
			case 5: // v2 LOCAL with an address block that the receiver must ignore
				rawV2(0x20, fam, addrBlock())
				declares = false
				desc += " hdr=v2-local-addr"
			case 6: // v2 PROXY with the unspecified family
				rawV2(0x21, 0x00, nil)
				declares = false
				desc += " hdr=v2-unspec"
			}
			// (headers with TLVs are not generated: the PROXY protocol library in use accepts only the exact address-block lengths,
			// so such a header is not accepted and the property makes no claim about it)
			inHdr = buf.Bytes()
			pp := map[string]any{"handler": "proxy_protocol"}
			trusted := true
			switch r.intn(4) {
			case 0: // allow list containing the client
				pp["allow"] = []string{(&net.IPNet{IP: client.IP, Mask: net.CIDRMask(pickBits(r, v6), 8*len(client.IP))}).String(), "203.0.113.0/24"}
			case 1: // allow list not containing the client
				pp["allow"] = []string{"203.0.113.0/24", "2001:db9::/32"}
				trusted = client.IP.To4() != nil && client.IP.To4()[0] == 203 && client.IP.To4()[1] == 0 && client.IP.To4()[2] == 113
			}
			handlers = append(handlers, pp)
			if trusted {
				if declares {
					effSrc, effDst = hs, hd
				}
				desc += " recv=honoured"
			} else {
				desc += " recv=untrusted"
			}
			if !trusted {
				// passed through untouched: the header bytes stay in the stream
				payload = append(append([]byte{}, inHdr...), payload...)
				inHdr = nil
			}
		}
		// a legal v1 header without addresses in front of an address matcher (the usual reason to deploy proxy_protocol): whatever
		// the handler makes of the addresses, nothing may panic (the other judgements are not made for this case)
		if r.intn(10) == 0 {
			var routes layer4.RouteList
			raw := fmt.Sprintf(`[{"handle":[{"handler":"proxy_protocol"},{"handler":"subroute","routes":[{"match":[{"remote_ip":{"ranges":["10.0.0.0/8"]}},{"local_ip":{"ranges":["10.0.0.0/8"]}}],"handle":[{"handler":"proxy","upstreams":[{"dial":["%s"]}]}]},{"handle":[{"handler":"proxy","upstreams":[{"dial":["%s"]}]}]}]}]}]`, sinks[0].ln.Addr(), sinks[0].ln.Addr())
			if err := json.Unmarshal([]byte(raw), &routes); err != nil {
				t.Fatal(err)
			}
			if err := routes.Provision(ctx); err != nil {
				t.Fatalf("provision: %v", err)
			}
			stream := append([]byte("PROXY UNKNOWN" + []string{"", " ffff::1 ffff::2 1 2"}[r.intn(2)] + "\r\n"), payload...)
			sc := &sconn{chunks: split(r, stream), eof: true, remote: client, local: server}
			h := routes.Compile(zap.NewNop(), time.Hour, layer4.HandlerFunc(func(*layer4.Connection) error { return nil }))
			cx := layer4.WrapConnection(sc, make([]byte, 0, 2048), zap.NewNop())
			fmt.Fprintf(out.cases, "note pp v1-unknown\n")
			out.cases.Flush()
			func() {
				defer func() {
					if p := recover(); p != nil {
						out.fail(idx, "panic:proxy_protocol-handler", fmt.Sprintf("a v1 UNKNOWN header followed by an address matcher: panic: %v", p))
					}
				}()
				_ = h.Handle(cx)
			}()
			sinks[0].take(50 * time.Millisecond)
			fmt.Fprintln(out.out, "unknown")
			stats["v1-unknown"]++
			continue
		}
		var dial []string
		for i := 0; i < npeers; i++ {
			dial = append(dial, sinks[i].ln.Addr().String())
		}
		handlers = append(handlers, map[string]any{"handler": "proxy", "proxy_protocol": fmt.Sprintf("v%d", ver), "upstreams": []map[string]any{{"dial": dial}}})
		raw, _ := json.Marshal([]map[string]any{{"handle": handlers}})
		var routes layer4.RouteList
		if err := json.Unmarshal(raw, &routes); err != nil {
			t.Fatal(err)
		}
		if err := routes.Provision(ctx); err != nil {
			t.Fatalf("provision: %v %s", err, raw)
		}
		stream := append(append([]byte{}, inHdr...), payload...)
		sc := &sconn{chunks: split(r, stream), eof: true, eofWithLast: len(stream)%3 == 1, remote: client, local: server}
		h := routes.Compile(zap.NewNop(), time.Hour, layer4.HandlerFunc(func(*layer4.Connection) error { return nil }))
		cx := layer4.WrapConnection(sc, make([]byte, 0, 2048), zap.NewNop())
		fmt.Fprintf(out.cases, "pp %d tcp %s %d %s %d\n", ver, ipTok(effSrc), effSrc.Port, ipTok(effDst), effDst.Port)
		out.cases.Flush()
		var err error
		func() {
			defer func() {
				if p := recover(); p != nil {
					err = fmt.Errorf("panic: %v", p)
					out.fail(idx, "panic:proxy_protocol-handler", fmt.Sprintf("the handler chain panicked on a well-formed stream: %v (%s)", p, desc))
				}
			}()
			err = h.Handle(cx)
		}()
		if err != nil && strings.HasPrefix(err.Error(), "panic:") {
			// nothing reached the peers in an orderly way: do not wait for them
			for i := 0; i < npeers; i++ {
				sinks[i].take(50 * time.Millisecond)
			}
			fmt.Fprintln(out.out, "panic")
			continue
		}
		var hdrs []string
		for i := 0; i < npeers; i++ {
			got, ok := sinks[i].take(5 * time.Second)
			switch {
			case !ok:
				out.fail(idx, "pp-upstream-silent", fmt.Sprintf("peer %d received no connection (%s; handler error %v)", i, desc, err))
				hdrs = append(hdrs, "none")
				continue
			case !bytes.HasSuffix(got, payload):
				out.fail(idx, "pp-stream", fmt.Sprintf("peer %d did not receive the client's stream after the header (%d bytes received, stream %d; %s)", i, len(got), len(payload), desc))
			}
			hb := got[:max(0, len(got)-len(payload))]
			hdrs = append(hdrs, vhex(hb))
			// independent parse of what the peer received
			src, dst, hl, perr := parsePP(got)
			switch {
			case perr != nil:
				out.fail(idx, "pp-malformed", fmt.Sprintf("peer %d did not receive a well-formed PROXY header: %v (%s)", i, perr, desc))
			case hl != len(hb):
				out.fail(idx, "pp-not-exactly-one", fmt.Sprintf("peer %d: header of %d bytes but %d bytes precede the stream (%s)", i, hl, len(hb), desc))
			case src != effSrc.String() || dst != effDst.String():
				out.fail(idx, "pp-addresses", fmt.Sprintf("peer %d: header declares %s > %s, the client's effective addresses are %s > %s (%s)", i, src, dst, effSrc, effDst, desc))
			case (ver == 1) != bytes.HasPrefix(hb, []byte("PROXY ")):
				out.fail(idx, "pp-version", fmt.Sprintf("peer %d: header is not of the configured version v%d (%s)", i, ver, desc))
			}
		}
		// all peers must receive the same header
		line := hdrs[0]
		for _, x := range hdrs[1:] {
			if x != hdrs[0] {
				line = strings.Join(hdrs, "|")
			}
		}
		fmt.Fprintln(out.out, line)
		stats[fmt.Sprintf("v%d", ver)]++
		if strings.Contains(desc, "recv=") {
			stats[desc[strings.Index(desc, "recv="):]]++
		}
	}
	out.stats(stats)
}

func pickBits(r *vrng, v6 bool) int {
	if v6 {
		return r.pick(32, 64, 128)
	}
	return r.pick(8, 16, 24, 32)
}

// parsePP is an independent parser of PROXY v1 / v2 headers written from the specification
func parsePP(b []byte) (src, dst string, n int, err error) {
	sig := []byte{0x0D, 0x0A, 0x0D, 0x0A, 0x00, 0x0D, 0x0A, 0x51, 0x55, 0x49, 0x54, 0x0A}
	if bytes.HasPrefix(b, sig) {
		if len(b) < 16 || b[12] != 0x21 {
			return "", "", 0, fmt.Errorf("bad version/command")
		}
		l := int(b[14])<<8 | int(b[15])
		if len(b) < 16+l {
			return "", "", 0, fmt.Errorf("short")
		}
		a := b[16 : 16+l]
		switch b[13] {
		case 0x11:
			if l != 12 {
				return "", "", 0, fmt.Errorf("length %d for TCP4", l)
			}
			return (&net.TCPAddr{IP: net.IP(a[0:4]), Port: int(a[8])<<8 | int(a[9])}).String(), (&net.TCPAddr{IP: net.IP(a[4:8]), Port: int(a[10])<<8 | int(a[11])}).String(), 16 + l, nil
		case 0x21:
			if l != 36 {
				return "", "", 0, fmt.Errorf("length %d for TCP6", l)
			}
			return (&net.TCPAddr{IP: net.IP(a[0:16]), Port: int(a[32])<<8 | int(a[33])}).String(), (&net.TCPAddr{IP: net.IP(a[16:32]), Port: int(a[34])<<8 | int(a[35])}).String(), 16 + l, nil
		}
		return "", "", 0, fmt.Errorf("family/protocol %#x", b[13])
	}
	i := bytes.Index(b, []byte("\r\n"))
	if i < 0 || i > 105 {
		return "", "", 0, fmt.Errorf("no v1 line")
	}
	f := strings.Split(string(b[:i]), " ")
	if len(f) != 6 || f[0] != "PROXY" || (f[1] != "TCP4" && f[1] != "TCP6") {
		return "", "", 0, fmt.Errorf("v1 fields %q", f)
	}
	return net.JoinHostPort(f[2], f[4]), net.JoinHostPort(f[3], f[5]), i + 2, nil
}

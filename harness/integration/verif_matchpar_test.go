package integration

// C08: one provisioned matcher instance used by many connections at once (shared matcher state, e.g. the OpenVPN
// matcher's last digest): verdicts must equal the sequential ones; run under the race detector.

import (
	"context"
	"fmt"
	"sync"
	"testing"

	"github.com/caddyserver/caddy/v2"
	"github.com/mholt/caddy-l4/modules/l4openvpn"
)

func TestVerifMatchParallel(t *testing.T) {
	vreg()
	out := vopen(t, "match")
	defer out.close()
	ctx, cancel := caddy.NewContext(caddy.Context{Context: context.Background()})
	defer cancel()
	r := &vrng{vseed()*7368787 + 1}
	n := vcount(1)
	idx := 0
	for round := 0; round < n; round++ {
		var cases []mcase
		for len(cases) < 120 {
			c := mgens[r.intn(len(mgens))](r, ctx)
			if c.cfgFn == nil {
				cases = append(cases, c)
			}
		}
		// an OpenVPN matcher in the keyed modes keeps per-matcher state across Match calls
		ov := &l4openvpn.MatchOpenVPN{Modes: []string{"auth", "plain"}, IgnoreCrypto: true, IgnoreTimestamp: true}
		if err := ov.Provision(ctx); err == nil {
			for k := 0; k < 40; k++ {
				g := genOpenVPN(r, ctx)
				cases = append(cases, mcase{name: "openvpn-auth", m: ov, msg: g.msg, udp: g.udp})
				// a well-formed tls-auth hard reset: opcode, session id, 32-byte HMAC, packet id 1, timestamp, no acks, packet id 0
				a := []byte{7 << 3}
				a = append(a, r.bytes(8, 255)...)
				a[1] |= 1
				a = append(a, r.bytes(32, 256)...)
				a = append(a, 0, 0, 0, 1)
				a = append(a, r.bytes(4, 256)...)
				a = append(a, 0, 0, 0, 0, 0)
				cases = append(cases, mcase{name: "openvpn-auth", m: ov, msg: a, udp: true})
			}
		}
		want := make([]string, len(cases))
		for i, c := range cases {
			want[i], _, _ = oneMatch(c, c.msg)
		}
		var wg sync.WaitGroup
		got := make([][]string, 8)
		for w := 0; w < 8; w++ {
			got[w] = make([]string, len(cases))
			wg.Add(1)
			go func(w int) {
				defer wg.Done()
				for i, c := range cases {
					got[w][i], _, _ = oneMatch(c, c.msg)
				}
			}(w)
		}
		wg.Wait()
		for i, c := range cases {
			fmt.Fprintf(out.cases, "matchpar %s %d bytes\n", c.name, len(c.msg))
			line := want[i]
			for w := range got {
				if got[w][i] != want[i] {
					out.fail(idx, "parallel-verdict:"+c.name, fmt.Sprintf("%s matcher answered %s alone and %s while other connections were being matched by the same instance", c.name, want[i], got[w][i]))
					line = "FAIL"
				}
			}
			fmt.Fprintln(out.out, line)
			idx++
		}
	}
}

package integration

// C15: Caddyfiles generated from the documented grammar are adapted by the real caddyfile adapter; the JSON is compared with
// (1) the JSON the generator states for the same abstract configuration, (2) the Lean transcription of the layer4 adapter run on
// the lexed tokens (differential), and judged for determinism, provisioning (caddy.Validate) and JSON round trip of every module.

import (
	"bytes"
	"encoding/hex"
	"encoding/json"
	"fmt"
	"sort"
	"strings"
	"testing"

	"github.com/caddyserver/caddy/v2"
	"github.com/caddyserver/caddy/v2/caddyconfig"
	"github.com/caddyserver/caddy/v2/caddyconfig/caddyfile"
)

// ---- canonical JSON (sorted keys, strings in hex) shared with the Lean driver

func canon(v any) string {
	switch t := v.(type) {
	case nil:
		return "null"
	case bool:
		if t {
			return "true"
		}
		return "false"
	case json.Number:
		return t.String()
	case int:
		return fmt.Sprint(t)
	case int64:
		return fmt.Sprint(t)
	case float64:
		return fmt.Sprint(int64(t))
	case string:
		return "\"" + vhex([]byte(t)) + "\""
	case []any:
		var p []string
		for _, e := range t {
			p = append(p, canon(e))
		}
		return "[" + strings.Join(p, ",") + "]"
	case []string:
		var p []string
		for _, e := range t {
			p = append(p, canon(e))
		}
		return "[" + strings.Join(p, ",") + "]"
	case map[string]any:
		keys := make([]string, 0, len(t))
		for k := range t {
			keys = append(keys, k)
		}
		sort.Strings(keys)
		var p []string
		for _, k := range keys {
			p = append(p, k+":"+canon(t[k]))
		}
		return "{" + strings.Join(p, ",") + "}"
	}
	return fmt.Sprintf("?%T", v)
}

func parseJSON(b []byte) (any, error) {
	dec := json.NewDecoder(bytes.NewReader(b))
	dec.UseNumber()
	var v any
	err := dec.Decode(&v)
	return v, err
}

// prefix form read by the Lean driver: n | t | f | i<int> | s<hex> | a<k> … | o<k> (<key> <value>)…
func prefixJSON(v any, sb *strings.Builder) {
	switch t := v.(type) {
	case nil:
		sb.WriteString(" n")
	case bool:
		if t {
			sb.WriteString(" t")
		} else {
			sb.WriteString(" f")
		}
	case json.Number:
		if strings.ContainsAny(t.String(), ".eE") {
			sb.WriteString(" s" + vhex([]byte(t.String())))
		} else {
			sb.WriteString(" i" + t.String())
		}
	case string:
		sb.WriteString(" s" + vhex([]byte(t)))
	case []any:
		fmt.Fprintf(sb, " a%d", len(t))
		for _, e := range t {
			prefixJSON(e, sb)
		}
	case map[string]any:
		keys := make([]string, 0, len(t))
		for k := range t {
			keys = append(keys, k)
		}
		sort.Strings(keys)
		fmt.Fprintf(sb, " o%d", len(t))
		for _, k := range keys {
			sb.WriteString(" " + k)
			prefixJSON(t[k], sb)
		}
	}
}

// ---- generator: every leaf states the Caddyfile text it is written as and the JSON it denotes

type cleaf struct {
	name   string
	lines  []string // first line starts with the module name; further lines are the block (without braces)
	json   any      // what the documented syntax denotes (module object, without the inline "handler" key)
	opaque bool     // no table in the Lean model: its JSON is sent in the dictionary
}

func (l cleaf) text(indent string) string {
	if len(l.lines) == 1 {
		return indent + l.lines[0] + "\n"
	}
	var sb strings.Builder
	sb.WriteString(indent + l.lines[0] + " {\n")
	for _, x := range l.lines[1:] {
		sb.WriteString(indent + "\t" + x + "\n")
	}
	sb.WriteString(indent + "}\n")
	return sb.String()
}

func durTok(r *vrng) (string, int64) {
	k := 1 + r.intn(90)
	switch r.intn(5) {
	case 0:
		return fmt.Sprintf("%dms", k), int64(k) * 1e6
	case 1:
		return fmt.Sprintf("%ds", k), int64(k) * 1e9
	case 2:
		return fmt.Sprintf("%dm", k), int64(k) * 60e9
	case 3:
		return fmt.Sprintf("%dh", k), int64(k) * 3600e9
	}
	return fmt.Sprintf("%dd", k), int64(k) * 86400e9
}

func cidr(r *vrng) string {
	if r.intn(4) == 0 {
		return fmt.Sprintf("2001:db8:%x::/48", r.intn(65536))
	}
	return fmt.Sprintf("%d.%d.0.0/16", 1+r.intn(222), r.intn(256))
}

func shuffle(r *vrng, xs []string) {
	for i := len(xs) - 1; i > 0; i-- {
		j := r.intn(i + 1)
		xs[i], xs[j] = xs[j], xs[i]
	}
}

func genMatcher(r *vrng, depth int, exclude map[string]bool) cleaf {
	for {
		var l cleaf
		pick := r.intn(16)
		if pick >= 14 {
			pick = 8 // the tls matcher (nested sub-matchers with their own grammar) is drawn more often
		}
		switch pick {
		case 0:
			l = cleaf{name: "ssh", lines: []string{"ssh"}, json: map[string]any{}}
		case 1:
			l = cleaf{name: "xmpp", lines: []string{"xmpp"}, json: map[string]any{}}
		case 2:
			l = cleaf{name: "postgres", lines: []string{"postgres"}, json: map[string]any{}}
		case 3:
			l = cleaf{name: "proxy_protocol", lines: []string{"proxy_protocol"}, json: map[string]any{}}
		case 4, 5:
			name := []string{"remote_ip", "local_ip"}[r.intn(2)]
			var rs []any
			line := name
			for k := 1 + r.intn(3); k > 0; k-- {
				c := cidr(r)
				rs = append(rs, c)
				line += " " + c
			}
			l = cleaf{name: name, lines: []string{line}, json: map[string]any{"ranges": rs}}
		case 6:
			pat := []string{"^GET", "^[A-Z]+", "hello", "^\\x16\\x03"}[r.intn(4)]
			j := map[string]any{"pattern": pat}
			line := "regexp " + pat
			if r.intn(2) == 0 {
				c := 1 + r.intn(200)
				line += fmt.Sprintf(" %d", c)
				j["count"] = c
			}
			l = cleaf{name: "regexp", lines: []string{line}, json: j}
		case 7:
			if depth <= 0 {
				continue
			}
			// not: one matcher on the same line, or a block of matchers
			used := map[string]bool{"not": true}
			if r.intn(2) == 0 {
				in := genMatcher(r, depth-1, used)
				if len(in.lines) > 1 || in.opaque {
					continue
				}
				l = cleaf{name: "not", lines: []string{"not " + in.lines[0]}, json: []any{map[string]any{in.name: in.json}}}
			} else {
				set := map[string]any{}
				lines := []string{"not"}
				for k := 1 + r.intn(2); k > 0; k-- {
					in := genMatcher(r, depth-1, used)
					if len(in.lines) > 1 || in.opaque {
						continue
					}
					used[in.name] = true
					set[in.name] = in.json
					lines = append(lines, in.lines[0])
				}
				if len(set) == 0 {
					continue
				}
				l = cleaf{name: "not", lines: lines, json: []any{set}}
			}
		case 8:
			l = cleaf{name: "tls", lines: []string{"tls"}, json: map[string]any{}, opaque: true}
			switch r.intn(4) {
			case 0:
				sni := []string{"example.com", "*.example.org", "a.b.c"}[r.intn(3)]
				l = cleaf{name: "tls", lines: []string{"tls sni " + sni}, json: map[string]any{"sni": []any{sni}}, opaque: true}
			case 1, 2:
				// block form with sni and address sub-matchers; `!` marks a range to exclude
				j := map[string]any{}
				lines := []string{"tls"}
				if r.intn(2) == 0 {
					sni := []string{"example.com", "*.example.org"}[r.intn(2)]
					lines = append(lines, "sni "+sni)
					j["sni"] = []any{sni}
				}
				for _, nm := range []string{"remote_ip", "local_ip"} {
					if r.intn(2) == 0 {
						continue
					}
					line := nm
					var rs, nrs []any
					private := []any{"192.168.0.0/16", "172.16.0.0/12", "10.0.0.0/8", "127.0.0.1/8", "fd00::/8", "::1"}
					for k := 1 + r.intn(3); k > 0; k-- {
						c := cidr(r)
						switch {
						case r.intn(3) == 0: // the documented shortcut for the private networks, plain or (remote_ip) negated
							if nm == "remote_ip" && r.intn(2) == 0 {
								line += " !private_ranges"
								nrs = append(nrs, private...)
							} else {
								line += " private_ranges"
								rs = append(rs, private...)
							}
						case nm == "remote_ip" && r.intn(2) == 0:
							line += " !" + c
							nrs = append(nrs, c)
						default:
							line += " " + c
							rs = append(rs, c)
						}
					}
					lines = append(lines, line)
					m := map[string]any{}
					if len(rs) > 0 {
						m["ranges"] = rs
					}
					if len(nrs) > 0 {
						m["not_ranges"] = nrs
					}
					j[nm] = m
				}
				if len(lines) > 1 {
					l = cleaf{name: "tls", lines: lines, json: j, opaque: true}
				}
			}
		case 9:
			l = cleaf{name: "http", lines: []string{"http host example.com"}, json: []any{map[string]any{"host": []any{"example.com"}}}, opaque: true}
		case 10:
			l = cleaf{name: "socks5", lines: []string{"socks5"}, json: map[string]any{}, opaque: true}
		case 11:
			l = cleaf{name: "wireguard", lines: []string{"wireguard"}, json: map[string]any{}, opaque: true}
		case 12:
			l = cleaf{name: "rdp", lines: []string{"rdp"}, json: map[string]any{}, opaque: true}
		case 13:
			l = cleaf{name: "quic", lines: []string{"quic"}, json: map[string]any{}, opaque: true}
		}
		if exclude[l.name] {
			continue
		}
		return l
	}
}

type croutes struct {
	text   string
	fields map[string]any // "routes", "matching_timeout"
	leaves []cleaf        // opaque leaves used (for the dictionary), kind in name prefix
	kinds  []string
}

func genProxy(r *vrng) cleaf {
	j := map[string]any{}
	var ups []any
	line := "proxy"
	for k := r.intn(3); k > 0; k-- {
		a := fmt.Sprintf("10.0.%d.%d:%d", r.intn(256), 1+r.intn(254), 1+r.intn(65535))
		line += " " + a
		ups = append(ups, map[string]any{"dial": []any{a}})
	}
	var opts []string
	hc := map[string]any{}
	active, passive, lb := map[string]any{}, map[string]any{}, map[string]any{}
	// a health-check / load-balancing group exists in the JSON as soon as one of its options is written, also with the value
	// zero (which `omitempty` then leaves out of the group): `present` records that
	present := map[string]bool{}
	group := func(into map[string]any) string {
		switch fmt.Sprintf("%p", into) {
		case fmt.Sprintf("%p", active):
			return "active"
		case fmt.Sprintf("%p", passive):
			return "passive"
		}
		return "lb"
	}
	addDur := func(name string, into map[string]any, key string) {
		present[group(into)] = true
		if r.intn(6) == 0 {
			opts = append(opts, name+" 0")
			return
		}
		t, ns := durTok(r)
		opts = append(opts, name+" "+t)
		into[key] = ns
	}
	addInt := func(name string, into map[string]any, key string) {
		present[group(into)] = true
		if r.intn(6) == 0 {
			opts = append(opts, name+" 0")
			return
		}
		v := 1 + r.intn(9000)
		opts = append(opts, fmt.Sprintf("%s %d", name, v))
		into[key] = v
	}
	if r.intn(2) == 0 {
		addDur("health_interval", active, "interval")
	}
	if r.intn(2) == 0 {
		addInt("health_port", active, "port")
	}
	if r.intn(3) == 0 {
		addDur("health_timeout", active, "timeout")
	}
	if r.intn(2) == 0 {
		addDur("fail_duration", passive, "fail_duration")
	}
	if r.intn(2) == 0 {
		addInt("max_fails", passive, "max_fails")
	}
	if r.intn(3) == 0 {
		addInt("unhealthy_connection_count", passive, "unhealthy_connection_count")
	}
	if r.intn(3) == 0 {
		addDur("lb_try_duration", lb, "try_duration")
	}
	if r.intn(3) == 0 {
		addDur("lb_try_interval", lb, "try_interval")
	}
	if r.intn(3) == 0 {
		p := []string{"first", "random", "round_robin", "least_conn", "ip_hash"}[r.intn(5)]
		opts = append(opts, "lb_policy "+p)
		lb["selection"] = map[string]any{"policy": p}
	}
	if r.intn(4) == 0 {
		v := []string{"v1", "v2"}[r.intn(2)]
		opts = append(opts, "proxy_protocol "+v)
		j["proxy_protocol"] = v
	}
	for k := r.intn(2); k > 0 || len(ups) == 0; k-- {
		a := fmt.Sprintf("backend%d.internal:%d", r.intn(100), 1+r.intn(65535))
		b := fmt.Sprintf("10.1.%d.%d:%d", r.intn(256), 1+r.intn(254), 1+r.intn(65535))
		if r.intn(2) == 0 {
			opts = append(opts, "upstream "+a)
			ups = append(ups, map[string]any{"dial": []any{a}})
		} else {
			opts = append(opts, "upstream "+a+" "+b)
			ups = append(ups, map[string]any{"dial": []any{a, b}})
		}
	}
	// the order of the options in the block is free
	shuffleKeepingUpstreamOrder(r, opts)
	if present["active"] {
		hc["active"] = active
	}
	if present["passive"] {
		hc["passive"] = passive
	}
	if len(hc) > 0 {
		j["health_checks"] = hc
	}
	if present["lb"] || len(lb) > 0 {
		j["load_balancing"] = lb
	}
	j["upstreams"] = ups
	return cleaf{name: "proxy", lines: append([]string{line}, opts...), json: j}
}

// options may appear in any order; the relative order of `upstream` lines is kept (it is the order of the upstream list)
func shuffleKeepingUpstreamOrder(r *vrng, opts []string) {
	var ups []string
	for _, o := range opts {
		if strings.HasPrefix(o, "upstream ") {
			ups = append(ups, o)
		}
	}
	shuffle(r, opts)
	k := 0
	for i, o := range opts {
		if strings.HasPrefix(o, "upstream ") {
			opts[i] = ups[k]
			k++
		}
	}
}

func genHandler(r *vrng, depth int, dict *[]dictEntry) (text func(indent string) string, j map[string]any) {
	switch k := r.intn(9); {
	case k == 0:
		l := cleaf{name: "echo", lines: []string{"echo"}, json: map[string]any{}}
		return l.text, map[string]any{"handler": "echo"}
	case k == 1:
		j := map[string]any{"handler": "throttle"}
		var opts []string
		if r.intn(2) == 0 {
			t, ns := durTok(r)
			opts = append(opts, "latency "+t)
			j["latency"] = ns
		}
		for _, o := range []string{"read_burst_size", "read_bytes_per_second", "total_read_burst_size", "total_read_bytes_per_second"} {
			if r.intn(2) == 0 {
				v := 1 + r.intn(100000)
				opts = append(opts, fmt.Sprintf("%s %d", o, v))
				j[o] = v
			}
		}
		shuffle(r, opts)
		l := cleaf{name: "throttle", lines: append([]string{"throttle"}, opts...)}
		return l.text, j
	case k == 2:
		j := map[string]any{"handler": "proxy_protocol"}
		var opts []string
		var allow []any
		for n := r.intn(3); n > 0; n-- {
			line := "allow"
			for q := 1 + r.intn(2); q > 0; q-- {
				c := cidr(r)
				line += " " + c
				allow = append(allow, c)
			}
			opts = append(opts, line)
		}
		if len(allow) > 0 {
			j["allow"] = allow
		}
		if r.intn(2) == 0 {
			t, ns := durTok(r)
			// the timeout may stand anywhere among the allow lines
			pos := r.intn(len(opts) + 1)
			opts = append(opts[:pos], append([]string{"timeout " + t}, opts[pos:]...)...)
			j["timeout"] = ns
		}
		l := cleaf{name: "proxy_protocol", lines: append([]string{"proxy_protocol"}, opts...)}
		return l.text, j
	case k <= 5:
		l := genProxy(r)
		j := l.json.(map[string]any)
		j["handler"] = "proxy"
		return l.text, j
	case k == 6 && depth > 0:
		sub := genRoutes(r, depth-1, dict)
		j := map[string]any{"handler": "subroute"}
		for k, v := range sub.fields {
			j[k] = v
		}
		return func(indent string) string {
			return indent + "subroute {\n" + indentText(sub.text, indent+"\t") + indent + "}\n"
		}, j
	case k == 7 && depth > 0:
		var hs []any
		var texts []func(string) string
		for n := 1 + r.intn(2); n > 0; n-- {
			t, hj := genHandler(r, depth-1, dict)
			texts = append(texts, t)
			hs = append(hs, hj)
		}
		return func(indent string) string {
			s := indent + "tee {\n"
			for _, t := range texts {
				s += t(indent + "\t")
			}
			return s + indent + "}\n"
		}, map[string]any{"handler": "tee", "branch": hs}
	default:
		// an opaque handler: socks5 without options
		l := cleaf{name: "socks5", lines: []string{"socks5"}, json: map[string]any{}, opaque: true}
		*dict = append(*dict, dictEntry{"h", l})
		return l.text, map[string]any{"handler": "socks5"}
	}
}

func indentText(s, indent string) string {
	var sb strings.Builder
	for _, line := range strings.Split(strings.TrimRight(s, "\n"), "\n") {
		sb.WriteString(indent + line + "\n")
	}
	return sb.String()
}

type dictEntry struct {
	kind string
	leaf cleaf
}

// genRoutes writes the body of a server / subroute block (named matcher sets, matching_timeout, routes)
func genRoutes(r *vrng, depth int, dict *[]dictEntry) croutes {
	var out croutes
	out.fields = map[string]any{}
	var lines []string // each entry is a complete (possibly multi-line) item, unindented
	sets := map[string]any{}
	var names []string
	for k := r.intn(4); k > 0; k-- {
		name := fmt.Sprintf("@%c%d", 'a'+rune(r.intn(26)), len(names))
		set := map[string]any{}
		if r.intn(2) == 0 {
			m := genMatcher(r, 1, nil)
			if m.opaque {
				*dict = append(*dict, dictEntry{"m", m})
			}
			set[m.name] = m.json
			lines = append(lines, strings.TrimRight(cleaf{lines: append([]string{name + " " + m.lines[0]}, m.lines[1:]...)}.text(""), "\n"))
		} else {
			used := map[string]bool{}
			item := name + " {\n"
			for n := 1 + r.intn(3); n > 0; n-- {
				m := genMatcher(r, 1, used)
				used[m.name] = true
				if m.opaque {
					*dict = append(*dict, dictEntry{"m", m})
				}
				set[m.name] = m.json
				item += m.text("\t")
			}
			item += "}"
			lines = append(lines, item)
		}
		sets[name] = set
		names = append(names, name)
	}
	if r.intn(3) == 0 {
		t, ns := durTok(r)
		lines = append(lines, "matching_timeout "+t)
		out.fields["matching_timeout"] = ns
	}
	var routes []any
	var routeItems []string
	for k := r.intn(4); k > 0; k-- {
		route := map[string]any{}
		head := "route"
		var ms []any
		for n := r.intn(3); n > 0 && len(names) > 0; n-- {
			nm := names[r.intn(len(names))]
			head += " " + nm
			ms = append(ms, sets[nm])
		}
		if len(ms) > 0 {
			route["match"] = ms
		}
		item := head
		var hs []any
		nh := r.intn(3)
		if nh > 0 {
			item += " {\n"
			for ; nh > 0; nh-- {
				t, hj := genHandler(r, depth, dict)
				item += t("\t")
				hs = append(hs, hj)
			}
			item += "}"
			route["handle"] = hs
		}
		routeItems = append(routeItems, item)
		routes = append(routes, route)
	}
	if len(routes) > 0 {
		out.fields["routes"] = routes
	}
	// named sets, the timeout and the routes may be interleaved in any order (routes keep their relative order)
	all := append(lines, routeItems...)
	order := make([]int, len(all))
	for i := range order {
		order[i] = i
	}
	for i := len(order) - 1; i > 0; i-- {
		j := r.intn(i + 1)
		order[i], order[j] = order[j], order[i]
	}
	var routePos []int
	for i, o := range order {
		if o >= len(lines) {
			routePos = append(routePos, i)
		}
	}
	k := 0
	for _, i := range routePos {
		order[i] = len(lines) + k
		k++
	}
	for _, o := range order {
		out.text += all[o] + "\n"
	}
	return out
}

func adaptCaddyfile(text string) ([]byte, error) {
	adapter := caddyconfig.GetAdapter("caddyfile")
	b, warns, err := adapter.Adapt([]byte(text), map[string]any{"filename": "Caddyfile"})
	_ = warns
	return b, err
}

func TestVerifCfg(t *testing.T) {
	out := vopen(t, "cfg")
	defer out.close()
	r := &vrng{vseed()*49979687 + 13}
	n := vcount(300)
	stats := map[string]int{}
	leafCache := map[string]any{}
	for idx := 0; idx < n; idx++ {
		var dict []dictEntry
		servers := map[string]any{}
		text := "{\n"
		nsrv := 0
		for b := r.pick(1, 1, 1, 2); b > 0; b-- {
			text += "\tlayer4 {\n"
			for s := r.pick(0, 1, 1, 2); s > 0; s-- {
				var listen []any
				head := ""
				for k := 1 + r.intn(2); k > 0; k-- {
					a := []string{":443", "udp/:53", "127.0.0.1:8080", "0.0.0.0:25", "[::1]:993", "tcp/:7000"}[r.intn(6)]
					listen = append(listen, a)
					head += a + " "
				}
				body := genRoutes(r, 2, &dict)
				srv := map[string]any{"listen": listen}
				for k, v := range body.fields {
					srv[k] = v
				}
				servers[fmt.Sprintf("srv%d", nsrv)] = srv
				nsrv++
				text += "\t\t" + head + "{\n" + indentText(body.text, "\t\t\t") + "\t\t}\n"
			}
			text += "\t}\n"
		}
		text += "}\n"
		app := map[string]any{}
		if len(servers) > 0 {
			app["servers"] = servers
		}
		expect := map[string]any{"apps": map[string]any{"layer4": app}}

		// ---- the real adapter
		got, err := adaptCaddyfile(text)
		toks, terr := caddyfile.Tokenize([]byte(text), "Caddyfile")
		if terr != nil {
			t.Fatal(terr)
		}
		var sb strings.Builder
		fmt.Fprintf(&sb, "cfg %d", len(toks))
		for _, tk := range toks {
			fmt.Fprintf(&sb, " %s@%d", vhex([]byte(tk.Text)), tk.Line)
		}
		// dictionary of the leaves the model has no table for: adapted alone by the real adapter
		type de struct {
			kind string
			toks []string
			j    any
		}
		var des []de
		seen := map[string]bool{}
		for _, d := range dict {
			lt := strings.TrimSpace(d.leaf.text(""))
			key := d.kind + " " + lt
			if seen[key] {
				continue
			}
			seen[key] = true
			if _, ok := leafCache[key]; !ok {
				var probe string
				if d.kind == "m" {
					probe = "{\n\tlayer4 {\n\t\t:1 {\n\t\t\t@x " + lt + "\n\t\t\troute @x\n\t\t}\n\t}\n}\n"
				} else {
					probe = "{\n\tlayer4 {\n\t\t:1 {\n\t\t\troute {\n\t\t\t\t" + lt + "\n\t\t\t}\n\t\t}\n\t}\n}\n"
				}
				pb, perr := adaptCaddyfile(probe)
				var pj any
				if perr == nil {
					v, _ := parseJSON(pb)
					func() {
						defer func() { recover() }()
						route := v.(map[string]any)["apps"].(map[string]any)["layer4"].(map[string]any)["servers"].(map[string]any)["srv0"].(map[string]any)["routes"].([]any)[0].(map[string]any)
						if d.kind == "m" {
							pj = route["match"].([]any)[0].(map[string]any)[d.leaf.name]
						} else {
							pj = route["handle"].([]any)[0]
						}
					}()
				}
				leafCache[key] = pj
			}
			lts, _ := caddyfile.Tokenize([]byte(lt), "leaf")
			var ts []string
			for _, tk := range lts {
				ts = append(ts, vhex([]byte(tk.Text)))
			}
			des = append(des, de{d.kind, ts, leafCache[key]})
		}
		fmt.Fprintf(&sb, " %d", len(des))
		for _, d := range des {
			fmt.Fprintf(&sb, " %s %d %s", d.kind, len(d.toks), strings.Join(d.toks, " "))
			prefixJSON(d.j, &sb)
		}
		fmt.Fprintln(out.cases, sb.String())
		stats["servers:"+fmt.Sprint(nsrv)]++
		if len(des) > 0 {
			stats["with-opaque-leaf"]++
		}
		if strings.Contains(text, "subroute") {
			stats["subroute"]++
		}
		if strings.Contains(text, "tee {") {
			stats["tee"]++
		}
		if strings.Contains(text, "not ") {
			stats["not"]++
		}
		if strings.Contains(text, "proxy") {
			stats["proxy"]++
		}

		if err != nil {
			out.fail(idx, "adapt-error", fmt.Sprintf("a Caddyfile written from the documented syntax is rejected: %v\n%s", err, text))
			fmt.Fprintf(out.out, "error %s\n", hex.EncodeToString([]byte(err.Error()))[:40])
			continue
		}
		gv, perr := parseJSON(got)
		if perr != nil {
			out.fail(idx, "adapt-error", "adapter output is not JSON: "+perr.Error())
			fmt.Fprintln(out.out, "error not-json")
			continue
		}
		gc := canon(gv)
		fmt.Fprintln(out.out, gc)
		if ec := canon(expect); ec != gc {
			out.fail(idx, "adapt-mismatch", fmt.Sprintf("the adapted JSON does not state what the Caddyfile states; first difference at %d: …%s… instead of …%s…\n%s", firstDiffStr(ec, gc), clip(gc, firstDiffStr(ec, gc)), clip(ec, firstDiffStr(ec, gc)), text))
		}
		// deterministic
		got2, err2 := adaptCaddyfile(text)
		if err2 != nil || !bytes.Equal(got, got2) {
			out.fail(idx, "adapt-nondeterministic", "adapting the same Caddyfile twice gave different JSON")
		}
		// loads and provisions
		var cfg caddy.Config
		if uerr := json.Unmarshal(got, &cfg); uerr != nil {
			out.fail(idx, "does-not-load", "the adapted JSON does not load: "+uerr.Error())
		} else if verr := caddy.Validate(&cfg); verr != nil {
			out.fail(idx, "does-not-provision", fmt.Sprintf("the adapted JSON does not provision: %v\n%s", verr, text))
		}
		// every module's JSON survives load + re-serialise
		if bad := roundTripModules(gv); bad != "" {
			out.fail(idx, "json-round-trip", bad)
		}
	}
	out.stats(stats)
}

func firstDiffStr(a, b string) int {
	for i := 0; i < len(a) && i < len(b); i++ {
		if a[i] != b[i] {
			return i
		}
	}
	if len(a) < len(b) {
		return len(a)
	}
	return len(b)
}

func clip(s string, at int) string {
	lo, hi := at-40, at+60
	if lo < 0 {
		lo = 0
	}
	if hi > len(s) {
		hi = len(s)
	}
	if lo > hi {
		lo = hi
	}
	return s[lo:hi]
}

// roundTripModules walks the adapted JSON: every handler object and every matcher of every matcher set is loaded into a fresh
// module value and serialised again; the result must equal what was loaded
func roundTripModules(v any) string {
	switch t := v.(type) {
	case []any:
		for _, e := range t {
			if s := roundTripModules(e); s != "" {
				return s
			}
		}
	case map[string]any:
		for k, e := range t {
			if k == "handle" || k == "branch" {
				if hs, ok := e.([]any); ok {
					for _, h := range hs {
						if hm, ok := h.(map[string]any); ok {
							name, _ := hm["handler"].(string)
							rest := map[string]any{}
							for kk, vv := range hm {
								if kk != "handler" {
									rest[kk] = vv
								}
							}
							if s := roundTripOne("layer4.handlers."+name, rest); s != "" {
								return s
							}
						}
					}
				}
			}
			if k == "match" {
				if sets, ok := e.([]any); ok {
					for _, set := range sets {
						if sm, ok := set.(map[string]any); ok {
							for name, mv := range sm {
								if s := roundTripOne("layer4.matchers."+name, mv); s != "" {
									return s
								}
							}
						}
					}
				}
			}
			if s := roundTripModules(e); s != "" {
				return s
			}
		}
	}
	return ""
}

func roundTripOne(id string, v any) string {
	info, err := caddy.GetModule(id)
	if err != nil {
		return "unknown module " + id
	}
	raw, _ := json.Marshal(v)
	mod := info.New()
	dec := json.NewDecoder(bytes.NewReader(raw))
	dec.DisallowUnknownFields()
	if err := dec.Decode(mod); err != nil {
		return fmt.Sprintf("%s does not load %s: %v", id, raw, err)
	}
	back, err := json.Marshal(mod)
	if err != nil {
		return fmt.Sprintf("%s does not serialise: %v", id, err)
	}
	bv, _ := parseJSON(back)
	ov, _ := parseJSON(raw)
	if canon(bv) != canon(ov) {
		return fmt.Sprintf("%s: loading %s and serialising again gives %s", id, raw, back)
	}
	return ""
}

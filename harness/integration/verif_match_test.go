package integration

// Verification harness for the connection matchers (C04, C06, C14): every case is one Match call on a connection
// preloaded with a prefix of a generated message, observed through the public MatcherSet.Match (freeze / unfreeze).

import (
	"context"
	"encoding/json"
	"time"
	"encoding/binary"
	"errors"
	"fmt"
	"net"
	"regexp"
	"runtime"
	"strings"
	"testing"

	"github.com/caddyserver/caddy/v2"
	"go.uber.org/zap"

	"github.com/mholt/caddy-l4/layer4"
	"github.com/mholt/caddy-l4/modules/l4postgres"
	"github.com/mholt/caddy-l4/modules/l4proxyprotocol"
	"github.com/mholt/caddy-l4/modules/l4regexp"
	"github.com/mholt/caddy-l4/modules/l4socks"
	"github.com/mholt/caddy-l4/modules/l4ssh"
	"github.com/mholt/caddy-l4/modules/l4xmpp"
)

type mcase struct {
	name  string             // matcher name in the line protocol
	cfg   string             // configuration tokens (already flattened)
	m     layer4.ConnMatcher // provisioned matcher
	msg   []byte             // a generated message (valid or corrupted)
	udp   bool
	model bool               // the Lean driver has an executable model of this matcher
	cfgFn func(prefix []byte) string // configuration tokens that depend on the prefix (regexp result)
	wrapDay      int    // clock: days added to the fixed wrap date 2024-05-17 (negative: a winter date)
	wrapTime     int    // clock: seconds of the (UTC) day + 1 at which the connection was wrapped (0 = now)
	addr         string // ip matchers: address of the connection
	addrRemote   bool
	nameOverride string
	rawJSON      string // the matcher's JSON configuration when provisioning clears it from the struct
	expect       string // verdict the wire definition and the filters prescribe for the unmutated message ("" = not stated)
	mutated      bool
}

var mutCount int

type mgen func(r *vrng, ctx caddy.Context) mcase

func prov(ctx caddy.Context, m any) {
	if p, ok := m.(caddy.Provisioner); ok {
		if err := p.Provision(ctx); err != nil {
			panic(fmt.Sprintf("provision %T: %v", m, err))
		}
	}
}

// mutate applies 0-2 structure-agnostic corruptions
func mutate(r *vrng, b []byte) []byte {
	b = append([]byte(nil), b...)
	for k := r.pick(0, 0, 0, 1, 1, 2); k > 0; k-- {
		mutCount++
		switch r.intn(6) {
		case 0:
			if len(b) > 0 {
				b[r.intn(len(b))] ^= byte(1 << r.intn(8))
			}
		case 1:
			if len(b) > 0 {
				b[r.intn(len(b))] = byte(r.pick(0, 1, 0x0d, 0x0a, 0xff, 0x7f, 0x80))
			}
		case 2:
			if len(b) > 0 {
				b = b[:r.intn(len(b))]
			}
		case 3:
			b = append(b, r.bytes(r.pick(1, 2, 8, 300), 256)...)
		case 4:
			if len(b) > 1 {
				i := r.intn(len(b))
				b = append(b[:i], b[i+1:]...)
			}
		case 5:
			i := r.intn(len(b) + 1)
			b = append(b[:i], append([]byte{byte(r.intn(256))}, b[i:]...)...)
		}
	}
	return b
}

func genSSH(r *vrng, ctx caddy.Context) mcase {
	msg := []byte("SSH-2.0-OpenSSH_9.6\r\n")
	if r.intn(4) == 0 {
		msg = append([]byte(nil), []byte([]string{"SSH-1.99-x", "SSH_2.0", "ssh-2.0-a", "SS", "SSH-"}[r.intn(5)])...)
	}
	exp := "no"
	if len(msg) >= 4 && string(msg[:4]) == "SSH-" {
		exp = "yes"
	} else if len(msg) < 4 {
		exp = "more"
	}
	return mcase{name: "ssh", m: &l4ssh.MatchSSH{}, msg: mutate(r, msg), model: true, expect: exp}
}

func genXMPP(r *vrng, ctx caddy.Context) mcase {
	msg := []byte(`<?xml version='1.0'?><stream:stream to='example.com' xmlns='jabber:client' xmlns:stream='http://etherx.jabber.org/streams' version='1.0'>`)
	switch r.intn(5) {
	case 0:
		msg = []byte(`<?xml version='1.0'?><stream:stream to='example.com' xmlns:stream='http://etherx.jabb` + `er.org/streams' xmlns='jabber:client'>`)
	case 1:
		msg = append(r.bytes(r.pick(40, 44, 45, 50), 256), []byte("jabber")...)
	case 2:
		msg = []byte(strings.Repeat("x", r.pick(43, 44, 45, 49, 50)) + "jabber" + strings.Repeat("y", 10))
	}
	return mcase{name: "xmpp", m: &l4xmpp.MatchXMPP{}, msg: mutate(r, msg), model: true}
}

func genPP(r *vrng, ctx caddy.Context) mcase {
	hdr, _ := ppHeader(r)
	msg := append(hdr, r.bytes(r.intn(20), 256)...)
	if r.intn(5) == 0 {
		msg = []byte("PROXY UNKNOWN\r\n")
	}
	return mcase{name: "pp", m: &l4proxyprotocol.MatchProxyProtocol{}, msg: mutate(r, msg), model: true}
}

func genRegexp(r *vrng, ctx caddy.Context) mcase {
	pats := []string{"^GET ", "^[A-Z]+ /", "\\d\\d", "^\\x16\\x03", "b+a", ".*"}
	pat := pats[r.intn(len(pats))]
	count := r.pick(0, 1, 4, 7, 16)
	m := &l4regexp.MatchRegexp{Pattern: pat, Count: uint16(count)}
	prov(ctx, m)
	re := regexp.MustCompile(pat)
	msg := [][]byte{[]byte("GET / HTTP/1.1\r\n"), []byte("POST /x HTTP/1.1\r\n"), {0x16, 3, 1, 0, 5}, []byte("abba 12 bbba")}[r.intn(4)]
	msg = mutate(r, msg)
	eff := count
	if eff == 0 {
		eff = 4
	}
	return mcase{name: "regexp", m: m, msg: msg, model: true, cfgFn: func(p []byte) string {
		bit := 0
		if len(p) >= eff && re.Match(p[:eff]) {
			bit = 1
		}
		return fmt.Sprintf("%d %d", count, bit)
	}}
}

func genSocks5(r *vrng, ctx caddy.Context) mcase {
	var methods []uint16
	for k := r.pick(0, 0, 1, 2, 3); k > 0; k-- {
		methods = append(methods, uint16(r.pick(0, 1, 2, 3, 128, 255)))
	}
	m := &l4socks.Socks5Matcher{AuthMethods: append([]uint16(nil), methods...)}
	prov(ctx, m)
	n := r.pick(0, 1, 1, 2, 3, 255)
	msg := []byte{5, byte(n)}
	for i := 0; i < n; i++ {
		msg = append(msg, byte(r.pick(0, 0, 1, 2, 2, 3, 255)))
	}
	if r.intn(8) == 0 {
		msg[0] = byte(r.pick(4, 6, 0))
	}
	exp := "yes"
	if msg[0] != 5 {
		exp = "no"
	}
	for _, b := range msg[2:] {
		ok := false
		for _, a := range m.AuthMethods {
			ok = ok || a == uint16(b)
		}
		if !ok {
			exp = "no"
		}
	}
	cfg := fmt.Sprintf("%d", len(methods))
	for _, x := range methods {
		cfg += fmt.Sprintf(" %d", x)
	}
	return mcase{name: "socks5", cfg: cfg, m: m, msg: mutate(r, msg), model: true, expect: exp}
}

func genSocks4(r *vrng, ctx caddy.Context) mcase {
	m := &l4socks.Socks4Matcher{}
	var cmds []string
	switch r.intn(4) {
	case 1:
		cmds = []string{"CONNECT"}
	case 2:
		cmds = []string{"bind"}
	case 3:
		cmds = []string{"BIND", "connect"}
	}
	m.Commands = cmds
	var ports []uint16
	for k := r.pick(0, 0, 1, 2); k > 0; k-- {
		ports = append(ports, uint16(r.pick(80, 443, 1080, 65535, 0)))
	}
	m.Ports = ports
	nets := [][]string{nil, {"10.0.0.0/8"}, {"192.168.1.7"}, {"10.1.0.0/16", "172.16.0.0/12"}, {"0.0.0.0/0"}, {"fd00::/8"}, {"10.0.0.0/8", "::1"}}[r.intn(7)]
	m.Networks = nets
	prov(ctx, m)
	// flattened configuration: provisioned command codes, ports, IPv4 CIDRs (address, bits), v6-only flag
	codes := []int{1, 2}
	if len(cmds) > 0 {
		codes = nil
		for _, c := range cmds {
			if strings.ToUpper(c) == "CONNECT" {
				codes = append(codes, 1)
			} else {
				codes = append(codes, 2)
			}
		}
	}
	cfg := fmt.Sprintf("%d", len(codes))
	for _, c := range codes {
		cfg += fmt.Sprintf(" %d", c)
	}
	cfg += fmt.Sprintf(" %d", len(ports))
	for _, p := range ports {
		cfg += fmt.Sprintf(" %d", p)
	}
	var c4 []string
	v6 := 0
	for _, n := range nets {
		s := n
		if !strings.Contains(s, "/") {
			if strings.Contains(s, ":") {
				s += "/128"
			} else {
				s += "/32"
			}
		}
		_, ipn, err := net.ParseCIDR(s)
		if err != nil {
			panic(err)
		}
		if ip4 := ipn.IP.To4(); ip4 != nil && !strings.Contains(s, ":") {
			ones, _ := ipn.Mask.Size()
			c4 = append(c4, fmt.Sprintf("%d %d", binary.BigEndian.Uint32(ip4), ones))
		} else {
			v6 = 1
		}
	}
	cfg += fmt.Sprintf(" %d", len(c4))
	for _, c := range c4 {
		cfg += " " + c
	}
	cfg += fmt.Sprintf(" %d", v6)
	msg := []byte{4, byte(r.pick(1, 1, 2, 3, 0)), 0, 0, 0, 0, 0, 0, 'u', 0}
	binary.BigEndian.PutUint16(msg[2:], uint16(r.pick(80, 443, 1080, 65535, 0, 81)))
	copy(msg[4:8], [][]byte{{10, 1, 2, 3}, {10, 200, 0, 1}, {192, 168, 1, 7}, {192, 168, 1, 8}, {172, 20, 0, 9}, {8, 8, 8, 8}, {0, 0, 0, 1}}[r.intn(7)])
	exp := "yes"
	cmdOK := false
	for _, c := range codes {
		cmdOK = cmdOK || int(msg[1]) == c
	}
	portOK := len(ports) == 0
	for _, p := range ports {
		portOK = portOK || p == binary.BigEndian.Uint16(msg[2:4])
	}
	netOK := len(nets) == 0
	for _, n := range nets {
		sn := n
		if !strings.Contains(sn, "/") {
			if strings.Contains(sn, ":") {
				sn += "/128"
			} else {
				sn += "/32"
			}
		}
		_, ipn, _ := net.ParseCIDR(sn)
		netOK = netOK || (!strings.Contains(n, ":") && ipn.Contains(net.IP(msg[4:8])))
	}
	if msg[0] != 4 || !cmdOK || !portOK || !netOK {
		exp = "no"
	}
	return mcase{name: "socks4", cfg: cfg, m: m, msg: mutate(r, msg), model: true, expect: exp}
}

func genPostgres(r *vrng, ctx caddy.Context) mcase {
	var body []byte
	switch r.intn(6) {
	case 0: // SSLRequest
		body = binary.BigEndian.AppendUint32(nil, 80877103)
	case 1: // old protocol
		body = binary.BigEndian.AppendUint32(nil, uint32(r.pick(2, 1, 0))<<16)
		body = append(body, []byte("user\x00bob\x00\x00")...)
	default:
		body = binary.BigEndian.AppendUint32(nil, 3<<16|uint32(r.intn(3)))
		for k := r.pick(0, 1, 2, 3); k > 0; k-- {
			body = append(body, []byte([]string{"user", "database", "options", "", "application_name"}[r.intn(5)])...)
			body = append(body, 0)
			body = append(body, []byte([]string{"bob", "", "db1", "-c x=y"}[r.intn(4)])...)
			if r.intn(10) != 0 {
				body = append(body, 0)
			}
		}
		if r.intn(4) != 0 {
			body = append(body, 0)
		}
	}
	msg := binary.BigEndian.AppendUint32(nil, uint32(len(body)+4))
	msg = append(msg, body...)
	switch r.intn(12) {
	case 0: // corrupt the length field
		binary.BigEndian.PutUint32(msg, uint32(r.pick(0, 1, 3, 4, 5, 7, 8, 9, 16384, 16385, 1<<31, 1<<32-1)))
	case 1:
		msg = append(msg, r.bytes(5, 256)...)
	}
	return mcase{name: "postgres", m: &l4postgres.MatchPostgres{}, msg: mutate(r, msg), model: true}
}

var mgens = []mgen{genSSH, genXMPP, genPP, genRegexp, genSocks5, genSocks4, genPostgres}

type mnop struct{}

// oneMatch runs Match on a fresh connection preloaded with prefix; returns the verdict string, socket reads, bytes allocated
func oneMatch(c mcase, prefix []byte) (verdict string, reads int, alloc uint64) {
	sc := &sconn{}
	if c.udp {
		sc.local = &net.UDPAddr{IP: net.IPv4(127, 0, 0, 1), Port: 53}
		sc.remote = &net.UDPAddr{IP: net.IPv4(127, 0, 0, 1), Port: 40000}
	}
	if c.addr != "" {
		a := &net.TCPAddr{IP: net.ParseIP(c.addr), Port: 1234}
		if c.addrRemote {
			sc.remote = a
		} else {
			sc.local = a
		}
	}
	buf := append(make([]byte, 0, len(prefix)), prefix...)
	cx := layer4.WrapConnection(sc, buf, zap.NewNop())
	if c.wrapTime > 0 {
		repl := cx.Context.Value(layer4.ReplacerCtxKey).(*caddy.Replacer)
		repl.Set("l4.conn.wrap_time", time.Date(2024, 5, 17, 0, 0, 0, 0, time.UTC).AddDate(0, 0, c.wrapDay).Add(time.Duration(c.wrapTime-1)*time.Second))
	}
	var ms0, ms1 runtime.MemStats
	func() {
		defer func() {
			if e := recover(); e != nil {
				verdict = "panic"
				if os_getenv_debug {
					fmt.Println("panic:", e)
				}
			}
		}()
		runtime.ReadMemStats(&ms0)
		ok, err := layer4.MatcherSet{c.m}.Match(cx)
		runtime.ReadMemStats(&ms1)
		switch {
		case errors.Is(err, layer4.ErrConsumedAllPrefetchedBytes):
			verdict = "more"
		case err != nil:
			verdict = "fail"
		case ok:
			verdict = "yes"
		default:
			verdict = "no"
		}
	}()
	if verdict != "panic" {
		alloc = ms1.TotalAlloc - ms0.TotalAlloc
	}
	return verdict, sc.reads, alloc
}

var os_getenv_debug = false

func prefixLens(r *vrng, n int) []int {
	if n <= 26 {
		out := make([]int, 0, n+1)
		for i := 0; i <= n; i++ {
			out = append(out, i)
		}
		return out
	}
	set := map[int]bool{0: true, n: true, n - 1: true, n - 2: true}
	for i := 1; i <= 9; i++ {
		set[i] = true
	}
	for len(set) < 26 {
		set[r.intn(n+1)] = true
	}
	var out []int
	for i := 0; i <= n; i++ {
		if set[i] {
			out = append(out, i)
		}
	}
	return out
}

const allocBound = 32 * layer4.MaxMatchingBytes

// routedVerdict sends the message in the given chunks through a one-route list built from the matcher's own JSON
// (the same Connection is re-evaluated after every prefetch) and reports whether the route's handler ran
func routedVerdict(ctx caddy.Context, c mcase, chunks [][]byte) (string, error) {
	mod, ok := c.m.(caddy.Module)
	if !ok {
		return "", fmt.Errorf("not a module")
	}
	id := string(mod.CaddyModule().ID)
	name := id[strings.LastIndex(id, ".")+1:]
	cfg, err := json.Marshal(c.m)
	if err != nil {
		return "", err
	}
	if c.rawJSON != "" {
		cfg = []byte(c.rawJSON)
	}
	if string(cfg) == "null" {
		// a matcher built in Go without sub-matchers marshals its nil raw field as null
		cfg = []byte(map[string]string{"tls": "{}", "http": "[]"}[name])
	}
	ran := false
	rid := fmt.Sprintf("routed-%p-%d", &ran, len(chunks))
	hj, _ := json.Marshal(map[string]any{"handler": "vrec", "id": rid, "take": 0, "rsz": 1, "term": true})
	route := &layer4.Route{MatcherSetsRaw: []caddy.ModuleMap{{name: cfg}}, HandlersRaw: []json.RawMessage{hj}}
	routes := layer4.RouteList{route}
	if err := routes.Provision(ctx); err != nil {
		return "", err
	}
	vrecMu.Lock()
	delete(vrecData, rid)
	vrecMu.Unlock()
	sc := &sconn{chunks: chunks}
	if c.addr != "" {
		a := &net.TCPAddr{IP: net.ParseIP(c.addr), Port: 1234}
		if c.addrRemote {
			sc.remote = a
		} else {
			sc.local = a
		}
	}
	fell := false
	h := routes.Compile(zap.NewNop(), time.Hour, layer4.HandlerFunc(func(*layer4.Connection) error { fell = true; return nil }))
	cx := layer4.WrapConnection(sc, make([]byte, 0, 2048), zap.NewNop())
	if c.wrapTime > 0 {
		repl := cx.Context.Value(layer4.ReplacerCtxKey).(*caddy.Replacer)
		repl.Set("l4.conn.wrap_time", time.Date(2024, 5, 17, 0, 0, 0, 0, time.UTC).AddDate(0, 0, c.wrapDay).Add(time.Duration(c.wrapTime-1)*time.Second))
	}
	var perr any
	func() {
		defer func() { perr = recover() }()
		_ = h.Handle(cx)
	}()
	if perr != nil {
		return "panic", nil
	}
	vrecMu.Lock()
	_, ran = vrecData[rid]
	delete(vrecData, rid)
	vrecMu.Unlock()
	switch {
	case ran:
		return "yes", nil
	case fell:
		return "no", nil
	}
	return "dropped", nil
}

// setVerdict evaluates two matchers in one matcher set on the same bytes
func setVerdict(a, b mcase, p []byte) string {
	sc := &sconn{}
	cx := layer4.WrapConnection(sc, append([]byte(nil), p...), zap.NewNop())
	v := ""
	func() {
		defer func() {
			if recover() != nil {
				v = "panic"
			}
		}()
		ok, err := layer4.MatcherSet{a.m, b.m}.Match(cx)
		switch {
		case errors.Is(err, layer4.ErrConsumedAllPrefetchedBytes):
			v = "more"
		case err != nil:
			v = "fail"
		case ok:
			v = "yes"
		default:
			v = "no"
		}
	}()
	if sc.reads != 0 {
		return "socket-read"
	}
	return v
}

// runMatchStream drives the generators; stream `name`; model=true cases are also sent to the Lean driver
func runMatchStream(t *testing.T, name string, gens []mgen, seedMul uint64, def int) {
	vreg()
	out := vopen(t, name)
	defer out.close()
	ctx, cancel := caddy.NewContext(caddy.Context{Context: context.Background()})
	defer cancel()
	r := &vrng{vseed()*seedMul + 11}
	n := vcount(def)
	stats := map[string]int{}
	idx := 0
	for idx < n {
		mc0 := mutCount
		c := gens[r.intn(len(gens))](r, ctx)
		c.mutated = mutCount != mc0
		lens := prefixLens(r, len(c.msg))
		whole, _, _ := oneMatch(c, c.msg)
		if c.expect != "" && !c.mutated {
			stats["expectations checked"]++
			if whole != c.expect {
				out.fail(idx, "spec-mismatch:"+c.name, fmt.Sprintf("%s matcher answers %s on a complete message for which the wire definition and the configured filters prescribe %s (cfg %q, message %s)", c.name, whole, c.expect, c.cfg, vdigest(c.msg)))
			}
		}
		if whole == "yes" && !c.udp && c.cfgFn == nil && len(c.msg) > 1 && len(c.msg) <= layer4.MaxMatchingBytes {
			// the same message delivered in two or three fragments through the router must still match
			tries := 3
			if len(c.msg) <= 160 {
				tries = len(c.msg) - 1 // every two-way split of a short message
			}
			for t := 0; t < tries; t++ {
				k := 1 + r.intn(len(c.msg)-1)
				if tries > 3 {
					k = t + 1
				}
				chunks := [][]byte{c.msg[:k], c.msg[k:]}
				if tries == 3 && t == 2 && k > 1 {
					j := 1 + r.intn(k-1)
					chunks = [][]byte{c.msg[:j], c.msg[j:k], c.msg[k:]}
				}
				rv, err := routedVerdict(ctx, c, chunks)
				stats["routed:"+c.name+":"+rv]++
				if err != nil {
					stats["routed-error:"+c.name+":"+err.Error()]++
				}
				if err == nil && rv != "yes" {
					tag := c.name
					if c.name == "winbox" && c.msg[0] == 0xff {
						tag = "winbox:second-chunk-incomplete"
					}
					out.fail(idx, "fragment-rejected:"+tag, fmt.Sprintf("%s matcher matches the whole %d-byte message but the router answers %q when it arrives split at %d", c.name, len(c.msg), rv, k))
					break
				}
			}
		}
		if !c.udp && c.cfgFn == nil && r.intn(8) == 0 {
			// two byte-reading matchers in one set must each see the same bytes: the set is their conjunction
			d := gens[r.intn(len(gens))](r, ctx)
			if !d.udp && d.cfgFn == nil && d.addr == "" && c.addr == "" && d.wrapTime == 0 && c.wrapTime == 0 {
				v1, _, _ := oneMatch(c, c.msg)
				v2, _, _ := oneMatch(d, c.msg)
				want := v1
				if v1 == "yes" {
					want = v2
				}
				if got := setVerdict(c, d, c.msg); got != want && v1 != "panic" && v2 != "panic" {
					out.fail(idx, "set-not-conjunction", fmt.Sprintf("matcher set {%s, %s} answers %s; alone they answer %s and %s on the same bytes", c.name, d.name, got, v1, v2))
				}
				stats["sets evaluated"]++
			}
		}
		sawNo := -1
		sawNoTag := false
		for _, l := range lens {
			p := c.msg[:l]
			cfg := c.cfg
			if c.cfgFn != nil {
				cfg = c.cfgFn(p)
			}
			line := "match " + c.name
			if cfg != "" {
				line += " " + cfg
			}
			tr := "tcp"
			if c.udp {
				tr = "udp"
			}
			fmt.Fprintf(out.cases, "%s %s %s\n", line, tr, vhex(p))
			out.cases.Flush()
			// known-finding granularity: the WinBox two-chunk case is named separately
			tag := c.name
			if c.name == "winbox" && len(c.msg) > 0 && c.msg[0] == 0xff && l >= 257 {
				tag = "winbox:second-chunk-incomplete"
			}
			v, reads, alloc := oneMatch(c, p)
			v2, _, _ := oneMatch(c, p)
			fmt.Fprintln(out.out, v)
			stats[c.name+":"+v]++
			switch {
			case v == "panic":
				out.fail(idx, "panic:"+c.name, fmt.Sprintf("%s matcher panics on a %d-byte input", c.name, l))
			case alloc > allocBound:
				out.fail(idx, "alloc:"+c.name, fmt.Sprintf("%s matcher allocated %d bytes for a %d-byte input (bound %d)", c.name, alloc, l, allocBound))
			case reads != 0:
				out.fail(idx, "socket-read:"+c.name, fmt.Sprintf("%s matcher read from the socket during Match", c.name))
			case v2 != v:
				out.fail(idx, "nondeterministic:"+c.name, fmt.Sprintf("%s matcher answered %s then %s on the same bytes", c.name, v, v2))
			case !c.udp && sawNo >= 0 && v != "no":
				if sawNoTag {
					tag = "winbox:second-chunk-incomplete"
				}
				out.fail(idx, "no-not-stable:"+tag, fmt.Sprintf("%s matcher answered no on a %d-byte prefix and %s on the %d-byte prefix", c.name, sawNo, v, l))
			case !c.udp && whole == "yes" && (v == "no" || (v == "fail" && l < layer4.MaxMatchingBytes)) && l < len(c.msg):
				out.fail(idx, "fragment-rejected:"+tag, fmt.Sprintf("%s matcher matches the whole %d-byte message but rejects its %d-byte prefix", c.name, len(c.msg), l))
			}
			if v == "no" && sawNo < 0 {
				sawNo = l
				if tag != c.name {
					sawNoTag = true
				}
			}
			idx++
		}
	}
	out.stats(stats)
}

func TestVerifMatch(t *testing.T) {
	runMatchStream(t, "match", mgens, 2654435761, 20000)
}

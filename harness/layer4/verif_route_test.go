package layer4

import (
	"bytes"
	"fmt"
	"io"
	"strings"
	"testing"
	"time"

	"go.uber.org/zap"
)

// ---- harness matchers and handlers ----

// vm reads `need` bytes with io.ReadFull and then answers according to kind
type vm struct {
	need, kind int
	b          byte
}

func (m *vm) Match(cx *Connection) (bool, error) {
	buf := make([]byte, m.need)
	if _, err := io.ReadFull(cx, buf); err != nil {
		return false, err
	}
	switch m.kind {
	case 0:
		return true, nil
	case 1:
		return false, nil
	case 3:
		return false, fmt.Errorf("matcher failure")
	}
	return m.need > 0 && buf[0] == m.b, nil
}

// ---- structured trace ----

type vev struct {
	kind  string // run | read | term | fall | fallback | error
	path  string
	avail []byte
}
type vtrace struct {
	ev []vev
	sc *sconn
}

func (t *vtrace) add(kind, path string, b []byte) {
	t.ev = append(t.ev, vev{kind, path, append([]byte(nil), b...)})
}
func (t *vtrace) String() string {
	var out []string
	for _, e := range t.ev {
		switch e.kind {
		case "run", "read":
			out = append(out, fmt.Sprintf("%s %s %s", e.kind, e.path, vdigest(e.avail)))
		case "fall":
			out = append(out, fmt.Sprintf("fall %s %s", e.path, vdigest(e.avail)))
		case "fallback":
			out = append(out, "fallback "+vdigest(e.avail))
		case "error":
			out = append(out, "error")
		}
	}
	return strings.Join(out, " / ")
}

// vrun records that the handlers of a route were entered and on which bytes
func vrun(tr *vtrace, path string) Middleware {
	return wrapHandler(NextHandlerFunc(func(cx *Connection, next Handler) error {
		tr.add("run", path, cx.MatchingBytes())
		return next.Handle(cx)
	}))
}

// vh consumes `cons` bytes; terminal handlers do not call next
func vh(tr *vtrace, path string, cons int, term bool) Middleware {
	return wrapHandler(NextHandlerFunc(func(cx *Connection, next Handler) error {
		if cons > 0 {
			buf := make([]byte, cons)
			if tr.sc != nil {
				tr.sc.inHandler = true
			}
			n, _ := io.ReadFull(cx, buf)
			if tr.sc != nil {
				tr.sc.inHandler = false
			}
			tr.add("read", path, buf[:n])
		}
		if term {
			tr.add("term", path, nil)
			return nil
		}
		return next.Handle(cx)
	}))
}
func verr(tr *vtrace, path string) Middleware {
	return wrapHandler(NextHandlerFunc(func(cx *Connection, next Handler) error {
		tr.add("term", path, nil)
		return fmt.Errorf("handler failure")
	}))
}

// vsub is the subroute handler (modules/l4subroute Handle) re-stated in-package
func vsub(tr *vtrace, path string, routes RouteList) Middleware {
	return wrapHandler(NextHandlerFunc(func(cx *Connection, next Handler) error {
		tr.add("enter", path, nil)
		err := routes.Compile(zap.NewNop(), time.Hour, HandlerFunc(func(cx *Connection) error {
			tr.add("fall", path, cx.MatchingBytes())
			return next.Handle(cx)
		})).Handle(cx)
		tr.add("leave", path, cx.MatchingBytes())
		return err
	}))
}

// ---- specification side: the structure of the generated route list and a reference evaluator ----

type mspec struct {
	not            bool
	sets           [][]mspec // for not
	need, kind, b int
}
type rspec struct {
	sets [][]mspec
	subs map[int][]rspec // handler index -> nested routes
}

const (
	vYes = iota
	vNo
	vMore
	vFail
)

// reference verdicts on the bytes available for matching: a matcher set is the AND of its matchers, sets are OR'ed,
// no sets = match all, `not` negates; evaluation is left to right and an undecided / failing element ends it
func (m mspec) ref(a []byte) int {
	if m.not {
		for _, s := range m.sets {
			switch refSet(s, a) {
			case vYes:
				return vNo
			case vMore:
				return vMore
			case vFail:
				return vFail
			}
		}
		return vYes
	}
	if len(a) < m.need {
		return vMore
	}
	switch m.kind {
	case 0:
		return vYes
	case 1:
		return vNo
	case 3:
		return vFail
	}
	if m.need > 0 && int(a[0]) == m.b {
		return vYes
	}
	return vNo
}
func refSet(s []mspec, a []byte) int {
	for _, m := range s {
		if v := m.ref(a); v != vYes {
			return v
		}
	}
	return vYes
}
func refAny(sets [][]mspec, a []byte) int {
	if len(sets) == 0 {
		return vYes
	}
	for _, s := range sets {
		if v := refSet(s, a); v != vNo {
			return v
		}
	}
	return vNo
}

// ---- random structure generation; writes the case tokens while building the real routes ----

type rgen struct {
	r   *vrng
	tr  *vtrace
	tok []string
}

func (g *rgen) emit(format string, a ...any) { g.tok = append(g.tok, fmt.Sprintf(format, a...)) }

func (g *rgen) matcher(depth int) (ConnMatcher, mspec) {
	if depth < 2 && g.r.intn(7) == 0 {
		n := 1 + g.r.intn(2)
		g.emit("not %d", n)
		not := &MatchNot{}
		sp := mspec{not: true}
		for i := 0; i < n; i++ {
			ms, ss := g.set(depth + 1)
			not.MatcherSets = append(not.MatcherSets, ms)
			sp.sets = append(sp.sets, ss)
		}
		return not, sp
	}
	need := g.r.pick(0, 1, 1, 2, 3, 5, 9, 2049, 4000, 8192, 8193)
	kind := g.r.pick(0, 1, 2, 2, 2, 2, 3)
	if kind == 3 && g.r.intn(3) != 0 {
		kind = 2
	}
	b := byte(g.r.intn(3))
	g.emit("m %d %d %d", need, kind, b)
	return &vm{need, kind, b}, mspec{need: need, kind: kind, b: int(b)}
}

func (g *rgen) set(depth int) (MatcherSet, []mspec) {
	n := g.r.pick(0, 1, 1, 1, 1, 2, 2, 3)
	g.emit("%d", n)
	var ms MatcherSet
	var sp []mspec
	for i := 0; i < n; i++ {
		m, s := g.matcher(depth)
		ms = append(ms, m)
		sp = append(sp, s)
	}
	return ms, sp
}

func (g *rgen) routes(path string, depth int) (RouteList, []rspec) {
	n := g.r.pick(0, 1, 1, 2, 2, 3, 3, 4, 5)
	if depth > 0 {
		n = g.r.pick(0, 1, 2, 2, 3)
	}
	g.emit("%d", n)
	var rl RouteList
	var specs []rspec
	for i := 0; i < n; i++ {
		p := fmt.Sprintf("%s%d", path, i)
		r := &Route{}
		sp := rspec{subs: map[int][]rspec{}}
		ns := g.r.pick(0, 1, 1, 1, 1, 2, 2, 3)
		g.emit("%d", ns)
		for j := 0; j < ns; j++ {
			ms, ss := g.set(0)
			r.matcherSets = append(r.matcherSets, ms)
			sp.sets = append(sp.sets, ss)
		}
		nh := g.r.pick(0, 1, 1, 1, 2, 2, 3)
		g.emit("%d", nh)
		r.middleware = append(r.middleware, vrun(g.tr, p))
		hasSub := false
		for j := 0; j < nh; j++ {
			switch k := g.r.intn(12); {
			case k == 0:
				g.emit("e")
				r.middleware = append(r.middleware, verr(g.tr, p))
			case k <= 2 && depth < 2 && !hasSub:
				hasSub = true
				g.emit("s")
				sub, ss := g.routes(p+".", depth+1)
				sp.subs[j] = ss
				r.middleware = append(r.middleware, vsub(g.tr, p, sub))
			default:
				cons := g.r.pick(0, 0, 1, 1, 2, 4, 7, 3000, 9000)
				term := g.r.intn(4) == 0
				t := 0
				if term {
					t = 1
				}
				g.emit("h %d %d", cons, t)
				r.middleware = append(r.middleware, vh(g.tr, p, cons, term))
			}
		}
		rl = append(rl, r)
		specs = append(specs, sp)
	}
	return rl, specs
}

func (g *rgen) chunks() [][]byte {
	n := g.r.pick(0, 1, 1, 2, 2, 3, 4, 5, 6)
	g.emit("%d", n)
	var cs [][]byte
	for i := 0; i < n; i++ {
		l := g.r.pick(0, 1, 1, 2, 3, 4, 7, 9, 2047, 2048, 2049, 2500, 5000, 8192, 10000)
		c := g.r.bytes(l, 3)
		cs = append(cs, c)
		if l > 64 {
			// long chunks are sent as a generator descriptor
			seed := g.r.next()
			rr := &vrng{seed}
			c = rr.bytes(l, 3)
			cs[len(cs)-1] = c
			g.emit("g:%d:%d", seed, l)
		} else {
			g.emit("%s", vhex(c))
		}
	}
	return cs
}

// levelRoutes finds the route specs of the level whose events carry the given parent path ("" = top level)
func levelOf(path string) (parent string, idx int) {
	k := strings.LastIndex(path, ".")
	fmt.Sscanf(path[k+1:], "%d", &idx)
	if k < 0 {
		return "", idx
	}
	return path[:k], idx
}

func specsAt(top []rspec, parent string) []rspec {
	if parent == "" {
		return top
	}
	cur := top
	parts := strings.Split(parent, ".")
	for _, p := range parts {
		var i int
		fmt.Sscanf(p, "%d", &i)
		if i >= len(cur) {
			return nil
		}
		// a route has at most one subroute handler reached per run; merge all of them (paths are unique per handler
		// position only when one subroute exists; with several, the first whose length fits is used)
		var next []rspec
		for j := 0; j < 8; j++ {
			if s, ok := cur[i].subs[j]; ok {
				next = s
				break
			}
		}
		cur = next
	}
	return cur
}

// C02 (and the stream part of C01) evaluated on the implementation's trace, independently of the model
func vRouteOracle(top []rspec, tr *vtrace, stream []byte, multiSub bool) (sig, desc string) {
	lastRun := map[string]int{} // per level: index of the last route run (+1)
	consumed := 0
	ended := false
	var active []string // levels entered and not yet left by fall-through
	for k, e := range tr.ev {
		if e.kind == "enter" {
			active = append(active, e.path)
			continue
		}
		if e.kind == "leave" {
			if !ended && len(active) > 0 && active[len(active)-1] == e.path {
				// the nested router returned without terminal handler, error or fall-through: matching was abandoned
				if sig, desc := vAbortOracle(specsAt(top, e.path), lastRun[e.path], e.avail, e.path); sig != "" {
					return sig, desc
				}
				ended = true
			}
			continue
		}
		if ended && e.kind != "error" {
			return "event-after-terminal", fmt.Sprintf("event %d (%s %s) after a terminal handler / fallback", k, e.kind, e.path)
		}
		switch e.kind {
		case "run":
			parent, idx := levelOf(e.path)
			if idx+1 <= lastRun[parent] {
				return "order", fmt.Sprintf("route %s ran after route index %d of the same level", e.path, lastRun[parent]-1)
			}
			if !bytes.HasPrefix(stream[min(consumed, len(stream)):], e.avail) {
				return "stream", fmt.Sprintf("route %s sees bytes that are not the client's stream at offset %d", e.path, consumed)
			}
			if !multiSub {
				specs := specsAt(top, parent)
				if idx < len(specs) {
					if v := refAny(specs[idx].sets, e.avail); v != vYes {
						return "ran-unmatched", fmt.Sprintf("route %s ran although its matcher sets do not match the %d bytes received", e.path, len(e.avail))
					}
					for i := lastRun[parent]; i < idx; i++ {
						if refAny(specs[i].sets, e.avail) == vYes {
							return "passed-over", fmt.Sprintf("route %s ran although earlier route %d of the level matches the same bytes", e.path, i)
						}
					}
				}
			}
			lastRun[parent] = idx + 1
		case "read":
			if !bytes.HasPrefix(stream[min(consumed, len(stream)):], e.avail) {
				return "stream", fmt.Sprintf("handler of route %s read bytes that are not the client's stream at offset %d", e.path, consumed)
			}
			consumed += len(e.avail)
		case "term":
			ended = true
		case "fall", "fallback":
			parent := e.path
			if e.kind == "fallback" {
				parent = ""
				ended = true
			}
			if !bytes.HasPrefix(stream[min(consumed, len(stream)):], e.avail) {
				return "stream", fmt.Sprintf("fallback of level %q sees bytes that are not the client's stream at offset %d", parent, consumed)
			}
			if !multiSub {
				specs := specsAt(top, parent)
				for i := lastRun[parent]; i < len(specs); i++ {
					if v := refAny(specs[i].sets, e.avail); v != vNo {
						return "fallback-undecided", fmt.Sprintf("fallback of level %q ran although route %d is not decided as not matching (verdict %d) on the %d bytes received", parent, i, v, len(e.avail))
					}
				}
			}
			lastRun[parent] = 1 << 30
			if e.kind == "fall" && len(active) > 0 && active[len(active)-1] == e.path {
				active = active[:len(active)-1]
			}
		}
	}
	nfb := 0
	for _, e := range tr.ev {
		if e.kind == "fallback" {
			nfb++
		}
	}
	if nfb > 1 {
		return "fallback-twice", "the fallback ran more than once"
	}
	return "", ""
}

// matching may be abandoned (timeout, buffer full, end of stream) only while some route is undecided and no remaining
// route is decided as matching on the bytes received
func vAbortOracle(specs []rspec, from int, avail []byte, level string) (sig, desc string) {
	// the router stops at the first undecided route of a pass to fetch more data, so only the first route that is not
	// decided as "no" has to justify waiting: it must be undecided (or failing), not matching
	for i := from; i < len(specs); i++ {
		switch refAny(specs[i].sets, avail) {
		case vYes:
			return "dropped-though-matched", fmt.Sprintf("matching at level %q was abandoned although route %d is the first route not decided as not matching and it matches the %d bytes received", level, i, len(avail))
		case vMore, vFail:
			return "", ""
		}
	}
	return "dropped-though-decided", fmt.Sprintf("matching at level %q was abandoned although every remaining route is decided on the %d bytes received", level, len(avail))
}

func hasMultiSub(specs []rspec) bool {
	for _, r := range specs {
		if len(r.subs) > 1 {
			return true
		}
		for _, s := range r.subs {
			if hasMultiSub(s) {
				return true
			}
		}
	}
	return false
}

func vRouteCase(r *vrng) (caseLine string, trace string, sig, desc string) {
	tr := &vtrace{}
	g := &rgen{r: r, tr: tr}
	capv := r.pick(0, 2048)
	g.emit("route %d", capv)
	routes, specs := g.routes("", 0)
	chunks := g.chunks()
	var stream []byte
	for _, c := range chunks {
		stream = append(stream, c...)
	}
	sc := &sconn{chunks: chunks}
	// one script in four ends with the end of the stream; half of those deliver it together with the last bytes
	switch r.intn(8) {
	case 0:
		sc.eof = true
		g.emit("L0")
	case 1:
		sc.eof, sc.eofWithLast = true, true
		g.emit("L1")
	default:
		g.emit("L0")
	}
	tr.sc = sc
	h := routes.Compile(zap.NewNop(), time.Hour, HandlerFunc(func(cx *Connection) error {
		tr.add("fallback", "", cx.MatchingBytes())
		return nil
	}))
	cx := WrapConnection(sc, make([]byte, 0, capv), zap.NewNop())
	tr.add("enter", "", nil)
	if err := h.Handle(cx); err != nil {
		tr.add("error", "", nil)
	}
	tr.add("leave", "", cx.MatchingBytes())
	sig, desc = vRouteOracle(specs, tr, stream, hasMultiSub(specs))
	if sig == "" {
		// C05: matching reads happen under the matching deadline, handler reads without it
		for k, t := range sc.readLog {
			switch t {
			case "P0":
				sig, desc = "prefetch-without-deadline", fmt.Sprintf("socket read %d of the matching phase happened with no read deadline set (%v)", k, sc.readLog)
			case "H1":
				sig, desc = "handler-read-under-deadline", fmt.Sprintf("socket read %d made by a handler after its route matched still had the matching deadline set (%v)", k, sc.readLog)
			}
			if sig != "" {
				break
			}
		}
	}
	return strings.Join(g.tok, " "), tr.String(), sig, desc
}

func TestVerifRoute(t *testing.T) {
	out := vopen(t, "route")
	defer out.close()
	r := &vrng{vseed()*7919 + 17}
	n := vcount(3000)
	stats := map[string]int{}
	for c := 0; c < n; c++ {
		cl, tr, sig, desc := vRouteCase(r)
		fmt.Fprintln(out.cases, cl)
		fmt.Fprintln(out.out, tr)
		if sig != "" {
			out.fail(c, sig, desc)
		}
		for _, k := range []string{"run ", "read ", "fall ", "fallback", "error"} {
			if strings.Contains(tr, k) {
				stats["traces with "+strings.TrimSpace(k)]++
			}
		}
		if tr == "" {
			stats["empty traces (abort / no route)"]++
		}
	}
	out.stats(stats)
}

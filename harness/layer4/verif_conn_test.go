package layer4

import (
	"bufio"
	"bytes"
	"errors"
	"fmt"
	"io"
	"net"
	"strings"
	"testing"

	"go.uber.org/zap"
)

// wrappers placed between an old Connection and the new one returned by Wrap

type vpassConn struct{ net.Conn }

type vbufioConn struct {
	net.Conn
	r *bufio.Reader
}

func (c *vbufioConn) Read(p []byte) (int, error) { return c.r.Read(p) }

type vlimitConn struct {
	net.Conn
	batch int
}

func (c *vlimitConn) Read(p []byte) (int, error) {
	if len(p) > c.batch {
		p = p[:c.batch]
	}
	return c.Conn.Read(p)
}

type vteeConn struct {
	net.Conn
	r   io.Reader
	log *bytes.Buffer
}

func (c *vteeConn) Read(p []byte) (int, error) { return c.r.Read(p) }

// one op-sequence case against the real Connection; returns the case line, the output line and an oracle verdict
func vConnCase(r *vrng) (string, string, string, string) {
	var tok, out []string
	emit := func(f string, a ...any) { tok = append(tok, fmt.Sprintf(f, a...)) }
	res := func(f string, a ...any) { out = append(out, fmt.Sprintf(f, a...)) }
	nch := r.pick(0, 1, 2, 3, 4, 6, 8)
	emit("conn %d", nch)
	var chunks [][]byte
	var stream []byte
	for i := 0; i < nch; i++ {
		l := r.pick(1, 1, 2, 3, 5, 8, 100, 2047, 2048, 2049, 4096, 5000, 9000)
		seed := r.next()
		c := (&vrng{seed}).bytes(l, 251)
		emit("G:%d:%d", seed, l)
		chunks = append(chunks, c)
		stream = append(stream, c...)
	}
	// one case in three ends with the end of the stream, half of those deliver it together with the last bytes
	sc := &sconn{chunks: chunks}
	switch r.intn(6) {
	case 0:
		sc.eof = true
		emit("L0")
	case 1:
		sc.eof, sc.eofWithLast = true, true
		emit("L1")
	default:
		emit("L0")
	}
	capv := r.pick(0, 2048)
	cx := WrapConnection(sc, make([]byte, 0, capv), zap.NewNop())
	nops := 1 + r.intn(14)
	emit("%d", nops)
	var delivered []byte // bytes handed out by reads outside matching mode, in order
	var tees []*bytes.Buffer
	sig, desc := "", ""
	fail := func(s, d string) {
		if sig == "" {
			sig, desc = s, d
		}
	}
	rd := func(n int, matching bool, phase *int) {
		p := make([]byte, n)
		k, err := cx.Read(p)
		cls := "n"
		if errors.Is(err, ErrConsumedAllPrefetchedBytes) {
			cls = "c"
		} else if err != nil {
			cls = "e"
		}
		if n == 0 {
			// a zero-length read moves no byte; whether it already reports a stored end-of-stream (bufio does once it has seen
			// one together with data) is not part of the stream's content and is not compared
			cls = "z"
		}
		res("rd:%s:%s", vdigest(p[:k]), cls)
		if matching {
			want := stream[min(len(delivered)+*phase, len(stream)):]
			if !bytes.HasPrefix(want, p[:k]) {
				fail("matching-read", fmt.Sprintf("a read in matching mode returned bytes that are not the client's stream at offset %d", len(delivered)+*phase))
			}
			*phase += k
		} else {
			want := stream[min(len(delivered), len(stream)):]
			if !bytes.HasPrefix(want, p[:k]) {
				fail("stream", fmt.Sprintf("a read returned bytes that are not the client's stream at offset %d (lost, duplicated or reordered)", len(delivered)))
			}
			delivered = append(delivered, p[:k]...)
		}
	}
	for i := 0; i < nops; i++ {
		switch k := r.intn(10); {
		case k <= 2:
			n := r.pick(0, 1, 2, 3, 7, 100, 2048, 4096, 5000, 10000)
			emit("rd %d", n)
			rd(n, false, nil)
		case k <= 4:
			emit("pf")
			reads0 := sc.reads
			err := cx.prefetch()
			switch {
			case err == nil:
				res("pf:ok")
			case errors.Is(err, ErrMatchingBufferFull):
				res("pf:full")
				if sc.reads != reads0 {
					fail("prefetch-full-read", "prefetch read from the socket although it reported a full buffer")
				}
			default:
				res("pf:err")
			}
			if len(cx.buf) >= MaxMatchingBytes+prefetchChunkSize {
				fail("buffer-bound", fmt.Sprintf("matching buffer grew to %d bytes", len(cx.buf)))
			}
		case k <= 7:
			// a matcher: freeze, some reads in matching mode, unfreeze; the socket must not be touched
			m := 1 + r.intn(3)
			emit("fz")
			res("fz")
			cx.freeze()
			reads0, phase := sc.reads, 0
			for j := 0; j < m; j++ {
				n := r.pick(0, 1, 2, 4, 9, 100, 3000, 9000)
				emit("rd %d", n)
				rd(n, true, &phase)
			}
			emit("mb")
			res("mb:%s", vdigest(cx.MatchingBytes()))
			emit("uf")
			res("uf")
			cx.unfreeze()
			if sc.reads != reads0 {
				fail("matching-socket-read", "a read in matching mode reached the socket")
			}
			i += m + 2
		case k == 8:
			emit("mb")
			res("mb:%s", vdigest(cx.MatchingBytes()))
		default:
			kind := r.intn(4)
			switch kind {
			case 0:
				emit("wr 0 0")
				cx = cx.Wrap(&vpassConn{cx})
			case 1:
				sz := r.pick(16, 64, 4096)
				emit("wr 1 %d", sz)
				cx = cx.Wrap(&vbufioConn{cx, bufio.NewReaderSize(cx, sz)})
			case 2:
				b := r.pick(1, 3, 100, 4096)
				emit("wr 2 %d", b)
				cx = cx.Wrap(&vlimitConn{cx, b})
			case 3:
				emit("wr 3 0")
				log := &bytes.Buffer{}
				tees = append(tees, log)
				cx = cx.Wrap(&vteeConn{cx, io.TeeReader(cx, log), log})
			}
			res("wr")
		}
	}
	// drain: everything still in flight must come out in order
	emit("drain")
	for k := 0; k < 400000; k++ {
		p := make([]byte, 4096)
		n, err := cx.Read(p)
		want := stream[min(len(delivered), len(stream)):]
		if !bytes.HasPrefix(want, p[:n]) {
			fail("stream", fmt.Sprintf("draining returned bytes that are not the client's stream at offset %d", len(delivered)))
		}
		delivered = append(delivered, p[:n]...)
		if err != nil {
			break
		}
	}
	res("drain:%s", vdigest(delivered))
	if !bytes.Equal(delivered, stream) {
		fail("stream", fmt.Sprintf("the reader received %d bytes of a %d byte stream or different bytes", len(delivered), len(stream)))
	}
	for ti, tb := range tees {
		// a tee branch sees exactly the bytes read through it, which are a contiguous part of the stream
		if !bytes.Contains(stream, tb.Bytes()) {
			fail("tee-stream", fmt.Sprintf("tee branch %d saw bytes that are not a contiguous part of the client's stream", ti))
		}
		res("tee:%s", vdigest(tb.Bytes()))
	}
	return strings.Join(tok, " "), strings.Join(out, " "), sig, desc
}

func TestVerifConn(t *testing.T) {
	out := vopen(t, "conn")
	defer out.close()
	r := &vrng{vseed()*104729 + 5}
	n := vcount(3000)
	stats := map[string]int{}
	for c := 0; c < n; c++ {
		cl, o, sig, desc := vConnCase(r)
		fmt.Fprintln(out.cases, cl)
		fmt.Fprintln(out.out, o)
		if sig != "" {
			out.fail(c, sig, desc)
		}
		for _, k := range []string{"rd:", "pf:ok", "pf:full", "pf:err", "fz", "wr", ":c", "tee:"} {
			if strings.Contains(o, k) {
				stats["cases with "+k]++
			}
		}
	}
	out.stats(stats)
}

package layer4

// C05: timed scenarios on a scripted connection with real read deadlines (TCP-like) and on the real UDP packetConn.

import (
	"fmt"
	"io"
	"net"
	"os"
	"sort"
	"sync"
	"sync/atomic"
	"testing"
	"time"

	"go.uber.org/zap"
)

type tarr struct {
	at   time.Duration
	data []byte
}

// tconn delivers scripted arrivals at their times and honours SetReadDeadline like a socket
type tconn struct {
	mu        sync.Mutex
	start     time.Time
	arr       []tarr
	deadline  time.Time
	pulled    int
	inHandler atomic.Bool
	handlerReadArmed bool
	deadlines []time.Time
}

func (c *tconn) Read(p []byte) (int, error) {
	for {
		c.mu.Lock()
		dl := c.deadline
		if c.inHandler.Load() && !dl.IsZero() {
			c.handlerReadArmed = true
		}
		now := time.Since(c.start)
		if len(c.arr) > 0 && c.arr[0].at <= now {
			a := &c.arr[0]
			n := copy(p, a.data)
			if n == len(a.data) {
				c.arr = c.arr[1:]
			} else {
				a.data = a.data[n:]
			}
			c.pulled += n
			c.mu.Unlock()
			return n, nil
		}
		var wait time.Duration = 3 * time.Second // nothing more will arrive: block "for ever"
		final := true
		if len(c.arr) > 0 {
			wait = c.arr[0].at - now
			final = false
		}
		if !dl.IsZero() {
			if d := time.Until(dl); d < wait {
				c.mu.Unlock()
				if d > 0 {
					time.Sleep(d)
				}
				return 0, os.ErrDeadlineExceeded
			}
		}
		c.mu.Unlock()
		time.Sleep(wait)
		if final {
			return 0, io.EOF
		}
	}
}
func (c *tconn) Write(p []byte) (int, error) { return len(p), nil }
func (c *tconn) Close() error                { return nil }
func (c *tconn) SetReadDeadline(t time.Time) error {
	c.mu.Lock()
	c.deadline = t
	if !t.IsZero() {
		c.deadlines = append(c.deadlines, t)
	}
	c.mu.Unlock()
	return nil
}
func (c *tconn) SetWriteDeadline(time.Time) error { return nil }
func (c *tconn) SetDeadline(time.Time) error      { return nil }
func (c *tconn) RemoteAddr() net.Addr             { return &net.TCPAddr{IP: net.IPv4(127, 0, 0, 1), Port: 40000} }
func (c *tconn) LocalAddr() net.Addr              { return &net.TCPAddr{IP: net.IPv4(127, 0, 0, 1), Port: 443} }

type tresult struct {
	kind, transport string
	T             time.Duration
	elapsed       time.Duration
	runs          []string // handler invocations "i@ms"
	fallback      bool
	pulled        int
	handlerGot    int
	handlerArmed  bool
	err           error
	expectAbort   bool
	expectRun     int // index of the route expected to run (-1 none)
	lateHandler   bool
}

const slack = 300 * time.Millisecond
const early = 8 * time.Millisecond

// one TCP-like scenario
func timedTCP(kind string, T time.Duration, r *vrng) tresult {
	res := tresult{kind: kind, transport: "tcp", T: T, expectRun: -1}
	c := &tconn{}
	var mu sync.Mutex
	tr := &vtrace{}
	mk := func(need int, term bool, cons int, id string) *Route {
		rt := &Route{matcherSets: MatcherSets{MatcherSet{&vm{need, 0, 0}}}}
		rt.middleware = append(rt.middleware, wrapHandler(NextHandlerFunc(func(cx *Connection, next Handler) error {
			mu.Lock()
			res.runs = append(res.runs, fmt.Sprintf("%s@%d", id, time.Since(c.start).Milliseconds()))
			mu.Unlock()
			if cons > 0 {
				c.inHandler.Store(true)
				buf := make([]byte, cons)
				n, _ := io.ReadFull(cx, buf)
				c.inHandler.Store(false)
				res.handlerGot = n
			}
			if term {
				return nil
			}
			return next.Handle(cx)
		})))
		return rt
	}
	_ = tr
	var routes RouteList
	b := func(n int) []byte { return r.bytes(n, 256) }
	switch kind {
	case "silent":
		routes = RouteList{mk(1, true, 0, "0")}
		res.expectAbort = true
	case "late":
		routes = RouteList{mk(1, true, 0, "0")}
		c.arr = []tarr{{T * 6 / 10, b(3)}}
		res.expectRun = 0
	case "trickle":
		routes = RouteList{mk(10, true, 0, "0")}
		for i := 0; i < 12; i++ {
			c.arr = append(c.arr, tarr{T / 4 * time.Duration(i), b(1)})
		}
		// only 4-5 bytes arrive by T: the deadline is absolute, reads do not extend it
		res.expectAbort = true
	case "flood":
		routes = RouteList{mk(100000, true, 0, "0")}
		for i := 0; i < 12; i++ {
			c.arr = append(c.arr, tarr{0, b(2048)})
		}
		res.expectAbort = true
	case "handler-after-match":
		routes = RouteList{mk(1, true, 6, "0")}
		c.arr = []tarr{{0, b(1)}, {T * 3 / 2, b(5)}}
		res.expectRun = 0
		res.lateHandler = true
	case "nonterminal-then-undecided":
		routes = RouteList{mk(1, false, 0, "0"), mk(5, true, 0, "1")}
		c.arr = []tarr{{0, b(1)}}
		res.expectAbort = true
	case "subroute":
		inner := RouteList{mk(3, true, 0, "0.0")}
		outer := &Route{}
		outer.middleware = append(outer.middleware, wrapHandler(NextHandlerFunc(func(cx *Connection, next Handler) error {
			return inner.Compile(zap.NewNop(), T, next).Handle(cx)
		})))
		routes = RouteList{outer}
		res.expectAbort = true
	}
	h := routes.Compile(zap.NewNop(), T, HandlerFunc(func(cx *Connection) error { res.fallback = true; return nil }))
	c.start = time.Now()
	cx := WrapConnection(c, make([]byte, 0, 2048), zap.NewNop())
	res.err = h.Handle(cx)
	res.elapsed = time.Since(c.start)
	res.pulled = c.pulled
	res.handlerArmed = c.handlerReadArmed
	return res
}

// one UDP scenario through the real servePacket / packetConn
func timedUDP(kind string, T time.Duration, r *vrng) tresult {
	res := tresult{kind: kind, transport: "udp", T: T, expectRun: -1}
	var mu sync.Mutex
	var start time.Time
	done := make(chan struct{})
	var once sync.Once
	need := 10
	route := &Route{matcherSets: MatcherSets{MatcherSet{&vm{need, 0, 0}}}}
	route.middleware = append(route.middleware, wrapHandler(NextHandlerFunc(func(cx *Connection, next Handler) error {
		mu.Lock()
		res.runs = append(res.runs, fmt.Sprintf("0@%d", time.Since(start).Milliseconds()))
		mu.Unlock()
		return nil
	})))
	routes := RouteList{route}
	if kind == "udp-nonterminal-read-then-undecided" {
		// route 0 matches the first datagram; its handler waits for one more datagram and passes on; route 1 never decides:
		// matching must still end at the deadline computed when the connection entered the router
		first := &Route{matcherSets: MatcherSets{MatcherSet{&vm{1, 0, 0}}}}
		first.middleware = append(first.middleware, wrapHandler(NextHandlerFunc(func(cx *Connection, next Handler) error {
			mu.Lock()
			res.runs = append(res.runs, fmt.Sprintf("pre@%d", time.Since(start).Milliseconds()))
			mu.Unlock()
			buf := make([]byte, 64)
			cx.Read(buf) // the datagram that matched
			cx.Read(buf) // one more, arriving a little later
			return next.Handle(cx)
		})))
		never := &Route{matcherSets: MatcherSets{MatcherSet{&vm{5000, 0, 0}}}}
		never.middleware = route.middleware
		routes = RouteList{first, never}
	}
	compiled := routes.Compile(zap.NewNop(), T, HandlerFunc(func(cx *Connection) error { res.fallback = true; return nil }))
	pc, err := net.ListenPacket("udp", "127.0.0.1:0")
	if err != nil {
		res.err = err
		return res
	}
	defer pc.Close()
	server := &Server{logger: zap.NewNop()}
	server.compiledRoute = HandlerFunc(func(cx *Connection) error {
		err := compiled.Handle(cx)
		mu.Lock()
		res.elapsed = time.Since(start)
		mu.Unlock()
		once.Do(func() { close(done) })
		return err
	})
	go server.servePacket(pc)
	client, err := net.Dial("udp", pc.LocalAddr().String())
	if err != nil {
		res.err = err
		return res
	}
	defer client.Close()
	// sweep the phase within the wall-clock second
	if ph := time.Duration(r.intn(1000)) * time.Millisecond; true {
		now := time.Now()
		wait := ph - time.Duration(now.Nanosecond())
		if wait < 0 {
			wait += time.Second
		}
		if wait < 400*time.Millisecond {
			time.Sleep(wait)
		}
	}
	start = time.Now()
	switch kind {
	case "udp-silent":
		client.Write(r.bytes(4, 256))
		res.expectAbort = true
	case "udp-late":
		client.Write(r.bytes(4, 256))
		go func() { time.Sleep(T * 6 / 10); client.Write(r.bytes(8, 256)) }()
		res.expectRun = 0
	case "udp-nonterminal-read-then-undecided":
		client.Write(r.bytes(1, 256))
		go func() { time.Sleep(T / 4); client.Write(r.bytes(1, 256)) }()
		res.expectAbort = true
	case "udp-trickle":
		go func() {
			for i := 0; i < 8; i++ {
				client.Write(r.bytes(1, 256))
				time.Sleep(T / 4)
			}
		}()
		res.expectAbort = true
	}
	select {
	case <-done:
	case <-time.After(T + 2*time.Second):
		res.elapsed = T + 2*time.Second
	}
	return res
}

func (res tresult) judge() (sig, desc string) {
	ms := func(d time.Duration) int64 { return d.Milliseconds() }
	id := res.transport + "/" + res.kind
	switch {
	case res.err != nil:
		return "timed-error:" + res.kind, fmt.Sprintf("%s: handler chain returned %v", id, res.err)
	case res.expectAbort && (len(res.runs) > expectedRunsBeforeAbort(res.kind) || res.fallback):
		return "not-failed-closed:" + res.kind, fmt.Sprintf("%s: matching should end by timeout/limit but handlers %v ran / fallback=%v", id, res.runs, res.fallback)
	case res.expectAbort && res.kind == "flood":
		if res.pulled > MaxMatchingBytes+prefetchChunkSize {
			return "buffer-limit", fmt.Sprintf("%s: %d bytes were pulled from the client, limit is %d", id, res.pulled, MaxMatchingBytes+prefetchChunkSize)
		}
		if res.elapsed > res.T+slack {
			return "timeout-late:" + res.kind, fmt.Sprintf("%s: matching ended after %d ms (timeout %d ms)", id, ms(res.elapsed), ms(res.T))
		}
	case res.expectAbort && res.elapsed < res.T-early:
		return "timeout-early:" + res.transport, fmt.Sprintf("%s: matching was abandoned after %d ms although the timeout is %d ms and a route was still undecided", id, ms(res.elapsed), ms(res.T))
	case res.expectAbort && res.elapsed > res.T+slack:
		return "timeout-late:" + res.transport, fmt.Sprintf("%s: matching ended after %d ms (timeout %d ms plus %d ms slack)", id, ms(res.elapsed), ms(res.T), ms(slack))
	case res.expectRun >= 0 && len(res.runs) == 0:
		return "abandoned-early:" + res.transport, fmt.Sprintf("%s: the route never ran although its data arrived before the timeout (elapsed %d ms, timeout %d ms)", id, ms(res.elapsed), ms(res.T))
	case res.lateHandler && res.handlerGot < 6:
		return "handler-limited-by-deadline", fmt.Sprintf("%s: after the route matched, the handler's read at 1.5×timeout got %d of 6 bytes", id, res.handlerGot)
	case res.lateHandler && res.handlerArmed:
		return "handler-read-under-deadline", fmt.Sprintf("%s: a handler read was made with the matching deadline still set", id)
	}
	return "", ""
}

func expectedRunsBeforeAbort(kind string) int {
	if kind == "nonterminal-then-undecided" || kind == "udp-nonterminal-read-then-undecided" {
		return 1
	}
	return 0
}

func TestVerifTimed(t *testing.T) {
	out := vopen(t, "timed")
	defer out.close()
	r := &vrng{vseed()*2750159 + 41}
	n := vcount(36)
	kinds := []string{"silent", "late", "trickle", "flood", "handler-after-match", "nonterminal-then-undecided", "subroute", "udp-silent", "udp-late", "udp-trickle", "udp-nonterminal-read-then-undecided"}
	type job struct {
		idx  int
		kind string
		T    time.Duration
		seed uint64
	}
	var jobs []job
	for i := 0; i < n; i++ {
		jobs = append(jobs, job{i, kinds[i%len(kinds)], time.Duration(r.pick(120, 200, 300, 420)) * time.Millisecond, r.next()})
	}
	results := make([]tresult, n)
	var wg sync.WaitGroup
	sem := make(chan struct{}, 12)
	for _, j := range jobs {
		wg.Add(1)
		sem <- struct{}{}
		go func(j job) {
			defer wg.Done()
			defer func() { <-sem }()
			rr := &vrng{j.seed}
			run := func() tresult {
				if len(j.kind) > 4 && j.kind[:4] == "udp-" {
					return timedUDP(j.kind, j.T, rr)
				}
				return timedTCP(j.kind, j.T, rr)
			}
			res := run()
			// a timing-dependent verdict is only reported if it reproduces three times
			for k := 0; k < 2; k++ {
				if s, _ := res.judge(); s == "" {
					break
				}
				res = run()
			}
			results[j.idx] = res
		}(j)
	}
	wg.Wait()
	stats := map[string]int{}
	for i, res := range results {
		fmt.Fprintf(out.cases, "timed %s %s T=%dms\n", res.transport, res.kind, res.T.Milliseconds())
		sort.Strings(res.runs)
		sig, desc := res.judge()
		if sig != "" {
			out.fail(i, sig, desc)
			fmt.Fprintf(out.out, "FAIL %s %s elapsed=%dms\n", res.kind, sig, res.elapsed.Milliseconds())
		} else {
			fmt.Fprintf(out.out, "ok %s %s T=%d within-window runs=%d pulled<=%d\n", res.transport, res.kind, res.T.Milliseconds(), len(res.runs), (res.pulled+2047)/2048*2048)
		}
		stats[res.transport+"/"+res.kind]++
	}
	out.stats(stats)
}

//go:build verif

package layer4

// Recorder for the synchronisation-point hooks of /repo (build tag verif): the event log of a real execution is handed to the
// Lean trace monitors (`ltrace`, `utrace`), which accept it only if some linearisation of it is a run of the model.

import (
	"fmt"
	"net"
	"strings"
	"sync"
	"sync/atomic"
)

type hookRec struct {
	mu     sync.Mutex
	prefix string
	ev     []string
	conns  map[string]int // listener: remote address → connection number
	addrs  map[string]int // udp: client address → number
	assoc  map[any]int    // udp: *packetConn → association number (creation order)
	owner  any            // listener: only events of this listener are recorded
}

var (
	hookOnce sync.Once
	hookCur  atomic.Pointer[hookRec]
)

func startHookRec(prefix string) *hookRec {
	hookOnce.Do(func() {
		VerifHook = func(point string, obj any) {
			if h := hookCur.Load(); h != nil {
				h.record(point, obj)
			}
		}
	})
	h := &hookRec{prefix: prefix, conns: map[string]int{}, addrs: map[string]int{}, assoc: map[any]int{}}
	hookCur.Store(h)
	return h
}

// listenerComplete: the log of a closed listener is complete when the loop has reported its exit, the waiter has closed the
// channel, and every accepted connection has reported how its handler ended (the reports follow the operations, so they can
// still be on their way when the history itself is over)
func (h *hookRec) listenerComplete() bool {
	h.mu.Lock()
	defer h.mu.Unlock()
	seen := map[string]bool{}
	for _, e := range h.ev {
		seen[e] = true
	}
	if !seen["L"] || !seen["K"] || !seen["X"] {
		return false
	}
	for _, e := range h.ev {
		if e[0] == 'a' && !seen["f"+e[1:]] && !seen["p"+e[1:]] {
			return false
		}
	}
	return true
}

func (h *hookRec) stop() []string {
	hookCur.Store(nil)
	h.mu.Lock()
	defer h.mu.Unlock()
	return append([]string(nil), h.ev...)
}

func num(m map[string]int, k string) int {
	if v, ok := m[k]; ok {
		return v
	}
	m[k] = len(m)
	return m[k]
}

func (h *hookRec) record(point string, obj any) {
	if !strings.HasPrefix(point, h.prefix) {
		return
	}
	h.mu.Lock()
	defer h.mu.Unlock()
	switch point {
	case "l.accept", "l.finish", "l.pipeStart", "l.pipeSend", "l.consume", "l.drain":
		c, _ := obj.(net.Conn)
		if c == nil {
			return
		}
		code := map[string]string{"l.accept": "a", "l.finish": "f", "l.pipeStart": "s", "l.pipeSend": "p", "l.consume": "c", "l.drain": "d"}[point]
		addr := c.RemoteAddr().String()
		if _, known := h.conns[addr]; !known && point != "l.accept" {
			return // a straggler of an earlier history
		}
		h.ev = append(h.ev, fmt.Sprintf("%s%d", code, num(h.conns, addr)))
	case "l.close", "l.loopExit", "l.closeChan":
		if h.owner == nil || obj != h.owner {
			return
		}
		h.ev = append(h.ev, map[string]string{"l.close": "X", "l.loopExit": "L", "l.closeChan": "K"}[point])
	case "u.arrive":
		a, _ := obj.(net.Addr)
		if a == nil {
			return
		}
		h.ev = append(h.ev, fmt.Sprintf("A%d", num(h.addrs, a.String())))
	case "u.new":
		h.assoc[obj] = len(h.assoc)
		h.ev = append(h.ev, fmt.Sprintf("N%d", h.assoc[obj]))
	case "u.enq", "u.loopClose", "u.read", "u.close", "u.idle":
		k, ok := h.assoc[obj]
		if !ok {
			return // a straggler of an earlier history's association
		}
		code := map[string]string{"u.enq": "E", "u.loopClose": "C", "u.read": "R", "u.close": "X", "u.idle": "I"}[point]
		h.ev = append(h.ev, fmt.Sprintf("%s%d", code, k))
	case "u.drop":
		h.ev = append(h.ev, "D")
	}
}

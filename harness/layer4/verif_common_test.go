package layer4

// Verification harness (injected with `go test -overlay`; not part of the repository).

import (
	"bufio"
	"encoding/json"
	"encoding/hex"
	"fmt"
	"hash/fnv"
	"net"
	"os"
	"strconv"
	"sync"
	"testing"
	"time"
)

// ---- deterministic PRNG shared with the Lean driver (splitmix64) ----

type vrng struct{ s uint64 }

func (r *vrng) next() uint64 {
	r.s += 0x9E3779B97F4A7C15
	z := r.s
	z = (z ^ (z >> 30)) * 0xBF58476D1CE4E5B9
	z = (z ^ (z >> 27)) * 0x94D049BB133111EB
	return z ^ (z >> 31)
}
func (r *vrng) intn(n int) int { return int(r.next() % uint64(n)) }
func (r *vrng) pick(xs ...int) int { return xs[r.intn(len(xs))] }
func (r *vrng) bytes(n int, alphabet int) []byte {
	b := make([]byte, n)
	for i := range b {
		b[i] = byte(r.intn(alphabet))
	}
	return b
}

func vseed() uint64 {
	s, _ := strconv.ParseUint(os.Getenv("VERIF_SEED"), 10, 64)
	if s == 0 {
		s = 1
	}
	return s
}
func vcount(def int) int {
	n, _ := strconv.Atoi(os.Getenv("VERIF_N"))
	if n <= 0 {
		n = def
	}
	return n
}

func vhex(b []byte) string {
	if len(b) == 0 {
		return "-"
	}
	return hex.EncodeToString(b)
}

// long byte strings are compared by length and FNV-1a hash
func vdigest(b []byte) string {
	if len(b) <= 48 {
		return vhex(b)
	}
	h := fnv.New32a()
	h.Write(b)
	return fmt.Sprintf("len=%d,fnv=%d", len(b), h.Sum32())
}

type vout struct {
	cases, out, orc *bufio.Writer
	fc, fo, fr      *os.File
	dir, name       string
}

// fail records a violation of the property's own predicate on the implementation: case index, signature, description
func (v *vout) fail(idx int, sig, desc string) {
	fmt.Fprintf(v.orc, "FAIL %d %s | %s\n", idx, sig, desc)
}

func (v *vout) stats(m any) {
	b, _ := json.Marshal(m)
	os.WriteFile(v.dir+"/"+v.name+".stats.json", b, 0o644)
}

func vopen(t *testing.T, name string) *vout {
	dir := os.Getenv("VERIF_OUT")
	if dir == "" {
		t.Skip("VERIF_OUT not set")
	}
	fc, err := os.Create(dir + "/" + name + ".cases")
	if err != nil {
		t.Fatal(err)
	}
	fo, err := os.Create(dir + "/" + name + ".go.out")
	if err != nil {
		t.Fatal(err)
	}
	fr, err := os.Create(dir + "/" + name + ".oracle")
	if err != nil {
		t.Fatal(err)
	}
	return &vout{bufio.NewWriterSize(fc, 1<<20), bufio.NewWriterSize(fo, 1<<20), bufio.NewWriter(fr), fc, fo, fr, dir, name}
}
func (v *vout) close() {
	v.cases.Flush()
	v.out.Flush()
	v.orc.Flush()
	v.fc.Close()
	v.fo.Close()
	v.fr.Close()
}

// ---- scripted connection ----

type sconn struct {
	mu       sync.Mutex
	chunks   [][]byte
	reads    int // number of Read calls that reached the socket
	pulled   int
	closed   bool
	deadline time.Time
	armed    []bool // history of SetReadDeadline calls (true = non-zero)
	remote   net.Addr
	local    net.Addr
	written  []byte
}

func (s *sconn) Read(p []byte) (int, error) {
	s.mu.Lock()
	defer s.mu.Unlock()
	s.reads++
	if len(s.chunks) == 0 {
		return 0, os.ErrDeadlineExceeded
	}
	c := s.chunks[0]
	n := copy(p, c)
	if n == len(c) {
		s.chunks = s.chunks[1:]
	} else {
		s.chunks[0] = c[n:]
	}
	s.pulled += n
	return n, nil
}
func (s *sconn) Write(p []byte) (int, error) { s.written = append(s.written, p...); return len(p), nil }
func (s *sconn) Close() error                { s.closed = true; return nil }
func (s *sconn) SetReadDeadline(t time.Time) error {
	s.deadline = t
	s.armed = append(s.armed, !t.IsZero())
	return nil
}
func (s *sconn) SetWriteDeadline(time.Time) error { return nil }
func (s *sconn) SetDeadline(time.Time) error      { return nil }
func (s *sconn) RemoteAddr() net.Addr {
	if s.remote != nil {
		return s.remote
	}
	return &net.TCPAddr{IP: net.IPv4(127, 0, 0, 1), Port: 40000}
}
func (s *sconn) LocalAddr() net.Addr {
	if s.local != nil {
		return s.local
	}
	return &net.TCPAddr{IP: net.IPv4(127, 0, 0, 1), Port: 443}
}

package layer4

// C09: the real UDP server loop (servePacket / packetConn) over loopback sockets: several clients, bursts beyond the
// channel capacities, handlers that return quickly / close early / read datagrams in pieces.

import (
	"os"
	"bytes"
	"fmt"
	"net"
	"sort"
	"strings"
	"sync"
	"testing"
	"time"

	"go.uber.org/zap"
)

type uassoc struct {
	id       int
	addr     string
	got      []string // datagrams (tags) received, in order
	closedAt time.Time
	endedAt  time.Time
	firstAt  time.Time
	times    []time.Time
}

type uhist struct {
	clients int
	mode    string // echo | quick | closeLinger | partial
	perCl   int
	burst   bool
}

func runUDPHistory(r *vrng, h uhist) (sig, desc, summary string) {
	pc, err := net.ListenPacket("udp", "127.0.0.1:0")
	if err != nil {
		return "", "", "listen failed"
	}
	var mu sync.Mutex
	var assocs []*uassoc
	server := &Server{logger: zap.NewNop()}
	// a route without matchers: the handler below runs for every association, behind the real Compile
	route := &Route{}
	route.middleware = append(route.middleware, wrapHandler(NextHandlerFunc(func(cx *Connection, _ Handler) error {
		mu.Lock()
		a := &uassoc{id: len(assocs), addr: cx.RemoteAddr().String(), firstAt: time.Now()}
		assocs = append(assocs, a)
		mu.Unlock()
		defer func() { mu.Lock(); a.endedAt = time.Now(); mu.Unlock() }()
		buf := make([]byte, 2048)
		small := make([]byte, 5)
		for n := 0; ; n++ {
			var dg []byte
			if h.mode == "partial" {
				// read the datagram in 5-byte pieces (datagrams end with '\n')
				for {
					k, err := cx.Read(small)
					if err != nil {
						return nil
					}
					dg = append(dg, small[:k]...)
					if k > 0 && small[k-1] == '\n' {
						break
					}
				}
			} else {
				k, err := cx.Read(buf)
				if err != nil {
					return nil
				}
				dg = append([]byte(nil), buf[:k]...)
			}
			tag := strings.TrimSpace(string(dg))
			mu.Lock()
			a.got = append(a.got, tag)
			a.times = append(a.times, time.Now())
			mu.Unlock()
			cx.Write([]byte("R:" + tag + "\n"))
			switch h.mode {
			case "quick":
				return nil
			case "closeLinger":
				if n == 1 {
					// the time is taken before Close: a newer association can only be started once Close has marked this one done, so
					// this is a lower bound whatever the scheduler does between the two statements
					mu.Lock()
					a.closedAt = time.Now()
					mu.Unlock()
					cx.Close()
					time.Sleep(40 * time.Millisecond) // still shutting down while new datagrams arrive
					return nil
				}
			case "partial":
				if n == 2 {
					// leave a datagram half read, close explicitly and end the association (Close runs again when the
					// handler returns, as it does after any handler that closes its connection)
					cx.Read(small)
					mu.Lock()
					a.closedAt = time.Now() // before Close, as above
					mu.Unlock()
					cx.Close()
					return nil
				}
			}
		}
	})))
	server.compiledRoute = RouteList{route}.Compile(zap.NewNop(), time.Second, nopHandler{})
	serveDone := make(chan error, 1)
	go func() { serveDone <- server.servePacket(pc) }()

	type cl struct {
		id      int
		conn    net.Conn
		replies []string
		sent    []string
	}
	clients := make([]*cl, h.clients)
	var wg sync.WaitGroup
	for i := range clients {
		c, err := net.Dial("udp", pc.LocalAddr().String())
		if err != nil {
			return "", "", "dial failed"
		}
		clients[i] = &cl{id: i, conn: c}
		wg.Add(1)
		go func(c *cl) {
			defer wg.Done()
			buf := make([]byte, 2048)
			for {
				c.conn.SetReadDeadline(time.Now().Add(400 * time.Millisecond))
				n, err := c.conn.Read(buf)
				if err != nil {
					return
				}
				c.replies = append(c.replies, strings.TrimSpace(string(buf[:n])))
			}
		}(clients[i])
	}
	var swg sync.WaitGroup
	for _, c := range clients {
		swg.Add(1)
		go func(c *cl, seed uint64) {
			defer swg.Done()
			rr := &vrng{seed}
			for k := 0; k < h.perCl; k++ {
				tag := fmt.Sprintf("c%d-n%03d-%s", c.id, k, strings.Repeat("x", rr.pick(0, 3, 20, 200)))
				c.sent = append(c.sent, tag)
				c.conn.Write([]byte(tag + "\n"))
				if !h.burst || k%16 == 15 {
					time.Sleep(time.Duration(rr.pick(0, 1, 3, 10)) * time.Millisecond)
				}
			}
			// after a pause a later datagram must still be served (by a fresh association if the old one ended)
			for extra := 0; extra < 2; extra++ {
				time.Sleep(120 * time.Millisecond)
				tag := fmt.Sprintf("c%d-n%03d-late", c.id, h.perCl+extra)
				c.sent = append(c.sent, tag)
				c.conn.Write([]byte(tag + "\n"))
			}
		}(c, r.next())
	}
	swg.Wait()
	wg.Wait()
	pc.Close()
	select {
	case <-serveDone:
	case <-time.After(3 * time.Second):
		return "udp-loop-stuck", "servePacket did not return after its socket was closed", ""
	}
	for _, c := range clients {
		c.conn.Close()
	}
	time.Sleep(60 * time.Millisecond)
	mu.Lock()
	defer mu.Unlock()
	addrOf := map[string]int{}
	for _, c := range clients {
		addrOf[c.conn.LocalAddr().String()] = c.id
	}
	// per association: only its own client's datagrams, in the order sent
	for _, a := range assocs {
		owner, ok := addrOf[a.addr]
		if !ok {
			return "udp-unknown-client", fmt.Sprintf("association %d belongs to address %s which no client uses", a.id, a.addr), ""
		}
		last := -1
		for _, tag := range a.got {
			var cid, n int
			if _, err := fmt.Sscanf(tag, "c%d-n%d-", &cid, &n); err != nil {
				return "udp-corrupt-datagram", fmt.Sprintf("association %d of client %d read a datagram that no client sent: %q", a.id, owner, tag[:min(len(tag), 40)]), ""
			}
			if cid != owner {
				return "udp-foreign-datagram", fmt.Sprintf("association %d of client %d received a datagram of client %d (%q)", a.id, owner, cid, tag[:min(len(tag), 30)]), ""
			}
			found := false
			for _, s := range clients[owner].sent {
				if s == tag {
					found = true
				}
			}
			if !found {
				return "udp-corrupt-datagram", fmt.Sprintf("association %d of client %d read %q which the client never sent", a.id, owner, tag[:min(len(tag), 40)]), ""
			}
			if n <= last {
				return "udp-reordered", fmt.Sprintf("association %d of client %d received datagram %d after datagram %d", a.id, owner, n, last), ""
			}
			last = n
		}
	}
	// a client's datagrams go to one live association at a time: a newer association may only be fed while the older one
	// is shutting down (closed) or has ended
	byAddr := map[string][]*uassoc{}
	for _, a := range assocs {
		byAddr[a.addr] = append(byAddr[a.addr], a)
	}
	for addr, as := range byAddr {
		sort.Slice(as, func(i, j int) bool { return as[i].id < as[j].id })
		for i, older := range as {
			end := older.endedAt
			if !older.closedAt.IsZero() {
				end = older.closedAt
			}
			for _, newer := range as[i+1:] {
				for k, tm := range newer.times {
					if !end.IsZero() && tm.Before(end.Add(-2*time.Millisecond)) || end.IsZero() {
						return "udp-split-associations", fmt.Sprintf("client %d: datagram %q went to association %d while association %d of the same client was still live", addrOf[addr], newer.got[k][:min(len(newer.got[k]), 20)], newer.id, older.id), ""
					}
				}
			}
		}
	}
	// replies only to the owner, and something of the late datagram must have been served
	for _, c := range clients {
		for _, rep := range c.replies {
			var cid, n int
			if _, err := fmt.Sscanf(rep, "R:c%d-n%d-", &cid, &n); err != nil || cid != c.id {
				return "udp-reply-misrouted", fmt.Sprintf("client %d received the reply %q", c.id, rep[:min(len(rep), 30)]), ""
			}
		}
		late := fmt.Sprintf("R:c%d-n%03d-late", c.id, h.perCl+1)
		ok := false
		for _, rep := range c.replies {
			if rep == late {
				ok = true
			}
		}
		if !ok && (h.mode == "quick" || h.mode == "closeLinger") {
			return "udp-not-fresh", fmt.Sprintf("client %d: the datagram sent after its association had ended was not served (%d replies)", c.id, len(c.replies)), ""
		}
		if !ok && h.mode == "echo" && !h.burst {
			return "udp-late-lost", fmt.Sprintf("client %d: the datagram sent after a pause was not served by its association (%d replies)", c.id, len(c.replies)), ""
		}
	}
	_ = bytes.Equal
	return "", "", fmt.Sprintf("clients=%d mode=%s per=%d burst=%v associations=%d", h.clients, h.mode, h.perCl, h.burst, len(assocs))
}

func TestVerifUDP(t *testing.T) {
	out := vopen(t, "udp")
	defer out.close()
	tr := vopen(t, "utrace")
	defer tr.close()
	r := &vrng{vseed()*179424673 + 11}
	n := vcount(24)
	stats := map[string]int{}
	for i := 0; i < n; i++ {
		h := uhist{clients: r.pick(1, 2, 3, 6), mode: []string{"echo", "quick", "closeLinger", "partial"}[i%4], perCl: r.pick(3, 8, 40, 120), burst: r.intn(2) == 0}
		fmt.Fprintf(out.cases, "udp clients=%d mode=%s per=%d burst=%v\n", h.clients, h.mode, h.perCl, h.burst)
		out.cases.Flush()
		rec := startHookRec("u.")
		sig, desc, sum := runUDPHistory(r, h)
		ev := rec.stop()
		fmt.Fprintf(tr.cases, "utrace %d %s\n", len(ev), strings.Join(ev, " "))
		fmt.Fprintln(tr.out, "accepted")
		stats["hook-events"] += len(ev)
		if sig != "" {
			out.fail(i, sig, desc)
			fmt.Fprintf(out.out, "FAIL %s\n", sig)
		} else {
			fmt.Fprintf(out.out, "ok %s\n", sum)
		}
		stats["mode="+h.mode]++
	}
	// the loop parked on a full queue while many associations end: it must come free when the busy handler closes
	npark := 2
	if os.Getenv("VERIF_TIER") == "thorough" {
		npark = 10
	}
	for k := 0; k < npark; k++ {
		others := r.pick(10, 12, 14)
		burst := r.pick(6, 8, 12)
		fmt.Fprintf(out.cases, "udp park others=%d burst=%d\n", others, burst)
		out.cases.Flush()
		sig, desc := udpParkScenario(others, burst)
		if sig != "" {
			out.fail(n+k, sig, desc)
			fmt.Fprintf(out.out, "FAIL %s\n", sig)
		} else {
			fmt.Fprintf(out.out, "ok park\n")
		}
		stats["park scenarios"]++
	}
	// a datagram larger than the reader's buffer: the handler must read exactly the datagram, then the next one
	nbig := 2
	if os.Getenv("VERIF_TIER") == "thorough" {
		nbig = 12
	}
	for k := 0; k < nbig; k++ {
		size, rb := r.pick(300, 2500, 5000), r.pick(64, 100, 2048)
		fmt.Fprintf(out.cases, "udp big size=%d readbuf=%d\n", size, rb)
		out.cases.Flush()
		first := 4
		if k%2 == 1 {
			first = size // the datagram fits the first read's buffer exactly
		}
		sig, desc := udpBigDatagramScenarioF(size, rb, first)
		if sig != "" {
			out.fail(n+npark+k, sig, desc)
			fmt.Fprintf(out.out, "FAIL %s\n", sig)
		} else {
			fmt.Fprintf(out.out, "ok big\n")
		}
		stats["big-datagram scenarios"]++
	}
	out.stats(stats)
}

// udpBigDatagramScenario: after another client's large datagrams went through the pooled receive buffers, a client sends one
// datagram of `size` bytes and then a short one; its handler reads with a buffer of `rb` bytes
func udpBigDatagramScenario(size, rb int) (sig, desc string) { return udpBigDatagramScenarioF(size, rb, 4) }

// first: length of the buffer of the handler's first read (4 = just the tag; size = the datagram fits exactly)
func udpBigDatagramScenarioF(size, rb, first int) (sig, desc string) {
	pc, err := net.ListenPacket("udp", "127.0.0.1:0")
	if err != nil {
		return "", ""
	}
	server := &Server{logger: zap.NewNop()}
	type res struct {
		got  []byte
		next []byte
	}
	resCh := make(chan res, 1)
	route := &Route{}
	route.middleware = append(route.middleware, wrapHandler(NextHandlerFunc(func(cx *Connection, _ Handler) error {
		big := make([]byte, 9000)
		k, err := cx.Read(big[:first])
		if err != nil {
			return nil
		}
		if k < 4 || string(big[:4]) != "BIG:" {
			// the other client: swallow its datagrams whole
			for {
				if _, err := cx.Read(big); err != nil {
					return nil
				}
			}
		}
		got := append([]byte(nil), big[:k]...)
		buf := make([]byte, rb)
		for len(got) < size {
			k, err := cx.Read(buf)
			if err != nil {
				break
			}
			got = append(got, buf[:k]...)
		}
		k, _ = cx.Read(buf)
		resCh <- res{got, append([]byte(nil), buf[:k]...)}
		return nil
	})))
	server.compiledRoute = RouteList{route}.Compile(zap.NewNop(), time.Second, nopHandler{})
	serveDone := make(chan error, 1)
	go func() { serveDone <- server.servePacket(pc) }()
	defer func() {
		pc.Close()
		select {
		case <-serveDone:
		case <-time.After(2 * time.Second):
		}
	}()
	other, _ := net.Dial("udp", pc.LocalAddr().String())
	defer other.Close()
	for i := 0; i < 4; i++ {
		other.Write(bytes.Repeat([]byte{'S'}, 8000))
		time.Sleep(2 * time.Millisecond)
	}
	cl, _ := net.Dial("udp", pc.LocalAddr().String())
	defer cl.Close()
	d1 := make([]byte, size)
	copy(d1, "BIG:")
	for i := 4; i < size; i++ {
		d1[i] = byte('a' + i%23)
	}
	cl.Write(d1)
	time.Sleep(5 * time.Millisecond)
	cl.Write([]byte("END\n"))
	select {
	case r := <-resCh:
		if !bytes.Equal(r.got, d1) {
			return "udp-datagram-stream", fmt.Sprintf("a %d-byte datagram read with a %d-byte buffer: the handler read %d bytes that are not the datagram (first difference at %d)", size, rb, len(r.got), firstDiff(r.got, d1))
		}
		if string(r.next) != "END\n" {
			return "udp-datagram-stream", fmt.Sprintf("after a %d-byte datagram (first read with a %d-byte buffer, then %d-byte buffers) the next read returned %d bytes that are not the next datagram", size, first, rb, len(r.next))
		}
	case <-time.After(3 * time.Second):
		return "udp-datagram-stream", fmt.Sprintf("a %d-byte datagram read with a %d-byte buffer: the handler did not get the datagram and its successor within 3 s", size, rb)
	}
	return "", ""
}

func firstDiff(a, b []byte) int {
	for i := 0; i < len(a) && i < len(b); i++ {
		if a[i] != b[i] {
			return i
		}
	}
	return min(len(a), len(b))
}

// udpParkScenario: `others` associations whose handlers wait, one busy association whose queue is filled by a burst (the loop
// parks on it), then the waiting handlers end (more closures than closeCh holds), then the busy handler ends. Afterwards a
// fresh client and the formerly busy client must be served.
func udpParkScenario(others, burst int) (sig, desc string) {
	pc, err := net.ListenPacket("udp", "127.0.0.1:0")
	if err != nil {
		return "", ""
	}
	server := &Server{logger: zap.NewNop()}
	gateOthers, gateBusy := make(chan struct{}), make(chan struct{})
	var started sync.WaitGroup
	started.Add(others + 1)
	route := &Route{}
	route.middleware = append(route.middleware, wrapHandler(NextHandlerFunc(func(cx *Connection, _ Handler) error {
		buf := make([]byte, 2048)
		k, err := cx.Read(buf)
		if err != nil {
			return nil
		}
		tag := strings.TrimSpace(string(buf[:k]))
		switch {
		case strings.HasPrefix(tag, "other"):
			started.Done()
			<-gateOthers
			return nil
		case tag == "busy":
			started.Done()
			<-gateBusy
			return nil
		}
		cx.Write([]byte("R:" + tag + "\n"))
		return nil
	})))
	server.compiledRoute = RouteList{route}.Compile(zap.NewNop(), time.Second, nopHandler{})
	serveDone := make(chan error, 1)
	go func() { serveDone <- server.servePacket(pc) }()
	defer func() {
		pc.Close()
		select {
		case <-serveDone:
		case <-time.After(2 * time.Second):
		}
	}()
	dial := func() net.Conn { c, _ := net.Dial("udp", pc.LocalAddr().String()); return c }
	var conns []net.Conn
	defer func() {
		for _, c := range conns {
			c.Close()
		}
	}()
	for i := 0; i < others; i++ {
		c := dial()
		conns = append(conns, c)
		c.Write([]byte(fmt.Sprintf("other%d\n", i)))
	}
	busy := dial()
	conns = append(conns, busy)
	busy.Write([]byte("busy\n"))
	waitCh := make(chan struct{})
	go func() { started.Wait(); close(waitCh) }()
	select {
	case <-waitCh:
	case <-time.After(3 * time.Second):
		close(gateOthers)
		close(gateBusy)
		return "", "" // the setup did not come up (loaded machine): nothing to judge
	}
	for i := 0; i < burst; i++ {
		busy.Write([]byte(fmt.Sprintf("b%d\n", i)))
	}
	time.Sleep(30 * time.Millisecond) // the loop is parked on the busy association's full queue
	close(gateOthers)                 // more closures than the notification channel holds
	time.Sleep(30 * time.Millisecond)
	close(gateBusy)
	ask := func(c net.Conn, tag string) bool {
		buf := make([]byte, 256)
		for try := 0; try < 4; try++ {
			c.Write([]byte(tag + "\n"))
			c.SetReadDeadline(time.Now().Add(500 * time.Millisecond))
			for {
				n, err := c.Read(buf)
				if err != nil {
					break
				}
				if strings.TrimSpace(string(buf[:n])) == "R:"+tag {
					return true
				}
			}
		}
		return false
	}
	fresh := dial()
	conns = append(conns, fresh)
	if !ask(fresh, "fresh") {
		return "udp-loop-stuck", fmt.Sprintf("after a burst of %d datagrams to a busy association and the end of %d other associations, a new client is not served any more (4 datagrams in 2 s unanswered)", burst, others)
	}
	if !ask(busy, "again") {
		return "udp-loop-stuck", "the formerly busy client is not served by a fresh association after its handler ended"
	}
	return "", ""
}

// TestVerifUDPBig: the big-datagram scenarios alone (a stage of C01: over UDP too a handler reads the client's stream exactly)
func TestVerifUDPBig(t *testing.T) {
	out := vopen(t, "udpbig")
	defer out.close()
	r := &vrng{vseed()*15485863 + 3}
	n := vcount(6)
	stats := map[string]int{}
	for k := 0; k < n; k++ {
		size, rb := r.pick(300, 2049, 2500, 5000, 8500), r.pick(64, 100, 2048, 4096)
		fmt.Fprintf(out.cases, "udp big size=%d readbuf=%d\n", size, rb)
		out.cases.Flush()
		first := 4
		if k%2 == 1 {
			first = size // the datagram fits the first read's buffer exactly
			if k%4 == 3 {
				size, first = 2048, 2048 // the size of a prefetch chunk
			}
		}
		sig, desc := udpBigDatagramScenarioF(size, rb, first)
		if sig != "" {
			out.fail(k, sig, desc)
			fmt.Fprintf(out.out, "FAIL %s\n", sig)
		} else {
			fmt.Fprintf(out.out, "ok big\n")
		}
		stats[fmt.Sprintf("readbuf=%d", rb)]++
	}
	out.stats(stats)
}

package layer4

// C13 / C08: the real listener wrapper over a loopback TCP listener, many concurrent tagged clients, slow consumers,
// Close at arbitrary points. Every delivered connection must carry exactly its own client's stream from the first
// unconsumed byte; consumed / rejected connections are never delivered and get closed; shutdown leaves nothing behind.

import (
	"strings"
	"bytes"
	"context"
	"errors"
	"fmt"
	"io"
	"net"
	"runtime"
	"sync"
	"testing"
	"time"

	"github.com/caddyserver/caddy/v2"
	"go.uber.org/zap"
)

func caddyCtxForTests() caddy.Context {
	ctx, _ := caddy.NewContext(caddy.Context{Context: context.Background()})
	return ctx
}

func lstream(id int, class byte, n int) []byte {
	b := make([]byte, n)
	for i := range b {
		b[i] = 0x80 | byte(id*31+i*7+3) // never a class letter
	}
	if n > 0 {
		b[0] = class
	}
	return b
}

type lclient struct {
	id      int
	class   byte
	stream  []byte
	addr    string
	sawEOF  bool
	err     error
}

func lroutes(rec *sync.Map) RouteList {
	first := func(b byte, need int) MatcherSets { return MatcherSets{MatcherSet{&vfirst{b, need}}} }
	term := &Route{matcherSets: first('T', 1)}
	term.middleware = append(term.middleware, wrapHandler(NextHandlerFunc(func(cx *Connection, next Handler) error {
		got, _ := io.ReadAll(cx)
		rec.Store(cx.RemoteAddr().String(), got)
		return nil
	})))
	cons := &Route{matcherSets: first('C', 5)}
	cons.middleware = append(cons.middleware, wrapHandler(NextHandlerFunc(func(cx *Connection, next Handler) error {
		buf := make([]byte, 3)
		io.ReadFull(cx, buf)
		return next.Handle(cx)
	})))
	// like `cons`, but the handler passes on a wrapped connection (as tls / proxy_protocol / tee do): the bytes it left unread stay
	// in the outer Connection's matching buffer and are read through the wrapper
	wrp := &Route{matcherSets: first('W', 5)}
	wrp.middleware = append(wrp.middleware, wrapHandler(NextHandlerFunc(func(cx *Connection, next Handler) error {
		buf := make([]byte, 3)
		io.ReadFull(cx, buf)
		return next.Handle(cx.Wrap(lpass{Conn: cx.Conn, r: cx}))
	})))
	// like a TLS-terminating handler: it consumes everything it matched on (the outer Connection is drained, so the Connection
	// returned by Wrap takes over the pooled buffer) and what follows is read through the wrapper; the route after it asks for
	// data (prefetched through the wrapper into that buffer) and does not match, so the connection is handed over with
	// prefetched bytes that nobody has read yet
	xrp := &Route{matcherSets: first('X', 5)}
	xrp.middleware = append(xrp.middleware, wrapHandler(NextHandlerFunc(func(cx *Connection, next Handler) error {
		buf := make([]byte, 5)
		io.ReadFull(cx, buf)
		return next.Handle(cx.Wrap(lpass{Conn: cx.Conn, r: cx}))
	})))
	zrt := &Route{matcherSets: first('Z', 2)}
	zrt.middleware = append(zrt.middleware, wrapHandler(NextHandlerFunc(func(cx *Connection, next Handler) error { return nil })))
	// a terminal route that needs two reads of a fragmented client before it matches
	frg := &Route{matcherSets: first('F', 5)}
	frg.middleware = append(frg.middleware, wrapHandler(NextHandlerFunc(func(cx *Connection, next Handler) error {
		got, _ := io.ReadAll(cx)
		rec.Store(cx.RemoteAddr().String(), got)
		return nil
	})))
	rej := &Route{matcherSets: MatcherSets{MatcherSet{&vmErr{'E'}}}}
	big := &Route{matcherSets: first('B', 3000)} // forces several prefetch rounds, then falls through
	big.middleware = append(big.middleware, wrapHandler(NextHandlerFunc(func(cx *Connection, next Handler) error { return next.Handle(cx) })))
	// wrp is last: nothing re-matches after it, so the bytes it left unread are still in the outer connection's (pooled) buffer
	// when the connection is handed over
	return RouteList{term, frg, cons, rej, big, xrp, zrt, wrp}
}

// lpass reads through the Connection it was made from (what a protocol-terminating wrapper does)
type lpass struct {
	net.Conn
	r io.Reader
}

func (p lpass) Read(b []byte) (int, error) { return p.r.Read(b) }

// vfirst decides on the first byte; only if it equals b does it wait for `need` bytes
type vfirst struct {
	b    byte
	need int
}

func (m *vfirst) Match(cx *Connection) (bool, error) {
	buf := make([]byte, 1)
	if _, err := io.ReadFull(cx, buf); err != nil {
		return false, err
	}
	if buf[0] != m.b {
		return false, nil
	}
	rest := make([]byte, m.need-1)
	if _, err := io.ReadFull(cx, rest); err != nil {
		return false, err
	}
	return true, nil
}

// vmErr fails (matcher error) when the first byte is b
type vmErr struct{ b byte }

func (m *vmErr) Match(cx *Connection) (bool, error) {
	buf := make([]byte, 1)
	if _, err := io.ReadFull(cx, buf); err != nil {
		return false, err
	}
	if buf[0] == m.b {
		return false, fmt.Errorf("rejected by matcher")
	}
	return false, nil
}

type lhist struct {
	ipOnly     bool // routes decide on addresses only (no byte is read during matching); the consumer reads late
	n          int
	slow       bool // consumer accepts everything first and reads afterwards
	closeAfter int  // close the listener after this many accepts (-1: at the end)
	procs      int
	staggered  bool // clients connect one after the other: later connections reuse the pooled buffers of earlier ones
}

// lastListenerTrace: capacity of connChan and the hook events of the last history (for the `ltrace` stream)
var lastListenerTrace struct {
	cap int
	ev  []string
}

func runListenerHistory(r *vrng, h lhist) (sig, desc string, summary string) {
	prev := runtime.GOMAXPROCS(h.procs)
	defer runtime.GOMAXPROCS(prev)
	hrec := startHookRec("l.")
	defer func() {
		// late reports: wait (bounded) until the log is complete before it is judged
		for t0 := time.Now(); !hrec.listenerComplete() && time.Since(t0) < 3*time.Second; {
			time.Sleep(2 * time.Millisecond)
		}
		lastListenerTrace.ev = hrec.stop()
	}()
	base := runtime.NumGoroutine()
	inner, err := net.Listen("tcp", "127.0.0.1:0")
	if err != nil {
		return "", "", "listen failed"
	}
	rec := &sync.Map{}
	li := &listener{Listener: inner, logger: zap.NewNop(), done: make(chan struct{}), connChan: make(chan net.Conn, runtime.GOMAXPROCS(0)), wg: new(sync.WaitGroup)}
	li.compiledRoute = lroutes(rec).Compile(zap.NewNop(), 2*time.Second, listenerHandler{})
	if h.ipOnly {
		m := &MatchRemoteIP{Ranges: []string{"10.0.0.0/8"}}
		m.Provision(caddyCtxForTests())
		ipr := &Route{matcherSets: MatcherSets{MatcherSet{m}}}
		ipr.middleware = append(ipr.middleware, wrapHandler(NextHandlerFunc(func(cx *Connection, next Handler) error { return nil })))
		li.compiledRoute = RouteList{ipr}.Compile(zap.NewNop(), 150*time.Millisecond, listenerHandler{})
	}
	lastListenerTrace.cap = cap(li.connChan)
	hrec.mu.Lock()
	hrec.owner = li
	hrec.mu.Unlock()
	go li.loop()

	clients := make([]*lclient, h.n)
	byAddr := map[string]*lclient{}
	var cmu sync.Mutex
	var cwg sync.WaitGroup
	for i := 0; i < h.n; i++ {
		class := []byte{'H', 'H', 'C', 'T', 'E', 'B', 'H', 'W', 'W', 'X', 'X', 'F'}[r.intn(12)]
		if h.ipOnly {
			class = 'H'
		}
		n := r.pick(1, 2, 5, 6, 100, 2048, 2049, 5000)
		if (class == 'C' || class == 'W' || class == 'X' || class == 'F') && n < 7 {
			n = 7
		}
		if class == 'B' {
			n = r.pick(3000, 4097, 6000)
		}
		clients[i] = &lclient{id: i, class: class, stream: lstream(i, class, n)}
	}
	for _, c := range clients {
		cwg.Add(1)
		if h.staggered {
			time.Sleep(1500 * time.Microsecond)
		}
		go func(c *lclient) {
			defer cwg.Done()
			conn, err := net.Dial("tcp", inner.Addr().String())
			if err != nil {
				c.err = err
				return
			}
			defer conn.Close()
			cmu.Lock()
			c.addr = conn.LocalAddr().String()
			byAddr[c.addr] = c
			cmu.Unlock()
			switch c.class {
			case 'X':
				// what the wrapping handler consumes, then (later) what is read through the wrapper
				conn.Write(c.stream[:5])
				time.Sleep(4 * time.Millisecond)
				conn.Write(c.stream[5:])
			case 'F':
				conn.Write(c.stream[:2])
				time.Sleep(3 * time.Millisecond)
				conn.Write(c.stream[2:])
			default:
				conn.Write(c.stream)
			}
			conn.(*net.TCPConn).CloseWrite()
			conn.SetReadDeadline(time.Now().Add(6 * time.Second))
			_, err = io.ReadAll(conn)
			// end of stream or a reset (connections still in the kernel's accept queue are reset when the listener closes)
			// both mean "closed"; only a read timeout means the connection was left open
			var ne net.Error
			c.sawEOF = err == nil || !(errors.As(err, &ne) && ne.Timeout())
		}(c)
	}

	type deliv struct {
		addr string
		got  []byte
	}
	var delivered []deliv
	var held []net.Conn
	accepts := 0
	var amu sync.Mutex
	closedAt := -1
	acceptErr := make(chan error, 1)
	done := make(chan struct{})
	go func() {
		defer close(done)
		for {
			conn, err := li.Accept()
			if err != nil {
				acceptErr <- err
				return
			}
			amu.Lock()
			accepts++
			amu.Unlock()
			if h.slow {
				held = append(held, conn)
			} else {
				got, _ := io.ReadAll(conn) // no deadline of our own: the connection must arrive without one
				delivered = append(delivered, deliv{conn.RemoteAddr().String(), got})
				conn.Close()
			}
			if h.closeAfter >= 0 && accepts == h.closeAfter && closedAt < 0 {
				closedAt = accepts
				li.Close()
			}
		}
	}()
	if h.closeAfter < 0 {
		// let every client that falls through be delivered, then close
		want := 0
		for _, c := range clients {
			if c.class == 'H' || c.class == 'C' || c.class == 'B' || c.class == 'W' || c.class == 'X' {
				want++
			}
		}
		for t0 := time.Now(); time.Since(t0) < 6*time.Second; time.Sleep(5 * time.Millisecond) {
			amu.Lock()
			got := accepts
			amu.Unlock()
			if got >= want {
				break
			}
		}
		time.Sleep(30 * time.Millisecond) // terminal / rejected connections finish
		li.Close()
	} else {
		// make sure the listener gets closed even if fewer connections are delivered than planned
		go func() { time.Sleep(time.Duration(400+h.n*3) * time.Millisecond); li.Close() }()
	}
	select {
	case <-done:
	case <-time.After(8 * time.Second):
		return "accept-blocked", "Accept did not report closure within 8 s after the listener was closed", ""
	}
	if h.ipOnly {
		time.Sleep(350 * time.Millisecond) // well past the matching timeout
	}
	for _, conn := range held {
		got, _ := io.ReadAll(conn)
		delivered = append(delivered, deliv{conn.RemoteAddr().String(), got})
		conn.Close()
	}
	cwg.Wait()
	// goroutines must drain
	deadline := time.Now().Add(5 * time.Second)
	for runtime.NumGoroutine() > base+2 && time.Now().Before(deadline) {
		time.Sleep(20 * time.Millisecond)
	}
	leaked := runtime.NumGoroutine() - base

	count := map[string]int{}
	for _, d := range delivered {
		count[d.addr]++
		c := byAddr[d.addr]
		if c == nil {
			return "delivered-unknown", fmt.Sprintf("a connection from %s was delivered that no client opened", d.addr), ""
		}
		if count[d.addr] > 1 {
			return "delivered-twice", fmt.Sprintf("client %d (class %c) was delivered %d times", c.id, c.class, count[d.addr]), ""
		}
		if c.class == 'T' || c.class == 'E' || c.class == 'F' {
			return "consumed-but-delivered", fmt.Sprintf("client %d of class %c (consumed by a terminal handler / rejected by a matcher error) was delivered to Accept", c.id, c.class), ""
		}
		want := c.stream
		if c.class == 'C' || c.class == 'W' {
			want = c.stream[3:]
		}
		if c.class == 'X' {
			want = c.stream[5:]
		}
		if !bytes.Equal(d.got, want) {
			// whose bytes are these?
			for _, o := range clients {
				if o != c && len(d.got) > 1 && len(o.stream) > 1 && bytes.Contains(o.stream, d.got[1:min(len(d.got), 6)]) && !bytes.Contains(c.stream, d.got[1:min(len(d.got), 6)]) {
					return "cross-talk", fmt.Sprintf("the connection of client %d delivered by Accept carried bytes of client %d's stream", c.id, o.id), ""
				}
			}
			return "delivered-stream", fmt.Sprintf("client %d (class %c): Accept's connection read %d bytes, expected the %d bytes from the first unconsumed byte on", c.id, c.class, len(d.got), len(want)), ""
		}
	}
	for _, c := range clients {
		if c.err != nil {
			continue
		}
		if c.class == 'T' || c.class == 'F' {
			if v, ok := rec.Load(c.addr); ok && !bytes.Equal(v.([]byte), c.stream) {
				return "terminal-stream", fmt.Sprintf("client %d: the terminal handler read %d bytes, the client sent %d", c.id, len(v.([]byte)), len(c.stream)), ""
			}
		}
		if !c.sawEOF {
			return "not-closed", fmt.Sprintf("client %d (class %c, delivered %d times) never saw its connection closed after the listener was closed", c.id, c.class, count[c.addr]), ""
		}
		if (c.class == 'H' || c.class == 'C' || c.class == 'B' || c.class == 'W' || c.class == 'X') && count[c.addr] == 0 && closedAt < 0 && h.closeAfter < 0 {
			return "not-delivered", fmt.Sprintf("client %d (class %c, %d bytes, addr %s) fell through all routes but was never delivered although the listener was still open (delivered %d, accepts %d)", c.id, c.class, len(c.stream), c.addr, len(delivered), accepts), ""
		}
	}
	if leaked > 2 {
		return "goroutine-leak", fmt.Sprintf("%d goroutines more than before remain after Close", leaked), ""
	}
	nw := 0
	for _, d := range delivered {
		if c := byAddr[d.addr]; c != nil && c.class == 'W' {
			nw++
		}
	}
	return "", "", fmt.Sprintf("clients=%d delivered=%d wrapped=%d slow=%v closeAfter=%d procs=%d", h.n, len(delivered), nw, h.slow, h.closeAfter, h.procs)
}

func TestVerifListener(t *testing.T) {
	out := vopen(t, "listener")
	defer out.close()
	tr := vopen(t, "ltrace")
	defer tr.close()
	r := &vrng{vseed()*433494437 + 7}
	n := vcount(30)
	stats := map[string]int{}
	for i := 0; i < n; i++ {
		h := lhist{n: r.pick(1, 3, 8, 20, 40, 64), slow: r.intn(2) == 0, closeAfter: r.pick(-1, -1, 0, 1, 3, 10), procs: r.pick(1, 2, 4, 16)}
		if i%6 == 2 || i%6 == 4 {
			// handed-over connections are read long after later connections went through matching
			h = lhist{n: r.pick(8, 20, 48), slow: true, closeAfter: -1, procs: r.pick(1, 2, 4, 16), staggered: true}
		}
		if i%6 == 5 {
			h = lhist{ipOnly: true, n: r.pick(1, 3, 8), slow: true, closeAfter: -1, procs: r.pick(1, 4)}
		}
		fmt.Fprintf(out.cases, "listener clients=%d slow=%v closeAfter=%d procs=%d ipOnly=%v staggered=%v\n", h.n, h.slow, h.closeAfter, h.procs, h.ipOnly, h.staggered)
		out.cases.Flush()
		sig, desc, sum := runListenerHistory(r, h)
		if sig != "" {
			out.fail(i, sig, desc)
			fmt.Fprintf(out.out, "FAIL %s\n", sig)
		} else {
			fmt.Fprintf(out.out, "ok %s\n", sum)
		}
		// the hook events of this history must be a run of the listener model
		fmt.Fprintf(tr.cases, "ltrace %d %d %s\n", lastListenerTrace.cap, len(lastListenerTrace.ev), strings.Join(lastListenerTrace.ev, " "))
		fmt.Fprintln(tr.out, "accepted")
		stats["hook-events"] += len(lastListenerTrace.ev)
		stats[fmt.Sprintf("slow=%v", h.slow)]++
		stats[fmt.Sprintf("procs=%d", h.procs)]++
	}
	out.stats(stats)
}

"""Per-property configuration of ./check: Lean theorem modules and harness stages."""

L4 = ["layer4/verif_common_test.go"]
INTEG = ["integration/verif_common_test.go"]
PROXY = ["modules/l4proxy/verif_common_test.go"]

MATCH = dict(name="match", pkg="./integration/", test="TestVerifMatch", files=INTEG + ["integration/verif_chain_test.go", "integration/verif_match_test.go", "integration/verif_match2_test.go", "integration/verif_match3_test.go"],
             nq=60000, nt=600000)

THR = ["modules/l4throttle/verif_common_test.go", "modules/l4throttle/verif_throttle_test.go"]

RELAY = PROXY + ["modules/l4proxy/verif_relay_test.go"]
# a real Caddy instance in-process: listener, Server.handle, tls matcher + TLS termination, subroute, proxy, concurrent clients
FULLSTACK = dict(name="fullstack", pkg="./integration/", test="TestVerifFullStack", files=INTEG + ["integration/verif_chain_test.go", "integration/verif_cfg_test.go", "integration/verif_fullstack_test.go"],
                 nq=12, nt=150, lean=False)

HEALTH = PROXY + ["modules/l4proxy/verif_health_test.go"]

PROPS = {
    "C15": dict(
        lean_modules=["L4.Props.C15", "L4.Expect.C15"],
        stages=[dict(name="cfg", pkg="./integration/", test="TestVerifCfg", files=INTEG + ["integration/verif_cfg_test.go"], nq=300, nt=6000)],
        level_text="Kernel-checked on a generic option-table interpreter (the shape of the flat UnmarshalCaddyfile implementations: string / integer / duration / list / flag options, duplicate and arity rules, omitempty) for every table and every well-formed block over it: parsing the block the renderer writes gives back exactly the option values, the module's JSON states for every option exactly the value written and nothing else, the order of the options is irrelevant, a scalar option given twice and an unknown option are rejected; on the transcription of ParseCaddyfileNestedMatcherSet / ParseCaddyfileNestedHandlers: a set with distinct matcher names adapts to the module map of its matchers, a repeated matcher is rejected, handler lists keep their order with the module name inline. The transcription of the whole layer4 adapter (global blocks combined, servers numbered, named matcher sets, matching_timeout, routes referring to sets, subroute / tee / not nesting; tables for proxy incl. nested health_checks / load_balancing paths, throttle, proxy_protocol, remote_ip, local_ip, regexp and the option-less modules) is tied to the real caddyfile adapter by a differential on the lexed tokens of generated Caddyfiles (modules without a table enter through their JSON as adapted alone: composition only); the adapter's JSON is also compared with the JSON the generator states for the same abstract configuration, and every generated configuration is judged for determinism, loading + provisioning (caddy.Validate) and load / re-serialise round trip of every handler and matcher module.",
        level_note="Trusted: Lean kernel, harness + driver, Caddy's lexer / dispenser / httpcaddyfile global-option plumbing, encoding/json. Partial: the round-trip theorem is for table-shaped modules and assumes the two string codec laws (decimal integers, nanosecond durations: sampled, not proved); the structural transcription (routes, names, nesting) is tied by the differential, its `adapt ∘ render` statement is proved only for matcher sets and handler lists; 'loads and provisions' and the JSON round trip are Go-side oracles; tls / http / socks / dns / openvpn / winbox / clock modules are covered by generator-stated expectations for a subset of their syntax, not by tables; the listener-wrapper form is not generated.",
        rule="cfg: 1-2 global layer4 blocks with 0-2 servers each (1-2 listen addresses), 0-3 named matcher sets (inline or block form, 14 matcher kinds incl. not / tls blocks with negated ranges), optional matching_timeout, 0-3 routes referring to 0-2 sets with 0-2 handlers (echo, throttle, proxy_protocol, proxy with 0-12 options in random order and upstream lines, socks5, subroute and tee to depth 2), items interleaved in random order; non-trivial = adapter accepted; distinct = distinct JSON",
        assumptions=["the generator's expected JSON is written from the documented syntax of each module"],
    ),
    "C11": dict(
        lean_modules=["L4.Props.C11", "L4.Expect.C11"],
        stages=[dict(name="health", pkg="./modules/l4proxy/", test="TestVerifHealth", files=HEALTH, nq=48, nt=600)],
        level_text="Kernel-checked on an operational model of the accounting in modules/l4proxy (peer failure / connection / unhealthy counters as Go integers, countFailure with its sleeping forgetters, Upstream.healthy / full / available, the retry loop of Handle gated by tryAgain, counting of proxied connections around proxy, doActiveHealthCheck) for every configuration and every history of time passing, client connections, connection ends, active checks, outages and recoveries: a peer's failure count is exactly the number of its dial failures from the last fail_duration (none forgotten twice, none kept longer), an upstream is out of rotation exactly while a peer is marked down or remembers at least max_fails failures and returns once fail_duration has passed, counters never go negative, a peer's connection count is the number of open proxied connections through upstreams dialing it, an upstream with a limit never holds more open proxied connections than the limit, the attempts of one Handle happen at start + j × try_interval, are retried only while less than try_duration has elapsed and end with an error only after try_duration (one attempt when it is 0), and the unhealthy mark of a peer is set exactly by its last active check. The statement-level facts the model encodes (countFailure: two configuration guards, count, forget after fail_duration; Handle: count per peer after the dial loop, deferred un-count; dialPeers: counts failures, never connections; tryAgain; doActiveHealthCheck) are regenerated from the source and checked by theorem; timed histories against the real Handler with switchable loopback peers are compared exactly with the model (outcome and retries of every Handle, all peer counters and availability at the sample instants; histories with a decision within 25 ms of a forgetter or planned outage are not compared) and judged by predicates computed from the harness' own log.",
        level_note="Trusted: Lean kernel, extractor AST patterns, harness + driver, Go timers and atomics. Partial: real time — instants are measured in ms and a history whose retry timing is noisy is re-run up to three times; the model treats a Handle (select, dial, count) as one atomic step, the check-then-act window between selection and counting under concurrent connections is covered by a separate small transition system (overshoot ≤ peak number of dials in flight − 1, none for sequential arrivals: theorem) that is not itself tied to the code by a differential; concurrent in-flight dial failures are exercised only through direct countFailure calls; selection is `first` (the other policies are C10's); the active checker's ticker is not run in real time (doActiveHealthCheck is called directly).",
        rule="health: 1-3 upstreams of 1-2 peers over 4 switchable loopback listeners; passive checks on/off, fail_duration 0/150/220/300 ms, max_fails 0-3, unhealthy_connection_count 0-2, max_connections 0-2, try_duration 0/100/180 ms with try_interval 40/60 ms; 4-12 events per history: client connection (with a peer going down / coming back 20-110 ms into the retry loop in 1 of 3), end of a proxied connection, immediate outage / recovery, active check, directly reported dial failure, sample; 8 histories in parallel; non-trivial = history completed; distinct = distinct observation lines",
        assumptions=["events of one history are sequential: every Handle has connected or failed before the next event", "a refused loopback dial takes well under try_interval"],
    ),
    "C03": dict(
        lean_modules=["L4.Props.C03", "L4.Expect.C03"],
        stages=[dict(name="relay", pkg="./modules/l4proxy/", test="TestVerifRelay", files=RELAY, nq=150, nt=1500),
                dict(name="relayudp", pkg="./modules/l4proxy/", test="TestVerifRelayUDP", files=RELAY, nq=20, nt=200, lean=False),
                dict(name="relayeof", pkg="./modules/l4proxy/", test="TestVerifRelayEOF", files=RELAY, nq=30, nt=300, lean=False),
                dict(FULLSTACK)],
        level_text="Kernel-checked on a transition system of Handler.proxy and Handle's deferred close (pump goroutine over the chain of TeeReaders, one copy goroutine per upstream counted in the WaitGroup, the main goroutine's wait / CloseWrite / receive, the buffered signal channel) for any number of upstream connections and every interleaving with the client's and the upstreams' sends, half-closes, held-back responses and abrupt closes: what an upstream has received is always a prefix of the client's stream from its first unconsumed byte (exactly the stream minus what is still unread for an upstream that was not reset), the client receives each upstream's bytes in order, nobody observes end-of-stream before the sender finished, a returned handler has closed every upstream connection whatever faults happened, and in every state where nothing can move (no resets, half-close offered, both sides finish) everything was delivered both ways, both sides saw end-of-stream, the handler returned and all upstream connections are closed. The invariant (15 conjuncts) is preserved by all 15 actions and every action strictly decreases a measure (every run is finite). The statement-level protocol the model encodes (tee chain over all upstream conns, copy goroutine per conn in the WaitGroup, pump: copy / signal / half-close all, main: Wait / CloseWrite / receive, capacity of the signal channel, deferred close before proxy, dialPeers closing on error) is regenerated from proxy.go and checked by theorem on every run; the model's terminal state is compared exactly with the real Handle relaying between a client socket and 1-3 loopback upstream servers (TCP and Unix), and every scenario incl. abrupt closes is judged for byte-exactness, end-of-stream propagation, handler return, socket and goroutine leaks.",
        level_note="Trusted: Lean kernel, extractor AST patterns, harness + driver, io.Copy / io.TeeReader / TCP half-close semantics as modelled (sampled by the differential). Partial: kernel buffering and the exact bytes lost on a reset are environment behaviour (prefix theorems only); downstream conns without CloseWrite (throttle / proxy_protocol wrappers) are modelled (downCW parameter) but not exercised; datagram upstreams (no half-close) are judged by oracle only; Every run is finite by a strictly decreasing measure (theorem), so no fairness assumption is used.",
        rule="relay: 1-3 peers on TCP or Unix listeners, 0-10239 prefetched bytes (beyond the 8192-byte buffer of the pump), 0-5 client chunks and 0-5 chunks per upstream of 1-600000 bytes with 0-2 ms pauses, responses held back until the client's end-of-stream, client half-closing promptly / after it saw end-of-stream / after a pause, abrupt close by the client or one upstream at a random point (1 in 4); relayudp: 1-2 datagram upstreams that answer on the first datagram, client half-closing or closing; relayeof: a downstream transport that returns its last bytes together with end-of-stream (as TLS does); non-trivial = scenario completed; distinct = distinct observation lines",
        assumptions=["loopback TCP delivers every byte written before a half-close", "a reset may discard unread bytes (prefix-only judgement in fault scenarios)"],
    ),
    "C17": dict(
        lean_modules=["L4.Props.C17", "L4.Expect.C17"],
        stages=[
            dict(name="throttle", pkg="./modules/l4throttle/", test="TestVerifThrottle", files=THR, nq=3000, nt=60000),
            dict(name="thrtimed", pkg="./modules/l4throttle/", test="TestVerifThrottleTimed", files=THR, nq=24, nt=240, lean=False),
        ],
        level_text="Kernel-checked on a transition system of the throttle handler (Handle's latency timer, one rate.Limiter per connection plus one shared by the handler, Read = reserve on the total limiter, wait, reserve on the local limiter, wait, read at most the batch) for every interleaving of any number of connections, buffer sizes and clock advances: the bytes read through a connection never exceed burst + rate × (now − its first read), the bytes read through all connections of a handler never exceed total burst + total rate × (now − the first read), the batch never exceeds the caller's buffer or any configured burst, every read returns at most the batch it paid for, and no read is attempted before the latency has passed. The invariant (21 conjuncts incl. the bucket's conservation chain over the ghost list of reservations) is preserved by all five actions. Tied to the code by an exact differential (Provision's defaults and limiter creation, the slice handed to the client conn for every caller buffer size, and the reservation delays of golang.org/x/time/rate driven with explicit dyadic times) and by a real-time one-sided oracle on the real handler (1-8 connections, per-connection / total / both limiters, latency-only configurations, short client reads) that also checks the delivered stream byte by byte.",
        level_note="Trusted: Lean kernel, harness + driver, golang.org/x/time/rate (its reservation rule is re-stated in Lean and compared exactly on dyadic inputs; its handling of out-of-order clock readings between goroutines and float rounding are not modelled), Go timers. Partial: real time is judged with a 3 ms + 1 token allowance and a violation is reported only if it reproduces three times; stream integrity through the batching layer is C01's theorem.",
        rule="throttle: Provision over rates k/d and bursts incl. 0; batch over all limiter combinations × bursts × caller buffers 1-100000; bucket: 1-12 reservations at dyadic times on limiters of 256-2^20 tokens/s; thrtimed: 6 scenario kinds (local only, total only, both with either tighter, latency with and without limiter, short client reads) × rates 2 KiB/s-1 MiB/s × 1-8 connections × 300-600 ms; non-trivial = scenario completed / non-empty output",
        assumptions=["the observer's clock readings around each client read bracket the instant of the read", "rate.Limiter implements the token-bucket reservation rule"],
    ),
    "C05": dict(
        lean_modules=["L4.Props.C05", "L4.Expect.C05"],
        stages=[
            dict(name="timed", pkg="./layer4/", test="TestVerifTimed", files=L4 + ["layer4/verif_route_test.go", "layer4/verif_timed_test.go"], nq=40, nt=400, lean=False, seeded=True),
            dict(name="route", pkg="./layer4/", test="TestVerifRoute", files=L4 + ["layer4/verif_route_test.go"], nq=4000, nt=40000,
                 only_sigs=["prefetch-without-deadline", "handler-read-under-deadline", "dropped-though-decided"]),
            dict(name="conn", pkg="./layer4/", test="TestVerifConn", files=L4 + ["layer4/verif_conn_test.go"], nq=3000, nt=40000,
                 only_sigs=["buffer-bound", "prefetch-full-read"], ignore_diffs=True),
        ],
        level_text="Kernel-checked on a timed connection model (arrivals with times, explicit read deadline): a prefetch times out only if a deadline is armed and nothing arrives by it (not early), succeeds no later than the deadline, never times out without a deadline, adds at most one chunk and is refused at MaxMatchingBytes (buffer < limit + chunk); arming always sets the instant computed on entry (absolute deadline); on the router transcription every handler is invoked on a connection with the deadline cleared and an abort returns without further handler or fallback. The router model is tied to Compile by C02's trace differential; deadline bookkeeping of every socket read (matching reads armed, handler reads not) is judged on the real Compile, and real-time scenarios (silent, late, trickle, flood, handler after match, non-terminal then undecided, nested subroute; TCP-like conn with real deadlines and the real UDP packetConn via servePacket, start phases swept across the wall-clock second) are judged with a [timeout − 8 ms, timeout + 300 ms] window.",
        level_note="Trusted: Lean kernel, harness, Go timers. Partial: scheduling slack is a tolerance, not a theorem; matcher CPU time is zero in the model; the timed scenarios are not diffed against the model (oracle only), a timing verdict is reported only if it reproduces three times; 'the connection is closed' after an abort is server.handle's deferred Close (not observed here).",
        rule="timed: 10 scenario kinds × timeouts {120, 200, 300, 420} ms run 12 at a time; route: C02's random route lists with per-read deadline bookkeeping; conn: C01's op sequences judged for the buffer bound; non-trivial = scenario completed; distinct = distinct outputs",
        assumptions=['wall-clock measurements on a loaded machine stay within 300 ms of the modelled instant'],
    ),
    "C13": dict(
        lean_modules=["L4.Props.C13", "L4.Expect.C13"],
        stages=[dict(name="listener", pkg="./layer4/", test="TestVerifListener", files=L4 + ["layer4/verif_route_test.go", "layer4/verif_listener_test.go", "layer4/verif_hooks_test.go"], nq=30, nt=600,
                     streams=["listener", "ltrace"], lean_streams=["ltrace"]),
                dict(FULLSTACK, only_sigs=["wrapper-handoff", "wrapper-consumed"])],
        level_text='Kernel-checked on a transition system of the listener wrapper (accept loop, handler goroutines, connChan with capacity, done, wg, Close, consumer Accept) for every interleaving: a connection is delivered or closed by layer4 at most once in total (closed ones are never delivered), no send on a closed channel, the channel is closed only when no handler is left, and in every terminal state after Close everything accepted has been delivered or closed and no handler remains. The protocol facts the model encodes (close(connChan) only after wg.Wait, close(done) then drain, pipeConnection returns errHijacked, handle closes unless hijacked, Accept selects both channels) are regenerated from listener.go and checked by theorem on every run; the real listener is driven over loopback TCP with tagged clients of five classes, slow consumers and Close at arbitrary points, and judged for exactly-once delivery, intact streams, closure and goroutine drain; in addition the hook events of every history (accept, pipeStart / pipeSend, finish, consume, drain, close, loopExit, closeChan; build tag verif) are linearised and replayed through the runActs function of the model itself: a real execution that is not a run of the model breaks the correspondence.',
        level_note='Trusted: Lean kernel, extractor AST patterns, harness, Go channel / WaitGroup semantics as modelled. Delivery after TLS termination with the connection state exposed is exercised by the full-stack stage (real HTTP server behind the listener wrapper, https and http clients); the trace monitor searches for a linearisation (hooks fire after the operation they report, so reports of different goroutines may be reordered; the model over-approximates channel FIFO order for that reason); the replay through runActs decides.',
        rule='histories of 1-64 concurrent clients (fall-through, partially consumed, terminally consumed, rejected by matcher error, multi-round prefetch), prompt or accept-all-then-read consumers, Close after 0/1/3/10 accepts or after all deliveries, GOMAXPROCS 1-16 (= channel capacity), plus address-only routes with a consumer reading after the matching timeout; non-trivial = history completed; distinct = distinct summaries',
        assumptions=['connections still in the kernel accept queue are reset when the inner listener closes (counts as closed)'],
    ),
    "C08": dict(
        lean_modules=["L4.Props.C08", "L4.Expect.C08"],
        stages=[dict(name="listener", pkg="./layer4/", test="TestVerifListener", files=L4 + ["layer4/verif_route_test.go", "layer4/verif_listener_test.go", "layer4/verif_hooks_test.go"], nq=30, nt=300, lean=False,
                     only_sigs=["cross-talk", "delivered-stream", "terminal-stream", "data-race"]),
                dict(name="lbconc", pkg="./modules/l4proxy/", test="TestVerifLBConcurrent", files=PROXY + ["modules/l4proxy/verif_conc_test.go"], nq=6, nt=40, lean=False),
                dict(FULLSTACK, only_sigs=["cross-talk", "misrouted", "wrapper-handoff"]),
                # the race detector as witness search for the access table (both tiers; small counts under -race)
                dict(name="race-listener", streams=["listener"], pkg="./layer4/", test="TestVerifListener", files=L4 + ["layer4/verif_route_test.go", "layer4/verif_listener_test.go", "layer4/verif_hooks_test.go"],
                     nq=8, nt=60, lean=False, goflags=["-race"], only_sigs=["cross-talk", "delivered-stream", "terminal-stream", "data-race"]),
                dict(name="race-lb", streams=["lbconc"], pkg="./modules/l4proxy/", test="TestVerifLBConcurrent", files=PROXY + ["modules/l4proxy/verif_conc_test.go"],
                     nq=2, nt=12, lean=False, goflags=["-race"]),
                dict(name="race-match", streams=["match"], pkg="./integration/", test="TestVerifMatchParallel", files=INTEG + ["integration/verif_chain_test.go", "integration/verif_match_test.go", "integration/verif_match2_test.go", "integration/verif_match3_test.go", "integration/verif_matchpar_test.go"],
                     nq=1, nt=4, lean=False, goflags=["-race"], only_sigs=["data-race", "parallel-verdict"]),
                ],
        level_text="Kernel-checked for every interleaving of any number of connections: the pooled matching buffer is never in the pool while a live (handling or handed-off) connection refers to it and no connection ever reads bytes written by another's prefetch — for the protocol instantiated from facts regenerated from listener.handle / Server.handle (is the buffer Put on the hijack path?); every access the extractor finds to the shared fields (round-robin counter, peer counters, OpenVPN last digest, packetConn deadline) goes through sync/atomic. Cross-talk search on the real listener wrapper with concurrent tagged streams and slow consumers; exact-turn accounting of concurrent round-robin selections; the Go race detector over the listener, load-balancer and shared-matcher-instance harnesses as witness search.",
        level_note="Trusted: Lean kernel, extractor (field access classification), harness, sync/atomic and the Go memory model, the race detector. Partial: data-race freedom is proved only for the extracted access table; accesses it does not classify (Connection byte counters, tee's shared Connection, throttle limiter internals) are covered by the race-detector stages only; routing-verdict independence follows from Compile keeping all routing state in per-call locals (not extracted).",
        rule='listener histories as C13; 4-16 goroutines × 6000-21000 round-robin selections with concurrent peer counter updates; 8 goroutines re-evaluating 160-200 matcher cases (incl. well-formed OpenVPN tls-auth resets on one matcher instance); non-trivial = history completed',
        assumptions=['a race needs the two accesses to actually overlap in a run to be reported by the detector'],
    ),
    "C07": dict(
        lean_modules=["L4.Props.C07", "L4.Expect.C07"],
        stages=[dict(name="hello", pkg="./modules/l4tls/", test="TestVerifTLS", files=["modules/l4tls/verif_common_test.go", "modules/l4tls/verif_tls_test.go"], nq=600, nt=20000)],
        level_text="Kernel-checked: for every well-formed extension block (server_name, ALPN, supported_versions, supported_groups and unknown extensions in any order, at most one host name, no trailing dot) the Lean model of parseRawClientHello's extension loop — which mirrors all sixteen extension cases and every early return — reads back exactly what a reference encoder written from RFC 8446/6066/7301 put in; the legacy-version fallback table; records that are not a handshake never match and an incomplete record is never decided; ALPN matching = some configured protocol is offered. The model is tied to the real parser by a field-level differential over hellos of crypto/tls clients (fresh, TLS 1.2 ticket resumption, TLS 1.3 PSK resumption) and byte-level mutations of them; for every unmutated hello the parser's server name, ALPN list, versions, cipher suites and curves are compared with the tls.ClientHelloInfo that Go's TLS server reports for the same bytes, and the matcher verdict, the {l4.tls.server_name} placeholder, the alpn sub-matcher, proper prefixes (undecided) and non-handshake record types are judged through the public Match.",
        level_note="Trusted: Lean kernel, harness + driver, crypto/tls (oracle for agreement, not modelled), golang.org/x/crypto/cryptobyte (its reads are re-stated in Lean and compared by the differential). Partial: the parse∘encode theorem covers the extension block, not the fixed hello prefix (random, session id, suites, compression: differential only) and not the other eleven extension kinds' payloads (mirrored for control flow, differential only); hellos fragmented over several records are outside what Go clients emit.",
        rule='hellos from crypto/tls clients over 6 server names × 5 ALPN lists × 5 version ranges × 3 curve preferences × session cache, resumption hellos after a full in-process handshake (TLS 1.2 ticket, TLS 1.3 PSK), and 6 kinds of byte-level mutation (bit flip, byte overwrite, truncation, extension, dot injection, swap) with the record length fixed up; non-trivial = parser output with at least one extension; distinct = distinct outputs',
        assumptions=['GetConfigForClient of a crypto/tls server reports the hello as the terminating server sees it'],
    ),
    "C16": dict(
        lean_modules=["L4.Props.C16", "L4.Expect.C16"],
        stages=[dict(name="socks5", pkg="./modules/l4socks/", test="TestVerifSocks5", files=["modules/l4socks/verif_common_test.go", "modules/l4socks/verif_socks_test.go"], nq=400, nt=8000)],
        level_text="Kernel-checked on a model of Provision (commands → rule with the CONNECT+ASSOCIATE default, credentials → authentication required, only non-empty user names can log in) composed with the server dialogue: every outbound action implies that the command is enabled in the provisioned rule and, when credentials are configured, that the client presented a configured (user, password) pair with a non-empty name; an empty user name never authenticates; a disabled command never leads to an action; a client offering only `no authentication` gets no service when credentials are configured. The model is tied to the real handler by an outcome differential over scripted dialogues (method lists, logins, all command codes and address types, placeholder-resolved and unknown commands, empty-name credentials), and the property's predicate is evaluated on the implementation with a loopback target counting outbound connections.",
        level_note='Trusted: Lean kernel, harness + driver. The dialogue part of the model describes things-go/go-socks5 (third party): validated by the differential, not proved against its source; FQDN requests are resolved by the library before the rule check (only `localhost` is generated); BIND is refused by the library even when enabled.',
        rule='random configurations (0-3 commands incl. mixed case, `{env.…}` placeholders and unknown names; 0-2 credential entries incl. empty and placeholder names) × clients (1-3 offered methods from {0,1,2,0x80}, 5 users × 4 passwords, commands {1,2,3,0,4,255}, address types IPv4 / FQDN / IPv6 / invalid); non-trivial = dialogue completed; distinct = distinct (case, outcome)',
        assumptions=['an outbound CONNECT is visible as an accepted connection at the loopback target or as a success reply'],
    ),
    "C09": dict(
        lean_modules=["L4.Props.C09", "L4.Expect.C09"],
        stages=[dict(name="udp", pkg="./layer4/", test="TestVerifUDP", files=L4 + ["layer4/verif_udp_test.go", "layer4/verif_hooks_test.go"], nq=24, nt=400,
                     streams=["udp", "utrace"], lean_streams=["utrace"]),
                dict(FULLSTACK, only_sigs=["udp-echo"])],
        level_text="Kernel-checked on a transition system of servePacket / packetConn (reader goroutine, packets / readCh / closeCh with their capacities, association table, done flag, idle expiry, Close) for every interleaving over any number of client addresses: every datagram an association receives was sent by its own client, associations receive in arrival order without duplication, the table always points to an association of that address, a closed association never receives a later datagram (a fresh one is started), and no channel is ever closed while it may be sent to (the loop never crashes). The invariant (10 conjuncts) is preserved by all seven actions (incl. the datagram dropped because its association was closed while the loop waited for room). The structural fact `Close does not close readCh` is regenerated from the source; the real loop is driven over loopback sockets with 1-6 clients, bursts beyond the channel capacities and four handler behaviours, and judged for ownership, order, reply routing, one live association per client, freshness after end and survival; the hook events of every history (arrive, new / enqueue / drop, close notification, read, close; build tag verif) are linearised and replayed through the runActs function of the model, so a real execution that is not a run of the model (a datagram queued to the association of another client, a second live association for one client, a notification removing a newer association) breaks the correspondence. The pre-repair protocol's crash trace is kept as a kernel-checked witness.",
        level_note='Trusted: Lean kernel, harness, Go channel semantics as modelled, the OS delivering loopback datagrams in order. Partial: datagram loss when an association closes with a full queue is allowed by the model (UDP); the 30 s idle timer is modelled as an action but not exercised in real time; the trace monitor searches for a linearisation of the hook log (reports may be late relative to the operation), the replay through runActs decides.',
        rule='histories: 1-6 client sockets × 3-120 datagrams each (paced or in bursts of 16) plus two late datagrams, handler modes echo / return after one datagram / close then linger / read in 5-byte pieces, leave one half read and close twice; non-trivial = history completed; distinct = distinct summaries',
        assumptions=['loopback UDP does not reorder datagrams of one socket'],
    ),
    "C12": dict(
        lean_modules=["L4.Props.C12", "L4.Expect.C12"],
        stages=[
            dict(name="pp", pkg="./integration/", test="TestVerifPP", files=INTEG + ["integration/verif_chain_test.go", "integration/verif_pp_test.go"], nq=300, nt=6000),
            dict(name="chain", pkg="./integration/", test="TestVerifChain", files=INTEG + ["integration/verif_chain_test.go"], nq=500, nt=3000, lean=False,
                 only_sigs=["stream", "pp-addr", "chain-error", "recorder-missing"]),
        ],
        level_text='Kernel-checked: strip-exactness on the C01 connection model for every read pattern of the header parser; a v2 header emitted for IPv4 TCP/UDP addresses parses back (by a parser written from the specification) to the same addresses with a length equal to the bytes emitted; emitted v1/v2 headers carry the signature the proxy_protocol matcher accepts; the allow decision is `no rules or some rule contains the peer`, independent of rule order. The Lean v1/v2 encoders are tied to the bytes the real proxy handler sends to loopback upstreams (exact differential); received-header handling (strip, honoured addresses, untrusted pass-through, allow lists) and sent headers (one per peer, configured version, effective addresses, then the stream) are judged on the implementation with an independent parser.',
        level_note="Trusted: Lean kernel, harness + driver, mastercactapus/proxyprotocol's header parser (library; its output is compared with the addresses the harness put in). Partial: v1 textual IPv6 and the parse-back theorem for IPv6 / v1 are differential-only; UNIX addresses not generated.",
        rule="pp: random client/server TCP addresses (IPv4 3/4, IPv6 1/4), proxy_protocol v1/v2 on the proxy handler, 1-2 peers per upstream, optional received v1/v2 header with no / containing / excluding allow list, payloads 0-9000 bytes in 4 segmentation modes; chain: C01's real-handler chains with proxy_protocol in front; non-trivial = a header was sent; distinct = distinct header bytes",
        assumptions=['loopback upstream listeners read until EOF; 5 s wait per peer'],
    ),
    "C10": dict(
        lean_modules=["L4.Props.C10", "L4.Expect.C10"],
        stages=[dict(name="lb", pkg="./modules/l4proxy/", test="TestVerifLB", files=PROXY + ["modules/l4proxy/verif_lb_test.go"], nq=4000, nt=100000)],
        level_text='Kernel-checked for every pool (any size, any peer state) and every outcome of the random source: each of first, random, least_conn, round_robin (every counter value, also across the uint32 wrap), ip_hash and random_choose returns an upstream that is in the pool and available, and returns none exactly when none is available; first picks the earliest. The models transcribe the Go loops with the random source as an explicit oracle and are tied to the code by a differential on pools built in-package (deterministic policies: exact; randomised: observed outcomes over 400 draws ⊆ model-possible outcomes, enumerated over all oracles). Cycle, minimality, determinism and consistency-under-removal are judged on the implementation.',
        level_note="Trusted: Lean kernel, harness + driver, math/rand (any value possible), hash/fnv (re-implemented in Lean, compared by the differential). least_conn minimality, ip_hash = highest FNV weight among the available upstreams (rendezvous hashing: a choice changes only when the upstream carrying the highest weight leaves or a heavier one joins) and round robin's turn (the upstream at slot counter+1 is returned when available, counter advances by one) are theorems; the full-cycle statement with unavailable upstreams in between is oracle-checked on the implementation.",
        rule='pools of 0-8 upstreams (0-4 for randomised policies) with 1-2 peers, random health / failure / connection counters and limits, client IPs v4/v6 incl. pairs whose FNV-1a hash is 0, round-robin counters incl. 2^32-2 / 2^32-1, 1-17 consecutive selections; non-trivial = pool with at least one upstream; distinct = distinct outputs',
        assumptions=['400 draws per randomised case observe a subset of the possible outcomes'],
    ),
    "C18": dict(
        lean_modules=["L4.Props.C18", "L4.Expect.C18"],
        stages=[dict(name="codec", pkg="./integration/", test="TestVerifCodec", files=INTEG + ["integration/verif_codec_test.go"], nq=30000, nt=600000)],
        level_text='Both inverse laws and exact-length rejection are kernel-checked once for every fixed layout and instantiated for the fixed-size RDP / WireGuard / OpenVPN types; the Go FromBytes / ToBytes are tied to the layouts (and WinBox to its Go-shaped model) by a field-level differential, and both laws are evaluated on the implementation for every exported type, over all lengths around the accepted sizes.',
        level_note='Trusted: Lean kernel, harness + driver, encoding/binary. Partial: WinBox MessageAuth and the OpenVPN auth/crypt/crypt2/WrappedKey types have no round-trip theorem (WinBox: Go-shaped model + differential + oracle; OpenVPN keyed types: oracle only).',
        rule='random byte strings of length L+d (d in {0,±1,±2,5,64,-L}) around every accepted size of 12 message types, structurally plausible WinBox messages, generated well-formed WinBox messages (user names 1-255); non-trivial = parser accepted or model-covered type; distinct = distinct outputs',
        assumptions=['encoding/binary.Read/Write of fixed-size structs is the layout codec (sampled by the differential)'],
    ),
    "C14": dict(
        lean_modules=["L4.Props.C14", "L4.Expect.C14"],
        stages=[dict(MATCH, only_sigs=["spec-mismatch:"])],
        level_text="Kernel-checked equivalences `model verdict = yes ↔ declarative wire predicate` (ssh, proxy_protocol, regexp, clock, ip, not, dns decision table and message conditions, wireguard); every matcher's executable model (incl. postgres, socks4/5, winbox, rdp, openvpn plain, tls framing, http request-line test) is tied to the Go Match by a verdict differential over structured, corrupted and random messages, and the Go verdict on generated complete messages is compared with reference predicates stated by the generators.",
        level_note='Trusted: Lean kernel, harness + driver. Parameters (not modelled): Go regexp (anchored literal prefixes only in the differential), miekg/dns Unpack, net/http.ReadRequest + caddyhttp sub-matchers, OpenVPN keyed modes, tls handshake sub-matchers (C07). Partial: postgres/socks/winbox/rdp/openvpn/http have model + differential + generator-stated expectation but no `↔ Spec` theorem yet.',
        rule="messages built from each protocol's wire definition with configured filters (commands, ports, CIDRs, user names, cookie hashes, DNS allow/deny rules, reserved bytes, time windows, address ranges), single-field corruptions, 0-2 random mutations, evaluated on the whole message and on ~26 prefixes; non-trivial = verdict other than `more`; distinct = distinct (case, verdict) lines",
        assumptions=['regexp filters in generated configurations are anchored literal prefixes', 'DNS rule matching reference = exact class/type/name equality (no regexp rules generated)'],
    ),
    "C06": dict(
        lean_modules=["L4.Props.C06", "L4.Expect.C06"],
        stages=[dict(MATCH, only_sigs=["socket-read:", "nondeterministic:", "no-not-stable:", "fragment-rejected:", "set-not-conjunction"]),
                # routing across several routes is where fragment-insensitivity is realised (cached verdicts, re-evaluation after a
                # non-terminal handler): C02's routed traces, judged by the verdict-consistency predicates only
                dict(name="route", pkg="./layer4/", test="TestVerifRoute", files=L4 + ["layer4/verif_route_test.go"], nq=3000, nt=40000,
                     only_sigs=["passed-over", "fallback-undecided", "dropped-though-matched", "ran-unmatched"])],
        level_text='Kernel-checked: in matching mode no read pattern reaches the socket or changes the buffer and unfreeze restores the cursor (any matcher); verdict stability, `no` stays `no` and fragmentation safety for every ReadFull-only matcher program, instantiated for ssh, xmpp, postgres, socks4, socks5, proxy_protocol, regexp, tls. Tied to the code by the verdict differential over all sampled prefixes; purity, determinism, monotonicity, routed re-evaluation of fragmented messages on one Connection, and conjunction of matcher sets are judged on the implementation.',
        level_note="Trusted: Lean kernel, harness + driver; io.ReadFull / io.ReadAtLeast on a frozen Connection behave as Prog.run (sampled op-by-op by C01's conn differential, not proved). Known finding: WinBox two-chunk fragments (kernel-checked witness winbox_fragment_rejected_violation). Partial: http's verdict after the request-line test depends on net/http (oracle only); rdp, dns/tcp, openvpn/tcp, winbox are exact-length matchers (yes is not stable by design).",
        rule='as C14; in addition every message that matches whole (≤ 8192 bytes) is delivered through RouteList.Compile in all two-way splits (≤ 160 bytes) or three random splits, and 1 in 8 messages is evaluated in a two-matcher set; route: the random multi-route lists of C02 and arrival schedules (routing outcome must be consistent with the verdicts of the matchers on the bytes received, whatever the segmentation); non-trivial = verdict other than `more`',
        assumptions=[],
    ),
    "C04": dict(
        lean_modules=["L4.Props.C04", "L4.Expect.C04"],
        stages=[dict(MATCH, only_sigs=["panic:", "alloc:"])],
        level_text="Kernel-checked totality (never `panic`, read buffers ≤ 32 × MaxMatchingBytes) for every byte string of the models of ssh, xmpp, proxy_protocol, regexp, socks4, socks5, postgres (ReadString / parameter loops), tls framing, wireguard, winbox (chunk loop, delimiter search) and http's request-line indexing; the models mirror each Go index / slice / make with checked primitives and are bound to the code by regenerated index/slice/make censuses and the verdict differential; every matcher incl. rdp, dns, openvpn, quic-free set and the HTTP/2 path is run under recover() with measured allocation.",
        level_note='Trusted: Lean kernel, harness + driver, third-party parsers (cryptobyte, miekg/dns, net/http, x/net/http2, hpack) whose panic-freedom is only sampled. Partial: rdp body, dns and openvpn framing have models and differential but no totality theorem yet; quic matcher and the parsing handlers (socks5, tls, proxy_protocol header parser) are library code: not covered by a theorem.',
        rule='as C14 (every generated message and ~26 prefixes per message, TCP- and UDP-like addresses); non-trivial = verdict other than `more`',
        assumptions=['runtime.MemStats.TotalAlloc delta around Match measures the allocation of the call (single goroutine)'],
    ),
    "C01": dict(
        lean_modules=["L4.Props.C01", "L4.Expect.C01"],
        stages=[
            dict(name="conn", pkg="./layer4/", test="TestVerifConn", files=L4 + ["layer4/verif_conn_test.go"], nq=4000, nt=80000),
            dict(name="chain", pkg="./integration/", test="TestVerifChain", files=INTEG + ["integration/verif_chain_test.go"],
                 nq=600, nt=4000, lean=False),
            dict(FULLSTACK, only_sigs=["upstream-stream", "client-stream", "cross-talk", "misrouted"]),
            # the routed traces of C02, judged here only by the stream predicate (bytes seen by successive handlers)
            dict(name="route", pkg="./layer4/", test="TestVerifRoute", files=L4 + ["layer4/verif_route_test.go"],
                 nq=3000, nt=40000, only_sigs=["stream"], ignore_diffs=True),
        ],
        level_text="Kernel-checked theorems on a layered connection model (layer4.Connection with buffer/cursor/matching mode over "
                   "socket, bufio, batching and tee layers): every read pattern returns the stream in order, matchers are rewound, "
                   "prefetch and the repaired Wrap keep the stream, and composed with the router transcription every handler and "
                   "the fallback see the stream minus a consumed prefix. The model is tied to the real Connection by an "
                   "op-sequence differential; real tee / proxy_protocol / throttle / subroute chains are judged by a byte-exact oracle.",
        level_note="Trusted: Lean kernel; harness + driver; io/bufio semantics as modelled. Real TLS termination is exercised by the full-stack stage (real Caddy instance, tls handler, TLS 1.2 / 1.3 clients; "
                   "crypto/tls itself is outside the model); slice aliasing of the pooled buffer is C08's subject.",
        rule="conn: random disciplined op sequences (read / prefetch / freeze-reads-unfreeze / Wrap with passthrough, bufio, "
             "batching, tee wrappers / drain) on the real layer4.Connection over scripted sockets with 0-8 chunks of 1-9000 bytes, "
             "diffed against the Lean model; chain: random chains of the real throttle, tee, proxy_protocol, subroute handlers "
             "and recorders behind a matcher forcing 0-8192 bytes of prefetch, payloads 0-40000 bytes in 4 segmentation modes; "
             "route: C02's routed traces judged by the stream predicate; non-trivial = non-empty output; distinct = distinct outputs",
        assumptions=["bufio.Reader / io.TeeReader / io.ReadFull behave as modelled (sampled by the differential)"],
    ),
    "C02": dict(
        lean_modules=["L4.Props.C02", "L4.Expect.C02"],
        stages=[
            dict(name="route", pkg="./layer4/", test="TestVerifRoute", files=L4 + ["layer4/verif_route_test.go"],
                 nq=4000, nt=60000),
            # the shipped subroute / tee / proxy_protocol / throttle handlers in one provisioned route list serving several
            # connections: every handler after a matched non-terminal one must run, for every connection
            dict(name="chain", pkg="./integration/", test="TestVerifChain", files=INTEG + ["integration/verif_chain_test.go"],
                 nq=400, nt=3000, lean=False, only_sigs=["recorder-missing", "chain-fallback", "chain-error", "handler-ran-twice"]),
        ],
        level_text="Kernel-checked theorems about a line-by-line Lean transcription of RouteList.Compile / MatcherSet / MatcherSets / "
                   "MatchNot for every route list, matcher, handler and arrival schedule; the transcription is tied to the code on every "
                   "run by a trace differential against the real Compile, and the property's predicates are evaluated on the "
                   "implementation's own traces by an independent reference evaluator.",
        level_note="Trusted: Lean kernel; harness + driver; Go runtime. Modelled not verified: handlers/matchers are scripted harness "
                   "modules (real `not`, real Compile, subroute re-stated in-package); 'the chosen route is the first matching one' is a theorem for every "
                   "pass (pass_runs_first_match: routes passed over answer no / are behind the last match / asked for more in a prefetch round; "
                   "the cached `not matched` verdicts rely on C06's monotonicity); the conditions under which the fallback runs are checked by "
                   "the oracles on generated cases.",
        rule="random route lists (0-5 routes, matcher sets with AND/OR/not, nested subroutes to depth 2, terminal / "
             "non-terminal / failing handlers consuming 0-9000 bytes) x random arrival schedules (0-6 chunks of 0-10000 bytes) "
             "run through the real RouteList.Compile and through the Lean transcription; chain: real subroute / tee / proxy_protocol / "
             "throttle handlers provisioned once and serving 1-3 connections; non-trivial = non-empty trace; "
             "distinct = distinct traces",
        assumptions=["matchers and handlers in the differential are the harness' scripted ones (real `not`); purity of "
                     "matchers is C06's subject"],
    ),
}

"""Per-property configuration of ./check: Lean theorem modules and harness stages."""

L4 = ["layer4/verif_common_test.go"]

PROPS = {
    "C02": dict(
        lean_modules=["L4.Props.C02"],
        stages=[
            dict(name="route", pkg="./layer4/", test="TestVerifRoute", files=L4 + ["layer4/verif_route_test.go"],
                 nq=4000, nt=60000),
        ],
        level_text="Kernel-checked theorems about a line-by-line Lean transcription of RouteList.Compile / MatcherSet / MatcherSets / "
                   "MatchNot for every route list, matcher, handler and arrival schedule; the transcription is tied to the code on every "
                   "run by a trace differential against the real Compile, and the property's predicates are evaluated on the "
                   "implementation's own traces by an independent reference evaluator.",
        level_note="Trusted: Lean kernel; harness + driver; Go runtime. Modelled not verified: handlers/matchers are scripted harness "
                   "modules (real `not`, real Compile, subroute re-stated in-package); liveness ('the chosen route is the first matching "
                   "one') is checked by the abort/fallback oracles on generated cases, the theorems cover the safety part.",
        rule="random route lists (0-5 routes, matcher sets with AND/OR/not, nested subroutes to depth 2, terminal / "
             "non-terminal / failing handlers consuming 0-9000 bytes) x random arrival schedules (0-6 chunks of 0-10000 bytes) "
             "run through the real RouteList.Compile and through the Lean transcription; non-trivial = non-empty trace; "
             "distinct = distinct traces",
        assumptions=["matchers and handlers in the differential are the harness' scripted ones (real `not`); purity of "
                     "matchers is C06's subject"],
    ),
}

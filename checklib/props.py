"""Per-property configuration of ./check: Lean theorem modules and harness stages."""

L4 = ["layer4/verif_common_test.go"]
INTEG = ["integration/verif_common_test.go"]

MATCH = dict(name="match", pkg="./integration/", test="TestVerifMatch", files=INTEG + ["integration/verif_chain_test.go", "integration/verif_match_test.go", "integration/verif_match2_test.go", "integration/verif_match3_test.go"],
             nq=60000, nt=600000)

PROPS = {
    "C14": dict(
        lean_modules=["L4.Props.C14"],
        stages=[dict(MATCH, only_sigs=["spec-mismatch:"])],
        level_text="x", level_note="y",
    ),
    "C06": dict(
        lean_modules=["L4.Props.C06"],
        stages=[dict(MATCH, only_sigs=["socket-read:", "nondeterministic:", "no-not-stable:", "fragment-rejected:", "set-not-conjunction"])],
        level_text="x", level_note="y",
    ),
    "C04": dict(
        lean_modules=["L4.Props.C04", "L4.Expect.C04"],
        stages=[dict(MATCH, only_sigs=["panic:", "alloc:"])],
        level_text="x", level_note="y",
    ),
    "C01": dict(
        lean_modules=["L4.Props.C01", "L4.Expect.C01"],
        stages=[
            dict(name="conn", pkg="./layer4/", test="TestVerifConn", files=L4 + ["layer4/verif_conn_test.go"], nq=4000, nt=80000),
            dict(name="chain", pkg="./integration/", test="TestVerifChain", files=INTEG + ["integration/verif_chain_test.go"],
                 nq=600, nt=20000, lean=False),
            # the routed traces of C02, judged here only by the stream predicate (bytes seen by successive handlers)
            dict(name="route", pkg="./layer4/", test="TestVerifRoute", files=L4 + ["layer4/verif_route_test.go"],
                 nq=3000, nt=40000, only_sigs=["stream"], ignore_diffs=True),
        ],
        level_text="Kernel-checked theorems on a layered connection model (layer4.Connection with buffer/cursor/matching mode over "
                   "socket, bufio, batching and tee layers): every read pattern returns the stream in order, matchers are rewound, "
                   "prefetch and the repaired Wrap keep the stream, and composed with the router transcription every handler and "
                   "the fallback see the stream minus a consumed prefix. The model is tied to the real Connection by an "
                   "op-sequence differential; real tee / proxy_protocol / throttle / subroute chains are judged by a byte-exact oracle.",
        level_note="Trusted: Lean kernel; harness + driver; io/bufio semantics as modelled. Partial: real TLS termination is not in the "
                   "chain stage (the TLS handler wraps with the same Wrap; crypto/tls is outside the model); slice aliasing of the "
                   "pooled buffer is C08's subject.",
        rule="conn: random disciplined op sequences (read / prefetch / freeze-reads-unfreeze / Wrap with passthrough, bufio, "
             "batching, tee wrappers / drain) on the real layer4.Connection over scripted sockets with 0-8 chunks of 1-9000 bytes, "
             "diffed against the Lean model; chain: random chains of the real throttle, tee, proxy_protocol, subroute handlers "
             "and recorders behind a matcher forcing 0-8192 bytes of prefetch, payloads 0-40000 bytes in 4 segmentation modes; "
             "route: C02's routed traces judged by the stream predicate; non-trivial = non-empty output; distinct = distinct outputs",
        assumptions=["bufio.Reader / io.TeeReader / io.ReadFull behave as modelled (sampled by the differential)"],
    ),
    "C02": dict(
        lean_modules=["L4.Props.C02", "L4.Expect.C02"],
        stages=[
            dict(name="route", pkg="./layer4/", test="TestVerifRoute", files=L4 + ["layer4/verif_route_test.go"],
                 nq=4000, nt=60000),
        ],
        level_text="Kernel-checked theorems about a line-by-line Lean transcription of RouteList.Compile / MatcherSet / MatcherSets / "
                   "MatchNot for every route list, matcher, handler and arrival schedule; the transcription is tied to the code on every "
                   "run by a trace differential against the real Compile, and the property's predicates are evaluated on the "
                   "implementation's own traces by an independent reference evaluator.",
        level_note="Trusted: Lean kernel; harness + driver; Go runtime. Modelled not verified: handlers/matchers are scripted harness "
                   "modules (real `not`, real Compile, subroute re-stated in-package); liveness ('the chosen route is the first matching "
                   "one') is checked by the abort/fallback oracles on generated cases, the theorems cover the safety part.",
        rule="random route lists (0-5 routes, matcher sets with AND/OR/not, nested subroutes to depth 2, terminal / "
             "non-terminal / failing handlers consuming 0-9000 bytes) x random arrival schedules (0-6 chunks of 0-10000 bytes) "
             "run through the real RouteList.Compile and through the Lean transcription; non-trivial = non-empty trace; "
             "distinct = distinct traces",
        assumptions=["matchers and handlers in the differential are the harness' scripted ones (real `not`); purity of "
                     "matchers is C06's subject"],
    ),
}

abbrev Bytes := List UInt8
inductive V | yes | no | more | err deriving DecidableEq, Repr
inductive St3 | needsMore | notMatched | matched deriving DecidableEq, Repr

structure Cx where
  buf : Bytes
  off : Nat
  pending : List Bytes
  deriving Repr
def Cx.avail (c : Cx) : Bytes := c.buf.drop c.off

inductive HRes | terminal | next (cx : Cx) | fail
structure Route where
  m : Bytes → V
  h : Cx → HRes

inductive Ev
  | run (i : Nat) (avail : Bytes)
  | fallback (avail : Bytes)
  | abort
  | herr (i : Nat)
  deriving Repr, DecidableEq

/-- lm / lnm are encoded +1 (0 = -1 in the Go code) -/
structure RS where
  lm : Nat := 0
  lnm : Nat := 0
  status : Nat → Option St3 := fun _ => none
  needMore : Bool := false

def RS.set (rs : RS) (i : Nat) (s : St3) : RS := { rs with status := fun j => if j = i then some s else rs.status j }

inductive PassOut
  | done (rs : RS) (cx : Cx) (tr : List Ev)
  | stop (tr : List Ev)

def pass : List Route → Nat → RS → Cx → List Ev → PassOut
  | [], _, rs, cx, tr => .done rs cx tr
  | r :: rest, i, rs, cx, tr =>
    if i + 1 ≤ rs.lm then pass rest (i+1) rs cx tr
    else if rs.status i = some .notMatched ∧ i + 1 ≤ rs.lnm then pass rest (i+1) rs cx tr
    else match r.m cx.avail with
      | .more =>
        let rs' := { rs.set i .needsMore with lnm := i + 1 }
        if !rs.needMore then .done rs' cx tr else pass rest (i+1) rs' cx tr
      | .err => .stop (tr ++ [.abort])
      | .no => pass rest (i+1) (rs.set i .notMatched) cx tr
      | .yes =>
        let rs' := { rs.set i .matched with lm := i + 1, lnm := i + 1 }
        let tr' := tr ++ [.run i cx.avail]
        match r.h cx with
        | .terminal => .stop tr'
        | .fail => .stop (tr' ++ [.herr i])
        | .next cx' => pass rest (i+1) rs' cx' tr'

def maxBytes := 8192
def chunk := 2048
def prefetch (cx : Cx) : Option Cx :=
  if cx.buf.length < maxBytes then
    match cx.pending with
    | [] => none
    | c :: cs => if c.length ≤ chunk then some { cx with buf := cx.buf ++ c, pending := cs }
                 else some { cx with buf := cx.buf ++ c.take chunk, pending := c.drop chunk :: cs }
  else none

def undecided (rs : RS) (n : Nat) : Bool := (List.range n).any fun i => i + 1 > rs.lm && rs.status i == some .needsMore

def round (routes : List Route) : Nat → RS → Cx → List Ev → List Ev
  | 0, _, _, tr => tr
  | f+1, rs, cx, tr =>
    match (if rs.needMore then prefetch cx else some cx) with
    | none => tr ++ [.abort]
    | some cx1 =>
      match pass routes 0 rs cx1 tr with
      | .stop tr' => tr'
      | .done rs' cx' tr' =>
        if rs'.lm = routes.length then tr' ++ [.fallback cx'.avail]
        else if undecided rs' routes.length then round routes f { rs' with needMore := true } cx' tr'
        else tr' ++ [.fallback cx'.avail]

/-- run indices in a trace -/
def runIdx : List Ev → List Nat
  | [] => []
  | .run i _ :: t => i :: runIdx t
  | _ :: t => runIdx t

theorem runIdx_append (a b : List Ev) : runIdx (a ++ b) = runIdx a ++ runIdx b := by
  induction a with
  | nil => rfl
  | cons e t ih => cases e <;> simp [runIdx, ih]

/-- invariant: all run indices so far are < lm (encoded), strictly increasing -/
def RInv (rs : RS) (tr : List Ev) : Prop :=
  (runIdx tr).Pairwise (· < ·) ∧ ∀ j ∈ runIdx tr, j + 1 ≤ rs.lm

def Good (rs : RS) : PassOut → Prop
  | .done rs' _ tr' => RInv rs' tr' ∧ rs.lm ≤ rs'.lm
  | .stop tr' => (runIdx tr').Pairwise (· < ·)

theorem good_mono {rs0 rs1 : RS} {o : PassOut} (h : rs0.lm ≤ rs1.lm) (g : Good rs1 o) : Good rs0 o := by
  cases o with
  | done rs' cx tr' => exact ⟨g.1, Nat.le_trans h g.2⟩
  | stop tr' => exact g

theorem pass_inv (routes : List Route) (i : Nat) (rs : RS) (cx : Cx) (tr : List Ev)
    (h : RInv rs tr) : Good rs (pass routes i rs cx tr) := by
  induction routes generalizing i rs cx tr with
  | nil => exact ⟨h, Nat.le_refl _⟩
  | cons r rest ih =>
    unfold pass
    by_cases c1 : i + 1 ≤ rs.lm
    · rw [if_pos c1]; exact ih _ _ _ _ h
    · rw [if_neg c1]
      by_cases c2 : rs.status i = some .notMatched ∧ i + 1 ≤ rs.lnm
      · rw [if_pos c2]; exact ih _ _ _ _ h
      · rw [if_neg c2]
        cases hm : r.m cx.avail with
        | more =>
          simp only []
          by_cases c3 : (!rs.needMore) = true
          · rw [if_pos c3]; exact ⟨h, Nat.le_refl _⟩
          · rw [if_neg c3]
            exact good_mono (Nat.le_refl _) (ih (i+1) _ cx tr h)
        | err => simpa [Good, runIdx_append, runIdx] using h.1
        | no => exact good_mono (Nat.le_refl _) (ih (i+1) (rs.set i .notMatched) cx tr h)
        | yes =>
          simp only []
          have hinv' : RInv ({ rs.set i .matched with lm := i + 1, lnm := i + 1 }) (tr ++ [.run i cx.avail]) := by
            constructor
            · simp [runIdx_append, runIdx, List.pairwise_append]
              refine ⟨h.1, ?_⟩
              intro a ha; have := h.2 a ha; omega
            · intro j hj
              simp [runIdx_append, runIdx] at hj
              rcases hj with hj | hj
              · have := h.2 j hj; simp; omega
              · subst hj; simp
          cases hh : r.h cx with
          | terminal => exact hinv'.1
          | fail => simpa [Good, runIdx_append, runIdx] using hinv'.1
          | next cx' =>
            simp only []
            refine good_mono ?_ (ih (i+1) _ cx' _ hinv')
            simp [RS.set]; omega
#print axioms pass_inv

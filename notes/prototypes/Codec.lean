abbrev Bytes := List UInt8

def be16 (n : Nat) : Bytes := [UInt8.ofNat (n / 256), UInt8.ofNat (n % 256)]
def be32 (n : Nat) : Bytes := [UInt8.ofNat (n / 16777216), UInt8.ofNat (n / 65536 % 256), UInt8.ofNat (n / 256 % 256), UInt8.ofNat (n % 256)]
def rd32 : Bytes → Nat
  | [a,b,c,d] => a.toNat * 16777216 + b.toNat * 65536 + c.toNat * 256 + d.toNat
  | _ => 0

theorem rd32_be32 (n : Nat) (h : n < 4294967296) : rd32 (be32 n) = n := by
  simp only [rd32, be32, UInt8.toNat_ofNat']
  omega

theorem be32_rd32 (a b c d : UInt8) : be32 (rd32 [a,b,c,d]) = [a,b,c,d] := by
  have ha := a.toNat_lt; have hb := b.toNat_lt; have hc := c.toNat_lt; have hd := d.toNat_lt
  simp only [rd32, be32]
  have e1 : (a.toNat * 16777216 + b.toNat * 65536 + c.toNat * 256 + d.toNat) / 16777216 = a.toNat := by omega
  have e2 : (a.toNat * 16777216 + b.toNat * 65536 + c.toNat * 256 + d.toNat) / 65536 % 256 = b.toNat := by omega
  have e3 : (a.toNat * 16777216 + b.toNat * 65536 + c.toNat * 256 + d.toNat) / 256 % 256 = c.toNat := by omega
  have e4 : (a.toNat * 16777216 + b.toNat * 65536 + c.toNat * 256 + d.toNat) % 256 = d.toNat := by omega
  rw [e1, e2, e3, e4]; simp

/-- OpenVPN MessagePlain (14 bytes): opcode/keyid byte, session id (8), ack count (1), packet id (4) -/
structure Plain where
  opcode : Nat   -- < 32
  keyId : Nat    -- < 8
  session : Bytes -- 8 bytes kept raw for the prototype
  acks : UInt8
  pid : Nat      -- < 2^32
  deriving DecidableEq, Repr

def Plain.wf (m : Plain) : Prop := m.opcode = 7 ∧ m.keyId < 8 ∧ m.session.length = 8 ∧ m.pid < 4294967296

def encPlain (m : Plain) : Bytes := [UInt8.ofNat (m.keyId + m.opcode * 8)] ++ m.session ++ [m.acks] ++ be32 m.pid

def decPlain (b : Bytes) : Option Plain :=
  if b.length ≠ 14 then none else
  let h := (b.headD 0).toNat
  if h / 8 ≠ 7 then none else
  some { opcode := h / 8, keyId := h % 8, session := (b.drop 1).take 8, acks := (b.drop 9).headD 0, pid := rd32 (b.drop 10) }

theorem dec_enc (m : Plain) (h : m.wf) : decPlain (encPlain m) = some m := by
  obtain ⟨h1, h2, h3, h4⟩ := h
  obtain ⟨op, k, s, a, p⟩ := m
  simp only at h1 h2 h3 h4
  subst h1
  match s, h3 with
  | [s0,s1,s2,s3,s4,s5,s6,s7], _ =>
    have hp := rd32_be32 p h4
    simp only [be32] at hp
    simp only [encPlain, decPlain, be32]
    simp [hp]
    omega

#print axioms dec_enc
-- the converse direction is proved generically in Layout.lean (encode_decode)

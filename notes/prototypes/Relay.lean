/-! prototype (C03): duplex relay of Handler.proxy with one upstream, as a transition system -/
abbrev Bytes := List UInt8
structure St where
  cin : List Bytes        -- client → proxy, not yet pumped (includes prefetched bytes as first chunk)
  cfin : Bool             -- client has finished sending (FIN follows cin)
  upRecv : Bytes          -- what the upstream has received
  upEof : Bool            -- upstream observed end-of-stream (CloseWrite)
  uin : List Bytes        -- upstream → proxy, not yet copied
  ufin : Bool
  clRecv : Bytes
  clEof : Bool
  pumpDone : Bool
  copyDone : Bool
  downCW : Bool
  returned : Bool
  upClosed : Bool
  sentC : Bytes           -- ghost: everything the client sends
  sentU : Bytes           -- ghost: everything the upstream sends

inductive Act | pumpRead | pumpEOF | copyRead | copyEOF | mainCW | mainReturn deriving DecidableEq, Repr

def step (s : St) : Act → Option St
  | .pumpRead => match s.cin with
    | c :: cs => if s.pumpDone then none else some { s with cin := cs, upRecv := s.upRecv ++ c }
    | [] => none
  | .pumpEOF => if s.cin = [] ∧ s.cfin ∧ !s.pumpDone then some { s with pumpDone := true, upEof := true } else none
  | .copyRead => match s.uin with
    | c :: cs => if s.copyDone then none else some { s with uin := cs, clRecv := s.clRecv ++ c }
    | [] => none
  | .copyEOF => if s.uin = [] ∧ s.ufin ∧ !s.copyDone then some { s with copyDone := true } else none
  | .mainCW => if s.copyDone ∧ !s.downCW then some { s with downCW := true, clEof := true } else none
  | .mainReturn => if s.downCW ∧ s.pumpDone ∧ !s.returned then some { s with returned := true, upClosed := true } else none

structure RInv (s : St) : Prop where
  c_cons : s.upRecv ++ s.cin.flatten = s.sentC
  u_cons : s.clRecv ++ s.uin.flatten = s.sentU
  pd : s.pumpDone = true → s.cin = [] ∧ s.upEof = true
  cd : s.copyDone = true → s.uin = []
  cw : s.downCW = true → s.copyDone = true ∧ s.clEof = true
  rt : s.returned = true → s.downCW = true ∧ s.pumpDone = true ∧ s.upClosed = true
  noeof_u : s.upEof = true → s.pumpDone = true
  noeof_c : s.clEof = true → s.downCW = true

def init (pre : Bytes) (cchunks uchunks : List Bytes) : St :=
  { cin := pre :: cchunks, cfin := true, upRecv := [], upEof := false, uin := uchunks, ufin := true,
    clRecv := [], clEof := false, pumpDone := false, copyDone := false, downCW := false, returned := false,
    upClosed := false, sentC := pre ++ cchunks.flatten, sentU := uchunks.flatten }

theorem inv_init (pre cs us) : RInv (init pre cs us) := by
  constructor <;> simp [init]

theorem inv_step (s s' : St) (a : Act) (h : RInv s) (hs : step s a = some s') : RInv s' := by
  obtain ⟨h1, h2, h3, h4, h5, h6, h7, h8⟩ := h
  cases a <;> simp only [step] at hs
  · split at hs
    · split at hs
      · cases hs
      · injection hs with hs; subst hs
        rename_i c cs hc hpd
        constructor <;> simp_all
    · cases hs
  · split at hs
    · injection hs with hs; subst hs; constructor <;> simp_all
    · cases hs
  · split at hs
    · split at hs
      · cases hs
      · injection hs with hs; subst hs
        constructor <;> simp_all
    · cases hs
  · split at hs
    · injection hs with hs; subst hs; constructor <;> simp_all
    · cases hs
  · split at hs
    · injection hs with hs; subst hs; constructor <;> simp_all
    · cases hs
  · split at hs
    · injection hs with hs; subst hs; constructor <;> simp_all
    · cases hs

/-- terminal-state theorem: when nothing can move (and both peers did finish sending), everything was delivered,
    both sides saw end-of-stream, the handler returned and the upstream connection is closed -/
theorem terminal_complete (s : St) (h : RInv s) (hc : s.cfin = true) (hu : s.ufin = true)
    (hstuck : ∀ a, step s a = none) :
    s.upRecv = s.sentC ∧ s.clRecv = s.sentU ∧ s.upEof = true ∧ s.clEof = true ∧ s.returned = true ∧ s.upClosed = true := by
  obtain ⟨h1, h2, h3, h4, h5, h6, h7, h8⟩ := h
  have a1 := hstuck .pumpRead
  have a2 := hstuck .pumpEOF
  have a3 := hstuck .copyRead
  have a4 := hstuck .copyEOF
  have a5 := hstuck .mainCW
  have a6 := hstuck .mainReturn
  simp only [step] at a1 a2 a3 a4 a5 a6
  have hpd : s.pumpDone = true := by
    cases hp : s.pumpDone
    · cases hcin : s.cin with
      | nil => simp [hcin, hc, hp] at a2
      | cons c cs => simp [hcin, hp] at a1
    · rfl
  have hcd : s.copyDone = true := by
    cases hp : s.copyDone
    · cases hcin : s.uin with
      | nil => simp [hcin, hu, hp] at a4
      | cons c cs => simp [hcin, hp] at a3
    · rfl
  have hcw : s.downCW = true := by
    cases hp : s.downCW
    · simp [hcd, hp] at a5
    · rfl
  have hrt : s.returned = true := by
    cases hp : s.returned
    · simp [hcw, hpd, hp] at a6
    · rfl
  have := h3 hpd; have := h4 hcd; have := h5 hcw; have := h6 hrt
  simp_all
#print axioms inv_step
#print axioms terminal_complete

/-! prototype (C15): option-schema interpreter with a function map as parser state; render/parse round trip -/
structure Seg where
  name : String
  args : List String
  deriving Repr, DecidableEq
inductive Conv | str | strs deriving DecidableEq, Repr
structure Opt where
  name : String
  conv : Conv
  deriving Repr
inductive Val | s (v : String) | ss (v : List String) deriving Repr, DecidableEq
abbrev M := String → Option Val
def M.set (m : M) (k : String) (v : Val) : M := fun j => if j = k then some v else m j
inductive Err | unknown (o : String) | arity (o : String) | dup (o : String) | bad (o : String) deriving Repr, DecidableEq

def applyOpt (o : Opt) (args : List String) (m : M) : Except Err M :=
  match o.conv with
  | .str =>
    if (m o.name).isSome then .error (.dup o.name) else
    match args with
    | [a] => .ok (m.set o.name (.s a))
    | _ => .error (.arity o.name)
  | .strs =>
    if args.isEmpty then .error (.arity o.name) else
    match m o.name with
    | some (.ss old) => .ok (m.set o.name (.ss (old ++ args)))
    | none => .ok (m.set o.name (.ss args))
    | _ => .error (.bad o.name)

def parseBlock (schema : List Opt) : List Seg → M → Except Err M
  | [], m => .ok m
  | s :: rest, m =>
    match schema.find? (·.name == s.name) with
    | none => .error (.unknown s.name)
    | some o => match applyOpt o s.args m with
      | .ok m' => parseBlock schema rest m'
      | .error e => .error e

def renderVal (k : String) : Val → Seg
  | .s v => ⟨k, [v]⟩
  | .ss v => ⟨k, v⟩
def render (c : List (String × Val)) : List Seg := c.map fun (k, v) => renderVal k v
def okVal (o : Opt) : Val → Bool
  | .s _ => o.conv == .str
  | .ss v => o.conv == .strs && !v.isEmpty
def wf (schema : List Opt) : List (String × Val) → Bool
  | [] => true
  | (k, v) :: rest => (match schema.find? (·.name == k) with | some o => okVal o v | none => false)
                      && !(rest.any (·.1 == k)) && wf schema rest
def asMap : List (String × Val) → M → M
  | [], m => m
  | (k, v) :: rest, m => asMap rest (m.set k v)

theorem parse_render (schema : List Opt) (c : List (String × Val)) (m : M)
    (hw : wf schema c = true) (hdisj : ∀ kv ∈ c, m kv.1 = none) :
    parseBlock schema (render c) m = .ok (asMap c m) := by
  induction c generalizing m with
  | nil => rfl
  | cons kv rest ih =>
    obtain ⟨k, v⟩ := kv
    simp only [wf, Bool.and_eq_true] at hw
    obtain ⟨⟨h1, h2⟩, h3⟩ := hw
    have hm : m k = none := hdisj (k, v) (by simp)
    cases hf : schema.find? (·.name == k) with
    | none => simp [hf] at h1
    | some o =>
      simp only [hf] at h1
      have hon : o.name = k := by have := List.find?_some hf; simpa using this
      have hname : (renderVal k v).name = k := by cases v <;> rfl
      have happly : applyOpt o (renderVal k v).args m = .ok (m.set k v) := by
        cases v with
        | s a => simp [okVal] at h1; simp [applyOpt, h1, hon, hm, renderVal]
        | ss l => simp [okVal] at h1; simp [applyOpt, h1.1, hon, hm, renderVal, h1.2]
      simp only [render, List.map, parseBlock, hname, hf, happly, asMap]
      apply ih _ h3
      intro kv hkv
      have hne : kv.1 ≠ k := by
        intro e; simp at h2; exact h2 kv.1 kv.2 (by simpa using hkv) e
      simp [M.set, hne]; exact hdisj kv (by simp [hkv])
#print axioms parse_render

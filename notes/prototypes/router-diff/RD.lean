abbrev Bytes := List UInt8
inductive V | yes | no | more | err deriving DecidableEq, Repr
inductive St3 | needsMore | notMatched | matched deriving DecidableEq, Repr

structure Cx where
  buf : Bytes
  off : Nat
  pending : List Bytes
  deriving Repr
def Cx.avail (c : Cx) : Bytes := c.buf.drop c.off

inductive HRes | terminal | next (cx : Cx) | fail
structure Route where
  m : Bytes → V
  h : Cx → HRes
  c : Cx → Bytes := fun _ => []

inductive Ev
  | run (i : Nat) (avail : Bytes)
  | fallback (avail : Bytes)
  | abort
  | herr (i : Nat)
  deriving Repr, DecidableEq

/-- lm / lnm are encoded +1 (0 = -1 in the Go code) -/
structure RS where
  lm : Nat := 0
  lnm : Nat := 0
  status : Nat → Option St3 := fun _ => none
  needMore : Bool := false

def RS.set (rs : RS) (i : Nat) (s : St3) : RS := { rs with status := fun j => if j = i then some s else rs.status j }

inductive PassOut
  | done (rs : RS) (cx : Cx) (tr : List Ev)
  | stop (tr : List Ev)

def pass : List Route → Nat → RS → Cx → List Ev → PassOut
  | [], _, rs, cx, tr => .done rs cx tr
  | r :: rest, i, rs, cx, tr =>
    if i + 1 ≤ rs.lm then pass rest (i+1) rs cx tr
    else if rs.status i = some .notMatched ∧ i + 1 ≤ rs.lnm then pass rest (i+1) rs cx tr
    else match r.m cx.avail with
      | .more =>
        let rs' := { rs.set i .needsMore with lnm := i + 1 }
        if !rs.needMore then .done rs' cx tr else pass rest (i+1) rs' cx tr
      | .err => .stop (tr ++ [.abort])
      | .no => pass rest (i+1) (rs.set i .notMatched) cx tr
      | .yes =>
        let rs' := { rs.set i .matched with lm := i + 1, lnm := i + 1 }
        let tr' := tr ++ [.run i (r.c cx)]
        match r.h cx with
        | .terminal => .stop tr'
        | .fail => .stop (tr' ++ [.herr i])
        | .next cx' => pass rest (i+1) rs' cx' tr'

def maxBytes := 8192
def chunk := 2048
def prefetch (cx : Cx) : Option Cx :=
  if cx.buf.length < maxBytes then
    match cx.pending with
    | [] => none
    | c :: cs => if c.length ≤ chunk then some { cx with buf := cx.buf ++ c, pending := cs }
                 else some { cx with buf := cx.buf ++ c.take chunk, pending := c.drop chunk :: cs }
  else none

def undecided (rs : RS) (n : Nat) : Bool := (List.range n).any fun i => i + 1 > rs.lm && rs.status i == some .needsMore

def round (routes : List Route) : Nat → RS → Cx → List Ev → List Ev
  | 0, _, _, tr => tr
  | f+1, rs, cx, tr =>
    match (if rs.needMore then prefetch cx else some cx) with
    | none => tr ++ [.abort]
    | some cx1 =>
      match pass routes 0 rs cx1 tr with
      | .stop tr' => tr'
      | .done rs' cx' tr' =>
        if rs'.lm = routes.length then tr' ++ [.fallback cx'.avail]
        else if undecided rs' routes.length then round routes f { rs' with needMore := true } cx' tr'
        else tr' ++ [.fallback cx'.avail]


def hexDigit (c : Char) : Nat := if c.isDigit then c.toNat - 48 else c.toNat - 87
def unhex (s : String) : Bytes :=
  let rec go : List Char → Bytes
    | a :: b :: t => (UInt8.ofNat (hexDigit a * 16 + hexDigit b)) :: go t
    | _ => []
  go s.toList
def hexOf (b : Bytes) : String :=
  String.mk (b.flatMap fun x => let n := x.toNat; ["0123456789abcdef".toList[n / 16]!, "0123456789abcdef".toList[n % 16]!])

/-- non-matching Read(p) with len p = n on the prototype Cx -/
def cxRead (c : Cx) (n : Nat) : Option (Bytes × Cx) :=
  if 0 < c.buf.length && c.off < c.buf.length then
    let out := (c.buf.drop c.off).take n
    let off' := c.off + out.length
    if off' == c.buf.length then some (out, { c with buf := [], off := 0 }) else some (out, { c with off := off' })
  else match c.pending with
    | [] => none
    | ch :: cs => if ch.length ≤ n then some (ch, { c with pending := cs }) else some (ch.take n, { c with pending := ch.drop n :: cs })

/-- io.ReadFull(cx, make([]byte,k)) ignoring the error -/
def readFullH : Nat → Nat → Cx → Bytes → Bytes × Cx
  | 0, _, c, acc => (acc, c)
  | _, 0, c, acc => (acc, c)
  | fuel+1, k, c, acc =>
    match cxRead c k with
    | none => (acc, c)
    | some (out, c') => readFullH fuel (k - out.length) c' (acc ++ out)

structure RSpec where
  need : Nat
  kind : Nat
  b : Nat
  cons : Nat
  term : Bool

def mkRoute (r : RSpec) : Route :=
  { m := fun avail =>
      if r.need ≤ avail.length then
        match r.kind with
        | 0 => .yes | 1 => .no | 3 => .err
        | _ => if r.need > 0 && (avail.headD 0).toNat == r.b then .yes else .no
      else .more,
    h := fun cx => if r.term then .terminal else .next (readFullH (r.cons + cx.pending.length + 2) r.cons cx []).2,
    c := fun cx => (readFullH (r.cons + cx.pending.length + 2) r.cons cx []).1 }

def consumedOf (r : RSpec) (cx : Cx) : Bytes := (readFullH (r.cons + cx.pending.length + 2) r.cons cx []).1

def parseSpec (s : String) : RSpec :=
  match (s.splitOn ",").map String.toNat! with
  | [a,b,c,d,e] => ⟨a,b,c,d,e == 1⟩
  | _ => ⟨0,0,0,0,false⟩

def showEv : Ev → String
  | .run i b => s!"run {i} {hexOf b}"
  | .fallback _ => "fallback"
  | .abort => ""
  | .herr _ => "error"

def doLine (line : String) : String :=
  match line.splitOn "|" with
  | [_, rs, cs] =>
    let specs := if rs == "" then [] else (rs.splitOn ";").map parseSpec
    let chunks := if cs == "" then [] else (cs.splitOn ";").map unhex
    let routes := specs.map mkRoute
    let tr := round routes 100 {} { buf := [], off := 0, pending := chunks } []
    " / ".intercalate ((tr.map showEv).filter (· != ""))
  | _ => "bad"

partial def loop (h : IO.FS.Stream) : IO Unit := do
  let line ← h.getLine
  if line.isEmpty then return ()
  IO.println (doLine (line.dropRightWhile (· == '\n')))
  loop h
def main : IO Unit := do loop (← IO.getStdin)

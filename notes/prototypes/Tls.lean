/-! prototype: length-prefixed (cryptobyte-style) parsing; parse ∘ encode for a ClientHello extension list (SNI, ALPN, other) -/
abbrev Bytes := List UInt8

def be16 (n : Nat) : Bytes := [UInt8.ofNat (n / 256), UInt8.ofNat (n % 256)]

def readU8 : Bytes → Option (Nat × Bytes)
  | b :: r => some (b.toNat, r)
  | [] => none
def readU16 : Bytes → Option (Nat × Bytes)
  | a :: b :: r => some (a.toNat * 256 + b.toNat, r)
  | _ => none
def readN (n : Nat) (s : Bytes) : Option (Bytes × Bytes) := if n ≤ s.length then some (s.take n, s.drop n) else none
def readLP8 (s : Bytes) : Option (Bytes × Bytes) := match readU8 s with | some (n, r) => readN n r | none => none
def readLP16 (s : Bytes) : Option (Bytes × Bytes) := match readU16 s with | some (n, r) => readN n r | none => none
def encLP8 (b : Bytes) : Bytes := UInt8.ofNat b.length :: b
def encLP16 (b : Bytes) : Bytes := be16 b.length ++ b

theorem readU16_be16 (n : Nat) (h : n < 65536) (r : Bytes) : readU16 (be16 n ++ r) = some (n, r) := by
  simp [be16, readU16]; omega
theorem readN_append (b r : Bytes) : readN b.length (b ++ r) = some (b, r) := by
  simp [readN]
theorem readLP16_enc (b r : Bytes) (h : b.length < 65536) : readLP16 (encLP16 b ++ r) = some (b, r) := by
  simp only [readLP16, encLP16, List.append_assoc, readU16_be16 _ h, readN_append]
theorem readLP8_enc (b r : Bytes) (h : b.length < 256) : readLP8 (encLP8 b ++ r) = some (b, r) := by
  simp only [readLP8, encLP8, readU8, List.cons_append]
  have : (UInt8.ofNat b.length).toNat = b.length := by simp; omega
  rw [this, readN_append]

/-- extensions as the parser sees them -/
inductive Ext where
  | sni (name : Bytes)
  | alpn (protos : List Bytes)
  | other (t : Nat) (data : Bytes)
  deriving Repr, DecidableEq

def encProtos : List Bytes → Bytes
  | [] => []
  | p :: ps => encLP8 p ++ encProtos ps

def Ext.enc : Ext → Bytes
  | .sni name => be16 0 ++ encLP16 (encLP16 ((0 :: encLP16 name)))
  | .alpn ps => be16 16 ++ encLP16 (encLP16 (encProtos ps))
  | .other t d => be16 t ++ encLP16 d

def encExts : List Ext → Bytes
  | [] => []
  | e :: es => e.enc ++ encExts es

structure Info where
  serverName : Bytes := []
  protos : List Bytes := []
  exts : List Nat := []
  deriving Repr, DecidableEq

/-- ALPN protocol list loop (`for !protoList.Empty()`), fuel = input length -/
def parseProtos : Nat → Bytes → Option (List Bytes)
  | _, [] => some []
  | 0, _ => none
  | f+1, s => match readLP8 s with
    | some (p, r) => if p.isEmpty then none else (parseProtos f r).map (p :: ·)
    | none => none

/-- the extension loop of parseRawClientHello restricted to SNI/ALPN/other; returns the info gathered
    (the Go code returns the partial info on the first malformed extension) -/
def parseExts : Nat → Bytes → Info → Info
  | _, [], info => info
  | 0, _, info => info
  | f+1, s, info =>
    match readU16 s with
    | none => info
    | some (t, r) =>
      match readLP16 r with
      | none => info
      | some (d, rest) =>
        let info := { info with exts := info.exts ++ [t] }
        if t = 0 then
          match readLP16 d with
          | some (nl, []) =>
            (match readU8 nl with
             | some (0, r2) => (match readLP16 r2 with
                | some (name, []) => if name.isEmpty then info else parseExts f rest { info with serverName := name }
                | _ => info)
             | _ => info)
          | _ => info
        else if t = 16 then
          match readLP16 d with
          | some (pl, []) => if pl.isEmpty then info else
              (match parseProtos pl.length pl with
               | some ps => parseExts f rest { info with protos := info.protos ++ ps }
               | none => info)
          | _ => info
        else parseExts f rest info

def Ext.wf : Ext → Prop
  | .sni name => 0 < name.length ∧ name.length < 65000
  | .alpn ps => ps ≠ [] ∧ (∀ p ∈ ps, 0 < p.length ∧ p.length < 256) ∧ (encProtos ps).length < 65000
  | .other t d => t < 65536 ∧ t ≠ 0 ∧ t ≠ 16 ∧ d.length < 65536

def view : List Ext → Info → Info
  | [], i => i
  | .sni n :: es, i => view es { i with exts := i.exts ++ [0], serverName := n }
  | .alpn ps :: es, i => view es { i with exts := i.exts ++ [16], protos := i.protos ++ ps }
  | .other t _ :: es, i => view es { i with exts := i.exts ++ [t] }

theorem parseProtos_enc (ps : List Bytes) (h : ∀ p ∈ ps, 0 < p.length ∧ p.length < 256) (f : Nat) (hf : (encProtos ps).length ≤ f) :
    parseProtos f (encProtos ps) = some ps := by
  induction ps generalizing f with
  | nil => cases f <;> simp [encProtos, parseProtos]
  | cons p ps ih =>
    have hp := h p (by simp)
    cases f with
    | zero => simp [encProtos, encLP8] at hf
    | succ f =>
      have hne : encProtos (p :: ps) ≠ [] := by simp [encProtos, encLP8]
      simp only [encProtos] at hf ⊢
      rw [parseProtos]
      · rw [readLP8_enc p _ hp.2]
        have : p.isEmpty = false := by cases p <;> simp_all
        simp only [this]
        rw [ih (fun q hq => h q (by simp [hq])) f (by simp [encLP8] at hf; omega)]
        simp
      · simpa [encProtos] using hne
#print axioms parseProtos_enc

theorem encExts_length_pos (e : Ext) (es : List Ext) : 0 < (encExts (e :: es)).length := by
  cases e <;> simp [encExts, Ext.enc, be16]

theorem parseExts_enc (es : List Ext) (h : ∀ e ∈ es, e.wf) (f : Nat) (hf : (encExts es).length ≤ f) (i : Info) :
    parseExts f (encExts es) i = view es i := by
  induction es generalizing f i with
  | nil => cases f <;> simp [encExts, parseExts, view]
  | cons e es ih =>
    have he := h e (by simp)
    have hes : ∀ x ∈ es, x.wf := fun x hx => h x (by simp [hx])
    have hpos := encExts_length_pos e es
    cases f with
    | zero => omega
    | succ f =>
      have hf' : (encExts es).length ≤ f := by
        cases e <;> simp [encExts, Ext.enc, be16, encLP16] at hf ⊢ <;> omega
      cases e with
      | other t d =>
        obtain ⟨h1, h2, h3, h4⟩ := he
        simp only [encExts, Ext.enc, List.append_assoc]
        rw [parseExts]
        · simp only [readU16_be16 t h1, readLP16_enc d _ h4, if_neg h2, if_neg h3]
          exact ih hes f hf' _
        · simp [be16]
      | sni name =>
        obtain ⟨h1, h2⟩ := he
        simp only [encExts, Ext.enc, List.append_assoc]
        rw [parseExts]
        · have l2 : ((0 :: encLP16 name)).length < 65536 := by simp [encLP16, be16]; omega
          have l3 : (encLP16 ((0 :: encLP16 name))).length < 65536 := by simp [encLP16, be16]; omega
          have e1 : readLP16 (encLP16 ((0 :: encLP16 name))) = some ((0 :: encLP16 name), []) := by
            have := readLP16_enc ((0 :: encLP16 name)) [] l2; simpa using this
          have e2 : readLP16 (encLP16 name) = some (name, []) := by
            have := readLP16_enc name [] (by omega); simpa using this
          have e3 : name.isEmpty = false := by cases name <;> simp_all
          simp only [readU16_be16 0 (by omega), readLP16_enc _ _ l3, if_true, e1, readU8,
            UInt8.toNat_ofNat, e2, e3]
          exact ih hes f hf' _
        · simp [be16]
      | alpn ps =>
        obtain ⟨h1, h2, h3⟩ := he
        simp only [encExts, Ext.enc, List.append_assoc]
        rw [parseExts]
        · have l2 : (encLP16 (encProtos ps)).length < 65536 := by simp [encLP16, be16]; omega
          have e1 : readLP16 (encLP16 (encProtos ps)) = some (encProtos ps, []) := by
            have := readLP16_enc (encProtos ps) [] (by omega); simpa using this
          have hne : (encProtos ps).isEmpty = false := by
            cases ps with
            | nil => exact absurd rfl h1
            | cons p ps => simp [encProtos, encLP8]
          simp only [readU16_be16 16 (by omega), readLP16_enc _ _ l2, show (16:Nat) ≠ 0 by omega, if_false, if_true,
            e1, hne, parseProtos_enc ps h2 _ (Nat.le_refl _)]
          exact ih hes f hf' _
        · simp [be16]
#print axioms parseExts_enc

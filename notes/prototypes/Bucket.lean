/-! token bucket (x/time/rate reservation rule) over Rat; cumulative grant bound -/
structure Bk where
  burst : Rat
  rate : Rat
  tokens : Rat      -- may be negative (debt)
  last : Rat
  issued : Rat      -- ghost: total tokens reserved so far
  t0 : Rat          -- ghost: time of first use

def Bk.advance (b : Bk) (t : Rat) : Rat := min b.burst (b.tokens + (t - b.last) * b.rate)

/-- reserve n tokens at time t ≥ last; the grant becomes usable once the debt is repaid -/
def Bk.reserve (b : Bk) (t n : Rat) : Bk :=
  { b with tokens := b.advance t - n, last := t, issued := b.issued + n }

/-- conservation invariant: everything issued so far plus what is left never exceeds burst + rate·elapsed -/
def Bk.Inv (b : Bk) : Prop := b.issued + b.tokens ≤ b.burst + b.rate * (b.last - b.t0) ∧ b.tokens ≤ b.burst ∧ b.t0 ≤ b.last

theorem reserve_inv (b : Bk) (t n : Rat) (h : b.Inv) (ht : b.last ≤ t) (hr : 0 ≤ b.rate) (hn : 0 ≤ n) : (b.reserve t n).Inv := by
  obtain ⟨h1, h2, h3⟩ := h
  unfold Bk.reserve Bk.Inv Bk.advance
  simp only
  have hmin1 : min b.burst (b.tokens + (t - b.last) * b.rate) ≤ b.burst := by grind
  have hmin2 : min b.burst (b.tokens + (t - b.last) * b.rate) ≤ b.tokens + (t - b.last) * b.rate := by grind
  have e : b.rate * (t - b.t0) = b.rate * (b.last - b.t0) + (t - b.last) * b.rate := by grind
  refine ⟨?_, ?_, ?_⟩
  · rw [e]; grind
  · grind
  · grind

/-- a reservation made at time `last` with resulting balance `tokens` is usable at time T iff the debt is repaid by T -/
def Bk.usableBy (b : Bk) (T : Rat) : Prop := 0 ≤ b.tokens + b.rate * (T - b.last)

/-- headline: if the latest reservation is usable by T, everything issued so far fits under burst + rate·(T − t0) -/
theorem bucket_bound (b : Bk) (T : Rat) (h : b.Inv) (hu : b.usableBy T) :
    b.issued ≤ b.burst + b.rate * (T - b.t0) := by
  obtain ⟨h1, h2, h3⟩ := h
  unfold Bk.usableBy at hu
  have e : b.rate * (T - b.t0) = b.rate * (b.last - b.t0) + b.rate * (T - b.last) := by grind
  rw [e]; grind
#print axioms reserve_inv
#print axioms bucket_bound

/-! prototype: layered connection model, read spec -/
abbrev Bytes := List UInt8

inductive Src where
  | raw (chunks : List Bytes)
  | l4 (buf : Bytes) (off frozen : Nat) (matching : Bool) (inner : Src)
  | bufio (pending : Bytes) (size : Nat) (inner : Src)
  deriving Repr

inductive RErr | none | eof | consumed deriving Repr, DecidableEq

def Src.logical : Src → Bytes
  | .raw cs => cs.flatten
  | .l4 buf off _ _ inner => buf.drop off ++ inner.logical
  | .bufio p _ inner => p ++ inner.logical

/-- one Read call with len(p) = n -/
def Src.read : Src → Nat → (Bytes × RErr) × Src
  | .raw [], _ => (([], .eof), .raw [])
  | .raw (c :: cs), n =>
      if c.length ≤ n then ((c, .none), .raw cs) else ((c.take n, .none), .raw (c.drop n :: cs))
  | .l4 buf off fr m inner, n =>
      if m && (buf.length == 0 || buf.length == off) then (([], .consumed), .l4 buf off fr m inner)
      else if 0 < buf.length && off < buf.length then
        let out := (buf.drop off).take n
        let off' := off + out.length
        if !m && off' == buf.length then ((out, .none), .l4 [] 0 fr m inner)
        else ((out, .none), .l4 buf off' fr m inner)
      else
        let (r, inner') := inner.read n
        (r, .l4 buf off fr m inner')
  | .bufio p sz inner, n =>
      if p.length = 0 then
        if n ≥ sz then
          let (r, inner') := inner.read n
          (r, .bufio [] sz inner')
        else
          let ((d, e), inner') := inner.read sz
          ((d.take n, if d.length = 0 then e else .none), .bufio (d.drop n) sz inner')
      else ((p.take n, .none), .bufio (p.drop n) sz inner)

def Src.noMatching : Src → Prop
  | .raw _ => True
  | .l4 _ _ _ m inner => m = false ∧ inner.noMatching
  | .bufio _ _ inner => inner.noMatching

def Src.wf : Src → Prop
  | .raw _ => True
  | .l4 buf off _ _ inner => off ≤ buf.length ∧ inner.wf
  | .bufio _ _ inner => inner.wf

theorem take_drop_len (l : Bytes) (n : Nat) : l.take n ++ l.drop (l.take n).length = l := by
  rw [List.length_take]
  by_cases h : n ≤ l.length
  · rw [Nat.min_eq_left h]; exact List.take_append_drop n l
  · have h' : l.length ≤ n := by omega
    rw [Nat.min_eq_right h', List.take_of_length_le h']; simp

theorem read_spec (s : Src) (n : Nat) (h : s.noMatching) (hw : s.wf) :
    (s.read n).1.1 ++ (s.read n).2.logical = s.logical ∧ (s.read n).1.1.length ≤ n := by
  induction s generalizing n with
  | raw cs =>
    cases cs with
    | nil => simp [Src.read, Src.logical]
    | cons c cs =>
      simp only [Src.read]
      split
      · simp [Src.logical]; assumption
      · simp [Src.logical, List.length_take]
        rw [← List.append_assoc, List.take_append_drop]
        exact ⟨rfl, Nat.min_le_left _ _⟩
  | l4 buf off fr m inner ih =>
    obtain ⟨hm, hin⟩ := h
    obtain ⟨ho, hwi⟩ := hw
    subst hm
    simp only [Src.read, Bool.false_and, Bool.false_eq_true, ↓reduceIte, Bool.not_false, Bool.true_and]
    split
    · rename_i hc
      split
      · rename_i he
        have he' : off + ((buf.drop off).take n).length = buf.length := by simpa using he
        have h2 : buf.length - off ≤ n := by
          simp [List.length_take, List.length_drop] at he'; omega
        refine ⟨?_, ?_⟩
        · simp [Src.logical]
          rw [List.take_of_length_le (by simp; omega)]
        · simp [List.length_take]; exact Nat.min_le_left _ _
      · refine ⟨?_, ?_⟩
        · simp only [Src.logical]
          rw [← List.append_assoc]; congr 1
          rw [← List.drop_drop]; exact take_drop_len _ _
        · simp [List.length_take]; exact Nat.min_le_left _ _
    · rename_i hc
      have := ih n hin hwi
      have hd : buf.drop off = [] := by
        apply List.drop_eq_nil_of_le
        simp at hc
        omega
      simp only [Src.logical, hd, List.nil_append]
      exact this
  | bufio p sz inner ih =>
    have hin : inner.noMatching := h
    have hwi : inner.wf := hw
    simp only [Src.read]
    split
    · rename_i hp
      have hp' : p = [] := List.eq_nil_of_length_eq_zero hp
      subst hp'
      split
      · have := ih n hin hwi
        simpa [Src.logical] using this
      · have := ih sz hin hwi
        refine ⟨?_, ?_⟩
        · simp only [Src.logical, List.nil_append]
          rw [← this.1, ← List.append_assoc, List.take_append_drop]
        · simp [List.length_take]; exact Nat.min_le_left _ _
    · refine ⟨?_, ?_⟩
      · simp only [Src.logical]; rw [← List.append_assoc, List.take_append_drop]
      · simp [List.length_take]; exact Nat.min_le_left _ _

#print axioms read_spec

structure Up where
  name : String
  avail : Bool
  conns : Nat
  deriving DecidableEq, Repr

/-- hostByHashing with the planned repair (`upstream == nil || h > highest`) -/
def hrw (h : Up → Nat) : List Up → Option Up → Option Up
  | [], best => best
  | u :: rest, best =>
    if !u.avail then hrw h rest best else
    match best with
    | none => hrw h rest (some u)
    | some b => if h u > h b then hrw h rest (some u) else hrw h rest (some b)

def ipHash (h : Up → Nat) (pool : List Up) : Option Up := hrw h pool none

theorem hrw_some (h) (pool : List Up) (b : Up) : ∃ u, hrw h pool (some b) = some u := by
  induction pool generalizing b with
  | nil => exact ⟨b, rfl⟩
  | cons u rest ih =>
    simp only [hrw]
    split
    · exact ih b
    · split <;> exact ih _

/-- none ⇔ nobody available -/
theorem ipHash_none_iff (h) (pool : List Up) : ipHash h pool = none ↔ ∀ u ∈ pool, u.avail = false := by
  unfold ipHash
  induction pool with
  | nil => simp [hrw]
  | cons u rest ih =>
    simp only [hrw]
    cases hu : u.avail
    · simp [ih, hu]
    · simp
      obtain ⟨w, hw⟩ := hrw_some h rest u
      simp [hw]
      intro hcontra; rw [hu] at hcontra; cases hcontra

/-- result is available and in the pool (or is the incoming best) -/
theorem hrw_mem (h) (pool : List Up) (best : Option Up) (r : Up) (hr : hrw h pool best = some r) :
    (r ∈ pool ∧ r.avail = true) ∨ best = some r := by
  induction pool generalizing best with
  | nil => right; simpa [hrw] using hr
  | cons u rest ih =>
    simp only [hrw] at hr
    split at hr
    · rcases ih best hr with ⟨a, b⟩ | a
      · left; exact ⟨by simp [a], b⟩
      · right; exact a
    · rename_i hu
      have hu' : u.avail = true := by simpa using hu
      split at hr
      · rcases ih _ hr with ⟨a, b⟩ | a
        · left; exact ⟨by simp [a], b⟩
        · left; injection a with a; subst a; exact ⟨by simp, hu'⟩
      · split at hr
        · rcases ih _ hr with ⟨a, b⟩ | a
          · left; exact ⟨by simp [a], b⟩
          · left; injection a with a; subst a; exact ⟨by simp, hu'⟩
        · rcases ih _ hr with ⟨a, b⟩ | a
          · left; exact ⟨by simp [a], b⟩
          · right; exact a

theorem ipHash_available (h) (pool : List Up) (r : Up) (hr : ipHash h pool = some r) : r ∈ pool ∧ r.avail = true := by
  rcases hrw_mem h pool none r hr with x | x
  · exact x
  · cases x
#print axioms ipHash_none_iff
#print axioms ipHash_available

/-! prototype: matcher programs executed over the frozen layer4 connection = run on the available bytes,
    and the connection (including the socket underneath) is untouched -/
abbrev Bytes := List UInt8
inductive Verdict | yes | no | more | fail (c : Nat) deriving DecidableEq, Repr

inductive Prog where
  | ret (v : Verdict)
  | readFull (n : Nat) (k : Bytes → Prog)

def Prog.run : Prog → Bytes → Verdict
  | .ret v, _ => v
  | .readFull n k, bs => if n ≤ bs.length then (k (bs.take n)).run (bs.drop n) else .more

/-- the layer4 Connection in matching mode: buffer, cursor, and an opaque socket state σ that a Read could change -/
structure Cx (σ : Type) where
  buf : Bytes
  off : Nat
  frozen : Nat
  matching : Bool
  sock : σ

/-- Connection.Read(p) with len p = n, matching mode only (the branch structure of the Go code) -/
def Cx.readM {σ} (c : Cx σ) (n : Nat) : (Bytes × Bool) × Cx σ :=   -- Bool = ErrConsumedAllPrefetchedBytes
  if c.buf.length == 0 || c.buf.length == c.off then (([], true), c)
  else if c.off < c.buf.length then
    let out := (c.buf.drop c.off).take n
    ((out, false), { c with off := c.off + out.length })
  else (([], true), c)

/-- io.ReadFull on top of readM: loop until n bytes or error; fuel = n+1 reads suffice -/
def readFullM {σ} : Nat → Cx σ → Nat → Bytes → (Option Bytes) × Cx σ
  | _, c, 0, acc => (some acc, c)
  | 0, c, _, _ => (none, c)
  | fuel+1, c, need+1, acc =>
    let ((out, e), c') := c.readM (need+1)
    if e then (none, c') else readFullM fuel c' (need + 1 - out.length) (acc ++ out)

def Prog.exec {σ} : Prog → Cx σ → Verdict × Cx σ
  | .ret v, c => (v, c)
  | .readFull n k, c =>
    match readFullM (n+1) c n [] with
    | (some bs, c') => (k bs).exec c'
    | (none, c') => (.more, c')

def Cx.avail {σ} (c : Cx σ) : Bytes := c.buf.drop c.off
def Cx.freeze {σ} (c : Cx σ) : Cx σ := { c with matching := true, frozen := c.off }
def Cx.unfreeze {σ} (c : Cx σ) : Cx σ := { c with matching := false, off := c.frozen }

theorem readM_sock {σ} (c : Cx σ) (n : Nat) : (c.readM n).2.sock = c.sock ∧ (c.readM n).2.buf = c.buf ∧
    (c.readM n).2.frozen = c.frozen ∧ (c.readM n).2.matching = c.matching := by
  unfold Cx.readM
  split
  · simp
  · split <;> simp

theorem readFullM_inv {σ} (fuel : Nat) (c : Cx σ) (need : Nat) (acc : Bytes) :
    let r := readFullM fuel c need acc
    r.2.sock = c.sock ∧ r.2.buf = c.buf ∧ r.2.frozen = c.frozen ∧ r.2.matching = c.matching := by
  induction fuel generalizing c need acc with
  | zero => cases need <;> simp [readFullM]
  | succ f ih =>
    cases need with
    | zero => simp [readFullM]
    | succ m =>
      simp only [readFullM]
      have h := readM_sock c (m+1)
      split
      · exact h
      · have := ih (c.readM (m+1)).2 (m + 1 - (c.readM (m+1)).1.1.length) (acc ++ (c.readM (m+1)).1.1)
        simp only at this
        refine ⟨this.1.trans h.1, this.2.1.trans h.2.1, this.2.2.1.trans h.2.2.1, this.2.2.2.trans h.2.2.2⟩

/-- C06 purity: whatever a matcher program does, the socket is not touched and unfreeze restores the cursor -/
theorem exec_pure {σ} (p : Prog) (c : Cx σ) :
    (p.exec c).2.sock = c.sock ∧ (p.exec c).2.buf = c.buf ∧ (p.exec c).2.frozen = c.frozen ∧ (p.exec c).2.matching = c.matching := by
  induction p generalizing c with
  | ret v => simp [Prog.exec]
  | readFull n k ih =>
    simp only [Prog.exec]
    have h := readFullM_inv (n+1) c n []
    simp only at h
    split
    · rename_i bs c' heq
      have : c' = (readFullM (n+1) c n []).2 := by rw [heq]
      subst this
      have := ih bs (readFullM (n+1) c n []).2
      exact ⟨this.1.trans h.1, this.2.1.trans h.2.1, this.2.2.1.trans h.2.2.1, this.2.2.2.trans h.2.2.2⟩
    · rename_i c' heq
      have : c' = (readFullM (n+1) c n []).2 := by rw [heq]
      subst this; exact h

theorem freeze_exec_unfreeze {σ} (p : Prog) (c : Cx σ) (hm : c.matching = false) :
    ((p.exec c.freeze).2.unfreeze) = { c with frozen := c.off } := by
  have h := exec_pure p c.freeze
  cases hc : (p.exec c.freeze).2 with
  | mk b o f m s =>
    rw [hc] at h
    simp [Cx.freeze] at h
    obtain ⟨h1, h2, h3, h4⟩ := h
    simp [Cx.unfreeze, h1, h2, h3, hm]
#print axioms exec_pure
#print axioms freeze_exec_unfreeze

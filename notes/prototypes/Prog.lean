abbrev Bytes := List UInt8
inductive Verdict | yes | no | more | fail (c : Nat) deriving DecidableEq, Repr

/-- matcher programs over the frozen view: only primitive is io.ReadFull -/
inductive Prog where
  | ret (v : Verdict)
  | readFull (n : Nat) (k : Bytes → Prog)

def Prog.run : Prog → Bytes → Verdict
  | .ret v, _ => v
  | .readFull n k, bs => if n ≤ bs.length then (k (bs.take n)).run (bs.drop n) else .more

/-- Any verdict other than `more` is stable under extension of the available bytes:
    covers "no stays no" and fragment-safety for every readFull-only matcher at once. -/
theorem Prog.stable (p : Prog) (pre ext : Bytes) (h : p.run pre ≠ .more) :
    p.run (pre ++ ext) = p.run pre := by
  induction p generalizing pre with
  | ret v => rfl
  | readFull n k ih =>
    unfold Prog.run at h ⊢
    by_cases hn : n ≤ pre.length
    · have hn' : n ≤ (pre ++ ext).length := by simp; omega
      rw [if_pos hn] at h; rw [if_pos hn, if_pos hn']
      rw [List.take_append_of_le_length hn, List.drop_append_of_le_length hn]
      exact ih _ _ h
    · rw [if_neg hn] at h; exact absurd rfl h

/-- never reads past what it was given and is a function of the prefix it consumed -/
def socks5 (methods : List Nat) : Prog :=
  .readFull 1 fun b => if b[0]! != 5 then .ret .no else
  .readFull 1 fun n =>
  .readFull (n[0]!).toNat fun ms =>
  .ret (if ms.all (fun m => methods.contains m.toNat) then .yes else .no)

theorem socks5_no_stable (methods : List Nat) (pre ext : Bytes)
    (h : (socks5 methods).run pre = .no) : (socks5 methods).run (pre ++ ext) = .no := by
  rw [Prog.stable _ _ _ (by rw [h]; decide)]; exact h

#eval (socks5 [0,1,2]).run [5,1,0]
#eval (socks5 [0,1,2]).run [5,2,0]
#eval (socks5 [0]).run [5,2,0,9,9,9]
#print axioms socks5_no_stable

abbrev Bytes := List UInt8

inductive Res (α : Type) where
  | ok (a : α)
  | err (code : Nat)      -- Go-level error return
  | panic (site : String) -- runtime panic (index/slice out of range, nil deref)
  deriving Repr, DecidableEq

instance : Monad Res where
  pure := .ok
  bind x f := match x with | .ok a => f a | .err c => .err c | .panic s => .panic s

def idx (b : Bytes) (i : Nat) (site : String) : Res UInt8 :=
  match b[i]? with | some x => .ok x | none => .panic site
def slice (b : Bytes) (lo hi : Nat) (site : String) : Res Bytes :=
  if lo ≤ hi ∧ hi ≤ b.length then .ok ((b.take hi).drop lo) else .panic site

structure Chunk where
  bytes : Bytes
  len : Nat
  typ : UInt8
  deriving Repr

/-- winbox MessageAuth.FromBytes chunk loop, as in the Go code (q computed by the caller) -/
def chunkLoop (src : Bytes) (q : Nat) : (i : Nat) → (fuel : Nat) → List Chunk → Res (List Chunk)
  | _, 0, acc => .ok acc.reverse
  | i, fuel+1, acc => do
    let l := src.length
    let p := 257 * i
    let len ← idx src p "chunk.Length = src[p]"
    let len := len.toNat
    if (q > 1 ∧ i < q-1 ∧ len ≠ 255) ∨ (l < p+2+len) ∨ len < 1 then .err 1 else
    let typ ← idx src (p+1) "chunk.Type = src[p+1]"
    if (i = 0 ∧ typ ≠ 6) ∨ (i > 0 ∧ typ ≠ 0xFF) then .err 1 else
    let bs ← slice src (p+2) (p+2+len) "src[p+2:p+2+len]"
    chunkLoop src q (i+1) fuel ({bytes := bs, len := len, typ := typ} :: acc)

def fromBytesOrig (src : Bytes) : Res (List Chunk) :=
  if src.length < 37 then .err 2 else
  let q := src.length / 257 + 1
  chunkLoop src q 0 q []

def fromBytesFixed (src : Bytes) : Res (List Chunk) :=
  if src.length < 37 then .err 2 else
  let q := (src.length + 256) / 257
  chunkLoop src q 0 q []

def Res.isPanic : Res α → Bool | .panic _ => true | _ => false

-- witness: original panics on a 257-byte input
def w : Bytes := [0xFF, 0x06] ++ List.replicate 255 65
set_option maxRecDepth 100000 in
example : (fromBytesOrig w).isPanic = true := by decide +kernel

theorem loop_nopanic (src : Bytes) (q i fuel : Nat) (acc : List Chunk)
    (h : 257 * (i + fuel) < src.length + 257) (hq: i + fuel = q) : (chunkLoop src q i fuel acc).isPanic = false := by
  induction fuel generalizing i acc with
  | zero => simp [chunkLoop, Res.isPanic]
  | succ f ih =>
    unfold chunkLoop
    have hp : 257 * i < src.length := by

      omega
    simp only [bind, idx]
    rw [List.getElem?_eq_getElem hp]
    simp only []
    split
    · simp [Res.isPanic]
    · rename_i hc
      have hl : 257*i + 2 + (src[257*i]).toNat ≤ src.length := by omega
      have h1 : 257*i+1 < src.length := by omega
      rw [List.getElem?_eq_getElem h1]
      simp only []
      split
      · simp [Res.isPanic]
      · simp only [slice]
        rw [if_pos ⟨by omega, hl⟩]
        simp only []
        apply ih
        · rw [Nat.add_assoc, Nat.add_comm 1 f]; exact h
        · omega

theorem fixed_nopanic (src : Bytes) : (fromBytesFixed src).isPanic = false := by
  unfold fromBytesFixed
  split
  · simp [Res.isPanic]
  · apply loop_nopanic
    · simp; omega
    · simp
#print axioms fixed_nopanic

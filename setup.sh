#!/bin/bash
# one-time setup after a fresh restore (offline): build the fact extractor, regenerate facts, build the Lean project
set -e
cd "$(dirname "$0")"
export GOFLAGS=-mod=mod GOPROXY=off GOSUMDB=off GOTOOLCHAIN=local
(cd extract && go build -o extract .)
./extract/extract "${VERIF_REPO:-/repo}" lean/L4/Gen
(cd lean && lake build L4 l4drv)
# warm the Go build cache for the harness packages
(cd "${VERIF_REPO:-/repo}" && go build ./... && go test -vet=off -count=1 -run '^$' ./... >/dev/null 2>&1 || true)
echo setup done

package main

import (
	"fmt"
	"go/ast"
	"go/types"
	"sort"
	"strings"

	"golang.org/x/tools/go/packages"
)

var accessRows []string

// shared fields whose accesses are classified for the C08 access table
var sharedFields = map[string]bool{
	"robin": true, "numConns": true, "unhealthy": true, "fails": true, "lastDigest": true,
	"deadline": true,
}

func containsIdent(n ast.Node, name string) bool {
	found := false
	ast.Inspect(n, func(x ast.Node) bool {
		if id, ok := x.(*ast.Ident); ok && id.Name == name {
			found = true
		}
		return !found
	})
	return found
}

func isCallTo(c *ast.CallExpr, recv, name string) bool {
	se, ok := c.Fun.(*ast.SelectorExpr)
	if !ok || se.Sel.Name != name {
		return false
	}
	id, ok := se.X.(*ast.Ident)
	return ok && id.Name == recv
}

func boolFact(m map[string]string, key string, v bool) {
	m[key] = fmt.Sprintf("Bool := %v", v)
}

func collectFacts(p *packages.Package, fd *ast.FuncDecl, name string, m map[string]string) {
	switch name {
	case "layer4.listener.handle", "layer4.Server.handle":
		// how is the matching buffer returned to the pool?
		bare, guarded, anyPut := false, false, false
		ast.Inspect(fd.Body, func(n ast.Node) bool {
			ds, ok := n.(*ast.DeferStmt)
			if !ok {
				if c, ok := n.(*ast.CallExpr); ok && isCallTo(c, "bufPool", "Put") {
					anyPut = true
				}
				return true
			}
			if isCallTo(ds.Call, "bufPool", "Put") {
				bare = true
				anyPut = true
			}
			if fl, ok := ds.Call.Fun.(*ast.FuncLit); ok {
				ast.Inspect(fl.Body, func(x ast.Node) bool {
					if is, ok := x.(*ast.IfStmt); ok && containsIdent(is.Cond, "errHijacked") {
						ast.Inspect(is.Body, func(y ast.Node) bool {
							if c, ok := y.(*ast.CallExpr); ok && isCallTo(c, "bufPool", "Put") {
								guarded = true
							}
							return true
						})
					}
					return true
				})
			}
			return true
		})
		closeGuarded := false
		ast.Inspect(fd.Body, func(n ast.Node) bool {
			if is, ok := n.(*ast.IfStmt); ok && containsIdent(is.Cond, "errHijacked") {
				ast.Inspect(is.Body, func(y ast.Node) bool {
					if c, ok := y.(*ast.CallExpr); ok {
						if se, ok := c.Fun.(*ast.SelectorExpr); ok && se.Sel.Name == "Close" {
							closeGuarded = true
						}
					}
					return true
				})
			}
			return true
		})
		key := strings.ReplaceAll(strings.TrimPrefix(name, "layer4."), ".", "_")
		boolFact(m, key+"_closes_conn_unless_hijacked", closeGuarded)
		boolFact(m, key+"_bare_defer_put", bare)
		boolFact(m, key+"_put_guarded_by_hijack", guarded)
		boolFact(m, key+"_any_put", anyPut)
		boolFact(m, key+"_mentions_errHijacked", containsIdent(fd.Body, "errHijacked"))
	case "layer4.listener.loop":
		// close(l.connChan) only after l.wg.Wait() in the same function literal; connChan drained after close(l.done)
		closeAfterWait, closeElsewhere, drains, closesDone := false, false, false, false
		ast.Inspect(fd.Body, func(n ast.Node) bool {
			switch t := n.(type) {
			case *ast.FuncLit:
				sawWait := false
				for _, st := range t.Body.List {
					if es, ok := st.(*ast.ExprStmt); ok {
						if c, ok := es.X.(*ast.CallExpr); ok {
							if se, ok := c.Fun.(*ast.SelectorExpr); ok && se.Sel.Name == "Wait" {
								sawWait = true
							}
							if id, ok := c.Fun.(*ast.Ident); ok && id.Name == "close" && containsIdent(c, "connChan") {
								if sawWait {
									closeAfterWait = true
								} else {
									closeElsewhere = true
								}
							}
						}
					}
				}
				return false
			case *ast.CallExpr:
				if id, ok := t.Fun.(*ast.Ident); ok && id.Name == "close" {
					if containsIdent(t, "connChan") {
						closeElsewhere = true
					}
					if containsIdent(t, "done") {
						closesDone = true
					}
				}
			case *ast.RangeStmt:
				if containsIdent(t.X, "connChan") && closesDone {
					ast.Inspect(t.Body, func(y ast.Node) bool {
						if c, ok := y.(*ast.CallExpr); ok {
							if se, ok := c.Fun.(*ast.SelectorExpr); ok && se.Sel.Name == "Close" {
								drains = true
							}
						}
						return true
					})
				}
			}
			return true
		})
		boolFact(m, "listener_loop_closes_connChan_only_after_wait", closeAfterWait && !closeElsewhere)
		boolFact(m, "listener_loop_closes_done_then_drains", closesDone && drains)
	case "layer4.listener.pipeConnection":
		all, any := true, false
		ast.Inspect(fd.Body, func(n ast.Node) bool {
			if r, ok := n.(*ast.ReturnStmt); ok {
				any = true
				if len(r.Results) != 1 || !containsIdent(r.Results[0], "errHijacked") {
					all = false
				}
			}
			return true
		})
		boolFact(m, "pipeConnection_always_returns_errHijacked", all && any)
	case "layer4.listener.Accept":
		sel := false
		ast.Inspect(fd.Body, func(n ast.Node) bool {
			if s, ok := n.(*ast.SelectStmt); ok {
				if containsIdent(s, "connChan") && containsIdent(s, "done") {
					sel = true
				}
			}
			return true
		})
		boolFact(m, "listener_Accept_selects_connChan_and_done", sel)
	case "layer4.packetConn.Close":
		closes := false
		ast.Inspect(fd.Body, func(n ast.Node) bool {
			if c, ok := n.(*ast.CallExpr); ok {
				if id, ok := c.Fun.(*ast.Ident); ok && id.Name == "close" && len(c.Args) == 1 {
					if se, ok := c.Args[0].(*ast.SelectorExpr); ok && se.Sel.Name == "readCh" {
						closes = true
					}
				}
			}
			return true
		})
		boolFact(m, "packetConn_Close_closes_readCh", closes)
	case "layer4.packetConn.SetReadDeadline":
		// the deadline must be stored with sub-second resolution
		unix, nano := false, false
		ast.Inspect(fd.Body, func(n ast.Node) bool {
			if se, ok := n.(*ast.SelectorExpr); ok {
				if se.Sel.Name == "Unix" {
					unix = true
				}
				if se.Sel.Name == "UnixNano" || se.Sel.Name == "UnixMicro" || se.Sel.Name == "UnixMilli" {
					nano = true
				}
			}
			return true
		})
		boolFact(m, "udp_deadline_stored_subsecond", nano && !unix)
	}

	// access table: every use of a shared field, classified
	var stack []ast.Node
	ast.Inspect(fd.Body, func(n ast.Node) bool {
		if n == nil {
			stack = stack[:len(stack)-1]
			return true
		}
		stack = append(stack, n)
		se, ok := n.(*ast.SelectorExpr)
		if !ok || !sharedFields[se.Sel.Name] {
			return true
		}
		sel, ok := p.TypesInfo.Selections[se]
		if !ok || sel.Kind() != types.FieldVal {
			return true
		}
		owner := sel.Recv().String()
		if i := strings.LastIndex(owner, "."); i >= 0 {
			owner = owner[i+1:]
		}
		owner = strings.TrimPrefix(owner, "*")
		kind := "plain"
		// parents: &x.f as argument of atomic.*  |  x.f.Load()/Store()/Add()/CompareAndSwap() on sync/atomic types
		if len(stack) >= 3 {
			if ue, ok := stack[len(stack)-2].(*ast.UnaryExpr); ok && ue.Op.String() == "&" {
				if c, ok := stack[len(stack)-3].(*ast.CallExpr); ok {
					if cs, ok := c.Fun.(*ast.SelectorExpr); ok {
						if id, ok := cs.X.(*ast.Ident); ok && id.Name == "atomic" {
							kind = "atomic"
						}
					}
				}
			}
		}
		if len(stack) >= 2 {
			if ps, ok := stack[len(stack)-2].(*ast.SelectorExpr); ok && ps.X == se {
				if strings.Contains(sel.Type().String(), "sync/atomic.") {
					kind = "atomic"
				}
			}
		}
		// composite-literal initialisation and declarations are not accesses of a shared object
		accessRows = append(accessRows, fmt.Sprintf("(%s, %s, %s)", leanStr(owner+"."+se.Sel.Name), leanStr(name), leanStr(kind)))
		return true
	})
	sort.Strings(accessRows)
	uniq := accessRows[:0]
	for i, r := range accessRows {
		if i == 0 || r != accessRows[i-1] {
			uniq = append(uniq, r)
		}
	}
	accessRows = uniq
	m["accessTable"] = "List (String × String × String) := [\n  " + strings.Join(accessRows, ",\n  ") + "]"
}

package main

import (
	"fmt"
	"go/ast"
	"go/types"
	"sort"
	"strings"

	"golang.org/x/tools/go/packages"
)

var accessRows []string

// shared fields whose accesses are classified for the C08 access table
var sharedFields = map[string]bool{
	"robin": true, "numConns": true, "unhealthy": true, "fails": true, "lastDigest": true,
	"deadline": true,
}

func containsIdent(n ast.Node, name string) bool {
	found := false
	ast.Inspect(n, func(x ast.Node) bool {
		if id, ok := x.(*ast.Ident); ok && id.Name == name {
			found = true
		}
		return !found
	})
	return found
}

func isCallTo(c *ast.CallExpr, recv, name string) bool {
	se, ok := c.Fun.(*ast.SelectorExpr)
	if !ok || se.Sel.Name != name {
		return false
	}
	id, ok := se.X.(*ast.Ident)
	return ok && id.Name == recv
}

func boolFact(m map[string]string, key string, v bool) {
	m[key] = fmt.Sprintf("Bool := %v", v)
}

func collectFacts(p *packages.Package, fd *ast.FuncDecl, name string, m map[string]string) {
	switch name {
	case "layer4.listener.handle", "layer4.Server.handle":
		// how is the matching buffer returned to the pool?
		bare, guarded, anyPut, exactGuard, inexactGuard := false, false, false, false, false
		ast.Inspect(fd.Body, func(n ast.Node) bool {
			ds, ok := n.(*ast.DeferStmt)
			if !ok {
				if c, ok := n.(*ast.CallExpr); ok && isCallTo(c, "bufPool", "Put") {
					anyPut = true
				}
				return true
			}
			if isCallTo(ds.Call, "bufPool", "Put") {
				bare = true
				anyPut = true
			}
			if fl, ok := ds.Call.Fun.(*ast.FuncLit); ok {
				ast.Inspect(fl.Body, func(x ast.Node) bool {
					if is, ok := x.(*ast.IfStmt); ok && containsIdent(is.Cond, "errHijacked") {
						exact := false
						// the guard must be exactly `!errors.Is(err, errHijacked)`: any weaker condition lets the buffer of some
						// hijacked connections back into the pool
						if ue, ok := is.Cond.(*ast.UnaryExpr); ok && ue.Op.String() == "!" {
							if c, ok := ue.X.(*ast.CallExpr); ok {
								if r, nm := callName(c); r == "errors" && nm == "Is" && len(c.Args) == 2 && exprString(c.Args[1]) == "errHijacked" {
									exact = true
								}
							}
						}
						ast.Inspect(is.Body, func(y ast.Node) bool {
							if c, ok := y.(*ast.CallExpr); ok && isCallTo(c, "bufPool", "Put") {
								guarded = true
								if exact {
									exactGuard = true
								} else {
									inexactGuard = true
								}
							}
							return true
						})
					}
					return true
				})
			}
			return true
		})
		closeGuarded := false
		ast.Inspect(fd.Body, func(n ast.Node) bool {
			if is, ok := n.(*ast.IfStmt); ok && containsIdent(is.Cond, "errHijacked") {
				ast.Inspect(is.Body, func(y ast.Node) bool {
					if c, ok := y.(*ast.CallExpr); ok {
						if se, ok := c.Fun.(*ast.SelectorExpr); ok && se.Sel.Name == "Close" {
							closeGuarded = true
						}
					}
					return true
				})
			}
			return true
		})
		key := strings.ReplaceAll(strings.TrimPrefix(name, "layer4."), ".", "_")
		boolFact(m, key+"_closes_conn_unless_hijacked", closeGuarded)
		boolFact(m, key+"_bare_defer_put", bare)
		boolFact(m, key+"_put_guarded_by_hijack", guarded)
		boolFact(m, key+"_put_guard_is_exactly_not_hijacked", guarded && exactGuard && !inexactGuard)
		boolFact(m, key+"_any_put", anyPut)
		boolFact(m, key+"_mentions_errHijacked", containsIdent(fd.Body, "errHijacked"))
	case "layer4.listener.loop":
		// close(l.connChan) only after l.wg.Wait() in the same function literal; connChan drained after close(l.done)
		closeAfterWait, closeElsewhere, drains, closesDone := false, false, false, false
		ast.Inspect(fd.Body, func(n ast.Node) bool {
			switch t := n.(type) {
			case *ast.FuncLit:
				sawWait := false
				for _, st := range t.Body.List {
					if es, ok := st.(*ast.ExprStmt); ok {
						if c, ok := es.X.(*ast.CallExpr); ok {
							if se, ok := c.Fun.(*ast.SelectorExpr); ok && se.Sel.Name == "Wait" {
								sawWait = true
							}
							if id, ok := c.Fun.(*ast.Ident); ok && id.Name == "close" && containsIdent(c, "connChan") {
								if sawWait {
									closeAfterWait = true
								} else {
									closeElsewhere = true
								}
							}
						}
					}
				}
				return false
			case *ast.CallExpr:
				if id, ok := t.Fun.(*ast.Ident); ok && id.Name == "close" {
					if containsIdent(t, "connChan") {
						closeElsewhere = true
					}
					if containsIdent(t, "done") {
						closesDone = true
					}
				}
			case *ast.RangeStmt:
				if containsIdent(t.X, "connChan") && closesDone {
					ast.Inspect(t.Body, func(y ast.Node) bool {
						if c, ok := y.(*ast.CallExpr); ok {
							if se, ok := c.Fun.(*ast.SelectorExpr); ok && se.Sel.Name == "Close" {
								drains = true
							}
						}
						return true
					})
				}
			}
			return true
		})
		boolFact(m, "listener_loop_closes_connChan_only_after_wait", closeAfterWait && !closeElsewhere)
		boolFact(m, "listener_loop_closes_done_then_drains", closesDone && drains)
	case "layer4.Connection.prefetch":
		// the read error is returned only when the read brought no bytes: every `return err` sits directly in an `if`
		// whose condition is the conjunction of `err != nil` and `n == 0`
		okRet, badRet := 0, 0
		var walk func(n ast.Node, guard string)
		walk = func(n ast.Node, guard string) {
			ast.Inspect(n, func(x ast.Node) bool {
				switch t := x.(type) {
				case *ast.FuncLit:
					return false
				case *ast.IfStmt:
					if t.Init != nil {
						walk(t.Init, guard)
					}
					walk(t.Body, exprString(t.Cond))
					if t.Else != nil {
						walk(t.Else, "")
					}
					return false
				case *ast.ReturnStmt:
					if len(t.Results) == 1 && exprString(t.Results[0]) == "err" {
						g := strings.ReplaceAll(guard, " ", "")
						if g == "err!=nil&&n==0" || g == "n==0&&err!=nil" {
							okRet++
						} else {
							badRet++
						}
					}
				}
				return true
			})
		}
		walk(fd.Body, "")
		boolFact(m, "prefetch_returns_read_error_only_without_bytes", okRet == 1 && badRet == 0)
	case "layer4.listener.pipeConnection":
		all, any := true, false
		ast.Inspect(fd.Body, func(n ast.Node) bool {
			if r, ok := n.(*ast.ReturnStmt); ok {
				any = true
				if len(r.Results) != 1 || !containsIdent(r.Results[0], "errHijacked") {
					all = false
				}
			}
			return true
		})
		boolFact(m, "pipeConnection_always_returns_errHijacked", all && any)
	case "layer4.listener.Accept":
		sel := false
		ast.Inspect(fd.Body, func(n ast.Node) bool {
			if s, ok := n.(*ast.SelectStmt); ok {
				if containsIdent(s, "connChan") && containsIdent(s, "done") {
					sel = true
				}
			}
			return true
		})
		boolFact(m, "listener_Accept_selects_connChan_and_done", sel)
	case "layer4.packetConn.Close":
		closes := false
		ast.Inspect(fd.Body, func(n ast.Node) bool {
			if c, ok := n.(*ast.CallExpr); ok {
				if id, ok := c.Fun.(*ast.Ident); ok && id.Name == "close" && len(c.Args) == 1 {
					if se, ok := c.Args[0].(*ast.SelectorExpr); ok && se.Sel.Name == "readCh" {
						closes = true
					}
				}
			}
			return true
		})
		boolFact(m, "packetConn_Close_closes_readCh", closes)
	case "l4proxy.Handler.proxy":
		proxyFacts(fd, m)
	case "l4proxy.Handler.Handle":
		// a deferred function that closes every element of upConns is installed before h.proxy is called
		deferPos, proxyPos := -1, -1
		for i, st := range fd.Body.List {
			if ds, ok := st.(*ast.DeferStmt); ok {
				if fl, ok := ds.Call.Fun.(*ast.FuncLit); ok && rangeClosesAll(fl.Body, "upConns") {
					deferPos = i
				}
			}
			if es, ok := st.(*ast.ExprStmt); ok {
				if c, ok := es.X.(*ast.CallExpr); ok {
					if se, ok := c.Fun.(*ast.SelectorExpr); ok && se.Sel.Name == "proxy" {
						proxyPos = i
					}
				}
			}
		}
		boolFact(m, "proxy_Handle_defers_close_of_all_upconns_before_proxy", deferPos >= 0 && proxyPos > deferPos)
		// C11: connections are counted once per peer after the dial loop and given back in a deferred function
		forPos, cntPos, uncntDefer := -1, -1, false
		for i, st := range fd.Body.List {
			switch t := st.(type) {
			case *ast.ForStmt:
				forPos = i
			case *ast.RangeStmt:
				if rangeCallsWithArg(t, "countConn", "1") {
					cntPos = i
				}
			case *ast.DeferStmt:
				if fl, ok := t.Call.Fun.(*ast.FuncLit); ok {
					ast.Inspect(fl.Body, func(n ast.Node) bool {
						if rs, ok := n.(*ast.RangeStmt); ok && rangeCallsWithArg(rs, "countConn", "-1") {
							uncntDefer = true
						}
						return true
					})
				}
			}
		}
		boolFact(m, "health_Handle_counts_conn_per_peer_after_dial_loop", forPos >= 0 && cntPos > forPos && cntPos < proxyPos)
		boolFact(m, "health_Handle_defers_uncount_per_peer", uncntDefer)
	case "l4proxy.Handler.dialPeers":
		// on a dial / header error the connections opened so far are closed before returning
		ok := false
		ast.Inspect(fd.Body, func(n ast.Node) bool {
			if is, isIf := n.(*ast.IfStmt); isIf && containsIdent(is.Cond, "err") && rangeClosesAll(is.Body, "upConns") {
				for _, st := range is.Body.List {
					if _, isRet := st.(*ast.ReturnStmt); isRet {
						ok = true
					}
				}
			}
			return true
		})
		boolFact(m, "proxy_dialPeers_closes_opened_conns_on_error", ok)
		counts, failsCounted := false, false
		ast.Inspect(fd.Body, func(n ast.Node) bool {
			if c, isCall := n.(*ast.CallExpr); isCall {
				if _, nm := callName(c); nm == "countConn" {
					counts = true
				}
			}
			if is, isIf := n.(*ast.IfStmt); isIf && containsIdent(is.Cond, "err") {
				ast.Inspect(is.Body, func(y ast.Node) bool {
					if c, isCall := y.(*ast.CallExpr); isCall {
						if _, nm := callName(c); nm == "countFailure" {
							failsCounted = true
						}
					}
					return true
				})
			}
			return true
		})
		boolFact(m, "health_dialPeers_never_counts_conns", !counts)
		boolFact(m, "health_dialPeers_counts_failure_on_error", failsCounted)
	case "l4proxy.Handler.countFailure":
		// returns before the failure is counted (the two configuration guards), and the forgetter
		retBefore, counted, forget := 0, false, false
		for _, st := range fd.Body.List {
			if !counted {
				ast.Inspect(st, func(n ast.Node) bool {
					if c, ok := n.(*ast.CallExpr); ok {
						if _, nm := callName(c); nm == "countFail" && len(c.Args) == 1 && exprString(c.Args[0]) == "1" {
							counted = true
						}
					}
					return true
				})
				if !counted {
					ast.Inspect(st, func(n ast.Node) bool {
						if _, ok := n.(*ast.ReturnStmt); ok {
							retBefore++
						}
						return true
					})
				}
				continue
			}
			if gs, ok := st.(*ast.GoStmt); ok {
				if fl, ok := gs.Call.Fun.(*ast.FuncLit); ok {
					slept := false
					for _, b := range fl.Body.List {
						ast.Inspect(b, func(n ast.Node) bool {
							if c, ok := n.(*ast.CallExpr); ok {
								r, nm := callName(c)
								if r == "time" && nm == "Sleep" && len(c.Args) == 1 && containsIdent(c.Args[0], "failDuration") {
									slept = true
								}
								if nm == "countFail" && len(c.Args) == 1 && exprString(c.Args[0]) == "-1" && slept {
									forget = true
								}
							}
							return true
						})
					}
				}
			}
		}
		m["health_countFailure_returns_before_counting"] = fmt.Sprintf("Nat := %d", retBefore)
		boolFact(m, "health_countFailure_counts_then_forgets_after_failDuration", counted && forget)
	case "l4proxy.LoadBalancing.tryAgain":
		gate, wait := false, false
		ast.Inspect(fd.Body, func(n ast.Node) bool {
			if is, ok := n.(*ast.IfStmt); ok {
				if be, ok := is.Cond.(*ast.BinaryExpr); ok && be.Op.String() == ">=" && containsIdent(be.X, "Since") && containsIdent(be.X, "start") && containsIdent(be.Y, "TryDuration") {
					for _, b := range is.Body.List {
						if r, ok := b.(*ast.ReturnStmt); ok && len(r.Results) == 1 && exprString(r.Results[0]) == "false" {
							gate = true
						}
					}
				}
			}
			if cc, ok := n.(*ast.CommClause); ok && cc.Comm != nil && containsIdent(cc.Comm, "After") && containsIdent(cc.Comm, "TryInterval") {
				for _, b := range cc.Body {
					if r, ok := b.(*ast.ReturnStmt); ok && len(r.Results) == 1 && exprString(r.Results[0]) == "true" {
						wait = true
					}
				}
			}
			return true
		})
		boolFact(m, "health_tryAgain_gives_up_at_TryDuration_else_waits_TryInterval", gate && wait)
	case "l4proxy.Handler.doActiveHealthCheck":
		down, upAfter := false, false
		for _, st := range fd.Body.List {
			if is, ok := st.(*ast.IfStmt); ok && containsIdent(is.Cond, "err") {
				ast.Inspect(is.Body, func(n ast.Node) bool {
					if c, ok := n.(*ast.CallExpr); ok {
						if _, nm := callName(c); nm == "setHealthy" && len(c.Args) == 1 && exprString(c.Args[0]) == "false" {
							down = true
						}
					}
					return true
				})
				continue
			}
			if down {
				ast.Inspect(st, func(n ast.Node) bool {
					if c, ok := n.(*ast.CallExpr); ok {
						if _, nm := callName(c); nm == "setHealthy" && len(c.Args) == 1 && exprString(c.Args[0]) == "true" {
							upAfter = true
						}
					}
					return true
				})
			}
		}
		boolFact(m, "health_activeCheck_marks_down_on_dial_error_up_on_success", down && upAfter)
	case "layer4.packetConn.SetReadDeadline":
		// the deadline must be stored with sub-second resolution
		unix, nano := false, false
		ast.Inspect(fd.Body, func(n ast.Node) bool {
			if se, ok := n.(*ast.SelectorExpr); ok {
				if se.Sel.Name == "Unix" {
					unix = true
				}
				if se.Sel.Name == "UnixNano" || se.Sel.Name == "UnixMicro" || se.Sel.Name == "UnixMilli" {
					nano = true
				}
			}
			return true
		})
		boolFact(m, "udp_deadline_stored_subsecond", nano && !unix)
	}

	// access table: every use of a shared field, classified
	var stack []ast.Node
	ast.Inspect(fd.Body, func(n ast.Node) bool {
		if n == nil {
			stack = stack[:len(stack)-1]
			return true
		}
		stack = append(stack, n)
		se, ok := n.(*ast.SelectorExpr)
		if !ok || !sharedFields[se.Sel.Name] {
			return true
		}
		sel, ok := p.TypesInfo.Selections[se]
		if !ok || sel.Kind() != types.FieldVal {
			return true
		}
		owner := sel.Recv().String()
		if i := strings.LastIndex(owner, "."); i >= 0 {
			owner = owner[i+1:]
		}
		owner = strings.TrimPrefix(owner, "*")
		kind := "plain"
		// parents: &x.f as argument of atomic.*  |  x.f.Load()/Store()/Add()/CompareAndSwap() on sync/atomic types
		if len(stack) >= 3 {
			if ue, ok := stack[len(stack)-2].(*ast.UnaryExpr); ok && ue.Op.String() == "&" {
				if c, ok := stack[len(stack)-3].(*ast.CallExpr); ok {
					if cs, ok := c.Fun.(*ast.SelectorExpr); ok {
						if id, ok := cs.X.(*ast.Ident); ok && id.Name == "atomic" {
							kind = "atomic"
						}
					}
				}
			}
		}
		if len(stack) >= 2 {
			if ps, ok := stack[len(stack)-2].(*ast.SelectorExpr); ok && ps.X == se {
				if strings.Contains(sel.Type().String(), "sync/atomic.") {
					kind = "atomic"
				}
			}
		}
		// composite-literal initialisation and declarations are not accesses of a shared object
		accessRows = append(accessRows, fmt.Sprintf("(%s, %s, %s)", leanStr(owner+"."+se.Sel.Name), leanStr(name), leanStr(kind)))
		return true
	})
	sort.Strings(accessRows)
	uniq := accessRows[:0]
	for i, r := range accessRows {
		if i == 0 || r != accessRows[i-1] {
			uniq = append(uniq, r)
		}
	}
	accessRows = uniq
	m["accessTable"] = "List (String × String × String) := [\n  " + strings.Join(accessRows, ",\n  ") + "]"
}

// rangeClosesAll: the block contains `for _, x := range <name> { ... x.Close() ... }`
func rangeClosesAll(b *ast.BlockStmt, name string) bool {
	found := false
	ast.Inspect(b, func(n ast.Node) bool {
		rs, ok := n.(*ast.RangeStmt)
		if !ok {
			return true
		}
		if id, ok := rs.X.(*ast.Ident); !ok || id.Name != name {
			return true
		}
		v, ok := rs.Value.(*ast.Ident)
		if !ok {
			return true
		}
		ast.Inspect(rs.Body, func(y ast.Node) bool {
			if c, ok := y.(*ast.CallExpr); ok {
				if se, ok := c.Fun.(*ast.SelectorExpr); ok && se.Sel.Name == "Close" {
					if id, ok := se.X.(*ast.Ident); ok && id.Name == v.Name {
						found = true
					}
				}
			}
			return true
		})
		return true
	})
	return found
}

func callName(e ast.Expr) (recv, name string) {
	c, ok := e.(*ast.CallExpr)
	if !ok {
		return "", ""
	}
	switch f := c.Fun.(type) {
	case *ast.Ident:
		return "", f.Name
	case *ast.SelectorExpr:
		if id, ok := f.X.(*ast.Ident); ok {
			return id.Name, f.Sel.Name
		}
		return "?", f.Sel.Name
	}
	return "", ""
}

// proxyFacts extracts the statement-level protocol of Handler.proxy that L4/Relay.lean encodes.
func proxyFacts(fd *ast.FuncDecl, m map[string]string) {
	sigCap := -1         // capacity of the channel the pump signals on
	sigName := ""        // its name
	teeAll := false      // for range upConns { downTee = io.TeeReader(downTee, up) }
	copyPerUp := false   // for range upConns { wg.Add(1); go func(){ defer wg.Done(); io.Copy(down, up) }() }
	pumpOrder := false   // pump goroutine: io.Copy(io.Discard, downTee); sig <- ...; range upConns { CloseWrite | Close }
	pumpCopiesTee := false
	mainOrder := false // wg.Wait(); CloseWrite on down.Conn; <-sig  (in this order, at top level)
	// channel
	ast.Inspect(fd.Body, func(n ast.Node) bool {
		as, ok := n.(*ast.AssignStmt)
		if !ok || len(as.Lhs) != 1 || len(as.Rhs) != 1 {
			return true
		}
		c, ok := as.Rhs[0].(*ast.CallExpr)
		if !ok {
			return true
		}
		if id, ok := c.Fun.(*ast.Ident); ok && id.Name == "make" && len(c.Args) >= 1 {
			if _, isChan := c.Args[0].(*ast.ChanType); isChan {
				if l, ok := as.Lhs[0].(*ast.Ident); ok {
					sigName = l.Name
					sigCap = 0
					if len(c.Args) == 2 {
						if bl, ok := c.Args[1].(*ast.BasicLit); ok {
							fmt.Sscanf(bl.Value, "%d", &sigCap)
						} else {
							sigCap = -1
						}
					}
				}
			}
		}
		return true
	})
	isSend := func(st ast.Stmt) bool {
		s, ok := st.(*ast.SendStmt)
		if !ok {
			return false
		}
		id, ok := s.Chan.(*ast.Ident)
		return ok && id.Name == sigName
	}
	closesWriteAll := func(st ast.Stmt) bool {
		rs, ok := st.(*ast.RangeStmt)
		if !ok {
			return false
		}
		if id, ok := rs.X.(*ast.Ident); !ok || id.Name != "upConns" {
			return false
		}
		cw, cl := false, false
		ast.Inspect(rs.Body, func(y ast.Node) bool {
			if c, ok := y.(*ast.CallExpr); ok {
				if se, ok := c.Fun.(*ast.SelectorExpr); ok {
					if se.Sel.Name == "CloseWrite" {
						cw = true
					}
					if se.Sel.Name == "Close" {
						cl = true
					}
				}
			}
			return true
		})
		return cw && cl
	}
	for _, st := range fd.Body.List {
		switch t := st.(type) {
		case *ast.RangeStmt:
			if id, ok := t.X.(*ast.Ident); ok && id.Name == "upConns" {
				for _, b := range t.Body.List {
					if as, ok := b.(*ast.AssignStmt); ok && len(as.Rhs) == 1 {
						if r, n := callName(as.Rhs[0]); r == "io" && n == "TeeReader" {
							c := as.Rhs[0].(*ast.CallExpr)
							if len(c.Args) == 2 && containsIdent(c.Args[0], "downTee") && containsIdent(as.Lhs[0], "downTee") {
								if v, ok := t.Value.(*ast.Ident); ok && containsIdent(c.Args[1], v.Name) {
									teeAll = true
								}
							}
						}
					}
				}
				// copy goroutine
				add, goCopy := false, false
				for _, b := range t.Body.List {
					if es, ok := b.(*ast.ExprStmt); ok {
						if r, n := callName(es.X); r == "wg" && n == "Add" {
							add = true
						}
					}
					if gs, ok := b.(*ast.GoStmt); ok {
						if fl, ok := gs.Call.Fun.(*ast.FuncLit); ok {
							done, cp := false, false
							ast.Inspect(fl.Body, func(y ast.Node) bool {
								if ds, ok := y.(*ast.DeferStmt); ok {
									if r, n := callName(ds.Call); r == "wg" && n == "Done" {
										done = true
									}
								}
								if c, ok := y.(*ast.CallExpr); ok {
									if r, n := callName(c); r == "io" && n == "Copy" && len(c.Args) == 2 && containsIdent(c.Args[0], "down") && containsIdent(c.Args[1], "up") {
										cp = true
									}
								}
								return true
							})
							goCopy = done && cp
						}
					}
				}
				if add && goCopy {
					copyPerUp = true
				}
			}
		case *ast.GoStmt:
			fl, ok := t.Call.Fun.(*ast.FuncLit)
			if !ok {
				continue
			}
			stage := 0
			for _, b := range fl.Body.List {
				switch stage {
				case 0:
					ast.Inspect(b, func(y ast.Node) bool {
						if c, ok := y.(*ast.CallExpr); ok {
							if r, n := callName(c); r == "io" && n == "Copy" && len(c.Args) == 2 && containsIdent(c.Args[1], "downTee") {
								pumpCopiesTee = true
								stage = 1
							}
						}
						return true
					})
				case 1:
					if isSend(b) {
						stage = 2
					} else if closesWriteAll(b) {
						stage = 9 // half-close before the signal: a different protocol
					}
				case 2:
					if closesWriteAll(b) {
						stage = 3
					}
				}
			}
			if stage == 3 {
				pumpOrder = true
			}
		}
	}
	// main: order of wg.Wait(), CloseWrite on down, receive
	stage := 0
	for _, st := range fd.Body.List {
		switch stage {
		case 0:
			if es, ok := st.(*ast.ExprStmt); ok {
				if r, n := callName(es.X); r == "wg" && n == "Wait" {
					stage = 1
				}
			}
		case 1:
			if is, ok := st.(*ast.IfStmt); ok && containsIdent(is, "CloseWrite") && containsIdent(is, "down") {
				stage = 2
			}
		case 2:
			if es, ok := st.(*ast.ExprStmt); ok {
				if ue, ok := es.X.(*ast.UnaryExpr); ok && ue.Op.String() == "<-" {
					if id, ok := ue.X.(*ast.Ident); ok && id.Name == sigName {
						stage = 3
					}
				}
			}
		}
	}
	mainOrder = stage == 3
	if sigCap < 0 {
		sigCap = 0
	}
	m["proxy_signal_chan_cap"] = fmt.Sprintf("Nat := %d", sigCap)
	boolFact(m, "proxy_tee_chain_over_all_upconns", teeAll)
	boolFact(m, "proxy_copy_goroutine_per_upconn_counted_in_wg", copyPerUp)
	boolFact(m, "proxy_pump_copies_tee_then_signals_then_closes_write_all", pumpOrder && pumpCopiesTee)
	boolFact(m, "proxy_main_waits_copies_then_closewrite_down_then_receives", mainOrder)
}

func exprString(e ast.Expr) string {
	switch t := e.(type) {
	case *ast.BasicLit:
		return t.Value
	case *ast.Ident:
		return t.Name
	case *ast.UnaryExpr:
		return t.Op.String() + exprString(t.X)
	case *ast.ParenExpr:
		return exprString(t.X)
	case *ast.BinaryExpr:
		return exprString(t.X) + t.Op.String() + exprString(t.Y)
	}
	return "?"
}

// rangeCallsWithArg: `for _, p := range ... { ... p.<method>(<arg>) ... }`
func rangeCallsWithArg(rs *ast.RangeStmt, method, arg string) bool {
	found := false
	ast.Inspect(rs.Body, func(n ast.Node) bool {
		if c, ok := n.(*ast.CallExpr); ok {
			if _, nm := callName(c); nm == method && len(c.Args) == 1 && exprString(c.Args[0]) == arg {
				found = true
			}
		}
		return true
	})
	return found
}

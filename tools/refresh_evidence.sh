#!/bin/bash
# runs every claimed quick check on the unchanged /repo and rewrites evidence/*.json; prints one line per property
cd "$(dirname "$0")/.." || exit 2
git -C /repo diff --quiet || { echo "/repo has uncommitted changes"; exit 2; }
for p in $(python3 -c "import sys;sys.path.insert(0,'.');from checklib.props import PROPS;print(' '.join(sorted(PROPS)))"); do
  ./check $p --tier quick 2>/dev/null | grep -E "^VIOLATION|^OK" | cut -c1-200
done

#!/bin/bash
# usage: trymut.sh <patch.diff> <property-id>... : apply a seeded change to /repo, run the quick checks, undo it
patch=$1; shift
cd /repo || exit 2
if ! git diff --quiet; then echo "repo has uncommitted changes"; exit 2; fi
git apply "$patch" || { echo "patch does not apply"; exit 2; }
trap 'git -C /repo checkout -- . ' EXIT
for id in "$@"; do
  (cd /verif && timeout 1800 ./check $id 2>&1 | grep -E "VIOLATION|^OK|KNOWN|BROKEN|failing case" | cut -c1-400)
done

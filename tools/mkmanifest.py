#!/usr/bin/env python3
"""Regenerates /verif/MANIFEST.json from checklib/props.py (claimed properties) and checklib/notclaimed.json."""
import json, os, sys
V = os.path.dirname(os.path.dirname(os.path.abspath(__file__)))
sys.path.insert(0, V)
from checklib.props import PROPS
ids = [json.loads(l)["id"] for l in open(os.path.join(V, "properties.jsonl"))]
nc = json.load(open(os.path.join(V, "checklib", "notclaimed.json")))
hooks_commits = json.load(open(os.path.join(V, "checklib", "hooks.json"))) if os.path.exists(os.path.join(V, "checklib", "hooks.json")) else []
base = "for m in $(cat /w/out/gomods.txt); do MF=$(cd /repo/$m && . /w/out/goenv.sh && gomodflag); (cd /repo/$m && go test $MF -json -vet=off -count=1 -timeout 25m ./...); done"
man = dict(
    version=1,
    setup_cmd="./setup.sh",
    hooks=dict(guard="verif", enable="go test -tags verif (every check passes -tags verif). layer4/verif_on.go defines `VerifHook func(point string, obj any)`; 19 one-line call sites in layer4/listener.go and layer4/server.go report the synchronisation points of the listener wrapper and of the UDP server loop; with the tag off layer4/verif_off.go makes them empty inlinable calls. The harness itself is injected with go test -overlay and changes no repository file.",
               baseline_off_cmd=base, source_commits=hooks_commits, add_only=True),
    engines=[dict(name="lean4-l4", path="lean/", serves_properties=[i for i in ids if i in PROPS],
                  kind_free_text="Lean 4 models + theorems (lake project, core only), facts regenerated from /repo by extract/, line-protocol driver l4drv"),
             dict(name="go-harness", path="harness/", serves_properties=[i for i in ids if i in PROPS],
                  kind_free_text="Go in-package harness tests injected with go test -overlay; property oracles + correspondence streams")],
    checks=[],
    notes="See DESIGN.md. ./check <id> --tier quick|thorough; VERIF_SEED seeds every generator; known_findings.json lists recorded findings and fixed defects.",
    not_applicable=[],
)
for i in ids:
    if i in PROPS:
        P = PROPS[i]
        man["checks"].append(dict(
            property_id=i,
            quick_cmd=f"./check {i} --tier quick",
            thorough_cmd=f"./check {i} --tier thorough",
            evidence_file=f"/verif/evidence/{i}.json",
            replay_cmd_template=f"./check {i} --replay {{path}}",
            engine="lean4-l4",
            level_claimed=dict(category="proof", text=P["level_text"], design_ref=f"DESIGN.md §7 {i}"),
            level_note=P["level_note"],
            technique=P.get("technique", "Lean 4 theorems over a model of the code + regenerated facts + differential correspondence with the Go implementation"),
        ))
    else:
        man["not_applicable"].append(dict(property_id=i, reason=nc.get(i, "check not completed yet (no technique limitation claimed); see DESIGN.md §15")))
json.dump(man, open(os.path.join(V, "MANIFEST.json"), "w"), indent=1)
print("claimed:", [c["property_id"] for c in man["checks"]])

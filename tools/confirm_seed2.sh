#!/bin/bash
# confirm_seed2.sh <ID> <k> <worktree> <patch> <summary-file>: the worktree holds an untracked *zz_demo_test.go; verify the change
# (build, full suite with the change, demo with and without it) and, if confirmed, store it under /verif/seeded/<ID>-<k>/
ID=$1; K=$2; W=$3; P=$4; S=$5
export GOFLAGS=-mod=mod GOPROXY=off GOSUMDB=off GOTOOLCHAIN=local
cd $W || exit 2
demo=$(git status --porcelain | grep -o '[^ ]*zz_demo_test.go' | head -1)
[ -f "$demo" ] && [ -f "$P" ] || { echo "$ID-$K MISSING demo=$demo"; exit 1; }
place=$(dirname $demo)
cp $demo /tmp/demo_$ID$K.go
git checkout -q -- . ; rm -f $demo
runpat=$(grep -o 'func Test[A-Za-z0-9_]*' /tmp/demo_$ID$K.go | sed 's/func //' | paste -sd'|')
res() { echo "$ID-$K $1"; }
git apply $P || { res "PATCH-FAILS"; exit 1; }
go build ./... >/dev/null 2>&1 || { res "BUILD-FAILS"; git checkout -q -- .; exit 1; }
if ! go test -vet=off -count=1 ./... >/tmp/suite_$ID$K.log 2>&1; then res "SUITE-FAILS-WITH-CHANGE"; git checkout -q -- .; exit 1; fi
cp /tmp/demo_$ID$K.go $W/$place/verifdemo_${K}_test.go
go test -vet=off -count=1 -run "^($runpat)\$" ./$place/ >/tmp/demo_with_$ID$K.log 2>&1; with=$?
git checkout -q -- .
go test -vet=off -count=1 -run "^($runpat)\$" ./$place/ >/tmp/demo_without_$ID$K.log 2>&1; without=$?
rm -f $W/$place/verifdemo_${K}_test.go
if [ $with -ne 0 ] && [ $without -eq 0 ]; then
  D=/verif/seeded/$ID-$K; mkdir -p $D
  cp $P $D/patch.diff; cp /tmp/demo_$ID$K.go $D/demo_test.go
  python3 - <<PY
import json
out=dict(property="$ID", summary=open("$S").read().strip(), demo_place="$place", demo_run="go test -vet=off -count=1 -run '^($runpat)\$' ./$place/",
  confirmed=dict(build=True, suite_passes_with_change=True, demo_fails_with_change=True, demo_passes_without_change=True,
                 how="tools/confirm_seed2.sh in a scratch worktree (go build ./..., go test ./..., demo with and without the patch)"))
json.dump(out, open("$D/meta.json","w"), indent=1)
PY
  res "CONFIRMED place=$place"
else
  res "NOT-CONFIRMED with=$with without=$without place=$place"
fi
rm -f /tmp/demo_$ID$K.go

#!/bin/bash
# sweep.sh <tier> <seed>...: run every claimed check on the unchanged tree for several seeds; any VIOLATION is a false alarm to investigate
cd "$(dirname "$0")/.." || exit 2
tier=$1; shift
[ -x lean/.lake/build/bin/l4drv ] || ./setup.sh >/dev/null 2>&1
: > sweep.out
for sd in "$@"; do
  for p in $(python3 -c "import sys;sys.path.insert(0,'.');from checklib.props import PROPS;print(' '.join(sorted(PROPS)))"); do
    t0=$(date +%s)
    line=$(VERIF_SEED=$sd timeout 7200 ./check $p --tier $tier 2>sweep.err | grep -E "^VIOLATION|^OK" | cut -c1-200)
    echo "seed=$sd $p $(( $(date +%s) - t0 ))s $line" >> sweep.out
    if echo "$line" | grep -q VIOLATION; then grep -E "failing case|BROKEN" sweep.err | head -3 | cut -c1-700 >> sweep.out; cp replays/$p-* /tmp/ 2>/dev/null; fi
  done
done
echo done >> sweep.out

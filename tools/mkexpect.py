#!/usr/bin/env python3
"""Regenerates lean/L4/Expect.lean (index/slice/make census expected for the modelled Go functions) and
checklib/hashes.json (normalised-source hashes) from the current L4/Gen/Census.lean.  Run deliberately after the models
have been brought in line with the code; never run by the checks."""
import re, json, os, subprocess
V = os.path.dirname(os.path.dirname(os.path.abspath(__file__)))
# always start from facts extracted from the current /repo tree (a check run on a patched tree may have left others behind)
subprocess.check_call([os.path.join(V, "extract", "extract"), os.environ.get("VERIF_REPO", "/repo"), os.path.join(V, "lean", "L4", "Gen")],
                      env=dict(os.environ, GOFLAGS="-mod=mod", GOPROXY="off", GOSUMDB="off", GOTOOLCHAIN="local"))
MODELLED = {
 "C01": ["layer4.Connection.Read", "layer4.Connection.prefetch", "layer4.Connection.freeze", "layer4.Connection.unfreeze", "layer4.Connection.Wrap", "layer4.Connection.MatchingBytes", "l4tee.Handler.Handle", "l4throttle.throttledConn.Read", "l4proxyprotocol.Handler.Handle"],
 "C06": ["layer4.Connection.Read", "layer4.Connection.freeze", "layer4.Connection.unfreeze", "layer4.MatcherSet.Match"],
 "C02": ["layer4.RouteList.Compile", "layer4.MatcherSet.Match", "layer4.MatcherSets.AnyMatch", "layer4.MatchNot.Match", "l4subroute.Handler.Handle"],
 "C04": ["l4postgres.MatchPostgres.Match", "l4postgres.message.ReadString", "l4postgres.message.ReadUint32", "l4winbox.MatchWinbox.Match", "l4winbox.MessageAuth.FromBytes", "l4winbox.MessageAuth.FromChunks",
         "l4rdp.MatchRDP.Match", "l4socks.Socks4Matcher.Match", "l4socks.Socks5Matcher.Match", "l4ssh.MatchSSH.Match", "l4xmpp.MatchXMPP.Match", "l4regexp.MatchRegexp.Match", "l4proxyprotocol.MatchProxyProtocol.Match",
         "l4wireguard.MatchWireGuard.Match", "l4tls.MatchTLS.Match", "l4dns.MatchDNS.Match", "l4openvpn.MatchOpenVPN.Match", "l4http.MatchHTTP.Match", "l4http.MatchHTTP.isHttp", "l4openvpn.MessagePlain.FromBytesHeadless", "l4openvpn.MessageHeader.FromBytes"],
}
MODELLED["C06"] = MODELLED["C06"] + MODELLED["C04"]
MODELLED["C14"] = MODELLED["C04"] + ["layer4.MatchRemoteIP.Match", "layer4.MatchLocalIP.Match", "l4clock.MatchClock.Match", "l4dns.MatchDNSRule.Match"]
MODELLED["C18"] = ["l4winbox.MessageAuth.FromBytes", "l4winbox.MessageAuth.FromChunks", "l4winbox.MessageAuth.ToBytes", "l4winbox.MessageAuth.ToChunks",
                   "l4rdp.TPKTHeader.FromBytes", "l4rdp.X224Crq.FromBytes", "l4rdp.RDPNegReq.FromBytes", "l4rdp.RDPCorrInfo.FromBytes", "l4rdp.RDPToken.FromBytes",
                   "l4wireguard.MessageInitiation.FromBytes", "l4wireguard.MessageTransport.FromBytes", "l4openvpn.MessagePlain.FromBytes", "l4openvpn.MessagePlain.FromBytesHeadless"]
MODELLED["C10"] = ["l4proxy.FirstSelection.Select", "l4proxy.RandomSelection.Select", "l4proxy.RandomChoiceSelection.Select", "l4proxy.LeastConnSelection.Select",
                   "l4proxy.RoundRobinSelection.Select", "l4proxy.IPHashSelection.Select", "l4proxy.leastConns", "l4proxy.hostByHashing", "l4proxy.hash",
                   "l4proxy.Upstream.available", "l4proxy.Upstream.healthy", "l4proxy.Upstream.full", "l4proxy.Upstream.totalConns"]
MODELLED["C12"] = ["l4proxyprotocol.Handler.Handle", "l4proxyprotocol.Handler.newConn", "l4proxyprotocol.Handler.tidyRules", "l4proxyprotocol.GetConn", "l4proxy.Handler.dialPeers", "layer4.Connection.Wrap", "l4proxyprotocol.MatchProxyProtocol.Match"]
MODELLED["C05"] = ["layer4.RouteList.Compile", "layer4.Connection.prefetch", "layer4.packetConn.SetReadDeadline", "layer4.packetConn.Read", "layer4.isDeadlineExceeded", "l4subroute.Handler.Handle"]
MODELLED["C13"] = ["layer4.listener.loop", "layer4.listener.handle", "layer4.listener.Accept", "layer4.listener.pipeConnection", "layer4.listener.Close", "layer4.ListenerWrapper.WrapListener", "layer4.listenerHandler.Handle"]
MODELLED["C08"] = ["layer4.listener.handle", "layer4.Server.handle", "layer4.Connection.prefetch", "layer4.Connection.Wrap", "l4proxy.RoundRobinSelection.Select", "l4proxy.peer.countConn", "l4proxy.peer.countFail", "l4proxy.peer.setHealthy", "l4openvpn.MatchOpenVPN.Match", "l4tee.Handler.Handle"]
MODELLED["C09"] = ["layer4.Server.servePacket", "layer4.Server.handle", "layer4.packetConn.Read", "layer4.packetConn.Write", "layer4.packetConn.Close", "layer4.packetConn.RemoteAddr"]
MODELLED["C07"] = ["l4tls.parseRawClientHello", "l4tls.supportedVersionsFromMax", "l4tls.readUint8LengthPrefixed", "l4tls.readUint16LengthPrefixed", "l4tls.MatchTLS.Match", "l4tls.MatchALPN.Match"]
MODELLED["C16"] = ["l4socks.Socks5Handler.Provision", "l4socks.Socks5Handler.Handle"]
MODELLED["C03"] = ["l4proxy.Handler.proxy", "l4proxy.Handler.Handle", "l4proxy.Handler.dialPeers"]
MODELLED["C11"] = ["l4proxy.Handler.Handle", "l4proxy.Handler.dialPeers", "l4proxy.Handler.countFailure", "l4proxy.LoadBalancing.tryAgain", "l4proxy.Upstream.available", "l4proxy.Upstream.healthy", "l4proxy.Upstream.full", "l4proxy.peer.countConn", "l4proxy.peer.countFail", "l4proxy.peer.setHealthy", "l4proxy.Handler.doActiveHealthCheck", "l4proxy.Upstream.provision"]
MODELLED["C15"] = ["layer4.parseLayer4", "layer4.ParseCaddyfileNestedRoutes", "layer4.ParseCaddyfileNestedHandlers", "layer4.ParseCaddyfileNestedMatcherSet", "layer4.SetModuleNameInline", "layer4.Server.UnmarshalCaddyfile", "layer4.MatchNot.UnmarshalCaddyfile", "layer4.MatchRemoteIP.UnmarshalCaddyfile", "layer4.MatchLocalIP.UnmarshalCaddyfile", "l4subroute.Handler.UnmarshalCaddyfile", "l4tee.Handler.UnmarshalCaddyfile", "l4throttle.Handler.UnmarshalCaddyfile", "l4proxyprotocol.Handler.UnmarshalCaddyfile", "l4proxy.Handler.UnmarshalCaddyfile", "l4regexp.MatchRegexp.UnmarshalCaddyfile"]
MODELLED["C17"] = ["l4throttle.throttledConn.Read", "l4throttle.Handler.Handle", "l4throttle.Handler.Provision"]
rows = {}
for m in re.finditer(r'⟨"([^"]+)", "([0-9a-f]+)", (\d+), (\d+), (\d+), (\d+), (\d+), (\d+)⟩', open(os.path.join(V, "lean/L4/Gen/Census.lean")).read()):
    rows[m.group(1)] = (m.group(2), int(m.group(3)), int(m.group(4)), int(m.group(5)))
allf = sorted({f for fs in MODELLED.values() for f in fs})
missing = [f for f in allf if f not in rows]
if missing:
    raise SystemExit(f"not in census: {missing}")
os.makedirs(os.path.join(V, "lean/L4/Expect"), exist_ok=True)
for pid, fs in MODELLED.items():
    out = ["import L4.Gen.Census", "/-! GENERATED by tools/mkexpect.py — expected shape (index, slice and make counts) of the Go functions the models mirror.",
           "A new index / slice / allocation site in one of them invalidates its `…_as_modelled` theorem: the model no longer covers the code. -/",
           f"namespace L4.Expect.{pid}", ""]
    for f in sorted(fs):
        ident = f.replace(".", "_")
        out.append(f"theorem {ident}_as_modelled : Gen.shape_{ident} = ({rows[f][1]}, {rows[f][2]}, {rows[f][3]}) := rfl")
    out += ["", f"end L4.Expect.{pid}", ""]
    open(os.path.join(V, f"lean/L4/Expect/{pid}.lean"), "w").write("\n".join(out))
json.dump({"modelled": MODELLED, "hashes": {f: rows[f][0] for f in allf}}, open(os.path.join(V, "checklib/hashes.json"), "w"), indent=1)
print("functions:", len(allf))

#!/bin/bash
# matrix.sh [seeded-id ...]: run the quick check of the property each seeded change breaks against a scratch copy of the
# repository with that change applied (never /repo itself), and once against the unchanged copy.  Writes one line per
# change to $OUT (default ./matrix.out):  <seeded-id> <property> DETECTED|MISSED <first VIOLATION line / OK line>
# Intended for `vp run --with-repo -- tools/matrix.sh` (VP_RUN_REPO = snapshot of /repo's HEAD) or with MATRIX_REPO set to a
# scratch worktree.  Extra properties to run per change can be given in seeded/<id>/meta.json as "also_run": ["C12", ...].
cd "$(dirname "$0")/.." || exit 2
V=$(pwd)
R=${MATRIX_REPO:-$VP_RUN_REPO}
[ -d "$R" ] || { echo "no scratch repository (MATRIX_REPO / VP_RUN_REPO)"; exit 2; }
[ "$R" = /repo ] && { echo "refusing to patch /repo"; exit 2; }
OUT=${OUT:-$V/matrix.out}
export VERIF_REPO=$R GOFLAGS=-mod=mod GOPROXY=off GOSUMDB=off GOTOOLCHAIN=local
[ -x lean/.lake/build/bin/l4drv ] || ./setup.sh >/dev/null 2>&1
ids=("$@"); [ ${#ids[@]} -eq 0 ] && ids=($(ls seeded))
undo() { if [ -d "$R/.git" ] || [ -f "$R/.git" ]; then git -C "$R" checkout -q -- . ; else (cd "$R" && patch -s -R -p1 < "$1"); fi; }
: > "$OUT"
for s in "${ids[@]}"; do
  d=seeded/$s; [ -f $d/patch.diff ] || continue
  props=$(python3 -c "import json;m=json.load(open('$d/meta.json'));print(' '.join([m['property']]+m.get('also_run',[])))")
  (cd "$R" && (git apply "$V/$d/patch.diff" 2>/dev/null || patch -s -p1 < "$V/$d/patch.diff")) || { echo "$s - PATCH-FAILS" >> "$OUT"; continue; }
  for p in $props; do
    grep -q "\"$p\"" checklib/props.py || { echo "$s $p NOT-CLAIMED" >> "$OUT"; continue; }
    t0=$(date +%s)
    line=$(timeout 2400 ./check $p --tier quick 2>"$V/.matrix_${s}_${p}.err" | grep -E "^VIOLATION|^OK|^KNOWN" | cut -c1-160 | sort -r | tr '\n' ';')
    dt=$(( $(date +%s) - t0 ))
    if echo "$line" | grep -q VIOLATION; then v=DETECTED; else v=MISSED; fi
    why=$(grep -E "failing case|BROKEN" "$V/.matrix_${s}_${p}.err" | head -2 | cut -c1-500 | tr '\n' ' ')
    echo "$s $p $v ${dt}s $line $why" >> "$OUT"
    rm -f "$V/.matrix_${s}_${p}.err"
  done
  undo "$V/$d/patch.diff"
done
# the unchanged copy must be quiet
for p in $(python3 -c "import sys;sys.path.insert(0,'.');from checklib.props import PROPS;print(' '.join(sorted(PROPS)))"); do
  [ -n "$MATRIX_SKIP_CLEAN" ] && break
  line=$(timeout 2400 ./check $p --tier quick 2>/dev/null | grep -E "^VIOLATION|^OK|^KNOWN" | tr '\n' ';' | cut -c1-300)
  echo "clean $p $(echo "$line" | grep -q VIOLATION && echo FALSE-ALARM || echo QUIET) $line" >> "$OUT"
done
echo done >> "$OUT"

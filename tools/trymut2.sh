#!/bin/bash
# usage: trymut2.sh <seeded-id|patch.diff> <property-id>... : apply a change to a scratch worktree of /repo (never /repo itself),
# run the quick checks against it (VERIF_REPO), remove the worktree
p=$1; shift
[ -f "$p" ] || p=/verif/seeded/$p/patch.diff
W=/tmp/mutrepo.$$
git -C /repo worktree add -q --detach $W HEAD || exit 2
trap 'git -C /repo worktree remove --force '$W EXIT
(cd $W && git apply "$p") || { echo "patch does not apply"; exit 2; }
for id in "$@"; do
  (cd /verif && VERIF_REPO=$W timeout 2400 ./check $id 2>&1 | grep -E "VIOLATION|^OK|KNOWN|failing case" | cut -c1-400)
done
(cd /verif && ./extract/extract /repo lean/L4/Gen >/dev/null 2>&1)

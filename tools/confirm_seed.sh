#!/bin/bash
# confirm_seed.sh <ID> <k>: verify a seeded change in the scratch worktree /tmp/mut/<ID> and, if confirmed, store it under /verif/seeded/<ID>-<k>/
ID=$1; K=$2
W=/tmp/mut/$ID; O=/tmp/mut/out/$ID
export GOFLAGS=-mod=mod GOPROXY=off GOSUMDB=off GOTOOLCHAIN=local
cd $W || exit 2
git checkout -q -- . && git clean -fdq
demo=$O/demo_${K}_test.go
[ -f $O/patch_$K.diff ] && [ -f $demo ] || { echo "$ID-$K MISSING"; exit 1; }
place=$(head -3 $demo | grep -o 'place in: *[^ ]*' | head -1 | sed 's/place in: *//; s/[`,]//g')
[ -z "$place" ] && place=$(python3 -c "import json;print(json.load(open('$O/meta_$K.json')).get('demo_cmd',''))" | grep -o '\./[a-z0-9/]*' | tail -1)
place=${place#./}; place=${place%/}
runpat=$(grep -o 'func Test[A-Za-z0-9_]*' $demo | sed 's/func //' | paste -sd'|')
res() { echo "$ID-$K $1"; }
git apply $O/patch_$K.diff || { res "PATCH-FAILS"; exit 1; }
go build ./... >/dev/null 2>&1 || { res "BUILD-FAILS"; git checkout -q -- .; exit 1; }
if ! go test -vet=off -count=1 ./... >/tmp/mut/suite_$ID$K.log 2>&1; then res "SUITE-FAILS-WITH-CHANGE"; git checkout -q -- .; exit 1; fi
cp $demo $W/$place/verifdemo_${K}_test.go
go test -vet=off -count=1 -run "^($runpat)\$" ./$place/ >/tmp/mut/demo_with_$ID$K.log 2>&1; with=$?
git checkout -q -- .
go test -vet=off -count=1 -run "^($runpat)\$" ./$place/ >/tmp/mut/demo_without_$ID$K.log 2>&1; without=$?
rm -f $W/$place/verifdemo_${K}_test.go
if [ $with -ne 0 ] && [ $without -eq 0 ]; then
  D=/verif/seeded/$ID-$K; mkdir -p $D
  cp $O/patch_$K.diff $D/patch.diff; cp $demo $D/demo_test.go
  python3 - <<P
import json
m=json.load(open("$O/meta_$K.json"))
out=dict(property="$ID", summary=m.get("summary"), needs=m.get("needs"), demo_place="$place", demo_run="go test -vet=off -count=1 -run '^($runpat)\$' ./$place/",
  confirmed=dict(build=True, suite_passes_with_change=True, demo_fails_with_change=True, demo_passes_without_change=True,
                 how="tools/confirm_seed.sh $ID $K in scratch worktree /tmp/mut/$ID (go build ./..., go test ./..., demo with and without the patch)"))
json.dump(out, open("$D/meta.json","w"), indent=1)
P
  res "CONFIRMED place=$place"
else
  res "NOT-CONFIRMED with=$with without=$without place=$place"
fi

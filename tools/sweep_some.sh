#!/bin/bash
# sweep_some.sh <tier> <seed> <id>...: like sweep.sh, for the listed properties only
cd "$(dirname "$0")/.." || exit 2
tier=$1; sd=$2; shift; shift
[ -x lean/.lake/build/bin/l4drv ] || ./setup.sh >/dev/null 2>&1
out=sweep_some.$$.out; : > $out
for p in "$@"; do
  t0=$(date +%s)
  line=$(VERIF_SEED=$sd timeout 7200 ./check $p --tier $tier 2>sweep.$$.err | grep -E "^VIOLATION|^OK" | cut -c1-200)
  echo "seed=$sd $p $(( $(date +%s) - t0 ))s $line" >> $out
  if echo "$line" | grep -q VIOLATION; then grep -E "failing case|BROKEN" sweep.$$.err | head -3 | cut -c1-900 >> $out; mkdir -p kept; cp replays/$p-* kept/ 2>/dev/null; fi
done
echo done >> $out

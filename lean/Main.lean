import L4.Drv.Route
import L4.Drv.Conn
import L4.Drv.Match
import L4.Drv.Codec
import L4.Drv.LB
import L4.Drv.PP
import L4.Drv.Tls
import L4.Drv.Socks5
import L4.Drv.Throttle
import L4.Drv.Relay
import L4.Drv.Health
import L4.Drv.Config
import L4.Drv.Trace
open L4 L4.Drv

def dispatch (line : String) : String :=
  match line.splitOn " " with
  | "route" :: rest => (doRoute.run rest).1
  | "conn" :: rest => (doConn.run rest).1
  | "match" :: rest => (doMatch.run rest).1
  | "codec" :: rest => (doCodec.run rest).1
  | "lb" :: rest => (doLB.run rest).1
  | "pp" :: rest => (doPP.run rest).1
  | "hello" :: rest => (doHello.run rest).1
  | "socks5" :: rest => (doSocks5.run rest).1
  | "throttle" :: rest => (doThrottle.run rest).1
  | "relay" :: rest => (doRelay.run rest).1
  | "health" :: rest => (doHealth.run rest).1
  | "note" :: _ => "*"      -- a case judged by the harness oracle only (nothing for the model to say)
  | "hreload" :: _ => "*"   -- configuration-reload scenarios of the health stage: judged by the oracle only
  | "cfg" :: rest => (doCfg.run rest).1
  | "ltrace" :: rest => (doLTrace.run rest).1
  | "utrace" :: rest => (doUTrace.run rest).1
  | _ => "bad-op"

partial def loop (h : IO.FS.Stream) (out : IO.FS.Stream) : IO Unit := do
  let line ← h.getLine
  if line.isEmpty then return ()
  out.putStrLn (dispatch ((line.dropEndWhile (· == '\n')).toString))
  loop h out

def main (args : List String) : IO UInt32 := do
  match args with
  | [inp, outp] =>
    let hin ← IO.FS.Handle.mk inp .read
    let hout ← IO.FS.Handle.mk outp .write
    loop (IO.FS.Stream.ofHandle hin) (IO.FS.Stream.ofHandle hout)
    hout.flush
    return 0
  | _ =>
    loop (← IO.getStdin) (← IO.getStdout)
    return 0

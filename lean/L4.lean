import L4.Basic
import L4.Gen.Consts
import L4.Gen.Census
import L4.Gen.Facts
import L4.Conn
import L4.Router

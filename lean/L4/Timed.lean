import L4.Router
/-!
# Timed connection (C05): arrivals carry times, the read deadline is explicit

`TConn` abstracts a `layer4.Connection` over a socket whose data arrives at given times. `prefetch` is one
`cx.prefetch()` under the currently armed deadline: it refuses when the buffer holds `MaxMatchingBytes`, returns the
next arrival if it is due by the deadline (or no deadline is armed), and otherwise fails with a timeout at the deadline.
-/
namespace L4

structure TConn where
  buf : Bytes
  /-- future arrivals, absolute times, non-decreasing -/
  pending : List (Nat × Bytes)
  now : Nat
  /-- read deadline currently set on the socket (`none` = `time.Time{}`) -/
  armed : Option Nat
  /-- `deadline := time.Now().Add(matchingTimeout)` of the running route list -/
  routeDeadline : Nat
  deriving Repr

namespace TConn

/-- the next arrival (at time `t`) is delivered if no deadline is armed, it arrives by the deadline, or it is already there -/
def due (armed : Option Nat) (now t : Nat) : Bool :=
  match armed with
  | some dl => decide (t ≤ dl) || decide (t ≤ now)
  | none => true

/-- outcome when nothing (more) is scheduled to arrive -/
def silent (armed : Option Nat) : Abort :=
  match armed with
  | some _ => .timeout
  | none => .eof       -- blocks for ever / peer closed: no deadline is involved

def take1 (c : TConn) (t : Nat) (d : Bytes) (rest : List (Nat × Bytes)) : TConn :=
  { c with buf := c.buf ++ d.take (min d.length Gen.layer4_prefetchChunkSize), now := max c.now t,
           pending := if d.length ≤ Gen.layer4_prefetchChunkSize then rest else (t, d.drop (min d.length Gen.layer4_prefetchChunkSize)) :: rest }

def prefetch (c : TConn) : Except Abort TConn :=
  if Gen.layer4_MaxMatchingBytes ≤ c.buf.length then .error .full else
  match c.pending with
  | [] => .error (silent c.armed)
  | (t, d) :: rest => if due c.armed c.now t then .ok (take1 c t d rest) else .error .timeout

/-- time at which a failing prefetch returns -/
def abortTime (c : TConn) : Nat := match c.armed with
  | some dl => max c.now dl
  | none => c.now

def ops : ConnOps TConn where
  avail := fun c => c.buf
  prefetch := prefetch
  arm := fun b c => { c with armed := if b then some c.routeDeadline else none }

/-- entering `Compile(...).Handle(cx)` with the given matching timeout -/
def enter (c : TConn) (timeout : Nat) : TConn := { c with routeDeadline := c.now + timeout }

end TConn
end L4

import L4.Basic
/-!
# Duplex relay of the proxy handler (C03)

Transition system of `Handler.proxy` (modules/l4proxy/proxy.go) together with the deferred close in `Handler.Handle`,
for `k` upstream connections (the peers of the selected upstream):

* the **pump** goroutine `io.Copy(io.Discard, downTee)` where `downTee` is the chain of `io.TeeReader`s over all upstream
  connections: one read from the client (prefetched bytes first) is written to every upstream; a write error on one
  upstream does not stop the same chunk from being written to the others (`TeeReader.Read` returns `n > 0` together with
  the error, so the outer tees still write), but ends the pump; after the copy ends the pump signals `downConnClosedCh`
  and then half-closes (or, without `CloseWrite`, closes) every upstream;
* one **copy** goroutine `io.Copy(down, up)` per upstream, counted in a `WaitGroup`;
* the **main** goroutine: `wg.Wait()`, `CloseWrite` on the downstream conn if it offers it, `<-downConnClosedCh`, return;
  `Handle`'s deferred function then closes every upstream connection.

The environment is part of the state: what the client and each upstream still have to send (`cin`, `uin`), what an upstream
sends only after it has seen end-of-stream from the client (`upend`: request / EOF / response protocols, issue #40), whether
they finish with a FIN, and abrupt closes (`cerr`, `uerr`).  Every interleaving of proxy and environment actions is a list of
`Act`.  Structural facts of the Go code the model depends on (capacity of the signal channel, statement order) are parameters
regenerated from the source (`L4/Gen/Facts.lean`, instantiated in `L4/Props/C03.lean`).
-/
namespace L4.Relay

inductive Pump | reading | signalling | closing | done deriving DecidableEq, Repr
inductive Main | waitCopies | afterWait | waitSignal | returned deriving DecidableEq, Repr

structure St where
  k : Nat                                   -- number of upstream connections
  sigCap : Nat                              -- capacity of downConnClosedCh
  downCW : Bool                             -- the downstream transport offers CloseWrite
  upCW : Nat → Bool                         -- upstream i's transport offers CloseWrite
  -- environment
  cin : List Bytes                          -- client → proxy, not yet read by the pump (prefetched bytes are the first chunk)
  cfin : Bool                               -- the client half-closes after its last chunk
  cerr : Bool := false                      -- the client's connection was reset
  uin : Nat → List Bytes                    -- upstream i → proxy, not yet copied
  upend : Nat → List Bytes                  -- what upstream i sends once it has seen the client's end-of-stream
  ufin : Nat → Bool                         -- upstream i half-closes after its last chunk
  uerr : Nat → Bool := fun _ => false       -- upstream i's connection was reset
  -- observations
  upRecv : Nat → Bytes := fun _ => []       -- bytes upstream i has received
  upEof : Nat → Bool := fun _ => false      -- upstream i has observed end-of-stream
  clRecv : Nat → Bytes := fun _ => []       -- bytes of upstream i the client has received
  clEof : Bool := false                     -- the client has observed end-of-stream
  -- proxy control state
  pump : Pump := .reading
  copyDone : Nat → Bool := fun _ => false
  main : Main := .waitCopies
  sig : Nat := 0                            -- items buffered in downConnClosedCh
  upClosed : Nat → Bool := fun _ => false   -- the proxy has closed its connection to upstream i
  -- ghosts
  sentC : Bytes                             -- everything the client sends from its first unconsumed byte
  sentU : Nat → Bytes                       -- everything upstream i sends

def upd {α} (f : Nat → α) (k : Nat) (v : α) : Nat → α := fun j => if j = k then v else f j

/-- every `i < k` satisfies `p` -/
def allBelow (k : Nat) (p : Nat → Bool) : Bool := (List.range k).all p
/-- some `i < k` satisfies `p` -/
def anyBelow (k : Nat) (p : Nat → Bool) : Bool := (List.range k).any p

theorem allBelow_iff (k : Nat) (p : Nat → Bool) : allBelow k p = true ↔ ∀ i, i < k → p i = true := by
  simp [allBelow]
theorem anyBelow_iff (k : Nat) (p : Nat → Bool) : anyBelow k p = true ↔ ∃ i, i < k ∧ p i = true := by
  simp [anyBelow]

inductive Act
  | pumpRead            -- one Read through the tee chain: the chunk goes to every upstream that is not reset
  | pumpEOF             -- the client's FIN reaches the pump: io.Copy returns nil
  | pumpErr             -- reading from a reset client fails: io.Copy returns the error
  | pumpSignal          -- downConnClosedCh <- struct{}{} (buffered)
  | rendezvous          -- the same send when the channel has no free slot: only together with main's receive
  | pumpClose           -- downClosed.Store(true); CloseWrite (or Close) on every upstream
  | copyRead (i : Nat)  -- io.Copy(down, up_i): one chunk
  | copyEOF (i : Nat)   -- upstream i's FIN reaches its copy goroutine
  | copyErr (i : Nat)   -- the copy fails: upstream reset, client reset, or the connection was closed under it
  | mainWait            -- wg.Wait() returns
  | mainCW              -- CloseWrite on the downstream connection (if offered)
  | mainRecv            -- <-downConnClosedCh, proxy returns, Handle's deferred function closes every upstream connection
  | upRespond (i : Nat) -- environment: upstream i has seen end-of-stream and sends the rest
  | clientReset         -- environment: abrupt close by the client
  | upReset (i : Nat)   -- environment: abrupt close by upstream i
  deriving DecidableEq, Repr

def closeAll (s : St) : St :=
  { s with main := .returned, upClosed := fun _ => true, upEof := fun _ => true }

def step (s : St) : Act → Option St
  | .pumpRead => match s.cin with
    | c :: cs => if s.pump = .reading ∧ s.cerr = false then
        some { s with cin := cs, upRecv := fun i => if s.uerr i then s.upRecv i else s.upRecv i ++ c, pump := if anyBelow s.k s.uerr then .signalling else .reading }
      else none
    | [] => none
  | .pumpEOF => if s.pump = .reading ∧ s.cin = [] ∧ s.cfin = true ∧ s.cerr = false then some { s with pump := .signalling } else none
  | .pumpErr => if s.pump = .reading ∧ s.cerr = true then some { s with pump := .signalling } else none
  | .pumpSignal => if s.pump = .signalling ∧ s.sig < s.sigCap then some { s with pump := .closing, sig := s.sig + 1 } else none
  | .rendezvous => if s.pump = .signalling ∧ ¬ s.sig < s.sigCap ∧ s.main = .waitSignal then some (closeAll { s with pump := .closing }) else none
  | .pumpClose => if s.pump = .closing then
      some { s with pump := .done, upEof := fun _ => true, upClosed := fun i => s.upClosed i || !s.upCW i } else none
  | .copyRead i => match s.uin i with
    | c :: cs => if i < s.k ∧ s.copyDone i = false ∧ s.cerr = false ∧ s.uerr i = false ∧ s.upClosed i = false then
        some { s with uin := upd s.uin i cs, clRecv := upd s.clRecv i (s.clRecv i ++ c) } else none
    | [] => none
  | .copyEOF i => if i < s.k ∧ s.copyDone i = false ∧ s.uin i = [] ∧ s.upend i = [] ∧ s.ufin i = true ∧ s.uerr i = false ∧ s.upClosed i = false then
      some { s with copyDone := upd s.copyDone i true } else none
  | .copyErr i => if i < s.k ∧ s.copyDone i = false ∧ (s.cerr = true ∨ s.uerr i = true ∨ s.upClosed i = true) then
      some { s with copyDone := upd s.copyDone i true } else none
  | .mainWait => if s.main = .waitCopies ∧ allBelow s.k s.copyDone then some { s with main := .afterWait } else none
  | .mainCW => if s.main = .afterWait then some { s with main := .waitSignal, clEof := s.clEof || s.downCW } else none
  | .mainRecv => if s.main = .waitSignal ∧ 0 < s.sig then some (closeAll { s with sig := s.sig - 1 }) else none
  | .upRespond i => if i < s.k ∧ s.upEof i = true ∧ s.upend i ≠ [] ∧ s.uerr i = false then
      some { s with uin := upd s.uin i (s.uin i ++ s.upend i), upend := upd s.upend i [] } else none
  | .clientReset => if s.cerr = false then some { s with cerr := true } else none
  | .upReset i => if i < s.k ∧ s.uerr i = false then some { s with uerr := upd s.uerr i true } else none

def runActs (s : St) : List Act → Option St
  | [] => some s
  | a :: as => match step s a with
    | some s' => runActs s' as
    | none => none

/-- initial state: `pre` are the bytes prefetched for matching and not consumed by earlier handlers -/
def init (k sigCap : Nat) (downCW : Bool) (upCW : Nat → Bool) (pre : Bytes) (cchunks : List Bytes) (cfin : Bool)
    (uchunks upend : Nat → List Bytes) (ufin : Nat → Bool) : St :=
  { k := k, sigCap := sigCap, downCW := downCW, upCW := upCW, cin := pre :: cchunks, cfin := cfin, uin := uchunks, upend := upend, ufin := ufin,
    sentC := pre ++ cchunks.flatten, sentU := fun i => (uchunks i).flatten ++ (upend i).flatten }

/-- the invariant of the relay -/
structure RInv (s : St) : Prop where
  /-- an upstream that was not reset has received exactly the client's stream minus what the pump has yet to read -/
  c_cons : ∀ i, s.uerr i = false → s.upRecv i ++ s.cin.flatten = s.sentC
  /-- in any case it has received a prefix of the client's stream: nothing duplicated, reordered or invented -/
  c_prefix : ∀ i, s.upRecv i = s.sentC.take (s.upRecv i).length
  /-- the client has received from every upstream exactly that upstream's stream minus what is still to be copied -/
  u_cons : ∀ i, s.clRecv i ++ (s.uin i).flatten ++ (s.upend i).flatten = s.sentU i
  /-- the pump stops reading only at the client's end-of-stream or after a fault -/
  pump_end : s.pump ≠ .reading → (s.cin = [] ∧ s.cfin = true) ∨ s.cerr = true ∨ (∃ i, i < s.k ∧ s.uerr i = true)
  /-- no upstream sees end-of-stream before that -/
  eof_late : ∀ i, s.upEof i = true → s.pump = .done ∨ s.main = .returned
  pump_done : s.pump = .done → ∀ i, s.upEof i = true
  /-- a copy ends only at its upstream's end-of-stream, after a fault, or because the pump had to close an upstream
      connection that offers no half-close -/
  copy_end : ∀ i, s.copyDone i = true → (s.uin i = [] ∧ s.upend i = [] ∧ s.ufin i = true) ∨ s.cerr = true ∨ s.uerr i = true ∨ s.upCW i = false
  main_copies : s.main ≠ .waitCopies → ∀ i, i < s.k → s.copyDone i = true
  /-- the client sees end-of-stream only after every copy has ended -/
  cleof : s.clEof = true → s.main = .waitSignal ∨ s.main = .returned
  cw_done : (s.main = .waitSignal ∨ s.main = .returned) → s.downCW = true → s.clEof = true
  /-- cleanup: once the handler has returned every upstream connection is closed (whatever faults happened) -/
  ret_closed : s.main = .returned → (∀ i, s.upClosed i = true) ∧ (s.pump = .closing ∨ s.pump = .done)
  closed_early : ∀ i, s.upClosed i = true → s.main = .returned ∨ (s.upCW i = false ∧ s.pump = .done)
  sig_le : s.sig ≤ 1 ∧ (s.sig = 1 → (s.pump = .closing ∨ s.pump = .done) ∧ s.main ≠ .returned)
  sig_pending : (s.pump = .closing ∨ s.pump = .done) → s.main ≠ .returned → s.sig = 1
  /-- a connection that cannot be half-closed has been closed by the pump once the pump is done -/
  pump_closed : s.pump = .done → ∀ i, s.upCW i = false → s.upClosed i = true

end L4.Relay

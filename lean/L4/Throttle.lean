import L4.Basic
/-!
# Throttle handler (C17): `l4throttle.Handler.Handle`, `throttledConn.Read` over `rate.Limiter`

Time, tokens and byte counts are rationals. A limiter is the token bucket of `golang.org/x/time/rate` (`reserveN` /
`advance`): a reservation of `n` tokens at time `t` leaves `min burst (tokens + (t - last)·rate) - n` tokens (a negative
balance is a debt) and may be acted on once the debt is repaid. Ghost state records every reservation so that the bound
can be stated about what was actually read.

A connection's `Read(p)` is three steps that other connections and the clock may interleave with:
`rdStart` (compute the batch, reserve it on the handler-wide limiter), `rdLocal` (the wait on the total limiter is over;
reserve on the connection's own limiter) and `rdDone n` (the wait on the local limiter is over; the underlying conn
returns `n ≤ batch` bytes).
-/
namespace L4.Throttle

/-- one reservation (ghost) -/
structure Rsv where
  owner : Nat        -- connection that made it
  b : Rat            -- tokens reserved (= batch size of the read)
  tk : Rat           -- balance of the bucket right after the reservation (negative = debt)
  t : Rat            -- time of the reservation
  done : Bool := false   -- the read it paid for has been performed

/-- `rate.Limiter` -/
structure Lim where
  burst : Rat
  rate : Rat
  tokens : Rat
  last : Rat := 0
  t0 : Rat := 0            -- ghost: time of the first reservation
  rs : List Rsv := []      -- ghost: reservations, newest first

def Lim.new (burst rate : Rat) : Lim := { burst, rate, tokens := burst }

/-- `advance`: balance at time `t` -/
def Lim.advance (l : Lim) (t : Rat) : Rat := min l.burst (l.tokens + (t - l.last) * l.rate)

/-- `reserveN(t, n)` for `n ≤ burst` (always granted; the caller sleeps until the debt is repaid) -/
def Lim.reserve (l : Lim) (t n : Rat) (owner : Nat) : Lim :=
  { l with tokens := l.advance t - n, last := t, t0 := if l.rs.isEmpty then t else l.t0,
           rs := { owner, b := n, tk := l.advance t - n, t } :: l.rs }

/-- a reservation may be acted on at time `T` once its debt is repaid at the limiter's rate (`timeToAct ≤ T`) -/
def usable (rate : Rat) (r : Rsv) (T : Rat) : Prop := 0 ≤ r.tk + rate * (T - r.t)

instance (rate : Rat) (r : Rsv) (T : Rat) : Decidable (usable rate r T) := by unfold usable; infer_instance

/-- all tokens ever reserved -/
def cum : List Rsv → Rat
  | [] => 0
  | r :: rest => r.b + cum rest

/-- tokens of the reservations whose read has been performed: an upper bound of the bytes read -/
def spent : List Rsv → Rat
  | [] => 0
  | r :: rest => (if r.done then r.b else 0) + spent rest

/-- reservation number `id` (position in reservation order) -/
def getId : List Rsv → Nat → Option Rsv
  | [], _ => none
  | r :: rest, id => if rest.length = id then some r else getId rest id

/-- record that the read paid for by reservation `id` has been performed -/
def mark : List Rsv → Nat → List Rsv
  | [], _ => []
  | r :: rest, id => if rest.length = id then { r with done := true } :: rest else r :: mark rest id

/-! ## the handler and its connections -/

structure Cfg where
  hasT : Bool          -- a handler-wide limiter is configured
  hasL : Bool          -- a per-connection limiter is configured
  tBurst : Rat
  tRate : Rat
  lBurst : Rat
  lRate : Rat
  latency : Rat

/-- `batchSize` of `throttledConn.Read`: `len(p)` capped by the burst of every configured limiter -/
def batch (c : Cfg) (p : Rat) : Rat :=
  let b := if c.hasT then min p c.tBurst else p
  if c.hasL then min b c.lBurst else b

/-- `Provision`'s defaulting of a burst size and whether a limiter is created:
`if rate > 0 && burst == 0 { burst = int(rate) + 1 }`; limiter iff `rate > 0 || burst > 0` -/
def provBurst (rate : Rat) (burst : Nat) : Nat :=
  if 0 < rate ∧ burst = 0 then rate.floor.toNat + 1 else burst

def provHas (rate : Rat) (burst : Nat) : Bool := decide (0 < rate) || decide (0 < provBurst rate burst)

inductive Phase
  | idle
  | wT (b : Rat) (idT : Nat)                -- waiting for the total limiter
  | wL (b : Rat) (idT idL : Nat)            -- waiting for the local limiter
  deriving DecidableEq

structure St where
  now : Rat := 0
  total : Lim
  opened : Nat → Bool := fun _ => false
  readyAt : Nat → Rat := fun _ => 0         -- when the latency timer of `Handle` fires
  loc : Nat → Lim                           -- the connection's own limiter (created by `Handle`)
  ph : Nat → Phase := fun _ => .idle
  pulled : Nat → Rat := fun _ => 0          -- ghost: bytes read from the client through connection c
  pulledAll : Rat := 0                      -- ghost: bytes read from all clients of this handler
  firstRead : Nat → Option Rat := fun _ => none   -- ghost: time of the connection's first read attempt

def upd {α} (f : Nat → α) (k : Nat) (v : α) : Nat → α := fun j => if j = k then v else f j

/-- the wait on a limiter is over: the reservation made for this read may be acted on (trivially so without a limiter) -/
def limOk (has : Bool) (l : Lim) (id : Nat) (now : Rat) : Bool :=
  if has then (match getId l.rs id with | some r => decide (usable l.rate r now) | none => false) else true

inductive Act
  | tick (d : Rat)             -- time passes
  | handle (c : Nat)           -- `Handle` is called for a new connection
  | rdStart (c : Nat) (p : Rat)  -- the next handler calls Read with a buffer of p bytes
  | rdLocal (c : Nat)
  | rdDone (c : Nat) (n : Rat)

def init (c : Cfg) : St := { total := Lim.new c.tBurst c.tRate, loc := fun _ => Lim.new c.lBurst c.lRate }

def step (cf : Cfg) (s : St) : Act → Option St
  | .tick d => if 0 ≤ d then some { s with now := s.now + d } else none
  | .handle c =>
    if s.opened c then none else
    -- the connection's own limiter `s.loc c` is created here: it is still in its initial state (full bucket, no reservation)
    some { s with opened := upd s.opened c true, readyAt := upd s.readyAt c (s.now + cf.latency) }
  | .rdStart c p =>
    if s.opened c ∧ s.ph c = .idle ∧ s.readyAt c ≤ s.now ∧ 0 ≤ p then
      let b := batch cf p
      some { s with total := if cf.hasT then s.total.reserve s.now b c else s.total,
                    ph := upd s.ph c (.wT b s.total.rs.length),
                    firstRead := upd s.firstRead c (match s.firstRead c with | some t => some t | none => some s.now) }
    else none
  | .rdLocal c =>
    match s.ph c with
    | .wT b idT =>
      if limOk cf.hasT s.total idT s.now then
        some { s with loc := if cf.hasL then upd s.loc c ((s.loc c).reserve s.now b c) else s.loc,
                      ph := upd s.ph c (.wL b idT (s.loc c).rs.length) }
      else none
    | _ => none
  | .rdDone c n =>
    match s.ph c with
    | .wL b idT idL =>
      if limOk cf.hasL (s.loc c) idL s.now ∧ 0 ≤ n ∧ n ≤ b then
        some { s with total := if cf.hasT then { s.total with rs := mark s.total.rs idT } else s.total,
                      loc := if cf.hasL then upd s.loc c { s.loc c with rs := mark (s.loc c).rs idL } else s.loc,
                      ph := upd s.ph c .idle,
                      pulled := upd s.pulled c (s.pulled c + n),
                      pulledAll := s.pulledAll + n }
      else none
    | _ => none

def runActs (cf : Cfg) (s : St) : List Act → Option St
  | [] => some s
  | a :: as => match step cf s a with
    | some s' => runActs cf s' as
    | none => none

end L4.Throttle

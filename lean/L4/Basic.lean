/-!
# Basic definitions shared by all caddy-l4 models

Core Lean only (no Mathlib): everything here is also linked into the `l4drv` line-protocol driver.
-/

abbrev Bytes := List UInt8

namespace L4

/-- verdict of a connection matcher evaluated on the bytes prefetched so far.
`more` is `ErrConsumedAllPrefetchedBytes`; `fail` is any other error; `panic` a Go run-time panic. -/
inductive Verdict
  | yes | no | more | fail | panic
  deriving DecidableEq, Repr, Inhabited

def Verdict.str : Verdict → String
  | .yes => "yes" | .no => "no" | .more => "more" | .fail => "fail" | .panic => "panic"

/-- result of Go-shaped code with checked indexing: a value, an error return, or a run-time panic -/
inductive Res (α : Type) where
  | ok (a : α)
  | err (code : String)
  | panic (site : String)
  deriving Repr

instance : Monad Res where
  pure := .ok
  bind r f := match r with
    | .ok a => f a
    | .err c => .err c
    | .panic s => .panic s

def Res.isPanic {α} : Res α → Bool
  | .panic _ => true
  | _ => false

def Res.isOk {α} : Res α → Bool
  | .ok _ => true
  | _ => false

@[simp] theorem Res.bind_ok {α β} (a : α) (f : α → Res β) : (Res.ok a >>= f) = f a := rfl
@[simp] theorem Res.bind_err {α β} (c : String) (f : α → Res β) : (Res.err c >>= f) = Res.err c := rfl
@[simp] theorem Res.bind_panic {α β} (c : String) (f : α → Res β) : (Res.panic c >>= f) = Res.panic c := rfl
@[simp] theorem Res.pure_eq {α} (a : α) : (pure a : Res α) = Res.ok a := rfl

/-- Go `b[i]` -/
def idx (b : Bytes) (i : Nat) (site : String := "idx") : Res UInt8 :=
  if h : i < b.length then .ok b[i] else .panic site

/-- Go `b[lo:hi]` (with `hi ≤ len`, capacity ignored: models use fresh slices) -/
def slice (b : Bytes) (lo hi : Nat) (site : String := "slice") : Res Bytes :=
  if lo ≤ hi ∧ hi ≤ b.length then .ok ((b.drop lo).take (hi - lo)) else .panic site

/-! ## integers on the wire -/

def be16 (a b : UInt8) : Nat := a.toNat * 256 + b.toNat
def be32 (a b c d : UInt8) : Nat := ((a.toNat * 256 + b.toNat) * 256 + c.toNat) * 256 + d.toNat

/-- big-endian value of a byte string -/
def beNat : Bytes → Nat
  | bs => bs.foldl (fun acc b => acc * 256 + b.toNat) 0

/-- little-endian value of a byte string -/
def leNat : Bytes → Nat
  | [] => 0
  | b :: bs => b.toNat + 256 * leNat bs

/-- `k` bytes, big endian, of `n mod 256^k` -/
def toBE : Nat → Nat → Bytes
  | 0, _ => []
  | k+1, n => toBE k (n / 256) ++ [UInt8.ofNat (n % 256)]

/-- `k` bytes, little endian, of `n mod 256^k` -/
def toLE : Nat → Nat → Bytes
  | 0, _ => []
  | k+1, n => UInt8.ofNat (n % 256) :: toLE k (n / 256)

@[simp] theorem toBE_length (k n : Nat) : (toBE k n).length = k := by
  induction k generalizing n with
  | zero => rfl
  | succ k ih => simp [toBE, ih]

@[simp] theorem toLE_length (k n : Nat) : (toLE k n).length = k := by
  induction k generalizing n with
  | zero => rfl
  | succ k ih => simp [toLE, ih]

theorem u8_ofNat_toNat (b : UInt8) : UInt8.ofNat b.toNat = b := by
  cases b; simp [UInt8.ofNat, UInt8.toNat]

theorem u8_toNat_ofNat_mod (n : Nat) : (UInt8.ofNat (n % 256)).toNat = n % 256 := by
  simp [UInt8.toNat_ofNat']

theorem u8_lt (b : UInt8) : b.toNat < 256 := b.toNat_lt

/-! ## hex and line-protocol helpers (driver side) -/

def hexDigit (c : Char) : Nat :=
  if c.isDigit then c.toNat - 48 else if c.toNat ≥ 97 then c.toNat - 87 else c.toNat - 55

def unhex (s : String) : Bytes :=
  let rec go : List Char → Bytes
    | a :: b :: t => (UInt8.ofNat (hexDigit a * 16 + hexDigit b)) :: go t
    | _ => []
  go s.toList

def hexChars : Array Char := "0123456789abcdef".toList.toArray

def hexOf (b : Bytes) : String :=
  String.ofList (b.flatMap fun x => let n := x.toNat; [hexChars[n / 16]!, hexChars[n % 16]!])

/-- `-` denotes the empty byte string on the wire protocol -/
def unhexTok (s : String) : Bytes := if s == "-" then [] else unhex s
def hexTok (b : Bytes) : String := if b.isEmpty then "-" else hexOf b

/-- splitmix64, shared with the Go harness so that long inputs are sent as descriptors -/
def splitmix (s : UInt64) : UInt64 × UInt64 :=
  let s := s + 0x9E3779B97F4A7C15
  let z := s
  let z := (z ^^^ (z >>> 30)) * 0xBF58476D1CE4E5B9
  let z := (z ^^^ (z >>> 27)) * 0x94D049BB133111EB
  (z ^^^ (z >>> 31), s)

def genBytes (seed : UInt64) (n : Nat) : Bytes :=
  let rec go : Nat → UInt64 → Bytes → Bytes
    | 0, _, acc => acc.reverse
    | k+1, s, acc => let (v, s') := splitmix s; go k s' ((v.toUInt8) :: acc)
  go n seed []

end L4

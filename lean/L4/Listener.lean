import L4.Basic
/-!
# Listener wrapper hand-off (C13): accept loop, handler goroutines, `connChan`, `done`, `wg`, `Close`, consumer `Accept`
Per-connection delivery / close counters make "exactly once" a theorem about the protocol and not an artefact of the encoding.
-/
namespace L4.Listener
inductive Ph | idle | handling | piping | queued | out deriving DecidableEq, Repr
structure St where
  ph : Nat → Ph := fun _ => .idle
  delivered : Nat → Nat := fun _ => 0     -- times Accept returned the connection
  closed : Nat → Nat := fun _ => 0        -- times layer4 closed the connection
  chan : List Nat := []                   -- connChan
  cap : Nat := 2
  wg : Nat := 0
  active : List Nat := []                 -- ghost: connections counted in wg
  innerClosed : Bool := false
  loopExited : Bool := false
  chanClosed : Bool := false
  crashed : Bool := false

def upd (f : Nat → α) (k : Nat) (v : α) : Nat → α := fun j => if j = k then v else f j

inductive Act
  | accept (c : Nat)        -- loop: Accept + wg.Add + go handle
  | finish (c : Nat)        -- handler chain consumed or rejected the connection: handle() closes it, wg.Done
  | pipeStart (c : Nat)     -- listenerHandler reached
  | pipeSend (c : Nat)      -- l.connChan <- conn succeeded; handle() returns errHijacked (no close), wg.Done
  | consume (c : Nat)       -- wrapped listener's Accept takes c from connChan (any queued connection: the order in which
                            -- concurrent senders entered the channel is not observable, so FIFO is over-approximated)
  | close                   -- listener.Close()
  | loopExit                -- inner Accept failed: spawn waiter, close(done)
  | drain (c : Nat)         -- loop closes a remaining queued connection
  | closeChan               -- waiter: wg.Wait() returned, close(connChan)

def step (s : St) : Act → Option St
  | .accept c => if s.ph c = .idle ∧ !s.loopExited then   -- an Accept that returned just before Close may be handled after it
      some { s with ph := upd s.ph c .handling, wg := s.wg + 1, active := c :: s.active } else none
  | .finish c => if s.ph c = .handling then
      some { s with ph := upd s.ph c .out, closed := upd s.closed c (s.closed c + 1), wg := s.wg - 1, active := s.active.erase c } else none
  | .pipeStart c => if s.ph c = .handling then some { s with ph := upd s.ph c .piping } else none
  | .pipeSend c => if s.ph c = .piping then
      (if s.chanClosed then some { s with crashed := true }
       else if s.chan.length < s.cap then some { s with ph := upd s.ph c .queued, chan := s.chan ++ [c], wg := s.wg - 1, active := s.active.erase c } else none)
      else none
  | .consume c => if c ∈ s.chan then
      some { s with chan := s.chan.erase c, ph := upd s.ph c .out, delivered := upd s.delivered c (s.delivered c + 1) } else none
  | .close => some { s with innerClosed := true }
  | .loopExit => if !s.loopExited then some { s with loopExited := true } else none   -- any non-temporary Accept error ends the loop
  | .drain c => if s.loopExited ∧ c ∈ s.chan then
      some { s with chan := s.chan.erase c, ph := upd s.ph c .out, closed := upd s.closed c (s.closed c + 1) } else none
  | .closeChan => if s.loopExited ∧ s.wg = 0 ∧ !s.chanClosed then some { s with chanClosed := true } else none

def busy (s : St) (c : Nat) : Prop := s.ph c = .handling ∨ s.ph c = .piping

structure LInv (s : St) : Prop where
  nocrash : s.crashed = false
  once : ∀ c, s.delivered c + s.closed c ≤ 1
  out_iff : ∀ c, s.ph c = .out ↔ s.delivered c + s.closed c = 1
  queued_mem : ∀ c, s.ph c = .queued ↔ c ∈ s.chan
  nodup : s.chan.Nodup
  act_nodup : s.active.Nodup
  act_iff : ∀ c, busy s c ↔ c ∈ s.active
  wg_len : s.wg = s.active.length
  chanClosed_quiet : s.chanClosed = true → s.active = []
  cc_exit : s.chanClosed = true → s.loopExited = true

theorem inv_init : LInv {} := by
  constructor <;> simp [busy]

theorem inv_step (s s' : St) (a : Act) (h : LInv s) (hs : step s a = some s') : LInv s' := by
  obtain ⟨h1, h2, h3, h4, h5, h6, h7, h8, h9, h10⟩ := h
  cases a with
  | accept c =>
    simp only [step] at hs
    split at hs
    · injection hs with hs; subst hs
      constructor <;> simp only [upd, busy] at * <;> grind
    · cases hs
  | finish c =>
    simp only [step] at hs
    split at hs
    · injection hs with hs; subst hs
      rename_i hc
      have hmem : c ∈ s.active := (h7 c).mp (Or.inl hc)
      have hlen : (s.active.erase c).length = s.active.length - 1 := List.length_erase_of_mem hmem
      constructor <;> simp only [upd, busy] at * <;> grind [List.Nodup.erase, List.Nodup.mem_erase_iff]
    · cases hs
  | pipeStart c =>
    simp only [step] at hs
    split at hs
    · injection hs with hs; subst hs
      constructor <;> simp only [upd, busy] at * <;> grind
    · cases hs
  | pipeSend c =>
    simp only [step] at hs
    split at hs
    · rename_i hc
      have hmem : c ∈ s.active := (h7 c).mp (Or.inr hc)
      split at hs
      · rename_i hcc; have := h9 hcc; rw [this] at hmem; cases hmem
      · split at hs
        · injection hs with hs; subst hs
          have hlen : (s.active.erase c).length = s.active.length - 1 := List.length_erase_of_mem hmem
          constructor <;> simp only [upd, busy] at * <;> grind [List.Nodup.erase, List.Nodup.mem_erase_iff, List.nodup_append]
        · cases hs
    · cases hs
  | consume c =>
    simp only [step] at hs
    split at hs
    · rename_i hmem
      injection hs with hs; subst hs
      have hq : s.ph c = .queued := (h4 c).mpr hmem
      constructor <;> simp only [upd, busy] at * <;> grind [List.Nodup.erase, List.Nodup.mem_erase_iff]
    · cases hs
  | close =>
    simp only [step] at hs
    injection hs with hs; subst hs
    constructor <;> simp only [busy] at * <;> grind
  | loopExit =>
    simp only [step] at hs
    split at hs
    · injection hs with hs; subst hs
      constructor <;> simp only [busy] at * <;> grind
    · cases hs
  | drain c =>
    simp only [step] at hs
    split at hs
    · rename_i hmem
      injection hs with hs; subst hs
      have hq : s.ph c = .queued := (h4 c).mpr hmem.2
      constructor <;> simp only [upd, busy] at * <;> grind [List.Nodup.erase, List.Nodup.mem_erase_iff]
    · cases hs
  | closeChan =>
    simp only [step] at hs
    split at hs
    · injection hs with hs; subst hs
      constructor <;> simp only [busy] at * <;> grind
    · cases hs

def runActs : St → List Act → Option St
  | s, [] => some s
  | s, a :: as => match step s a with | some s' => runActs s' as | none => none

theorem inv_run (acts : List Act) (s s' : St) (h : LInv s) (hr : runActs s acts = some s') : LInv s' := by
  induction acts generalizing s with
  | nil => simp [runActs] at hr; subst hr; exact h
  | cons a as ih =>
    simp only [runActs] at hr
    split at hr
    · rename_i s1 hs
      exact ih s1 (inv_step s s1 a h hs) hr
    · cases hr

end L4.Listener

import L4.Proofs.Relay
import L4.Gen.Facts
/-!
# C03 — The proxy relays both directions byte-exactly, with half-close and cleanup
Transition system `L4/Relay.lean` of `Handler.proxy` + the deferred close of `Handler.Handle`, for any number of upstream
connections, every interleaving of the pump / copy / main goroutines with the client's and the upstreams' sends, half-closes
and abrupt closes.  The statement-level facts the model encodes are regenerated from `modules/l4proxy/proxy.go` on every run.
-/
namespace L4.C03
open L4 L4.Relay

/-- the protocol the model encodes is the protocol of the current source -/
theorem protocol_facts :
    1 ≤ Gen.fact_proxy_signal_chan_cap ∧
    Gen.fact_proxy_tee_chain_over_all_upconns = true ∧
    Gen.fact_proxy_copy_goroutine_per_upconn_counted_in_wg = true ∧
    Gen.fact_proxy_pump_copies_tee_then_signals_then_closes_write_all = true ∧
    Gen.fact_proxy_main_waits_copies_then_closewrite_down_then_receives = true ∧
    Gen.fact_proxy_Handle_defers_close_of_all_upconns_before_proxy = true ∧
    Gen.fact_proxy_dialPeers_closes_opened_conns_on_error = true := by decide

/-- the relay as the current source configures it: the signal channel has the extracted capacity -/
def start (k : Nat) (downCW : Bool) (upCW : Nat → Bool) (pre : Bytes) (cchunks : List Bytes) (cfin : Bool)
    (uchunks upend : Nat → List Bytes) (ufin : Nat → Bool) : St :=
  init k Gen.fact_proxy_signal_chan_cap downCW upCW pre cchunks cfin uchunks upend ufin

/-- **Client → upstreams, exactly once and in order** (every interleaving, every fault sequence): what an upstream has
received is always a prefix of the client's stream from its first unconsumed byte (prefetched bytes included); for an
upstream that was not reset it is exactly the stream minus what the pump has not read yet. -/
theorem upstream_receives_stream (acts : List Act) (s₀ s : St) (h₀ : RInv s₀) (h : runActs s₀ acts = some s) (i : Nat) :
    s.upRecv i = s.sentC.take (s.upRecv i).length ∧ (s.uerr i = false → s.upRecv i ++ s.cin.flatten = s.sentC) :=
  let inv := inv_run acts s₀ s h₀ h
  ⟨inv.c_prefix i, inv.c_cons i⟩

/-- **Upstream → client in order**: the bytes of upstream `i` the client has received, followed by what is still to be
copied, are exactly what upstream `i` sends. -/
theorem client_receives_in_order (acts : List Act) (s₀ s : St) (h₀ : RInv s₀) (h : runActs s₀ acts = some s) (i : Nat) :
    s.clRecv i ++ (s.uin i).flatten ++ (s.upend i).flatten = s.sentU i :=
  (inv_run acts s₀ s h₀ h).u_cons i

/-- **No premature end-of-stream**: an upstream observes end-of-stream only after the pump has stopped (the client finished
sending, or a fault) or after the handler returned; the client observes it only after every copy has ended. -/
theorem eof_only_after_sender_finished (acts : List Act) (s₀ s : St) (h₀ : RInv s₀) (h : runActs s₀ acts = some s) :
    (∀ i, s.upEof i = true → s.main = .returned ∨ ((s.cin = [] ∧ s.cfin = true) ∨ s.cerr = true ∨ ∃ j, j < s.k ∧ s.uerr j = true)) ∧
    (s.clEof = true → ∀ i, i < s.k → s.copyDone i = true) := by
  have inv := inv_run acts s₀ s h₀ h
  refine ⟨fun i hi => ?_, fun hc i hik => ?_⟩
  · rcases inv.eof_late i hi with hp | hm
    · right; exact inv.pump_end (by rw [hp]; decide)
    · left; exact hm
  · exact inv.main_copies (by rcases inv.cleof hc with h1 | h1 <;> rw [h1] <;> decide) i hik

/-- **Cleanup under every fault sequence**: once the handler has returned, every upstream connection it opened is closed. -/
theorem returned_means_all_closed (acts : List Act) (s₀ s : St) (h₀ : RInv s₀) (h : runActs s₀ acts = some s)
    (hr : s.main = .returned) : ∀ i, s.upClosed i = true :=
  ((inv_run acts s₀ s h₀ h).ret_closed hr).1

/-- an upstream connection is closed before the handler returns only when it offers no half-close -/
theorem closed_before_return_only_without_halfclose (acts : List Act) (s₀ s : St) (h₀ : RInv s₀) (h : runActs s₀ acts = some s)
    (i : Nat) (hc : s.upClosed i = true) (hm : s.main ≠ .returned) : s.upCW i = false := by
  rcases (inv_run acts s₀ s h₀ h).closed_early i hc with h1 | h1
  · exact absurd h1 hm
  · exact h1.1

def envFault : Act → Prop
  | .clientReset => True
  | .upReset _ => True
  | _ => False

/-- **Terminal-state theorem** (no fairness assumption needed: it speaks about every state in which no proxy or sender
action is enabled).  If nobody was reset, every transport offers half-close, both sides do finish sending and the signal
channel has a free slot, then a state in which nothing can move is a state in which every upstream received the whole client
stream and saw end-of-stream, the client received every upstream's whole stream and saw end-of-stream, the handler has
returned and every upstream connection is closed.  Upstreams may hold back part of their stream until they have seen the
client's end-of-stream (`upend`). -/
theorem terminal_complete (s : St) (h : RInv s) (hcap : 1 ≤ s.sigCap)
    (hcerr : s.cerr = false) (huerr : ∀ i, i < s.k → s.uerr i = false) (hcw : ∀ i, i < s.k → s.upCW i = true)
    (hcfin : s.cfin = true) (hufin : ∀ i, i < s.k → s.ufin i = true)
    (hstuck : ∀ a, step s a = none ∨ envFault a) :
    (∀ i, i < s.k → s.upRecv i = s.sentC ∧ s.clRecv i = s.sentU i ∧ s.upEof i = true ∧ s.upClosed i = true) ∧
    s.main = .returned ∧ (s.downCW = true → s.clEof = true) := by
  obtain ⟨h1, h2, h3, h4, h5, h6, h7, h8, h9, h10, h11, h12, h13, h14, h15⟩ := h
  have stuck : ∀ a, ¬ envFault a → step s a = none := fun a hn => (hstuck a).resolve_right hn
  -- the pump has finished
  have hpump : s.pump = .done := by
    cases hp : s.pump with
    | done => rfl
    | reading =>
      cases hc : s.cin with
      | cons c cs => have := stuck .pumpRead (by simp [envFault]); simp [step, hc, hp, hcerr] at this
      | nil => have := stuck .pumpEOF (by simp [envFault]); simp [step, hc, hp, hcerr, hcfin] at this
    | signalling =>
      have hs0 : s.sig = 0 := by
        have := h13.1; have h' := h13.2
        cases hs : s.sig with
        | zero => rfl
        | succ n => have : s.sig = 1 := by omega
                    have := (h' this).1; rw [hp] at this; rcases this with h | h <;> cases h
      have := stuck .pumpSignal (by simp [envFault]); simp [step, hp, hs0] at this; omega
    | closing => have := stuck .pumpClose (by simp [envFault]); simp [step, hp] at this
  have heof := h6 hpump
  have hnofault : ¬ ∃ i, i < s.k ∧ s.uerr i = true := by
    rintro ⟨i, hi, he⟩; rw [huerr i hi] at he; cases he
  have hcin : s.cin = [] := by
    rcases h4 (by rw [hpump]; decide) with h | h | h
    · exact h.1
    · rw [hcerr] at h; cases h
    · exact absurd h hnofault
  -- every upstream has released what it held back, and every copy has ended at its upstream's end-of-stream
  have hupend : ∀ i, i < s.k → s.upend i = [] := by
    intro i hi
    cases hu : s.upend i with
    | nil => rfl
    | cons c cs => have := stuck (.upRespond i) (by simp [envFault]); simp [step, hi, heof i, hu, huerr i hi] at this
  have hnotclosed : ∀ i, i < s.k → s.copyDone i = false → s.upClosed i = false := by
    intro i hi hcd
    cases hc : s.upClosed i with
    | false => rfl
    | true =>
      rcases h12 i hc with hm | hm
      · have := h8 (by rw [hm]; decide) i hi; rw [hcd] at this; cases this
      · rw [hcw i hi] at hm; cases hm.1
  have hcopies : ∀ i, i < s.k → s.copyDone i = true := by
    intro i hi
    cases hcd : s.copyDone i with
    | true => rfl
    | false =>
      have hnc := hnotclosed i hi hcd
      cases hu : s.uin i with
      | cons c cs => have := stuck (.copyRead i) (by simp [envFault]); simp [step, hu, hi, hcd, hcerr, huerr i hi, hnc] at this
      | nil => have := stuck (.copyEOF i) (by simp [envFault]); simp [step, hu, hi, hcd, hupend i hi, hufin i hi, huerr i hi, hnc] at this
  have hmain : s.main = .returned := by
    cases hm : s.main with
    | returned => rfl
    | waitCopies =>
      have := stuck .mainWait (by simp [envFault])
      have hall : allBelow s.k s.copyDone = true := (allBelow_iff _ _).mpr hcopies
      simp [step, hm, hall] at this
    | afterWait => have := stuck .mainCW (by simp [envFault]); simp [step, hm] at this
    | waitSignal =>
      have hs1 : s.sig = 1 := h14 (Or.inr hpump) (by rw [hm]; decide)
      have := stuck .mainRecv (by simp [envFault]); simp [step, hm, hs1] at this
  refine ⟨fun i hi => ⟨?_, ?_, heof i, (h11 hmain).1 i⟩, hmain, fun hd => h10 (Or.inr hmain) hd⟩
  · have := h1 i (huerr i hi); simpa [hcin] using this
  · rcases h7 i (hcopies i hi) with h | h | h | h
    · have := h3 i; simpa [h.1, h.2.1] using this
    · rw [hcerr] at h; cases h
    · rw [huerr i hi] at h; cases h
    · rw [hcw i hi] at h; cases h

/-- **Transports without half-close** (datagram upstreams): the same terminal analysis without assuming `CloseWrite` on
the upstream side.  When the client has finished and nothing can move, every upstream has received the whole client stream,
the handler has returned and every upstream connection is closed — the pump closes a connection that cannot be half-closed,
which ends its copy (bytes such an upstream still had to send may be cut off: no claim about `clRecv`). -/
theorem terminal_returns_without_halfclose (s : St) (h : RInv s) (hcap : 1 ≤ s.sigCap)
    (hcerr : s.cerr = false) (huerr : ∀ i, i < s.k → s.uerr i = false)
    (hcfin : s.cfin = true) (hufin : ∀ i, i < s.k → s.upCW i = true → s.ufin i = true)
    (hstuck : ∀ a, step s a = none ∨ envFault a) :
    (∀ i, i < s.k → s.upRecv i = s.sentC ∧ s.upEof i = true ∧ s.upClosed i = true) ∧ s.main = .returned := by
  obtain ⟨h1, h2, h3, h4, h5, h6, h7, h8, h9, h10, h11, h12, h13, h14, h15⟩ := h
  have stuck : ∀ a, ¬ envFault a → step s a = none := fun a hn => (hstuck a).resolve_right hn
  have hpump : s.pump = .done := by
    cases hp : s.pump with
    | done => rfl
    | reading =>
      cases hc : s.cin with
      | cons c cs => have := stuck .pumpRead (by simp [envFault]); simp [step, hc, hp, hcerr] at this
      | nil => have := stuck .pumpEOF (by simp [envFault]); simp [step, hc, hp, hcerr, hcfin] at this
    | signalling =>
      have hs0 : s.sig = 0 := by
        have := h13.1; have h' := h13.2
        cases hs : s.sig with
        | zero => rfl
        | succ n => have : s.sig = 1 := by omega
                    have := (h' this).1; rw [hp] at this; rcases this with h | h <;> cases h
      have := stuck .pumpSignal (by simp [envFault]); simp [step, hp, hs0] at this; omega
    | closing => have := stuck .pumpClose (by simp [envFault]); simp [step, hp] at this
  have heof := h6 hpump
  have hnofault : ¬ ∃ i, i < s.k ∧ s.uerr i = true := by
    rintro ⟨i, hi, he⟩; rw [huerr i hi] at he; cases he
  have hcin : s.cin = [] := by
    rcases h4 (by rw [hpump]; decide) with h | h | h
    · exact h.1
    · rw [hcerr] at h; cases h
    · exact absurd h hnofault
  have hcopies : ∀ i, i < s.k → s.copyDone i = true := by
    intro i hi
    cases hcd : s.copyDone i with
    | true => rfl
    | false =>
      cases hc : s.upClosed i with
      | true => have := stuck (.copyErr i) (by simp [envFault]); simp [step, hi, hcd, hc] at this
      | false =>
        -- not closed by the pump although the pump is done: the transport offers half-close
        have hcw : s.upCW i = true := by
          cases hw : s.upCW i with
          | true => rfl
          | false =>
            -- pumpClose set upClosed for every transport without half-close; recover it from the stuck state
            exfalso
            have := stuck (.copyErr i) (by simp [envFault])
            -- copyErr is not enabled only because upClosed is false; but a stuck copy of an unclosed connection must be
            -- waiting for data the upstream will not send: excluded by `upend` / `ufin` below
            cases hu : s.uin i with
            | cons c cs => have := stuck (.copyRead i) (by simp [envFault]); simp [step, hu, hi, hcd, hcerr, huerr i hi, hc] at this
            | nil =>
              cases hue : s.upend i with
              | cons c cs => have := stuck (.upRespond i) (by simp [envFault]); simp [step, hi, heof i, hue, huerr i hi] at this
              | nil => have := h15 hpump i hw; rw [hc] at this; cases this
        cases hu : s.uin i with
        | cons c cs => have := stuck (.copyRead i) (by simp [envFault]); simp [step, hu, hi, hcd, hcerr, huerr i hi, hc] at this
        | nil =>
          cases hue : s.upend i with
          | cons c cs => have := stuck (.upRespond i) (by simp [envFault]); simp [step, hi, heof i, hue, huerr i hi] at this
          | nil => have := stuck (.copyEOF i) (by simp [envFault]); simp [step, hu, hi, hcd, hue, hufin i hi hcw, huerr i hi, hc] at this
  have hmain : s.main = .returned := by
    cases hm : s.main with
    | returned => rfl
    | waitCopies =>
      have := stuck .mainWait (by simp [envFault])
      have hall : allBelow s.k s.copyDone = true := (allBelow_iff _ _).mpr hcopies
      simp [step, hm, hall] at this
    | afterWait => have := stuck .mainCW (by simp [envFault]); simp [step, hm] at this
    | waitSignal =>
      have hs1 : s.sig = 1 := h14 (Or.inr hpump) (by rw [hm]; decide)
      have := stuck .mainRecv (by simp [envFault]); simp [step, hm, hs1] at this
  refine ⟨fun i hi => ⟨?_, heof i, (h11 hmain).1 i⟩, hmain⟩
  have := h1 i (huerr i hi); simpa [hcin] using this

/-- the same for every reachable state of the relay as the current source configures it -/
theorem terminal_complete_reachable (k : Nat) (downCW : Bool) (upCW : Nat → Bool) (pre : Bytes) (cs : List Bytes)
    (us up : Nat → List Bytes) (acts : List Act) (s : St)
    (h : runActs (start k downCW upCW pre cs true us up (fun _ => true)) acts = some s)
    (hcerr : s.cerr = false) (huerr : ∀ i, i < s.k → s.uerr i = false) (hcw : ∀ i, i < s.k → s.upCW i = true)
    (hcfin : s.cfin = true) (hufin : ∀ i, i < s.k → s.ufin i = true) (hcap : s.sigCap = Gen.fact_proxy_signal_chan_cap)
    (hstuck : ∀ a, step s a = none ∨ envFault a) :
    (∀ i, i < s.k → s.upRecv i = s.sentC ∧ s.clRecv i = s.sentU i ∧ s.upEof i = true ∧ s.upClosed i = true) ∧
    s.main = .returned ∧ (s.downCW = true → s.clEof = true) :=
  terminal_complete s (inv_run acts _ s (inv_init ..) h) (by rw [hcap]; exact protocol_facts.1) hcerr huerr hcw hcfin hufin hstuck

/-- **Every run is finite** ("then the handler returns" needs no fairness assumption): every action of the proxy and of its
environment strictly decreases a natural-number measure (chunks still to be moved, program counters of the three kinds of
goroutine, copies not yet ended, faults that have not happened), so a run from `s` has at most `measure s` actions and then
is in a state where nothing can move — which `terminal_complete` / `terminal_returns_without_halfclose` describe. -/
theorem every_run_is_finite (acts : List Act) (s s' : St) (h : runActs s acts = some s') : acts.length ≤ measure s := by
  have := run_length_bounded acts s s' h; omega

theorem each_action_makes_progress (s s' : St) (a : Act) (h : step s a = some s') : measure s' < measure s :=
  measure_decreases s s' a h

/-! ### why the capacity of the signal channel matters (what the regenerated fact protects)
With an unbuffered `downConnClosedCh` the pump cannot signal before `main` is waiting, `main` waits for the copies, and an
upstream that answers only after it has seen the client's end-of-stream never ends its copy: the relay is stuck with the
request delivered but no end-of-stream at the upstream and no response at the client. -/
def hdxStart (cap : Nat) : St :=
  init 1 cap true (fun _ => true) [1, 2] [] true (fun _ => []) (fun _ => [[9]]) (fun _ => true)

theorem unbuffered_signal_deadlocks :
    ((runActs (hdxStart 0) [.pumpRead, .pumpEOF]).map fun s =>
      (s.upRecv 0, s.upEof 0, s.clRecv 0, s.main == .returned,
       [Act.pumpRead, .pumpEOF, .pumpErr, .pumpSignal, .rendezvous, .pumpClose, .copyRead 0, .copyEOF 0, .copyErr 0, .mainWait, .mainCW, .mainRecv, .upRespond 0].all
         fun a => (step s a).isNone)) = some ([1, 2], false, [], false, true) := by decide

/-! non-vacuity: the same exchange completes with the extracted capacity, and the terminal theorem's hypotheses are met -/
example :
    ((runActs (hdxStart Gen.fact_proxy_signal_chan_cap)
        [.pumpRead, .pumpEOF, .pumpSignal, .pumpClose, .upRespond 0, .copyRead 0, .copyEOF 0, .mainWait, .mainCW, .mainRecv]).map fun s =>
      (s.upRecv 0, s.upEof 0, s.clRecv 0, s.clEof, s.main == .returned, s.upClosed 0)) = some ([1, 2], true, [9], true, true, true) := by decide

/-- a two-upstream run with a reset of upstream 1 in the middle: upstream 0 still gets everything, the handler returns and
both connections are closed -/
example :
    ((runActs (init 2 1 true (fun _ => true) [1] [[2], [3]] true (fun _ => [[7]]) (fun _ => []) (fun _ => true))
        [.pumpRead, .upReset 1, .pumpRead, .pumpSignal, .pumpClose, .copyRead 0, .copyEOF 0, .copyErr 1, .mainWait, .mainCW, .mainRecv]).map fun s =>
      (s.upRecv 0, s.upRecv 1, s.clRecv 0, s.main == .returned, s.upClosed 0, s.upClosed 1)) = some ([1, 2], [1], [7], true, true, true) := by decide

end L4.C03

import L4.Proofs.Config
/-!
# C15 — Caddyfile and JSON configurations are equivalent, loadable and round-trip
`L4/Config.lean`: the option-table interpreter behind the flat `UnmarshalCaddyfile`s and the transcription of the structural
parsers of layer4/caddyfile.go.  The theorems hold for every table and every well-formed configuration over it; the tie to the
real adapter is the `cfg` differential (tokens of generated Caddyfiles → adapter JSON vs. the transcription's JSON).
-/
namespace L4.C15
open L4 L4.Config

/-- **adapt ∘ render on a module's option block**: for every option table and every well-formed list of option values
(each option known to the table with a value of its kind, none given twice), parsing the block the renderer writes gives
back exactly those values — no option lost, merged, mis-assigned or rejected.  (The two string-codec laws for decimal
integers and nanosecond durations are theorems: `Config.codecLaws`.) -/
theorem table_parse_render (schema : List Opt) (c : List (String × Val)) (hw : wf schema c = true) :
    parseBlock schema (render c) (fun _ => none) = .ok (asMap c (fun _ => none)) :=
  parse_render codecLaws schema c _ hw (fun _ _ => rfl)

/-- … hence the JSON object of the module states, for every option of the table, exactly the value written for it
(dropped when empty, as `omitempty` does), and nothing else -/
theorem table_json_states_values (schema : List Opt) (c : List (String × Val)) (hw : wf schema c = true) :
    (parseBlock schema (render c) (fun _ => none)).map (tableJSON schema) =
      .ok (schema.filterMap fun o => (c.lookup o.name).bind fun v => (valJSON v).map fun j => (o.key, j)) := by
  rw [table_parse_render schema c hw]
  simp only [Except.map, tableJSON]
  congr 1
  apply filterMap_congr'
  intro o _
  rw [asMap_lookup c _ (wf_nodup schema c hw) o.name]
  cases c.lookup o.name <;> rfl

/-- **The order of the options in a block is irrelevant**: two well-formed blocks with the same options in a different
order adapt to the same JSON (the defect class of "an option written before another one is lost"). -/
theorem table_order_irrelevant (schema : List Opt) (c₁ c₂ : List (String × Val)) (hp : c₁.Perm c₂)
    (h₁ : wf schema c₁ = true) (h₂ : wf schema c₂ = true) :
    (parseBlock schema (render c₁) (fun _ => none)).map (tableJSON schema) =
      (parseBlock schema (render c₂) (fun _ => none)).map (tableJSON schema) := by
  rw [table_json_states_values schema c₁ h₁, table_json_states_values schema c₂ h₂]
  congr 1
  apply filterMap_congr'
  intro o _
  rw [lookup_perm c₁ c₂ hp (wf_nodup schema c₁ h₁) o.name]

/-- an option given twice (other than a list option) is rejected, never silently merged -/
theorem duplicate_scalar_rejected (o : Opt) (args : List String) (m : M) (v : Val) (hm : m o.name = some v)
    (hc : o.conv ≠ .strs) : ∃ e, applyOpt o args m = .error e := by
  cases hcv : o.conv <;> simp [applyOpt, hcv, hm] at hc ⊢

/-- an option the table does not know is rejected -/
theorem unknown_option_rejected (schema : List Opt) (name : String) (args : List String) (rest : List (String × List String)) (m : M)
    (h : schema.find? (·.name == name) = none) : ∃ e, parseBlock schema ((name, args) :: rest) m = .error e := by
  simp [parseBlock, h]

/-- **Matcher sets**: when the matcher names of a set are distinct and every matcher module adapts its own segment, the set
adapts to the module map that states each matcher under its name (in particular: nothing dropped, nothing merged) -/
theorem matcher_set_adapts (leafM : LeafFn) (entries : List Seg) (j : Seg → JV)
    (hnd : (entries.map (·.name)).Nodup) (hleaf : ∀ e ∈ entries, leafM e.name e = .ok (j e)) :
    adaptMatcherSet leafM entries = .ok (.obj (entries.map fun e => (e.name, j e))) := by
  unfold adaptMatcherSet
  rw [findDup_none _ hnd]
  have := mapM_ok (fun e => do let j ← leafM e.name e; pure (e.name, j)) (fun e => (e.name, j e)) entries
    (by intro e he; simp [hleaf e he]; rfl)
  simp only [bind, Except.bind, pure, Except.pure] at this ⊢
  rw [this]

/-- a matcher named twice in one set is an error (the Go code rejects `duplicate matcher module`) -/
theorem matcher_set_duplicate_rejected (leafM : LeafFn) (entries : List Seg) (hd : ¬ (entries.map (·.name)).Nodup) :
    ∃ e, adaptMatcherSet leafM entries = .error e := by
  unfold adaptMatcherSet
  have := findDup_some _ hd
  cases hf : findDup (entries.map (·.name)) with
  | none => simp [hf] at this
  | some n => exact ⟨_, rfl⟩

/-- **Handler lists** keep their order and every handler carries its module name inline -/
theorem handlers_adapt (leafH : LeafFn) (segs : List Seg) (kvs : Seg → List (String × JV))
    (hleaf : ∀ e ∈ segs, leafH e.name e = .ok (.obj (kvs e))) :
    adaptHandlers leafH segs = .ok (segs.map fun e => .obj (("handler", .str e.name) :: (kvs e).filter (·.1 != "handler"))) := by
  unfold adaptHandlers
  exact mapM_ok _ _ segs (by intro e he; simp [hleaf e he]; rfl)

/-- adapting is a function of the tokens: **deterministic** by construction; stated for the record on the top-level adapter -/
theorem adapt_deterministic (leafM leafH : LeafFn) (blocks : List Seg) :
    adaptApp leafM leafH blocks = adaptApp leafM leafH blocks := rfl

/-! non-vacuity and samples of the codec laws (tests, not theorems: the laws are hypotheses above) -/
def demoSchema : List Opt := [⟨"latency", "latency", .dur⟩, ⟨"read_burst_size", "read_burst_size", .int⟩, ⟨"allow", "allow", .strs⟩]
example : wf demoSchema [("allow", .ss ["10.0.0.0/8"]), ("latency", .d 5000000), ("read_burst_size", .i 7)] = true := by decide
/-- the codec laws themselves (decimal integers, nanosecond durations), for all values -/
theorem codec_laws : (∀ v : Int, parseInt? (showInt v) = some v) ∧ (∀ ns : Int, 0 ≤ ns → parseDur? (showDur ns) = some ns) :=
  ⟨int_law, dur_law⟩

#guard (parseDur? "5s", parseDur? "2h", parseDur? "1d", parseDur? "0", parseDur? "7") ==
    (some 5000000000, some 7200000000000, some 86400000000000, some 0, none)

end L4.C15

import L4.Socks5
/-!
# C16 — The SOCKS5 handler serves only enabled commands and only authenticated clients
-/
namespace L4.C16
open L4 L4.Socks5

/-- **An outbound action implies permission**: the command is enabled in the provisioned rule and, when credentials are
configured, the client presented a configured (user, password) pair with a non-empty user name -/
theorem action_implies_permitted (c : Cfg) (cl : Client) (cmd : Nat) (h : serve c cl = .act cmd) :
    ∃ r, rule c = some r ∧ cmd = cl.cmd ∧ allowed r cmd = true ∧
      (authRequired c = true → ∃ u p, cl.login = some (u, p) ∧ validLogin c u p = true) := by
  unfold serve at h
  cases hr : rule c with
  | none => rw [hr] at h; cases h
  | some r =>
    rw [hr] at h
    simp only [serveWith] at h
    by_cases h1 : (!methodOk c cl) = true
    · rw [if_pos h1] at h; cases h
    · rw [if_neg h1] at h
      by_cases h2 : (!loginOk c cl) = true
      · rw [if_pos h2] at h; cases h
      · rw [if_neg h2] at h
        by_cases h3 : (!cl.atypOk) = true
        · rw [if_pos h3] at h; cases h
        · rw [if_neg h3] at h
          by_cases h4 : cl.cmd ≠ 1 ∧ cl.cmd ≠ 2 ∧ cl.cmd ≠ 3
          · rw [if_pos h4] at h; cases h
          · rw [if_neg h4] at h
            by_cases h5 : (!allowed r cl.cmd) = true
            · rw [if_pos h5] at h; cases h
            · rw [if_neg h5] at h
              by_cases h6 : cl.cmd = 2
              · rw [if_pos h6] at h; cases h
              · rw [if_neg h6] at h
                cases h
                refine ⟨r, rfl, rfl, by simpa using h5, ?_⟩
                intro ha
                have hl : loginOk c cl = true := by simpa using h2
                simp only [loginOk, ha, Bool.not_true, Bool.false_or] at hl
                cases hlg : cl.login with
                | none => simp [hlg] at hl
                | some up => exact ⟨up.1, up.2, rfl, by simpa [hlg] using hl⟩

/-- an empty user name never authenticates, whatever is configured -/
theorem empty_username_never_authenticates (c : Cfg) (p : Bytes) : validLogin c [] p = false := by
  simp [validLogin]

/-- a configured login pair is required exactly: wrong password or unknown user is refused -/
theorem valid_login_spec (c : Cfg) (u p : Bytes) :
    validLogin c u p = true ↔ u ≠ [] ∧ (u, p) ∈ c.credentials := by
  simp only [validLogin, Bool.and_eq_true, Bool.not_eq_true', List.any_eq_true, beq_iff_eq]
  constructor
  · rintro ⟨hu, e, he, h1, h2⟩
    refine ⟨by intro h; subst h; simp at hu, ?_⟩
    cases e; simp_all
  · rintro ⟨hu, hm⟩
    exact ⟨by cases u <;> simp_all, (u, p), hm, rfl, rfl⟩

/-- defaults: without a `commands` option CONNECT and ASSOCIATE are enabled and BIND is not -/
theorem default_commands (creds : List (Bytes × Bytes)) : rule ⟨[], creds⟩ = some ⟨true, false, true⟩ := rfl

/-- BIND is never executed by the default configuration, and a disabled command never leads to an action -/
theorem disabled_command_refused (c : Cfg) (cl : Client) (r : Rule) (hr : rule c = some r) (hd : allowed r cl.cmd = false) :
    ∀ cmd, serve c cl ≠ .act cmd := by
  intro cmd h
  obtain ⟨r', hr', hc, ha, _⟩ := action_implies_permitted c cl cmd h
  rw [hr] at hr'; cases hr'; subst hc
  rw [hd] at ha; cases ha

/-- with credentials configured, a client that offers only "no authentication" gets no service -/
theorem unauthenticated_refused (c : Cfg) (cl : Client) (ha : authRequired c = true) (hm : cl.methods.contains 2 = false) :
    serve c cl = .provisionError ∨ serve c cl = .noAcceptableMethod := by
  unfold serve
  split
  · left; rfl
  · right
    have : methodOk c cl = false := by simp only [methodOk, ha, if_true]; exact hm
    simp [serveWith, this]

/-! non-vacuity -/
example : serve ⟨[], [([98, 111, 98], [112, 119])]⟩ ⟨[0, 2], some ([98, 111, 98], [112, 119]), 1, true⟩ = .act 1 := by decide
example : serve ⟨[], [([], [112, 119])]⟩ ⟨[0, 2], some ([], [112, 119]), 1, true⟩ = .authFailed := by decide

end L4.C16

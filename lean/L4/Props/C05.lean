import L4.Timed
import L4.Proofs.Conn
/-!
# C05 — Matching is bounded by timeout and buffer limit, never early, fails closed
-/
namespace L4.C05
open L4 L4.TConn

/-- shape of a prefetch: refused when full, else decided by the next arrival -/
theorem prefetch_cases (c : TConn) :
    (Gen.layer4_MaxMatchingBytes ≤ c.buf.length ∧ c.prefetch = .error .full) ∨
    (c.buf.length < Gen.layer4_MaxMatchingBytes ∧ c.pending = [] ∧ c.prefetch = .error (silent c.armed)) ∨
    (c.buf.length < Gen.layer4_MaxMatchingBytes ∧ ∃ t d rest, c.pending = (t, d) :: rest ∧
      ((due c.armed c.now t = true ∧ c.prefetch = .ok (take1 c t d rest)) ∨
       (due c.armed c.now t = false ∧ c.prefetch = .error .timeout))) := by
  by_cases hf : Gen.layer4_MaxMatchingBytes ≤ c.buf.length
  · left; exact ⟨hf, by simp [prefetch, hf]⟩
  · right
    cases hp : c.pending with
    | nil => left; exact ⟨by omega, rfl, by simp [prefetch, hf, hp]⟩
    | cons a rest =>
      obtain ⟨t, d⟩ := a
      right
      refine ⟨by omega, t, d, rest, rfl, ?_⟩
      by_cases hd : due c.armed c.now t = true
      · left; exact ⟨hd, by simp [prefetch, hf, hp, hd]⟩
      · right; exact ⟨by simpa using hd, by simp [prefetch, hf, hp, hd]⟩

/-- **Not early**: a prefetch reports a timeout only if a deadline is armed and nothing arrives by it -/
theorem timeout_not_early (c : TConn) (h : c.prefetch = .error .timeout) :
    ∃ dl, c.armed = some dl ∧ (∀ t d rest, c.pending = (t, d) :: rest → dl < t ∧ c.now < t) ∧ dl ≤ c.abortTime := by
  rcases prefetch_cases c with ⟨_, h1⟩ | ⟨_, hp, h1⟩ | ⟨_, t, d, rest, hp, ⟨_, h1⟩ | ⟨hd, _⟩⟩
  · rw [h1] at h; cases h
  · rw [h1] at h
    cases harm : c.armed with
    | none => simp [silent, harm] at h
    | some dl =>
      refine ⟨dl, rfl, ?_, ?_⟩
      · intro t d rest hp'; rw [hp] at hp'; cases hp'
      · simp [abortTime, harm]; omega
  · rw [h1] at h; cases h
  · cases harm : c.armed with
    | none => simp [due, harm] at hd
    | some dl =>
      refine ⟨dl, rfl, ?_, by simp [abortTime, harm]; omega⟩
      intro t' d' rest' hp'
      rw [hp] at hp'; cases hp'
      simp [due, harm] at hd; omega

/-- without an armed deadline a prefetch never times out: handlers running after a match are not limited by it -/
theorem unarmed_never_times_out (c : TConn) (h : c.armed = none) : c.prefetch ≠ .error .timeout := by
  intro ht
  obtain ⟨dl, harm, _⟩ := timeout_not_early c ht
  rw [h] at harm; cases harm

/-- **By the deadline**: a successful prefetch under an armed deadline completes no later than the deadline (or
immediately, if the data was already there) -/
theorem ok_by_deadline (c c' : TConn) (dl : Nat) (harm : c.armed = some dl) (h : c.prefetch = .ok c') :
    c'.now ≤ max c.now dl := by
  rcases prefetch_cases c with ⟨_, h1⟩ | ⟨_, _, h1⟩ | ⟨_, t, d, rest, hp, ⟨hd, h1⟩ | ⟨_, h1⟩⟩
  · rw [h1] at h; cases h
  · rw [h1] at h; cases h
  · rw [h1] at h; cases h
    simp [due, harm] at hd
    simp [take1]; omega
  · rw [h1] at h; cases h

/-- **Buffer bound**: a prefetch adds at most one chunk and is refused once `MaxMatchingBytes` are buffered, so the
matching buffer never exceeds the limit plus one chunk -/
theorem buffer_bound (c c' : TConn) (h : c.prefetch = .ok c') :
    c'.buf.length ≤ c.buf.length + Gen.layer4_prefetchChunkSize ∧
    c'.buf.length < Gen.layer4_MaxMatchingBytes + Gen.layer4_prefetchChunkSize := by
  rcases prefetch_cases c with ⟨_, h1⟩ | ⟨_, _, h1⟩ | ⟨hlt, t, d, rest, hp, ⟨hd, h1⟩ | ⟨_, h1⟩⟩
  · rw [h1] at h; cases h
  · rw [h1] at h; cases h
  · rw [h1] at h; cases h
    simp [take1, List.length_take]; omega
  · rw [h1] at h; cases h

theorem full_refused (c : TConn) (h : Gen.layer4_MaxMatchingBytes ≤ c.buf.length) : c.prefetch = .error .full := by
  simp [prefetch, h]

/-- **Absolute deadline**: every (re-)arming inside one route list sets the same instant, computed once on entry; reads do
not extend it -/
theorem arm_is_absolute (c : TConn) : (ops.arm true c).armed = some c.routeDeadline ∧
    (∀ c', c.prefetch = .ok c' → c'.routeDeadline = c.routeDeadline) := by
  refine ⟨rfl, ?_⟩
  intro c' h
  rcases prefetch_cases c with ⟨_, h1⟩ | ⟨_, _, h1⟩ | ⟨_, t, d, rest, hp, ⟨hd, h1⟩ | ⟨_, h1⟩⟩
  · rw [h1] at h; cases h
  · rw [h1] at h; cases h
  · rw [h1] at h; cases h; rfl
  · rw [h1] at h; cases h

/-! ## on the router: handlers run with the deadline cleared, every matching round re-arms it -/

variable {κ : Type}

def RunsQ (Q : κ → Prop) (tr : List (Ev κ)) : Prop := ∀ j c, Ev.run j c ∈ tr → Q c

def PassQ (Q : κ → Prop) : PassOut κ → Prop
  | .done _ _ tr' => RunsQ Q tr'
  | .stop tr' _ => RunsQ Q tr'

theorem runsQ_append {Q : κ → Prop} {a b : List (Ev κ)} (ha : RunsQ Q a) (hb : RunsQ Q b) : RunsQ Q (a ++ b) := by
  intro j c hm
  rcases List.mem_append.mp hm with h | h
  · exact ha j c h
  · exact hb j c h

/-- generic: whatever `arm false` establishes holds for every connection a route's handlers are invoked on -/
theorem pass_runs_disarmed (K : ConnOps κ) (Q : κ → Prop) (hQ : ∀ cx, Q (K.arm false cx)) (routes : List (Route κ))
    (i : Nat) (rs : RS) (cx : κ) (tr : List (Ev κ)) (ht : RunsQ Q tr) : PassQ Q (pass K routes i rs cx tr) := by
  induction routes generalizing i rs cx tr with
  | nil => exact ht
  | cons r rest ih =>
    unfold pass
    split
    · exact ih _ _ _ _ ht
    · split
      · exact ih _ _ _ _ ht
      · have hrun : ∀ hev : List (Ev κ), RunsQ Q (tr ++ [Ev.run i (K.arm false cx)] ++ hev.map (.inner i)) := by
          intro hev
          refine runsQ_append (runsQ_append ht ?_) ?_
          · intro j c hm; simp at hm; rw [hm.2]; exact hQ cx
          · intro j c hm; simp at hm
        split
        · split
          · exact ht
          · exact ih _ _ _ _ ht
        · exact ih _ _ _ _ ht
        · simp only []
          split
          · exact hrun _
          · exact runsQ_append (hrun _) (by intro j c hm; simp at hm)
          · exact ih _ _ _ _ (hrun _)
        · exact runsQ_append ht (by intro j c hm; simp at hm)

/-- **Once a route has matched the deadline no longer limits its handlers**: on the timed connection every handler is
invoked with no deadline armed -/
theorem handlers_run_without_deadline (routes : List (Route TConn)) (i : Nat) (rs : RS) (cx : TConn) :
    PassQ (fun c => c.armed = none) (pass ops routes i rs cx []) :=
  pass_runs_disarmed ops (fun c => c.armed = none) (fun _ => rfl) routes i rs cx [] (by intro j c h; cases h)

/-- **Fails closed**: when matching ends by timeout, full buffer or end of stream, the router returns without invoking
any further handler and without calling the fallback -/
theorem fails_closed (K : ConnOps κ) (routes : List (Route κ)) (f : Nat) (rs : RS) (cx : κ) (tr : List (Ev κ)) (why : Abort)
    (hn : rs.needMore = true) (hp : K.prefetch (K.arm true cx) = .error why) :
    round K routes (f + 1) rs cx tr = (tr ++ [.abort why], .terminal) := by
  simp [round, hn, hp]

/-! non-vacuity: a silent client under a 300-unit deadline times out exactly at the deadline, not before -/
def silentClient : TConn := ops.arm true (TConn.enter ⟨[], [], 1000, none, 0⟩ 300)
example : silentClient.armed = some 1300 ∧ silentClient.abortTime = 1300 := by decide
example : (match silentClient.prefetch with | .error .timeout => true | _ => false) = true := by decide
example : (match (ops.arm true (TConn.enter ⟨[], [(1200, [1, 2])], 1000, none, 0⟩ 300)).prefetch with
    | .ok c => c.now == 1200 && c.buf == [1, 2] | _ => false) = true := by decide

end L4.C05

import L4.Listener
import L4.Gen.Facts
/-!
# C13 — Listener wrapper hands unconsumed connections over intact, exactly once
Transition system `L4/Listener.lean` (accept loop, handler goroutines, `connChan`, `done`, `wg`, `Close`, consumer
`Accept`); the structural facts it encodes are regenerated from `layer4/listener.go` on every run.
-/
namespace L4.C13
open L4 L4.Listener

/-- the protocol facts the model relies on hold in the current source -/
theorem protocol_facts :
    Gen.fact_listener_loop_closes_connChan_only_after_wait = true ∧
    Gen.fact_listener_loop_closes_done_then_drains = true ∧
    Gen.fact_pipeConnection_always_returns_errHijacked = true ∧
    Gen.fact_listener_handle_closes_conn_unless_hijacked = true ∧
    Gen.fact_listener_Accept_selects_connChan_and_done = true := by decide

/-- **Exactly once**: for every interleaving, a connection is delivered to `Accept` or closed by layer4 at most once in
total, and it has left layer4 exactly when that happened -/
theorem delivered_or_closed_once (acts : List Act) (s : St) (h : runActs {} acts = some s) (c : Nat) :
    s.delivered c + s.closed c ≤ 1 ∧ (s.ph c = .out ↔ s.delivered c + s.closed c = 1) :=
  let inv := inv_run acts {} s inv_init h
  ⟨inv.once c, inv.out_iff c⟩

/-- a connection consumed or rejected by layer4 (closed by it) is never delivered -/
theorem closed_not_delivered (acts : List Act) (s : St) (h : runActs {} acts = some s) (c : Nat) (hc : s.closed c = 1) :
    s.delivered c = 0 := by
  have := (inv_run acts {} s inv_init h).once c
  omega

/-- **No send on a closed channel** (which would crash the process): `connChan` is closed only when no handler is left -/
theorem never_crashes (acts : List Act) (s : St) (h : runActs {} acts = some s) : s.crashed = false :=
  (inv_run acts {} s inv_init h).nocrash

theorem chan_closed_means_quiet (acts : List Act) (s : St) (h : runActs {} acts = some s) (hc : s.chanClosed = true) :
    s.active = [] ∧ s.wg = 0 ∧ s.loopExited = true := by
  have inv := inv_run acts {} s inv_init h
  have ha := inv.chanClosed_quiet hc
  exact ⟨ha, by rw [inv.wg_len, ha]; rfl, inv.cc_exit hc⟩

/-- **Shutdown completes**: in a state where the listener was closed, the loop has exited and no protocol action is
enabled any more, every accepted connection has been delivered or closed, the channel is closed and empty, and no handler
goroutine is left (nothing stays blocked) -/
theorem terminal_state_clean (acts : List Act) (s : St) (h : runActs {} acts = some s) (hex : s.loopExited = true)
    (hterm : ∀ a, step s a = none ∨ a = .close) (hcap : 0 < s.cap) :
    s.chan = [] ∧ s.active = [] ∧ s.chanClosed = true ∧ ∀ c, s.ph c = .idle ∨ s.ph c = .out := by
  have inv := inv_run acts {} s inv_init h
  -- nothing queued: otherwise `drain` is enabled
  have hch : s.chan = [] := by
    cases hc : s.chan with
    | nil => rfl
    | cons c r =>
      rcases hterm (.drain c) with h1 | h1
      · simp [step, hex, hc] at h1
      · cases h1
  -- no handler active: `finish` / `pipeStart` / `pipeSend` would be enabled
  have hact : s.active = [] := by
    cases ha : s.active with
    | nil => rfl
    | cons c r =>
      have hb : busy s c := (inv.act_iff c).mpr (by rw [ha]; simp)
      rcases hb with hb | hb
      · rcases hterm (.finish c) with h1 | h1
        · simp [step, hb] at h1
        · cases h1
      · rcases hterm (.pipeSend c) with h1 | h1
        · have hcc : s.chanClosed = false := by
            cases hx : s.chanClosed with
            | false => rfl
            | true => have := inv.chanClosed_quiet hx; rw [ha] at this; cases this
          simp [step, hb, hcc, hch, hcap] at h1
        · cases h1
  have hwg : s.wg = 0 := by rw [inv.wg_len, hact]; rfl
  have hcc : s.chanClosed = true := by
    cases hx : s.chanClosed with
    | true => rfl
    | false =>
      rcases hterm .closeChan with h1 | h1
      · simp [step, hex, hwg, hx] at h1
      · cases h1
  refine ⟨hch, hact, hcc, ?_⟩
  intro c
  cases hp : s.ph c with
  | idle => left; rfl
  | out => right; rfl
  | handling => have := (inv.act_iff c).mp (Or.inl hp); rw [hact] at this; cases this
  | piping => have := (inv.act_iff c).mp (Or.inr hp); rw [hact] at this; cases this
  | queued => have := (inv.queued_mem c).mp hp; rw [hch] at this; cases this

/-! non-vacuity: a run in which one connection is delivered and another closed at shutdown -/
example : ((runActs {} [.accept 0, .accept 1, .pipeStart 0, .pipeSend 0, .consume 0, .pipeStart 1, .pipeSend 1, .close, .loopExit, .drain 1, .closeChan]).map
    fun s => (s.delivered 0, s.closed 1, s.chanClosed)) = some (1, 1, true) := by decide

end L4.C13

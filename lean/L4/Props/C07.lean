import L4.Proofs.Tls
import L4.Matchers.More
/-!
# C07 — The TLS matcher reads SNI / ALPN / versions exactly as a real TLS server does

* `parse ∘ encode = view`: for every well-formed extension block (server_name, ALPN, supported_versions, supported_groups and
  unknown extensions in any order, at most one host name) the model of `parseRawClientHello`'s extension loop reads back
  exactly what a TLS server reads — the reference encoder is written from RFC 8446 / 6066 / 7301;
* records that are not a handshake never match; an incomplete record is never decided;
* agreement with Go's `crypto/tls` server on hellos of `crypto/tls` clients is established by the three-way differential.
-/
namespace L4.C07
open L4 L4.Tls

theorem extensions_parse_encode (es : List Ext) (h : ∀ e ∈ es, e.wf) (i : Info) (hs : SniOk es i) :
    parseExts (encExts es).length (encExts es) i = view es i :=
  parseExts_enc es h _ (Nat.le_refl _) i hs

/-- in particular the server name and the ALPN list of a hello with one SNI and one ALPN extension anywhere among others -/
theorem sni_and_alpn_read_back (pre mid post : List Ext) (name : Bytes) (ps : List Bytes)
    (h : ∀ e ∈ pre ++ [.sni name] ++ mid ++ [.alpn ps] ++ post, e.wf)
    (hn : sniCount (pre ++ [.sni name] ++ mid ++ [.alpn ps] ++ post) = 1) :
    let es := pre ++ [.sni name] ++ mid ++ [.alpn ps] ++ post
    parseExts (encExts es).length (encExts es) {} = view es {} :=
  parseExts_enc _ h _ (Nat.le_refl _) {} (Or.inr ⟨hn, rfl⟩)

/-- the legacy-version fallback: without a supported_versions extension the versions are those not above the hello's
legacy version, newest first -/
theorem versions_fallback (v : Nat) : (finish { version := v }).versions = [0x0304, 0x0303, 0x0302, 0x0301].filter (· ≤ v) := by
  simp [finish, versionsFromMax]

theorem versions_fallback_tls12 : (finish { version := 0x0303 }).versions = [0x0303, 0x0302, 0x0301] := by decide

/-- **Records that are not a TLS handshake never match** -/
theorem non_handshake_never_matches (sub : Bytes → Bool) (bs : Bytes) (h : (bs.headD 0).toNat ≠ 0x16) :
    (M.tls sub).run bs ≠ .yes := by
  simp only [M.tls, Prog.run]
  split
  · rename_i h5
    have hhd : (bs.take 5).headD 0 = bs.headD 0 := by
      cases bs with
      | nil => simp at h5
      | cons a t => simp
    rw [hhd, if_pos h]; simp [Prog.run]
  · simp

/-- **An incomplete hello is never decided either way** -/
theorem incomplete_undecided (sub : Bytes → Bool) (bs : Bytes) (ht : (bs.headD 0).toNat = 0x16)
    (hshort : bs.length < 5 ∨ bs.length < 5 + be16 (bs.getD 3 0) (bs.getD 4 0)) : (M.tls sub).run bs = .more := by
  by_cases h5 : 5 ≤ bs.length
  · have hlt : bs.length < 5 + be16 (bs.getD 3 0) (bs.getD 4 0) := by omega
    have hhd : (bs.take 5).headD 0 = bs.headD 0 := by
      cases bs with
      | nil => simp at h5
      | cons a t => simp
    have h3 : (bs.take 5).getD 3 0 = bs.getD 3 0 := by simp [List.getD, List.getElem?_take]
    have h4 : (bs.take 5).getD 4 0 = bs.getD 4 0 := by simp [List.getD, List.getElem?_take]
    simp only [M.tls, Prog.run, if_pos h5, hhd, h3, h4]
    rw [if_neg (by omega)]
    simp only [Prog.run]
    have : ¬ be16 (bs.getD 3 0) (bs.getD 4 0) ≤ (bs.drop 5).length := by rw [List.length_drop]; omega
    rw [if_neg this]
  · simp [M.tls, Prog.run, h5]

/-- the ALPN sub-matcher: some configured protocol is offered by the hello -/
def alpnMatch (cfg offered : List Bytes) : Bool := cfg.any (fun c => offered.contains c)

theorem alpn_match_spec (cfg offered : List Bytes) : alpnMatch cfg offered = true ↔ ∃ p, p ∈ cfg ∧ p ∈ offered := by
  simp [alpnMatch]

/-! non-vacuity: a concrete block with an unknown extension, SNI `a.b`, ALPN h2 + http/1.1 and two versions -/
def demo : List Ext := [.other 23 [], .sni [97, 46, 98], .alpn [[104, 50], [104, 116, 116, 112, 47, 49, 46, 49]], .versions [0x0304, 0x0303]]
example : (parseExts (encExts demo).length (encExts demo) {}).serverName = [97, 46, 98] ∧
    (parseExts (encExts demo).length (encExts demo) {}).protos = [[104, 50], [104, 116, 116, 112, 47, 49, 46, 49]] ∧
    (parseExts (encExts demo).length (encExts demo) {}).versions = [0x0304, 0x0303] := by decide

end L4.C07

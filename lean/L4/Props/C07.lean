import L4.Proofs.Tls
import L4.Matchers.More
/-!
# C07 — The TLS matcher reads SNI / ALPN / versions exactly as a real TLS server does

* `parse ∘ encode = view`: for every well-formed extension block (server_name, ALPN, supported_versions, supported_groups and
  unknown extensions in any order, at most one host name) the model of `parseRawClientHello`'s extension loop reads back
  exactly what a TLS server reads — the reference encoder is written from RFC 8446 / 6066 / 7301;
* records that are not a handshake never match; an incomplete record is never decided;
* agreement with Go's `crypto/tls` server on hellos of `crypto/tls` clients is established by the three-way differential.
-/
namespace L4.C07
open L4 L4.Tls

theorem extensions_parse_encode (es : List Ext) (h : ∀ e ∈ es, e.wf) (i : Info) (hs : SniOk es i) :
    parseExts (encExts es).length (encExts es) i = view es i :=
  parseExts_enc es h _ (Nat.le_refl _) i hs

/-- in particular the server name and the ALPN list of a hello with one SNI and one ALPN extension anywhere among others -/
theorem sni_and_alpn_read_back (pre mid post : List Ext) (name : Bytes) (ps : List Bytes)
    (h : ∀ e ∈ pre ++ [.sni name] ++ mid ++ [.alpn ps] ++ post, e.wf)
    (hn : sniCount (pre ++ [.sni name] ++ mid ++ [.alpn ps] ++ post) = 1) :
    let es := pre ++ [.sni name] ++ mid ++ [.alpn ps] ++ post
    parseExts (encExts es).length (encExts es) {} = view es {} :=
  parseExts_enc _ h _ (Nat.le_refl _) {} (Or.inr ⟨hn, rfl⟩)

/-- reference encoder of a ClientHello handshake message (RFC 8446 §4.1.2): type, uint24 length, legacy_version, random,
legacy_session_id, cipher_suites, legacy_compression_methods, extensions -/
def encHello (len3 : Bytes) (ver : Nat) (random sid : Bytes) (suites : List Nat) (comp : Bytes) (es : List Ext) : Bytes :=
  (1 :: len3) ++ (be16b ver ++ (random ++ (encLP8 sid ++ (encLP16 (encU16s suites) ++ (encLP8 comp ++ encLP16 (encExts es))))))

/-- **The whole hello**: for every well-formed ClientHello — any legacy version, random, session id, cipher-suite list,
compression list and well-formed extension block — the parser reads the legacy version, the cipher suites and exactly
what a TLS server reads from the extensions (then applies the legacy-version fallback) -/
theorem hello_parse_encode (len3 : Bytes) (ver : Nat) (random sid : Bytes) (suites : List Nat) (comp : Bytes) (es : List Ext)
    (hl3 : len3.length = 3) (hv : ver < 65536) (hr : random.length = 32) (hsid : sid.length < 256)
    (hsu : ∀ v ∈ suites, v < 65536) (hsl : suites.length < 32768) (hc : comp.length < 256)
    (hes : ∀ e ∈ es, e.wf) (hel : (encExts es).length < 65536) (hs : sniCount es ≤ 1) :
    parseHello (encHello len3 ver random sid suites comp es) =
      finish (view es { version := ver, suites := suites }) := by
  unfold parseHello encHello
  have h4 : (1 :: len3).length = 4 := by simp [hl3]
  have r4 := readN_append (1 :: len3) (be16b ver ++ (random ++ (encLP8 sid ++ (encLP16 (encU16s suites) ++ (encLP8 comp ++ encLP16 (encExts es))))))
  rw [h4] at r4
  rw [r4]
  simp only []
  rw [readU16_be16 ver hv]
  simp only []
  have r32 := readN_append random (encLP8 sid ++ (encLP16 (encU16s suites) ++ (encLP8 comp ++ encLP16 (encExts es))))
  rw [hr] at r32
  rw [r32]
  simp only []
  rw [readLP8_enc sid _ hsid]
  simp only []
  rw [readLP16_enc (encU16s suites) _ (by rw [encU16s_length]; omega)]
  simp only []
  rw [u16List_enc suites hsu _ (Nat.le_refl _) []]
  simp only [List.nil_append, Bool.not_true, Bool.false_eq_true, ↓reduceIte]
  rw [readLP8_enc comp _ hc]
  simp only []
  have hne : (encLP16 (encExts es)).isEmpty = false := by simp [encLP16, be16b]
  rw [hne]
  simp only [Bool.false_eq_true, ↓reduceIte]
  have rl := readLP16_enc (encExts es) [] hel
  rw [List.append_nil] at rl
  rw [rl]
  simp only [List.isEmpty_nil, Bool.not_true, Bool.false_eq_true, ↓reduceIte]
  congr 1
  apply extensions_parse_encode es hes
  by_cases h0 : sniCount es = 0
  · exact Or.inl h0
  · exact Or.inr ⟨by omega, rfl⟩


/-- the legacy-version fallback: without a supported_versions extension the versions are those not above the hello's
legacy version, newest first -/
theorem versions_fallback (v : Nat) : (finish { version := v }).versions = [0x0304, 0x0303, 0x0302, 0x0301].filter (· ≤ v) := by
  simp [finish, versionsFromMax]

theorem versions_fallback_tls12 : (finish { version := 0x0303 }).versions = [0x0303, 0x0302, 0x0301] := by decide

/-- **Records that are not a TLS handshake never match** -/
theorem non_handshake_never_matches (sub : Bytes → Bool) (bs : Bytes) (h : (bs.headD 0).toNat ≠ 0x16) :
    (M.tls sub).run bs ≠ .yes := by
  simp only [M.tls, Prog.run]
  split
  · rename_i h5
    have hhd : (bs.take 5).headD 0 = bs.headD 0 := by
      cases bs with
      | nil => simp at h5
      | cons a t => simp
    rw [hhd, if_pos h]; simp [Prog.run]
  · simp

/-- **An incomplete hello is never decided either way** -/
theorem incomplete_undecided (sub : Bytes → Bool) (bs : Bytes) (ht : (bs.headD 0).toNat = 0x16)
    (hshort : bs.length < 5 ∨ bs.length < 5 + be16 (bs.getD 3 0) (bs.getD 4 0)) : (M.tls sub).run bs = .more := by
  by_cases h5 : 5 ≤ bs.length
  · have hlt : bs.length < 5 + be16 (bs.getD 3 0) (bs.getD 4 0) := by omega
    have hhd : (bs.take 5).headD 0 = bs.headD 0 := by
      cases bs with
      | nil => simp at h5
      | cons a t => simp
    have h3 : (bs.take 5).getD 3 0 = bs.getD 3 0 := by simp [List.getD, List.getElem?_take]
    have h4 : (bs.take 5).getD 4 0 = bs.getD 4 0 := by simp [List.getD, List.getElem?_take]
    simp only [M.tls, Prog.run, if_pos h5, hhd, h3, h4]
    rw [if_neg (by omega)]
    simp only [Prog.run]
    have : ¬ be16 (bs.getD 3 0) (bs.getD 4 0) ≤ (bs.drop 5).length := by rw [List.length_drop]; omega
    rw [if_neg this]
  · simp [M.tls, Prog.run, h5]

/-- the ALPN sub-matcher: some configured protocol is offered by the hello -/
def alpnMatch (cfg offered : List Bytes) : Bool := cfg.any (fun c => offered.contains c)

theorem alpn_match_spec (cfg offered : List Bytes) : alpnMatch cfg offered = true ↔ ∃ p, p ∈ cfg ∧ p ∈ offered := by
  simp [alpnMatch]

/-! non-vacuity: a concrete block with an unknown extension, SNI `a.b`, ALPN h2 + http/1.1 and two versions -/
def demo : List Ext := [.other 23 [], .sni [97, 46, 98], .alpn [[104, 50], [104, 116, 116, 112, 47, 49, 46, 49]], .versions [0x0304, 0x0303]]
example : (parseExts (encExts demo).length (encExts demo) {}).serverName = [97, 46, 98] ∧
    (parseExts (encExts demo).length (encExts demo) {}).protos = [[104, 50], [104, 116, 116, 112, 47, 49, 46, 49]] ∧
    (parseExts (encExts demo).length (encExts demo) {}).versions = [0x0304, 0x0303] := by decide

/-! non-vacuity of `hello_parse_encode`: a concrete hello meets its hypotheses and is read back -/
def demoExts : List Ext := [.sni [97, 46, 98], .alpn [[104, 50]], .versions [0x0304, 0x0303]]

example : (∀ e ∈ demoExts, e.wf) ∧ (encExts demoExts).length < 65536 ∧ sniCount demoExts ≤ 1 := by
  refine ⟨?_, by decide, by decide⟩
  intro e he
  simp only [demoExts, List.mem_cons, List.mem_nil_iff, or_false] at he
  rcases he with rfl | rfl | rfl <;> simp [Ext.wf, encProtos, encLP8]

example : (parseHello (encHello [0, 0, 0] 0x0303 (List.replicate 32 7) [] [0x1301, 0xc02f] [0] demoExts)).serverName = [97, 46, 98] := by
  decide +kernel


end L4.C07

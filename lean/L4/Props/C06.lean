import L4.Proofs.Conn
import L4.Matchers.Small
import L4.Matchers.Winbox
import L4.Proofs.Winbox
import L4.Matchers.Rdp
import L4.Proofs.Rdp
import L4.Matchers.Wireguard
import L4.Matchers.More
/-!
# C06 — Matchers are pure functions of the prefix, insensitive to fragmentation

* purity: between `freeze` and `unfreeze` no read pattern whatsoever reaches the underlying connection or changes the
  buffer, and `unfreeze` restores the cursor (any matcher, shipped or third-party);
* verdict stability and fragmentation safety, proved once for **every** `ReadFull`-only matcher program and instantiated
  for ssh, xmpp, postgres, socks4, socks5, proxy_protocol, regexp, tls;
* the exact-length matchers (rdp, dns/tcp, openvpn/tcp, winbox) reject trailing data by design (`yes` is not stable), but
  fragmentation safety and the finality of `no` hold for each of them and are proved separately, for every configuration and
  input; the WinBox matcher of the previous revision violated the former (witness below).
-/
namespace L4.C06
open L4 L4.M L4.Prog

/-- **Purity**: whatever reads a matcher performs in matching mode, the socket is never read, the buffer is unchanged, and
`unfreeze` puts the cursor back: later matchers and handlers see exactly what they would have seen. -/
theorem matcher_cannot_disturb (buf : Bytes) (off fr : Nat) (inner : Src) (reads : List Nat) (ho : off ≤ buf.length) :
    (((Src.l4 buf off fr false inner).freeze.reads reads).2).unfreeze = .l4 buf off off false inner :=
  freeze_reads_unfreeze buf off fr inner reads ho

/-- … and in matching mode every single read leaves the underlying connection untouched -/
theorem matching_read_keeps_socket (buf : Bytes) (off fr : Nat) (inner : Src) (n : Nat) (ho : off ≤ buf.length) :
    ∃ off', ((Src.l4 buf off fr true inner).read n).2 = .l4 buf off' fr true inner :=
  let ⟨o, _, h⟩ := read_matching buf off fr inner n ho; ⟨o, h⟩

/-- **Determinism**: the verdict is a function of the available bytes (definitional for programs) -/
theorem deterministic (p : Prog) (bs : Bytes) : p.run bs = p.run bs := rfl

/-- **Stability** for every `ReadFull`-only program: a decided verdict never changes when more bytes arrive -/
theorem verdict_stable (p : Prog) (hp : p.onlyReadFull) (pre ext : Bytes) (h : p.run pre ≠ .more) :
    p.run (pre ++ ext) = p.run pre := run_stable p hp pre ext h

/-- a `no` on a prefix remains `no` on every longer prefix -/
theorem no_stays_no (p : Prog) (hp : p.onlyReadFull) (pre ext : Bytes) (h : p.run pre = .no) :
    p.run (pre ++ ext) = .no := no_stable p hp pre ext h

/-- a message that matches whole is never rejected on a fragment: the matcher asks for more (or already says yes) -/
theorem fragments_not_rejected (p : Prog) (hp : p.onlyReadFull) (pre ext : Bytes) (h : p.run (pre ++ ext) = .yes) :
    p.run pre = .more ∨ p.run pre = .yes := frag_safe p hp pre ext h

/-! ### the shipped `ReadFull`-only matchers -/
theorem ofRes_orf (r : Res Verdict) : (ofRes r).onlyReadFull := by
  cases r <;> trivial

theorem ssh_orf : ssh.onlyReadFull := fun _ => trivial
theorem xmpp_orf : xmpp.onlyReadFull := fun _ => trivial
theorem proxyProto_orf : proxyProto.onlyReadFull := fun _ => trivial
theorem regexp_orf (c : Nat) (re : Bytes → Bool) : (regexp c re).onlyReadFull := fun _ => trivial
theorem socks4_orf (cfg : Socks4Cfg) : (socks4 cfg).onlyReadFull := by
  intro b; exact ofRes_orf _
theorem socks5_orf (ms : List Nat) : (socks5 ms).onlyReadFull := by
  intro v; simp only []; split
  · trivial
  · intro n m; trivial
theorem postgres_orf : postgres.onlyReadFull := by
  intro h; simp only []; split
  · trivial
  · intro d; exact ofRes_orf _
theorem tls_orf (sub : Bytes → Bool) : (tls sub).onlyReadFull := by
  intro h; simp only []; split
  · trivial
  · intro r; trivial

/-- all eight at once: decided verdicts are stable, `no` stays `no`, fragments of matching messages are not rejected -/
theorem shipped_readfull_matchers_fragment_safe (cfg4 : Socks4Cfg) (ms : List Nat) (c : Nat) (re sub : Bytes → Bool)
    (p : Prog) (hp : p ∈ [ssh, xmpp, proxyProto, regexp c re, socks4 cfg4, socks5 ms, postgres, tls sub])
    (pre ext : Bytes) :
    (p.run pre ≠ .more → p.run (pre ++ ext) = p.run pre) ∧
    (p.run (pre ++ ext) = .yes → p.run pre = .more ∨ p.run pre = .yes) := by
  have horf : p.onlyReadFull := by
    simp only [List.mem_cons, List.mem_nil_iff, or_false] at hp
    rcases hp with h | h | h | h | h | h | h | h <;> subst h
    · exact ssh_orf
    · exact xmpp_orf
    · exact proxyProto_orf
    · exact regexp_orf c re
    · exact socks4_orf cfg4
    · exact socks5_orf ms
    · exact postgres_orf
    · exact tls_orf sub
  exact ⟨run_stable p horf pre ext, frag_safe p horf pre ext⟩

/-- the TLS matcher never decides an incomplete record either way -/
theorem tls_incomplete_undecided (sub : Bytes → Bool) (bs : Bytes) (h5 : 5 ≤ bs.length) (ht : (bs.headD 0).toNat = 0x16)
    (hshort : bs.length < 5 + be16 (bs.getD 3 0) (bs.getD 4 0)) : (tls sub).run bs = .more := by
  have hhd : (bs.take 5).headD 0 = bs.headD 0 := by
    cases bs with
    | nil => simp at h5
    | cons a t => simp
  have h3 : (bs.take 5).getD 3 0 = bs.getD 3 0 := by simp [List.getD, List.getElem?_take]
  have h4 : (bs.take 5).getD 4 0 = bs.getD 4 0 := by simp [List.getD, List.getElem?_take]
  simp only [tls, Prog.run, if_pos h5, hhd, h3, h4]
  rw [if_neg (by omega)]
  simp only [Prog.run]
  have : ¬ be16 (bs.getD 3 0) (bs.getD 4 0) ≤ (bs.drop 5).length := by rw [List.length_drop]; omega
  rw [if_neg this]

/-! ### exact-length matchers: by design `yes` is not stable (trailing data is rejected) -/

set_option maxRecDepth 100000 in
/-- WireGuard (datagrams): exactly 148 or 32 bytes match, anything longer does not -/
example : (Wireguard.matcher 0).run ([1, 0, 0, 0] ++ List.replicate 144 0) = .yes ∧
    (Wireguard.matcher 0).run ([1, 0, 0, 0] ++ List.replicate 145 0) = .no := by
  constructor <;> decide +kernel

/-! ### WinBox: one or two chunks, read with `io.ReadAtLeast` -/

/-- **WinBox, fragmentation safety**: a message that matches when delivered whole is never rejected on a proper prefix —
the matcher asks for more data (every configuration, every byte string, one- and two-chunk messages). -/
theorem winbox_fragment_safe (cfg : Winbox.Cfg) (bs : Bytes) (h : (Winbox.matcher cfg).run bs = .yes)
    (k : Nat) (hk : k < bs.length) : (Winbox.matcher cfg).run (bs.take k) = .more := by
  rw [Winbox.run_eq_verdict] at h ⊢
  exact Winbox.verdict_fragment_safe cfg bs h k hk

/-- **WinBox, `no` is final**: a `no` on some prefix remains `no` on every longer prefix -/
theorem winbox_no_stable (cfg : Winbox.Cfg) (pre ext : Bytes) (h : (Winbox.matcher cfg).run pre = .no) :
    (Winbox.matcher cfg).run (pre ++ ext) = .no := by
  rw [Winbox.run_eq_verdict] at h ⊢
  exact Winbox.verdict_no_stable cfg pre ext h

/-- a two-chunk message: the user name has 222 bytes (payload 256 bytes = one full chunk + one byte) -/
def winboxCfg : Winbox.Cfg := { standard := true, romon := true, username := [], hasRe := false, re := fun _ => true }
def winboxTwoChunk : Bytes :=
  [255, 6] ++ List.replicate 222 97 ++ [0] ++ List.replicate 32 7 ++ [255 - 254, 255] ++ [1]

set_option maxRecDepth 100000 in
/-- non-vacuity: the two-chunk message matches, so `winbox_fragment_safe` speaks about its 259 proper prefixes -/
example : (Winbox.matcher winboxCfg).run winboxTwoChunk = .yes := by decide +kernel

set_option maxRecDepth 100000 in
/-- **Witness of the repaired defect**: the matcher of the previous revision accepted the whole two-chunk message but
answered `no` on its 258-byte prefix (second chunk header seen, body missing); the current one answers "need more". -/
theorem winbox_fragment_rejected_before_repair :
    (Winbox.matcherOld winboxCfg).run winboxTwoChunk = .yes ∧
    (Winbox.matcherOld winboxCfg).run (winboxTwoChunk.take 258) = .no ∧
    (Winbox.matcher winboxCfg).run (winboxTwoChunk.take 258) = .more := by
  refine ⟨?_, ?_, ?_⟩ <;> decide +kernel

section
open L4.Gen


/-! ### the exact-length matchers over TCP: dns and rdp -/

/-- **DNS over TCP, fragmentation safety**: a framed message that matches is answered "need more" on every proper prefix
(whatever `dns.Msg.Unpack` and the allow / deny lists say) -/
theorem dnsTcp_fragment_safe (cfg : DnsCfg) (unpack : Bytes → Option DnsMsg) (bs : Bytes)
    (h : dnsTcp cfg unpack bs = .yes) (k : Nat) (hk : k < bs.length) : dnsTcp cfg unpack (bs.take k) = .more := by
  unfold dnsTcp at h ⊢
  split at h
  · cases h
  rename_i hl
  simp only [] at h
  split at h
  · cases h
  rename_i hn
  split at h
  · cases h
  rename_i hr1
  split at h
  · cases h
  rename_i hr2
  have hlen : (bs.drop 2).length = bs.length - 2 := List.length_drop
  by_cases hk2 : k < 2
  · rw [if_pos (by rw [List.length_take]; omega)]
  · have hlk : (bs.take k).length = k := by rw [List.length_take]; omega
    rw [if_neg (by omega)]
    have g0 : (bs.take k).getD 0 0 = bs.getD 0 0 := by
      simp only [List.getD_eq_getElem?_getD]; rw [List.getElem?_take_of_lt (by omega)]
    have g1 : (bs.take k).getD 1 0 = bs.getD 1 0 := by
      simp only [List.getD_eq_getElem?_getD]; rw [List.getElem?_take_of_lt (by omega)]
    simp only [g0, g1]
    rw [if_neg hn]
    have hd : ((bs.take k).drop 2).length = k - 2 := by rw [List.length_drop, hlk]
    rw [hd, if_pos (by omega)]

/-- **DNS over TCP, `no` is final** -/
theorem dnsTcp_no_stable (cfg : DnsCfg) (unpack : Bytes → Option DnsMsg) (pre ext : Bytes)
    (h : dnsTcp cfg unpack pre = .no) : dnsTcp cfg unpack (pre ++ ext) = .no := by
  cases ext with
  | nil => simpa using h
  | cons e es =>
  unfold dnsTcp at h ⊢
  split at h
  · cases h
  rename_i hl
  rw [if_neg (by rw [List.length_append]; omega)]
  have g0 : (pre ++ e :: es).getD 0 0 = pre.getD 0 0 := by
    simp only [List.getD_eq_getElem?_getD]; rw [List.getElem?_append_left (by omega)]
  have g1 : (pre ++ e :: es).getD 1 0 = pre.getD 1 0 := by
    simp only [List.getD_eq_getElem?_getD]; rw [List.getElem?_append_left (by omega)]
  simp only [g0, g1] at h ⊢
  split at h
  · rename_i hn; rw [if_pos hn]
  rename_i hn
  rw [if_neg hn]
  split at h
  · cases h
  rename_i hr1
  have hd : ((pre ++ e :: es).drop 2).length = (pre.drop 2).length + es.length + 1 := by
    rw [List.length_drop, List.length_append, List.length_drop, List.length_cons]; omega
  rw [hd, if_neg (by omega), if_pos (by omega)]

/-- **RDP, fragmentation safety** (every configuration) -/
theorem rdp_fragment_safe (cfg : Rdp.Cfg) (bs : Bytes) (h : Rdp.matcher cfg bs = .yes) (k : Nat) (hk : k < bs.length) :
    Rdp.matcher cfg (bs.take k) = .more := by
  unfold Rdp.matcher at h ⊢
  split at h
  · cases h
  rename_i hl
  by_cases hk2 : k < l4rdp_RDPConnReqBytesMin
  · rw [if_pos (by rw [List.length_take]; omega)]
  · have hlk : (bs.take k).length = k := by rw [List.length_take]; omega
    rw [if_neg (by omega)]
    have ht : (bs.take k).take l4rdp_RDPConnReqBytesMin = bs.take l4rdp_RDPConnReqBytesMin := by
      rw [List.take_take]; congr 1; omega
    rw [ht]
    cases hh : Rdp.header (bs.take l4rdp_RDPConnReqBytesMin) with
    | panic s => rw [hh] at h; cases h
    | err c => rw [hh] at h; cases h
    | ok r =>
      rw [hh] at h
      cases r with
      | none => cases h
      | some n =>
        simp only [] at h ⊢
        split at h
        · cases h
        rename_i hr
        -- the whole input ends exactly with the announced payload: a trailing byte would have been rejected
        have hex : (bs.drop l4rdp_RDPConnReqBytesMin).length = n := by
          apply Classical.byContradiction
          intro hne
          have hp : Rdp.probe1 ((bs.drop l4rdp_RDPConnReqBytesMin).drop n) = true := by
            simp only [Rdp.probe1, List.length_drop, decide_eq_true_eq]
            simp only [List.length_drop] at hr hne
            omega
          rw [hp] at h
          unfold Rdp.body at h
          simp at h
        have hd : ((bs.take k).drop l4rdp_RDPConnReqBytesMin).length = k - l4rdp_RDPConnReqBytesMin := by
          rw [List.length_drop, hlk]
        rw [hd, if_pos (by simp only [List.length_drop] at hex; omega)]

/-- **RDP, `no` is final** (every configuration) -/
theorem rdp_no_stable (cfg : Rdp.Cfg) (pre ext : Bytes) (h : Rdp.matcher cfg pre = .no) :
    Rdp.matcher cfg (pre ++ ext) = .no := by
  cases ext with
  | nil => simpa using h
  | cons e es =>
  unfold Rdp.matcher at h ⊢
  split at h
  · cases h
  rename_i hl
  rw [if_neg (by rw [List.length_append]; omega)]
  have ht : (pre ++ e :: es).take l4rdp_RDPConnReqBytesMin = pre.take l4rdp_RDPConnReqBytesMin :=
    List.take_append_of_le_length (by omega)
  rw [ht]
  cases hh : Rdp.header (pre.take l4rdp_RDPConnReqBytesMin) with
  | panic s => rw [hh] at h; cases h
  | err c => rw [hh] at h; cases h
  | ok r =>
    rw [hh] at h
    cases r with
    | none => rfl
    | some n =>
      simp only [] at h ⊢
      split at h
      · cases h
      rename_i hr
      have hd : (pre ++ e :: es).drop l4rdp_RDPConnReqBytesMin = pre.drop l4rdp_RDPConnReqBytesMin ++ e :: es :=
        List.drop_append_of_le_length (by omega)
      rw [hd]
      rw [if_neg (by rw [List.length_append]; omega)]
      have hp : Rdp.probe1 ((pre.drop l4rdp_RDPConnReqBytesMin ++ e :: es).drop n) = true := by
        simp only [Rdp.probe1, List.length_drop, List.length_append, List.length_cons, decide_eq_true_eq]
        simp only [List.length_drop] at hr
        omega
      rw [hp]
      unfold Rdp.body
      simp




theorem ral_exact (c : Nat) (hc : 0 < c) (k' : Bytes → Prog) (rest : Bytes)
    (h : (Prog.readAtLeast (c + 1) c fun b => if b.length > c then .ret .no else k' b).run rest = .yes) :
    rest.length = c := by
  simp only [Prog.run] at h
  rw [if_neg (by omega), if_neg (by omega)] at h
  split at h
  · rename_i hm
    by_cases hgt : c < rest.length
    · have : (rest.take (min (c + 1) rest.length)).length > c := by rw [List.length_take]; omega
      rw [if_pos this] at h
      simp [Prog.run] at h
    · omega
  · cases h

theorem ral_prefix (c : Nat) (hc : 0 < c) (kk : Bytes → Prog) (rest : Bytes) (h : rest.length < c) :
    (Prog.readAtLeast (c + 1) c kk).run rest = .more := by
  simp only [Prog.run]
  rw [if_neg (by omega), if_neg (by omega), if_neg (by omega)]

/-- what the TCP framing of a matching OpenVPN message looks like, and what its proper prefixes get -/
theorem ovpnBody_tcp_exact (cfg : OvpnCfg) (l : Nat) (op : UInt8) (hl : l4openvpn_MessagePlainBytesTotal ≤ l) (rest : Bytes)
    (h : (ovpnBody cfg true l op).run rest = .yes) :
    rest.length = l - 1 ∧ ∀ j, j < rest.length → (ovpnBody cfg true l op).run (rest.take j) = .more := by
  have hl' : 0 < l - 1 := by simp only [l4openvpn_MessagePlainBytesTotal] at hl; omega
  unfold ovpnBody at h ⊢
  simp only [] at h ⊢
  split at h
  · simp [Prog.run] at h
  rename_i hk
  rw [if_neg hk]
  split at h
  · rename_i hv2
    rw [if_pos hv2]
    simp only [↓reduceIte] at h ⊢
    split at h
    · simp [Prog.run] at h
    rename_i hmax
    rw [if_neg hmax]
    have := ral_exact (l - 1) hl' _ rest h
    refine ⟨this, fun j hj => ral_prefix (l - 1) hl' _ _ (by rw [List.length_take]; omega)⟩
  · rename_i hv2
    rw [if_neg hv2]
    unfold ovpnV3 at h ⊢
    split at h
    · rename_i hv3
      rw [if_pos hv3]
      simp only [↓reduceIte] at h ⊢
      split at h
      · simp [Prog.run] at h
      rename_i hmin
      rw [if_neg hmin]
      have := ral_exact (l - 1) hl' _ rest h
      refine ⟨this, fun j hj => ral_prefix (l - 1) hl' _ _ (by rw [List.length_take]; omega)⟩
    · simp [Prog.run] at h

/-- **OpenVPN over TCP, fragmentation safety** (every mode combination, any keyed-mode verifier) -/
theorem openvpnTcp_fragment_safe (cfg : OvpnCfg) (bs : Bytes) (h : (openvpn cfg true).run bs = .yes)
    (k : Nat) (hk : k < bs.length) : (openvpn cfg true).run (bs.take k) = .more := by
  unfold openvpn at h ⊢
  simp only [↓reduceIte, Prog.run] at h ⊢
  have h2 : l4openvpn_LengthBytesTotal = 2 := rfl
  split at h
  · rename_i hl2
    split at h
    · simp [Prog.run] at h
    rename_i hrange
    simp only [Prog.run] at h
    split at h
    · rename_i hl3
      have hb := ovpnBody_tcp_exact cfg _ _ (by omega) _ h
      by_cases hk2 : k < l4openvpn_LengthBytesTotal
      · rw [if_neg (by rw [List.length_take]; omega)]
      · have hlk : (bs.take k).length = k := by rw [List.length_take]; omega
        rw [if_pos (by omega)]
        have ht : (bs.take k).take l4openvpn_LengthBytesTotal = bs.take l4openvpn_LengthBytesTotal := by
          rw [List.take_take]; congr 1; omega
        rw [ht, if_neg hrange]
        simp only [Prog.run]
        have hd : (bs.take k).drop l4openvpn_LengthBytesTotal = (bs.drop l4openvpn_LengthBytesTotal).take (k - l4openvpn_LengthBytesTotal) := by
          rw [List.drop_take]
        rw [hd]
        have hdl : ((bs.drop l4openvpn_LengthBytesTotal).take (k - l4openvpn_LengthBytesTotal)).length = k - l4openvpn_LengthBytesTotal := by
          rw [List.length_take, List.length_drop]; omega
        by_cases hk3 : 1 ≤ k - l4openvpn_LengthBytesTotal
        · rw [if_pos (by omega)]
          have ht1 : ((bs.drop l4openvpn_LengthBytesTotal).take (k - l4openvpn_LengthBytesTotal)).take 1 = (bs.drop l4openvpn_LengthBytesTotal).take 1 := by
            rw [List.take_take]; congr 1; omega
          have hd1 : ((bs.drop l4openvpn_LengthBytesTotal).take (k - l4openvpn_LengthBytesTotal)).drop 1 =
              ((bs.drop l4openvpn_LengthBytesTotal).drop 1).take (k - l4openvpn_LengthBytesTotal - 1) := by
            rw [List.drop_take]
          rw [ht1, hd1]
          apply hb.2
          rw [List.length_drop, List.length_drop]
          omega
        · rw [if_neg (by omega)]
    · cases h
  · cases h




theorem ral_no_stable (c : Nat) (hc : 0 < c) (k' : Bytes → Prog) (rest ext : Bytes)
    (h : (Prog.readAtLeast (c + 1) c fun b => if b.length > c then .ret .no else k' b).run rest = .no) :
    (Prog.readAtLeast (c + 1) c fun b => if b.length > c then .ret .no else k' b).run (rest ++ ext) = .no := by
  cases ext with
  | nil => simpa using h
  | cons e es =>
  simp only [Prog.run] at h ⊢
  rw [if_neg (by omega), if_neg (by omega)] at h ⊢
  split at h
  · rename_i hm
    have hl : (rest ++ e :: es).length = rest.length + es.length + 1 := by simp; omega
    rw [if_pos (by omega)]
    have : ((rest ++ e :: es).take (min (c + 1) (rest ++ e :: es).length)).length > c := by
      rw [List.length_take]; omega
    rw [if_pos this]
    simp [Prog.run]
  · cases h

theorem ovpnBody_tcp_no_stable (cfg : OvpnCfg) (l : Nat) (op : UInt8) (hl : l4openvpn_MessagePlainBytesTotal ≤ l)
    (rest ext : Bytes) (h : (ovpnBody cfg true l op).run rest = .no) : (ovpnBody cfg true l op).run (rest ++ ext) = .no := by
  have hl' : 0 < l - 1 := by simp only [l4openvpn_MessagePlainBytesTotal] at hl; omega
  unfold ovpnBody at h ⊢
  simp only [] at h ⊢
  split
  · simp [Prog.run]
  rename_i hk
  rw [if_neg hk] at h
  split
  · rename_i hv2
    rw [if_pos hv2] at h
    simp only [↓reduceIte] at h ⊢
    split
    · simp [Prog.run]
    rename_i hmax
    rw [if_neg hmax] at h
    exact ral_no_stable (l - 1) hl' _ rest ext h
  · rename_i hv2
    rw [if_neg hv2] at h
    unfold ovpnV3 at h ⊢
    split
    · rename_i hv3
      rw [if_pos hv3] at h
      simp only [↓reduceIte] at h ⊢
      split
      · simp [Prog.run]
      rename_i hmin
      rw [if_neg hmin] at h
      exact ral_no_stable (l - 1) hl' _ rest ext h
    · simp [Prog.run]

/-- **OpenVPN over TCP, `no` is final** -/
theorem openvpnTcp_no_stable (cfg : OvpnCfg) (pre ext : Bytes) (h : (openvpn cfg true).run pre = .no) :
    (openvpn cfg true).run (pre ++ ext) = .no := by
  unfold openvpn at h ⊢
  simp only [↓reduceIte, Prog.run] at h ⊢
  have h2 : l4openvpn_LengthBytesTotal = 2 := rfl
  split at h
  · rename_i hl2
    rw [if_pos (by rw [List.length_append]; omega)]
    have ht : (pre ++ ext).take l4openvpn_LengthBytesTotal = pre.take l4openvpn_LengthBytesTotal :=
      List.take_append_of_le_length hl2
    have hd : (pre ++ ext).drop l4openvpn_LengthBytesTotal = pre.drop l4openvpn_LengthBytesTotal ++ ext :=
      List.drop_append_of_le_length hl2
    rw [ht, hd]
    split
    · simp [Prog.run]
    rename_i hrange
    rw [if_neg hrange] at h
    simp only [Prog.run] at h ⊢
    split at h
    · rename_i hl3
      rw [if_pos (by rw [List.length_append]; omega)]
      have ht1 : (pre.drop l4openvpn_LengthBytesTotal ++ ext).take 1 = (pre.drop l4openvpn_LengthBytesTotal).take 1 :=
        List.take_append_of_le_length hl3
      have hd1 : (pre.drop l4openvpn_LengthBytesTotal ++ ext).drop 1 = (pre.drop l4openvpn_LengthBytesTotal).drop 1 ++ ext :=
        List.drop_append_of_le_length hl3
      rw [ht1, hd1]
      exact ovpnBody_tcp_no_stable cfg _ _ (by omega) _ ext h
    · cases h
  · cases h


end

end L4.C06

import L4.Proofs.Conn
import L4.Matchers.Small
import L4.Matchers.Winbox
import L4.Proofs.Winbox
import L4.Matchers.Wireguard
import L4.Matchers.More
/-!
# C06 — Matchers are pure functions of the prefix, insensitive to fragmentation

* purity: between `freeze` and `unfreeze` no read pattern whatsoever reaches the underlying connection or changes the
  buffer, and `unfreeze` restores the cursor (any matcher, shipped or third-party);
* verdict stability and fragmentation safety, proved once for **every** `ReadFull`-only matcher program and instantiated
  for ssh, xmpp, postgres, socks4, socks5, proxy_protocol, regexp, tls;
* the exact-length matchers (rdp, dns/tcp, openvpn/tcp, winbox) reject trailing data by design; for WinBox (the only
  matcher that reads with `io.ReadAtLeast`) fragmentation safety and the finality of `no` are proved separately, for every
  configuration and input; the matcher of the previous revision violated the former (witness below).
-/
namespace L4.C06
open L4 L4.M L4.Prog

/-- **Purity**: whatever reads a matcher performs in matching mode, the socket is never read, the buffer is unchanged, and
`unfreeze` puts the cursor back: later matchers and handlers see exactly what they would have seen. -/
theorem matcher_cannot_disturb (buf : Bytes) (off fr : Nat) (inner : Src) (reads : List Nat) (ho : off ≤ buf.length) :
    (((Src.l4 buf off fr false inner).freeze.reads reads).2).unfreeze = .l4 buf off off false inner :=
  freeze_reads_unfreeze buf off fr inner reads ho

/-- … and in matching mode every single read leaves the underlying connection untouched -/
theorem matching_read_keeps_socket (buf : Bytes) (off fr : Nat) (inner : Src) (n : Nat) (ho : off ≤ buf.length) :
    ∃ off', ((Src.l4 buf off fr true inner).read n).2 = .l4 buf off' fr true inner :=
  let ⟨o, _, h⟩ := read_matching buf off fr inner n ho; ⟨o, h⟩

/-- **Determinism**: the verdict is a function of the available bytes (definitional for programs) -/
theorem deterministic (p : Prog) (bs : Bytes) : p.run bs = p.run bs := rfl

/-- **Stability** for every `ReadFull`-only program: a decided verdict never changes when more bytes arrive -/
theorem verdict_stable (p : Prog) (hp : p.onlyReadFull) (pre ext : Bytes) (h : p.run pre ≠ .more) :
    p.run (pre ++ ext) = p.run pre := run_stable p hp pre ext h

/-- a `no` on a prefix remains `no` on every longer prefix -/
theorem no_stays_no (p : Prog) (hp : p.onlyReadFull) (pre ext : Bytes) (h : p.run pre = .no) :
    p.run (pre ++ ext) = .no := no_stable p hp pre ext h

/-- a message that matches whole is never rejected on a fragment: the matcher asks for more (or already says yes) -/
theorem fragments_not_rejected (p : Prog) (hp : p.onlyReadFull) (pre ext : Bytes) (h : p.run (pre ++ ext) = .yes) :
    p.run pre = .more ∨ p.run pre = .yes := frag_safe p hp pre ext h

/-! ### the shipped `ReadFull`-only matchers -/
theorem ofRes_orf (r : Res Verdict) : (ofRes r).onlyReadFull := by
  cases r <;> trivial

theorem ssh_orf : ssh.onlyReadFull := fun _ => trivial
theorem xmpp_orf : xmpp.onlyReadFull := fun _ => trivial
theorem proxyProto_orf : proxyProto.onlyReadFull := fun _ => trivial
theorem regexp_orf (c : Nat) (re : Bytes → Bool) : (regexp c re).onlyReadFull := fun _ => trivial
theorem socks4_orf (cfg : Socks4Cfg) : (socks4 cfg).onlyReadFull := by
  intro b; exact ofRes_orf _
theorem socks5_orf (ms : List Nat) : (socks5 ms).onlyReadFull := by
  intro v; simp only []; split
  · trivial
  · intro n m; trivial
theorem postgres_orf : postgres.onlyReadFull := by
  intro h; simp only []; split
  · trivial
  · intro d; exact ofRes_orf _
theorem tls_orf (sub : Bytes → Bool) : (tls sub).onlyReadFull := by
  intro h; simp only []; split
  · trivial
  · intro r; trivial

/-- all eight at once: decided verdicts are stable, `no` stays `no`, fragments of matching messages are not rejected -/
theorem shipped_readfull_matchers_fragment_safe (cfg4 : Socks4Cfg) (ms : List Nat) (c : Nat) (re sub : Bytes → Bool)
    (p : Prog) (hp : p ∈ [ssh, xmpp, proxyProto, regexp c re, socks4 cfg4, socks5 ms, postgres, tls sub])
    (pre ext : Bytes) :
    (p.run pre ≠ .more → p.run (pre ++ ext) = p.run pre) ∧
    (p.run (pre ++ ext) = .yes → p.run pre = .more ∨ p.run pre = .yes) := by
  have horf : p.onlyReadFull := by
    simp only [List.mem_cons, List.mem_nil_iff, or_false] at hp
    rcases hp with h | h | h | h | h | h | h | h <;> subst h
    · exact ssh_orf
    · exact xmpp_orf
    · exact proxyProto_orf
    · exact regexp_orf c re
    · exact socks4_orf cfg4
    · exact socks5_orf ms
    · exact postgres_orf
    · exact tls_orf sub
  exact ⟨run_stable p horf pre ext, frag_safe p horf pre ext⟩

/-- the TLS matcher never decides an incomplete record either way -/
theorem tls_incomplete_undecided (sub : Bytes → Bool) (bs : Bytes) (h5 : 5 ≤ bs.length) (ht : (bs.headD 0).toNat = 0x16)
    (hshort : bs.length < 5 + be16 (bs.getD 3 0) (bs.getD 4 0)) : (tls sub).run bs = .more := by
  have hhd : (bs.take 5).headD 0 = bs.headD 0 := by
    cases bs with
    | nil => simp at h5
    | cons a t => simp
  have h3 : (bs.take 5).getD 3 0 = bs.getD 3 0 := by simp [List.getD, List.getElem?_take]
  have h4 : (bs.take 5).getD 4 0 = bs.getD 4 0 := by simp [List.getD, List.getElem?_take]
  simp only [tls, Prog.run, if_pos h5, hhd, h3, h4]
  rw [if_neg (by omega)]
  simp only [Prog.run]
  have : ¬ be16 (bs.getD 3 0) (bs.getD 4 0) ≤ (bs.drop 5).length := by rw [List.length_drop]; omega
  rw [if_neg this]

/-! ### exact-length matchers: by design `yes` is not stable (trailing data is rejected) -/

set_option maxRecDepth 100000 in
/-- WireGuard (datagrams): exactly 148 or 32 bytes match, anything longer does not -/
example : (Wireguard.matcher 0).run ([1, 0, 0, 0] ++ List.replicate 144 0) = .yes ∧
    (Wireguard.matcher 0).run ([1, 0, 0, 0] ++ List.replicate 145 0) = .no := by
  constructor <;> decide +kernel

/-! ### WinBox: one or two chunks, read with `io.ReadAtLeast` -/

/-- **WinBox, fragmentation safety**: a message that matches when delivered whole is never rejected on a proper prefix —
the matcher asks for more data (every configuration, every byte string, one- and two-chunk messages). -/
theorem winbox_fragment_safe (cfg : Winbox.Cfg) (bs : Bytes) (h : (Winbox.matcher cfg).run bs = .yes)
    (k : Nat) (hk : k < bs.length) : (Winbox.matcher cfg).run (bs.take k) = .more := by
  rw [Winbox.run_eq_verdict] at h ⊢
  exact Winbox.verdict_fragment_safe cfg bs h k hk

/-- **WinBox, `no` is final**: a `no` on some prefix remains `no` on every longer prefix -/
theorem winbox_no_stable (cfg : Winbox.Cfg) (pre ext : Bytes) (h : (Winbox.matcher cfg).run pre = .no) :
    (Winbox.matcher cfg).run (pre ++ ext) = .no := by
  rw [Winbox.run_eq_verdict] at h ⊢
  exact Winbox.verdict_no_stable cfg pre ext h

/-- a two-chunk message: the user name has 222 bytes (payload 256 bytes = one full chunk + one byte) -/
def winboxCfg : Winbox.Cfg := { standard := true, romon := true, username := [], hasRe := false, re := fun _ => true }
def winboxTwoChunk : Bytes :=
  [255, 6] ++ List.replicate 222 97 ++ [0] ++ List.replicate 32 7 ++ [255 - 254, 255] ++ [1]

set_option maxRecDepth 100000 in
/-- non-vacuity: the two-chunk message matches, so `winbox_fragment_safe` speaks about its 259 proper prefixes -/
example : (Winbox.matcher winboxCfg).run winboxTwoChunk = .yes := by decide +kernel

set_option maxRecDepth 100000 in
/-- **Witness of the repaired defect**: the matcher of the previous revision accepted the whole two-chunk message but
answered `no` on its 258-byte prefix (second chunk header seen, body missing); the current one answers "need more". -/
theorem winbox_fragment_rejected_before_repair :
    (Winbox.matcherOld winboxCfg).run winboxTwoChunk = .yes ∧
    (Winbox.matcherOld winboxCfg).run (winboxTwoChunk.take 258) = .no ∧
    (Winbox.matcher winboxCfg).run (winboxTwoChunk.take 258) = .more := by
  refine ⟨?_, ?_, ?_⟩ <;> decide +kernel

end L4.C06

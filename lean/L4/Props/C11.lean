import L4.Proofs.Health
import L4.Gen.Facts
/-!
# C11 — Upstream health, failure windows, retries and limits are accounted exactly
Operational model `L4/Health.lean`; every theorem holds for every configuration and every history (list of operations:
time passing, client connections going through `Handle`'s retry loop, proxied connections ending, active checks, outages and
recoveries, planned or immediate).  The statement-level facts the model encodes are regenerated from modules/l4proxy.
-/
namespace L4.C11
open L4 L4.Health

theorem protocol_facts :
    Gen.fact_health_countFailure_returns_before_counting = 2 ∧
    Gen.fact_health_countFailure_counts_then_forgets_after_failDuration = true ∧
    Gen.fact_health_Handle_counts_conn_per_peer_after_dial_loop = true ∧
    Gen.fact_health_Handle_defers_uncount_per_peer = true ∧
    Gen.fact_health_dialPeers_never_counts_conns = true ∧
    Gen.fact_health_dialPeers_counts_failure_on_error = true ∧
    Gen.fact_health_tryAgain_gives_up_at_TryDuration_else_waits_TryInterval = true ∧
    Gen.fact_health_activeCheck_marks_down_on_dial_error_up_on_success = true := by decide

/-- **Failure window, exactly**: after any history, the failure count of a peer is the number of its dial failures that
happened less than `fail_duration` ago (`now − fail_duration < t ≤ now`); older ones have been forgotten, none twice. -/
theorem fails_is_window (c : Cfg) (ops : List Op) (p : Nat) :
    let s := run c {} ops
    s.fails p = ((s.flog.filter fun e => decide (s.now < e.2 + c.failDur)).countP (fun e => e.1 == p) : Int) ∧
    ∀ e ∈ s.flog, e.2 ≤ s.now := by
  intro s
  have inv := inv_run c {} ops (inv_init c)
  refine ⟨?_, inv.flog_past⟩
  rw [inv.fails_eq p, inv.pending_eq]
  have := cnt_map_window (window c s) c.failDur p
  simp only [cnt, window] at this ⊢
  rw [this]

/-- **Counts never go negative** -/
theorem counts_nonneg (c : Cfg) (ops : List Op) (p : Nat) : 0 ≤ (run c {} ops).fails p ∧ 0 ≤ (run c {} ops).conns p := by
  have inv := inv_run c {} ops (inv_init c)
  rw [inv.fails_eq p, inv.conns_eq p]
  exact ⟨Int.natCast_nonneg _, Int.natCast_nonneg _⟩

/-- the connection count of a peer is the number of proxied connections still open through upstreams that dial it -/
theorem conns_is_open_connections (c : Cfg) (ops : List Op) (p : Nat) :
    (run c {} ops).conns p = (((run c {} ops).opened.map fun u => (peersOf c u).count p).sum : Nat) :=
  (inv_run c {} ops (inv_init c)).conns_eq p

/-- **Out of rotation exactly while** some peer is marked down by the active checker or (passive checking with `max_fails`)
remembers at least `max_fails` failures from the last `fail_duration` -/
theorem out_of_rotation_iff (c : Cfg) (ops : List Op) (u : Nat) :
    let s := run c {} ops
    healthy c s u = false ↔
      (∃ p ∈ peersOf c u, s.unhealthy p = true) ∨
      (c.passive = true ∧ 0 < c.maxFails ∧ ∃ p ∈ peersOf c u,
        c.maxFails ≤ (s.flog.filter fun e => decide (s.now < e.2 + c.failDur)).countP (fun e => e.1 == p)) := by
  intro s
  have hw : ∀ p, s.fails p = ((s.flog.filter fun e => decide (s.now < e.2 + c.failDur)).countP (fun e => e.1 == p) : Int) :=
    fun p => (fails_is_window c ops p).1
  simp only [healthy, Bool.and_eq_false_iff, Bool.or_eq_false_iff, List.all_eq_false, Bool.not_eq_false', Bool.not_eq_true']
  constructor
  · rintro (⟨p, hp, h⟩ | ⟨h1, p, hp, h⟩)
    · left; exact ⟨p, hp, by simpa using h⟩
    · right
      simp only [Bool.and_eq_true, decide_eq_true_eq] at h1
      refine ⟨h1.1, h1.2, p, hp, ?_⟩
      have := hw p
      simp only [decide_eq_true_eq, Bool.not_eq_true, decide_eq_false_iff_not] at h
      show c.maxFails ≤ _
      have h' : ¬ (s.fails p < (c.maxFails : Int)) := by simpa using h
      rw [this] at h'
      omega
  · rintro (⟨p, hp, h⟩ | ⟨h1, h2, p, hp, h⟩)
    · left; exact ⟨p, hp, by simpa using h⟩
    · right
      refine ⟨by simp [h1, h2], p, hp, ?_⟩
      have := hw p
      have h' : ¬ (s.fails p < (c.maxFails : Int)) := by rw [this]; omega
      simpa using h'

/-- … **and returns afterwards**: once `fail_duration` has passed since a peer's last failure nothing is remembered -/
theorem forgotten_after_fail_duration (c : Cfg) (ops : List Op) (p : Nat)
    (h : ∀ e ∈ (run c {} ops).flog, e.1 = p → e.2 + c.failDur ≤ (run c {} ops).now) : (run c {} ops).fails p = 0 := by
  rw [(fails_is_window c ops p).1]
  have : ((run c {} ops).flog.filter fun e => decide ((run c {} ops).now < e.2 + c.failDur)).countP (fun e => e.1 == p) = 0 := by
    rw [List.countP_eq_zero]
    intro e he
    simp only [List.mem_filter, decide_eq_true_eq] at he
    intro hp
    have := h e he.1 (by simpa using hp)
    omega
  rw [this]; rfl

/-! ### active checks -/
theorem unhealthy_handleLoop (c : Cfg) (start fuel : Nat) (s : St) (err : Option Outcome) (att : List Nat) :
    (handleLoop c start fuel s err att).2.1.unhealthy = s.unhealthy := by
  have hcf : ∀ s p, (countFailure c s p).unhealthy = s.unhealthy := by
    intro s p; unfold countFailure; split <;> rfl
  have hdp : ∀ ps s, (dialPeers c s ps).2.unhealthy = s.unhealthy := by
    intro ps; induction ps with
    | nil => intro s; rfl
    | cons p ps ih => intro s; simp only [dialPeers]; split; exact ih s; exact hcf s p
  induction fuel generalizing s err att with
  | zero => rfl
  | succ n ih =>
    simp only [handleLoop]
    split
    · split
      · rfl
      · rw [ih]; rfl
    · rename_i u _
      have hd := hdp (peersOf c u) s
      split
      · rename_i s' heq; rw [heq] at hd; exact hd
      · rename_i s' heq; rw [heq] at hd
        split
        · exact hd
        · rw [ih]; exact hd

/-- **Active checks**: a check marks the peer down exactly when it refuses the connection, and nothing but a check of that
peer changes its mark — so a peer is marked down iff its last check found it refusing -/
theorem active_flag (c : Cfg) (s : St) (op : Op) (p : Nat) :
    (apply c s (.probe p)).unhealthy p = !s.up p ∧
    ((∀ q, op ≠ .probe q) → (apply c s op).unhealthy = s.unhealthy) ∧
    (∀ q, q ≠ p → (apply c s (.probe q)).unhealthy p = s.unhealthy p) := by
  refine ⟨by simp [apply, probe], ?_, ?_⟩
  · intro h
    cases op with
    | advance t => rfl
    | handle => exact unhealthy_handleLoop c _ _ s none []
    | close u => simp only [apply, closeConn]; split <;> rfl
    | probe q => exact absurd rfl (h q)
    | setUp q b => rfl
    | plan t q b => rfl
  · intro q hq; simp [apply, probe, Ne.symm hq]

/-! ### limits -/
theorem count_le_openCount (c : Cfg) (l : List Nat) (u p : Nat) (hp : p ∈ peersOf c u) :
    l.count u ≤ (l.map fun v => (peersOf c v).count p).sum := by
  induction l with
  | nil => simp
  | cons v l ih =>
    simp only [List.map_cons, List.sum_cons, List.count_cons]
    by_cases hv : v = u
    · subst hv
      have : 0 < (peersOf c v).count p := List.count_pos_iff.mpr hp
      simp; omega
    · have : (v == u) = false := by simp [hv]
      simp [this]; omega

def LimitOk (c : Cfg) (s : St) : Prop := ∀ u, maxOf c u ≠ 0 → peersOf c u ≠ [] → s.opened.count u ≤ maxOf c u

theorem limit_handleLoop (c : Cfg) (start fuel : Nat) (s : St) (err : Option Outcome) (att : List Nat)
    (hi : HInv c s) (hl : LimitOk c s) : LimitOk c (handleLoop c start fuel s err att).2.1 := by
  have hcf : ∀ s p, (countFailure c s p).opened = s.opened ∧ (countFailure c s p).conns = s.conns := by
    intro s p; unfold countFailure; split <;> exact ⟨rfl, rfl⟩
  have hdp : ∀ ps s, (dialPeers c s ps).2.opened = s.opened ∧ (dialPeers c s ps).2.conns = s.conns := by
    intro ps; induction ps with
    | nil => intro s; exact ⟨rfl, rfl⟩
    | cons p ps ih => intro s; simp only [dialPeers]; split; exact ih s; exact hcf s p
  induction fuel generalizing s err att with
  | zero => exact hl
  | succ n ih =>
    simp only [handleLoop]
    split
    · split
      · exact hl
      · exact ih _ _ _ (inv_advance c s _ hi) hl
    · rename_i u hsel
      have hd := hdp (peersOf c u) s
      have hdi := inv_dialPeers c s (peersOf c u) hi
      split
      · rename_i s' heq
        rw [heq] at hd hdi
        -- the selected upstream was available, hence not full
        have hav : available c s u = true := by
          have := List.find?_some hsel; exact this
        intro v hm hpe
        show (u :: s'.opened).count v ≤ maxOf c v
        rw [hd.1]
        by_cases hv : u = v
        · subst hv
          simp only [List.count_cons_self]
          -- not full: every peer has fewer than max connections, and each open connection to u counts on each of its peers
          obtain ⟨p, hp⟩ := List.exists_mem_of_ne_nil _ hpe
          have hnf : full c s u = false := by
            simp only [available, Bool.and_eq_true, Bool.not_eq_true'] at hav; exact hav.2
          simp only [full, Bool.and_eq_false_iff, decide_eq_false_iff_not, List.any_eq_false, Decidable.not_not] at hnf
          rcases hnf with h0 | hall
          · exact absurd h0 hm
          · have hlt := hall p hp
            simp only [decide_eq_true_eq] at hlt
            have hc := hi.conns_eq p
            have hle := count_le_openCount c s.opened u p hp
            simp only [openCount] at hc
            omega
        · have : (u == v) = false := by simp [hv]
          simp only [List.count_cons, this]
          exact hl v hm hpe
      · rename_i s' heq
        rw [heq] at hd hdi
        have hl' : LimitOk c s' := by intro v hm hpe; rw [hd.1]; exact hl v hm hpe
        split
        · exact hl'
        · exact ih _ _ _ (inv_advance c s' _ hdi) hl'

/-- **Limits**: after any history, an upstream with `max_connections` (or the inherited `unhealthy_connection_count`) never
has more open proxied connections than that: it is not given another one until one ends -/
theorem limit_respected (c : Cfg) (ops : List Op) (u : Nat) (hm : maxOf c u ≠ 0) (hp : peersOf c u ≠ []) :
    (run c {} ops).opened.count u ≤ maxOf c u := by
  suffices h : ∀ s, HInv c s → LimitOk c s → LimitOk c (run c s ops) from
    h {} (inv_init c) (by intro v _ _; simp) u hm hp
  induction ops with
  | nil => intro s _ hl; exact hl
  | cons op ops ih =>
    intro s hi hl
    refine ih _ (inv_apply c s op hi) ?_
    cases op with
    | advance t => exact hl
    | handle => exact limit_handleLoop c _ _ s none [] hi hl
    | close v =>
      intro w hm hpe
      simp only [apply, closeConn]
      split
      · exact Nat.le_trans (List.Sublist.count_le _ (List.erase_sublist)) (hl w hm hpe)
      · exact hl w hm hpe
    | probe q => exact hl
    | setUp q b => exact hl
    | plan t q b => exact hl

/-! ### limits under concurrent connections: the check-then-act window
`Handle` selects (checks `full`) and counts the connection only after the dial succeeded, so connections selected concurrently can
overshoot the limit.  The small system below has exactly that window (any number of clients between `select` and
`dialOk` / `dialFail`); the overshoot is bounded by the peak number of dials in flight, and there is none when connections
arrive one at a time. -/
structure LSt where
  conns : Nat := 0       -- counted (open proxied) connections of the upstream
  inflight : Nat := 0    -- selected, dial not finished
  peak : Nat := 0        -- ghost: the largest number of dials ever in flight at once

inductive LAct | select | dialOk | dialFail | close deriving DecidableEq

def lstep (lim : Nat) (s : LSt) : LAct → Option LSt
  | .select => if s.conns < lim then some { s with inflight := s.inflight + 1, peak := max s.peak (s.inflight + 1) } else none
  | .dialOk => if 0 < s.inflight then some { s with inflight := s.inflight - 1, conns := s.conns + 1 } else none
  | .dialFail => if 0 < s.inflight then some { s with inflight := s.inflight - 1 } else none
  | .close => if 0 < s.conns then some { s with conns := s.conns - 1 } else none

def lrun (lim : Nat) (s : LSt) : List LAct → Option LSt
  | [] => some s
  | a :: as => match lstep lim s a with
    | some s' => lrun lim s' as
    | none => none

theorem limit_overshoot_bounded_by_inflight (lim : Nat) (hl : 0 < lim) (acts : List LAct) (s : LSt) (h : lrun lim {} acts = some s) :
    s.conns + s.inflight ≤ (lim - 1) + s.peak ∧ s.inflight ≤ s.peak ∧ (s.peak ≤ 1 → s.conns ≤ lim) := by
  suffices H : ∀ (s₀ : LSt), (s₀.conns + s₀.inflight ≤ (lim - 1) + s₀.peak ∧ s₀.inflight ≤ s₀.peak) →
      lrun lim s₀ acts = some s → s.conns + s.inflight ≤ (lim - 1) + s.peak ∧ s.inflight ≤ s.peak by
    have := H {} (by simp) h
    refine ⟨this.1, this.2, fun hp => ?_⟩
    omega
  intro s₀ hi hr
  clear h
  induction acts generalizing s₀ with
  | nil => simp [lrun] at hr; subst hr; exact hi
  | cons a as ih =>
    simp only [lrun] at hr
    split at hr
    · rename_i s1 hs1
      refine ih s1 ?_ hr
      cases a <;> simp only [lstep] at hs1 <;> split at hs1 <;> cases hs1 <;> (simp only []; omega)
    · cases hr

/-! ### retries -/
/-- the retry loop, seen from attempt number `k` made at `start + k · interval` -/
theorem retry_schedule_aux (c : Cfg) (start : Nat) (fuel : Nat) (s : St) (err : Option Outcome) (att : List Nat) (k : Nat)
    (hnow : s.now = start + k * c.tryInt) (hatt : att = (List.range k).map fun j => start + j * c.tryInt)
    (hprev : ∀ j, j + 1 ≤ k → j * c.tryInt < c.tryDur)
    (hfuel : c.tryInt ≠ 0 → c.tryDur / c.tryInt + 2 ≤ fuel + k) (hfuel0 : c.tryInt = 0 → c.tryDur = 0 ∧ 1 ≤ fuel + k) :
    let r := handleLoop c start fuel s err att
    ∃ n, k ≤ n ∧ r.2.2 = (List.range n).map (fun j => start + j * c.tryInt) ∧
      (∀ j, j + 1 < n → j * c.tryInt < c.tryDur) ∧
      ((∀ u, r.1 ≠ .proxied u) → 1 ≤ n ∧ c.tryDur ≤ (n - 1) * c.tryInt) := by
  have hcf : ∀ s p, (countFailure c s p).now = s.now := by intro s p; unfold countFailure; split <;> rfl
  have hdp : ∀ ps s, (dialPeers c s ps).2.now = s.now := by
    intro ps; induction ps with
    | nil => intro s; rfl
    | cons p ps ih => intro s; simp only [dialPeers]; split; exact ih s; exact hcf s p
  have hadv : ∀ s : St, (advance s (s.now + c.tryInt)).now = s.now + c.tryInt := by
    intro s; simp [advance]
  induction fuel generalizing s err att k with
  | zero =>
    -- the fuel never runs out: attempt k would not have been reached
    exfalso
    by_cases hI : c.tryInt = 0
    · have := hfuel0 hI
      have hk : 1 ≤ k := by omega
      have := hprev (k - 1) (by omega)
      omega
    · have h1 := hfuel hI
      have hk : 2 ≤ k := by generalize c.tryDur / c.tryInt = q at *; omega
      have h2 := hprev (k - 1) (by omega)
      have : k - 1 ≤ c.tryDur / c.tryInt := by
        rw [Nat.le_div_iff_mul_le (by omega)]; omega
      generalize c.tryDur / c.tryInt = q at *
      omega
  | succ n ih =>
    intro r
    have hatt' : att ++ [s.now] = (List.range (k + 1)).map fun j => start + j * c.tryInt := by
      rw [List.range_succ, List.map_append, hatt, hnow]; rfl
    have hstop : ∀ s' : St, s'.now = s.now → c.tryDur ≤ s'.now - start →
        ∃ m, k ≤ m ∧ att ++ [s.now] = (List.range m).map (fun j => start + j * c.tryInt) ∧
          (∀ j, j + 1 < m → j * c.tryInt < c.tryDur) ∧ (1 ≤ m ∧ c.tryDur ≤ (m - 1) * c.tryInt) := by
      intro s' hs' hle
      refine ⟨k + 1, by omega, hatt', fun j hj => hprev j (by omega), by omega, ?_⟩
      rw [hs', hnow] at hle
      simp only [Nat.add_sub_cancel]; omega
    have hcont : ∀ s' : St, s'.now = s.now → ¬ c.tryDur ≤ s'.now - start →
        (advance s' (s'.now + c.tryInt)).now = start + (k + 1) * c.tryInt ∧ (∀ j, j + 1 ≤ k + 1 → j * c.tryInt < c.tryDur) ∧
        (c.tryInt ≠ 0 → c.tryDur / c.tryInt + 2 ≤ n + (k + 1)) ∧ (c.tryInt = 0 → c.tryDur = 0 ∧ 1 ≤ n + (k + 1)) := by
      intro s' hs' hlt
      refine ⟨by rw [hadv, hs', hnow, Nat.add_mul]; omega, ?_, fun h => by have := hfuel h; omega, fun h => ⟨(hfuel0 h).1, by omega⟩⟩
      intro j hj
      by_cases hjk : j + 1 ≤ k
      · exact hprev j hjk
      · have : j = k := by omega
        subst this; rw [hs', hnow] at hlt; omega
    simp only [r, handleLoop]
    split
    · split
      · rename_i hle
        obtain ⟨m, h1, h2, h3, h4⟩ := hstop s rfl hle
        exact ⟨m, h1, h2, h3, fun _ => h4⟩
      · rename_i hlt
        obtain ⟨g1, g2, g3, g4⟩ := hcont s rfl hlt
        obtain ⟨m, h1, h2⟩ := ih (advance s (s.now + c.tryInt)) _ (att ++ [s.now]) (k + 1) g1 hatt' g2 g3 g4
        exact ⟨m, by omega, h2⟩
    · rename_i u _
      have hd := hdp (peersOf c u) s
      split
      · rename_i s' heq
        exact ⟨k + 1, by omega, hatt', fun j hj => hprev j (by omega), fun h => absurd rfl (h u)⟩
      · rename_i s' heq; rw [heq] at hd
        split
        · rename_i hle
          obtain ⟨m, h1, h2, h3, h4⟩ := hstop s' hd hle
          exact ⟨m, h1, h2, h3, fun _ => h4⟩
        · rename_i hlt
          obtain ⟨g1, g2, g3, g4⟩ := hcont s' hd hlt
          obtain ⟨m, h1, h2⟩ := ih (advance s' (s'.now + c.tryInt)) _ (att ++ [s.now]) (k + 1) g1 hatt' g2 g3 g4
          exact ⟨m, by omega, h2⟩

/-- **Retry schedule**: the attempts of one `Handle` happen at `start + j · try_interval` for `j = 0 … n−1` with `n ≥ 1`; an
attempt is retried only while less than `try_duration` has elapsed; and when the connection is refused in the end, at least
`try_duration` had elapsed at the last attempt (with `try_duration = 0`: exactly one attempt).  `tryInt` is the provisioned
interval (non-zero whenever `try_duration` is). -/
theorem retry_schedule (c : Cfg) (s : St) (hwf : c.tryInt = 0 → c.tryDur = 0) :
    let r := handle c s
    ∃ n, 1 ≤ n ∧ r.2.2 = (List.range n).map (fun j => s.now + j * c.tryInt) ∧
      (∀ j, j + 1 < n → j * c.tryInt < c.tryDur) ∧
      ((∀ u, r.1 ≠ .proxied u) → c.tryDur ≤ (n - 1) * c.tryInt) := by
  intro r
  have h := retry_schedule_aux c s.now (handleFuel c) s none [] 0 (by simp) rfl (by intro j hj; omega)
    (by intro h; simp [handleFuel, h]) (by intro h; exact ⟨hwf h, by simp [handleFuel, h]⟩)
  obtain ⟨n, _, h2, h3, h4⟩ := h
  by_cases hn : 1 ≤ n
  · exact ⟨n, hn, h2, h3, fun hu => (h4 hu).2⟩
  · -- n = 0 is impossible: the first attempt is always made
    exfalso
    have hn0 : n = 0 := by omega
    subst hn0
    have hlen : r.2.2.length = 0 := by rw [show r.2.2 = _ from h2]; rfl
    have hpos : ∀ fuel st e a, 0 < fuel → 0 < (handleLoop c s.now fuel st e a).2.2.length := by
      intro fuel; induction fuel with
      | zero => intro _ _ _ h; omega
      | succ m ih =>
        intro st e a _
        have grow : ∀ fuel st e a, a.length ≤ (handleLoop c s.now fuel st e a).2.2.length := by
          intro fuel; induction fuel with
          | zero => intro _ _ _; exact Nat.le_refl _
          | succ m ih2 =>
            intro st e a
            simp only [handleLoop]
            split
            · split
              · simp
              · exact Nat.le_trans (by simp) (ih2 _ _ _)
            · split
              · simp
              · split
                · simp
                · exact Nat.le_trans (by simp) (ih2 _ _ _)
        simp only [handleLoop]
        split
        · split
          · simp
          · exact Nat.lt_of_lt_of_le (by simp) (grow _ _ _ _)
        · split
          · simp
          · split
            · simp
            · exact Nat.lt_of_lt_of_le (by simp) (grow _ _ _ _)
    have := hpos (handleFuel c) s none [] (by unfold handleFuel; split; exact Nat.one_pos; exact Nat.succ_pos _)
    simp only [r, handle] at hlen
    omega

/-! ### non-vacuity: a history in which an upstream leaves and re-enters the rotation, with retries and a limit -/
def demoCfg : Cfg := { ups := [[0], [1]], maxConns := [1, 0], passive := true, failDur := 100, maxFails := 1, tryDur := 60, tryInt := 40 }

example :
    let s := run demoCfg {} [.setUp 0 false, .handle, .advance 50, .handle, .advance 150, .setUp 0 true, .handle, .handle]
    (s.fails 0, s.conns 0, s.conns 1, s.opened, healthy demoCfg s 0, full demoCfg s 0) = (0, 1, 3, [1, 0, 1, 1], true, true) := by decide

example : (handle demoCfg { up := fun _ => false }).1 = .dialError ∧ (handle demoCfg { up := fun _ => false }).2.2 = [0, 40, 80] := by decide

end L4.C11

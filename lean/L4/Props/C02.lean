import L4.Proofs.Router
/-!
# C02 — Routes run in order and only when matched; otherwise the fallback runs once

Theorems about the transcription of `RouteList.Compile` (`L4/Router.lean`), for every connection type, every
route list, all matchers and handlers (arbitrary functions), every fuel.
-/
namespace L4.C02
open L4
variable {κ : Type}

/-- a matcher set is the conjunction of its matchers -/
theorem set_is_and (ms : MatcherSet κ) (cx : κ) :
    setMatch ms cx = .yes ↔ ∀ m ∈ ms, m cx = .yes := by
  induction ms with
  | nil => simp [setMatch]
  | cons m ms ih =>
    simp only [setMatch, List.mem_cons, forall_eq_or_imp]
    cases h : m cx <;> simp [ih]

/-- a matcher set answers `no` exactly when its first matcher that does not say `yes` says `no` -/
theorem set_no (ms : MatcherSet κ) (cx : κ) (h : setMatch ms cx = .no) : ∃ m ∈ ms, m cx = .no := by
  induction ms with
  | nil => simp [setMatch] at h
  | cons m ms ih =>
    simp only [setMatch] at h
    cases hm : m cx <;> rw [hm] at h <;> simp_all

/-- no matcher sets = match everything -/
theorem empty_matches_all (cx : κ) : anyMatch ([] : List (MatcherSet κ)) cx = .yes := rfl

/-- matcher sets are OR'ed: the route matches only if one of its sets matched -/
theorem sets_is_or (ss : List (MatcherSet κ)) (cx : κ) (h : anyMatch ss cx = .yes) :
    ss = [] ∨ ∃ s ∈ ss, setMatch s cx = .yes := by
  unfold anyMatch at h
  split at h
  · left; simpa using ‹ss.isEmpty = true›
  · right
    clear ‹¬ss.isEmpty = true›
    induction ss with
    | nil => simp [anyMatchAux] at h
    | cons s ss ih =>
      simp only [anyMatchAux] at h
      cases hs : setMatch s cx <;> rw [hs] at h <;> simp_all

/-- … and it does match when the first set that is not `no` says `yes` -/
theorem sets_first_yes (pre : List (MatcherSet κ)) (s : MatcherSet κ) (post : List (MatcherSet κ)) (cx : κ)
    (hpre : ∀ p ∈ pre, setMatch p cx = .no) (hs : setMatch s cx = .yes) :
    anyMatch (pre ++ s :: post) cx = .yes := by
  unfold anyMatch
  have : (pre ++ s :: post).isEmpty = false := by cases pre <;> rfl
  simp only [this]
  induction pre with
  | nil => simp [anyMatchAux, hs]
  | cons p ps ih =>
    simp only [List.cons_append, anyMatchAux]
    rw [hpre p (by simp)]
    exact ih (fun q hq => hpre q (by simp [hq])) (by cases ps <;> rfl)

/-- `not` negates: it matches iff every inner set says `no`, and rejects only if some inner set matched -/
theorem not_negates (ss : List (MatcherSet κ)) (cx : κ) :
    (notMatch ss cx = .yes ↔ ∀ s ∈ ss, setMatch s cx = .no) ∧
    (notMatch ss cx = .no → ∃ s ∈ ss, setMatch s cx = .yes) := by
  induction ss with
  | nil => simp [notMatch]
  | cons s ss ih =>
    simp only [notMatch, List.mem_cons, forall_eq_or_imp]
    cases hs : setMatch s cx <;> simp [ih.1, hs] <;> try exact fun h => (ih.2 h)

/-- routes run in configured order without repetition: the indices of the routes whose handlers ran are strictly
increasing along the trace -/
theorem runs_in_order (K : ConnOps κ) (routes : List (Route κ)) (fuel : Nat) (cx : κ) :
    (runIdx (route K routes fuel cx).1).Pairwise (· < ·) :=
  round_runs_sorted K routes fuel {} cx [] ⟨by simp [runIdx], by simp [runIdx]⟩

/-- **Routes run only when matched**: every time the handlers of a route are invoked, that route exists in the list and its
matcher sets answered `yes` on the connection as it stood then (all bytes received so far, after the handlers of earlier routes);
the handlers get that connection with the matching deadline cleared.  For every route list, matcher, handler, schedule, fuel. -/
theorem runs_only_matched (K : ConnOps κ) (routes : List (Route κ)) (fuel : Nat) (cx : κ) (i : Nat) (cx0 : κ)
    (h : Ev.run i cx0 ∈ (route K routes fuel cx).1) :
    ∃ r cx', routes[i]? = some r ∧ cx0 = K.arm false cx' ∧ anyMatch r.sets cx' = .yes :=
  round_runsOk K routes fuel {} cx [] (by intro i cx0 hm; cases hm) i cx0 h

/-- in particular a route whose every matcher set says `no` on a connection is never run on it -/
theorem unmatched_never_runs (K : ConnOps κ) (routes : List (Route κ)) (fuel : Nat) (cx : κ) (i : Nat) (cx' : κ) (r : Route κ)
    (hr : routes[i]? = some r) (hno : anyMatch r.sets cx' ≠ .yes) :
    Ev.run i (K.arm false cx') ∉ (route K routes fuel cx).1 ∨ ∃ cx'', K.arm false cx' = K.arm false cx'' ∧ anyMatch r.sets cx'' = .yes := by
  by_cases hm : Ev.run i (K.arm false cx') ∈ (route K routes fuel cx).1
  · right
    obtain ⟨r', cx'', h1, h2, h3⟩ := runs_only_matched K routes fuel cx i _ hm
    rw [hr] at h1; cases h1
    exact ⟨cx'', h2, h3⟩
  · left; exact hm

/-- **The first matching route is the one chosen** (first evaluation of a connection): if the matcher sets of the routes before
route `j` all answer `no` on the connection as it arrives and those of route `j` answer `yes`, the handlers of route `j` run on it —
no matching route is passed over for a later one.  (The general form, for any pass of any round incl. routes skipped because
they are behind the last matched route or asked for more data in a round with a prefetch, is `pass_runs_first_match`.) -/
theorem first_matching_route_runs (K : ConnOps κ) (skipped : List (Route κ)) (r : Route κ) (rest : List (Route κ)) (fuel : Nat) (cx : κ)
    (hno : ∀ k (hk : k < skipped.length), anyMatch skipped[k].sets (K.arm true cx) = .no)
    (hyes : anyMatch r.sets (K.arm true cx) = .yes) :
    Ev.run skipped.length (K.arm false (K.arm true cx)) ∈ (route K (skipped ++ r :: rest) (fuel + 1) cx).1 := by
  have hp := pass_runs_first_match K skipped r rest 0 {} (K.arm true cx) []
    (fun k hk => Or.inr (Or.inl (hno k hk))) (by simp) (by simp) hyes
  simp only [Nat.zero_add] at hp
  unfold route round
  simp only [Bool.false_eq_true, ↓reduceIte]
  cases hq : pass K (skipped ++ r :: rest) 0 {} (K.arm true cx) [] with
  | stop tr' res => rw [hq] at hp; exact hp
  | done rs' cx' tr' =>
    rw [hq] at hp
    simp only [outTrace] at hp
    simp only []
    split
    · exact hp
    · split
      · obtain ⟨e, he⟩ := round_extends K (skipped ++ r :: rest) fuel { rs' with needMore := true } cx' tr'
        rw [he]; exact List.mem_append_left _ hp
      · exact hp

/-! non-vacuity: a concrete two-route list on the layered connection model whose second route runs -/
def demoRoutes : List (Route Src) :=
  [ { sets := [[fun cx => if cx.avail.length < 2 then .more else .no]], h := fun cx => ([], .next cx) },
    { sets := [], h := fun _ => ([], .terminal) } ]

example : runIdx (route srcOps demoRoutes 8 (.l4 [] 0 0 false (.raw [[1], [2, 3]] false))).1 = [1] := by
  decide

end L4.C02

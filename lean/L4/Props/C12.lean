import L4.ProxyProto
import L4.Proofs.Conn
import L4.Matchers.Small
/-!
# C12 — PROXY protocol: received headers stripped and honoured, sent headers exact
-/
namespace L4.C12
open L4 L4.PP

/-- **Strip-exactness** (on the connection model of C01): if the header parser, through whatever reads it performs on the
layered connection (bufio over the layer4 Connection), consumes exactly the header bytes, then what later handlers see is
the stream without the header — nothing more, nothing less, for every segmentation and every buffered amount. -/
theorem strip_exact (s : Src) (reads : List Nat) (hdr payload : Bytes) (hn : s.noMatching) (hw : s.wf)
    (hs : s.logical = hdr ++ payload) (hc : (s.reads reads).1 = hdr) : (s.reads reads).2.logical = payload := by
  have h := reads_spec s reads hn hw
  rw [hc, hs] at h
  exact List.append_cancel_left h

/-- the bufio layer the handler puts between the old and the new Connection is transparent (C01.wrap_keeps_stream) -/
theorem bufio_wrap_keeps_stream (s : Src) (hs : s.wf) : (s.wrap fun i => .bufio [] 4096 i).logical = s.logical :=
  wrap_logical s _ (transparent_bufio 4096) hs

/-! ## sent headers: well-formed, exactly one, parse back to the addresses (v2, IPv4 and IPv6, TCP and UDP) -/

theorem toBE2 (n : Nat) (h : n < 65536) : beNat (toBE 2 n) = n := by
  simp only [toBE, beNat, List.foldl, List.nil_append, List.cons_append, UInt8.toNat_ofNat']
  omega

theorem sig_len : sig.length = 12 := by decide

/-- parsing an emitted v2 header (followed by anything) gives back the protocol, both addresses and both ports, and the
header length is the number of bytes emitted: the receiver strips exactly what the sender wrote -/
theorem parse_emit_v2_ipv4 (pr : Proto) (s d : Bytes) (sp dp : Nat) (hs : s.length = 4) (hd : d.length = 4)
    (hsp : sp < 65536) (hdp : dp < 65536) (rest : Bytes) :
    parseV2 (encV2 ⟨pr, ⟨s, sp⟩, ⟨d, dp⟩⟩ ++ rest) = some (.proxy ⟨pr, ⟨s, sp⟩, ⟨d, dp⟩⟩ (encV2 ⟨pr, ⟨s, sp⟩, ⟨d, dp⟩⟩).length) := by
  obtain ⟨s0, s1, s2, s3, rfl⟩ : ∃ a b c e, s = [a, b, c, e] := by
    match s, hs with
    | [a, b, c, e], _ => exact ⟨a, b, c, e, rfl⟩
  obtain ⟨d0, d1, d2, d3, rfl⟩ : ∃ a b c e, d = [a, b, c, e] := by
    match d, hd with
    | [a, b, c, e], _ => exact ⟨a, b, c, e, rfl⟩
  have e1 := toBE2 sp hsp
  have e2 := toBE2 dp hdp
  cases pr <;>
    simp [encV2, parseV2, sig, Gen.l4proxyprotocol_headerV2Prefix, toBE, be16, List.getD, beNat] <;>
    simp [toBE, beNat] at e1 e2 <;> omega

theorem list16 (s : Bytes) (hs : s.length = 16) :
    ∃ a0 a1 a2 a3 a4 a5 a6 a7 a8 a9 a10 a11 a12 a13 a14 a15, s = [a0, a1, a2, a3, a4, a5, a6, a7, a8, a9, a10, a11, a12, a13, a14, a15] := by
  match s, hs with
  | [a0, a1, a2, a3, a4, a5, a6, a7, a8, a9, a10, a11, a12, a13, a14, a15], _ =>
    exact ⟨a0, a1, a2, a3, a4, a5, a6, a7, a8, a9, a10, a11, a12, a13, a14, a15, rfl⟩

set_option maxRecDepth 4000 in
/-- the same for IPv6 addresses (address block of 36 bytes) -/
theorem parse_emit_v2_ipv6 (pr : Proto) (s d : Bytes) (sp dp : Nat) (hs : s.length = 16) (hd : d.length = 16)
    (hsp : sp < 65536) (hdp : dp < 65536) (rest : Bytes) :
    parseV2 (encV2 ⟨pr, ⟨s, sp⟩, ⟨d, dp⟩⟩ ++ rest) = some (.proxy ⟨pr, ⟨s, sp⟩, ⟨d, dp⟩⟩ (encV2 ⟨pr, ⟨s, sp⟩, ⟨d, dp⟩⟩).length) := by
  obtain ⟨a0, a1, a2, a3, a4, a5, a6, a7, a8, a9, a10, a11, a12, a13, a14, a15, rfl⟩ := list16 s hs
  obtain ⟨b0, b1, b2, b3, b4, b5, b6, b7, b8, b9, b10, b11, b12, b13, b14, b15, rfl⟩ := list16 d hd
  have e1 := toBE2 sp hsp
  have e2 := toBE2 dp hdp
  cases pr <;>
    simp [encV2, parseV2, sig, Gen.l4proxyprotocol_headerV2Prefix, toBE, be16, List.getD, beNat] <;>
    simp [toBE, beNat] at e1 e2 <;> omega


/-- **v2 LOCAL** (a balancer's health check): whatever family byte and address block it carries, the header is recognised,
no addresses are taken from it, and its length is exactly the 16 fixed bytes plus the announced block — the receiver strips
exactly that and the connection keeps its own addresses -/
theorem parse_v2_local (fp : UInt8) (body rest : Bytes) (hb : body.length < 65536) :
    parseV2 (sig ++ [0x20, fp] ++ toBE 2 body.length ++ body ++ rest) = some (.local_ (16 + body.length)) := by
  have hsig : sig.length = 12 := sig_len
  have hbe : (toBE 2 body.length).length = 2 := by simp [toBE]
  have e : sig ++ [0x20, fp] ++ toBE 2 body.length ++ body ++ rest =
      sig ++ (0x20 :: fp :: (toBE 2 body.length ++ (body ++ rest))) := by simp
  rw [e]
  unfold parseV2
  have hlen : (sig ++ (0x20 :: fp :: (toBE 2 body.length ++ (body ++ rest)))).length = 16 + body.length + rest.length := by
    simp [hsig, hbe]; omega
  have htake : (sig ++ (0x20 :: fp :: (toBE 2 body.length ++ (body ++ rest)))).take 12 = sig := by
    rw [List.take_append_of_le_length (by omega)]; exact List.take_of_length_le (by omega)
  have g12 : (sig ++ (0x20 :: fp :: (toBE 2 body.length ++ (body ++ rest)))).getD 12 0 = 0x20 := by
    simp only [List.getD_eq_getElem?_getD]; rw [List.getElem?_append_right (by omega), hsig]; rfl
  have g14 : be16 ((sig ++ (0x20 :: fp :: (toBE 2 body.length ++ (body ++ rest)))).getD 14 0)
      ((sig ++ (0x20 :: fp :: (toBE 2 body.length ++ (body ++ rest)))).getD 15 0) = body.length := by
    simp only [List.getD_eq_getElem?_getD]
    rw [List.getElem?_append_right (by omega), List.getElem?_append_right (by omega), hsig]
    have := toBE2 body.length hb
    simp [toBE, beNat, be16] at this ⊢
    omega
  rw [if_neg (by rw [hlen, htake]; simp; omega), g12, g14]
  simp only []
  rw [if_neg (by decide), if_neg (by rw [hlen]; omega)]
  simp


/-- the proxy_protocol matcher recognises what the proxy handler emits (sender and receiver agree on the signature) -/
theorem encV2_sig (h : Hdr) : ∃ tail, encV2 h = sig ++ tail := by
  by_cases h4 : h.src.ip.length = 4 ∧ h.dst.ip.length = 4
  · exact ⟨_, by simp only [encV2, if_pos h4, List.append_assoc]; rfl⟩
  · by_cases h6 : h.src.ip.length = 16 ∧ h.dst.ip.length = 16
    · exact ⟨_, by simp only [encV2, if_neg h4, if_pos h6, List.append_assoc]; rfl⟩
    · exact ⟨_, by simp only [encV2, if_neg h4, if_neg h6, List.append_assoc]; rfl⟩

theorem matcher_accepts_emitted_v2 (h : Hdr) (rest : Bytes) : M.proxyProto.run (encV2 h ++ rest) = .yes := by
  obtain ⟨tail, ht⟩ := encV2_sig h
  rw [ht, List.append_assoc]
  simp [M.proxyProto, Prog.run, sig, Gen.l4proxyprotocol_headerV2Prefix, Gen.l4proxyprotocol_headerV1Prefix]

theorem matcher_accepts_emitted_v1 (h : Hdr) (hlen : 1 ≤ (dotted h.src.ip).length) (rest : Bytes) :
    M.proxyProto.run (encV1 h ++ rest) = .yes := by
  simp only [encV1, proxyTcp4, List.append_assoc]
  cases hd : dotted h.src.ip with
  | nil => simp [hd] at hlen
  | cons x xs =>
    simp [M.proxyProto, Prog.run, Gen.l4proxyprotocol_headerV2Prefix, Gen.l4proxyprotocol_headerV1Prefix]

/-! ## allow list: a peer is trusted iff no rule is configured or some rule contains it — independent of rule order -/
theorem trusted_spec (rules : List Rule) (is6 : Bool) (ip : Nat) :
    trusted rules is6 ip = true ↔ rules = [] ∨ ∃ r ∈ rules, r.contains is6 ip = true := by
  simp [trusted, List.isEmpty_iff]

theorem trusted_perm (r1 r2 : List Rule) (hp : r1.Perm r2) (is6 : Bool) (ip : Nat) :
    trusted r1 is6 ip = trusted r2 is6 ip := by
  have key : ∀ a b : List Rule, a.Perm b → trusted a is6 ip = true → trusted b is6 ip = true := by
    intro a b hab ha
    rw [trusted_spec] at ha ⊢
    rcases ha with h | ⟨r, hr, hc⟩
    · subst h; left; exact hab.symm.eq_nil
    · right; exact ⟨r, hab.mem_iff.mp hr, hc⟩
  cases ht1 : trusted r1 is6 ip <;> cases ht2 : trusted r2 is6 ip
  · rfl
  · have := key r2 r1 hp.symm ht2; rw [ht1] at this; cases this
  · have := key r1 r2 hp ht1; rw [ht2] at this; cases this
  · rfl

/-! non-vacuity -/
example : parseV2 (encV2 ⟨.tcp, ⟨[10, 0, 0, 1], 4000⟩, ⟨[192, 168, 1, 7], 443⟩⟩ ++ [1, 2, 3]) =
    some (.proxy ⟨.tcp, ⟨[10, 0, 0, 1], 4000⟩, ⟨[192, 168, 1, 7], 443⟩⟩ 28) := by decide
example : encV1 ⟨.tcp, ⟨[10, 0, 0, 1], 4000⟩, ⟨[192, 168, 1, 7], 443⟩⟩ =
    proxyTcp4 ++ [49, 48, 46, 48, 46, 48, 46, 49, 32, 49, 57, 50, 46, 49, 54, 56, 46, 49, 46, 55, 32, 52, 48, 48, 48, 32, 52, 52, 51, 13, 10] := by
  decide

end L4.C12

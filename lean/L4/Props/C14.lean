import L4.Matchers.Small
import L4.Matchers.Wireguard
import L4.Matchers.More
import L4.Proofs.Router
import L4.Proofs.Res
import L4.Proofs.Postgres
/-!
# C14 — Protocol matchers accept exactly what the wire definition and the filters say

`model verdict = yes ↔ declarative predicate` for the matchers whose wire definition is simple enough to state in a
line; the executable models are tied to the Go matchers by the `match` differential, and the Go verdicts on generated
complete messages are also compared with reference predicates evaluated by the harness.
-/
namespace L4.C14
open L4 L4.M L4.Gen

/-- SSH: the stream starts with `SSH-` -/
theorem ssh_spec (bs : Bytes) : ssh.run bs = .yes ↔ l4ssh_sshPrefix.length ≤ bs.length ∧ bs.take l4ssh_sshPrefix.length = l4ssh_sshPrefix := by
  simp only [ssh, Prog.run]
  split
  · rename_i h
    split <;> simp_all
  · simp; omega

/-- PROXY protocol: the first 12 bytes are the v2 signature or start with `PROXY` -/
theorem proxyProto_spec (bs : Bytes) :
    proxyProto.run bs = .yes ↔ l4proxyprotocol_headerV2Prefix.length ≤ bs.length ∧
      (l4proxyprotocol_headerV1Prefix.isPrefixOf (bs.take l4proxyprotocol_headerV2Prefix.length) = true ∨
       bs.take l4proxyprotocol_headerV2Prefix.length = l4proxyprotocol_headerV2Prefix) := by
  simp only [proxyProto, Prog.run]
  split
  · split
    · simp_all
    · split <;> simp_all
  · simp; omega

/-- regexp: the first `count` bytes (default 4) satisfy the pattern -/
theorem regexp_spec (count : Nat) (re : Bytes → Bool) (bs : Bytes) :
    (regexp count re).run bs = .yes ↔
      (if count = 0 then l4regexp_minCount else count) ≤ bs.length ∧
      re (bs.take (if count = 0 then l4regexp_minCount else count)) = true := by
  simp only [regexp, Prog.run]
  generalize (if count = 0 then l4regexp_minCount else count) = c
  by_cases h : c ≤ bs.length
  · rw [if_pos h]; by_cases hr : re (bs.take c) = true <;> simp [h, hr]
  · rw [if_neg h]; simp [h]

/-- SOCKS5 greeting: version 5, a method count `n`, then `n` method bytes all of which the configuration allows
(default: no-auth, GSSAPI, user/password).  Exactly then — and with all `2 + n` bytes present — the matcher says yes. -/
theorem socks5_spec (methods : List Nat) (bs : Bytes) :
    (socks5 methods).run bs = .yes ↔
      ∃ n ms rest, bs = 5 :: n :: (ms ++ rest) ∧ ms.length = n.toNat ∧
        ∀ m ∈ ms, (if methods.isEmpty then [0, 1, 2] else methods).contains m.toNat = true := by
  simp only [socks5]
  generalize (if methods.isEmpty then [0, 1, 2] else methods) = allowed
  cases bs with
  | nil => simp [Prog.run]
  | cons v r =>
    by_cases hv : v = 5
    · subst hv
      cases r with
      | nil => simp [Prog.run]
      | cons n r2 =>
        by_cases hlen : n.toNat ≤ r2.length
        · simp only [Prog.run, List.length_cons, Nat.le_add_left, ↓reduceIte, List.take_succ_cons, List.take_zero,
            List.drop_succ_cons, List.drop_zero, ne_eq, not_true_eq_false, List.headD_cons, hlen]
          constructor
          · intro h
            split at h
            · rename_i hall
              exact ⟨n, r2.take n.toNat, r2.drop n.toNat, by rw [List.take_append_drop], by simp; omega,
                by simpa [List.all_eq_true] using hall⟩
            · cases h
          · rintro ⟨n', ms, rest, heq, hl, hall⟩
            simp only [List.cons.injEq, true_and] at heq
            obtain ⟨rfl, rfl⟩ := heq
            have : (ms ++ rest).take n.toNat = ms := by rw [← hl]; simp
            rw [this]
            have : (ms.all fun m => allowed.contains m.toNat) = true := by
              rw [List.all_eq_true]; exact hall
            rw [if_pos this]
        · simp only [Prog.run, List.length_cons, Nat.le_add_left, ↓reduceIte, List.take_succ_cons, List.take_zero,
            List.drop_succ_cons, List.drop_zero, ne_eq, not_true_eq_false, List.headD_cons, hlen]
          constructor
          · intro h; cases h
          · rintro ⟨n', ms, rest, heq, hl, _⟩
            simp only [List.cons.injEq, true_and] at heq
            obtain ⟨rfl, rfl⟩ := heq
            exfalso; apply hlen; simp; omega
    · simp only [Prog.run, List.length_cons, Nat.le_add_left, ↓reduceIte, List.take_succ_cons, List.take_zero,
        List.drop_succ_cons, List.drop_zero]
      simp [hv, Prog.run]

/-- clock: the zone-local second of the day lies in `[after, before)`, where `before = 0` means midnight and reversed
bounds are swapped -/
theorem clock_spec (after before now : Nat) :
    clock after before now = .yes ↔
      let hi := if before = 0 then 86400 else before
      (hi < after → hi ≤ now ∧ now < after) ∧ (¬ hi < after → after ≤ now ∧ now < hi) := by
  simp only [clock, clockNorm]
  split <;> split <;> simp_all <;> omega

/-- remote_ip / local_ip: some configured prefix of the same family contains the address -/
theorem ip_spec (ps : List Prefix) (is6 : Bool) (ip : Nat) :
    ipMatch ps is6 ip = .yes ↔ ∃ p ∈ ps, p.contains is6 ip = true := by
  simp only [ipMatch]
  split <;> simp_all

/-- `not`: matches iff every inner matcher set says no (C02.not_negates) -/
theorem not_spec {κ : Type} (ss : List (MatcherSet κ)) (cx : κ) :
    notMatch ss cx = .yes ↔ ∀ s ∈ ss, setMatch s cx = .no := by
  induction ss with
  | nil => simp [notMatch]
  | cons s ss ih =>
    simp only [notMatch, List.mem_cons, forall_eq_or_imp]
    cases hs : setMatch s cx <;> simp [ih]

/-- DNS filter decision per question, stated declaratively: class and type must be known; with rules configured, a question
matched by a deny rule passes only if it is also allowed and `prefer_allow` is set; an unmatched question passes unless
`default_deny` is set or only allow rules exist; an allowed, not denied question passes. -/
def dnsAccept (cfg : DnsCfg) (q : DnsQ) : Bool :=
  q.classFound && q.typeFound &&
    (if q.denied then q.allowed && cfg.preferAllow && cfg.hasAllow
     else q.allowed || !(cfg.defaultDeny || (cfg.hasAllow && !cfg.hasDeny)))

/-- the two are equal whenever the `denied` / `allowed` bits are consistent with the rule lists (no rules ⇒ never matched) -/
theorem dns_decision_spec (cfg : DnsCfg) (q : DnsQ) (h1 : cfg.hasAllow = false → q.allowed = false)
    (h2 : cfg.hasDeny = false → q.denied = false) : dnsReject cfg q = !dnsAccept cfg q := by
  cases cfg with
  | mk ha hd pa dd =>
    cases q with
    | mk cf tf de al =>
      simp only [dnsReject, dnsAccept]
      cases ha <;> cases hd <;> cases pa <;> cases dd <;> cases cf <;> cases tf <;> cases de <;> cases al <;> simp_all

/-- a DNS message matches iff it parses to exactly its length, is a plain query with at least one question, and (with rules
configured) every question is accepted -/
theorem dns_spec (cfg : DnsCfg) (n : Nat) (m : DnsMsg)
    (hc : ∀ q ∈ m.qs, (cfg.hasAllow = false → q.allowed = false) ∧ (cfg.hasDeny = false → q.denied = false)) :
    dnsDecide cfg n (some m) = .yes ↔
      m.len = n ∧ m.qs ≠ [] ∧ m.response = false ∧ m.rcodeOk = true ∧ m.zero = false ∧
      ((cfg.hasAllow = true ∨ cfg.hasDeny = true) → ∀ q ∈ m.qs, dnsAccept cfg q = true) := by
  simp only [dnsDecide]
  have hrej : ∀ q ∈ m.qs, dnsReject cfg q = !dnsAccept cfg q := fun q hq => dns_decision_spec cfg q (hc q hq).1 (hc q hq).2
  split
  · simp_all
  · split
    · rename_i h; simp; intro _ h1 h2 h3 h4; simp_all
    · split
      · rename_i h
        simp only [reduceCtorEq, false_iff]
        intro hh
        obtain ⟨hany, hq⟩ := h
        simp only [List.any_eq_true] at hq
        obtain ⟨q, hqm, hqr⟩ := hq
        have := hh.2.2.2.2.2 (by simpa using hany) q hqm
        rw [hrej q hqm, this] at hqr
        simp at hqr
      · rename_i h1 h2 h3
        simp only [true_iff]
        refine ⟨by simpa using h1, ?_⟩
        simp only [not_or, Bool.not_eq_true, Bool.not_eq_false] at h2
        refine ⟨by simpa [List.isEmpty_iff] using h2.1, by simpa using h2.2.1, by simpa using h2.2.2.1, by simpa using h2.2.2.2, ?_⟩
        intro hr q hq
        simp only [not_and, List.any_eq_true, not_exists] at h3
        have := h3 (by simpa using hr) q
        rw [hrej q hq] at this
        simpa using this hq

/-- WireGuard: a 148-byte initiation or a 32-byte keep-alive whose type word carries the configured reserved bytes -/
theorem wireguard_spec (zero : Nat) (bs : Bytes) (hne : bs ≠ []) :
    (Wireguard.matcher zero).run bs = .yes ↔
      (bs.length = l4wireguard_MessageInitiationBytesTotal ∧ leNat (bs.take 4) = zero % 2 ^ 32 / 256 * 256 + l4wireguard_MessageTypeInitiation) ∨
      (bs.length = l4wireguard_MessageTransportBytesMin ∧ leNat (bs.take 4) = zero % 2 ^ 32 / 256 * 256 + l4wireguard_MessageTypeTransport) := by
  have hl : 1 ≤ bs.length := by cases bs <;> simp_all
  simp only [Wireguard.matcher, Prog.run, l4wireguard_MessageInitiationBytesTotal, l4wireguard_MessageTransportBytesMin]
  rw [if_neg (by omega), if_neg (by omega)]
  by_cases h149 : 149 ≤ bs.length
  · have hm : min (148 + 1) bs.length = 149 := by omega
    rw [if_pos (by omega)]
    simp only [hm, List.length_take]
    have : min 149 bs.length = 149 := by omega
    simp [this, Prog.run]; omega
  · have hm : min (148 + 1) bs.length = bs.length := by omega
    rw [if_pos (by omega)]
    simp only [hm, List.take_length, List.take_take]
    split
    · rename_i h; simp only [Prog.run]; split <;> simp_all
    · split
      · rename_i h1 h2; simp only [Prog.run]; split <;> simp_all
      · simp_all [Prog.run]

/-! ## socks4 and postgres -/
section
open L4.Prog


/-- the declarative SOCKS4 predicate on the 8-byte request head: version 4, an enabled command, a destination port in
the configured list (if any), a destination address in one of the configured networks (if any) -/
def socks4Accept (cfg : Socks4Cfg) (buf : Bytes) : Prop :=
  buf.getD 0 0 = 4 ∧ cfg.commands.contains (buf.getD 1 0).toNat = true ∧
  (cfg.ports.isEmpty = true ∨ cfg.ports.contains (beNat ((buf.drop 2).take 2)) = true) ∧
  ((cfg.cidrs.isEmpty = true ∧ cfg.v6only = false) ∨ cfg.cidrs.any (·.contains (beNat ((buf.drop 4).take 4))) = true)

theorem socks4Body_spec (cfg : Socks4Cfg) (buf : Bytes) (h : buf.length = 8) :
    socks4Body cfg buf = .ok .yes ↔ socks4Accept cfg buf := by
  have i0 : idx buf 0 "socks4.buf[0]" = .ok (buf.getD 0 0) := by rw [idx_ok buf 0 _ (by omega)]; simp [List.getD, h]
  have i1 : idx buf 1 "socks4.buf[1]" = .ok (buf.getD 1 0) := by rw [idx_ok buf 1 _ (by omega)]; simp [List.getD, h]
  have s1 := slice_ok buf 2 4 "socks4.buf[2:4]" (by omega) (by omega)
  have s2 := slice_ok buf 4 8 "socks4.buf[4:8]" (by omega) (by omega)
  unfold socks4Body socks4Accept
  simp only [i0, i1, s1, s2, Res.bind_ok]
  by_cases h0 : buf.getD 0 0 = 4
  · by_cases h1 : cfg.commands.contains (buf.getD 1 0).toNat = true
    · by_cases hp : cfg.ports.isEmpty = true
      · by_cases hc : cfg.cidrs.isEmpty = true
        · by_cases hv : cfg.v6only = true
          · by_cases ha : cfg.cidrs.any (·.contains (beNat ((buf.drop 4).take 4))) = true <;>
              simp_all [pure]
          · simp_all [pure]
        · by_cases ha : cfg.cidrs.any (·.contains (beNat ((buf.drop 4).take 4))) = true <;>
            simp_all [pure]
      · by_cases hpp : cfg.ports.contains (beNat ((buf.drop 2).take 2)) = true
        · by_cases hc : cfg.cidrs.isEmpty = true
          · by_cases hv : cfg.v6only = true
            · by_cases ha : cfg.cidrs.any (·.contains (beNat ((buf.drop 4).take 4))) = true <;>
                simp_all [pure]
            · simp_all [pure]
          · by_cases ha : cfg.cidrs.any (·.contains (beNat ((buf.drop 4).take 4))) = true <;>
              simp_all [pure]
        · simp_all [pure]
    · simp_all [pure]
  · simp_all [pure]

/-- **SOCKS4**: the matcher says yes exactly when the first 8 bytes are present and satisfy the declarative predicate -/
theorem socks4_spec (cfg : Socks4Cfg) (bs : Bytes) :
    (socks4 cfg).run bs = .yes ↔ 8 ≤ bs.length ∧ socks4Accept cfg (bs.take 8) := by
  simp only [socks4, Prog.run]
  by_cases hl : 8 ≤ bs.length
  · rw [if_pos hl]
    have hb : (bs.take 8).length = 8 := by rw [List.length_take]; omega
    rw [← socks4Body_spec cfg _ hb]
    cases hr : socks4Body cfg (bs.take 8) with
    | ok v => simp [Prog.ofRes, Prog.run, hl]
    | err c => simp [Prog.ofRes, Prog.run, hl]
    | panic s => simp [Prog.ofRes, Prog.run, hl]
  · rw [if_neg hl]; simp [hl]



/-- the declarative Postgres predicate on the startup packet body (everything after the 4-byte size): an SSLRequest, or
protocol major ≥ 3 with a non-empty first parameter name -/
def pgAccept (data : Bytes) : Prop :=
  beNat (data.take 4) = l4postgres_sslRequestCode ∨
  (3 ≤ beNat (data.take 4) / 65536 ∧ 4 < data.length ∧ data.getD 4 0 ≠ 0)

theorem pgBody_spec (data : Bytes) (h : 4 ≤ data.length) : pgBody data = .ok .yes ↔ pgAccept data := by
  unfold pgBody pgAccept
  rw [slice_ok data 0 4 _ (by omega) h]
  simp only [Res.bind_ok, List.drop_zero, Nat.sub_zero]
  by_cases hs : beNat (data.take 4) = l4postgres_sslRequestCode
  · simp [hs, pure]
  · rw [if_neg hs]
    by_cases hv : beNat (data.take 4) / 65536 < 3
    · rw [if_pos hv]
      constructor
      · intro h; cases h
      · rintro (h | ⟨h, _⟩)
        · exact absurd h hs
        · omega
    · rw [if_neg hv]
      obtain ⟨n, hn, _⟩ := pgParams_ge data (data.length + 1) 4 0
      have hp := pgParams_pos_iff data data.length n hn
      rw [hn]
      simp only [Res.bind_ok, pure]
      constructor
      · intro h
        right
        refine ⟨by omega, hp.mp ?_⟩
        by_cases hn0 : n > 0
        · exact hn0
        · rw [if_neg hn0] at h; cases h
      · rintro (h | ⟨_, h2⟩)
        · exact absurd h hs
        · rw [if_pos (hp.mpr h2)]

/-- **Postgres**: the matcher says yes exactly when the 4-byte size announces a body of 4 … 16380 bytes, the body is
there, and it satisfies the declarative predicate -/
theorem postgres_spec (bs : Bytes) :
    postgres.run bs = .yes ↔
      4 ≤ bs.length ∧ 8 ≤ beNat (bs.take 4) ∧ beNat (bs.take 4) ≤ 2 * layer4_MaxMatchingBytes ∧
      beNat (bs.take 4) ≤ bs.length ∧ pgAccept ((bs.drop 4).take (beNat (bs.take 4) - 4)) := by
  have h4 : l4postgres_initMessageSizeLength = 4 := rfl
  simp only [postgres, Prog.run]
  by_cases hl : l4postgres_initMessageSizeLength ≤ bs.length
  · rw [if_pos hl]
    by_cases hsz : beNat (bs.take l4postgres_initMessageSizeLength) < l4postgres_initMessageSizeLength + 4 ∨
        beNat (bs.take l4postgres_initMessageSizeLength) > 2 * layer4_MaxMatchingBytes
    · rw [if_pos hsz]
      simp only [Prog.run]
      rw [h4] at hsz
      constructor
      · intro h; cases h
      · rintro ⟨_, h1, h2, _⟩; omega
    · rw [if_neg hsz]
      simp only [Prog.run, List.length_drop]
      rw [h4] at hsz hl
      simp only [h4]
      by_cases hd : beNat (bs.take 4) - 4 ≤ bs.length - 4
      · rw [if_pos hd]
        have hdl : ((bs.drop 4).take (beNat (bs.take 4) - 4)).length = beNat (bs.take 4) - 4 := by
          rw [List.length_take, List.length_drop]; omega
        rw [← pgBody_spec _ (by omega)]
        cases hr : pgBody ((bs.drop 4).take (beNat (bs.take 4) - 4)) with
        | ok v =>
          simp only [Prog.ofRes, Prog.run]
          constructor
          · intro h; subst h; exact ⟨hl, by omega, by omega, by omega, rfl⟩
          · rintro ⟨_, _, _, _, h⟩; injection h
        | err c =>
          simp only [Prog.ofRes, Prog.run]
          constructor
          · intro h; cases h
          · rintro ⟨_, _, _, _, h⟩; cases h
        | panic s =>
          simp only [Prog.ofRes, Prog.run]
          constructor
          · intro h; cases h
          · rintro ⟨_, _, _, _, h⟩; cases h
      · rw [if_neg hd]
        constructor
        · intro h; cases h
        · rintro ⟨_, _, _, h3, _⟩; omega
  · rw [if_neg hl]
    rw [h4] at hl
    constructor
    · intro h; cases h
    · rintro ⟨h, _⟩; omega


end

end L4.C14

import L4.Prog
namespace L4.C14
theorem placeholder : True := trivial
end L4.C14

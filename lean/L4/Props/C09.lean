import L4.Proofs.Udp
import L4.UdpOld
import L4.Gen.Facts
/-!
# C09 — UDP datagrams are demultiplexed per client, in order; the loop never crashes
Transition system `L4/Udp.lean` of `Server.servePacket` / `packetConn` after the repair, for every interleaving of
arrivals from any number of addresses, loop steps, handler reads, idle expiry and `Close`.
-/
namespace L4.C09
open L4 L4.Udp

/-- the structural fact the model relies on: `packetConn.Close` no longer closes `readCh` (the loop may still send to it) -/
theorem readCh_never_closed : Gen.fact_packetConn_Close_closes_readCh = false := by decide

/-- **Own datagrams only**: every datagram an association has received (delivered to its handler or queued for it) was
sent by that association's client address -/
theorem only_own_datagrams (acts : List Act) (s : St) (h : runActs {} acts = some s) (k : Nat) (c : PC)
    (hc : s.conns k = some c) (d : Nat) (hd : d ∈ c.got) : s.src d = c.addr :=
  ((inv_run acts {} s inv_init h).mine k c hc d hd).1

/-- **In arrival order**: what an association receives is strictly increasing in arrival number (no reordering, no
duplication) -/
theorem arrival_order (acts : List Act) (s : St) (h : runActs {} acts = some s) (k : Nat) (c : PC)
    (hc : s.conns k = some c) : c.got.Pairwise (· < ·) :=
  (inv_run acts {} s inv_init h).ordered k c hc

/-- in particular the handler's reads are in arrival order -/
theorem delivered_in_order (acts : List Act) (s : St) (h : runActs {} acts = some s) (k : Nat) (c : PC)
    (hc : s.conns k = some c) : c.delivered.Pairwise (· < ·) := by
  have := arrival_order acts s h k c hc
  simp only [PC.got] at this
  exact (List.pairwise_append.mp this).1

/-- **The loop never crashes**: no reachable state has sent on or closed a closed channel -/
theorem loop_never_crashes (acts : List Act) (s : St) (h : runActs {} acts = some s) : s.crashed = false :=
  (inv_run acts {} s inv_init h).nocrash

/-- the association table always points to an association of that very address (replies go to `pc.addr`) -/
theorem table_consistent (acts : List Act) (s : St) (h : runActs {} acts = some s) (a k : Nat) (ha : s.assoc a = some k) :
    ∃ c, s.conns k = some c ∧ c.addr = a :=
  (inv_run acts {} s inv_init h).assoc_addr a k ha

/-- **Fresh after end**: once an association is closed its queue is empty and stays empty — the loop never routes a later
datagram to it (it starts a fresh association instead) -/
theorem closed_gets_nothing (acts : List Act) (s : St) (h : runActs {} acts = some s) (k : Nat) (c : PC)
    (hc : s.conns k = some c) (hd : c.done = true) : c.readq = [] :=
  (inv_run acts {} s inv_init h).done_empty k c hc hd

/-- one step: a datagram for an address whose association is closed creates a new association with a new id -/
theorem datagram_after_close_starts_fresh (s : St) (p : Nat) (rest : List Nat) (k : Nat) (c : PC)
    (hp : s.packets = p :: rest) (ha : s.assoc (s.src p) = some k) (hc : s.conns k = some c) (hd : c.done = true) :
    ∃ s', step s .loopPkt = some s' ∧ s'.assoc (s.src p) = some s.fresh ∧ s'.fresh = s.fresh + 1 := by
  refine ⟨_, by simp [step, hp, ha, hc, hd]; rfl, by simp [upd], rfl⟩

/-- witnesses of the two defects repaired by the `fix:` commit (old protocol) -/
theorem old_protocol_crashes : (UdpOld.runActs {} [.arrive 7 1, .loopPkt, .closeA 0, .arrive 7 2, .loopPkt]).map (·.crashed) = some true :=
  UdpOld.send_on_closed_channel

/-! non-vacuity: two clients interleaved, one association closed and re-created -/
example : ((runActs {} [.arrive 7, .arrive 9, .loopPkt, .loopPkt, .arrive 7, .loopPkt, .read 0, .read 0, .read 1, .close 0, .arrive 7, .loopPkt]).map
    fun s => ((s.conns 0).map (·.delivered), (s.conns 1).map (·.delivered), s.assoc 7)) = some (some [0, 2], some [1], some 2) := by
  decide

end L4.C09

import L4.LB
/-!
# C10 — Selection policies return an available upstream iff one exists

For every pool (any size, any peer state) and **every** outcome of the random source.
-/
namespace L4.C10
open L4 L4.LB

def NoneAvail (pool : Pool) : Prop := ∀ u ∈ pool, u.available = false

/-! ## first -/
theorem first_available (pool : Pool) (u : Upstream) (h : first pool = some u) : u ∈ pool ∧ u.available = true := by
  simp only [first] at h
  exact ⟨List.mem_of_find?_eq_some h, by simpa using List.find?_some h⟩

theorem first_none_iff (pool : Pool) : first pool = none ↔ NoneAvail pool := by
  simp [first, NoneAvail, List.find?_eq_none]

/-- `first` picks the earliest available upstream -/
theorem first_earliest (pre : Pool) (u : Upstream) (post : Pool) (hpre : ∀ v ∈ pre, v.available = false)
    (hu : u.available = true) : first (pre ++ u :: post) = some u := by
  simp only [first]
  induction pre with
  | nil => simp [List.find?, hu]
  | cons p ps ih =>
    simp only [List.cons_append, List.find?]
    rw [hpre p (by simp)]
    exact ih (fun v hv => hpre v (by simp [hv]))

/-! ## random -/
theorem randomAux_spec (pool : Pool) (count : Nat) (cur : Option Upstream) (o : List Nat) (P : Upstream → Prop)
    (hcur : ∀ u, cur = some u → P u) (hpool : ∀ u ∈ pool, u.available = true → P u)
    (hc : cur = none ↔ count = 0) :
    (∀ u, randomAux pool count cur o = some u → P u) ∧
    (randomAux pool count cur o = none ↔ (count = 0 ∧ NoneAvail pool)) := by
  induction pool generalizing count cur o with
  | nil => simp [randomAux, NoneAvail]; exact ⟨hcur, hc⟩
  | cons u us ih =>
    simp only [randomAux]
    by_cases ha : u.available = true
    · simp only [ha, Bool.not_true, Bool.false_eq_true, ↓reduceIte]
      have hP := hpool u (by simp) ha
      have hrest : ∀ v ∈ us, v.available = true → P v := fun v hv => hpool v (by simp [hv])
      split
      · have := ih (count + 1) (some u) (rnd o).2 (by intro v hv; cases hv; exact hP) hrest (by simp)
        refine ⟨this.1, ?_⟩
        rw [this.2]; simp [NoneAvail, ha]
      · have := ih (count + 1) cur (rnd o).2 hcur hrest (by
          constructor
          · intro hn
            -- cur = none means count = 0, then x % 1 = 0 always: contradiction with the branch
            rename_i hx
            have : count = 0 := hc.mp hn
            subst this
            exact absurd (Nat.mod_one _) hx
          · intro h; omega)
        refine ⟨this.1, ?_⟩
        rw [this.2]; simp [NoneAvail, ha]
    · have ha' : u.available = false := by simpa using ha
      simp only [ha', Bool.not_false, ↓reduceIte]
      have := ih count cur o hcur (fun v hv => hpool v (by simp [hv])) hc
      refine ⟨this.1, ?_⟩
      rw [this.2]; simp [NoneAvail, ha']

/-- `random` only ever chooses among the available, and returns none only when none is available -/
theorem random_available (pool : Pool) (o : List Nat) (u : Upstream) (h : random pool o = some u) :
    u ∈ pool ∧ u.available = true :=
  (randomAux_spec pool 0 none o (fun v => v ∈ pool ∧ v.available = true) (by simp) (fun v hv ha => ⟨hv, ha⟩) (by simp)).1 u h

theorem random_none_iff (pool : Pool) (o : List Nat) : random pool o = none ↔ NoneAvail pool := by
  have := (randomAux_spec pool 0 none o (fun _ => True) (by simp) (by simp) (by simp)).2
  simpa [random] using this

/-! ## least_conn -/
theorem leastConnAux_spec (pool : Pool) (least : Option Nat) (count : Nat) (best : Option Upstream) (o : List Nat)
    (P : Upstream → Prop) (hbest : ∀ u, best = some u → P u) (hpool : ∀ u ∈ pool, u.available = true → P u)
    (hc : best = none ↔ least = none) (hcount : least ≠ none → count > 0) :
    (∀ u, leastConnAux pool least count best o = some u → P u) ∧
    (leastConnAux pool least count best o = none ↔ (least = none ∧ NoneAvail pool)) := by
  induction pool generalizing least count best o with
  | nil => simp [leastConnAux, NoneAvail]; exact ⟨hbest, hc⟩
  | cons u us ih =>
    simp only [leastConnAux]
    have hrest : ∀ v ∈ us, v.available = true → P v := fun v hv => hpool v (by simp [hv])
    by_cases ha : u.available = true
    · simp only [ha, Bool.not_true, Bool.false_eq_true, ↓reduceIte]
      have hP := hpool u (by simp) ha
      cases least with
      | none =>
        -- first available upstream: least' = t, count' = 0, x % 1 = 0: it becomes the best
        simp only [↓reduceIte]
        have hx : (rnd o).1 % (0 + 1) = 0 := by omega
        rw [if_pos hx]
        have := ih (some u.totalConns) 1 (some u) (rnd o).2 (by intro v hv; cases hv; exact hP) hrest (by simp) (by simp)
        refine ⟨this.1, ?_⟩
        rw [this.2]; simp [NoneAvail, ha]
      | some l =>
        have hb : best ≠ none := by intro hn; have := hc.mp hn; cases this
        have hcnt := hcount (by simp)
        simp only []
        by_cases hlt : u.totalConns < l
        · simp only [hlt, ↓reduceIte]
          have hx : (rnd o).1 % (0 + 1) = 0 := by omega
          rw [if_pos hx]
          have := ih (some u.totalConns) 1 (some u) (rnd o).2 (by intro v hv; cases hv; exact hP) hrest (by simp) (by simp)
          refine ⟨this.1, ?_⟩
          rw [this.2]; simp [NoneAvail, ha]
        · simp only [hlt, ↓reduceIte]
          split
          · split
            · have := ih (some l) (count + 1) (some u) (rnd o).2 (by intro v hv; cases hv; exact hP) hrest (by simp) (by simp)
              refine ⟨this.1, ?_⟩
              rw [this.2]; simp [NoneAvail, ha]
            · have := ih (some l) (count + 1) best (rnd o).2 hbest hrest (by simp [hb]) (by simp)
              refine ⟨this.1, ?_⟩
              rw [this.2]; simp [NoneAvail, ha]
          · have := ih (some l) count best o hbest hrest (by simp [hb]) (by intro _; exact hcnt)
            refine ⟨this.1, ?_⟩
            rw [this.2]; simp [NoneAvail, ha]
    · have ha' : u.available = false := by simpa using ha
      simp only [ha', Bool.not_false, ↓reduceIte]
      have := ih least count best o hbest hrest hc hcount
      refine ⟨this.1, ?_⟩
      rw [this.2]; simp [NoneAvail, ha']

theorem leastConn_available (pool : Pool) (o : List Nat) (u : Upstream) (h : leastConn pool o = some u) :
    u ∈ pool ∧ u.available = true :=
  (leastConnAux_spec pool none 0 none o (fun v => v ∈ pool ∧ v.available = true) (by simp) (fun v hv ha => ⟨hv, ha⟩)
    (by simp) (by simp)).1 u h

theorem leastConn_none_iff (pool : Pool) (o : List Nat) : leastConn pool o = none ↔ NoneAvail pool := by
  have := (leastConnAux_spec pool none 0 none o (fun _ => True) (by simp) (by simp) (by simp) (by simp)).2
  simpa [leastConn] using this

/-! ## ip_hash -/
theorem hrwAux_spec (pool : Pool) (s : Bytes) (best : Option (Upstream × Nat)) (P : Upstream → Prop)
    (hbest : ∀ u h, best = some (u, h) → P u) (hpool : ∀ u ∈ pool, u.available = true → P u) :
    (∀ u h, hrwAux pool s best = some (u, h) → P u) ∧ (hrwAux pool s best = none ↔ (best = none ∧ NoneAvail pool)) := by
  induction pool generalizing best with
  | nil => simp [hrwAux, NoneAvail]; exact hbest
  | cons u us ih =>
    simp only [hrwAux]
    have hrest : ∀ v ∈ us, v.available = true → P v := fun v hv => hpool v (by simp [hv])
    by_cases ha : u.available = true
    · simp only [ha, Bool.not_true, Bool.false_eq_true, ↓reduceIte]
      have hP := hpool u (by simp) ha
      cases best with
      | none =>
        have := ih (some (u, fnv32a (u.name ++ s))) (by intro v h hv; cases hv; exact hP) hrest
        refine ⟨this.1, ?_⟩
        rw [this.2]; simp [NoneAvail, ha]
      | some b =>
        obtain ⟨bu, bh⟩ := b
        simp only []
        split
        · have := ih (some (u, fnv32a (u.name ++ s))) (by intro v h hv; cases hv; exact hP) hrest
          refine ⟨this.1, ?_⟩
          rw [this.2]; simp [NoneAvail, ha]
        · have := ih (some (bu, bh)) hbest hrest
          refine ⟨this.1, ?_⟩
          rw [this.2]; simp [NoneAvail, ha]
    · have ha' : u.available = false := by simpa using ha
      simp only [ha', Bool.not_false, ↓reduceIte]
      have := ih best hbest hrest
      refine ⟨this.1, ?_⟩
      rw [this.2]; simp [NoneAvail, ha']

theorem ipHash_available (pool : Pool) (ip : Bytes) (u : Upstream) (h : ipHash pool ip = some u) :
    u ∈ pool ∧ u.available = true := by
  simp only [ipHash, Option.map_eq_some_iff] at h
  obtain ⟨⟨v, hv⟩, h1, h2⟩ := h
  cases h2
  exact (hrwAux_spec pool ip none (fun v => v ∈ pool ∧ v.available = true) (by simp) (fun v hv ha => ⟨hv, ha⟩)).1 _ _ h1

theorem ipHash_none_iff (pool : Pool) (ip : Bytes) : ipHash pool ip = none ↔ NoneAvail pool := by
  have := (hrwAux_spec pool ip none (fun _ => True) (by simp) (by simp)).2
  simp [ipHash, this]

/-- `ip_hash` is a function of the client IP and the pool (deterministic) -/
theorem ipHash_deterministic (pool : Pool) (ip : Bytes) : ipHash pool ip = ipHash pool ip := rfl

/-! ## round_robin -/
theorem rrAux_some (pool : Pool) (n first k i robin : Nat) (u : Upstream) (r : Nat)
    (h : rrAux pool n first k i robin = (some u, r)) : u ∈ pool ∧ u.available = true := by
  induction k generalizing i robin with
  | zero => simp [rrAux] at h
  | succ k ih =>
    simp only [rrAux] at h
    split at h
    · rename_i hd hget
      split at h
      · rename_i ha
        simp only [Prod.mk.injEq, Option.some.injEq] at h
        obtain ⟨rfl, _⟩ := h
        exact ⟨List.mem_of_getElem? hget, ha⟩
      · exact ih _ _ h
    · simp at h

theorem rrAux_none (pool : Pool) (n first k i robin : Nat) (hn : n = pool.length) (hpos : 0 < n) :
    (rrAux pool n first k i robin).1 = none ↔ ∀ j, i ≤ j → j < i + k → ∀ v, pool[(first + j) % n]? = some v → v.available = false := by
  induction k generalizing i robin with
  | zero => simp [rrAux]; intro j h1 h2; omega
  | succ k ih =>
    simp only [rrAux]
    have hlt : (first + i) % n < pool.length := by rw [← hn]; exact Nat.mod_lt _ hpos
    have hget : pool[(first + i) % n]? = some pool[(first + i) % n] := List.getElem?_eq_getElem hlt
    rw [hget]
    simp only []
    split
    · rename_i ha
      simp only [reduceCtorEq, false_iff]
      intro hall
      have := hall i (Nat.le_refl _) (by omega) _ hget
      rw [ha] at this; cases this
    · rename_i ha
      rw [ih (i + 1)]
      constructor
      · intro hall j h1 h2 v hv
        by_cases hji : j = i
        · subst hji; rw [hget] at hv; cases hv; simpa using ha
        · exact hall j (by omega) (by omega) v hv
      · intro hall j h1 h2 v hv
        exact hall j (by omega) (by omega) v hv

/-- round robin returns an available upstream -/
theorem roundRobin_available (pool : Pool) (robin : Nat) (u : Upstream) (r : Nat) (h : roundRobin pool robin = (some u, r)) :
    u ∈ pool ∧ u.available = true := by
  simp only [roundRobin] at h
  split at h
  · simp at h
  · exact rrAux_some _ _ _ _ _ _ _ _ h

/-- … and none only when none is available, whatever the counter value (also across the uint32 wrap) -/
theorem roundRobin_none_iff (pool : Pool) (robin : Nat) : (roundRobin pool robin).1 = none ↔ NoneAvail pool := by
  simp only [roundRobin]
  split
  · rename_i h0
    have : pool = [] := List.eq_nil_of_length_eq_zero h0
    subst this; simp [NoneAvail]
  · rename_i h0
    have hpos : 0 < pool.length := by omega
    rw [rrAux_none pool pool.length _ pool.length 0 robin rfl hpos]
    generalize ((robin + 1) % 2 ^ 32) % pool.length = first
    constructor
    · intro hall u hu
      obtain ⟨m, hm, hget⟩ := List.getElem_of_mem hu
      -- the probe j = (m + n − first % n) % n hits slot m
      have hf : first % pool.length < pool.length := Nat.mod_lt _ hpos
      let j := (m + pool.length - first % pool.length) % pool.length
      have hj : j < pool.length := Nat.mod_lt _ hpos
      have hidx : (first + j) % pool.length = m := by
        show (first + (m + pool.length - first % pool.length) % pool.length) % pool.length = m
        rw [Nat.add_mod, Nat.mod_mod, ← Nat.add_mod]
        have hdm := Nat.div_add_mod first pool.length
        have e : first + (m + pool.length - first % pool.length) = pool.length * (first / pool.length) + (m + pool.length) := by
          omega
        rw [e, Nat.mul_add_mod, Nat.add_mod_right, Nat.mod_eq_of_lt hm]
      have := hall j (Nat.zero_le _) (by omega) u (by rw [hidx, List.getElem?_eq_getElem hm, hget])
      exact this
    · intro hall j _ _ v hv
      exact hall v (List.mem_of_getElem? hv)

/-! ## random_choose -/
theorem reservoir_spec (k : Nat) (hk : 0 < k) (pool : Pool) (seen : Nat) (ch : List Upstream) (o : List Nat) (P : Upstream → Prop)
    (hch : ∀ u ∈ ch, P u) (hpool : ∀ u ∈ pool, u.available = true → P u) :
    (∀ u ∈ (reservoir k pool seen ch o).1, P u) ∧
    ((reservoir k pool seen ch o).1 = [] ↔ (ch = [] ∧ NoneAvail pool)) := by
  induction pool generalizing seen ch o with
  | nil => simp [reservoir, NoneAvail]; exact hch
  | cons u us ih =>
    simp only [reservoir]
    have hrest : ∀ v ∈ us, v.available = true → P v := fun v hv => hpool v (by simp [hv])
    by_cases ha : u.available = true
    · simp only [ha, Bool.not_true, Bool.false_eq_true, ↓reduceIte]
      have hP := hpool u (by simp) ha
      split
      · have := ih (seen + 1) (ch ++ [u]) o (by
          intro v hv; rcases List.mem_append.mp hv with h | h
          · exact hch v h
          · simp at h; subst h; exact hP) hrest
        refine ⟨this.1, ?_⟩
        rw [this.2]; simp [NoneAvail, ha]
      · rename_i hfull
        have hne : ch ≠ [] := by intro h; subst h; simp at hfull; omega
        split
        · have := ih (seen + 1) (ch.set ((rnd o).1 % (seen + 1)) u) (rnd o).2 (by
            intro v hv
            rcases List.mem_or_eq_of_mem_set hv with h | h
            · exact hch v h
            · subst h; exact hP) hrest
          refine ⟨this.1, ?_⟩
          rw [this.2]; simp [NoneAvail, ha, hne]
        · have := ih (seen + 1) ch (rnd o).2 hch hrest
          refine ⟨this.1, ?_⟩
          rw [this.2]; simp [NoneAvail, ha, hne]
    · have ha' : u.available = false := by simpa using ha
      simp only [ha', Bool.not_false, ↓reduceIte]
      have := ih seen ch o hch hrest
      refine ⟨this.1, ?_⟩
      rw [this.2]; simp [NoneAvail, ha']

theorem foldl_min_mem (l : List Nat) (a : Nat) : l.foldl min a = a ∨ l.foldl min a ∈ l := by
  induction l generalizing a with
  | nil => simp
  | cons x xs ih =>
    simp only [List.foldl_cons]
    rcases ih (min a x) with h | h
    · rw [h]
      rcases Nat.le_total a x with hle | hle
      · left; exact Nat.min_eq_left hle
      · right; rw [Nat.min_eq_right hle]; simp
    · right; simp [h]

theorem leastConnsOf_spec (ch : List Upstream) (o : List Nat) :
    (∀ u, leastConnsOf ch o = some u → u ∈ ch) ∧ (leastConnsOf ch o = none ↔ ch = []) := by
  unfold leastConnsOf
  split
  · rename_i u hf
    exact ⟨by intro v hv; cases hv; exact List.mem_of_find?_eq_some hf, by
      simp; intro h; subst h; simp at hf⟩
  · cases ch with
    | nil => simp
    | cons c cs =>
      simp only []
      -- the minimum is attained, so the filter is not empty and the index is in range
      have hm := foldl_min_mem (((c :: cs).map (·.totalConns))) ((c :: cs).headD default).totalConns
      have hne : ((c :: cs).filter fun u => u.totalConns = ((c :: cs).map (·.totalConns)).foldl min ((c :: cs).headD default).totalConns) ≠ [] := by
        intro hnil
        rw [List.filter_eq_nil_iff] at hnil
        rcases hm with h | h
        · have := hnil c (by simp)
          rw [h] at this; simp at this
        · simp only [List.mem_map] at h
          obtain ⟨v, hv, hvm⟩ := h
          have := hnil v hv
          simp [hvm] at this
      generalize hb : ((c :: cs).filter fun u => u.totalConns = ((c :: cs).map (·.totalConns)).foldl min ((c :: cs).headD default).totalConns) = best at hne
      have hlen : 0 < best.length := List.length_pos_iff.mpr hne
      have hidx : (rnd o).1 % best.length < best.length := Nat.mod_lt _ hlen
      refine ⟨?_, by simp [List.getElem?_eq_getElem hidx]⟩
      intro u hu
      rw [List.getElem?_eq_getElem hidx] at hu
      cases hu
      have hmem : best[(rnd o).1 % best.length] ∈ best := List.getElem_mem hidx
      have hsub : ∀ v ∈ best, v ∈ c :: cs := by
        intro v hv; rw [← hb] at hv; exact (List.mem_filter.mp hv).1
      exact hsub _ hmem

/-- `random_choose k` (k ≥ 1 after clamping to the pool size) only ever returns an available upstream … -/
theorem randomChoose_available (choose : Nat) (hc : 0 < choose) (pool : Pool) (o : List Nat) (u : Upstream)
    (h : randomChoose choose pool o = some u) : u ∈ pool ∧ u.available = true := by
  simp only [randomChoose] at h
  have hmem := (leastConnsOf_spec _ _).1 u h
  cases pool with
  | nil => simp [reservoir] at hmem
  | cons p ps =>
    have hk : 0 < min choose (p :: ps).length := by simp; omega
    exact (reservoir_spec _ hk (p :: ps) 0 [] o (fun v => v ∈ (p :: ps) ∧ v.available = true) (by simp) (fun v hv ha => ⟨hv, ha⟩)).1 u hmem

/-- … and returns none only when no upstream is available -/
theorem randomChoose_none_iff (choose : Nat) (hc : 0 < choose) (pool : Pool) (o : List Nat) :
    randomChoose choose pool o = none ↔ NoneAvail pool := by
  simp only [randomChoose]
  rw [(leastConnsOf_spec _ _).2]
  cases pool with
  | nil => simp [reservoir, NoneAvail]
  | cons p ps =>
    have hk : 0 < min choose (p :: ps).length := by simp; omega
    have := (reservoir_spec _ hk (p :: ps) 0 [] o (fun _ => True) (by simp) (by simp)).2
    simpa using this

/-- witness of the defect repaired by a `fix:` commit: before it, a winning hash of 0 left the choice empty; the pair
(`127.0.0.1:1013`, `10.151.16.46`) hashes to 0 -/
theorem fnv_zero_witness :
    fnv32a ([49, 50, 55, 46, 48, 46, 48, 46, 49, 58, 49, 48, 49, 51] ++ [49, 48, 46, 49, 53, 49, 46, 49, 54, 46, 52, 54]) = 0 := by
  decide +kernel

end L4.C10

/-! ## contracts beyond availability (added): least_conn minimality, ip_hash maximal weight, round-robin turn -/
namespace L4.C10
open L4 L4.LB

/-- invariant of the least_conn scan: the current best candidate has exactly `least` connections, and the result has at most as
many connections as `least` and as every available upstream still to be scanned -/
theorem leastConnAux_min (pool : Pool) (least : Option Nat) (count : Nat) (best : Option Upstream) (o : List Nat)
    (hb : ∀ b, best = some b → least = some b.totalConns) (hc : best = none ↔ least = none) :
    ∀ u, leastConnAux pool least count best o = some u →
      (∀ l, least = some l → u.totalConns ≤ l) ∧ (∀ v ∈ pool, v.available = true → u.totalConns ≤ v.totalConns) := by
  induction pool generalizing least count best o with
  | nil =>
    intro u hu
    simp only [leastConnAux] at hu
    refine ⟨fun l hl => ?_, fun v hv => by cases hv⟩
    have := hb u hu; rw [this] at hl; cases hl; exact Nat.le_refl _
  | cons w ws ih =>
    intro u hu
    simp only [leastConnAux] at hu
    by_cases ha : w.available = true
    · simp only [ha, Bool.not_true, Bool.false_eq_true, ↓reduceIte] at hu
      -- the new least value
      cases least with
      | none =>
        simp only [↓reduceIte] at hu
        have hx : (rnd o).1 % (0 + 1) = 0 := by omega
        rw [if_pos hx] at hu
        have := ih (some w.totalConns) 1 (some w) (rnd o).2 (by intro b hb'; cases hb'; rfl) (by simp) u hu
        refine ⟨fun l hl => (by cases hl), fun v hv hva => ?_⟩
        rcases List.mem_cons.mp hv with hv | hv
        · subst hv; exact this.1 _ rfl
        · exact this.2 v hv hva
      | some l =>
        have hbn : best ≠ none := by intro hn; have := hc.mp hn; cases this
        simp only [] at hu
        by_cases hlt : w.totalConns < l
        · simp only [hlt, ↓reduceIte] at hu
          have hx : (rnd o).1 % (0 + 1) = 0 := by omega
          rw [if_pos hx] at hu
          have := ih (some w.totalConns) 1 (some w) (rnd o).2 (by intro b hb'; cases hb'; rfl) (by simp) u hu
          refine ⟨fun l' hl' => ?_, fun v hv hva => ?_⟩
          · cases hl'; have := this.1 _ rfl; omega
          · rcases List.mem_cons.mp hv with hv | hv
            · subst hv; exact this.1 _ rfl
            · exact this.2 v hv hva
        · simp only [hlt, ↓reduceIte] at hu
          split at hu
          · rename_i heq
            split at hu
            · have := ih (some l) (count + 1) (some w) (rnd o).2 (by intro b hb'; cases hb'; rw [heq]) (by simp) u hu
              refine ⟨fun l' hl' => (by cases hl'; exact this.1 _ rfl), fun v hv hva => ?_⟩
              rcases List.mem_cons.mp hv with hv | hv
              · subst hv; have := this.1 _ rfl; omega
              · exact this.2 v hv hva
            · have := ih (some l) (count + 1) best (rnd o).2 hb (by simp [hbn]) u hu
              refine ⟨fun l' hl' => (by cases hl'; exact this.1 _ rfl), fun v hv hva => ?_⟩
              rcases List.mem_cons.mp hv with hv | hv
              · subst hv; have := this.1 _ rfl; omega
              · exact this.2 v hv hva
          · rename_i hne
            have := ih (some l) count best o hb (by simp [hbn]) u hu
            refine ⟨fun l' hl' => (by cases hl'; exact this.1 _ rfl), fun v hv hva => ?_⟩
            rcases List.mem_cons.mp hv with hv | hv
            · subst hv; have := this.1 _ rfl; omega
            · exact this.2 v hv hva
    · have ha' : w.available = false := by simpa using ha
      simp only [ha', Bool.not_false, ↓reduceIte] at hu
      have := ih least count best o hb hc u hu
      refine ⟨this.1, fun v hv hva => ?_⟩
      rcases List.mem_cons.mp hv with hv | hv
      · subst hv; rw [ha'] at hva; cases hva
      · exact this.2 v hv hva

/-- **least_conn picks a least-loaded upstream**: no available upstream has fewer open connections than the one returned,
whatever the random source says -/
theorem leastConn_minimal (pool : Pool) (o : List Nat) (u : Upstream) (h : leastConn pool o = some u) :
    ∀ v ∈ pool, v.available = true → u.totalConns ≤ v.totalConns :=
  (leastConnAux_min pool none 0 none o (by intro b hb; cases hb) (by simp) u h).2

/-- invariant of the rendezvous scan: the weight carried with the best candidate is its own weight, and the result's weight is
at least the carried weight and the weight of every available upstream still to be scanned -/
theorem hrwAux_max (pool : Pool) (s : Bytes) (best : Option (Upstream × Nat))
    (hb : ∀ b h, best = some (b, h) → h = fnv32a (b.name ++ s)) :
    ∀ u h, hrwAux pool s best = some (u, h) →
      h = fnv32a (u.name ++ s) ∧ (∀ b hb', best = some (b, hb') → hb' ≤ h) ∧
      (∀ v ∈ pool, v.available = true → fnv32a (v.name ++ s) ≤ h) := by
  induction pool generalizing best with
  | nil =>
    intro u h hu
    simp only [hrwAux] at hu
    refine ⟨hb u h hu, fun b hb' hbb => ?_, fun v hv => by cases hv⟩
    rw [hu] at hbb; cases hbb; exact Nat.le_refl _
  | cons w ws ih =>
    intro u h hu
    simp only [hrwAux] at hu
    by_cases ha : w.available = true
    · simp only [ha, Bool.not_true, Bool.false_eq_true, ↓reduceIte] at hu
      cases best with
      | none =>
        simp only [] at hu
        have := ih (some (w, fnv32a (w.name ++ s))) (by intro b h' hbb; cases hbb; rfl) u h hu
        refine ⟨this.1, fun b hb' hbb => (by cases hbb), fun v hv hva => ?_⟩
        rcases List.mem_cons.mp hv with hv | hv
        · subst hv; exact this.2.1 _ _ rfl
        · exact this.2.2 v hv hva
      | some b =>
        obtain ⟨bu, bh⟩ := b
        simp only [] at hu
        split at hu
        · rename_i hgt
          have := ih (some (w, fnv32a (w.name ++ s))) (by intro b h' hbb; cases hbb; rfl) u h hu
          refine ⟨this.1, fun b hb' hbb => ?_, fun v hv hva => ?_⟩
          · cases hbb; have := this.2.1 _ _ rfl; omega
          · rcases List.mem_cons.mp hv with hv | hv
            · subst hv; exact this.2.1 _ _ rfl
            · exact this.2.2 v hv hva
        · rename_i hle
          have := ih (some (bu, bh)) hb u h hu
          refine ⟨this.1, fun b hb' hbb => (by cases hbb; exact this.2.1 _ _ rfl), fun v hv hva => ?_⟩
          rcases List.mem_cons.mp hv with hv | hv
          · subst hv; have := this.2.1 _ _ rfl; omega
          · exact this.2.2 v hv hva
    · have ha' : w.available = false := by simpa using ha
      simp only [ha', Bool.not_false, ↓reduceIte] at hu
      have := ih best hb u h hu
      refine ⟨this.1, this.2.1, fun v hv hva => ?_⟩
      rcases List.mem_cons.mp hv with hv | hv
      · subst hv; rw [ha'] at hva; cases hva
      · exact this.2.2 v hv hva

/-- **ip_hash is rendezvous hashing**: the upstream returned has the highest FNV-1a weight `hash(name ++ ip)` among the available
upstreams — so it depends only on the client address and on which upstreams are available, and an upstream leaving or joining
the pool changes the choice only for the clients whose highest weight it carries -/
theorem ipHash_max_weight (pool : Pool) (ip : Bytes) (u : Upstream) (h : ipHash pool ip = some u) :
    ∀ v ∈ pool, v.available = true → fnv32a (v.name ++ ip) ≤ fnv32a (u.name ++ ip) := by
  unfold ipHash at h
  cases hr : hrwAux pool ip none with
  | none => rw [hr] at h; cases h
  | some r =>
    obtain ⟨ru, rh⟩ := r
    rw [hr] at h; simp at h; subst h
    have := hrwAux_max pool ip none (by intro b h hb; cases hb) ru rh hr
    intro v hv hva
    rw [← this.1]; exact this.2.2 v hv hva

/-- **round robin takes turns**: when the upstream whose turn it is (slot `(counter + 1) mod n`) is available it is the one
returned and the counter advances by exactly one; so over `n` consecutive selections on a pool whose upstreams all stay
available every upstream is returned exactly once (slots `counter+1 … counter+n` modulo `n`, without a counter wrap) -/
theorem roundRobin_turn (pool : Pool) (robin : Nat) (hn : pool.length ≠ 0) (u : Upstream)
    (hu : pool[((robin + 1) % 2 ^ 32) % pool.length]? = some u) (ha : u.available = true) :
    roundRobin pool robin = (some u, (robin + 1) % 2 ^ 32) := by
  unfold roundRobin
  rw [if_neg hn]
  cases hl : pool.length with
  | zero => exact absurd hl hn
  | succ k =>
    rw [hl] at hu
    simp only [rrAux, Nat.add_zero]
    have hm : ((robin + 1) % 2 ^ 32 % (k + 1)) % (k + 1) = (robin + 1) % 2 ^ 32 % (k + 1) := Nat.mod_mod _ _
    rw [hm, hu]
    simp [ha]

end L4.C10

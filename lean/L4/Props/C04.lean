import L4.Proofs.Res
import L4.Matchers.Small
import L4.Matchers.Winbox
import L4.Matchers.Wireguard
import L4.Matchers.More
import L4.Gen.Census
import L4.Proofs.Rdp
import L4.Proofs.Winbox
/-!
# C04 — No remote input makes a matcher panic or allocate without bound

For the executable models of the matchers (which mirror every index / slice / `make` of the Go code with checked
primitives): for **every** byte string the verdict is never `panic`, and the read buffers allocated are bounded by a
small multiple of the matching limit (`allocBound` = 32 × MaxMatchingBytes).
-/
namespace L4.C04
open L4 L4.M L4.Gen L4.Prog

def allocBound : Nat := 32 * layer4_MaxMatchingBytes

/-- a matcher program is total: never panics, never allocates more than the bound -/
def Total (p : Prog) : Prop := ∀ bs : Bytes, p.run bs ≠ .panic ∧ p.alloc bs ≤ allocBound

theorem total_of {p : Prog} (h1 : Safe p) (h2 : AllocLe p allocBound) : Total p :=
  fun bs => ⟨h1.run_ne_panic bs, h2.alloc_le bs⟩

theorem ite_ne_panic (c : Prop) [Decidable c] : (if c then Verdict.yes else Verdict.no) ≠ .panic := by
  split <;> simp

theorem u8_le (b : UInt8) : b.toNat ≤ 255 := by have := b.toNat_lt; omega
theorem be16_le (a b : UInt8) : be16 a b ≤ 65535 := by
  have := a.toNat_lt; have := b.toNat_lt; simp only [be16]; omega

/-! ## matchers without any index expression -/

theorem ssh_total : Total ssh :=
  total_of (.readFull _ _ fun _ _ => .ret _ (ite_ne_panic _))
    (.readFull _ _ _ (by decide) fun _ _ => .ret _ _)

theorem xmpp_total : Total xmpp :=
  total_of (.readFull _ _ fun _ _ => .ret _ (ite_ne_panic _))
    (.readFull _ _ _ (by decide) fun _ _ => .ret _ _)

theorem pp_leaf (a b : Prop) [Decidable a] [Decidable b] :
    (if a then Verdict.yes else if b then Verdict.yes else Verdict.no) ≠ .panic := by
  split
  · simp
  · exact ite_ne_panic _

theorem proxyProto_total : Total proxyProto :=
  total_of (.readFull _ _ fun _ _ => .ret _ (pp_leaf _ _))
    (.readFull _ _ _ (by decide) fun _ _ => .ret _ _)

/-- regexp: `count` is a uint16 in the configuration -/
theorem regexp_total (count : Nat) (hc : count < 65536) (re : Bytes → Bool) : Total (regexp count re) :=
  total_of (.readFull _ _ fun _ _ => .ret _ (ite_ne_panic _))
    (.readFull _ _ _ (by simp only [allocBound, layer4_MaxMatchingBytes, l4regexp_minCount]; split <;> omega)
      fun _ _ => .ret _ _)

theorem socks5_total (ms : List Nat) : Total (socks5 ms) := by
  refine total_of ?_ ?_
  · refine .readFull _ _ fun v _ => ?_
    split
    · exact .ret _ (by simp)
    · exact .readFull _ _ fun n _ => .readFull _ _ fun _ _ => .ret _ (ite_ne_panic _)
  · refine .readFull _ _ _ (by decide) fun v _ => ?_
    split
    · exact .ret _ _
    · refine .readFull _ _ _ (by decide) fun n _ => .readFull _ _ _ ?_ fun _ _ => .ret _ _
      have := u8_le (n.headD 0); simp only [allocBound, layer4_MaxMatchingBytes]; omega

theorem tls_total (sub : Bytes → Bool) : Total (tls sub) := by
  refine total_of ?_ ?_
  · refine .readFull _ _ fun h _ => ?_
    split
    · exact .ret _ (by simp)
    · exact .readFull _ _ fun _ _ => .ret _ (ite_ne_panic _)
  · refine .readFull _ _ _ (by decide) fun h _ => ?_
    split
    · exact .ret _ _
    · refine .readFull _ _ _ ?_ fun _ _ => .ret _ _
      have := be16_le (h.getD 3 0) (h.getD 4 0); simp only [allocBound, layer4_MaxMatchingBytes]; omega

theorem wireguard_total (zero : Nat) : Total (Wireguard.matcher zero) := by
  refine total_of ?_ ?_
  · refine .readAtLeast _ _ _ fun b _ _ => ?_
    split
    · exact .ret _ (ite_ne_panic _)
    · split
      · exact .ret _ (ite_ne_panic _)
      · exact .ret _ (by simp)
  · refine .readAtLeast _ _ _ _ (by decide) fun b _ _ => ?_
    split
    · exact .ret _ _
    · split <;> exact .ret _ _

/-! ## socks4: four checked index / slice expressions on the 8-byte buffer -/

theorem socks4Body_safe (cfg : Socks4Cfg) (buf : Bytes) (h : buf.length = 8) :
    (socks4Body cfg buf).isPanic = false ∧ ∀ v, socks4Body cfg buf = .ok v → v ≠ .panic := by
  have i0 := idx_ok buf 0 "socks4.buf[0]" (by omega)
  have i1 := idx_ok buf 1 "socks4.buf[1]" (by omega)
  have s1 := slice_ok buf 2 4 "socks4.buf[2:4]" (by omega) (by omega)
  have s2 := slice_ok buf 4 8 "socks4.buf[4:8]" (by omega) (by omega)
  unfold socks4Body
  simp only [i0, i1, s1, s2, Res.bind_ok]
  constructor
  · repeat' split
    all_goals simp_all [Res.isPanic, pure]
  · intro v hv
    repeat' split at hv
    all_goals simp_all [pure]
    all_goals (try subst hv) <;> simp

theorem socks4_total (cfg : Socks4Cfg) : Total (socks4 cfg) :=
  total_of
    (.readFull _ _ fun b hb => ofRes_safe _ (socks4Body_safe cfg b hb).1 (socks4Body_safe cfg b hb).2)
    (.readFull _ _ _ (by decide) fun b _ => by
      unfold ofRes; split <;> exact .ret _ _)

/-! ## postgres: the `ReadString` scanning loop and the parameter loop -/

theorem pgScan_ok (data : Bytes) (f e : Nat) (he : e ≤ data.length) :
    ∃ e', pgScan data f e = .ok e' ∧ e ≤ e' ∧ e' ≤ data.length := by
  induction f generalizing e with
  | zero => exact ⟨e, rfl, Nat.le_refl _, he⟩
  | succ f ih =>
    unfold pgScan
    split
    · exact ⟨e, rfl, Nat.le_refl _, he⟩
    · rename_i hne
      have hlt : e < data.length := by omega
      rw [idx_ok data e _ hlt]
      simp only [Res.bind_ok]
      split
      · exact ⟨e, rfl, Nat.le_refl _, he⟩
      · obtain ⟨e', h1, h2, h3⟩ := ih (e + 1) (by omega)
        exact ⟨e', h1, by omega, h3⟩

theorem pgReadString_ok (data : Bytes) (off : Nat) : ∃ r, pgReadString data off = .ok r := by
  unfold pgReadString
  split
  · exact ⟨_, rfl⟩
  · rename_i h
    obtain ⟨e, h1, h2, h3⟩ := pgScan_ok data (data.length + 1) off (by omega)
    rw [h1]
    simp only [Res.bind_ok]
    rw [slice_ok data off e _ h2 h3]
    exact ⟨_, rfl⟩

theorem pgParams_ok (data : Bytes) (f off n : Nat) : ∃ r, pgParams data f off n = .ok r := by
  induction f generalizing off n with
  | zero => exact ⟨n, rfl⟩
  | succ f ih =>
    unfold pgParams
    obtain ⟨⟨k, off1⟩, h1⟩ := pgReadString_ok data off
    rw [h1]
    simp only [Res.bind_ok]
    split
    · exact ⟨n, rfl⟩
    · obtain ⟨⟨v, off2⟩, h2⟩ := pgReadString_ok data off1
      rw [h2]
      simp only [Res.bind_ok]
      exact ih off2 (n + 1)

theorem pgBody_safe (data : Bytes) (h : 4 ≤ data.length) :
    (pgBody data).isPanic = false ∧ ∀ v, pgBody data = .ok v → v ≠ .panic := by
  unfold pgBody
  rw [slice_ok data 0 4 _ (by omega) h]
  simp only [Res.bind_ok]
  split
  · exact ⟨rfl, by intro v hv; cases hv; simp⟩
  · split
    · exact ⟨rfl, by intro v hv; cases hv⟩
    · obtain ⟨n, hn⟩ := pgParams_ok data (data.length + 1) 4 0
      rw [hn]
      simp only [Res.bind_ok]
      exact ⟨rfl, by intro v hv; cases hv; split <;> simp⟩

theorem postgres_total : Total postgres := by
  refine total_of ?_ ?_
  · refine .readFull _ _ fun head _ => ?_
    simp only []
    split
    · exact .ret _ (by simp)
    · rename_i hsz
      refine .readFull _ _ fun data hd => ?_
      have h4 : 4 ≤ data.length := by
        simp only [l4postgres_initMessageSizeLength] at hsz hd; omega
      exact ofRes_safe _ (pgBody_safe data h4).1 (pgBody_safe data h4).2
  · refine .readFull _ _ _ (by decide) fun head _ => ?_
    simp only []
    split
    · exact .ret _ _
    · rename_i hsz
      refine .readFull _ _ _ ?_ fun data _ => ?_
      · simp only [allocBound, layer4_MaxMatchingBytes, l4postgres_initMessageSizeLength] at hsz ⊢; omega
      · unfold ofRes; split <;> exact .ret _ _

/-- witness for the defect repaired by the `fix:` commit: with the length check removed, `len − 4` on a uint32 asks for a
4 GiB buffer on the 4-byte input `00 00 00 00` -/
theorem postgres_unfixed_alloc_witness : (2 ^ 32 + beNat [0, 0, 0, 0] - 4) % 2 ^ 32 > allocBound := by decide

/-! ## http: the request-line test indexes relative to the first line feed -/

theorem indexOf_spec (b : UInt8) (l : Bytes) (k i : Nat) (h : indexOf b l k = some i) : k ≤ i ∧ i < k + l.length := by
  induction l generalizing k with
  | nil => simp [indexOf] at h
  | cons x xs ih =>
    simp only [indexOf] at h
    split at h
    · cases h; simp
    · have := ih (k + 1) h; simp; omega

theorem isHttp_safe (data : Bytes) : (isHttp data).isPanic = false := by
  unfold isHttp
  split
  · rfl
  · rename_i i hi
    have hb := indexOf_spec _ _ _ _ hi
    split
    · rfl
    · rename_i h10
      rw [idx_ok data (i - 1) _ (by omega)]
      simp only [Res.bind_ok]
      split
      · rw [slice_ok data (i - 9 - 1) (i - 3 - 1) _ (by omega) (by omega)]; rfl
      · rw [slice_ok data (i - 9) (i - 3) _ (by omega) (by omega)]; rfl

theorem http_no_panic (parse : Bytes → Verdict) (hp : ∀ b, parse b ≠ .panic) (data : Bytes) : http parse data ≠ .panic := by
  unfold http
  have := isHttp_safe data
  split
  · simp_all [Res.isPanic]
  · simp
  · split <;> simp
  · simp
  · exact hp _

/-! ## winbox: the chunk loop of `MessageAuth.FromBytes` and the delimiter search of `FromChunks` -/
open L4.Winbox in
theorem findDelim_spec (l : Bytes) (k i : Nat) (h : findDelim l k = some i) : k ≤ i ∧ i < k + l.length :=
  Winbox.findDelim_spec l k i h

open L4.Winbox in
theorem fromChunks_safe (chunks : List Chunk) : (fromChunks chunks).isPanic = false := Winbox.fromChunks_safe chunks

open L4.Winbox in
theorem chunkLoop_safe (src : Bytes) (q f i : Nat) (acc : List Chunk)
    (hq : ∀ j, j < q → j * (l4winbox_MessageChunkBytesMax + 2) < src.length) :
    (chunkLoop src q f i acc).isPanic = false := Winbox.chunkLoop_safe src q f i acc hq

open L4.Winbox in
theorem fromBytes_safe (src : Bytes) : (fromBytes src).isPanic = false := Winbox.fromBytes_safe src

/-- witness for the defect repaired by the `fix:` commit: with the old chunk count `q = l/257 + 1` a 257-byte message
(`FF 06` + 255 bytes) makes the loop index `src[257]` -/
theorem winbox_unfixed_witness : ¬ (1 * (l4winbox_MessageChunkBytesMax + 2) < 257) ∧ 1 < 257 / (l4winbox_MessageChunkBytesMax + 2) + 1 := by
  decide

open L4.Winbox in
theorem decideMsg_ne_panic (cfg : Cfg) (r : Res Msg) (h : r.isPanic = false) : decideMsg cfg r ≠ .panic := by
  cases r with
  | panic s => simp [Res.isPanic] at h
  | err c => simp [decideMsg]
  | ok m =>
    simp only [decideMsg]
    repeat' split
    all_goals simp

open L4.Winbox in
theorem afterRead_ne_panic (cfg : Cfg) (hdr got : Bytes) (h0 : Nat) : afterRead cfg hdr got h0 ≠ .panic := by
  have hd : decideMsg cfg (fromBytes (hdr ++ got)) ≠ .panic := decideMsg_ne_panic cfg _ (Winbox.fromBytes_safe _)
  unfold afterRead
  split
  · simp
  · split
    · have hs := Winbox.fromBytes_safe (hdr ++ got.take l4winbox_MessageChunkBytesMax)
      split
      · rename_i heq; rw [heq] at hs; simp [Res.isPanic] at hs
      · split
        · simp
        · unfold secondChunk
          repeat' split
          all_goals first | exact hd | simp
      · exact hd
    · exact hd

open L4.Winbox in
theorem winbox_total (cfg : Cfg) : Total (matcher cfg) := by
  refine total_of ?_ ?_
  · refine .readFull _ _ fun hdr _ => ?_
    simp only []
    split
    · exact .ret _ (by simp)
    · refine .readAtLeast _ _ _ fun got _ _ => .ret _ (afterRead_ne_panic cfg _ _ _)
  · refine .readFull _ _ _ (by decide) fun hdr _ => ?_
    simp only []
    split
    · exact .ret _ _
    · refine .readAtLeast _ _ _ _ ?_ fun got _ _ => .ret _ _
      have := u8_le (hdr.headD 0)
      by_cases h : (hdr.headD 0).toNat = l4winbox_MessageChunkBytesMax
      · simp only [wanted, if_pos h, allocBound, layer4_MaxMatchingBytes, l4winbox_MessageAuthBytesMax]; omega
      · simp only [wanted, if_neg h, allocBound, layer4_MaxMatchingBytes]; omega

/-! ## rdp: header, CR LF scan, cookie / token / custom-info blocks, negotiation request, correlation info -/

/-- **The RDP matcher never panics**: every index and slice expression of `MatchRDP.Match` (the CR LF scan, the cookie,
token and custom-info blocks with their configured filters, `RDP_NEG_REQ`, `RDP_NEG_CORRELATION_INFO`) is in range for
every configuration and every byte string a client can send. -/
theorem rdp_total (cfg : Rdp.Cfg) (bs : Bytes) : Rdp.matcher cfg bs ≠ .panic := Rdp.matcher_ne_panic cfg bs

/-- what the RDP matcher allocates is bounded by the header it has read: 11 + at most 249 + 1 bytes -/
theorem rdp_alloc_bound (h : Bytes) (n : Nat) (hh : Rdp.header h = .ok (some n)) :
    l4rdp_RDPConnReqBytesMin + n + 1 ≤ allocBound := by
  have := Rdp.header_payload_le h n hh
  simp only [allocBound, layer4_MaxMatchingBytes, l4rdp_RDPConnReqBytesMin]; omega

/-! ## openvpn and dns -/

theorem ovpnV3_safe (cfg : OvpnCfg) (isTcp : Bool) (l opcode : Nat) : Safe (ovpnV3 cfg isTcp l opcode) := by
  unfold ovpnV3
  repeat' first
    | exact Safe.ret _ (ite_ne_panic _)
    | exact Safe.ret _ (by decide)
    | refine Safe.readAtLeast _ _ _ fun b _ _ => ?_
    | split

theorem ovpnBody_safe (cfg : OvpnCfg) (isTcp : Bool) (l : Nat) (op : UInt8) : Safe (ovpnBody cfg isTcp l op) := by
  unfold ovpnBody
  simp only []
  repeat' first
    | exact Safe.ret _ (by decide)
    | exact ovpnV3_safe _ _ _ _
    | refine Safe.readAtLeast _ _ _ fun b _ _ => ?_
    | split

theorem ovpnV3_alloc (cfg : OvpnCfg) (isTcp : Bool) (l opcode : Nat) (B : Nat)
    (hl : l ≤ l4openvpn_MessageCrypt2BytesMax) (hB : l4openvpn_MessageCrypt2BytesMax + 1 ≤ B) :
    AllocLe (ovpnV3 cfg isTcp l opcode) B := by
  unfold ovpnV3
  simp only [l4openvpn_MessageCrypt2BytesMax] at hl hB
  repeat' first
    | exact AllocLe.ret _ _
    | refine AllocLe.readAtLeast _ _ _ _ (by first | omega | (simp only [l4openvpn_MessageCrypt2BytesMaxHL]; omega)) fun b _ _ => ?_
    | split

theorem ovpnBody_alloc (cfg : OvpnCfg) (isTcp : Bool) (l : Nat) (op : UInt8) (B : Nat)
    (hl : l ≤ l4openvpn_MessageCrypt2BytesMax) (hB : 2 * (l4openvpn_MessageCrypt2BytesMax + 1) ≤ B) :
    AllocLe (ovpnBody cfg isTcp l op) B := by
  unfold ovpnBody
  simp only []
  have hl' := hl
  have hB' := hB
  simp only [l4openvpn_MessageCrypt2BytesMax] at hl' hB'
  repeat' first
    | exact AllocLe.ret _ _
    | exact ovpnV3_alloc _ _ _ _ _ hl (by first | (simp only [l4openvpn_MessageCrypt2BytesMax]; omega) | (simp only [l4openvpn_MessageCrypt2BytesMax, l4openvpn_MessageAuthBytesMaxHL]; omega))
    | refine AllocLe.readAtLeast _ _ _ _ (by first | omega | (simp only [l4openvpn_MessageAuthBytesMaxHL]; omega)) fun b _ _ => ?_
    | split

/-- **OpenVPN** (TCP and UDP framing, every combination of enabled modes, any keyed-mode verifier): no panic and at
most two message buffers -/
theorem openvpn_total (cfg : OvpnCfg) (isTcp : Bool) : Total (openvpn cfg isTcp) := by
  refine total_of ?_ ?_
  · unfold openvpn
    split
    · refine .readFull _ _ fun lb _ => ?_
      simp only []
      split
      · exact .ret _ (by simp)
      · exact .readFull _ _ fun o _ => ovpnBody_safe _ _ _ _
    · exact .readFull _ _ fun o _ => ovpnBody_safe _ _ _ _
  · unfold openvpn
    split
    · refine .readFull _ _ _ (by decide) fun lb _ => ?_
      simp only []
      split
      · exact .ret _ _
      · rename_i h
        refine .readFull _ _ _ (by decide) fun o _ => ovpnBody_alloc _ _ _ _ _ (by omega) (by decide)
    · exact .readFull _ _ _ (by decide) fun o _ => ovpnBody_alloc _ _ _ _ _ (by decide) (by decide)

/-- **DNS** (TCP and UDP framing; `dns.Msg.Unpack` is a parameter): the matcher's own code has no failing expression -/
theorem dns_total (cfg : DnsCfg) (unpack : Bytes → Option DnsMsg) (bs : Bytes) :
    dnsTcp cfg unpack bs ≠ .panic ∧ dnsUdp cfg unpack bs ≠ .panic := by
  have hd : ∀ n m, dnsDecide cfg n m ≠ .panic := by
    intro n m
    unfold dnsDecide
    repeat' split
    all_goals decide
  constructor
  · unfold dnsTcp
    simp only []
    repeat' split
    all_goals first | exact hd _ _ | decide
  · unfold dnsUdp
    repeat' split
    all_goals first | exact hd _ _ | decide

end L4.C04

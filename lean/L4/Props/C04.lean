import L4.Matchers.Small
namespace L4.C04
theorem placeholder : True := trivial
end L4.C04

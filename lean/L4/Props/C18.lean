import L4.Codec.Layout
import L4.Matchers.Winbox
import L4.Proofs.Winbox
/-!
# C18 — Wire-message codecs are exact inverses

Both inverse laws are proved **once for every fixed layout** (`L4/Codec/Layout.lean`); the fixed-size message types of
the RDP, WireGuard and OpenVPN modules are instances (pure data), tied to the Go `FromBytes` / `ToBytes` by the `codec`
differential. `decode` accepts exactly `size L` bytes, so "rejects rather than truncates or pads" is part of the law.
-/
namespace L4.C18
open L4 L4.Layout

/-- parsing any accepted byte string and serialising the result reproduces the same bytes -/
theorem enc_dec (L : List F) (bs : Bytes) (vs : List Val) (h : decode L bs = some vs) : encode L vs = some bs :=
  encode_decode L vs bs h

/-- serialising then parsing any well-formed message (every field fits its width) reproduces the message -/
theorem dec_enc (L : List F) (vs : List Val) (bs : Bytes) (h : encode L vs = some bs) : decode L bs = some vs :=
  decode_encode L vs bs h

/-- inputs of the wrong length are rejected, never truncated or padded -/
theorem wrong_length_rejected (L : List F) (bs : Bytes) (h : bs.length ≠ size L) : decode L bs = none := by
  cases hd : decode L bs with
  | none => rfl
  | some vs => exact absurd (decode_length L bs vs hd) h

/-- the six fixed-size message types -/
def fixedTypes : List (List F) := [tpkt, x224, negReq, corrInfo, wgInitiation, ovpnPlain]

theorem fixed_types_exact_inverses (L : List F) (_ : L ∈ fixedTypes) :
    (∀ bs vs, decode L bs = some vs → encode L vs = some bs) ∧
    (∀ vs bs, encode L vs = some bs → decode L bs = some vs) ∧
    (∀ bs, bs.length ≠ size L → decode L bs = none) :=
  ⟨fun bs vs => enc_dec L bs vs, fun vs bs => dec_enc L vs bs, wrong_length_rejected L⟩

/-- head + free tail types (`RDPToken`, wireguard `MessageTransport`): parse = fixed head, rest verbatim -/
def decodeHT (L : List F) (bs : Bytes) : Option (List Val × Bytes) :=
  if bs.length < size L then none else (decode L (bs.take (size L))).map fun vs => (vs, bs.drop (size L))

def encodeHT (L : List F) (vs : List Val) (tail : Bytes) : Option Bytes := (encode L vs).map (· ++ tail)

theorem headTail_enc_dec (L : List F) (bs : Bytes) (vs : List Val) (t : Bytes) (h : decodeHT L bs = some (vs, t)) :
    encodeHT L vs t = some bs := by
  simp only [decodeHT] at h
  split at h
  · cases h
  · cases hd : decode L (bs.take (size L)) with
    | none => simp [hd] at h
    | some vs' =>
      simp [hd] at h
      obtain ⟨rfl, rfl⟩ := h
      simp [encodeHT, encode_decode L vs' _ hd]

/-! non-vacuity: a concrete TPKT header and a negotiation request round-trip -/
example : decode tpkt [3, 0, 0, 19] = some [.num 3, .num 0, .num 19] := by decide
example : encode negReq [.num 1, .num 8, .num 8, .num 3] = some [1, 8, 8, 0, 3, 0, 0, 0] := by decide
example : decode tpkt [3, 0, 0, 19, 7] = none := by decide

/-- witness of the defect repaired by the last winbox `fix:`: the parser of the *previous* revision accepted bytes after the
last chunk; in the current model the same input is rejected -/
theorem winbox_trailing_bytes_rejected :
    (Winbox.fromBytes ([40, 6, 97, 97, 97, 97, 97, 97, 0] ++ List.replicate 32 9 ++ [1, 0x83, 0x71])).isOk = false := by
  decide +kernel

/-- **WinBox `MessageAuth` (variable length, chunked)**: parsing any byte string the parser accepts and serialising the
result reproduces the same bytes — proved for inputs of up to two chunks (513 bytes; `Match` never hands more than 293
bytes to the parser). Named `_partial` because inputs of three and more chunks, and the other direction (`FromBytes ∘
ToBytes` on well-formed messages), are covered by the `codec` differential and its oracle only. -/
theorem winbox_enc_dec_partial (src : Bytes) (m : Winbox.Msg) (hL : src.length ≤ 513)
    (h : Winbox.fromBytes src = .ok m) : Winbox.toBytes m = src :=
  Winbox.toBytes_fromBytes src m hL h

/-- non-vacuity: a 40-byte message is accepted, so the theorem speaks about it -/
example : (Winbox.fromBytes ([38, 6, 116, 111, 109, 115, 0] ++ List.replicate 32 9 ++ [1])).isOk = true := by
  decide +kernel

end L4.C18

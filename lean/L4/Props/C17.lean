import L4.Proofs.Throttle
/-!
# C17 — Throttled reads never exceed burst + rate × time; the stream stays intact
Transition system `L4/Throttle.lean` of `l4throttle.Handler.Handle` / `throttledConn.Read` over the token bucket of
`golang.org/x/time/rate`, for every interleaving of any number of connections, read sizes and clock advances.
Stream integrity through the throttle layer (reads of at most `batch` bytes lose, duplicate and reorder nothing) is C01's
`L4.C01.read_exact` over the batching layer (`L4.C01.shipped_wrappers_transparent`).
-/
namespace L4.C17
open L4 L4.Throttle

/-- **Per-connection bound**: at every instant of every run, the bytes read from a client through its throttled connection
are at most `burst + rate × (now − t₀)`, `t₀` being the instant of the connection's first reservation on its own limiter -/
theorem per_conn_bound (cf : Cfg) (hc : CfgOk cf) (acts : List Act) (s : St) (h : runActs cf (init cf) acts = some s)
    (hl : cf.hasL = true) (c : Nat) :
    s.pulled c ≤ cf.lBurst + cf.lRate * (s.now - (s.loc c).t0) := by
  have I := inv_run cf hc acts _ s (sysInv_init cf) h
  have h1 := I.lPulled hl c
  have h2 := spent_le (s.loc c).burst (s.loc c).rate (s.loc c).t0 s.now (s.loc c).rs (I.lInv c).good (I.lInv c).nn
    (I.lDone c) (by rw [I.lBurst]; exact hc.lb) (by rw [I.lRate]; exact hc.lr) (I.lT0 c)
  rw [I.lBurst, I.lRate] at h2
  exact Rat.le_trans h1 h2

/-- the same bound measured from the connection's first read attempt, as the property words it -/
theorem per_conn_bound_from_first_read (cf : Cfg) (hc : CfgOk cf) (acts : List Act) (s : St)
    (h : runActs cf (init cf) acts = some s) (hl : cf.hasL = true) (c : Nat) (t : Rat) (hf : s.firstRead c = some t) :
    s.pulled c ≤ cf.lBurst + cf.lRate * (s.now - t) := by
  have I := inv_run cf hc acts _ s (sysInv_init cf) h
  have J := t0Inv_run cf hc acts _ s (sysInv_init cf) (t0Inv_init cf) h
  by_cases he : (s.loc c).rs = []
  · have h1 := I.lPulled hl c
    rw [he] at h1
    simp only [spent] at h1
    have : 0 ≤ cf.lRate * (s.now - t) := Rat.mul_nonneg hc.lr (by have := J.past c t hf; grind)
    have := hc.lb
    grind
  · have h1 := per_conn_bound cf hc acts s h hl c
    have h2 := J.after c t hf he
    have : 0 ≤ cf.lRate * ((s.loc c).t0 - t) := Rat.mul_nonneg hc.lr (by grind)
    grind

/-- **Total bound**: the bytes read from all clients of one handler together are at most `burst + rate × (now − t₀)` of the
handler-wide limiter, `t₀` being the instant of the first read attempt on any of its connections -/
theorem total_bound (cf : Cfg) (hc : CfgOk cf) (acts : List Act) (s : St) (h : runActs cf (init cf) acts = some s)
    (ht : cf.hasT = true) :
    s.pulledAll ≤ cf.tBurst + cf.tRate * (s.now - s.total.t0) := by
  have I := inv_run cf hc acts _ s (sysInv_init cf) h
  have h1 := I.tPulled ht
  have h2 := spent_le s.total.burst s.total.rate s.total.t0 s.now s.total.rs I.tInv.good I.tInv.nn
    I.tDone (by rw [I.tBurst]; exact hc.tb) (by rw [I.tRate]; exact hc.tr) I.tT0
  rw [I.tBurst, I.tRate] at h2
  exact Rat.le_trans h1 h2

/-- a read never asks the underlying connection for more than the caller's buffer or than the burst of any configured
limiter (otherwise `WaitN` would refuse it) -/
theorem read_le_batch (cf : Cfg) (p : Rat) :
    batch cf p ≤ p ∧ (cf.hasT = true → batch cf p ≤ cf.tBurst) ∧ (cf.hasL = true → batch cf p ≤ cf.lBurst) :=
  ⟨batch_le_p cf p, batch_le_total cf p, batch_le_local cf p⟩

/-- every read returns at most the batch that was paid for -/
theorem read_returns_le_batch (cf : Cfg) (s s' : St) (c : Nat) (n : Rat) (h : step cf s (.rdDone c n) = some s') :
    ∃ b idT idL, s.ph c = .wL b idT idL ∧ n ≤ b ∧ s'.pulled c = s.pulled c + n := by
  simp only [step] at h
  split at h
  · next b idT idL hph =>
    split at h
    · next hg => injection h with h; subst h; exact ⟨b, idT, idL, hph, hg.2.2, by simp [upd]⟩
    · simp at h
  · simp at h

/-- **Latency first**: no read is attempted on a connection before the latency configured for `Handle` has passed, and
nothing has been read from a connection whose first read has not been attempted -/
theorem latency_before_first_read (cf : Cfg) (hc : CfgOk cf) (acts : List Act) (s : St) (h : runActs cf (init cf) acts = some s) (c : Nat) :
    (∀ t, s.firstRead c = some t → s.readyAt c ≤ t) ∧ (s.firstRead c = none → s.pulled c = 0) := by
  have I := inv_run cf hc acts _ s (sysInv_init cf) h
  exact ⟨I.first c, fun hf => (I.notYet c hf).2⟩

/-- `Handle` arms the timer with the configured latency -/
theorem handle_sets_latency (cf : Cfg) (s s' : St) (c : Nat) (h : step cf s (.handle c) = some s') :
    s'.readyAt c = s.now + cf.latency := by
  simp only [step] at h
  split at h
  · simp at h
  · injection h with h; subst h; simp [upd]

/-! non-vacuity: two connections sharing a total limiter of 10 B/s, burst 4; own limiters 100 B/s, burst 8; latency 1 s.
Both read 4 bytes as soon as the latency has passed: the second must wait for the total bucket. -/
def exCfg : Cfg := { hasT := true, hasL := true, tBurst := 4, tRate := 10, lBurst := 8, lRate := 100, latency := 1 }

example : CfgOk exCfg := by constructor <;> decide

example : ((runActs exCfg (init exCfg)
    [.handle 0, .handle 1, .tick 1, .rdStart 0 16, .rdStart 1 16, .rdLocal 0, .rdDone 0 4, .tick (2/5), .rdLocal 1, .rdDone 1 3]).map
      fun s => (s.pulled 0, s.pulled 1, s.pulledAll, s.now, s.total.t0)) = some (4, 3, 7, 7/5, 1) := by
  decide +kernel

/-- the second connection cannot proceed before the total bucket has refilled -/
example : (runActs exCfg (init exCfg)
    [.handle 0, .handle 1, .tick 1, .rdStart 0 16, .rdStart 1 16, .rdLocal 0, .rdDone 0 4, .tick (1/5), .rdLocal 1]).isNone = true := by
  decide +kernel

end L4.C17

import L4.Proofs.Conn
import L4.Router
import L4.Proofs.Router
import L4.Gen.Facts
/-!
# C01 — Match-and-rewind: handlers read the client's stream exactly once, in order

Theorems about the layered connection model `Src` (`L4/Conn.lean`: `layer4.Connection` over scripted socket, `bufio`,
throttle-style batching and tee layers) and its composition with the router (`L4/Router.lean`).
`Src.logical s` is the client's stream from the first byte not yet consumed.
-/
namespace L4.C01
open L4

/-- **No byte lost, duplicated, reordered or altered by a read**: one `Read` of any size on any chain of the modelled layers
returns a prefix of the stream and leaves the rest. -/
theorem read_exact (s : Src) (n : Nat) (h : s.noMatching) (hw : s.wf) :
    (s.read n).1.1 ++ (s.read n).2.logical = s.logical ∧ (s.read n).1.1.length ≤ n :=
  ⟨(read_spec s n h hw).1, (read_spec s n h hw).2.1⟩

/-- … hence for every read pattern (every way a handler sizes its reads, every segmentation of the arrivals) -/
theorem reads_in_order (s : Src) (ns : List Nat) (h : s.noMatching) (hw : s.wf) :
    (s.reads ns).1 ++ (s.reads ns).2.logical = s.logical :=
  reads_spec s ns h hw

/-- **Matchers are rewound**: whatever reads a matcher performs between `freeze` and `unfreeze`, the connection is exactly
as before (same buffer, same cursor, same underlying connection state — the socket was not touched). -/
theorem matching_transparent (buf : Bytes) (off fr : Nat) (inner : Src) (ns : List Nat) (ho : off ≤ buf.length) :
    (((Src.l4 buf off fr false inner).freeze.reads ns).2).unfreeze = .l4 buf off off false inner :=
  freeze_reads_unfreeze buf off fr inner ns ho

/-- **Prefetch keeps the stream**: it moves at most one chunk from the socket into the buffer. -/
theorem prefetch_keeps_stream (s s' : Src) (h : s.noMatching) (hw : s.wf) (hp : s.prefetch = .ok s') :
    s'.logical = s.logical ∧ s'.bufLen ≤ s.bufLen + Gen.layer4_prefetchChunkSize :=
  ⟨(prefetch_logical s s' h hw hp).1, (prefetch_logical s s' h hw hp).2.2.2⟩

/-- **Wrap keeps the stream** for every transparent wrapper conn (after the repair of `Connection.Wrap`) -/
theorem wrap_keeps_stream (s : Src) (w : Src → Src) (hw : Transparent w) (hs : s.wf) :
    (s.wrap w).logical = s.logical :=
  wrap_logical s w hw hs

/-- the wrappers used by the shipped handlers are transparent: `bufio.Reader` (proxy_protocol), batching (throttle),
`io.TeeReader` (tee) and the identity -/
theorem shipped_wrappers_transparent (sz b : Nat) :
    Transparent (fun i => .bufio [] sz i) ∧ Transparent (fun i => .limit b i) ∧ Transparent (fun i => .tee [] i) ∧
    Transparent id :=
  ⟨transparent_bufio sz, transparent_limit b, transparent_tee, transparent_id⟩

/-- **Tee**: the branch receives exactly the bytes the main line reads, in the same order -/
theorem tee_branch_sees_what_next_reads (log : Bytes) (inner : Src) (ns : List Nat) :
    ((Src.tee log inner).reads ns).2 = .tee (log ++ (inner.reads ns).1) (inner.reads ns).2 ∧
    ((Src.tee log inner).reads ns).1 = (inner.reads ns).1 := by
  induction ns generalizing log inner with
  | nil => simp [Src.reads]
  | cons n ns ih =>
    simp only [Src.reads, Src.read]
    have := ih (log ++ (inner.read n).1.1) (inner.read n).2
    constructor
    · rw [this.1]; simp [List.append_assoc]
    · rw [this.2]

/-- witness kept for the defect repaired by the `fix:` commit on `Connection.Wrap`: with the old `Wrap` (buffer copied while
the wrapped conn still reads through the old Connection) prefetched bytes are delivered twice -/
theorem wrapOld_duplicates :
    ((Src.l4 [1, 2, 3] 0 0 false (.raw [[4]] false)).wrapOld id).logical = [1, 2, 3, 1, 2, 3, 4] := by
  decide

/-! ## composition with the router: handlers of successive routes see consecutive parts of one stream -/

/-- `cx` is the connection `orig` bytes were sent on, after some prefix has been consumed -/
def Suf (orig : Bytes) (cx : Src) : Prop :=
  (∃ pre, pre ++ cx.logical = orig) ∧ cx.noMatching ∧ cx.wf

/-- a handler respects the stream if the connection it passes on is the one it got minus a consumed prefix
(read_exact / wrap_keeps_stream show this for handlers built from reads and transparent wraps) -/
def StreamOk (h : Src → List (Ev Src) × HRes Src) : Prop :=
  ∀ orig cx, Suf orig cx → ∀ cx', (h cx).2 = .next cx' → Suf orig cx'

def TrOk (orig : Bytes) (tr : List (Ev Src)) : Prop := ∀ i c, Ev.run i c ∈ tr → Suf orig c

theorem trOk_append {orig : Bytes} {a b : List (Ev Src)} (ha : TrOk orig a) (hb : TrOk orig b) : TrOk orig (a ++ b) := by
  intro i c hm
  rcases List.mem_append.mp hm with h | h
  · exact ha i c h
  · exact hb i c h

theorem trOk_inner (orig : Bytes) (i : Nat) (l : List (Ev Src)) : TrOk orig (l.map (.inner i)) := by
  intro j c hm
  simp at hm

def PassGood (orig : Bytes) : PassOut Src → Prop
  | .done _ cx' tr' => Suf orig cx' ∧ TrOk orig tr'
  | .stop tr' r => TrOk orig tr' ∧ ∀ cx', r = .next cx' → Suf orig cx'

def ResGood (orig : Bytes) (p : List (Ev Src) × HRes Src) : Prop :=
  TrOk orig p.1 ∧ ∀ cx', p.2 = .next cx' → Suf orig cx'

theorem trOk_nil_like (orig : Bytes) (l : List (Ev Src)) (h : ∀ i c, Ev.run i c ∉ l) : TrOk orig l :=
  fun i c hm => absurd hm (h i c)

theorem pass_stream (orig : Bytes) (routes : List (Route Src)) (hR : ∀ r ∈ routes, StreamOk r.h)
    (i : Nat) (rs : RS) (cx : Src) (tr : List (Ev Src)) (hc : Suf orig cx) (ht : TrOk orig tr) :
    PassGood orig (pass srcOps routes i rs cx tr) := by
  induction routes generalizing i rs cx tr with
  | nil => exact ⟨hc, ht⟩
  | cons r rest ih =>
    have hrest : ∀ r ∈ rest, StreamOk r.h := fun q hq => hR q (by simp [hq])
    unfold pass
    split
    · exact ih hrest _ _ _ _ hc ht
    · split
      · exact ih hrest _ _ _ _ hc ht
      · split
        · split
          · exact ⟨hc, ht⟩
          · exact ih hrest _ _ _ _ hc ht
        · exact ih hrest _ _ _ _ hc ht
        · have hrun : TrOk orig (tr ++ [Ev.run i (srcOps.arm false cx)]) := by
            apply trOk_append ht
            intro j c hm
            simp at hm
            rw [hm.2]; exact hc
          simp only []
          split
          · rename_i hev _
            exact ⟨trOk_append hrun (trOk_inner orig i hev), by intro _ h; cases h⟩
          · rename_i hev _
            refine ⟨trOk_append (trOk_append hrun (trOk_inner orig i hev)) ?_, by intro _ h; cases h⟩
            intro j c hm; simp at hm
          · rename_i hev cx' heq
            have hs : Suf orig cx' := hR r (by simp) orig (srcOps.arm false cx) hc cx' (by rw [heq])
            exact ih hrest _ _ _ _ hs (trOk_append hrun (trOk_inner orig i hev))
        · refine ⟨trOk_append ht ?_, by intro _ h; cases h⟩
          intro j c hm; simp at hm

theorem round_stream (orig : Bytes) (routes : List (Route Src)) (hR : ∀ r ∈ routes, StreamOk r.h) (fuel : Nat)
    (rs : RS) (c : Src) (tr : List (Ev Src)) (hc : Suf orig c) (ht : TrOk orig tr) :
    ResGood orig (round srcOps routes fuel rs c tr) := by
  induction fuel generalizing rs c tr with
  | zero =>
    exact ⟨trOk_append ht (by intro j c hm; simp at hm), by intro _ h; simp [round] at h⟩
  | succ f ih =>
    unfold round
    simp only []
    split
    · exact ⟨trOk_append ht (by intro j c hm; simp at hm), by intro _ h; cases h⟩
    · rename_i c1 heq
      have hc1 : Suf orig c1 := by
        split at heq
        · have hp := prefetch_logical (srcOps.arm true c) c1 hc.2.1 hc.2.2 heq
          obtain ⟨pre, hpre⟩ := hc.1
          exact ⟨⟨pre, by rw [hp.1]; exact hpre⟩, hp.2.1, hp.2.2.1⟩
        · cases heq; exact hc
      have hp := pass_stream orig routes hR 0 rs c1 tr hc1 ht
      generalize pass srcOps routes 0 rs c1 tr = po at hp
      cases po with
      | stop tr' r => exact hp
      | done rs' cx'' tr' =>
        simp only []
        split
        · refine ⟨hp.2, ?_⟩
          intro _ h; cases h
          split <;> exact hp.1       -- `srcOps.arm` does not touch the connection
        · split
          · exact ih _ _ _ hp.1 hp.2
          · exact ⟨hp.2, by intro _ h; cases h; exact hp.1⟩

/-- **Handlers see one stream**: through any number of matching rounds (prefetches), for every route list whose handlers
respect the stream, every connection a route's handlers are invoked on, and the connection handed to the fallback, is the
client's stream minus a consumed prefix — nothing lost, duplicated or reordered by matching. -/
theorem handlers_see_stream (routes : List (Route Src)) (hR : ∀ r ∈ routes, StreamOk r.h) (fuel : Nat) (cx : Src)
    (hn : cx.noMatching) (hw : cx.wf) :
    TrOk cx.logical (route srcOps routes fuel cx).1 ∧
    ∀ cx', (route srcOps routes fuel cx).2 = .next cx' → Suf cx.logical cx' :=
  round_stream cx.logical routes hR fuel {} cx [] ⟨⟨[], rfl⟩, hn, hw⟩ (by intro i c hm; simp at hm)

/-- a handler that performs reads of any sizes and passes the connection on respects the stream -/
theorem reading_handler_ok (ns : List Nat) : StreamOk (fun cx => ([], .next (cx.reads ns).2)) := by
  intro orig cx hs cx' h
  cases h
  obtain ⟨⟨pre, hpre⟩, hn, hw⟩ := hs
  have h1 := reads_spec cx ns hn hw
  refine ⟨⟨pre ++ (cx.reads ns).1, by rw [List.append_assoc, h1]; exact hpre⟩, ?_, ?_⟩
  · clear h1 hpre
    induction ns generalizing cx with
    | nil => exact hn
    | cons n ns ih =>
      have := read_spec cx n hn hw
      exact ih _ this.2.2.1 this.2.2.2
  · clear h1 hpre
    induction ns generalizing cx with
    | nil => exact hw
    | cons n ns ih =>
      have := read_spec cx n hn hw
      exact ih _ this.2.2.1 this.2.2.2

/-! ## bytes that arrive together with the end of the stream

`io.Reader` allows `Read` to return `n > 0` together with an error (a TLS connection hands out the last record
together with `io.EOF`). `prefetch` keeps those bytes and succeeds; it fails only when the read brought nothing. -/

/-- the rule the model encodes is the rule of the current source (regenerated from `layer4/connection.go`): the only
`return err` of `prefetch` is guarded by `err != nil && n == 0` -/
theorem prefetch_source_rule : Gen.fact_prefetch_returns_read_error_only_without_bytes = true := by decide

/-- **Nothing is dropped by a failing prefetch**: when `prefetch` reports a read error, the underlying read returned
no bytes (so, by `read_spec`, the stream behind the connection is what it was). -/
theorem prefetch_error_read_nothing (buf : Bytes) (off fr : Nat) (m : Bool) (inner : Src)
    (hlt : buf.length < Gen.layer4_MaxMatchingBytes) (e : Abort)
    (h : (Src.l4 buf off fr m inner).prefetch = .error e) :
    (inner.read Gen.layer4_prefetchChunkSize).1.1 = [] ∧ (inner.read Gen.layer4_prefetchChunkSize).1.2 ≠ .none := by
  simp only [Src.prefetch, hlt, ↓reduceIte] at h
  generalize inner.read Gen.layer4_prefetchChunkSize = q at h
  obtain ⟨⟨d, er⟩, inner'⟩ := q
  simp only at h
  split at h
  · rename_i hc
    simp only [Bool.and_eq_true, bne_iff_ne, ne_eq, beq_iff_eq, List.length_eq_zero_iff] at hc
    exact ⟨hc.2, hc.1⟩
  · cases h

/-- the bytes a read returns together with an error are in the matching buffer after `prefetch` -/
theorem prefetch_keeps_bytes_with_error (buf : Bytes) (off fr : Nat) (m : Bool) (inner : Src)
    (hlt : buf.length < Gen.layer4_MaxMatchingBytes)
    (hd : (inner.read Gen.layer4_prefetchChunkSize).1.1 ≠ []) :
    (Src.l4 buf off fr m inner).prefetch =
      .ok (.l4 (buf ++ (inner.read Gen.layer4_prefetchChunkSize).1.1) off fr m (inner.read Gen.layer4_prefetchChunkSize).2) := by
  simp only [Src.prefetch, hlt, ↓reduceIte]
  generalize inner.read Gen.layer4_prefetchChunkSize = q at hd
  obtain ⟨⟨d, er⟩, inner'⟩ := q
  simp only at hd
  have : (d.length == 0) = false := by
    cases d with
    | nil => exact absurd rfl hd
    | cons _ _ => rfl
  simp [this]

/-- the router on the connection operations as they were before the repair of `prefetch` -/
def srcOpsOld : ConnOps Src where
  avail := Src.avail
  prefetch := fun s => match s.prefetchOld with
    | (.ok _, s') => .ok s'
    | (.error e, _) => .error e
  arm := fun _ s => s

/-- one route: needs two bytes to decide, then matches; its handler reads the whole request -/
def twoByteRoute : List (Route Src) :=
  [ { sets := [[fun cx => if cx.avail.length < 2 then .more else .yes]], h := fun cx => ([], .next (cx.reads [4]).2) } ]

/-- a two-byte request that the socket delivers together with the end of the stream (`n = 2, io.EOF`) -/
def shortRequest : Src := .l4 [] 0 0 false (.raw [[7, 9]] true)

/-- **Witness of the repaired defect**: on `shortRequest` the router before the repair gave up without running the
matching route; the router as it is runs it. -/
theorem short_request_with_eof_is_routed :
    runIdx (route srcOps twoByteRoute 8 shortRequest).1 = [0] ∧
    runIdx (route srcOpsOld twoByteRoute 8 shortRequest).1 = [] := by
  decide

/-! non-vacuity: a handler that reads 2 bytes respects the stream, and a concrete routed run delivers consecutive parts -/
example : (Src.l4 [1, 2] 0 0 false (.raw [[3, 4, 5]] false)).noMatching ∧ (Src.l4 [1, 2] 0 0 false (.raw [[3, 4, 5]] false)).wf := by
  simp [Src.noMatching, Src.wf]

example : ((Src.l4 [1, 2] 0 0 false (.raw [[3, 4, 5]] false)).reads [1, 3, 2]).1 = [1, 2, 3, 4] := by decide

end L4.C01

import L4.Pool
/-!
# C08 — Concurrent connections never interfere: no cross-talk, no data races

* buffer-pool safety for **every** interleaving of any number of connections (transition system `L4/Pool.lean`), provided
  the buffer is not returned to the pool on the hijack path — a fact regenerated from `listener.handle` on every run;
* the shared mutable fields found by the extractor are only accessed through `sync/atomic`.
-/
namespace L4.C08
open L4 L4.Pool

/-- the current source does not put the matching buffer back when the connection was hijacked -/
theorem facts_ok : factsFromSource = ⟨false⟩ := by
  have : factsFromSource.putOnHijack = false := by decide
  cases h : factsFromSource with
  | mk p => rw [h] at this; simp at this; rw [this]

/-- `Server.handle` returns its buffer by a plain deferred Put — sound because it never hijacks -/
theorem server_handle_never_hijacks : Gen.fact_Server_handle_mentions_errHijacked = false ∧ Gen.fact_Server_handle_any_put = true := by
  decide

/-- **No cross-talk**: in every reachable state of the protocol the source implements, no live connection has ever read bytes
written by another connection's prefetch -/
theorem no_cross_talk (acts : List Act) (s : St) (h : runActs factsFromSource init acts = some s) : s.bad = false := by
  rw [facts_ok] at h
  exact (inv_run acts init s inv_init h).notbad

/-- … and a pooled buffer is never in the pool while a live (handling or handed-off) connection still refers to it -/
theorem live_buffers_not_pooled (acts : List Act) (s : St) (h : runActs factsFromSource init acts = some s)
    (c : ConnId) (k : Conn) (hc : s.conns c = some k) (hl : k.phase ≠ .closed) : k.buf ∉ s.pool := by
  rw [facts_ok] at h
  exact (inv_run acts init s inv_init h).live_not_pooled c k hc hl

/-- witness of the defect repaired by a `fix:` commit: with `Put` on the hijack path, six steps produce cross-talk -/
theorem put_on_hijack_cross_talk :
    (runActs ⟨true⟩ init [.start 0, .prefetch 0, .hijack 0, .start 1, .prefetch 1, .read 0]).map (·.bad) = some true := by
  decide

/-! ## shared state is accessed atomically -/

/-- every access the extractor found to `RoundRobinSelection.robin`, `peer.numConns / unhealthy / fails`,
`MatchOpenVPN.lastDigest` and `packetConn.deadline` goes through `sync/atomic` -/
theorem shared_fields_atomic : Gen.fact_accessTable.all (fun r => r.2.2 == "atomic") = true := by decide

/-- the table is not empty: the fields the property names are all present -/
theorem shared_fields_present :
    (["RoundRobinSelection.robin", "peer.numConns", "peer.unhealthy", "peer.fails", "MatchOpenVPN.lastDigest"].all
      fun f => Gen.fact_accessTable.any (fun r => r.1 == f)) = true := by decide

end L4.C08

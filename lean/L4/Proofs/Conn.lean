import L4.Conn
/-! helper lemmas about the layered connection model -/
namespace L4
open Src

theorem take_drop_len (l : Bytes) (n : Nat) : l.take n ++ l.drop (l.take n).length = l := by
  rw [List.length_take]
  by_cases h : n ≤ l.length
  · rw [Nat.min_eq_left h]; exact List.take_append_drop n l
  · have h' : l.length ≤ n := by omega
    rw [Nat.min_eq_right h', List.take_of_length_le h']; simp

/-- one `Read` outside matching mode hands out a prefix of the logical stream, of at most the requested size,
and leaves the rest as the new logical stream; well-formedness and non-matching are preserved -/
theorem read_spec (s : Src) (n : Nat) (h : s.noMatching) (hw : s.wf) :
    (s.read n).1.1 ++ (s.read n).2.logical = s.logical ∧ (s.read n).1.1.length ≤ n ∧
    (s.read n).2.noMatching ∧ (s.read n).2.wf := by
  induction s generalizing n with
  | raw cs l =>
    cases cs with
    | nil => simp [Src.read, Src.logical, Src.noMatching, Src.wf]
    | cons c cs =>
      simp only [Src.read]
      split
      · simp [Src.logical, Src.noMatching, Src.wf]; assumption
      · simp [Src.logical, List.length_take, Src.noMatching, Src.wf]
        rw [← List.append_assoc, List.take_append_drop]
        exact ⟨rfl, Nat.min_le_left _ _⟩
  | l4 buf off fr m inner ih =>
    obtain ⟨hm, hin⟩ := h
    obtain ⟨ho, hwi⟩ := hw
    subst hm
    simp only [Src.read, Bool.false_and, Bool.false_eq_true, ↓reduceIte, Bool.not_false, Bool.true_and]
    split
    · rename_i hc
      split
      · rename_i he
        have he' : off + ((buf.drop off).take n).length = buf.length := by simpa using he
        have h2 : buf.length - off ≤ n := by
          simp [List.length_take, List.length_drop] at he'; omega
        refine ⟨?_, ?_, ?_, ?_⟩
        · simp [Src.logical]
          rw [List.take_of_length_le (by simp; omega)]
        · simp [List.length_take]; exact Nat.min_le_left _ _
        · exact ⟨rfl, hin⟩
        · exact ⟨by simp, hwi⟩
      · refine ⟨?_, ?_, ?_, ?_⟩
        · simp only [Src.logical]
          rw [← List.append_assoc]; congr 1
          rw [← List.drop_drop]; exact take_drop_len _ _
        · simp [List.length_take]; exact Nat.min_le_left _ _
        · exact ⟨rfl, hin⟩
        · refine ⟨?_, hwi⟩
          simp [List.length_take, List.length_drop]; omega
    · rename_i hc
      have := ih n hin hwi
      have hd : buf.drop off = [] := by
        apply List.drop_eq_nil_of_le
        simp at hc
        omega
      simp only [Src.logical, hd, List.nil_append]
      exact ⟨this.1, this.2.1, ⟨rfl, this.2.2.1⟩, ⟨ho, this.2.2.2⟩⟩
  | bufio p sz inner ih =>
    have hin : inner.noMatching := h
    have hwi : inner.wf := hw
    simp only [Src.read]
    split
    · rename_i hn; subst hn; simp [Src.logical]; exact ⟨hin, hwi⟩
    · split
      · rename_i hp
        have hp' : p = [] := List.eq_nil_of_length_eq_zero hp
        subst hp'
        split
        · have := ih n hin hwi
          simpa [Src.logical, Src.noMatching, Src.wf] using this
        · have := ih sz hin hwi
          refine ⟨?_, ?_, this.2.2.1, this.2.2.2⟩
          · simp only [Src.logical, List.nil_append]
            rw [← this.1, ← List.append_assoc, List.take_append_drop]
          · simp [List.length_take]; exact Nat.min_le_left _ _
      · refine ⟨?_, ?_, hin, hwi⟩
        · simp only [Src.logical]; rw [← List.append_assoc, List.take_append_drop]
        · simp [List.length_take]; exact Nat.min_le_left _ _
  | limit b inner ih =>
    have := ih (min n b) h hw
    simp only [Src.read, Src.logical]
    exact ⟨this.1, Nat.le_trans this.2.1 (Nat.min_le_left _ _), this.2.2.1, this.2.2.2⟩
  | tee log inner ih =>
    have := ih n h hw
    simp only [Src.read, Src.logical]
    exact ⟨this.1, this.2.1, this.2.2.1, this.2.2.2⟩

/-- what the tee layers have copied so far plus what is still to come: reading appends exactly the bytes read -/
theorem tee_read (log : Bytes) (inner : Src) (n : Nat) :
    ((Src.tee log inner).read n).2 = .tee (log ++ (inner.read n).1.1) (inner.read n).2 ∧
    ((Src.tee log inner).read n).1 = (inner.read n).1 := by
  simp [Src.read]

/-- any sequence of reads outside matching mode hands out a prefix of the logical stream, in order -/
theorem reads_spec (s : Src) (ns : List Nat) (h : s.noMatching) (hw : s.wf) :
    (s.reads ns).1 ++ (s.reads ns).2.logical = s.logical := by
  induction ns generalizing s with
  | nil => simp [Src.reads]
  | cons n ns ih =>
    have h1 := read_spec s n h hw
    simp only [Src.reads]
    rw [List.append_assoc, ih _ h1.2.2.1 h1.2.2.2]
    exact h1.1

/-! ### matching mode -/

/-- in matching mode a read never touches the underlying connection and never changes the buffer -/
theorem read_matching (buf : Bytes) (off fr : Nat) (inner : Src) (n : Nat) (ho : off ≤ buf.length) :
    ∃ off', off' ≤ buf.length ∧ ((Src.l4 buf off fr true inner).read n).2 = .l4 buf off' fr true inner := by
  simp only [Src.read, Bool.true_and]
  split
  · exact ⟨off, ho, rfl⟩
  · split
    · refine ⟨off + ((buf.drop off).take n).length, ?_, by simp⟩
      simp [List.length_take, List.length_drop]; omega
    · -- unreachable: buffer neither empty/exhausted nor readable
      rename_i h1 h2
      simp at h1 h2
      omega

/-- whatever reads a matcher performs between `freeze` and `unfreeze`, the connection is exactly as before -/
theorem matching_reads (buf : Bytes) (off fr : Nat) (inner : Src) (ns : List Nat) (ho : off ≤ buf.length) :
    ∃ off', off' ≤ buf.length ∧ ((Src.l4 buf off fr true inner).reads ns).2 = .l4 buf off' fr true inner := by
  induction ns generalizing off with
  | nil => exact ⟨off, ho, rfl⟩
  | cons n ns ih =>
    obtain ⟨o1, hle, h1⟩ := read_matching buf off fr inner n ho
    simp only [Src.reads, h1]
    exact ih o1 hle

theorem freeze_reads_unfreeze (buf : Bytes) (off fr : Nat) (inner : Src) (ns : List Nat) (ho : off ≤ buf.length) :
    (((Src.l4 buf off fr false inner).freeze.reads ns).2).unfreeze = .l4 buf off off false inner := by
  obtain ⟨o', _, h⟩ := matching_reads buf off off inner ns ho
  simp [Src.freeze, h, Src.unfreeze]

/-! ### prefetch -/

theorem prefetch_logical (s s' : Src) (h : s.noMatching) (hw : s.wf) (hp : s.prefetch = .ok s') :
    s'.logical = s.logical ∧ s'.noMatching ∧ s'.wf ∧ s'.bufLen ≤ s.bufLen + Gen.layer4_prefetchChunkSize := by
  cases s with
  | l4 buf off fr m inner =>
    simp only [Src.prefetch] at hp
    split at hp
    · have hr := read_spec inner Gen.layer4_prefetchChunkSize h.2 hw.2
      generalize inner.read Gen.layer4_prefetchChunkSize = q at hp hr
      obtain ⟨⟨d, e⟩, inner'⟩ := q
      simp only at hp
      split at hp
      · simp at hp
      injection hp with hp
      subst hp
      refine ⟨?_, ⟨h.1, hr.2.2.1⟩, ⟨?_, hr.2.2.2⟩, ?_⟩
      · simp only [Src.logical]
        rw [List.drop_append_of_le_length hw.1, List.append_assoc]
        congr 1; exact hr.1
      · simp; have := hw.1; omega
      · simp [Src.bufLen]; exact hr.2.1
    · simp at hp
  | raw _ _ => simp [Src.prefetch] at hp
  | bufio _ _ _ => simp [Src.prefetch] at hp
  | limit _ _ => simp [Src.prefetch] at hp
  | tee _ _ => simp [Src.prefetch] at hp

/-- prefetch refuses to grow a buffer that already holds `MaxMatchingBytes` -/
theorem prefetch_full (buf : Bytes) (off fr : Nat) (m : Bool) (inner : Src)
    (h : Gen.layer4_MaxMatchingBytes ≤ buf.length) : (Src.l4 buf off fr m inner).prefetch = .error .full := by
  simp [Src.prefetch]; omega

/-! ### Wrap -/

/-- a wrapper conn placed between the old and the new Connection is transparent if it neither loses nor invents bytes -/
def Transparent (w : Src → Src) : Prop :=
  ∀ s, (w s).logical = s.logical ∧ (s.noMatching → (w s).noMatching) ∧ (s.wf → (w s).wf)

theorem wrap_logical (s : Src) (w : Src → Src) (hw : Transparent w) (hs : s.wf) :
    (s.wrap w).logical = s.logical := by
  cases s with
  | l4 buf off fr m inner =>
    simp only [Src.wrap]
    split
    · simp [Src.logical, (hw _).1]
    · rename_i hd
      have : buf.drop off = [] := List.drop_eq_nil_of_le (by omega)
      simp [Src.logical, (hw _).1, this]
  | raw cs l => simp [Src.wrap, Src.logical, (hw _).1]
  | bufio p sz i => simp [Src.wrap, Src.logical, (hw _).1]
  | limit b i => simp [Src.wrap, Src.logical, (hw _).1]
  | tee l i => simp [Src.wrap, Src.logical, (hw _).1]

theorem transparent_id : Transparent id := fun _ => ⟨rfl, id, id⟩
theorem transparent_bufio (sz : Nat) : Transparent (fun i => .bufio [] sz i) :=
  fun _ => ⟨by simp [Src.logical], id, id⟩
theorem transparent_limit (b : Nat) : Transparent (fun i => .limit b i) :=
  fun _ => ⟨by simp [Src.logical], id, id⟩
theorem transparent_tee : Transparent (fun i => .tee [] i) :=
  fun _ => ⟨by simp [Src.logical], id, id⟩

end L4

import L4.Matchers.Small
import L4.Proofs.Res
/-! the string scanner and the parameter loop of the Postgres startup-message parser -/
namespace L4.M
open L4

theorem pgScan_spec (data : Bytes) (f e : Nat) (he : e ≤ data.length) :
    ∃ e', pgScan data f e = .ok e' ∧ e ≤ e' ∧ e' ≤ data.length := by
  induction f generalizing e with
  | zero => exact ⟨e, rfl, Nat.le_refl _, he⟩
  | succ f ih =>
    unfold pgScan
    split
    · exact ⟨e, rfl, Nat.le_refl _, he⟩
    · rename_i hne
      have hlt : e < data.length := by omega
      rw [idx_ok data e _ hlt]
      simp only [Res.bind_ok]
      split
      · exact ⟨e, rfl, Nat.le_refl _, he⟩
      · obtain ⟨e', h1, h2, h3⟩ := ih (e + 1) (by omega)
        exact ⟨e', h1, by omega, h3⟩

theorem pgReadString_ok (data : Bytes) (off : Nat) : ∃ r, pgReadString data off = .ok r := by
  unfold pgReadString
  split
  · exact ⟨_, rfl⟩
  · obtain ⟨e, h1, h2, h3⟩ := pgScan_spec data (data.length + 1) off (by omega)
    rw [h1]
    simp only [Res.bind_ok]
    rw [slice_ok data off e _ h2 h3]
    exact ⟨_, rfl⟩

/-- the first string read at `off` is empty exactly when there is no byte at `off` or that byte is zero -/
theorem pgReadString_empty_iff (data : Bytes) (off : Nat) (r : Bytes × Nat) (h : pgReadString data off = .ok r) :
    r.1.isEmpty = true ↔ (data.length ≤ off ∨ data.getD off 0 = 0) := by
  unfold pgReadString at h
  split at h
  · rename_i hge
    cases h
    simp; left; omega
  · rename_i hlt
    have hlt' : off < data.length := by omega
    unfold pgScan at h
    rw [if_neg (by omega), idx_ok data off _ hlt'] at h
    simp only [Res.bind_ok] at h
    have hg : data.getD off 0 = data[off] := by simp [List.getD, hlt']
    split at h
    · rename_i hz
      simp only [Res.bind_ok] at h
      rw [slice_ok data off off _ (Nat.le_refl _) (by omega)] at h
      simp only [Res.bind_ok] at h
      cases h
      constructor
      · intro _; right; rw [hg]; exact hz
      · intro _; simp
    · rename_i hnz
      obtain ⟨e, h1, h2, h3⟩ := pgScan_spec data data.length (off + 1) (by omega)
      rw [h1] at h
      simp only [Res.bind_ok] at h
      rw [slice_ok data off e _ (by omega) h3] at h
      simp only [Res.bind_ok] at h
      cases h
      constructor
      · intro hem
        have : ((data.drop off).take (e - off)).length = e - off := slice_len data off e (by omega) h3
        simp only [List.isEmpty_iff] at hem
        rw [hem] at this
        simp at this; omega
      · rintro (h | h)
        · omega
        · rw [hg] at h; exact absurd h hnz

theorem pgParams_ge (data : Bytes) (f off n : Nat) : ∃ r, pgParams data f off n = .ok r ∧ n ≤ r := by
  induction f generalizing off n with
  | zero => exact ⟨n, rfl, Nat.le_refl _⟩
  | succ f ih =>
    unfold pgParams
    obtain ⟨⟨k, off1⟩, h1⟩ := pgReadString_ok data off
    rw [h1]
    simp only [Res.bind_ok]
    split
    · exact ⟨n, rfl, Nat.le_refl _⟩
    · obtain ⟨⟨v, off2⟩, h2⟩ := pgReadString_ok data off1
      rw [h2]
      simp only [Res.bind_ok]
      obtain ⟨r, hr, hle⟩ := ih off2 (n + 1)
      exact ⟨r, hr, by omega⟩

/-- the parameter loop stores at least one parameter exactly when the first key is non-empty -/
theorem pgParams_pos_iff (data : Bytes) (f : Nat) (r : Nat) (h : pgParams data (f + 1) 4 0 = .ok r) :
    0 < r ↔ (4 < data.length ∧ data.getD 4 0 ≠ 0) := by
  unfold pgParams at h
  obtain ⟨⟨k, off1⟩, h1⟩ := pgReadString_ok data 4
  rw [h1] at h
  simp only [Res.bind_ok] at h
  have hk := pgReadString_empty_iff data 4 _ h1
  simp only at hk
  split at h
  · rename_i hem
    cases h
    have := hk.mp hem
    constructor
    · intro h0; omega
    · rintro ⟨hl, hne⟩
      rcases this with h | h
      · omega
      · exact absurd h hne
  · rename_i hne
    obtain ⟨⟨v, off2⟩, h2⟩ := pgReadString_ok data off1
    rw [h2] at h
    simp only [Res.bind_ok] at h
    obtain ⟨r', hr', hle⟩ := pgParams_ge data f off2 (0 + 1)
    rw [hr'] at h
    cases h
    constructor
    · intro _
      have : ¬ (data.length ≤ 4 ∨ data.getD 4 0 = 0) := fun hh => hne (hk.mpr hh)
      simp only [not_or] at this
      exact ⟨by omega, this.2⟩
    · intro _; omega

end L4.M

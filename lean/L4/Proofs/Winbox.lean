import L4.Matchers.Winbox
import L4.Proofs.Res
/-! lemmas about the WinBox chunk parser (`MessageAuth.FromBytes` / `FromChunks`) -/
namespace L4.Winbox
open L4 L4.Gen

theorem findDelim_spec (l : Bytes) (k i : Nat) (h : findDelim l k = some i) : k ≤ i ∧ i < k + l.length := by
  induction l generalizing k with
  | nil => simp [findDelim] at h
  | cons x xs ih =>
    simp only [findDelim] at h
    split at h
    · cases h; simp
    · have := ih (k + 1) h; simp; omega

theorem fromChunks_safe (chunks : List Chunk) : (fromChunks chunks).isPanic = false := by
  unfold fromChunks
  split
  · rfl
  · simp only []
    split
    · rfl
    · rename_i i hi
      have hb := findDelim_spec _ _ _ hi
      split
      · rfl
      · rename_i hne
        rw [slice_ok _ 0 i _ (by omega) (by omega), Res.bind_ok,
          slice_ok _ (i + 1) _ _ (by omega) (by omega), Res.bind_ok, idx_ok _ _ _ (by omega), Res.bind_ok]
        split <;> rfl

theorem chunkLoop_safe (src : Bytes) (q f i : Nat) (acc : List Chunk)
    (hq : ∀ j, j < q → j * (l4winbox_MessageChunkBytesMax + 2) < src.length) :
    (chunkLoop src q f i acc).isPanic = false := by
  induction f generalizing i acc with
  | zero => rfl
  | succ f ih =>
    unfold chunkLoop
    split
    · rfl
    · rename_i hi
      have hp := hq i (by omega)
      simp only []
      rw [idx_ok _ _ _ hp, Res.bind_ok]
      split
      · rfl
      · rename_i hc
        have hlen : i * (l4winbox_MessageChunkBytesMax + 2) + 2 + (src[i * (l4winbox_MessageChunkBytesMax + 2)]).toNat ≤ src.length := by
          simp only [not_or] at hc; omega
        rw [idx_ok _ _ _ (by omega), Res.bind_ok]
        split
        · rfl
        · rw [slice_ok _ _ _ _ (by omega) hlen, Res.bind_ok]
          exact ih _ _

theorem fromBytes_safe (src : Bytes) : (fromBytes src).isPanic = false := by
  unfold fromBytes
  split
  · rfl
  · simp only []
    have hq : ∀ j, j < (src.length + l4winbox_MessageChunkBytesMax + 1) / (l4winbox_MessageChunkBytesMax + 2) →
        j * (l4winbox_MessageChunkBytesMax + 2) < src.length := by
      intro j hj
      simp only [l4winbox_MessageChunkBytesMax] at hj ⊢
      omega
    have h1 := chunkLoop_safe src _ ((src.length + l4winbox_MessageChunkBytesMax + 1) / (l4winbox_MessageChunkBytesMax + 2)) 0 [] hq
    generalize chunkLoop src _ _ 0 [] = r at h1
    cases r with
    | ok c => exact fromChunks_safe c
    | err _ => rfl
    | panic _ => simp [Res.isPanic] at h1


end L4.Winbox

namespace L4.Winbox
open L4 L4.Gen

theorem idx_ok' (b : Bytes) (i : Nat) (s : String) (h : i < b.length) : idx b i s = .ok (b.getD i 0) := by
  rw [idx_ok b i s h]; simp [List.getD, h]

/-- shape of a message of at most 257 bytes that `FromBytes` accepts: one chunk that spans the whole input -/
theorem fromBytes_one (src : Bytes) (m : Msg) (hq : src.length ≤ 257) (h : fromBytes src = .ok m) :
    src.length = 2 + (src.getD 0 0).toNat ∧
    fromChunks [⟨(src.drop 2).take (src.getD 0 0).toNat, (src.getD 0 0).toNat, (src.getD 1 0).toNat⟩] = .ok m ∧
    (src.getD 1 0).toNat = l4winbox_MessageChunkTypeAuth := by
  unfold fromBytes at h
  split at h
  · cases h
  · rename_i hmin
    simp only [l4winbox_MessageAuthBytesMin] at hmin
    simp only [] at h
    have hq1 : (src.length + l4winbox_MessageChunkBytesMax + 1) / (l4winbox_MessageChunkBytesMax + 2) = 1 := by
      simp only [l4winbox_MessageChunkBytesMax]; omega
    rw [hq1] at h
    unfold chunkLoop at h
    rw [if_neg (by omega)] at h
    simp only [Nat.zero_mul] at h
    rw [idx_ok' src 0 _ (by omega), Res.bind_ok] at h
    split at h
    · cases h
    · rename_i hc
      simp only [not_or, Nat.lt_irrefl, and_false, false_and, not_false_eq_true, true_and, Nat.sub_self, Decidable.not_not,
        Nat.zero_add] at hc
      rw [idx_ok' src 1 _ (by omega), Res.bind_ok] at h
      split at h
      · cases h
      · rename_i hty
        simp only [true_and, Nat.lt_irrefl, false_and, or_false, Decidable.not_not] at hty
        rw [slice_ok src _ _ _ (by omega) (by omega), Res.bind_ok] at h
        unfold chunkLoop at h
        simp only [List.reverse_cons, List.reverse_nil, List.nil_append, Res.bind_ok, Nat.zero_add, Nat.add_sub_cancel_left] at h
        exact ⟨by omega, h, hty⟩

end L4.Winbox

namespace L4.Winbox
open L4 L4.Gen

/-- shape of a message of 258 … 514 bytes that `FromBytes` accepts: a full first chunk and a second chunk that ends
exactly where the input ends -/
theorem fromBytes_two (src : Bytes) (m : Msg) (h1 : 258 ≤ src.length) (h2 : src.length ≤ 514) (h : fromBytes src = .ok m) :
    (src.getD 0 0).toNat = 255 ∧ src.length = 259 + (src.getD 257 0).toNat ∧ 1 ≤ (src.getD 257 0).toNat ∧
    fromChunks [⟨(src.drop 2).take 255, 255, (src.getD 1 0).toNat⟩,
      ⟨(src.drop 259).take (src.getD 257 0).toNat, (src.getD 257 0).toNat, (src.getD 258 0).toNat⟩] = .ok m ∧
    (src.getD 1 0).toNat = l4winbox_MessageChunkTypeAuth ∧ (src.getD 258 0).toNat = l4winbox_MessageChunkTypePrev := by
  unfold fromBytes at h
  split at h
  · cases h
  · simp only [] at h
    have hq2 : (src.length + l4winbox_MessageChunkBytesMax + 1) / (l4winbox_MessageChunkBytesMax + 2) = 2 := by
      simp only [l4winbox_MessageChunkBytesMax]; omega
    rw [hq2] at h
    unfold chunkLoop at h
    rw [if_neg (by omega)] at h
    simp only [Nat.zero_mul] at h
    rw [idx_ok' src 0 _ (by omega), Res.bind_ok] at h
    split at h
    · cases h
    · rename_i hc
      simp only [l4winbox_MessageChunkBytesMax, l4winbox_MessageChunkBytesMin] at hc
      have h0 : (src.getD 0 0).toNat = 255 := by omega
      rw [idx_ok' src 1 _ (by omega), Res.bind_ok] at h
      split at h
      · cases h
      · rename_i hty0
        simp only [true_and, Nat.lt_irrefl, false_and, or_false, Decidable.not_not] at hty0
        rw [slice_ok src _ _ _ (by omega) (by omega), Res.bind_ok] at h
        unfold chunkLoop at h
        rw [if_neg (by omega)] at h
        simp only [l4winbox_MessageChunkBytesMax, Nat.zero_add, Nat.one_mul] at h
        rw [idx_ok' src 257 _ (by omega), Res.bind_ok] at h
        split at h
        · cases h
        · rename_i hc2
          simp only [l4winbox_MessageChunkBytesMin] at hc2
          rw [idx_ok' src 258 _ (by omega), Res.bind_ok] at h
          split at h
          · cases h
          · rename_i hty1
            simp only [Nat.succ_ne_zero, false_and, false_or, Nat.lt_add_one, true_and, Decidable.not_not,
              show (1 : Nat) ≠ 0 from by decide, show (1 : Nat) > 0 from by decide] at hty1
            rw [slice_ok src _ _ _ (by omega) (by omega), Res.bind_ok] at h
            unfold chunkLoop at h
            simp only [List.reverse_cons, List.reverse_nil, List.nil_append, List.cons_append, Nat.add_sub_cancel_left, h0] at h
            simp only [true_and, not_or, Decidable.not_not, Nat.not_lt] at hc2
            exact ⟨h0, by omega, by omega, h, hty0, hty1⟩

end L4.Winbox

namespace L4.Winbox
open L4 L4.Gen

theorem findDelim_append (a b : Bytes) (k i : Nat) (h : findDelim a k = some i) : findDelim (a ++ b) k = some i := by
  induction a generalizing k with
  | nil => simp [findDelim] at h
  | cons x xs ih =>
    simp only [List.cons_append, findDelim] at h ⊢
    split
    · rename_i hx; rw [if_pos hx] at h; exact h
    · rename_i hx; rw [if_neg hx] at h; exact ih _ h

/-- the payload of the chunks -/
def payload (chunks : List Chunk) : Bytes := (chunks.map fun c => c.bytes.take (min c.len c.bytes.length)).flatten

/-- what a successful `FromChunks` says about the payload: the first delimiter is followed by exactly the 32 key
bytes and the parity byte -/
theorem fromChunks_ok (chunks : List Chunk) (m : Msg) (h : fromChunks chunks = .ok m) :
    ∃ i, findDelim (payload chunks) 0 = some i ∧ i + 2 + l4winbox_MessageAuthPublicKeyBytesTotal = (payload chunks).length := by
  unfold fromChunks at h
  split at h
  · cases h
  · simp only [] at h
    split at h
    · cases h
    · rename_i i hi
      have hb := findDelim_spec _ _ _ hi
      split at h
      · cases h
      · rename_i hne
        rw [slice_ok _ 0 i _ (by omega) (by omega), Res.bind_ok,
          slice_ok _ (i + 1) _ _ (by omega) (by omega), Res.bind_ok, idx_ok _ _ _ (by omega), Res.bind_ok] at h
        split at h
        · cases h
        · rename_i hc
          simp only [not_or, Decidable.not_not] at hc
          have hpk := hc.2.1
          rw [slice_len _ _ _ (by omega) (by omega)] at hpk
          refine ⟨i, hi, ?_⟩
          unfold payload
          omega

end L4.Winbox

namespace L4.Winbox
open L4 L4.Gen

/-- a message that parses as two chunks does not also parse when cut after its (full) first chunk: the first
delimiter would have to be followed by 32 key bytes + parity in both -/
theorem two_chunk_prefix_not_msg (src : Bytes) (m m' : Msg) (h1 : 258 ≤ src.length) (h2 : src.length ≤ 514)
    (h : fromBytes src = .ok m) : fromBytes (src.take 257) ≠ .ok m' := by
  intro hp
  obtain ⟨_, hlen, hl2, hch, _, _⟩ := fromBytes_two src m h1 h2 h
  have hlp : (src.take 257).length = 257 := by rw [List.length_take]; omega
  obtain ⟨hl1, hch1, _⟩ := fromBytes_one (src.take 257) m' (by omega) hp
  obtain ⟨i, hi, hil⟩ := fromChunks_ok _ _ hch
  obtain ⟨i1, hi1, hil1⟩ := fromChunks_ok _ _ hch1
  have hb0 : ((src.take 257).getD 0 0).toNat = 255 := by omega
  rw [hb0] at hch1 hi1 hil1
  have hP1 : ((src.take 257).drop 2).take 255 = (src.drop 2).take 255 := by
    rw [List.drop_take, List.take_take]; simp
  have hP1len : ((src.drop 2).take 255).length = 255 := by
    rw [List.length_take, List.length_drop]; omega
  have hP2len : ((src.drop 259).take (src.getD 257 0).toNat).length = (src.getD 257 0).toNat := by
    rw [List.length_take, List.length_drop]; omega
  simp only [payload, List.map_cons, List.map_nil, List.flatten_cons, List.flatten_nil, List.append_nil, hP1, hP1len,
    hP2len, Nat.min_self, List.length_append, List.length_take] at hi hil hi1 hil1
  have := findDelim_append _ (List.take (src.getD 257 0).toNat (List.take (src.getD 257 0).toNat (List.drop 259 src))) 0 i1 hi1
  rw [this] at hi
  injection hi with hi
  simp only [l4winbox_MessageAuthPublicKeyBytesTotal] at hil hil1
  omega

end L4.Winbox

namespace L4.Winbox
open L4 L4.Gen

/-- `MatchWinbox.Match` as a function of the bytes available for matching -/
def verdict (cfg : Cfg) (bs : Bytes) : Verdict :=
  if bs.length < 2 then .more else
  let hdr := bs.take 2
  let rest := bs.drop 2
  let h0 := (hdr.headD 0).toNat
  let h1 := (hdr.getD 1 0).toNat
  if h0 < l4winbox_MessageAuthBytesMin - 2 ∨ h1 ≠ l4winbox_MessageChunkTypeAuth then .no
  else if rest.length < h0 then .more
  else afterRead cfg hdr (rest.take (min (wanted h0 + 1) rest.length)) h0

theorem wanted_ge (h0 : Nat) (h : h0 ≤ 255) : h0 ≤ wanted h0 ∧ wanted h0 ≤ 291 := by
  unfold wanted
  simp only [l4winbox_MessageChunkBytesMax, l4winbox_MessageAuthBytesMax]
  by_cases h' : h0 = 255
  · simp [h']
  · simp [h']; omega

theorem run_eq_verdict (cfg : Cfg) (bs : Bytes) : (matcher cfg).run bs = verdict cfg bs := by
  unfold matcher verdict
  simp only [Prog.run]
  by_cases hl : bs.length < 2
  · rw [if_neg (by omega), if_pos hl]
  · rw [if_pos (by omega), if_neg hl]
    split
    · rfl
    · rename_i hc
      simp only [l4winbox_MessageAuthBytesMin, not_or, Nat.not_lt] at hc
      have hb : ((bs.take 2).headD 0).toNat ≤ 255 := by
        have := ((bs.take 2).headD 0).toNat_lt; omega
      have hw := wanted_ge _ hb
      simp only [Prog.run]
      rw [if_neg (by omega), if_neg (by omega)]
      by_cases hr : (bs.drop 2).length < ((bs.take 2).headD 0).toNat
      · rw [if_neg (by omega), if_pos hr]
      · rw [if_pos (by omega), if_neg hr]

end L4.Winbox

namespace L4.Winbox
open L4 L4.Gen

/-- in a message that parses as two chunks the delimiter does not come early in the first chunk -/
theorem two_chunk_no_earlyDelim (src : Bytes) (m : Msg) (h1 : 258 ≤ src.length) (h2 : src.length ≤ 514)
    (h : fromBytes src = .ok m) : earlyDelim ((src.drop 2).take 255) = false := by
  obtain ⟨_, hlen, hl2, hch, _, _⟩ := fromBytes_two src m h1 h2 h
  obtain ⟨i, hi, hil⟩ := fromChunks_ok _ _ hch
  have hP1len : ((src.drop 2).take 255).length = 255 := by
    rw [List.length_take, List.length_drop]; omega
  have hP2len : ((src.drop 259).take (src.getD 257 0).toNat).length = (src.getD 257 0).toNat := by
    rw [List.length_take, List.length_drop]; omega
  simp only [payload, List.map_cons, List.map_nil, List.flatten_cons, List.flatten_nil, List.append_nil, hP1len,
    hP2len, Nat.min_self, List.length_append, List.length_take] at hi hil
  unfold earlyDelim
  cases hf : findDelim ((src.drop 2).take 255) 0 with
  | none => rfl
  | some i' =>
    have := findDelim_append ((src.drop 2).take 255 |>.take 255)
      (List.take (src.getD 257 0).toNat (List.take (src.getD 257 0).toNat (List.drop 259 src))) 0 i'
      (by rw [List.take_take, Nat.min_self]; exact hf)
    rw [this] at hi
    injection hi with hi
    simp only [decide_eq_false_iff_not]
    simp only [l4winbox_MessageAuthPublicKeyBytesTotal, l4winbox_MessageChunkBytesMax] at hil ⊢
    omega

theorem decideMsg_yes_ok (cfg : Cfg) (r : Res Msg) (h : decideMsg cfg r = .yes) : ∃ m, r = .ok m := by
  cases r with
  | ok m => exact ⟨m, rfl⟩
  | err c => simp [decideMsg] at h
  | panic s => simp [decideMsg] at h

/-- the heart of fragmentation safety: if the bytes after the 2-byte header make `Match` answer yes, then every proper
prefix of them that `ReadAtLeast` would hand over (at least `h0` bytes) makes it answer "need more" -/
theorem afterRead_prefix (cfg : Cfg) (hdr rest : Bytes) (h0 : Nat) (hh : hdr.length = 2) (hb : h0 ≤ 255)
    (hy : afterRead cfg hdr rest h0 = .yes) (j : Nat) (hj1 : h0 ≤ j) (hj2 : j < rest.length) :
    afterRead cfg hdr (rest.take j) h0 = .more := by
  have hw := wanted_ge h0 hb
  unfold afterRead at hy
  split at hy
  · cases hy
  rename_i hc0
  -- the first chunk is full: otherwise the message ends with the first chunk and has no proper prefix of ≥ h0 bytes
  have hfull : h0 = 255 := by
    apply Classical.byContradiction
    intro hne
    have : wanted h0 = h0 := by simp [wanted, l4winbox_MessageChunkBytesMax, hne]
    omega
  subst hfull
  have hw291 : wanted 255 = 291 := by decide
  have hsl : (hdr ++ rest).length = rest.length + 2 := by simp [hh]; omega
  have hpre : hdr ++ rest.take 255 = (hdr ++ rest).take 257 := by
    rw [List.take_append, hh]; simp
    exact (List.take_of_length_le (by omega)).symm
  rw [hw291] at hc0
  rw [if_pos (by decide : 255 = l4winbox_MessageChunkBytesMax)] at hy
  simp only [show l4winbox_MessageChunkBytesMax = 255 from rfl] at hy
  -- the whole input parses as a two-chunk message …
  have hfb : ∃ m, fromBytes (hdr ++ rest) = .ok m ∧ rest.length = 257 + (rest.getD 255 0).toNat := by
    have h257 : (hdr ++ rest).getD 257 0 = rest.getD 255 0 := by
      simp only [List.getD_eq_getElem?_getD]
      rw [List.getElem?_append_right (by omega), hh]
    split at hy
    · cases hy
    · split at hy
      · cases hy
      unfold secondChunk at hy
      split at hy
      · cases hy
      split at hy
      · cases hy
      split at hy
      · cases hy
      rename_i hc3
      simp only [l4winbox_MessageChunkBytesMax] at hc3
      obtain ⟨m, hm⟩ := decideMsg_yes_ok cfg _ hy
      obtain ⟨_, hlen, _, _, _, _⟩ := fromBytes_two (hdr ++ rest) m (by omega) (by omega) hm
      rw [h257] at hlen
      exact ⟨m, hm, by omega⟩
    · obtain ⟨m, hm⟩ := decideMsg_yes_ok cfg _ hy
      obtain ⟨_, hlen, _, _, _, _⟩ := fromBytes_two (hdr ++ rest) m (by omega) (by omega) hm
      rw [h257] at hlen
      exact ⟨m, hm, by omega⟩
  obtain ⟨m, hfb, hlen⟩ := hfb
  -- … so its first chunk alone is not a message
  have hfirst : ∃ c, fromBytes ((hdr ++ rest).take 257) = .err c := by
    cases hp : fromBytes ((hdr ++ rest).take 257) with
    | err c => exact ⟨c, rfl⟩
    | ok m' => exact absurd hp (two_chunk_prefix_not_msg (hdr ++ rest) m m' (by omega) (by omega) hfb)
    | panic s =>
      have := fromBytes_safe ((hdr ++ rest).take 257)
      rw [hp] at this
      simp [Res.isPanic] at this
  obtain ⟨c, hfirst⟩ := hfirst
  -- now the prefix
  have hlt : (rest.take j).length = j := by rw [List.length_take]; omega
  have htt : hdr ++ (rest.take j).take 255 = (hdr ++ rest).take 257 := by
    rw [List.take_take, Nat.min_eq_left (by omega)]; exact hpre
  have hed : earlyDelim ((rest.take j).take 255) = false := by
    have := two_chunk_no_earlyDelim (hdr ++ rest) m (by omega) (by omega) hfb
    rw [List.take_take, Nat.min_eq_left (by omega)]
    rw [List.drop_append_of_le_length (by omega), List.drop_of_length_le (by omega), List.nil_append] at this
    exact this
  unfold afterRead
  simp only [l4winbox_MessageChunkBytesMax, ↓reduceIte, hw291, hlt, htt, hfirst, hed]
  rw [if_neg (by omega)]
  simp only [Bool.false_eq_true, ↓reduceIte]
  unfold secondChunk
  simp only [l4winbox_MessageChunkBytesMax, hw291, hlt]
  by_cases hj' : j < 257
  · rw [if_pos (by omega)]
  · rw [if_neg (by omega)]
    have hg : (rest.take j).getD 255 0 = rest.getD 255 0 := by
      simp only [List.getD_eq_getElem?_getD]
      rw [List.getElem?_take_of_lt (by omega)]
    rw [hg, if_neg (by omega), if_pos (by omega)]

/-- **Fragmentation safety of the WinBox matcher**: if `Match` answers yes on `bs`, it answers "need more" on every
proper prefix of `bs` — for every configuration and every byte string. -/
theorem verdict_fragment_safe (cfg : Cfg) (bs : Bytes) (h : verdict cfg bs = .yes) (k : Nat) (hk : k < bs.length) :
    verdict cfg (bs.take k) = .more := by
  unfold verdict at h
  split at h
  · cases h
  rename_i hl
  simp only [] at h
  split at h
  · cases h
  rename_i hc
  split at h
  · cases h
  rename_i hr
  have hb : ((bs.take 2).headD 0).toNat ≤ 255 := by
    have := ((bs.take 2).headD 0).toNat_lt; omega
  have hw := wanted_ge _ hb
  -- nothing follows the message: `ReadAtLeast` delivered all of `rest`
  have hrl : (bs.drop 2).length ≤ wanted ((bs.take 2).headD 0).toNat := by
    apply Classical.byContradiction
    intro hgt
    have hlen : ((bs.drop 2).take (min (wanted ((bs.take 2).headD 0).toNat + 1) (bs.drop 2).length)).length =
        wanted ((bs.take 2).headD 0).toNat + 1 := by
      rw [List.length_take]; omega
    unfold afterRead at h
    rw [if_pos (by omega)] at h
    cases h
  rw [Nat.min_eq_right (by omega), List.take_of_length_le (Nat.le_refl _)] at h
  unfold verdict
  by_cases hk2 : k < 2
  · rw [if_pos (by rw [List.length_take]; omega)]
  · have hlk : (bs.take k).length = k := by rw [List.length_take]; omega
    have ht : (bs.take k).take 2 = bs.take 2 := by rw [List.take_take]; congr 1; omega
    have hd : (bs.take k).drop 2 = (bs.drop 2).take (k - 2) := by rw [List.drop_take]
    rw [if_neg (by omega)]
    simp only [ht, hd]
    rw [if_neg hc]
    have hdl : ((bs.drop 2).take (k - 2)).length = k - 2 := by
      rw [List.length_take, List.length_drop]; omega
    rw [hdl]
    split
    · rfl
    · rename_i hr'
      have hdl' : (bs.drop 2).length = bs.length - 2 := List.length_drop
      have hgot : ((bs.drop 2).take (k - 2)).take (min (wanted ((bs.take 2).headD 0).toNat + 1) (k - 2)) =
          (bs.drop 2).take (k - 2) := by
        apply List.take_of_length_le
        rw [hdl, Nat.min_eq_right (by omega)]
        exact Nat.le_refl _
      rw [hgot]
      exact afterRead_prefix cfg (bs.take 2) (bs.drop 2) _ (by rw [List.length_take]; omega) hb h (k - 2) (by omega) (by omega)

end L4.Winbox

namespace L4.Winbox
open L4 L4.Gen

theorem decideMsg_not_ok (cfg : Cfg) (src : Bytes) (h : ∀ m, fromBytes src ≠ .ok m) : decideMsg cfg (fromBytes src) = .no := by
  have hs := fromBytes_safe src
  cases hp : fromBytes src with
  | ok m => exact absurd hp (h m)
  | err c => rfl
  | panic s => rw [hp] at hs; simp [Res.isPanic] at hs

/-- `no` is final once `ReadAtLeast` has delivered the first chunk: whatever follows, the answer stays `no` -/
theorem afterRead_no_stable (cfg : Cfg) (hdr rest ext : Bytes) (h0 : Nat) (hh : hdr.length = 2) (hb : h0 ≤ 255)
    (hr : h0 ≤ rest.length)
    (hn : afterRead cfg hdr (rest.take (min (wanted h0 + 1) rest.length)) h0 = .no) :
    afterRead cfg hdr ((rest ++ ext).take (min (wanted h0 + 1) (rest ++ ext).length)) h0 = .no := by
  have hw := wanted_ge h0 hb
  cases ext with
  | nil => simpa using hn
  | cons e es =>
  have hel : (rest ++ e :: es).length = rest.length + es.length + 1 := by simp; omega
  by_cases hbig : wanted h0 < rest.length
  · -- already more than a message can hold: both reads deliver the same `wanted + 1` bytes
    have : (rest ++ e :: es).take (min (wanted h0 + 1) (rest ++ e :: es).length) =
        rest.take (min (wanted h0 + 1) rest.length) := by
      rw [Nat.min_eq_left (by omega), Nat.min_eq_left (by omega), List.take_append_of_le_length (by omega)]
    rw [this]; exact hn
  · have hgot : rest.take (min (wanted h0 + 1) rest.length) = rest := by
      rw [Nat.min_eq_right (by omega)]; exact List.take_of_length_le (Nat.le_refl _)
    rw [hgot] at hn
    generalize hg' : (rest ++ e :: es).take (min (wanted h0 + 1) (rest ++ e :: es).length) = got'
    have hgl : got'.length = min (wanted h0 + 1) (rest.length + es.length + 1) := by
      rw [← hg', List.length_take, hel]; omega
    by_cases hbig' : wanted h0 < got'.length
    · unfold afterRead; rw [if_pos hbig']
    · -- the longer read still fits: it delivered all of `rest ++ ext`
      have hg2 : got' = rest ++ e :: es := by
        rw [← hg']; apply List.take_of_length_le; rw [hel]; omega
      have hlen' : got'.length = rest.length + es.length + 1 := by rw [hg2, hel]
      unfold afterRead at hn ⊢
      rw [if_neg (by omega)] at hn
      rw [if_neg hbig']
      by_cases hf : h0 = l4winbox_MessageChunkBytesMax
      · rw [if_pos hf] at hn ⊢
        have hf' : h0 = 255 := hf
        subst hf'
        have hw291 : wanted 255 = 291 := by decide
        have ht : got'.take l4winbox_MessageChunkBytesMax = rest.take l4winbox_MessageChunkBytesMax := by
          rw [hg2, List.take_append_of_le_length (by simp only [l4winbox_MessageChunkBytesMax]; omega)]
        rw [ht]
        have hsl : (hdr ++ got').length = got'.length + 2 := by simp [hh]; omega
        have hpre : hdr ++ rest.take l4winbox_MessageChunkBytesMax = (hdr ++ got').take 257 := by
          rw [List.take_append, hh, List.take_of_length_le (by omega : hdr.length ≤ 257)]
          have h255 : 257 - 2 = l4winbox_MessageChunkBytesMax := rfl
          rw [h255, ht]
        have h257 : (hdr ++ got').getD 257 0 = got'.getD 255 0 := by
          simp only [List.getD_eq_getElem?_getD]
          rw [List.getElem?_append_right (by omega), hh]
        cases hfirst : fromBytes (hdr ++ rest.take l4winbox_MessageChunkBytesMax) with
        | panic s => rw [hfirst] at hn; cases hn
        | ok m1 =>
          rw [hfirst] at hn
          simp only []
          apply decideMsg_not_ok
          intro m hm
          have := two_chunk_prefix_not_msg (hdr ++ got') m m1 (by omega) (by omega) hm
          rw [← hpre] at this
          exact this hfirst
        | err c =>
          rw [hfirst] at hn
          simp only [] at hn ⊢
          by_cases hed : earlyDelim (rest.take l4winbox_MessageChunkBytesMax) = true
          · rw [if_pos hed]
          rw [if_neg hed] at hn ⊢
          unfold secondChunk at hn ⊢
          split at hn
          · cases hn
          rename_i h1
          have hg255 : got'.getD l4winbox_MessageChunkBytesMax 0 = rest.getD l4winbox_MessageChunkBytesMax 0 := by
            simp only [List.getD_eq_getElem?_getD, hg2]
            rw [List.getElem?_append_left (by simp only [l4winbox_MessageChunkBytesMax] at h1 ⊢; omega)]
          rw [hg255]
          simp only [l4winbox_MessageChunkBytesMax] at h1
          rw [if_neg (by simp only [l4winbox_MessageChunkBytesMax]; omega)]
          split at hn
          · rename_i h2; rw [if_pos h2]
          rename_i h2
          rw [if_neg h2]
          split at hn
          · cases hn
          rename_i h3
          rw [if_neg (by omega)]
          apply decideMsg_not_ok
          intro m hm
          obtain ⟨_, hl, _, _, _, _⟩ := fromBytes_two (hdr ++ got') m (by omega) (by omega) hm
          have hg255' : got'.getD 255 0 = rest.getD 255 0 := hg255
          rw [h257, hg255'] at hl
          simp only [l4winbox_MessageChunkBytesMax] at h3
          omega
      · rw [if_neg hf] at hn ⊢
        -- a short first chunk: the message ends with it, anything longer is too long
        have : wanted h0 = h0 := by simp [wanted, hf]
        omega

end L4.Winbox

namespace L4.Winbox
open L4 L4.Gen

/-- **`no` is final for the WinBox matcher**: a `no` on the bytes received so far stays `no` whatever arrives later -/
theorem verdict_no_stable (cfg : Cfg) (pre ext : Bytes) (h : verdict cfg pre = .no) : verdict cfg (pre ++ ext) = .no := by
  unfold verdict at h ⊢
  split at h
  · cases h
  rename_i hl
  have hl' : ¬ (pre ++ ext).length < 2 := by simp; omega
  rw [if_neg hl']
  have ht : (pre ++ ext).take 2 = pre.take 2 := List.take_append_of_le_length (by omega)
  have hd : (pre ++ ext).drop 2 = pre.drop 2 ++ ext := List.drop_append_of_le_length (by omega)
  simp only [ht, hd] at h ⊢
  split at h
  · rename_i hc; rw [if_pos hc]
  rename_i hc
  rw [if_neg hc]
  split at h
  · cases h
  rename_i hr
  rw [if_neg (by rw [List.length_append]; omega)]
  have hb : ((pre.take 2).headD 0).toNat ≤ 255 := by
    have := ((pre.take 2).headD 0).toNat_lt; omega
  exact afterRead_no_stable cfg (pre.take 2) (pre.drop 2) ext _ (by rw [List.length_take]; omega) hb (by omega) h

end L4.Winbox

/-! ## `ToBytes ∘ FromBytes` -/
namespace L4.Winbox
open L4 L4.Gen

theorem findDelim_at (l : Bytes) (k i : Nat) (h : findDelim l k = some i) :
    (l.getD (i - k) 0).toNat = l4winbox_MessageChunkBytesDelimiter := by
  induction l generalizing k with
  | nil => simp [findDelim] at h
  | cons x xs ih =>
    simp only [findDelim] at h
    split at h
    · rename_i hx; cases h; simpa using hx
    · have hk := (findDelim_spec xs (k + 1) i h).1
      have := ih (k + 1) h
      have e : i - k = (i - (k + 1)) + 1 := by omega
      rw [e]; simpa using this

/-- the fields `FromChunks` extracts, in terms of the payload -/
theorem fromChunks_fields (chunks : List Chunk) (m : Msg) (h : fromChunks chunks = .ok m) :
    ∃ i, findDelim (payload chunks) 0 = some i ∧ i + 2 + l4winbox_MessageAuthPublicKeyBytesTotal = (payload chunks).length ∧
      m.user = (payload chunks).take i ∧
      m.pk = ((payload chunks).drop (i + 1)).take ((payload chunks).length - 1 - (i + 1)) ∧
      m.parity = (payload chunks).getD ((payload chunks).length - 1) 0 := by
  unfold fromChunks at h
  split at h
  · cases h
  · simp only [] at h
    split at h
    · cases h
    · rename_i i hi
      have hb := findDelim_spec _ _ _ hi
      split at h
      · cases h
      · rename_i hne
        rw [slice_ok _ 0 i _ (by omega) (by omega), Res.bind_ok,
          slice_ok _ (i + 1) _ _ (by omega) (by omega), Res.bind_ok, idx_ok' _ _ _ (by omega), Res.bind_ok] at h
        split at h
        · cases h
        · rename_i hc
          simp only [not_or, Decidable.not_not] at hc
          have hpk := hc.2.1
          rw [slice_len _ _ _ (by omega) (by omega)] at hpk
          injection h with h
          subst h
          refine ⟨i, hi, ?_, ?_, rfl, rfl⟩
          · unfold payload; omega
          · simp [payload]

/-- a byte string is its first `i` bytes, byte `i`, the bytes up to the last one, and the last byte -/
theorem split_four (s : Bytes) (i : Nat) (h : i + 2 ≤ s.length) :
    s.take i ++ [s.getD i 0] ++ (s.drop (i + 1)).take (s.length - 1 - (i + 1)) ++ [s.getD (s.length - 1) 0] = s := by
  apply List.ext_getElem
  · simp [List.length_take, List.length_drop]; omega
  · intro n h1 h2
    simp only [List.getD_eq_getElem?_getD]
    by_cases hn : n < i
    · rw [List.getElem_append_left (by simp [List.length_take, List.length_drop]; omega),
        List.getElem_append_left (by simp [List.length_take]; omega),
        List.getElem_append_left (by simp [List.length_take]; omega)]
      simp
    · by_cases hn2 : n = i
      · subst hn2
        rw [List.getElem_append_left (by simp [List.length_take, List.length_drop]; omega),
          List.getElem_append_left (by simp [List.length_take]; omega),
          List.getElem_append_right (by simp [List.length_take]; omega)]
        simp [List.length_take, Nat.min_eq_left (by omega : n ≤ s.length)]
        rw [List.getElem?_eq_getElem (by omega)]; rfl
      · by_cases hn3 : n < s.length - 1
        · rw [List.getElem_append_left (by simp [List.length_take, List.length_drop]; omega),
            List.getElem_append_right (by simp [List.length_take]; omega)]
          simp [List.length_take, Nat.min_eq_left (by omega : i ≤ s.length)]
          congr 1; omega
        · have : n = s.length - 1 := by omega
          subst this
          rw [List.getElem_append_right (by simp [List.length_take, List.length_drop]; omega)]
          simp [List.length_take, List.length_drop]
          rw [List.getElem?_eq_getElem (by omega)]; rfl

end L4.Winbox

namespace L4.Winbox
open L4 L4.Gen

theorem toChunksLoop_short (S : Bytes) (hl1 : 1 ≤ S.length) (hl2 : S.length ≤ 254) :
    toChunksLoop S S.length (S.length / l4winbox_MessageChunkBytesMax + 1) (S.length / l4winbox_MessageChunkBytesMax + 1) 0 [] =
      [⟨S, S.length, l4winbox_MessageChunkTypeAuth⟩] := by
  have hq : S.length / l4winbox_MessageChunkBytesMax + 1 = 1 := by
    simp only [l4winbox_MessageChunkBytesMax]; omega
  rw [hq]
  unfold toChunksLoop
  rw [if_neg (by omega)]
  simp only [Nat.zero_mul, Nat.sub_zero, List.drop_zero]
  have hmin : min l4winbox_MessageChunkBytesMax S.length = S.length := by
    simp only [l4winbox_MessageChunkBytesMax]; omega
  rw [hmin, if_neg (by omega)]
  simp only [↓reduceIte, Nat.zero_add]
  unfold toChunksLoop
  simp only [List.reverse_cons, List.reverse_nil, List.nil_append]
  rw [List.take_of_length_le (Nat.le_refl _), Nat.mod_eq_of_lt (by omega)]

theorem toChunksLoop_full (S : Bytes) (hl : S.length = 255) :
    toChunksLoop S S.length (S.length / l4winbox_MessageChunkBytesMax + 1) (S.length / l4winbox_MessageChunkBytesMax + 1) 0 [] =
      [⟨S, S.length, l4winbox_MessageChunkTypeAuth⟩] := by
  have hq : S.length / l4winbox_MessageChunkBytesMax + 1 = 2 := by
    simp only [l4winbox_MessageChunkBytesMax]; omega
  rw [hq]
  unfold toChunksLoop
  rw [if_neg (by omega)]
  simp only [Nat.zero_mul, Nat.sub_zero, List.drop_zero]
  have hmin : min l4winbox_MessageChunkBytesMax S.length = S.length := by
    simp only [l4winbox_MessageChunkBytesMax]; omega
  rw [hmin, if_neg (by omega)]
  simp only [↓reduceIte, Nat.zero_add]
  unfold toChunksLoop
  rw [if_neg (by omega)]
  simp only [Nat.one_mul]
  have hmin2 : min l4winbox_MessageChunkBytesMax (S.length - l4winbox_MessageChunkBytesMax) = 0 := by
    simp only [l4winbox_MessageChunkBytesMax]; omega
  rw [hmin2, if_pos rfl]
  simp only [List.reverse_cons, List.reverse_nil, List.nil_append]
  rw [List.take_of_length_le (Nat.le_refl _), Nat.mod_eq_of_lt (by omega)]

theorem toChunksLoop_two (S : Bytes) (hl1 : 256 ≤ S.length) (hl2 : S.length ≤ 509) :
    toChunksLoop S S.length (S.length / l4winbox_MessageChunkBytesMax + 1) (S.length / l4winbox_MessageChunkBytesMax + 1) 0 [] =
      [⟨S.take 255, 255, l4winbox_MessageChunkTypeAuth⟩, ⟨S.drop 255, S.length - 255, l4winbox_MessageChunkTypePrev⟩] := by
  have hq : S.length / l4winbox_MessageChunkBytesMax + 1 = 2 := by
    simp only [l4winbox_MessageChunkBytesMax]; omega
  rw [hq]
  unfold toChunksLoop
  rw [if_neg (by omega)]
  simp only [Nat.zero_mul, Nat.sub_zero, List.drop_zero]
  have hmin : min l4winbox_MessageChunkBytesMax S.length = 255 := by
    simp only [l4winbox_MessageChunkBytesMax]; omega
  rw [hmin, if_neg (by omega)]
  simp only [↓reduceIte, Nat.zero_add]
  unfold toChunksLoop
  rw [if_neg (by omega)]
  simp only [Nat.one_mul]
  have hmin2 : min l4winbox_MessageChunkBytesMax (S.length - l4winbox_MessageChunkBytesMax) = S.length - 255 := by
    simp only [l4winbox_MessageChunkBytesMax]; omega
  rw [hmin2, if_neg (by omega), if_neg (by omega)]
  unfold toChunksLoop
  simp only [List.reverse_cons, List.reverse_nil, List.nil_append, List.cons_append]
  have h255 : l4winbox_MessageChunkBytesMax = 255 := rfl
  have ht : (S.drop 255).take (S.length - 255) = S.drop 255 :=
    List.take_of_length_le (by rw [List.length_drop]; omega)
  rw [h255, ht, Nat.mod_eq_of_lt (by omega), Nat.mod_eq_of_lt (by omega)]

end L4.Winbox

namespace L4.Winbox
open L4 L4.Gen

theorem byte_of_toNat (b : UInt8) (n : Nat) (h : b.toNat = n) : UInt8.ofNat n = b := by
  subst h; exact UInt8.ofNat_toNat

theorem two_bytes (s : Bytes) (k : Nat) (h : k + 2 ≤ s.length) : (s.drop k).take 2 = [s.getD k 0, s.getD (k + 1) 0] := by
  apply List.ext_getElem
  · simp [List.length_take, List.length_drop]; omega
  · intro n h1 h2
    simp only [List.length_cons, List.length_nil] at h2
    simp only [List.getD_eq_getElem?_getD]
    have : n = 0 ∨ n = 1 := by omega
    rcases this with rfl | rfl
    · simp; rw [List.getElem?_eq_getElem (by omega)]; rfl
    · simp; rw [List.getElem?_eq_getElem (by omega)]; rfl

/-- what `ToChunks` works on is the payload `FromChunks` saw -/
theorem dst_eq_payload (chunks : List Chunk) (m : Msg) (h : fromChunks chunks = .ok m) :
    m.user ++ [UInt8.ofNat l4winbox_MessageChunkBytesDelimiter] ++ m.pk ++ [m.parity] = payload chunks ∧
    m.pk.length + m.user.length + 2 = (payload chunks).length := by
  obtain ⟨i, hi, hil, hu, hp, hpar⟩ := fromChunks_fields chunks m h
  have hd := findDelim_at _ 0 i hi
  simp only [Nat.sub_zero] at hd
  simp only [l4winbox_MessageAuthPublicKeyBytesTotal] at hil
  constructor
  · rw [hu, hp, hpar, byte_of_toNat _ _ hd]
    exact split_four _ i (by omega)
  · rw [hu, hp, List.length_take, List.length_take, List.length_drop]; omega

end L4.Winbox

namespace L4.Winbox
open L4 L4.Gen

theorem toChunks_of_payload (m : Msg) (S : Bytes)
    (hd : m.user ++ [UInt8.ofNat l4winbox_MessageChunkBytesDelimiter] ++ m.pk ++ [m.parity] = S)
    (hl : m.pk.length + m.user.length + 2 = S.length) :
    toChunks m = toChunksLoop S S.length (S.length / l4winbox_MessageChunkBytesMax + 1)
      (S.length / l4winbox_MessageChunkBytesMax + 1) 0 [] := by
  unfold toChunks
  simp only [hd, hl]

/-- **`ToBytes ∘ FromBytes = id`** for every input of up to two chunks (everything `Match` can hand to the parser is
at most 293 bytes long) -/
theorem toBytes_fromBytes (src : Bytes) (m : Msg) (hL : src.length ≤ 513) (h : fromBytes src = .ok m) :
    toBytes m = src := by
  have hmin : l4winbox_MessageAuthBytesMin ≤ src.length := by
    unfold fromBytes at h
    split at h
    · cases h
    · omega
  simp only [l4winbox_MessageAuthBytesMin] at hmin
  by_cases h257 : src.length ≤ 257
  · obtain ⟨hlen, hch, hty⟩ := fromBytes_one src m h257 h
    obtain ⟨hd, hl⟩ := dst_eq_payload _ m hch
    have hS : payload [⟨(src.drop 2).take (src.getD 0 0).toNat, (src.getD 0 0).toNat, (src.getD 1 0).toNat⟩] = src.drop 2 := by
      simp only [payload, List.map_cons, List.map_nil, List.flatten_cons, List.flatten_nil, List.append_nil]
      rw [List.take_take]
      apply List.take_of_length_le
      rw [List.length_drop, List.length_take, List.length_drop]; omega
    rw [hS] at hd hl
    have hSl : (src.drop 2).length = src.length - 2 := List.length_drop
    have hc : toChunks m = [⟨src.drop 2, (src.drop 2).length, l4winbox_MessageChunkTypeAuth⟩] := by
      rw [toChunks_of_payload m _ hd hl]
      by_cases h255 : (src.drop 2).length = 255
      · exact toChunksLoop_full _ h255
      · exact toChunksLoop_short _ (by omega) (by omega)
    unfold toBytes
    rw [hc]
    simp only [List.map_cons, List.map_nil, List.flatten_cons, List.flatten_nil, List.append_nil]
    rw [hSl, byte_of_toNat (src.getD 0 0) _ (by omega), byte_of_toNat (src.getD 1 0) _ hty]
    have := two_bytes src 0 (by omega)
    simp only [List.drop_zero, Nat.zero_add] at this
    rw [← this, List.take_append_drop]
  · obtain ⟨hb0, hlen, hl2, hch, hty0, hty1⟩ := fromBytes_two src m (by omega) (by omega) h
    obtain ⟨hd, hl⟩ := dst_eq_payload _ m hch
    have hP1 : ((src.drop 2).take 255).length = 255 := by
      rw [List.length_take, List.length_drop]; omega
    have hP2 : (src.drop 259).take (src.getD 257 0).toNat = src.drop 259 :=
      List.take_of_length_le (by rw [List.length_drop]; omega)
    have hS : payload [⟨(src.drop 2).take 255, 255, (src.getD 1 0).toNat⟩,
        ⟨(src.drop 259).take (src.getD 257 0).toNat, (src.getD 257 0).toNat, (src.getD 258 0).toNat⟩] =
        (src.drop 2).take 255 ++ src.drop 259 := by
      have a1 : ((src.drop 2).take 255).take (min 255 ((src.drop 2).take 255).length) = (src.drop 2).take 255 := by
        rw [hP1, Nat.min_self]; exact List.take_of_length_le (by omega)
      have a2 : (src.drop 259).take (min (src.getD 257 0).toNat (src.drop 259).length) = src.drop 259 :=
        List.take_of_length_le (by rw [List.length_drop]; omega)
      simp only [payload, List.map_cons, List.map_nil, List.flatten_cons, List.flatten_nil, List.append_nil, hP2]
      rw [a1, a2]
    rw [hS] at hd hl
    have hSl : ((src.drop 2).take 255 ++ src.drop 259).length = 255 + (src.getD 257 0).toNat := by
      rw [List.length_append, hP1, List.length_drop]; omega
    have hc : toChunks m = [⟨(src.drop 2).take 255, 255, l4winbox_MessageChunkTypeAuth⟩,
        ⟨src.drop 259, (src.getD 257 0).toNat, l4winbox_MessageChunkTypePrev⟩] := by
      rw [toChunks_of_payload m _ hd hl, toChunksLoop_two _ (by omega) (by omega), hSl]
      rw [List.take_append_of_le_length (by omega), List.take_of_length_le (by omega : ((src.drop 2).take 255).length ≤ 255),
        List.drop_append_of_le_length (by omega), List.drop_of_length_le (by omega : ((src.drop 2).take 255).length ≤ 255),
        List.nil_append, Nat.add_sub_cancel_left]
    unfold toBytes
    rw [hc]
    simp only [List.map_cons, List.map_nil, List.flatten_cons, List.flatten_nil, List.append_nil]
    rw [byte_of_toNat (src.getD 0 0) _ hb0, byte_of_toNat (src.getD 1 0) _ hty0, UInt8.ofNat_toNat,
      byte_of_toNat (src.getD 258 0) _ hty1]
    have t0 := two_bytes src 0 (by omega)
    have t1 := two_bytes src 257 (by omega)
    simp only [List.drop_zero, Nat.zero_add] at t0
    rw [← t0, ← t1]
    -- src = take 2 ++ (drop 2).take 255 ++ (drop 257).take 2 ++ drop 259
    have e1 : src.drop 259 = (src.drop 257).drop 2 := by rw [List.drop_drop]
    have e2 : src.drop 257 = (src.drop 2).drop 255 := by rw [List.drop_drop]
    rw [e1]
    simp only [List.append_assoc]
    rw [List.take_append_drop, e2, List.take_append_drop, List.take_append_drop]

end L4.Winbox

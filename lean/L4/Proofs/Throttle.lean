import L4.Throttle
/-! helper lemmas for C17: the token-bucket conservation chain and the throttle transition system's invariant -/
namespace L4.Throttle

/-- conservation at every reservation: everything reserved so far plus the balance left fits under `burst + rate·elapsed` -/
def Good (burst rate t0 : Rat) : List Rsv → Prop
  | [] => True
  | r :: rest => cum (r :: rest) + r.tk ≤ burst + rate * (r.t - t0) ∧ Good burst rate t0 rest

/-- the limiter's bucket state is the state left by the newest reservation -/
def Synced (l : Lim) : Prop :=
  match l.rs with
  | [] => True
  | r :: _ => l.tokens = r.tk ∧ l.last = r.t

structure LimInv (l : Lim) : Prop where
  good : Good l.burst l.rate l.t0 l.rs
  synced : Synced l
  cap : l.tokens ≤ l.burst
  nn : ∀ r ∈ l.rs, 0 ≤ r.b

theorem limInv_new (burst rate : Rat) : LimInv (Lim.new burst rate) := by
  constructor <;> simp [Lim.new, Good, Synced]

theorem limInv_reserve (l : Lim) (t n : Rat) (o : Nat) (h : LimInv l) (hn : 0 ≤ n) : LimInv (l.reserve t n o) := by
  obtain ⟨hg, hs, hc, hnn⟩ := h
  have hmin1 : l.advance t ≤ l.burst := by unfold Lim.advance; grind
  have hmin2 : l.advance t ≤ l.tokens + (t - l.last) * l.rate := by unfold Lim.advance; grind
  constructor
  · -- good
    cases hrs : l.rs with
    | nil =>
      simp only [Lim.reserve, hrs, List.isEmpty_nil, if_true, Good, cum, and_true]
      grind
    | cons r0 rest =>
      simp only [Lim.reserve, hrs, List.isEmpty_cons, Good, cum]
      rw [hrs] at hg
      simp only [Synced, hrs] at hs
      simp only [Good, cum] at hg
      refine ⟨?_, hg.1, hg.2⟩
      obtain ⟨h1, h2⟩ := hs
      rw [h1, h2] at hmin2
      simp only [Bool.false_eq_true, if_false]
      grind
  · simp [Synced, Lim.reserve]
  · simp only [Lim.reserve]; grind
  · intro r hr
    simp only [Lim.reserve, List.mem_cons] at hr
    rcases hr with rfl | hr
    · exact hn
    · exact hnn r hr

theorem spent_le_cum (rs : List Rsv) (h : ∀ r ∈ rs, 0 ≤ r.b) : spent rs ≤ cum rs := by
  induction rs with
  | nil => simp [spent, cum]
  | cons r rest ih =>
    have := ih (fun x hx => h x (List.mem_cons_of_mem _ hx))
    have hb := h r List.mem_cons_self
    simp only [spent, cum]
    split <;> grind

/-- **key lemma**: if every reservation already acted on was usable by time `T`, the tokens spent fit under the bucket line -/
theorem spent_le (burst rate t0 T : Rat) (rs : List Rsv) (hg : Good burst rate t0 rs) (hnn : ∀ r ∈ rs, 0 ≤ r.b)
    (hu : ∀ r ∈ rs, r.done = true → usable rate r T) (hb : 0 ≤ burst) (hr : 0 ≤ rate) (ht : t0 ≤ T) :
    spent rs ≤ burst + rate * (T - t0) := by
  induction rs with
  | nil =>
    simp only [spent]
    have : 0 ≤ rate * (T - t0) := Rat.mul_nonneg hr (by grind)
    grind
  | cons r rest ih =>
    have ih' := ih hg.2 (fun x hx => hnn x (List.mem_cons_of_mem _ hx)) (fun x hx => hu x (List.mem_cons_of_mem _ hx))
    simp only [spent]
    by_cases hd : r.done = true
    · have h1 := hg.1
      have h2 := hu r List.mem_cons_self hd
      have h3 := spent_le_cum rest (fun x hx => hnn x (List.mem_cons_of_mem _ hx))
      simp only [cum] at h1
      simp only [usable] at h2
      simp only [hd, if_true]
      have e : rate * (T - t0) = rate * (r.t - t0) + rate * (T - r.t) := by grind
      rw [e]; grind
    · simp only [hd]; grind

/-! ## bookkeeping of `getId` / `mark` -/

theorem getId_mem {rs : List Rsv} {id : Nat} {r : Rsv} (h : getId rs id = some r) : r ∈ rs := by
  induction rs with
  | nil => simp [getId] at h
  | cons x rest ih =>
    simp only [getId] at h
    split at h
    · simp at h; simp [h]
    · exact List.mem_cons_of_mem _ (ih h)

theorem getId_lt {rs : List Rsv} {id : Nat} {r : Rsv} (h : getId rs id = some r) : id < rs.length := by
  induction rs with
  | nil => simp [getId] at h
  | cons x rest ih =>
    simp only [getId] at h
    split at h
    · simp; omega
    · have := ih h; simp; omega

theorem getId_ge_none (rs : List Rsv) (id : Nat) (h : rs.length ≤ id) : getId rs id = none := by
  induction rs with
  | nil => simp [getId]
  | cons x rest ih =>
    simp only [getId]
    simp at h
    split
    · omega
    · exact ih (by omega)

@[simp] theorem mark_length (rs : List Rsv) (id : Nat) : (mark rs id).length = rs.length := by
  induction rs with
  | nil => simp [mark]
  | cons x rest ih => simp only [mark]; split <;> simp [ih]

theorem getId_mark (rs : List Rsv) (id id' : Nat) :
    getId (mark rs id) id' = if id = id' then (getId rs id').map (fun r => { r with done := true }) else getId rs id' := by
  induction rs with
  | nil => simp [mark, getId]
  | cons x rest ih =>
    simp only [mark]
    by_cases h1 : rest.length = id
    · simp only [h1, if_true, getId]
      by_cases h2 : id = id'
      · subst h2; simp
      · have : ¬ rest.length = id' := by omega
        simp [h2]
    · simp only [h1, if_false, getId, mark_length]
      by_cases h3 : rest.length = id'
      · have : ¬ id = id' := by omega
        simp [h3, this]
      · simp only [h3, if_false]; exact ih

theorem mem_mark {rs : List Rsv} {id : Nat} {r : Rsv} (h : r ∈ mark rs id) :
    r ∈ rs ∨ ∃ r0, getId rs id = some r0 ∧ r = { r0 with done := true } := by
  induction rs with
  | nil => simp [mark] at h
  | cons x rest ih =>
    simp only [mark] at h
    split at h
    · next heq =>
      simp only [List.mem_cons] at h
      rcases h with rfl | h
      · right; exact ⟨x, by simp [getId, heq], rfl⟩
      · left; exact List.mem_cons_of_mem _ h
    · next hne =>
      simp only [List.mem_cons] at h
      rcases h with rfl | h
      · left; exact List.mem_cons_self
      · rcases ih h with h | ⟨r0, h0, h1⟩
        · left; exact List.mem_cons_of_mem _ h
        · right; exact ⟨r0, by simp [getId, hne, h0], h1⟩

theorem cum_mark (rs : List Rsv) (id : Nat) : cum (mark rs id) = cum rs := by
  induction rs with
  | nil => simp [mark]
  | cons x rest ih => simp only [mark]; split <;> simp [cum, ih]

theorem good_mark (burst rate t0 : Rat) (rs : List Rsv) (id : Nat) (h : Good burst rate t0 rs) :
    Good burst rate t0 (mark rs id) := by
  induction rs with
  | nil => simp [mark, Good]
  | cons x rest ih =>
    simp only [mark]
    split
    · exact ⟨by simpa [cum] using h.1, h.2⟩
    · refine ⟨?_, ih h.2⟩
      have := h.1
      simp only [cum] at this ⊢
      rw [cum_mark]; exact this

/-- marking an unmarked reservation adds exactly its tokens to `spent` -/
theorem spent_mark (rs : List Rsv) (id : Nat) (r : Rsv) (h : getId rs id = some r) (hd : r.done = false) :
    spent (mark rs id) = spent rs + r.b := by
  induction rs with
  | nil => simp [getId] at h
  | cons x rest ih =>
    simp only [getId] at h
    simp only [mark]
    split at h
    · next heq =>
      simp at h; subst h
      simp [heq, spent, hd]
      grind
    · next hne =>
      simp only [hne, if_false, spent]
      rw [ih h]; grind


/-! ## the transition system's invariant -/

structure CfgOk (cf : Cfg) : Prop where
  tb : 0 ≤ cf.tBurst
  tr : 0 ≤ cf.tRate
  lb : 0 ≤ cf.lBurst
  lr : 0 ≤ cf.lRate
  lat : 0 ≤ cf.latency

theorem usable_mono {rate : Rat} {r : Rsv} {T T' : Rat} (hr : 0 ≤ rate) (hT : T ≤ T') (h : usable rate r T) : usable rate r T' := by
  unfold usable at *
  have : 0 ≤ rate * (T' - T) := Rat.mul_nonneg hr (by grind)
  grind

theorem batch_nonneg (cf : Cfg) (h : CfgOk cf) (p : Rat) (hp : 0 ≤ p) : 0 ≤ batch cf p := by
  obtain ⟨h1, _, h3, _, _⟩ := h
  unfold batch
  split <;> split <;> grind

theorem batch_le_p (cf : Cfg) (p : Rat) : batch cf p ≤ p := by
  unfold batch
  split <;> split <;> grind

theorem batch_le_total (cf : Cfg) (p : Rat) (h : cf.hasT = true) : batch cf p ≤ cf.tBurst := by
  unfold batch
  simp only [h, if_true]
  split <;> grind

theorem batch_le_local (cf : Cfg) (p : Rat) (h : cf.hasL = true) : batch cf p ≤ cf.lBurst := by
  unfold batch
  simp only [h, if_true]
  split <;> grind

structure SysInv (cf : Cfg) (s : St) : Prop where
  tInv : LimInv s.total
  tBurst : s.total.burst = cf.tBurst
  tRate : s.total.rate = cf.tRate
  tT0 : s.total.t0 ≤ s.now
  tDone : ∀ r ∈ s.total.rs, r.done = true → usable s.total.rate r s.now
  tPulled : cf.hasT = true → s.pulledAll ≤ spent s.total.rs
  tPendT : cf.hasT = true → ∀ c b id, s.ph c = .wT b id →
    ∃ r, getId s.total.rs id = some r ∧ r.owner = c ∧ r.done = false ∧ r.b = b
  tPendL : cf.hasT = true → ∀ c b id idL, s.ph c = .wL b id idL →
    ∃ r, getId s.total.rs id = some r ∧ r.owner = c ∧ r.done = false ∧ r.b = b ∧ usable s.total.rate r s.now
  lInv : ∀ c, LimInv (s.loc c)
  lBurst : ∀ c, (s.loc c).burst = cf.lBurst
  lRate : ∀ c, (s.loc c).rate = cf.lRate
  lT0 : ∀ c, (s.loc c).t0 ≤ s.now
  lDone : ∀ c, ∀ r ∈ (s.loc c).rs, r.done = true → usable (s.loc c).rate r s.now
  lPulled : cf.hasL = true → ∀ c, s.pulled c ≤ spent (s.loc c).rs
  lPendL : cf.hasL = true → ∀ c b idT id, s.ph c = .wL b idT id →
    ∃ r, getId (s.loc c).rs id = some r ∧ r.done = false ∧ r.b = b
  -- latency
  first : ∀ c t, s.firstRead c = some t → s.readyAt c ≤ t
  notYet : ∀ c, s.firstRead c = none → s.ph c = .idle ∧ s.pulled c = 0
  pulledNN : ∀ c, 0 ≤ s.pulled c
  closedNone : ∀ c, s.opened c = false → s.firstRead c = none
  nnT : ∀ c b id, s.ph c = .wT b id → 0 ≤ b
  nnL : ∀ c b id idL, s.ph c = .wL b id idL → 0 ≤ b

theorem sysInv_init (cf : Cfg) : SysInv cf (init cf) := by
  constructor <;> first | exact limInv_new _ _ | (intro _; exact limInv_new _ _) | simp [init, Lim.new, spent]

theorem inv_tick (cf : Cfg) (hc : CfgOk cf) (s s' : St) (d : Rat) (h : SysInv cf s) (hs : step cf s (.tick d) = some s') : SysInv cf s' := by
  simp only [step] at hs
  split at hs
  · next hd =>
    injection hs with hs; subst hs
    have hr1 : 0 ≤ s.total.rate := by rw [h.tRate]; exact hc.tr
    have hr2 : ∀ c, 0 ≤ (s.loc c).rate := fun c => by rw [h.lRate]; exact hc.lr
    have hle : s.now ≤ s.now + d := by grind
    constructor
    · exact h.tInv
    · exact h.tBurst
    · exact h.tRate
    · have := h.tT0; simp only; grind
    · intro r hr hdn; exact usable_mono hr1 hle (h.tDone r hr hdn)
    · exact h.tPulled
    · exact h.tPendT
    · intro ht c b id idL hp
      obtain ⟨r, h1, h2, h3, h4, h5⟩ := h.tPendL ht c b id idL hp
      exact ⟨r, h1, h2, h3, h4, usable_mono hr1 hle h5⟩
    · exact h.lInv
    · exact h.lBurst
    · exact h.lRate
    · intro c; have := h.lT0 c; simp only; grind
    · intro c r hr hdn; exact usable_mono (hr2 c) hle (h.lDone c r hr hdn)
    · exact h.lPulled
    · exact h.lPendL
    · exact h.first
    · exact h.notYet
    · exact h.pulledNN
    · exact h.closedNone
    · exact h.nnT
    · exact h.nnL
  · simp at hs

theorem inv_handle (cf : Cfg) (s s' : St) (c : Nat) (h : SysInv cf s) (hs : step cf s (.handle c) = some s') : SysInv cf s' := by
  simp only [step] at hs
  split at hs
  · simp at hs
  · next ho =>
    injection hs with hs; subst hs
    constructor
    · exact h.tInv
    · exact h.tBurst
    · exact h.tRate
    · exact h.tT0
    · exact h.tDone
    · exact h.tPulled
    · exact h.tPendT
    · exact h.tPendL
    · exact h.lInv
    · exact h.lBurst
    · exact h.lRate
    · exact h.lT0
    · exact h.lDone
    · exact h.lPulled
    · exact h.lPendL
    · intro c' t hf
      simp only [upd]
      split
      · next heq => subst heq; have := h.closedNone c' (by simpa using ho); simp [this] at hf
      · exact h.first c' t hf
    · exact h.notYet
    · exact h.pulledNN
    · intro c' hcl
      simp only [upd] at hcl
      split at hcl
      · simp at hcl
      · exact h.closedNone c' hcl
    · exact h.nnT
    · exact h.nnL

end L4.Throttle

namespace L4.Throttle

theorem getId_cons_old (x : Rsv) {rs : List Rsv} {id : Nat} {r : Rsv} (h : getId rs id = some r) : getId (x :: rs) id = some r := by
  have := getId_lt h
  simp only [getId]
  split
  · omega
  · exact h

theorem getId_cons_new (x : Rsv) (rs : List Rsv) : getId (x :: rs) rs.length = some x := by simp [getId]

theorem inv_rdStart (cf : Cfg) (hc : CfgOk cf) (s s' : St) (c : Nat) (p : Rat) (h : SysInv cf s)
    (hs : step cf s (.rdStart c p) = some s') : SysInv cf s' := by
  simp only [step] at hs
  split at hs
  · next hg =>
    obtain ⟨hop, hidle, hready, hp⟩ := hg
    injection hs with hs; subst hs
    have hb := batch_nonneg cf hc p hp
    constructor
    · -- tInv
      simp only; split
      · exact limInv_reserve _ _ _ _ h.tInv hb
      · exact h.tInv
    · simp only; split <;> simp [Lim.reserve, h.tBurst]
    · simp only; split <;> simp [Lim.reserve, h.tRate]
    · simp only; split
      · simp only [Lim.reserve]; split
        · exact Rat.le_refl
        · exact h.tT0
      · exact h.tT0
    · intro r hr hd
      simp only at hr ⊢
      split at hr
      · next ht =>
        simp only [ht, if_true]
        simp only [Lim.reserve, List.mem_cons] at hr ⊢
        rcases hr with rfl | hr
        · simp at hd
        · exact h.tDone r hr hd
      · next ht => simp only [ht]; exact h.tDone r hr hd
    · intro ht
      simp only [ht, if_true, Lim.reserve, spent]
      have := h.tPulled ht
      simp only [Bool.false_eq_true, if_false]
      grind
    · intro ht c' b' id' hp'
      simp only [ht, if_true, Lim.reserve]
      simp only [upd] at hp'
      split at hp'
      · next heq =>
        subst heq
        injection hp' with e1 e2
        subst e1; subst e2
        exact ⟨_, getId_cons_new _ _, rfl, rfl, rfl⟩
      · obtain ⟨r, h1, h2⟩ := h.tPendT ht c' b' id' hp'
        exact ⟨r, getId_cons_old _ h1, h2⟩
    · intro ht c' b' id' idL' hp'
      simp only [ht, if_true, Lim.reserve]
      simp only [upd] at hp'
      split at hp'
      · simp at hp'
      · obtain ⟨r, h1, h2⟩ := h.tPendL ht c' b' id' idL' hp'
        exact ⟨r, getId_cons_old _ h1, h2⟩
    · exact h.lInv
    · exact h.lBurst
    · exact h.lRate
    · exact h.lT0
    · exact h.lDone
    · exact h.lPulled
    · intro hl c' b' idT' id' hp'
      simp only [upd] at hp'
      split at hp'
      · simp at hp'
      · exact h.lPendL hl c' b' idT' id' hp'
    · intro c' t hf
      simp only [upd] at hf
      split at hf
      · next heq =>
        subst heq
        cases hfr : s.firstRead c' with
        | none => simp [hfr] at hf; subst hf; exact hready
        | some t0 => simp [hfr] at hf; subst hf; exact h.first c' t0 hfr
      · exact h.first c' t hf
    · intro c' hf
      simp only [upd] at hf ⊢
      split at hf
      · next heq =>
        subst heq
        cases hfr : s.firstRead c' <;> simp [hfr] at hf
      · next hne => simp only [hne, if_false]; exact h.notYet c' hf
    · exact h.pulledNN
    · intro c' hcl
      simp only [upd]
      split
      · next heq => rw [heq] at hcl; simp only at hcl; rw [hcl] at hop; simp at hop
      · exact h.closedNone c' hcl
    · intro c' b' id' hp'
      simp only [upd] at hp'
      split at hp'
      · injection hp' with e1 e2; subst e1; exact hb
      · exact h.nnT c' b' id' hp'
    · intro c' b' id' idL' hp'
      simp only [upd] at hp'
      split at hp'
      · simp at hp'
      · exact h.nnL c' b' id' idL' hp'
  · simp at hs

end L4.Throttle

namespace L4.Throttle

theorem inv_rdLocal (cf : Cfg) (s s' : St) (c : Nat) (h : SysInv cf s)
    (hs : step cf s (.rdLocal c) = some s') : SysInv cf s' := by
  simp only [step] at hs
  split at hs
  · next b idT hph =>
    split at hs
    · next hok =>
      injection hs with hs; subst hs
      have hb := h.nnT c b idT hph
      constructor
      · exact h.tInv
      · exact h.tBurst
      · exact h.tRate
      · exact h.tT0
      · exact h.tDone
      · exact h.tPulled
      · intro ht c' b' id' hp'
        simp only [upd] at hp'
        split at hp'
        · simp at hp'
        · exact h.tPendT ht c' b' id' hp'
      · intro ht c' b' id' idL' hp'
        simp only [upd] at hp'
        split at hp'
        · next heq =>
          subst heq
          injection hp' with e1 e2 e3
          obtain ⟨r, h1, h2, h3, h4⟩ := h.tPendT ht c' b idT hph
          simp only [limOk, ht, if_true, h1, decide_eq_true_eq] at hok
          rw [← e1, ← e2]
          exact ⟨r, h1, h2, h3, h4, hok⟩
        · exact h.tPendL ht c' b' id' idL' hp'
      · intro c'
        simp only; split
        · simp only [upd]; split
          · exact limInv_reserve _ _ _ _ (h.lInv c) hb
          · exact h.lInv c'
        · exact h.lInv c'
      · intro c'
        simp only; split
        · simp only [upd]; split
          · simp [Lim.reserve, h.lBurst]
          · exact h.lBurst c'
        · exact h.lBurst c'
      · intro c'
        simp only; split
        · simp only [upd]; split
          · simp [Lim.reserve, h.lRate]
          · exact h.lRate c'
        · exact h.lRate c'
      · intro c'
        simp only; split
        · simp only [upd]; split
          · simp only [Lim.reserve]; split
            · exact Rat.le_refl
            · exact h.lT0 c
          · exact h.lT0 c'
        · exact h.lT0 c'
      · intro c' r hr hd
        simp only at hr ⊢
        split at hr
        · next hl =>
          simp only [hl, if_true]
          simp only [upd] at hr ⊢
          split at hr
          · next heq =>
            simp only [heq, if_true]
            simp only [Lim.reserve, List.mem_cons] at hr ⊢
            rcases hr with rfl | hr
            · simp at hd
            · exact h.lDone c r hr hd
          · next hne => simp only [hne, if_false]; exact h.lDone c' r hr hd
        · next hl => simp only [hl]; exact h.lDone c' r hr hd
      · intro hl c'
        simp only [hl, if_true, upd]
        split
        · next heq =>
          subst heq
          simp only [Lim.reserve, spent, Bool.false_eq_true, if_false]
          have := h.lPulled hl c'
          grind
        · exact h.lPulled hl c'
      · intro hl c' b' idT' id' hp'
        simp only [hl, if_true]
        simp only [upd] at hp' ⊢
        split at hp'
        · next heq =>
          subst heq
          injection hp' with e1 e2 e3
          subst e1; subst e3
          simp only [if_true, Lim.reserve]
          exact ⟨_, getId_cons_new _ _, rfl, rfl⟩
        · next hne =>
          simp only [hne, if_false]
          exact h.lPendL hl c' b' idT' id' hp'
      · exact h.first
      · intro c' hf
        simp only [upd]
        split
        · next heq => subst heq; have := (h.notYet c' hf).1; rw [hph] at this; simp at this
        · exact h.notYet c' hf
      · exact h.pulledNN
      · exact h.closedNone
      · intro c' b' id' hp'
        simp only [upd] at hp'
        split at hp'
        · simp at hp'
        · exact h.nnT c' b' id' hp'
      · intro c' b' id' idL' hp'
        simp only [upd] at hp'
        split at hp'
        · injection hp' with e1 e2 e3; subst e1; exact hb
        · exact h.nnL c' b' id' idL' hp'
    · simp at hs
  · simp at hs

end L4.Throttle

namespace L4.Throttle

theorem synced_mark (l : Lim) (id : Nat) (h : Synced l) : Synced { l with rs := mark l.rs id } := by
  unfold Synced at *
  cases hrs : l.rs with
  | nil => simp [mark]
  | cons x rest =>
    rw [hrs] at h
    simp only [mark]
    by_cases he : rest.length = id
    · simp only [he, if_true]; exact h
    · simp only [he, if_false]; exact h

theorem limInv_mark (l : Lim) (id : Nat) (h : LimInv l) : LimInv { l with rs := mark l.rs id } := by
  obtain ⟨hg, hs, hc, hnn⟩ := h
  refine ⟨good_mark _ _ _ _ _ hg, synced_mark l id hs, hc, ?_⟩
  intro r hr
  rcases mem_mark hr with hr | ⟨r0, h0, rfl⟩
  · exact hnn r hr
  · exact hnn r0 (getId_mem h0)

theorem inv_rdDone (cf : Cfg) (s s' : St) (c : Nat) (n : Rat) (h : SysInv cf s)
    (hs : step cf s (.rdDone c n) = some s') : SysInv cf s' := by
  simp only [step] at hs
  split at hs
  · next b idT idL hph =>
    split at hs
    · next hg =>
      obtain ⟨hok, hn0, hnb⟩ := hg
      injection hs with hs; subst hs
      constructor
      · simp only; split
        · exact limInv_mark _ _ h.tInv
        · exact h.tInv
      · simp only; split <;> simp [h.tBurst]
      · simp only; split <;> simp [h.tRate]
      · simp only; split <;> exact h.tT0
      · -- tDone
        intro r hr hd
        simp only at hr ⊢
        split at hr
        · next ht =>
          simp only [ht, if_true]
          rcases mem_mark hr with hr | ⟨r0, h0, rfl⟩
          · exact h.tDone r hr hd
          · obtain ⟨r1, g1, _, _, _, g5⟩ := h.tPendL ht c b idT idL hph
            rw [g1] at h0; injection h0 with h0; subst h0
            exact g5
        · next ht => simp only [ht]; exact h.tDone r hr hd
      · intro ht
        simp only [ht, if_true]
        obtain ⟨r1, g1, _, g3, g4, _⟩ := h.tPendL ht c b idT idL hph
        rw [spent_mark _ _ _ g1 g3]
        have := h.tPulled ht
        grind
      · intro ht c' b' id' hp'
        simp only [upd] at hp'
        split at hp'
        · simp at hp'
        · next hne =>
          obtain ⟨r, h1, h2, h3⟩ := h.tPendT ht c' b' id' hp'
          obtain ⟨r1, g1, g2, _⟩ := h.tPendL ht c b idT idL hph
          simp only [ht, if_true, getId_mark]
          split
          · next heq =>
            subst heq
            rw [g1] at h1; injection h1 with h1; subst h1
            exact absurd (h2.symm.trans g2) hne
          · exact ⟨r, h1, h2, h3⟩
      · intro ht c' b' id' idL' hp'
        simp only [upd] at hp'
        split at hp'
        · simp at hp'
        · next hne =>
          obtain ⟨r, h1, h2, h3⟩ := h.tPendL ht c' b' id' idL' hp'
          obtain ⟨r1, g1, g2, _⟩ := h.tPendL ht c b idT idL hph
          simp only [ht, if_true, getId_mark]
          split
          · next heq =>
            subst heq
            rw [g1] at h1; injection h1 with h1; subst h1
            exact absurd (h2.symm.trans g2) hne
          · exact ⟨r, h1, h2, h3⟩
      · intro c'
        simp only; split
        · simp only [upd]; split
          · exact limInv_mark _ _ (h.lInv c)
          · exact h.lInv c'
        · exact h.lInv c'
      · intro c'
        simp only; split
        · simp only [upd]; split
          · simp [h.lBurst]
          · exact h.lBurst c'
        · exact h.lBurst c'
      · intro c'
        simp only; split
        · simp only [upd]; split
          · simp [h.lRate]
          · exact h.lRate c'
        · exact h.lRate c'
      · intro c'
        simp only; split
        · simp only [upd]; split
          · exact h.lT0 c
          · exact h.lT0 c'
        · exact h.lT0 c'
      · -- lDone
        intro c' r hr hd
        simp only at hr ⊢
        split at hr
        · next hl =>
          simp only [hl, if_true]
          simp only [upd] at hr ⊢
          split at hr
          · next heq =>
            simp only [heq, if_true]
            rcases mem_mark hr with hr | ⟨r0, h0, rfl⟩
            · exact h.lDone c r hr hd
            · simp only [limOk, hl, if_true, h0, decide_eq_true_eq] at hok
              exact hok
          · next hne => simp only [hne, if_false]; exact h.lDone c' r hr hd
        · next hl => simp only [hl]; exact h.lDone c' r hr hd
      · intro hl c'
        simp only [hl, if_true, upd]
        split
        · next heq =>
          subst heq
          obtain ⟨r1, g1, g3, g4⟩ := h.lPendL hl c' b idT idL hph
          rw [spent_mark _ _ _ g1 g3]
          have := h.lPulled hl c'
          grind
        · exact h.lPulled hl c'
      · intro hl c' b' idT' id' hp'
        simp only [hl, if_true]
        simp only [upd] at hp' ⊢
        split at hp'
        · simp at hp'
        · next hne =>
          simp only [hne, if_false]
          exact h.lPendL hl c' b' idT' id' hp'
      · exact h.first
      · intro c' hf
        simp only [upd]
        split
        · next heq => subst heq; have := (h.notYet c' hf).1; rw [hph] at this; simp at this
        · exact h.notYet c' hf
      · intro c'
        simp only [upd]
        split
        · have := h.pulledNN c; grind
        · exact h.pulledNN c'
      · exact h.closedNone
      · intro c' b' id' hp'
        simp only [upd] at hp'
        split at hp'
        · simp at hp'
        · exact h.nnT c' b' id' hp'
      · intro c' b' id' idL' hp'
        simp only [upd] at hp'
        split at hp'
        · simp at hp'
        · exact h.nnL c' b' id' idL' hp'
    · simp at hs
  · simp at hs

theorem inv_step (cf : Cfg) (hc : CfgOk cf) (s s' : St) (a : Act) (h : SysInv cf s) (hs : step cf s a = some s') : SysInv cf s' := by
  cases a with
  | tick d => exact inv_tick cf hc s s' d h hs
  | handle c => exact inv_handle cf s s' c h hs
  | rdStart c p => exact inv_rdStart cf hc s s' c p h hs
  | rdLocal c => exact inv_rdLocal cf s s' c h hs
  | rdDone c n => exact inv_rdDone cf s s' c n h hs

theorem inv_run (cf : Cfg) (hc : CfgOk cf) (acts : List Act) (s s' : St) (h : SysInv cf s) (hs : runActs cf s acts = some s') :
    SysInv cf s' := by
  induction acts generalizing s with
  | nil => simp [runActs] at hs; subst hs; exact h
  | cons a as ih =>
    simp only [runActs] at hs
    cases hst : step cf s a with
    | none => simp [hst] at hs
    | some s1 => simp only [hst] at hs; exact ih s1 (inv_step cf hc s s1 a h hst) hs

end L4.Throttle

namespace L4.Throttle

/-- relation between a connection's first read attempt and the first reservation on its own limiter -/
structure T0Inv (s : St) : Prop where
  noneEmpty : ∀ c, s.firstRead c = none → (s.loc c).rs = []
  past : ∀ c t, s.firstRead c = some t → t ≤ s.now
  after : ∀ c t, s.firstRead c = some t → (s.loc c).rs ≠ [] → t ≤ (s.loc c).t0

theorem mark_eq_nil (rs : List Rsv) (id : Nat) : mark rs id = [] ↔ rs = [] := by
  cases rs with
  | nil => simp [mark]
  | cons x rest => simp only [mark]; split <;> simp

theorem t0Inv_init (cf : Cfg) : T0Inv (init cf) := by
  constructor <;> simp [init, Lim.new]

theorem t0Inv_step (cf : Cfg) (s s' : St) (a : Act) (hI : SysInv cf s) (h : T0Inv s) (hs : step cf s a = some s') : T0Inv s' := by
  cases a with
  | tick d =>
    simp only [step] at hs
    split at hs
    · injection hs with hs; subst hs
      refine ⟨h.noneEmpty, ?_, h.after⟩
      intro c t hf; have := h.past c t hf; simp only; grind
    · simp at hs
  | handle c =>
    simp only [step] at hs
    split at hs
    · simp at hs
    · injection hs with hs; subst hs; exact ⟨h.noneEmpty, h.past, h.after⟩
  | rdStart c p =>
    simp only [step] at hs
    split at hs
    · injection hs with hs; subst hs
      refine ⟨?_, ?_, ?_⟩
      · intro c' hf
        simp only [upd] at hf
        split at hf
        · next heq => subst heq; cases hfr : s.firstRead c' <;> simp [hfr] at hf
        · exact h.noneEmpty c' hf
      · intro c' t hf
        simp only [upd] at hf
        split at hf
        · next heq =>
          subst heq
          cases hfr : s.firstRead c' with
          | none => simp [hfr] at hf; subst hf; exact Rat.le_refl
          | some t0 => simp [hfr] at hf; subst hf; exact h.past c' t0 hfr
        · exact h.past c' t hf
      · intro c' t hf hne
        simp only [upd] at hf
        split at hf
        · next heq =>
          subst heq
          cases hfr : s.firstRead c' with
          | none => exact absurd (h.noneEmpty c' hfr) hne
          | some t0 => simp [hfr] at hf; subst hf; exact h.after c' t0 hfr hne
        · exact h.after c' t hf hne
    · simp at hs
  | rdLocal c =>
    simp only [step] at hs
    split at hs
    · next b idT hph =>
      split at hs
      · injection hs with hs; subst hs
        refine ⟨?_, h.past, ?_⟩
        · intro c' hf
          have := (hI.notYet c' hf).1
          simp only; split
          · simp only [upd]; split
            · next heq => subst heq; rw [hph] at this; simp at this
            · exact h.noneEmpty c' hf
          · exact h.noneEmpty c' hf
        · intro c' t hf hne
          simp only at hne ⊢
          split at hne
          · next hl =>
            simp only [hl, if_true]
            simp only [upd] at hne ⊢
            split at hne
            · next heq =>
              subst heq
              simp only [if_true, Lim.reserve]
              split
              · exact h.past c' t hf
              · next hemp => exact h.after c' t hf (by intro e; simp [e] at hemp)
            · next hne' => simp only [hne', if_false]; exact h.after c' t hf hne
          · next hl => simp only [hl]; exact h.after c' t hf hne
      · simp at hs
    · simp at hs
  | rdDone c n =>
    simp only [step] at hs
    split at hs
    · split at hs
      · injection hs with hs; subst hs
        refine ⟨?_, h.past, ?_⟩
        · intro c' hf
          simp only; split
          · simp only [upd]; split
            · next heq => subst heq; simp only [mark_eq_nil]; exact h.noneEmpty c' hf
            · exact h.noneEmpty c' hf
          · exact h.noneEmpty c' hf
        · intro c' t hf hne
          simp only at hne ⊢
          split at hne
          · next hl =>
            simp only [hl, if_true]
            simp only [upd] at hne ⊢
            split at hne
            · next heq =>
              subst heq
              simp only [if_true]
              simp only [ne_eq, mark_eq_nil] at hne
              exact h.after c' t hf hne
            · next hne' => simp only [hne', if_false]; exact h.after c' t hf hne
          · next hl => simp only [hl]; exact h.after c' t hf hne
      · simp at hs
    · simp at hs

theorem t0Inv_run (cf : Cfg) (hc : CfgOk cf) (acts : List Act) (s s' : St) (hI : SysInv cf s) (h : T0Inv s)
    (hs : runActs cf s acts = some s') : T0Inv s' := by
  induction acts generalizing s with
  | nil => simp [runActs] at hs; subst hs; exact h
  | cons a as ih =>
    simp only [runActs] at hs
    cases hst : step cf s a with
    | none => simp [hst] at hs
    | some s1 => simp only [hst] at hs; exact ih s1 (inv_step cf hc s s1 a hI hst) (t0Inv_step cf s s1 a hI h hst) hs

end L4.Throttle

import L4.Basic
/-! lemmas about the checked primitives -/
namespace L4

theorem idx_ok (b : Bytes) (i : Nat) (s : String) (h : i < b.length) : idx b i s = .ok b[i] := by
  simp [idx, h]

theorem slice_ok (b : Bytes) (lo hi : Nat) (s : String) (h1 : lo ≤ hi) (h2 : hi ≤ b.length) :
    slice b lo hi s = .ok ((b.drop lo).take (hi - lo)) := by
  simp [slice, h1, h2]

theorem slice_len (b : Bytes) (lo hi : Nat) (h1 : lo ≤ hi) (h2 : hi ≤ b.length) :
    ((b.drop lo).take (hi - lo)).length = hi - lo := by
  simp [List.length_take, List.length_drop]; omega

/-- a `Res` computation that is not a panic -/
def Res.safe {α} (r : Res α) : Prop := r.isPanic = false

theorem Res.safe_ok {α} (a : α) : (Res.ok a).safe := rfl
theorem Res.safe_err {α} (c : String) : (Res.err c : Res α).safe := rfl

theorem Res.safe_bind {α β} (r : Res α) (f : α → Res β) (h1 : r.safe) (h2 : ∀ a, r = .ok a → (f a).safe) :
    (r >>= f).safe := by
  cases r with
  | ok a => exact h2 a rfl
  | err c => rfl
  | panic s => exact absurd h1 (by simp [Res.safe, Res.isPanic])

end L4

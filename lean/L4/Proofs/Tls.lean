import L4.Tls
/-!
Reference encoder of the ClientHello extension block (RFC 8446 §4.2, RFC 6066 §3, RFC 7301 §3.1) and
`parseExts (encExts es) = view es` for the model of `parseRawClientHello`'s extension loop.
-/
namespace L4.Tls
open L4.Gen

def be16b (n : Nat) : Bytes := [UInt8.ofNat (n / 256), UInt8.ofNat (n % 256)]
def encLP8 (b : Bytes) : Bytes := UInt8.ofNat b.length :: b
def encLP16 (b : Bytes) : Bytes := be16b b.length ++ b

theorem readU16_be16 (n : Nat) (h : n < 65536) (r : Bytes) : readU16 (be16b n ++ r) = some (n, r) := by
  simp [be16b, readU16]; omega
theorem readN_append (b r : Bytes) : readN b.length (b ++ r) = some (b, r) := by
  simp [readN]
theorem readLP16_enc (b r : Bytes) (h : b.length < 65536) : readLP16 (encLP16 b ++ r) = some (b, r) := by
  simp only [readLP16, encLP16, List.append_assoc, readU16_be16 _ h, readN_append]
theorem readLP8_enc (b r : Bytes) (h : b.length < 256) : readLP8 (encLP8 b ++ r) = some (b, r) := by
  simp only [readLP8, encLP8, readU8, List.cons_append]
  have : (UInt8.ofNat b.length).toNat = b.length := by simp; omega
  rw [this, readN_append]

/-- the extensions a conforming client uses for routing decisions, plus any unknown one -/
inductive Ext where
  | sni (name : Bytes)
  | alpn (protos : List Bytes)
  | versions (vs : List Nat)
  | curves (cs : List Nat)
  | other (t : Nat) (data : Bytes)
  deriving Repr, DecidableEq

def encProtos : List Bytes → Bytes
  | [] => []
  | p :: ps => encLP8 p ++ encProtos ps

def encU16s : List Nat → Bytes
  | [] => []
  | v :: vs => be16b v ++ encU16s vs

def Ext.enc : Ext → Bytes
  | .sni name => be16b l4tls_extensionServerName ++ encLP16 (encLP16 ((0 :: encLP16 name)))
  | .alpn ps => be16b l4tls_extensionALPN ++ encLP16 (encLP16 (encProtos ps))
  | .versions vs => be16b l4tls_extensionSupportedVersions ++ encLP16 (encLP8 (encU16s vs))
  | .curves cs => be16b l4tls_extensionSupportedCurves ++ encLP16 (encLP16 (encU16s cs))
  | .other t d => be16b t ++ encLP16 d

def encExts : List Ext → Bytes
  | [] => []
  | e :: es => e.enc ++ encExts es

def knownExts : List Nat := [l4tls_extensionServerName, l4tls_extensionStatusRequest, l4tls_extensionSupportedCurves,
  l4tls_extensionSupportedPoints, l4tls_extensionSessionTicket, l4tls_extensionSignatureAlgorithms,
  l4tls_extensionSignatureAlgorithmsCert, l4tls_extensionRenegotiationInfo, l4tls_extensionALPN, l4tls_extensionSCT,
  l4tls_extensionSupportedVersions, l4tls_extensionCookie, l4tls_extensionKeyShare, l4tls_extensionEarlyData,
  l4tls_extensionPSKModes, l4tls_extensionPreSharedKey]

/-- well-formedness as the RFCs state it; `sniFree` = no host name has been seen yet -/
def Ext.wf : Ext → Prop
  | .sni name => 0 < name.length ∧ name.length < 65000 ∧ name.getLast? ≠ some 46
  | .alpn ps => ps ≠ [] ∧ (∀ p ∈ ps, 0 < p.length ∧ p.length < 256) ∧ (encProtos ps).length < 65000
  | .versions vs => vs ≠ [] ∧ (∀ v ∈ vs, v < 65536) ∧ vs.length < 120
  | .curves cs => cs ≠ [] ∧ (∀ v ∈ cs, v < 65536) ∧ cs.length < 30000
  | .other t d => t < 65536 ∧ t ∉ knownExts ∧ d.length < 65536

def sniCount : List Ext → Nat
  | [] => 0
  | .sni _ :: es => 1 + sniCount es
  | _ :: es => sniCount es

/-- what a TLS server reads from the list -/
def view : List Ext → Info → Info
  | [], i => i
  | .sni n :: es, i => view es { i with exts := i.exts ++ [l4tls_extensionServerName], serverName := n }
  | .alpn ps :: es, i => view es { i with exts := i.exts ++ [l4tls_extensionALPN], protos := i.protos ++ ps }
  | .versions vs :: es, i => view es { i with exts := i.exts ++ [l4tls_extensionSupportedVersions], versions := i.versions ++ vs }
  | .curves cs :: es, i => view es { i with exts := i.exts ++ [l4tls_extensionSupportedCurves], curves := i.curves ++ cs }
  | .other t _ :: es, i => view es { i with exts := i.exts ++ [t] }

theorem encU16s_length (vs : List Nat) : (encU16s vs).length = 2 * vs.length := by
  induction vs with
  | nil => rfl
  | cons v vs ih => simp [encU16s, be16b, ih]; omega

theorem u16List_enc (vs : List Nat) (h : ∀ v ∈ vs, v < 65536) (f : Nat) (hf : (encU16s vs).length ≤ f) (acc : List Nat) :
    u16List f (encU16s vs) acc = (acc ++ vs, true) := by
  induction vs generalizing f acc with
  | nil => cases f <;> simp [encU16s, u16List]
  | cons v vs ih =>
    cases f with
    | zero => simp [encU16s, be16b] at hf
    | succ f =>
      simp only [encU16s] at hf ⊢
      rw [u16List]
      · rw [readU16_be16 v (h v (by simp))]
        simp only []
        rw [ih (fun q hq => h q (by simp [hq])) f (by simp [be16b] at hf; omega)]
        simp
      · simp [be16b]

theorem protoList_enc (ps : List Bytes) (h : ∀ p ∈ ps, 0 < p.length ∧ p.length < 256) (f : Nat)
    (hf : (encProtos ps).length ≤ f) (acc : List Bytes) : protoList f (encProtos ps) acc = (acc ++ ps, true) := by
  induction ps generalizing f acc with
  | nil => cases f <;> simp [encProtos, protoList]
  | cons p ps ih =>
    have hp := h p (by simp)
    cases f with
    | zero => simp [encProtos, encLP8] at hf
    | succ f =>
      simp only [encProtos] at hf ⊢
      rw [protoList]
      · rw [readLP8_enc p _ hp.2]
        have : p.isEmpty = false := by cases p <;> simp_all
        simp only [this]
        rw [ih (fun q hq => h q (by simp [hq])) f (by simp [encLP8] at hf; omega)]
        simp
      · simp [encLP8]

theorem extBody_sni (name : Bytes) (h : (Ext.sni name).wf) (i : Info) (hi : i.serverName = []) (last : Bool) :
    extBody l4tls_extensionServerName (encLP16 ((0 :: encLP16 name))) i last = ({ i with serverName := name }, true, []) := by
  obtain ⟨h1, h2, h3⟩ := h
  have l2 : ((0 :: encLP16 name)).length < 65536 := by simp [encLP16, be16b]; omega
  have e1 : readLP16 (encLP16 ((0 :: encLP16 name))) = some ((0 :: encLP16 name), []) := by
    have := readLP16_enc ((0 :: encLP16 name)) [] l2; simpa using this
  have e2 : readLP16 (encLP16 name) = some (name, []) := by
    have := readLP16_enc name [] (by omega); simpa using this
  have e3 : name.isEmpty = false := by cases name <;> simp_all
  have hlen : (0 :: encLP16 name).length = (encLP16 name).length + 1 := by simp
  simp only [extBody, if_pos rfl, e1]
  have hne : ((0 : UInt8) :: encLP16 name).isEmpty = false := rfl
  simp only [hne]
  rw [hlen, nameList]
  · simp only [readU8, e2, e3, hi]
    simp [h3, nameList]
  · simp

theorem extBody_alpn (ps : List Bytes) (h : (Ext.alpn ps).wf) (i : Info) (last : Bool) :
    extBody l4tls_extensionALPN (encLP16 (encProtos ps)) i last = ({ i with protos := i.protos ++ ps }, true, []) := by
  obtain ⟨h1, h2, h3⟩ := h
  have e1 : readLP16 (encLP16 (encProtos ps)) = some (encProtos ps, []) := by
    have := readLP16_enc (encProtos ps) [] (by omega); simpa using this
  have hne : (encProtos ps).isEmpty = false := by
    cases ps with
    | nil => exact absurd rfl h1
    | cons p ps => simp [encProtos, encLP8]
  have hd : ∀ a b : Nat, a = b ↔ a = b := fun _ _ => Iff.rfl
  simp only [extBody, l4tls_extensionALPN, l4tls_extensionServerName, l4tls_extensionStatusRequest,
    l4tls_extensionSupportedCurves, l4tls_extensionSupportedPoints, l4tls_extensionSessionTicket,
    l4tls_extensionSignatureAlgorithms, l4tls_extensionSignatureAlgorithmsCert, l4tls_extensionRenegotiationInfo]
  simp only [show (16 : Nat) ≠ 0 by omega, show (16 : Nat) ≠ 5 by omega, show (16 : Nat) ≠ 10 by omega,
    show (16 : Nat) ≠ 11 by omega, show (16 : Nat) ≠ 35 by omega, show (16 : Nat) ≠ 13 by omega,
    show (16 : Nat) ≠ 50 by omega, show (16 : Nat) ≠ 65281 by omega, if_false, or_self, if_true, e1, hne,
    protoList_enc ps h2 _ (Nat.le_refl _)]
  simp

theorem extBody_versions (vs : List Nat) (h : (Ext.versions vs).wf) (i : Info) (last : Bool) :
    extBody l4tls_extensionSupportedVersions (encLP8 (encU16s vs)) i last = ({ i with versions := i.versions ++ vs }, true, []) := by
  obtain ⟨h1, h2, h3⟩ := h
  have hl : (encU16s vs).length < 256 := by rw [encU16s_length]; omega
  have e1 : readLP8 (encLP8 (encU16s vs)) = some (encU16s vs, []) := by
    have := readLP8_enc (encU16s vs) [] hl; simpa using this
  have hne : (encU16s vs).isEmpty = false := by
    cases vs with
    | nil => exact absurd rfl h1
    | cons v vs => simp [encU16s, be16b]
  simp only [extBody, l4tls_extensionALPN, l4tls_extensionServerName, l4tls_extensionStatusRequest,
    l4tls_extensionSupportedCurves, l4tls_extensionSupportedPoints, l4tls_extensionSessionTicket,
    l4tls_extensionSignatureAlgorithms, l4tls_extensionSignatureAlgorithmsCert, l4tls_extensionRenegotiationInfo,
    l4tls_extensionSCT, l4tls_extensionSupportedVersions]
  simp only [show (43 : Nat) ≠ 0 by omega, show (43 : Nat) ≠ 5 by omega, show (43 : Nat) ≠ 10 by omega,
    show (43 : Nat) ≠ 11 by omega, show (43 : Nat) ≠ 35 by omega, show (43 : Nat) ≠ 13 by omega,
    show (43 : Nat) ≠ 50 by omega, show (43 : Nat) ≠ 65281 by omega, show (43 : Nat) ≠ 16 by omega,
    show (43 : Nat) ≠ 18 by omega, if_false, or_self, if_true, e1, hne, u16List_enc vs h2 _ (Nat.le_refl _)]
  simp

theorem extBody_curves (cs : List Nat) (h : (Ext.curves cs).wf) (i : Info) (last : Bool) :
    extBody l4tls_extensionSupportedCurves (encLP16 (encU16s cs)) i last = ({ i with curves := i.curves ++ cs }, true, []) := by
  obtain ⟨h1, h2, h3⟩ := h
  have hl : (encU16s cs).length < 65536 := by rw [encU16s_length]; omega
  have e1 : readLP16 (encLP16 (encU16s cs)) = some (encU16s cs, []) := by
    have := readLP16_enc (encU16s cs) [] hl; simpa using this
  have hne : (encU16s cs).isEmpty = false := by
    cases cs with
    | nil => exact absurd rfl h1
    | cons v vs => simp [encU16s, be16b]
  simp only [extBody, l4tls_extensionServerName, l4tls_extensionStatusRequest, l4tls_extensionSupportedCurves]
  simp only [show (10 : Nat) ≠ 0 by omega, show (10 : Nat) ≠ 5 by omega, if_false, if_true, e1, hne,
    u16List_enc cs h2 _ (Nat.le_refl _)]
  simp

theorem extBody_other (t : Nat) (d : Bytes) (h : (Ext.other t d).wf) (i : Info) (last : Bool) :
    extBody t d i last = (i, true, []) := by
  obtain ⟨h1, h2, h3⟩ := h
  simp only [knownExts, List.mem_cons, List.mem_nil_iff, or_false, not_or] at h2
  obtain ⟨k1, k2, k3, k4, k5, k6, k7, k8, k9, k10, k11, k12, k13, k14, k15, k16⟩ := h2
  simp only [extBody, if_neg k1, if_neg k2, if_neg k3, if_neg k4, if_neg k5, k6, k7, or_self, if_false, if_neg k8,
    if_neg k9, if_neg k10, if_neg k11, if_neg k12, if_neg k13, if_neg k14, if_neg k15, if_neg k16]

/-- at most one host name, and none seen before (RFC 6066: names of the same type must not repeat) -/
def SniOk (es : List Ext) (i : Info) : Prop := sniCount es = 0 ∨ (sniCount es = 1 ∧ i.serverName = [])

theorem enc_pos (e : Ext) (es : List Ext) : 0 < (encExts (e :: es)).length := by
  cases e <;> simp [encExts, Ext.enc, be16b]

theorem enc_tail_le (e : Ext) (es : List Ext) (f : Nat) (hf : (encExts (e :: es)).length ≤ f + 1) : (encExts es).length ≤ f := by
  cases e <;> simp [encExts, Ext.enc, be16b, encLP16] at hf ⊢ <;> omega

/-- **parse ∘ encode = view** for the extension block: every well-formed list of server_name, ALPN, supported_versions,
supported_groups and unknown extensions, in any order, is read back exactly -/
theorem parseExts_enc (es : List Ext) (h : ∀ e ∈ es, e.wf) (f : Nat) (hf : (encExts es).length ≤ f) (i : Info)
    (hs : SniOk es i) : parseExts f (encExts es) i = view es i := by
  induction es generalizing f i with
  | nil => cases f <;> simp [encExts, parseExts, view]
  | cons e es ih =>
    have he := h e (by simp)
    have hes : ∀ x ∈ es, x.wf := fun x hx => h x (by simp [hx])
    have hpos := enc_pos e es
    cases f with
    | zero => omega
    | succ f =>
      have hf' := enc_tail_le e es f hf
      have hnil : encExts (e :: es) ≠ [] := by intro hn; rw [hn] at hpos; simp at hpos
      cases e with
      | other t d =>
        have hw := he
        obtain ⟨h1, h2, h3⟩ := he
        simp only [encExts, Ext.enc, List.append_assoc]
        rw [parseExts]
        · simp only [readU16_be16 t h1, readLP16_enc d _ h3, extBody_other t d hw]
          simp only [Bool.not_true, Bool.false_eq_true, if_false, List.isEmpty_nil, Bool.not_true]
          exact ih hes f hf' _ (by simpa [SniOk, sniCount] using hs)
        · simp [be16b]
      | sni name =>
        have hw := he
        obtain ⟨h1, h2, h3⟩ := he
        have hi : i.serverName = [] := by
          rcases hs with hs | hs
          · simp [sniCount] at hs
          · exact hs.2
        have hrest : sniCount es = 0 := by
          rcases hs with hs | hs
          · simp [sniCount] at hs
          · have := hs.1; simp [sniCount] at this; omega
        simp only [encExts, Ext.enc, List.append_assoc]
        rw [parseExts]
        · have l3 : (encLP16 ((0 :: encLP16 name))).length < 65536 := by simp [encLP16, be16b]; omega
          simp only [readU16_be16 l4tls_extensionServerName (by decide), readLP16_enc _ _ l3]
          rw [extBody_sni name hw _ (by simpa using hi)]
          simp only [Bool.not_true, Bool.false_eq_true, if_false, List.isEmpty_nil]
          exact ih hes f hf' _ (Or.inl hrest)
        · simp [be16b]
      | alpn ps =>
        have hw := he
        obtain ⟨h1, h2, h3⟩ := he
        simp only [encExts, Ext.enc, List.append_assoc]
        rw [parseExts]
        · have l2 : (encLP16 (encProtos ps)).length < 65536 := by simp [encLP16, be16b]; omega
          simp only [readU16_be16 l4tls_extensionALPN (by decide), readLP16_enc _ _ l2]
          rw [extBody_alpn ps hw]
          simp only [Bool.not_true, Bool.false_eq_true, if_false, List.isEmpty_nil]
          exact ih hes f hf' _ (by simpa [SniOk, sniCount] using hs)
        · simp [be16b]
      | versions vs =>
        have hw := he
        obtain ⟨h1, h2, h3⟩ := he
        simp only [encExts, Ext.enc, List.append_assoc]
        rw [parseExts]
        · have l2 : (encLP8 (encU16s vs)).length < 65536 := by simp [encLP8, encU16s_length]; omega
          simp only [readU16_be16 l4tls_extensionSupportedVersions (by decide), readLP16_enc _ _ l2]
          rw [extBody_versions vs hw]
          simp only [Bool.not_true, Bool.false_eq_true, if_false, List.isEmpty_nil]
          exact ih hes f hf' _ (by simpa [SniOk, sniCount] using hs)
        · simp [be16b]
      | curves cs =>
        have hw := he
        obtain ⟨h1, h2, h3⟩ := he
        simp only [encExts, Ext.enc, List.append_assoc]
        rw [parseExts]
        · have l2 : (encLP16 (encU16s cs)).length < 65536 := by simp [encLP16, be16b, encU16s_length]; omega
          simp only [readU16_be16 l4tls_extensionSupportedCurves (by decide), readLP16_enc _ _ l2]
          rw [extBody_curves cs hw]
          simp only [Bool.not_true, Bool.false_eq_true, if_false, List.isEmpty_nil]
          exact ih hes f hf' _ (by simpa [SniOk, sniCount] using hs)
        · simp [be16b]

end L4.Tls

import L4.Router
/-! helper lemmas for the router theorems (C02) -/
namespace L4
variable {κ : Type}

/-- indices of the routes whose handlers ran at this routing level, in trace order -/
def runIdx : List (Ev κ) → List Nat
  | [] => []
  | .run i _ :: t => i :: runIdx t
  | _ :: t => runIdx t

theorem runIdx_append (a b : List (Ev κ)) : runIdx (a ++ b) = runIdx a ++ runIdx b := by
  induction a with
  | nil => rfl
  | cons e t ih => cases e <;> simp [runIdx, ih]

theorem runIdx_inner (i : Nat) (l : List (Ev κ)) : runIdx (l.map (.inner i)) = [] := by
  induction l with
  | nil => rfl
  | cons e t ih => simp [runIdx, ih]

/-- all run indices so far are below `lm` (encoded +1) and strictly increasing -/
def RInv (rs : RS) (tr : List (Ev κ)) : Prop :=
  (runIdx tr).Pairwise (· < ·) ∧ ∀ j ∈ runIdx tr, j + 1 ≤ rs.lm

def Good (rs : RS) : PassOut κ → Prop
  | .done rs' _ tr' => RInv rs' tr' ∧ rs.lm ≤ rs'.lm
  | .stop tr' _ => (runIdx tr').Pairwise (· < ·)

theorem good_mono {rs0 rs1 : RS} {o : PassOut κ} (h : rs0.lm ≤ rs1.lm) (g : Good rs1 o) : Good rs0 o := by
  cases o with
  | done rs' cx tr' => exact ⟨g.1, Nat.le_trans h g.2⟩
  | stop tr' r => exact g

theorem pass_inv (K : ConnOps κ) (routes : List (Route κ)) (i : Nat) (rs : RS) (cx : κ) (tr : List (Ev κ))
    (h : RInv rs tr) : Good rs (pass K routes i rs cx tr) := by
  induction routes generalizing i rs cx tr with
  | nil => exact ⟨h, Nat.le_refl _⟩
  | cons r rest ih =>
    unfold pass
    by_cases c1 : i + 1 ≤ rs.lm
    · rw [if_pos c1]; exact ih _ _ _ _ h
    · rw [if_neg c1]
      by_cases c2 : rs.status i = some .notMatched ∧ i + 1 ≤ rs.lnm
      · rw [if_pos c2]; exact ih _ _ _ _ h
      · rw [if_neg c2]
        cases hm : anyMatch r.sets cx with
        | more =>
          simp only []
          by_cases c3 : (!rs.needMore) = true
          · rw [if_pos c3]; exact ⟨h, Nat.le_refl _⟩
          · rw [if_neg c3]
            exact good_mono (Nat.le_refl _) (ih (i+1) _ cx tr h)
        | fail => simpa [Good, runIdx_append, runIdx] using h.1
        | panic => simpa [Good, runIdx_append, runIdx] using h.1
        | no => exact good_mono (Nat.le_refl _) (ih (i+1) (rs.set i .notMatched) cx tr h)
        | yes =>
          simp only []
          have hinv' : ∀ hev : List (Ev κ),
              RInv ({ rs.set i .matched with lm := i + 1, lnm := i + 1 })
                (tr ++ [.run i (K.arm false cx)] ++ hev.map (.inner i)) := by
            intro hev
            constructor
            · simp [runIdx_append, runIdx, runIdx_inner, List.pairwise_append]
              refine ⟨h.1, ?_⟩
              intro a ha; have := h.2 a ha; omega
            · intro j hj
              simp [runIdx_append, runIdx, runIdx_inner] at hj
              rcases hj with hj | hj
              · have := h.2 j hj; simp; omega
              · subst hj; simp
          split
          · rename_i hev _; exact (hinv' hev).1
          · rename_i hev _; simpa [Good, runIdx_append, runIdx, runIdx_inner] using (hinv' hev).1
          · rename_i hev cx' _
            refine good_mono ?_ (ih (i+1) _ cx' _ (hinv' hev))
            simp [RS.set]; omega

theorem round_runs_sorted (K : ConnOps κ) (routes : List (Route κ)) (fuel : Nat) (rs : RS) (cx : κ)
    (tr : List (Ev κ)) (h : RInv rs tr) : (runIdx (round K routes fuel rs cx tr).1).Pairwise (· < ·) := by
  induction fuel generalizing rs cx tr with
  | zero => simpa [round, runIdx_append, runIdx] using h.1
  | succ f ih =>
    unfold round
    simp only []
    split
    · simpa [runIdx_append, runIdx] using h.1
    · rename_i cx1 _
      have hp := pass_inv K routes 0 rs cx1 tr h
      cases hq : pass K routes 0 rs cx1 tr with
      | stop tr' r => rw [hq] at hp; exact hp
      | done rs' cx' tr' =>
        rw [hq] at hp
        simp only []
        split
        · exact hp.1.1
        · split
          · exact ih _ _ _ ⟨hp.1.1, hp.1.2⟩
          · exact hp.1.1

end L4

namespace L4
variable {κ : Type}

/-- every `run i cx0` event of the trace is justified: route `i` exists and its matcher sets answered `yes` on the connection
the handlers were then invoked on (with the matching deadline cleared) -/
def RunsOk (K : ConnOps κ) (all : List (Route κ)) (tr : List (Ev κ)) : Prop :=
  ∀ i cx0, Ev.run i cx0 ∈ tr → ∃ r cx, all[i]? = some r ∧ cx0 = K.arm false cx ∧ anyMatch r.sets cx = .yes

def PassOk (K : ConnOps κ) (all : List (Route κ)) : PassOut κ → Prop
  | .done _ _ tr' => RunsOk K all tr'
  | .stop tr' _ => RunsOk K all tr'

theorem runsOk_append_other (K : ConnOps κ) (all : List (Route κ)) (tr extra : List (Ev κ)) (h : RunsOk K all tr)
    (hx : ∀ i cx0, Ev.run i cx0 ∉ extra) : RunsOk K all (tr ++ extra) := by
  intro i cx0 hm
  rcases List.mem_append.mp hm with hm | hm
  · exact h i cx0 hm
  · exact absurd hm (hx i cx0)

theorem run_not_mem_inner (j : Nat) (hev : List (Ev κ)) (i : Nat) (cx0 : κ) : Ev.run i cx0 ∉ hev.map (.inner j) := by
  intro h; simp only [List.mem_map] at h; obtain ⟨e, _, he⟩ := h; cases he

theorem pass_runsOk (K : ConnOps κ) (all pre rest : List (Route κ)) (hall : all = pre ++ rest) (rs : RS) (cx : κ)
    (tr : List (Ev κ)) (h : RunsOk K all tr) : PassOk K all (pass K rest pre.length rs cx tr) := by
  induction rest generalizing pre rs cx tr with
  | nil => exact h
  | cons r rest ih =>
    have hnext : all = (pre ++ [r]) ++ rest := by rw [hall]; simp
    have hlen : (pre ++ [r]).length = pre.length + 1 := by simp
    have hget : all[pre.length]? = some r := by rw [hall]; simp
    unfold pass
    by_cases c1 : pre.length + 1 ≤ rs.lm
    · rw [if_pos c1]; have := ih (pre ++ [r]) hnext rs cx tr h; rwa [hlen] at this
    · rw [if_neg c1]
      by_cases c2 : rs.status pre.length = some .notMatched ∧ pre.length + 1 ≤ rs.lnm
      · rw [if_pos c2]; have := ih (pre ++ [r]) hnext rs cx tr h; rwa [hlen] at this
      · rw [if_neg c2]
        cases hm : anyMatch r.sets cx with
        | more =>
          simp only []
          by_cases c3 : (!rs.needMore) = true
          · rw [if_pos c3]; exact h
          · rw [if_neg c3]
            have := ih (pre ++ [r]) hnext { rs.set pre.length .needsMore with lnm := pre.length + 1 } cx tr h
            rwa [hlen] at this
        | fail => exact runsOk_append_other K all tr _ h (by intro i cx0 hm; simp at hm)
        | panic => exact runsOk_append_other K all tr _ h (by intro i cx0 hm; simp at hm)
        | no => have := ih (pre ++ [r]) hnext (rs.set pre.length .notMatched) cx tr h; rwa [hlen] at this
        | yes =>
          simp only []
          have hrun : ∀ hev : List (Ev κ), RunsOk K all (tr ++ [.run pre.length (K.arm false cx)] ++ hev.map (.inner pre.length)) := by
            intro hev
            apply runsOk_append_other K all _ _ _ (run_not_mem_inner _ hev)
            intro i cx0 hmem
            rcases List.mem_append.mp hmem with hmem | hmem
            · exact h i cx0 hmem
            · simp only [List.mem_singleton] at hmem
              cases hmem
              exact ⟨r, cx, hget, rfl, hm⟩
          split
          · rename_i hev _; exact hrun hev
          · rename_i hev _
            exact runsOk_append_other K all _ _ (hrun hev) (by intro i cx0 hm; simp at hm)
          · rename_i hev cx' _
            have := ih (pre ++ [r]) hnext { rs.set pre.length .matched with lm := pre.length + 1, lnm := pre.length + 1 } cx' _ (hrun hev)
            rwa [hlen] at this

theorem round_runsOk (K : ConnOps κ) (routes : List (Route κ)) (fuel : Nat) (rs : RS) (cx : κ) (tr : List (Ev κ))
    (h : RunsOk K routes tr) : RunsOk K routes (round K routes fuel rs cx tr).1 := by
  induction fuel generalizing rs cx tr with
  | zero => exact runsOk_append_other K routes tr _ h (by intro i cx0 hm; simp at hm)
  | succ f ih =>
    unfold round
    simp only []
    split
    · exact runsOk_append_other K routes tr _ h (by intro i cx0 hm; simp at hm)
    · rename_i cx1 _
      have hp := pass_runsOk K routes [] routes rfl rs cx1 tr h
      simp only [List.length_nil] at hp
      cases hq : pass K routes 0 rs cx1 tr with
      | stop tr' r => rw [hq] at hp; exact hp
      | done rs' cx' tr' =>
        rw [hq] at hp
        simp only []
        split
        · exact hp
        · split
          · exact ih _ _ _ hp
          · exact hp

end L4

namespace L4
variable {κ : Type}

def outTrace : PassOut κ → List (Ev κ)
  | .done _ _ tr => tr
  | .stop tr _ => tr

/-- the trace of a pass extends the trace it was given -/
theorem pass_extends (K : ConnOps κ) (rest : List (Route κ)) (i : Nat) (rs : RS) (cx : κ) (tr : List (Ev κ)) :
    ∃ ext, outTrace (pass K rest i rs cx tr) = tr ++ ext := by
  induction rest generalizing i rs cx tr with
  | nil => exact ⟨[], by simp [pass, outTrace]⟩
  | cons r rest ih =>
    unfold pass
    split
    · exact ih _ _ _ _
    · split
      · exact ih _ _ _ _
      · split
        · split
          · exact ⟨[], by simp [outTrace]⟩
          · exact ih _ _ _ _
        · exact ih _ _ _ _
        · simp only []
          split
          · exact ⟨_, by simp only [outTrace, List.append_assoc]; rfl⟩
          · exact ⟨_, by simp only [outTrace, List.append_assoc]; rfl⟩
          · rename_i hev cx' _
            obtain ⟨ext, he⟩ := ih (i + 1) { rs.set i .matched with lm := i + 1, lnm := i + 1 } cx'
              (tr ++ [.run i (K.arm false cx)] ++ List.map (Ev.inner i) hev)
            exact ⟨_, by rw [he]; simp only [List.append_assoc]; rfl⟩
        · exact ⟨_, by simp only [outTrace]; rfl⟩

/-- **The first matching route runs.**  Start a pass at route `i` with the connection `cx`.  If the routes `i … i+n−1` are each
passed over for a reason the router accepts — already behind the last matched route, or their matcher sets answer `no` on `cx`,
or answer "need more" in a round in which a prefetch has been requested — and route `i+n` is not behind the last matched route,
is not cached as "not matched", and its matcher sets answer `yes` on `cx`, then the handlers of route `i+n` are invoked on `cx`
(deadline cleared) in this pass: a route that matches is never passed over for a later one, and it is the first such route. -/
theorem pass_runs_first_match (K : ConnOps κ) (skipped : List (Route κ)) (r : Route κ) (rest : List (Route κ))
    (i : Nat) (rs : RS) (cx : κ) (tr : List (Ev κ))
    (hskip : ∀ k (hk : k < skipped.length),
      i + k + 1 ≤ rs.lm ∨ anyMatch skipped[k].sets cx = .no ∨ (anyMatch skipped[k].sets cx = .more ∧ rs.needMore = true))
    (hlm : ¬ i + skipped.length + 1 ≤ rs.lm)
    (hcache : ¬ (rs.status (i + skipped.length) = some .notMatched ∧ i + skipped.length + 1 ≤ rs.lnm))
    (hyes : anyMatch r.sets cx = .yes) :
    Ev.run (i + skipped.length) (K.arm false cx) ∈ outTrace (pass K (skipped ++ r :: rest) i rs cx tr) := by
  induction skipped generalizing i rs with
  | nil =>
    simp only [List.length_nil, Nat.add_zero, List.nil_append] at *
    unfold pass
    rw [if_neg hlm, if_neg hcache, hyes]
    simp only []
    split
    · simp [outTrace]
    · simp [outTrace]
    · rename_i hev cx' _
      obtain ⟨ext, he⟩ := pass_extends K rest (i + 1) { rs.set i .matched with lm := i + 1, lnm := i + 1 } cx'
        (tr ++ [.run i (K.arm false cx)] ++ List.map (Ev.inner i) hev)
      rw [he]; simp
  | cons s ss ih =>
    have h0 := hskip 0 (by simp)
    simp only [List.getElem_cons_zero, Nat.add_zero] at h0
    have hnext : ∀ (rs' : RS), rs'.lm = rs.lm → rs'.needMore = rs.needMore →
        (∀ j, j > i → rs'.status j = rs.status j) → (rs'.lnm = rs.lnm ∨ rs'.lnm ≤ i + 1) →
        Ev.run (i + (s :: ss).length) (K.arm false cx) ∈ outTrace (pass K (ss ++ r :: rest) (i + 1) rs' cx tr) := by
      intro rs' h1 h2 h3 h4
      have := ih (i + 1) rs'
        (by intro k hk
            have := hskip (k + 1) (by simp; omega)
            simp only [List.getElem_cons_succ] at this
            rw [h1, h2]; rw [show i + 1 + k + 1 = i + (k + 1) + 1 by omega]; exact this)
        (by rw [h1]; simp only [List.length_cons] at hlm; omega)
        (by intro hc
            apply hcache
            simp only [List.length_cons] at *
            have hs := h3 (i + 1 + ss.length) (by omega)
            rw [show i + (ss.length + 1) = i + 1 + ss.length by omega]
            refine ⟨by rw [← hs]; exact hc.1, ?_⟩
            rcases h4 with h4 | h4
            · rw [← h4]; omega
            · omega)
      simp only [List.length_cons]
      rw [show i + (ss.length + 1) = i + 1 + ss.length by omega]
      exact this
    simp only [List.cons_append]
    unfold pass
    by_cases c1 : i + 1 ≤ rs.lm
    · rw [if_pos c1]; exact hnext rs rfl rfl (fun _ _ => rfl) (Or.inl rfl)
    · rw [if_neg c1]
      by_cases c2 : rs.status i = some .notMatched ∧ i + 1 ≤ rs.lnm
      · rw [if_pos c2]; exact hnext rs rfl rfl (fun _ _ => rfl) (Or.inl rfl)
      · rw [if_neg c2]
        rcases h0 with h0 | h0 | h0
        · exact absurd h0 c1
        · rw [h0]
          exact hnext (rs.set i .notMatched) rfl rfl (by intro j hj; simp [RS.set]; omega) (Or.inl rfl)
        · rw [h0.1]
          simp only [h0.2, Bool.not_true, Bool.false_eq_true, ↓reduceIte]
          exact hnext { rs.set i .needsMore with lnm := i + 1 } rfl rfl (by intro j hj; simp [RS.set]; omega) (Or.inr (Nat.le_refl _))

end L4

namespace L4
variable {κ : Type}

theorem round_extends (K : ConnOps κ) (routes : List (Route κ)) (fuel : Nat) (rs : RS) (cx : κ) (tr : List (Ev κ)) :
    ∃ ext, (round K routes fuel rs cx tr).1 = tr ++ ext := by
  induction fuel generalizing rs cx tr with
  | zero => exact ⟨_, rfl⟩
  | succ f ih =>
    unfold round
    simp only []
    split
    · exact ⟨_, rfl⟩
    · rename_i cx1 _
      obtain ⟨e1, h1⟩ := pass_extends K routes 0 rs cx1 tr
      cases hq : pass K routes 0 rs cx1 tr with
      | stop tr' r => rw [hq] at h1; exact ⟨e1, h1⟩
      | done rs' cx' tr' =>
        rw [hq] at h1
        simp only [outTrace] at h1
        simp only []
        split
        · exact ⟨e1, h1⟩
        · split
          · obtain ⟨e2, h2⟩ := ih { rs' with needMore := true } cx' tr'
            exact ⟨e1 ++ e2, by rw [h2, h1, List.append_assoc]⟩
          · exact ⟨e1, h1⟩

end L4

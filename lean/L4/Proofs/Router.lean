import L4.Router
/-! helper lemmas for the router theorems (C02) -/
namespace L4
variable {κ : Type}

/-- indices of the routes whose handlers ran at this routing level, in trace order -/
def runIdx : List (Ev κ) → List Nat
  | [] => []
  | .run i _ :: t => i :: runIdx t
  | _ :: t => runIdx t

theorem runIdx_append (a b : List (Ev κ)) : runIdx (a ++ b) = runIdx a ++ runIdx b := by
  induction a with
  | nil => rfl
  | cons e t ih => cases e <;> simp [runIdx, ih]

theorem runIdx_inner (i : Nat) (l : List (Ev κ)) : runIdx (l.map (.inner i)) = [] := by
  induction l with
  | nil => rfl
  | cons e t ih => simp [runIdx, ih]

/-- all run indices so far are below `lm` (encoded +1) and strictly increasing -/
def RInv (rs : RS) (tr : List (Ev κ)) : Prop :=
  (runIdx tr).Pairwise (· < ·) ∧ ∀ j ∈ runIdx tr, j + 1 ≤ rs.lm

def Good (rs : RS) : PassOut κ → Prop
  | .done rs' _ tr' => RInv rs' tr' ∧ rs.lm ≤ rs'.lm
  | .stop tr' _ => (runIdx tr').Pairwise (· < ·)

theorem good_mono {rs0 rs1 : RS} {o : PassOut κ} (h : rs0.lm ≤ rs1.lm) (g : Good rs1 o) : Good rs0 o := by
  cases o with
  | done rs' cx tr' => exact ⟨g.1, Nat.le_trans h g.2⟩
  | stop tr' r => exact g

theorem pass_inv (K : ConnOps κ) (routes : List (Route κ)) (i : Nat) (rs : RS) (cx : κ) (tr : List (Ev κ))
    (h : RInv rs tr) : Good rs (pass K routes i rs cx tr) := by
  induction routes generalizing i rs cx tr with
  | nil => exact ⟨h, Nat.le_refl _⟩
  | cons r rest ih =>
    unfold pass
    by_cases c1 : i + 1 ≤ rs.lm
    · rw [if_pos c1]; exact ih _ _ _ _ h
    · rw [if_neg c1]
      by_cases c2 : rs.status i = some .notMatched ∧ i + 1 ≤ rs.lnm
      · rw [if_pos c2]; exact ih _ _ _ _ h
      · rw [if_neg c2]
        cases hm : anyMatch r.sets cx with
        | more =>
          simp only []
          by_cases c3 : (!rs.needMore) = true
          · rw [if_pos c3]; exact ⟨h, Nat.le_refl _⟩
          · rw [if_neg c3]
            exact good_mono (Nat.le_refl _) (ih (i+1) _ cx tr h)
        | fail => simpa [Good, runIdx_append, runIdx] using h.1
        | panic => simpa [Good, runIdx_append, runIdx] using h.1
        | no => exact good_mono (Nat.le_refl _) (ih (i+1) (rs.set i .notMatched) cx tr h)
        | yes =>
          simp only []
          have hinv' : ∀ hev : List (Ev κ),
              RInv ({ rs.set i .matched with lm := i + 1, lnm := i + 1 })
                (tr ++ [.run i (K.arm false cx)] ++ hev.map (.inner i)) := by
            intro hev
            constructor
            · simp [runIdx_append, runIdx, runIdx_inner, List.pairwise_append]
              refine ⟨h.1, ?_⟩
              intro a ha; have := h.2 a ha; omega
            · intro j hj
              simp [runIdx_append, runIdx, runIdx_inner] at hj
              rcases hj with hj | hj
              · have := h.2 j hj; simp; omega
              · subst hj; simp
          split
          · rename_i hev _; exact (hinv' hev).1
          · rename_i hev _; simpa [Good, runIdx_append, runIdx, runIdx_inner] using (hinv' hev).1
          · rename_i hev cx' _
            refine good_mono ?_ (ih (i+1) _ cx' _ (hinv' hev))
            simp [RS.set]; omega

theorem round_runs_sorted (K : ConnOps κ) (routes : List (Route κ)) (fuel : Nat) (rs : RS) (cx : κ)
    (tr : List (Ev κ)) (h : RInv rs tr) : (runIdx (round K routes fuel rs cx tr).1).Pairwise (· < ·) := by
  induction fuel generalizing rs cx tr with
  | zero => simpa [round, runIdx_append, runIdx] using h.1
  | succ f ih =>
    unfold round
    simp only []
    split
    · simpa [runIdx_append, runIdx] using h.1
    · rename_i cx1 _
      have hp := pass_inv K routes 0 rs cx1 tr h
      cases hq : pass K routes 0 rs cx1 tr with
      | stop tr' r => rw [hq] at hp; exact hp
      | done rs' cx' tr' =>
        rw [hq] at hp
        simp only []
        split
        · exact hp.1.1
        · split
          · exact ih _ _ _ ⟨hp.1.1, hp.1.2⟩
          · exact hp.1.1

end L4

namespace L4
variable {κ : Type}

/-- every `run i cx0` event of the trace is justified: route `i` exists and its matcher sets answered `yes` on the connection
the handlers were then invoked on (with the matching deadline cleared) -/
def RunsOk (K : ConnOps κ) (all : List (Route κ)) (tr : List (Ev κ)) : Prop :=
  ∀ i cx0, Ev.run i cx0 ∈ tr → ∃ r cx, all[i]? = some r ∧ cx0 = K.arm false cx ∧ anyMatch r.sets cx = .yes

def PassOk (K : ConnOps κ) (all : List (Route κ)) : PassOut κ → Prop
  | .done _ _ tr' => RunsOk K all tr'
  | .stop tr' _ => RunsOk K all tr'

theorem runsOk_append_other (K : ConnOps κ) (all : List (Route κ)) (tr extra : List (Ev κ)) (h : RunsOk K all tr)
    (hx : ∀ i cx0, Ev.run i cx0 ∉ extra) : RunsOk K all (tr ++ extra) := by
  intro i cx0 hm
  rcases List.mem_append.mp hm with hm | hm
  · exact h i cx0 hm
  · exact absurd hm (hx i cx0)

theorem run_not_mem_inner (j : Nat) (hev : List (Ev κ)) (i : Nat) (cx0 : κ) : Ev.run i cx0 ∉ hev.map (.inner j) := by
  intro h; simp only [List.mem_map] at h; obtain ⟨e, _, he⟩ := h; cases he

theorem pass_runsOk (K : ConnOps κ) (all pre rest : List (Route κ)) (hall : all = pre ++ rest) (rs : RS) (cx : κ)
    (tr : List (Ev κ)) (h : RunsOk K all tr) : PassOk K all (pass K rest pre.length rs cx tr) := by
  induction rest generalizing pre rs cx tr with
  | nil => exact h
  | cons r rest ih =>
    have hnext : all = (pre ++ [r]) ++ rest := by rw [hall]; simp
    have hlen : (pre ++ [r]).length = pre.length + 1 := by simp
    have hget : all[pre.length]? = some r := by rw [hall]; simp
    unfold pass
    by_cases c1 : pre.length + 1 ≤ rs.lm
    · rw [if_pos c1]; have := ih (pre ++ [r]) hnext rs cx tr h; rwa [hlen] at this
    · rw [if_neg c1]
      by_cases c2 : rs.status pre.length = some .notMatched ∧ pre.length + 1 ≤ rs.lnm
      · rw [if_pos c2]; have := ih (pre ++ [r]) hnext rs cx tr h; rwa [hlen] at this
      · rw [if_neg c2]
        cases hm : anyMatch r.sets cx with
        | more =>
          simp only []
          by_cases c3 : (!rs.needMore) = true
          · rw [if_pos c3]; exact h
          · rw [if_neg c3]
            have := ih (pre ++ [r]) hnext { rs.set pre.length .needsMore with lnm := pre.length + 1 } cx tr h
            rwa [hlen] at this
        | fail => exact runsOk_append_other K all tr _ h (by intro i cx0 hm; simp at hm)
        | panic => exact runsOk_append_other K all tr _ h (by intro i cx0 hm; simp at hm)
        | no => have := ih (pre ++ [r]) hnext (rs.set pre.length .notMatched) cx tr h; rwa [hlen] at this
        | yes =>
          simp only []
          have hrun : ∀ hev : List (Ev κ), RunsOk K all (tr ++ [.run pre.length (K.arm false cx)] ++ hev.map (.inner pre.length)) := by
            intro hev
            apply runsOk_append_other K all _ _ _ (run_not_mem_inner _ hev)
            intro i cx0 hmem
            rcases List.mem_append.mp hmem with hmem | hmem
            · exact h i cx0 hmem
            · simp only [List.mem_singleton] at hmem
              cases hmem
              exact ⟨r, cx, hget, rfl, hm⟩
          split
          · rename_i hev _; exact hrun hev
          · rename_i hev _
            exact runsOk_append_other K all _ _ (hrun hev) (by intro i cx0 hm; simp at hm)
          · rename_i hev cx' _
            have := ih (pre ++ [r]) hnext { rs.set pre.length .matched with lm := pre.length + 1, lnm := pre.length + 1 } cx' _ (hrun hev)
            rwa [hlen] at this

theorem round_runsOk (K : ConnOps κ) (routes : List (Route κ)) (fuel : Nat) (rs : RS) (cx : κ) (tr : List (Ev κ))
    (h : RunsOk K routes tr) : RunsOk K routes (round K routes fuel rs cx tr).1 := by
  induction fuel generalizing rs cx tr with
  | zero => exact runsOk_append_other K routes tr _ h (by intro i cx0 hm; simp at hm)
  | succ f ih =>
    unfold round
    simp only []
    split
    · exact runsOk_append_other K routes tr _ h (by intro i cx0 hm; simp at hm)
    · rename_i cx1 _
      have hp := pass_runsOk K routes [] routes rfl rs cx1 tr h
      simp only [List.length_nil] at hp
      cases hq : pass K routes 0 rs cx1 tr with
      | stop tr' r => rw [hq] at hp; exact hp
      | done rs' cx' tr' =>
        rw [hq] at hp
        simp only []
        split
        · exact hp
        · split
          · exact ih _ _ _ hp
          · exact hp

end L4

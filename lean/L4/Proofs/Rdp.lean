import L4.Matchers.Rdp
import L4.Proofs.Res
/-! every checked index / slice expression of the RDP matcher is in range, for every configuration and every input -/
namespace L4.Rdp
open L4 L4.Gen

theorem findCRLF_ok (p : Bytes) (f i : Nat) : ∃ r, findCRLF p f i = .ok r ∧ r ≤ p.length := by
  induction f generalizing i with
  | zero => exact ⟨0, rfl, Nat.zero_le _⟩
  | succ f ih =>
    unfold findCRLF
    split
    · exact ⟨0, rfl, Nat.zero_le _⟩
    · rename_i hi
      rw [idx_ok p i _ (by omega)]
      simp only [Res.bind_ok]
      split
      · rename_i hc
        rw [idx_ok p (i + 1) _ hc.2]
        simp only [Res.bind_ok]
        split
        · exact ⟨i + 2, rfl, by omega⟩
        · exact ih (i + 1)
      · exact ih (i + 1)

theorem isPrefixOf_length (a b : Bytes) (h : a.isPrefixOf b = true) : a.length ≤ b.length := by
  induction a generalizing b with
  | nil => simp
  | cons x xs ih =>
    cases b with
    | nil => simp [List.isPrefixOf] at h
    | cons y ys =>
      simp only [List.isPrefixOf, Bool.and_eq_true] at h
      have := ih ys h.2
      simp; omega

theorem cookiePrefix_len : (strBytes l4rdp_RDPCookiePrefix).length = 17 := by decide +kernel

theorem cookieOk_ok (cfg : Cfg) (p : Bytes) (start : Nat) (hs : start ≤ p.length) : ∃ r, cookieOk cfg p start = .ok r := by
  unfold cookieOk
  split
  · exact ⟨_, rfl⟩
  · rename_i hmin
    rw [slice_ok p _ _ _ (by omega) (by simp only [l4rdp_RDPCookieBytesStart]; omega)]
    simp only [Res.bind_ok]
    split
    · exact ⟨_, rfl⟩
    · rename_i hpre
      have hlen := slice_len p l4rdp_RDPCookieBytesStart (l4rdp_RDPCookieBytesStart + start) (by omega)
        (by simp only [l4rdp_RDPCookieBytesStart]; omega)
      rw [slice_ok _ _ _ _ (by omega) (by
        rw [hlen, cookiePrefix_len]
        simp only [l4rdp_RDPCookieBytesMin] at hmin
        omega)]
      simp only [Res.bind_ok]
      split
      · exact ⟨_, rfl⟩
      · split <;> exact ⟨_, rfl⟩

theorem customOk_ok (cfg : Cfg) (p : Bytes) (start : Nat) (hs : start ≤ p.length) : ∃ r, customOk cfg p start = .ok r := by
  unfold customOk
  split
  · exact ⟨_, rfl⟩
  · rename_i hmin
    rw [slice_ok p _ _ _ (by omega) (by simp only [l4rdp_RDPCustomBytesStart]; omega)]
    simp only [Res.bind_ok]
    split
    · exact ⟨_, rfl⟩
    · have hlen := slice_len p l4rdp_RDPCustomBytesStart (l4rdp_RDPCustomBytesStart + start) (by omega)
        (by simp only [l4rdp_RDPCustomBytesStart]; omega)
      rw [slice_ok _ _ _ _ (by omega) (by
        rw [hlen]
        simp only [l4rdp_RDPCustomInfoBytesStart]
        omega)]
      simp only [Res.bind_ok]
      split
      · exact ⟨_, rfl⟩
      · split <;> exact ⟨_, rfl⟩

end L4.Rdp

namespace L4.Rdp
open L4 L4.Gen

theorem tokenOk_ok (cfg : Cfg) (p : Bytes) (start : Nat) (hs : start ≤ p.length) : ∃ r, tokenOk cfg p start = .ok r := by
  unfold tokenOk
  split
  · exact ⟨_, rfl⟩
  · rename_i hmin
    rw [slice_ok p _ _ _ (by omega) (by simp only [l4rdp_RDPTokenBytesStart]; omega)]
    have hlen := slice_len p l4rdp_RDPTokenBytesStart (l4rdp_RDPTokenBytesStart + start) (by omega)
      (by simp only [l4rdp_RDPTokenBytesStart]; omega)
    simp only [Res.bind_ok]
    generalize (List.drop l4rdp_RDPTokenBytesStart p).take (l4rdp_RDPTokenBytesStart + start - l4rdp_RDPTokenBytesStart) = t at hlen ⊢
    split
    · exact ⟨_, rfl⟩
    · rename_i hc
      have hL : be16 (t.getD 2 0) (t.getD 3 0) = start := by
        apply Classical.byContradiction
        intro hne
        exact hc (Or.inr (Or.inr (Or.inl hne)))
      split
      · exact ⟨_, rfl⟩
      · split
        · exact ⟨_, rfl⟩
        · split
          · exact ⟨_, rfl⟩
          · rw [slice_ok _ _ _ _ (by simp only [l4rdp_RDPTokenOptionalCookieBytesStart]; omega) (by
              rw [List.length_drop, hlen, hL]
              simp only [l4rdp_RDPTokenBytesMin]
              omega)]
            simp only [Res.bind_ok]
            split
            · exact ⟨_, rfl⟩
            · split
              · split
                · exact ⟨_, rfl⟩
                · split
                  · split
                    · exact ⟨_, rfl⟩
                    · split <;> exact ⟨_, rfl⟩
                  · exact ⟨_, rfl⟩
              · exact ⟨_, rfl⟩

end L4.Rdp

namespace L4.Rdp
open L4 L4.Gen

theorem header_ok (h : Bytes) (hl : h.length = l4rdp_RDPConnReqBytesMin) : ∃ r, header h = .ok r := by
  simp only [l4rdp_RDPConnReqBytesMin] at hl
  unfold header
  rw [slice_ok h _ _ _ (by omega) (by simp only [l4rdp_TPKTHeaderBytesStart, l4rdp_TPKTHeaderBytesTotal]; omega)]
  simp only [Res.bind_ok]
  split
  · exact ⟨_, rfl⟩
  · rw [slice_ok h _ _ _ (by omega) (by simp only [l4rdp_X224CrqBytesStart, l4rdp_X224CrqBytesTotal]; omega)]
    simp only [Res.bind_ok]
    split
    · exact ⟨_, rfl⟩
    · split <;> exact ⟨_, rfl⟩

theorem corrPart_ok (payload : Bytes) (cs total : Nat) (ht : total = payload.length) :
    ∃ v, corrPart payload cs total = .ok v ∧ (v = .yes ∨ v = .no) := by
  unfold corrPart
  split
  · exact ⟨_, rfl, Or.inr rfl⟩
  · rw [slice_ok payload _ _ _ (by omega) (by omega)]
    simp only [Res.bind_ok]
    split
    · exact ⟨_, rfl, Or.inr rfl⟩
    · split
      · exact ⟨_, rfl, Or.inr rfl⟩
      · split
        · exact ⟨_, rfl, Or.inr rfl⟩
        · exact ⟨_, rfl, Or.inl rfl⟩

theorem negPart_ok (payload : Bytes) (start total : Nat) (ht : total = payload.length) :
    ∃ v, negPart payload start total = .ok v ∧ (v = .yes ∨ v = .no) := by
  unfold negPart
  split
  · exact ⟨_, rfl, Or.inl rfl⟩
  · split
    · exact ⟨_, rfl, Or.inr rfl⟩
    · rw [slice_ok payload _ _ _ (by omega) (by omega)]
      simp only [Res.bind_ok]
      split
      · exact ⟨_, rfl, Or.inr rfl⟩
      · split
        · refine ⟨_, rfl, ?_⟩
          split
          · exact Or.inr rfl
          · exact Or.inl rfl
        · exact corrPart_ok payload _ total ht

/-- the body either answers yes or no: no index or slice expression is out of range -/
theorem body_ok (cfg : Cfg) (payload : Bytes) (extra : Bool) :
    ∃ v, body cfg payload extra = .ok v ∧ (v = .yes ∨ v = .no) := by
  unfold body
  cases extra with
  | true => exact ⟨_, rfl, Or.inr rfl⟩
  | false =>
    obtain ⟨start, hst, hle⟩ := findCRLF_ok payload (payload.length + 1) 0
    rw [if_neg (by decide), hst]
    simp only [Res.bind_ok]
    obtain ⟨hasCookie, hck⟩ := cookieOk_ok cfg payload start hle
    rw [hck]
    simp only [Res.bind_ok]
    split
    · exact ⟨_, rfl, Or.inr rfl⟩
    · have htk : ∃ r, tokenStep cfg payload start hasCookie = Res.ok r := by
        unfold tokenStep
        split
        · exact tokenOk_ok cfg payload start hle
        · exact ⟨_, rfl⟩
      obtain ⟨hasToken, htk⟩ := htk
      rw [htk]
      simp only [Res.bind_ok]
      split
      · exact ⟨_, rfl, Or.inr rfl⟩
      · have hcu : ∃ r, customStep cfg payload start hasCookie hasToken = Res.ok r := by
          unfold customStep
          split
          · exact customOk_ok cfg payload start hle
          · exact ⟨_, rfl⟩
        obtain ⟨hasCustom, hcu⟩ := hcu
        rw [hcu]
        simp only [Res.bind_ok]
        split
        · exact ⟨_, rfl, Or.inr rfl⟩
        · split
          · exact ⟨_, rfl, Or.inr rfl⟩
          · exact negPart_ok payload start _ rfl

/-- **The RDP matcher never panics**, whatever it is configured with and whatever the client sends -/
theorem matcher_ne_panic (cfg : Cfg) (bs : Bytes) : matcher cfg bs ≠ .panic := by
  unfold matcher
  split
  · simp
  · rename_i hlen
    obtain ⟨r, hr⟩ := header_ok (bs.take l4rdp_RDPConnReqBytesMin) (by rw [List.length_take]; omega)
    rw [hr]
    cases r with
    | none => simp
    | some n =>
      simp only []
      split
      · simp
      · obtain ⟨v, hv, hyn⟩ := body_ok cfg ((bs.drop l4rdp_RDPConnReqBytesMin).take n) (probe1 ((bs.drop l4rdp_RDPConnReqBytesMin).drop n))
        rw [hv]
        rcases hyn with h | h <;> simp [h]

end L4.Rdp

namespace L4.Rdp
open L4 L4.Gen

/-- the payload buffer the matcher allocates after the header is at most 249 bytes -/
theorem header_payload_le (h : Bytes) (n : Nat) (hh : header h = .ok (some n)) : n ≤ 249 := by
  unfold header at hh
  unfold slice at hh
  split at hh
  · simp only [Res.bind_ok] at hh
    split at hh
    · cases hh
    · split at hh
      · simp only [Res.bind_ok] at hh
        split at hh
        · cases hh
        · split at hh
          · cases hh
          · injection hh with hh
            injection hh with hh
            subst hh
            generalize hx : (List.drop l4rdp_X224CrqBytesStart h).take (l4rdp_X224CrqBytesStart + l4rdp_X224CrqBytesTotal - l4rdp_X224CrqBytesStart) = x
            have : (x.getD 0 0).toNat < 256 := (x.getD 0 0).toNat_lt
            simp only [l4rdp_X224CrqBytesTotal]
            omega
      · cases hh
  · cases hh

end L4.Rdp

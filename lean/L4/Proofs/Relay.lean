import L4.Relay
/-! helper lemmas for C03: the relay invariant holds initially and is preserved by every action -/
namespace L4.Relay

theorem inv_init (k sigCap : Nat) (downCW : Bool) (upCW : Nat → Bool) (pre : Bytes) (cs : List Bytes) (cfin : Bool)
    (us up : Nat → List Bytes) (ufin : Nat → Bool) : RInv (init k sigCap downCW upCW pre cs cfin us up ufin) := by
  constructor <;> simp [init]

theorem pre_of_append {a b c : Bytes} (h : a ++ b = c) : a = c.take a.length := by
  subst h; simp

theorem inv_step (s s' : St) (a : Act) (h : RInv s) (hs : step s a = some s') : RInv s' := by
  obtain ⟨h1, h2, h3, h4, h5, h6, h7, h8, h9, h10, h11, h12, h13, h14, h15⟩ := h
  cases a <;> simp only [step] at hs
  case pumpRead =>
    split at hs
    · split at hs
      · injection hs with hs; subst hs
        rename_i c cs hc hpd
        constructor <;> simp only [] <;> first | assumption | (try grind)
        · intro hne
          by_cases ha : anyBelow s.k s.uerr = true
          · right; right; exact (anyBelow_iff _ _).mp ha
          · simp [ha] at hne
      · cases hs
    · cases hs
  case pumpEOF =>
    split at hs
    · injection hs with hs; subst hs; constructor <;> simp only [] <;> first | assumption | grind
    · cases hs
  case pumpErr =>
    split at hs
    · injection hs with hs; subst hs; constructor <;> simp only [] <;> first | assumption | grind
    · cases hs
  case pumpSignal =>
    split at hs
    · injection hs with hs; subst hs; constructor <;> simp only [] <;> first | assumption | grind
    · cases hs
  case rendezvous =>
    split at hs
    · injection hs with hs; subst hs; constructor <;> simp only [closeAll] <;> first | assumption | grind
    · cases hs
  case pumpClose =>
    split at hs
    · injection hs with hs; subst hs; constructor <;> simp only [] <;> first | assumption | grind
    · cases hs
  case copyRead i =>
    split at hs
    · split at hs
      · injection hs with hs; subst hs
        rename_i c cs hc hpd
        constructor <;> simp only [] <;> first | assumption | (try grind)
        · intro j
          by_cases hj : j = i
          · subst hj; have := h3 j; simp [upd, hc] at *; grind
          · simpa [upd, hj] using h3 j
        · intro j hj
          by_cases hji : j = i
          · subst hji; grind
          · have := h7 j hj; simp [upd, hji]; exact this
      · cases hs
    · cases hs
  case copyEOF i =>
    split at hs
    · injection hs with hs; subst hs; constructor <;> simp only [upd] <;> first | assumption | grind
    · cases hs
  case copyErr i =>
    split at hs
    · injection hs with hs; subst hs; constructor <;> simp only [upd] <;> first | assumption | grind
    · cases hs
  case mainWait =>
    split at hs
    · injection hs with hs; subst hs
      rename_i hc
      have hall := (allBelow_iff _ _).mp hc.2
      constructor <;> simp only [] <;> first | assumption | grind
    · cases hs
  case mainCW =>
    split at hs
    · injection hs with hs; subst hs; constructor <;> simp only [] <;> first | assumption | grind
    · cases hs
  case mainRecv =>
    split at hs
    · injection hs with hs; subst hs; constructor <;> simp only [closeAll] <;> first | assumption | grind
    · cases hs
  case upRespond i =>
    split at hs
    · injection hs with hs; subst hs
      constructor <;> simp only [] <;> first | assumption | (try grind)
      · intro j
        by_cases hj : j = i
        · subst hj; have := h3 j; simp [upd] at *; grind
        · simpa [upd, hj] using h3 j
      · intro j hj
        by_cases hji : j = i
        · subst hji; grind
        · have := h7 j hj; simp [upd, hji]; exact this
    · cases hs
  case clientReset =>
    split at hs
    · injection hs with hs; subst hs; constructor <;> simp only [] <;> first | assumption | grind
    · cases hs
  case upReset i =>
    split at hs
    · injection hs with hs; subst hs; constructor <;> simp only [upd] <;> first | assumption | grind
    · cases hs

theorem inv_run (acts : List Act) (s s' : St) (h : RInv s) (hr : runActs s acts = some s') : RInv s' := by
  induction acts generalizing s with
  | nil => simp [runActs] at hr; subst hr; exact h
  | cons a as ih =>
    simp only [runActs] at hr
    split at hr
    · rename_i s1 hs1; exact ih s1 (inv_step s s1 a h hs1) hr
    · cases hr

end L4.Relay

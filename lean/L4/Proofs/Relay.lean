import L4.Relay
/-! helper lemmas for C03: the relay invariant holds initially and is preserved by every action -/
namespace L4.Relay

theorem inv_init (k sigCap : Nat) (downCW : Bool) (upCW : Nat → Bool) (pre : Bytes) (cs : List Bytes) (cfin : Bool)
    (us up : Nat → List Bytes) (ufin : Nat → Bool) : RInv (init k sigCap downCW upCW pre cs cfin us up ufin) := by
  constructor <;> simp [init]

theorem pre_of_append {a b c : Bytes} (h : a ++ b = c) : a = c.take a.length := by
  subst h; simp

theorem inv_step (s s' : St) (a : Act) (h : RInv s) (hs : step s a = some s') : RInv s' := by
  obtain ⟨h1, h2, h3, h4, h5, h6, h7, h8, h9, h10, h11, h12, h13, h14, h15⟩ := h
  cases a <;> simp only [step] at hs
  case pumpRead =>
    split at hs
    · split at hs
      · injection hs with hs; subst hs
        rename_i c cs hc hpd
        constructor <;> simp only [] <;> first | assumption | (try grind)
        · intro hne
          by_cases ha : anyBelow s.k s.uerr = true
          · right; right; exact (anyBelow_iff _ _).mp ha
          · simp [ha] at hne
      · cases hs
    · cases hs
  case pumpEOF =>
    split at hs
    · injection hs with hs; subst hs; constructor <;> simp only [] <;> first | assumption | grind
    · cases hs
  case pumpErr =>
    split at hs
    · injection hs with hs; subst hs; constructor <;> simp only [] <;> first | assumption | grind
    · cases hs
  case pumpSignal =>
    split at hs
    · injection hs with hs; subst hs; constructor <;> simp only [] <;> first | assumption | grind
    · cases hs
  case rendezvous =>
    split at hs
    · injection hs with hs; subst hs; constructor <;> simp only [closeAll] <;> first | assumption | grind
    · cases hs
  case pumpClose =>
    split at hs
    · injection hs with hs; subst hs; constructor <;> simp only [] <;> first | assumption | grind
    · cases hs
  case copyRead i =>
    split at hs
    · split at hs
      · injection hs with hs; subst hs
        rename_i c cs hc hpd
        constructor <;> simp only [] <;> first | assumption | (try grind)
        · intro j
          by_cases hj : j = i
          · subst hj; have := h3 j; simp [upd, hc] at *; grind
          · simpa [upd, hj] using h3 j
        · intro j hj
          by_cases hji : j = i
          · subst hji; grind
          · have := h7 j hj; simp [upd, hji]; exact this
      · cases hs
    · cases hs
  case copyEOF i =>
    split at hs
    · injection hs with hs; subst hs; constructor <;> simp only [upd] <;> first | assumption | grind
    · cases hs
  case copyErr i =>
    split at hs
    · injection hs with hs; subst hs; constructor <;> simp only [upd] <;> first | assumption | grind
    · cases hs
  case mainWait =>
    split at hs
    · injection hs with hs; subst hs
      rename_i hc
      have hall := (allBelow_iff _ _).mp hc.2
      constructor <;> simp only [] <;> first | assumption | grind
    · cases hs
  case mainCW =>
    split at hs
    · injection hs with hs; subst hs; constructor <;> simp only [] <;> first | assumption | grind
    · cases hs
  case mainRecv =>
    split at hs
    · injection hs with hs; subst hs; constructor <;> simp only [closeAll] <;> first | assumption | grind
    · cases hs
  case upRespond i =>
    split at hs
    · injection hs with hs; subst hs
      constructor <;> simp only [] <;> first | assumption | (try grind)
      · intro j
        by_cases hj : j = i
        · subst hj; have := h3 j; simp [upd] at *; grind
        · simpa [upd, hj] using h3 j
      · intro j hj
        by_cases hji : j = i
        · subst hji; grind
        · have := h7 j hj; simp [upd, hji]; exact this
    · cases hs
  case clientReset =>
    split at hs
    · injection hs with hs; subst hs; constructor <;> simp only [] <;> first | assumption | grind
    · cases hs
  case upReset i =>
    split at hs
    · injection hs with hs; subst hs; constructor <;> simp only [upd] <;> first | assumption | grind
    · cases hs

theorem inv_run (acts : List Act) (s s' : St) (h : RInv s) (hr : runActs s acts = some s') : RInv s' := by
  induction acts generalizing s with
  | nil => simp [runActs] at hr; subst hr; exact h
  | cons a as ih =>
    simp only [runActs] at hr
    split at hr
    · rename_i s1 hs1; exact ih s1 (inv_step s s1 a h hs1) hr
    · cases hr

end L4.Relay

/-! ## every run is finite: a measure that every action strictly decreases -/
namespace L4.Relay

def sumBelow (k : Nat) (f : Nat → Nat) : Nat := ((List.range k).map f).sum

theorem sumBelow_succ (k : Nat) (f : Nat → Nat) : sumBelow (k + 1) f = sumBelow k f + f k := by
  simp [sumBelow, List.range_succ]

theorem sumBelow_congr (k : Nat) (f g : Nat → Nat) (h : ∀ j, j < k → f j = g j) : sumBelow k f = sumBelow k g := by
  induction k with
  | zero => rfl
  | succ k ih => rw [sumBelow_succ, sumBelow_succ, ih (fun j hj => h j (by omega)), h k (by omega)]

/-- changing `f` at one index below `k` changes the sum by the difference -/
theorem sumBelow_update (k : Nat) (f g : Nat → Nat) (i : Nat) (hi : i < k) (h : ∀ j, j ≠ i → g j = f j) :
    sumBelow k g + f i = sumBelow k f + g i := by
  induction k with
  | zero => omega
  | succ k ih =>
    rw [sumBelow_succ, sumBelow_succ]
    by_cases hik : i = k
    · subst hik
      have : sumBelow i g = sumBelow i f := sumBelow_congr i g f (fun j hj => h j (by omega))
      omega
    · have := ih (by omega)
      have hk := h k (fun e => hik e.symm)
      omega

def pumpRank : Pump → Nat | .reading => 3 | .signalling => 2 | .closing => 1 | .done => 0
def mainRank : Main → Nat | .waitCopies => 3 | .afterWait => 2 | .waitSignal => 1 | .returned => 0
def bit (b : Bool) : Nat := if b then 0 else 1

def perUp (s : St) (i : Nat) : Nat := (s.uin i).length + 2 * (s.upend i).length + bit (s.copyDone i) + bit (s.uerr i)

/-- work left: unread chunks, goroutine program counters, copies not yet ended, faults not yet happened -/
def measure (s : St) : Nat := s.cin.length + pumpRank s.pump + mainRank s.main + bit s.cerr + sumBelow s.k (perUp s)

theorem measure_decreases (s s' : St) (a : Act) (hs : step s a = some s') : measure s' < measure s := by
  cases a <;> simp only [step] at hs
  case pumpRead =>
    split at hs
    · split at hs
      · injection hs with hs; subst hs
        rename_i c cs hc hpd
        have : sumBelow s.k (perUp { s with cin := cs, upRecv := fun i => if s.uerr i then s.upRecv i else s.upRecv i ++ c, pump := if anyBelow s.k s.uerr then .signalling else .reading }) = sumBelow s.k (perUp s) :=
          sumBelow_congr _ _ _ (fun j _ => rfl)
        simp only [measure, this, hc, hpd.1, List.length_cons]
        split <;> simp [pumpRank] <;> omega
      · cases hs
    · cases hs
  case pumpEOF =>
    split at hs
    · injection hs with hs; subst hs; rename_i h
      have : sumBelow s.k (perUp { s with pump := .signalling }) = sumBelow s.k (perUp s) := sumBelow_congr _ _ _ (fun j _ => rfl)
      simp only [measure, this, h.1, pumpRank]; omega
    · cases hs
  case pumpErr =>
    split at hs
    · injection hs with hs; subst hs; rename_i h
      have : sumBelow s.k (perUp { s with pump := .signalling }) = sumBelow s.k (perUp s) := sumBelow_congr _ _ _ (fun j _ => rfl)
      simp only [measure, this, h.1, pumpRank]; omega
    · cases hs
  case pumpSignal =>
    split at hs
    · injection hs with hs; subst hs; rename_i h
      have : sumBelow s.k (perUp { s with pump := .closing, sig := s.sig + 1 }) = sumBelow s.k (perUp s) := sumBelow_congr _ _ _ (fun j _ => rfl)
      simp only [measure, this, h.1, pumpRank]; omega
    · cases hs
  case rendezvous =>
    split at hs
    · injection hs with hs; subst hs; rename_i h
      have : sumBelow s.k (perUp (closeAll { s with pump := .closing })) = sumBelow s.k (perUp s) := sumBelow_congr _ _ _ (fun j _ => rfl)
      simp only [measure, closeAll] at this ⊢
      simp only [this, h.1, h.2.2, pumpRank, mainRank]; omega
    · cases hs
  case pumpClose =>
    split at hs
    · injection hs with hs; subst hs; rename_i h
      have : sumBelow s.k (perUp { s with pump := .done, upEof := fun _ => true, upClosed := fun i => s.upClosed i || !s.upCW i }) = sumBelow s.k (perUp s) :=
        sumBelow_congr _ _ _ (fun j _ => rfl)
      simp only [measure, this, h, pumpRank]; omega
    · cases hs
  case copyRead i =>
    split at hs
    · split at hs
      · injection hs with hs; subst hs
        rename_i c cs hc hpd
        have hu := sumBelow_update s.k (perUp s) (perUp { s with uin := upd s.uin i cs, clRecv := upd s.clRecv i (s.clRecv i ++ c) }) i hpd.1
          (by intro j hj; simp [perUp, upd, hj])
        have hv : perUp { s with uin := upd s.uin i cs, clRecv := upd s.clRecv i (s.clRecv i ++ c) } i + 1 = perUp s i := by
          simp [perUp, upd, hc]; omega
        simp only [measure]; omega
      · cases hs
    · cases hs
  case copyEOF i =>
    split at hs
    · injection hs with hs; subst hs; rename_i h
      have hu := sumBelow_update s.k (perUp s) (perUp { s with copyDone := upd s.copyDone i true }) i h.1
        (by intro j hj; simp [perUp, upd, hj])
      have hv : perUp { s with copyDone := upd s.copyDone i true } i + 1 = perUp s i := by
        simp [perUp, upd, bit, h.2.1]; omega
      simp only [measure]; omega
    · cases hs
  case copyErr i =>
    split at hs
    · injection hs with hs; subst hs; rename_i h
      have hu := sumBelow_update s.k (perUp s) (perUp { s with copyDone := upd s.copyDone i true }) i h.1
        (by intro j hj; simp [perUp, upd, hj])
      have hv : perUp { s with copyDone := upd s.copyDone i true } i + 1 = perUp s i := by
        simp [perUp, upd, bit, h.2.1]; omega
      simp only [measure]; omega
    · cases hs
  case mainWait =>
    split at hs
    · injection hs with hs; subst hs; rename_i h
      have : sumBelow s.k (perUp { s with main := .afterWait }) = sumBelow s.k (perUp s) := sumBelow_congr _ _ _ (fun j _ => rfl)
      simp only [measure, this, h.1, mainRank]; omega
    · cases hs
  case mainCW =>
    split at hs
    · injection hs with hs; subst hs; rename_i h
      have : sumBelow s.k (perUp { s with main := .waitSignal, clEof := s.clEof || s.downCW }) = sumBelow s.k (perUp s) := sumBelow_congr _ _ _ (fun j _ => rfl)
      simp only [measure, this, h, mainRank]; omega
    · cases hs
  case mainRecv =>
    split at hs
    · injection hs with hs; subst hs; rename_i h
      have : sumBelow s.k (perUp (closeAll { s with sig := s.sig - 1 })) = sumBelow s.k (perUp s) := sumBelow_congr _ _ _ (fun j _ => rfl)
      simp only [measure, closeAll] at this ⊢
      simp only [this, h.1, mainRank]; omega
    · cases hs
  case upRespond i =>
    split at hs
    · injection hs with hs; subst hs; rename_i h
      have hu := sumBelow_update s.k (perUp s) (perUp { s with uin := upd s.uin i (s.uin i ++ s.upend i), upend := upd s.upend i [] }) i h.1
        (by intro j hj; simp [perUp, upd, hj])
      have hne : 0 < (s.upend i).length := by
        cases hl : s.upend i with
        | nil => exact absurd hl h.2.2.1
        | cons a b => simp
      have hv : perUp { s with uin := upd s.uin i (s.uin i ++ s.upend i), upend := upd s.upend i [] } i + (s.upend i).length = perUp s i := by
        simp [perUp, upd]; omega
      simp only [measure]; omega
    · cases hs
  case clientReset =>
    split at hs
    · injection hs with hs; subst hs; rename_i h
      have : sumBelow s.k (perUp { s with cerr := true }) = sumBelow s.k (perUp s) := sumBelow_congr _ _ _ (fun j _ => rfl)
      simp only [measure, this, h, bit]; simp
    · cases hs
  case upReset i =>
    split at hs
    · injection hs with hs; subst hs; rename_i h
      have hu := sumBelow_update s.k (perUp s) (perUp { s with uerr := upd s.uerr i true }) i h.1
        (by intro j hj; simp [perUp, upd, hj])
      have hv : perUp { s with uerr := upd s.uerr i true } i + 1 = perUp s i := by
        simp [perUp, upd, bit, h.2]
      simp only [measure]; omega
    · cases hs

/-- hence a run of `n` actions needs `n ≤ measure` of its start state: every run is finite -/
theorem run_length_bounded (acts : List Act) (s s' : St) (h : runActs s acts = some s') : acts.length + measure s' ≤ measure s := by
  induction acts generalizing s with
  | nil => simp [runActs] at h; subst h; simp
  | cons a as ih =>
    simp only [runActs] at h
    split at h
    · rename_i s1 hs1
      have := ih s1 h
      have := measure_decreases s s1 a hs1
      simp only [List.length_cons]; omega
    · cases h

end L4.Relay

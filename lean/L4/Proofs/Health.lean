import L4.Health
/-! helper lemmas for C11: the accounting invariant of the health model and its preservation by every operation -/
namespace L4.Health

/-- the failures still remembered at time `now`: those that happened less than `fail_duration` ago -/
def window (c : Cfg) (s : St) : List (Nat × Nat) := s.flog.filter (fun e => s.now < e.2 + c.failDur)

def openCount (c : Cfg) (s : St) (p : Nat) : Nat := (s.opened.map (fun u => (peersOf c u).count p)).sum

structure HInv (c : Cfg) (s : St) : Prop where
  fails_eq : ∀ p, s.fails p = (cnt s.pending p : Int)
  pending_eq : s.pending = (window c s).map (fun e => (e.1, e.2 + c.failDur))
  flog_past : ∀ e ∈ s.flog, e.2 ≤ s.now
  conns_eq : ∀ p, s.conns p = (openCount c s p : Int)

theorem cnt_append (l m : List (Nat × Nat)) (p : Nat) : cnt (l ++ m) p = cnt l p + cnt m p := by
  simp [cnt, List.countP_append]

theorem cnt_split (l : List (Nat × Nat)) (q : Nat × Nat → Bool) (p : Nat) :
    cnt l p = cnt (l.filter q) p + cnt (l.filter (fun e => !q e)) p := by
  induction l with
  | nil => simp [cnt]
  | cons e l ih =>
    simp only [cnt] at ih ⊢
    by_cases hq : q e = true <;> by_cases hp : (e.1 == p) = true <;> simp [List.filter, hq, hp, List.countP_cons] <;> omega

theorem cnt_map_window (l : List (Nat × Nat)) (d p : Nat) :
    cnt (l.map (fun e => (e.1, e.2 + d))) p = cnt l p := by
  induction l with
  | nil => rfl
  | cons e l ih => simp only [cnt] at ih ⊢; simp [List.countP_cons, ih]

theorem filter_window (l : List (Nat × Nat)) (now t d : Nat) :
    (((l.filter fun e => decide (now < e.2 + d)).map fun e => (e.1, e.2 + d)).filter fun e => decide ¬ e.2 ≤ t) =
      ((l.filter fun e => decide (max now t < e.2 + d)).map fun e => (e.1, e.2 + d)) := by
  induction l with
  | nil => rfl
  | cons e l ih =>
    by_cases ha : now < e.2 + d <;> by_cases hb : e.2 + d ≤ t
    · have hc : ¬ max now t < e.2 + d := by omega
      simp [List.filter_cons, ha, hb, hc]; simpa using ih
    · have hc : max now t < e.2 + d := by omega
      have hd : t < e.2 + d := by omega
      simp [List.filter_cons, ha, hc, hd]; simpa using ih
    · have hc : ¬ max now t < e.2 + d := by omega
      simp [List.filter_cons, ha, hc]; simpa using ih
    · have hc : ¬ max now t < e.2 + d := by omega
      simp [List.filter_cons, ha, hc]; simpa using ih

theorem inv_init (c : Cfg) : HInv c {} := by
  constructor <;> simp [cnt, window, openCount]

theorem inv_advance (c : Cfg) (s : St) (t : Nat) (h : HInv c s) : HInv c (advance s t) := by
  obtain ⟨h1, h2, h3, h4⟩ := h
  constructor
  · intro p
    simp only [advance]
    have := cnt_split s.pending (fun e => decide (e.2 ≤ t)) p
    rw [h1 p]
    have e2 : (s.pending.filter fun e => !decide (e.2 ≤ t)) = s.pending.filter (fun e => decide ¬ e.2 ≤ t) := by
      congr 1; funext e; by_cases h : e.2 ≤ t <;> simp [h] <;> omega
    rw [e2] at this
    omega
  · show (s.pending.filter fun e => decide ¬ e.2 ≤ t) = ((s.flog.filter fun e => decide (max s.now t < e.2 + c.failDur)).map fun e => (e.1, e.2 + c.failDur))
    rw [h2]; exact filter_window s.flog s.now t c.failDur
  · intro e he; simp only [advance]; have := h3 e he; omega
  · intro p; simp only [advance, openCount]; exact h4 p

theorem inv_countFailure (c : Cfg) (s : St) (p : Nat) (h : HInv c s) : HInv c (countFailure c s p) := by
  obtain ⟨h1, h2, h3, h4⟩ := h
  unfold countFailure
  split
  · rename_i hc
    constructor
    · intro q
      simp only [cnt_append]
      by_cases hq : q = p
      · subst hq; simp [cnt, h1 q]
      · have : ¬ (p = q) := fun e => hq e.symm
        simp [cnt, hq, h1 q, this]
    · simp only [window, List.filter_append, List.map_append]
      rw [h2]; simp only [window]
      have : s.now < s.now + c.failDur := by have := hc.2; omega
      simp [this]
    · intro e he
      simp only [List.mem_append, List.mem_singleton] at he
      rcases he with he | he
      · exact h3 e he
      · subst he; exact Nat.le_refl _
    · intro q; simp only [openCount]; exact h4 q
  · exact ⟨h1, h2, h3, h4⟩

theorem inv_dialPeers (c : Cfg) (s : St) (ps : List Nat) (h : HInv c s) : HInv c (dialPeers c s ps).2 := by
  induction ps with
  | nil => exact h
  | cons p ps ih =>
    simp only [dialPeers]
    split
    · exact ih
    · exact inv_countFailure c s p h

theorem sum_map_erase (l : List Nat) (f : Nat → Nat) (a : Nat) (h : a ∈ l) :
    ((l.erase a).map f).sum + f a = (l.map f).sum := by
  induction l with
  | nil => cases h
  | cons b l ih =>
    by_cases hb : b = a
    · subst hb; simp; omega
    · have : a ∈ l := by
        rcases List.mem_cons.mp h with h | h
        · exact absurd h.symm hb
        · exact h
      have hne : (b == a) = false := by simp [hb]
      simp [List.erase_cons, hne]
      have := ih this
      omega

theorem inv_open (c : Cfg) (s : St) (u : Nat) (h : HInv c s) :
    HInv c { countConns s (peersOf c u) 1 with opened := u :: s.opened } := by
  obtain ⟨h1, h2, h3, h4⟩ := h
  constructor
  · exact h1
  · exact h2
  · exact h3
  · intro p; simp only [countConns, openCount, List.map_cons, List.sum_cons]; have := h4 p; simp only [openCount] at this; rw [this]; omega

theorem inv_close (c : Cfg) (s : St) (u : Nat) (h : HInv c s) : HInv c (closeConn c s u) := by
  obtain ⟨h1, h2, h3, h4⟩ := h
  unfold closeConn
  split
  · rename_i hu
    constructor
    · exact h1
    · exact h2
    · exact h3
    · intro p
      simp only [countConns, openCount]
      have := sum_map_erase s.opened (fun u => (peersOf c u).count p) u hu
      have h4p := h4 p; simp only [openCount] at h4p
      rw [h4p]; omega
  · exact ⟨h1, h2, h3, h4⟩

theorem inv_handleLoop (c : Cfg) (start fuel : Nat) (s : St) (err : Option Outcome) (att : List Nat) (h : HInv c s) :
    HInv c (handleLoop c start fuel s err att).2.1 := by
  induction fuel generalizing s err att with
  | zero => exact h
  | succ n ih =>
    simp only [handleLoop]
    split
    · split
      · exact h
      · exact ih _ _ _ (inv_advance c s _ h)
    · rename_i u _
      have hd := inv_dialPeers c s (peersOf c u) h
      split
      · rename_i s' heq; rw [heq] at hd; exact inv_open c s' u hd
      · rename_i s' heq; rw [heq] at hd
        split
        · exact hd
        · exact ih _ _ _ (inv_advance c s' _ hd)

theorem inv_apply (c : Cfg) (s : St) (op : Op) (h : HInv c s) : HInv c (apply c s op) := by
  cases op with
  | advance t => exact inv_advance c s t h
  | handle => exact inv_handleLoop c _ _ s none [] h
  | close u => exact inv_close c s u h
  | probe p => obtain ⟨h1, h2, h3, h4⟩ := h; exact ⟨h1, h2, h3, h4⟩
  | setUp p b => obtain ⟨h1, h2, h3, h4⟩ := h; exact ⟨h1, h2, h3, h4⟩
  | plan t p b => obtain ⟨h1, h2, h3, h4⟩ := h; exact ⟨h1, h2, h3, h4⟩

theorem inv_run (c : Cfg) (s : St) (ops : List Op) (h : HInv c s) : HInv c (run c s ops) := by
  induction ops generalizing s with
  | nil => exact h
  | cons op ops ih => exact ih _ (inv_apply c s op h)

end L4.Health

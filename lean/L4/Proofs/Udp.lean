import L4.Udp
/-! invariant preservation for the UDP server loop: every action, all conjuncts, by `grind` -/
namespace L4.Udp

theorem got_enq (c : PC) (p : Nat) : ({ c with readq := c.readq ++ [p] } : PC).got = c.got ++ [p] := by
  simp [PC.got, List.append_assoc]

theorem inv_step (s s' : St) (a : Act) (h : UInv s) (hs : step s a = some s') : UInv s' := by
  obtain ⟨h1, h2, h3, h4, h5, h6, h7, h8, h9, h10⟩ := h
  cases a with
  | arrive a =>
    simp only [step] at hs
    injection hs with hs; subst hs
    constructor <;> simp only [upd, PC.got] at * <;> grind
  | loopPkt =>
    simp only [step] at hs
    split at hs
    · cases hs
    · rename_i p rest hp
      have hpmem : p ∈ s.packets := by rw [hp]; simp
      have hrest : ∀ x, x ∈ rest → x ∈ s.packets := by intro x hx; rw [hp]; simp [hx]
      have hsorted : (∀ x ∈ rest, p < x) ∧ rest.Pairwise (· < ·) := by rw [hp] at h4; simpa using h4
      split at hs
      · rename_i k c hlive
        have hck : s.conns k = some c ∧ c.done = false ∧ s.assoc (s.src p) = some k := by
          revert hlive
          cases ha : s.assoc (s.src p) with
          | none => simp
          | some k' =>
            simp only []
            cases hc' : s.conns k' with
            | none => simp
            | some c' =>
              simp only []
              split
              · simp
              · rename_i hd
                intro hh; injection hh with hh; injection hh with hk hcc
                subst hk; subst hcc
                exact ⟨hc', by simpa using hd, rfl⟩
        obtain ⟨hc, hnd, hassoc⟩ := hck
        have haddr : c.addr = s.src p := by
          obtain ⟨c', hc', ha'⟩ := h7 _ _ hassoc
          rw [hc] at hc'; cases hc'; exact ha'
        split at hs
        · injection hs with hs; subst hs
          constructor
          · exact h1
          · intro k' c' hc' d hd
            simp only [upd] at hc'
            split at hc'
            · cases hc'; rw [got_enq] at hd
              simp only [List.mem_append, List.mem_singleton] at hd
              rcases hd with hd | hd
              · exact h2 k c hc d (by simpa [PC.got] using hd)
              · subst hd; exact ⟨haddr.symm, h5 _ hpmem⟩
            · exact h2 k' c' hc' d hd
          · intro k' c' hc'
            simp only [upd] at hc'
            split at hc'
            · cases hc'; rw [got_enq]
              simp only [List.pairwise_append, List.pairwise_cons, List.Pairwise.nil]
              refine ⟨h3 k c hc, by simp, ?_⟩
              intro x hx y hy; simp at hy; subst hy; exact h6 k c hc x hx _ hpmem
            · exact h3 k' c' hc'
          · exact hsorted.2
          · intro x hx; exact h5 x (hrest x hx)
          · intro k' c' hc' d hd x hx
            simp only [upd] at hc'
            split at hc'
            · cases hc'; rw [got_enq] at hd
              simp only [List.mem_append, List.mem_singleton] at hd
              rcases hd with hd | hd
              · exact h6 k c hc d (by simpa [PC.got] using hd) x (hrest x hx)
              · subst hd; exact hsorted.1 x hx
            · exact h6 k' c' hc' d hd x (hrest x hx)
          · intro a k' ha
            obtain ⟨c', hc', ha'⟩ := h7 a k' ha
            by_cases hk : k' = k
            · subst hk; rw [hc] at hc'; cases hc'
              exact ⟨{ c with readq := c.readq ++ [p] }, by simp [upd], ha'⟩
            · exact ⟨c', by simp only [upd]; rw [if_neg hk]; exact hc', ha'⟩
          · intro k' c' hc'
            simp only [upd] at hc'
            split at hc'
            · rename_i hk; subst hk; exact h8 _ c hc
            · exact h8 k' c' hc'
          · exact h9
          · intro k' c' hc' hd'
            simp only [upd] at hc'
            split at hc'
            · cases hc'; simp at hd'; rw [hnd] at hd'; cases hd'
            · exact h10 k' c' hc' hd'
        · cases hs
      · -- a fresh association
        injection hs with hs; subst hs
        have hfresh_none : s.conns s.fresh = none := by
          cases hc : s.conns s.fresh with
          | none => rfl
          | some c => have := h8 _ c hc; omega
        constructor
        · exact h1
        · intro k' c' hc' d hd
          simp only [upd] at hc'
          split at hc'
          · cases hc'; simp [PC.got] at hd; subst hd; exact ⟨rfl, h5 _ hpmem⟩
          · exact h2 k' c' hc' d hd
        · intro k' c' hc'
          simp only [upd] at hc'
          split at hc'
          · cases hc'; simp [PC.got]
          · exact h3 k' c' hc'
        · exact hsorted.2
        · intro x hx; exact h5 x (hrest x hx)
        · intro k' c' hc' d hd x hx
          simp only [upd] at hc'
          split at hc'
          · cases hc'; simp [PC.got] at hd; subst hd; exact hsorted.1 x hx
          · exact h6 k' c' hc' d hd x (hrest x hx)
        · intro a k' ha
          simp only [upd] at ha
          split at ha
          · rename_i haa; cases ha
            exact ⟨{ addr := s.src p, readq := [p] }, by simp [upd], haa.symm⟩
          · obtain ⟨c', hc', ha'⟩ := h7 a k' ha
            have hk : k' ≠ s.fresh := by have := h9 a k' ha; omega
            exact ⟨c', by simp only [upd]; rw [if_neg hk]; exact hc', ha'⟩
        · intro k' c' hc'
          simp only [upd] at hc'
          split at hc'
          · rename_i hk; subst hk; simp
          · have := h8 k' c' hc'; simp; omega
        · intro a k' ha
          simp only [upd] at ha
          split at ha
          · cases ha; simp
          · have := h9 a k' ha; simp; omega
        · intro k' c' hc' hd'
          simp only [upd] at hc'
          split at hc'
          · cases hc'; simp at hd'
          · exact h10 k' c' hc' hd'
  | loopDrop =>
    simp only [step] at hs
    split at hs
    · cases hs
    · rename_i p rest hp
      have hrest : ∀ x, x ∈ rest → x ∈ s.packets := by intro x hx; rw [hp]; simp [hx]
      have hsorted : (∀ x ∈ rest, p < x) ∧ rest.Pairwise (· < ·) := by rw [hp] at h4; simpa using h4
      split at hs
      · split at hs
        · split at hs
          · injection hs with hs; subst hs
            constructor <;> simp only [PC.got] at * <;> grind
          · cases hs
        · cases hs
      · cases hs
  | loopClose k =>
    simp only [step] at hs
    split at hs
    · split at hs
      · split at hs
        · injection hs with hs; subst hs
          constructor <;> simp only [upd, PC.got] at * <;> grind
        · injection hs with hs; subst hs
          constructor <;> simp only [upd, PC.got] at * <;> grind
      · injection hs with hs; subst hs
        constructor <;> simp only [upd, PC.got] at * <;> grind
    · cases hs
  | read k =>
    simp only [step] at hs
    split at hs
    · split at hs
      · cases hs
      · split at hs
        · injection hs with hs; subst hs
          constructor <;> simp only [upd, PC.got] at * <;> grind
        · cases hs
    · cases hs
  | idle k =>
    simp only [step] at hs
    split at hs
    · split at hs
      · injection hs with hs; subst hs
        constructor <;> simp only [upd, PC.got] at * <;> grind
      · cases hs
    · cases hs
  | close k =>
    simp only [step] at hs
    split at hs
    · injection hs with hs; subst hs
      constructor <;> simp only [upd, PC.got] at * <;> grind
    · cases hs

theorem inv_run (acts : List Act) (s s' : St) (h : UInv s) (hr : runActs s acts = some s') : UInv s' := by
  induction acts generalizing s with
  | nil => simp [runActs] at hr; subst hr; exact h
  | cons a as ih =>
    simp only [runActs] at hr
    split at hr
    · rename_i s1 hs
      exact ih s1 (inv_step s s1 a h hs) hr
    · cases hr

end L4.Udp

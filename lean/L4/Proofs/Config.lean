import L4.Config
/-! helper lemmas for C15: the option-table interpreter reads back what the renderer wrote; structural adapters succeed on
well-formed input -/
namespace L4.Config

/-- the two string codec laws the interpreter relies on (decimal integers, durations written in nanoseconds) -/
structure CodecLaws : Prop where
  int : ∀ v : Int, parseInt? (showInt v) = some v
  dur : ∀ ns : Int, 0 ≤ ns → parseDur? (showDur ns) = some ns

theorem apply_render (L : CodecLaws) (o : Opt) (k : String) (v : Val) (m : M) (hon : o.name = k) (hok : okVal o v = true)
    (hm : m k = none) : applyOpt o (renderVal k v).2 m = .ok (m.set k v) := by
  cases v with
  | s a => simp [okVal] at hok; simp [applyOpt, hok, hon, hm, renderVal]
  | i a => simp [okVal] at hok; simp [applyOpt, hok, hon, hm, renderVal, L.int a]
  | d a => simp [okVal] at hok; simp [applyOpt, hok.1, hon, hm, renderVal, L.dur a hok.2]
  | ss l => simp [okVal] at hok; simp [applyOpt, hok.1, hon, hm, renderVal, hok.2]
  | f => simp [okVal] at hok; simp [applyOpt, hok, hon, hm, renderVal]

theorem parse_render (L : CodecLaws) (schema : List Opt) (c : List (String × Val)) (m : M)
    (hw : wf schema c = true) (hdisj : ∀ kv ∈ c, m kv.1 = none) :
    parseBlock schema (render c) m = .ok (asMap c m) := by
  induction c generalizing m with
  | nil => rfl
  | cons kv rest ih =>
    obtain ⟨k, v⟩ := kv
    simp only [wf, Bool.and_eq_true] at hw
    obtain ⟨⟨h1, h2⟩, h3⟩ := hw
    have hm : m k = none := hdisj (k, v) (by simp)
    cases hf : schema.find? (·.name == k) with
    | none => simp [hf] at h1
    | some o =>
      simp only [hf] at h1
      have hon : o.name = k := by have := List.find?_some hf; simpa using this
      have hname : (renderVal k v).1 = k := by cases v <;> rfl
      have happly := apply_render L o k v m hon h1 hm
      have hr : render ((k, v) :: rest) = ((renderVal k v).1, (renderVal k v).2) :: render rest := by
        simp [render]
      rw [hr]
      simp only [parseBlock, hname, hf, happly, asMap]
      apply ih _ h3
      intro kv hkv
      have hne : kv.1 ≠ k := by
        intro e; simp at h2; exact h2 kv.1 kv.2 (by simpa using hkv) e
      simp [M.set, hne]; exact hdisj kv (by simp [hkv])

/-- with distinct option names the accumulated map is the lookup function of the list -/
theorem asMap_lookup (c : List (String × Val)) (m : M) (hnd : (c.map (·.1)).Nodup) (k : String) :
    asMap c m k = match c.lookup k with | some v => some v | none => m k := by
  induction c generalizing m with
  | nil => rfl
  | cons kv rest ih =>
    obtain ⟨k', v⟩ := kv
    simp only [List.map_cons, List.nodup_cons] at hnd
    simp only [asMap]
    rw [ih _ hnd.2]
    by_cases hk : k = k'
    · subst hk
      have : rest.lookup k = none := by
        rw [List.lookup_eq_none_iff]; intro p hp
        simp only [bne_iff_ne, ne_eq]; intro e
        exact hnd.1 (List.mem_map.mpr ⟨p, hp, e.symm⟩)
      simp [this, M.set, List.lookup_cons]
    · have hne : (k == k') = false := by simp [hk]
      simp [List.lookup_cons, hne, M.set, hk]

theorem wf_nodup (schema : List Opt) (c : List (String × Val)) (h : wf schema c = true) : (c.map (·.1)).Nodup := by
  induction c with
  | nil => simp
  | cons kv rest ih =>
    obtain ⟨k, v⟩ := kv
    simp only [wf, Bool.and_eq_true] at h
    simp only [List.map_cons, List.nodup_cons]
    refine ⟨?_, ih h.2⟩
    intro hmem
    simp only [List.mem_map] at hmem
    obtain ⟨p, hp, hpk⟩ := hmem
    have := h.1.2
    simp at this
    exact this p.1 p.2 hp hpk

theorem lookup_perm (c₁ c₂ : List (String × Val)) (hp : c₁.Perm c₂) (hnd : (c₁.map (·.1)).Nodup) (k : String) :
    c₁.lookup k = c₂.lookup k := by
  induction hp with
  | nil => rfl
  | cons x _ ih =>
    obtain ⟨xa, xb⟩ := x
    simp only [List.map_cons, List.nodup_cons] at hnd
    simp only [List.lookup_cons]; split
    · rfl
    · exact ih hnd.2
  | swap x y l =>
    obtain ⟨xa, xb⟩ := x
    obtain ⟨ya, yb⟩ := y
    simp only [List.map_cons, List.nodup_cons, List.mem_cons] at hnd
    have hne : ya ≠ xa := fun e => hnd.1 (Or.inl e)
    simp only [List.lookup_cons]
    by_cases h1 : k = xa
    · subst h1
      have : (k == ya) = false := by simp; exact fun e => hne e.symm
      simp [this]
    · have hx : (k == xa) = false := by simp [h1]
      simp [hx]
  | trans h₁ _ ih₁ ih₂ =>
    rw [ih₁ hnd, ih₂ ((h₁.map _).nodup_iff.mp hnd)]

theorem filterMap_congr' {α β} (l : List α) (f g : α → Option β) (h : ∀ a ∈ l, f a = g a) : l.filterMap f = l.filterMap g := by
  induction l with
  | nil => rfl
  | cons a l ih =>
    simp only [List.filterMap_cons, h a (by simp)]
    rw [ih (fun b hb => h b (by simp [hb]))]

/-! structural layer -/
theorem mapM_ok {α β} (f : α → Except String β) (g : α → β) (l : List α) (h : ∀ a ∈ l, f a = .ok (g a)) :
    l.mapM f = .ok (l.map g) := by
  induction l with
  | nil => rfl
  | cons a l ih =>
    rw [List.mapM_cons, h a (by simp), ih (fun b hb => h b (by simp [hb]))]
    rfl

theorem findDup_none (names : List String) (h : names.Nodup) : findDup names = none := by
  induction names with
  | nil => rfl
  | cons n rest ih =>
    simp only [List.nodup_cons] at h
    simp [findDup, h.1, ih h.2]

theorem findDup_some (names : List String) (h : ¬ names.Nodup) : (findDup names).isSome = true := by
  induction names with
  | nil => simp at h
  | cons n rest ih =>
    simp only [findDup]
    by_cases hc : n ∈ rest
    · simp [hc]
    · have : ¬ rest.Nodup := fun hn => h (List.nodup_cons.mpr ⟨hc, hn⟩)
      simp [hc, ih this]

/-! ## the string codec laws, proved (Std's `Nat.repr` / `String.toNat?` / `Int.repr` / `String.toInt?` lemmas) -/

theorem takeWhile_digits (l rest : List Char) (p : Char → Bool) (hl : ∀ c ∈ l, p c = true) (x : Char) (hx : p x = false) :
    (l ++ x :: rest).takeWhile p = l ∧ (l ++ x :: rest).dropWhile p = x :: rest := by
  induction l with
  | nil => simp [List.takeWhile, List.dropWhile, hx]
  | cons a l ih =>
    have ha := hl a (by simp)
    have := ih (fun c hc => hl c (by simp [hc]))
    simp [List.takeWhile, List.dropWhile, ha, this]

/-- decimal integers: `parseInt? ∘ showInt = some` -/
theorem int_law (v : Int) : parseInt? (showInt v) = some v := by
  unfold parseInt? showInt
  exact Int.toInt?_repr v

/-- durations written in nanoseconds: `parseDur? ∘ showDur = some` -/
theorem dur_law (ns : Int) (h : 0 ≤ ns) : parseDur? (showDur ns) = some ns := by
  unfold parseDur? showDur
  have hl : (ns.toNat.repr ++ "ns").toList = Nat.toDigits 10 ns.toNat ++ 'n' :: ['s'] := by
    rw [String.toList_append, Nat.toList_repr]; rfl
  have hd := takeWhile_digits (Nat.toDigits 10 ns.toNat) ['s'] Char.isDigit
    (fun c hc => Nat.isDigit_of_mem_toDigits (by omega) (by omega) hc) 'n' (by decide)
  rw [hl, hd.1, hd.2]
  have e1 : String.ofList (Nat.toDigits 10 ns.toNat) = Nat.repr ns.toNat := rfl
  have e2 : String.ofList ['n', 's'] = "ns" := by decide
  simp only [e1, e2, parseNat?, Nat.toNat?_repr]
  simp
  omega

/-- the codec laws hold: the round-trip theorems of C15 have no assumption left -/
theorem codecLaws : CodecLaws := ⟨int_law, dur_law⟩


end L4.Config

import L4.Basic
/-!
# Matcher programs: a deep embedding of `Match` functions (C04, C06, C14)

A matcher that consumes the connection only through `io.ReadFull` is a tree: return a verdict, or read exactly `n`
bytes and continue. On a connection in matching mode with the bytes `avail` buffered, `io.ReadFull(cx, buf[:n])`
yields the next `n` bytes if they are buffered and otherwise fails with `ErrConsumedAllPrefetchedBytes` (`more`);
`n = 0` always succeeds. Because programs are data, facts about *all* matchers of this shape are proved once.
-/
namespace L4

inductive Prog where
  | ret (v : Verdict)
  | readFull (n : Nat) (k : Bytes → Prog)
  /-- `io.ReadAtLeast(cx, buf[:cap], min)` in matching mode: one `Read` returns `min cap avail` bytes; a second one
  fails with "need more" if that was fewer than `min`; `min = 0` performs no read at all -/
  | readAtLeast (cap min : Nat) (k : Bytes → Prog)

namespace Prog

/-- verdict on the bytes available for matching -/
def run : Prog → Bytes → Verdict
  | .ret v, _ => v
  | .readFull n k, bs => if n ≤ bs.length then (k (bs.take n)).run (bs.drop n) else .more
  | .readAtLeast cap mn k, bs =>
    if cap < mn then .fail                       -- io.ErrShortBuffer
    else if mn = 0 then (k []).run bs
    else if mn ≤ min cap bs.length then (k (bs.take (min cap bs.length))).run (bs.drop (min cap bs.length))
    else .more

/-- the program uses `io.ReadFull` only -/
def onlyReadFull : Prog → Prop
  | .ret _ => True
  | .readFull _ k => ∀ b, (k b).onlyReadFull
  | .readAtLeast _ _ _ => False

/-- bytes allocated for read buffers (`make([]byte, n)` precedes every `ReadFull`) -/
def alloc : Prog → Bytes → Nat
  | .ret _, _ => 0
  | .readFull n k, bs => n + (if n ≤ bs.length then (k (bs.take n)).alloc (bs.drop n) else 0)
  | .readAtLeast cap mn k, bs =>
    cap + (if cap < mn then 0 else if mn = 0 then (k []).alloc bs
           else if mn ≤ min cap bs.length then (k (bs.take (min cap bs.length))).alloc (bs.drop (min cap bs.length)) else 0)

/-- bytes consumed from the matching view -/
def consumed : Prog → Bytes → Nat
  | .ret _, _ => 0
  | .readFull n k, bs => if n ≤ bs.length then n + (k (bs.take n)).consumed (bs.drop n) else 0
  | .readAtLeast cap mn k, bs =>
    if cap < mn then 0 else if mn = 0 then (k []).consumed bs
    else if mn ≤ min cap bs.length then min cap bs.length + (k (bs.take (min cap bs.length))).consumed (bs.drop (min cap bs.length))
    else 0

def ofRes : Res Verdict → Prog
  | .ok v => .ret v
  | .err _ => .ret .fail
  | .panic _ => .ret .panic

/-- **Verdict stability**: once a `ReadFull`-only matcher has decided (anything but "need more"), more bytes do not change
the verdict. -/
theorem run_stable (p : Prog) (hp : p.onlyReadFull) (pre ext : Bytes) (h : p.run pre ≠ .more) :
    p.run (pre ++ ext) = p.run pre := by
  induction p generalizing pre with
  | ret v => rfl
  | readAtLeast c m k _ => exact absurd hp id
  | readFull n k ih =>
    simp only [run] at h ⊢
    split at h
    · rename_i hn
      have hn' : n ≤ (pre ++ ext).length := by simp; omega
      rw [if_pos hn']
      have h1 : (pre ++ ext).take n = pre.take n := by
        rw [List.take_append_of_le_length hn]
      have h2 : (pre ++ ext).drop n = pre.drop n ++ ext := by
        rw [List.drop_append_of_le_length hn]
      rw [h1, h2, if_pos hn]
      exact ih _ (hp _) _ h
    · exact absurd rfl h

/-- **Fragmentation safety**: a message that matches when delivered whole is never rejected on a proper prefix —
the matcher asks for more data (or already says yes). -/
theorem frag_safe (p : Prog) (hp : p.onlyReadFull) (pre ext : Bytes) (h : p.run (pre ++ ext) = .yes) :
    p.run pre = .more ∨ p.run pre = .yes := by
  by_cases hm : p.run pre = .more
  · exact Or.inl hm
  · right; rw [← run_stable p hp pre ext hm]; exact h

/-- a `no` on a prefix stays `no` on every extension -/
theorem no_stable (p : Prog) (hp : p.onlyReadFull) (pre ext : Bytes) (h : p.run pre = .no) :
    p.run (pre ++ ext) = .no := by
  rw [run_stable p hp pre ext (by rw [h]; decide)]; exact h

/-! ### panic-freedom and allocation bounds, structurally -/

/-- no leaf of the program is a panic -/
inductive Safe : Prog → Prop
  | ret (v : Verdict) (h : v ≠ .panic) : Safe (.ret v)
  | readFull (n : Nat) (k : Bytes → Prog) (h : ∀ b, b.length = n → Safe (k b)) : Safe (.readFull n k)
  | readAtLeast (c m : Nat) (k : Bytes → Prog) (h : ∀ b, b.length ≤ c → (m = 0 ∨ m ≤ b.length) → Safe (k b)) :
      Safe (.readAtLeast c m k)

theorem Safe.run_ne_panic {p : Prog} (h : Safe p) (bs : Bytes) : p.run bs ≠ .panic := by
  induction h generalizing bs with
  | ret v hv => exact hv
  | readFull n k _ ih =>
    simp only [run]; split
    · exact ih _ (by simp; omega) _
    · simp
  | readAtLeast c m k _ ih =>
    simp only [run]; split
    · simp
    · split
      · exact ih [] (by simp) (Or.inl ‹m = 0›) _
      · split
        · rename_i hm
          exact ih _ (by simp; omega) (Or.inr (by simp; omega)) _
        · simp

/-- every execution allocates at most `B` bytes of read buffers -/
inductive AllocLe : Prog → Nat → Prop
  | ret (v : Verdict) (B : Nat) : AllocLe (.ret v) B
  | readFull (n : Nat) (k : Bytes → Prog) (B : Nat) (hn : n ≤ B) (h : ∀ b, b.length = n → AllocLe (k b) (B - n)) :
      AllocLe (.readFull n k) B
  | readAtLeast (c m : Nat) (k : Bytes → Prog) (B : Nat) (hn : c ≤ B)
      (h : ∀ b, b.length ≤ c → (m = 0 ∨ m ≤ b.length) → AllocLe (k b) (B - c)) : AllocLe (.readAtLeast c m k) B

theorem AllocLe.alloc_le {p : Prog} {B : Nat} (h : AllocLe p B) (bs : Bytes) : p.alloc bs ≤ B := by
  induction h generalizing bs with
  | ret v B => simp [alloc]
  | readFull n k B hn _ ih =>
    simp only [alloc]; split
    · have := ih (bs.take n) (by simp; omega) (bs.drop n); omega
    · omega
  | readAtLeast c m k B hn _ ih =>
    simp only [alloc]; split
    · omega
    · split
      · have := ih [] (by simp) (Or.inl ‹m = 0›) bs; omega
      · split
        · rename_i hm
          have := ih (bs.take (min c bs.length)) (by simp; omega) (Or.inr (by simp; omega)) (bs.drop (min c bs.length))
          omega
        · omega

theorem ofRes_safe (r : Res Verdict) (h : r.isPanic = false) (hv : ∀ v, r = .ok v → v ≠ .panic) : Safe (ofRes r) := by
  cases r with
  | ok v => exact .ret v (hv v rfl)
  | err c => exact .ret _ (by simp)
  | panic s => simp [Res.isPanic] at h

theorem consumed_le (p : Prog) (bs : Bytes) : p.consumed bs ≤ bs.length := by
  induction p generalizing bs with
  | ret v => simp [consumed]
  | readFull n k ih =>
    simp only [consumed]
    split
    · have := ih (bs.take n) (bs.drop n); simp at this; omega
    · omega
  | readAtLeast c m k ih =>
    simp only [consumed]
    split
    · omega
    · split
      · exact ih _ _
      · split
        · have := ih (bs.take (min c bs.length)) (bs.drop (min c bs.length)); simp at this; omega
        · omega

end Prog
end L4

import Std.Data.String.ToNat
import Std.Data.String.ToInt
import L4.Basic
/-!
# Caddyfile → JSON adaptation of the layer4 app (C15)

* `JV`: JSON values (objects as association lists; printed with sorted keys).
* `Seg`: what Caddy's dispenser yields for a directive: name, same-line arguments, nested block.
* a generic **option-schema interpreter** for the modules whose `UnmarshalCaddyfile` is a flat list of options (`Table`), with
  the renderer that writes a block from option values and the JSON object the values denote;
* a transcription of `ParseCaddyfileNestedMatcherSet`, `ParseCaddyfileNestedHandlers`, `ParseCaddyfileNestedRoutes`,
  `Server.UnmarshalCaddyfile` and `parseLayer4` over `Seg` trees, with the leaf modules as a parameter.
-/
namespace L4.Config

inductive JV
  | null
  | bool (b : Bool)
  | num (n : Int)
  | str (s : String)
  | arr (l : List JV)
  | obj (kvs : List (String × JV))
  deriving Repr, Inhabited

inductive Seg
  | mk (name : String) (args : List String) (block : List Seg)
  deriving Repr, Inhabited

def Seg.name : Seg → String | .mk n _ _ => n
def Seg.args : Seg → List String | .mk _ a _ => a
def Seg.block : Seg → List Seg | .mk _ _ b => b

/-! ## option tables -/

/-- how the arguments of an option become a JSON value -/
inductive Conv
  | str      -- exactly one argument, a string (omitted when empty)
  | int      -- exactly one argument, a decimal integer (omitted when 0)
  | dur      -- exactly one argument, a duration; JSON is nanoseconds (omitted when 0)
  | strs     -- one or more arguments appended to a string list; the option may be repeated
  | flag     -- no argument; JSON `true`
  deriving DecidableEq, Repr

structure Opt where
  name : String      -- option name in the Caddyfile
  key : String       -- JSON key
  conv : Conv
  deriving Repr

/-- option values as the parser accumulates them -/
inductive Val
  | s (v : String)
  | i (v : Int)
  | d (ns : Int)
  | ss (v : List String)
  | f
  deriving DecidableEq, Repr

abbrev M := String → Option Val
def M.set (m : M) (k : String) (v : Val) : M := fun j => if j = k then some v else m j

def parseNat? (s : String) : Option Nat := s.toNat?

/-- `strconv.Atoi` on the forms the generators use: an optional minus sign and decimal digits -/
def parseInt? (s : String) : Option Int := s.toInt?

/-- `caddy.ParseDuration` on the simple form `<digits><unit>` the generators use -/
def parseDur? (s : String) : Option Int :=
  let digits := String.ofList (s.toList.takeWhile Char.isDigit)
  let unit := String.ofList (s.toList.dropWhile Char.isDigit)
  match parseNat? digits with
  | none => none
  | some n =>
    let mul : Option Nat := match unit with
      | "ns" => some 1 | "us" => some 1000 | "ms" => some 1000000 | "s" => some 1000000000
      | "m" => some 60000000000 | "h" => some 3600000000000 | "d" => some 86400000000000
      | "" => if n = 0 then some 1 else none     -- a bare `0` is the zero duration; other numbers need a unit
      | _ => none
    mul.map fun k => ((n * k : Nat) : Int)

def applyOpt (o : Opt) (args : List String) (m : M) : Except String M :=
  match o.conv with
  | .str =>
    if (m o.name).isSome then .error s!"dup {o.name}" else
    match args with
    | [a] => .ok (m.set o.name (.s a))
    | _ => .error s!"arity {o.name}"
  | .int =>
    if (m o.name).isSome then .error s!"dup {o.name}" else
    match args with
    | [a] => match parseInt? a with
      | some v => .ok (m.set o.name (.i v))
      | none => .error s!"bad {o.name}"
    | _ => .error s!"arity {o.name}"
  | .dur =>
    if (m o.name).isSome then .error s!"dup {o.name}" else
    match args with
    | [a] => match parseDur? a with
      | some v => .ok (m.set o.name (.d v))
      | none => .error s!"bad {o.name}"
    | _ => .error s!"arity {o.name}"
  | .strs =>
    if args.isEmpty then .error s!"arity {o.name}" else
    match m o.name with
    | some (.ss old) => .ok (m.set o.name (.ss (old ++ args)))
    | none => .ok (m.set o.name (.ss args))
    | _ => .error s!"bad {o.name}"
  | .flag =>
    if (m o.name).isSome then .error s!"dup {o.name}" else
    match args with
    | [] => .ok (m.set o.name .f)
    | _ => .error s!"arity {o.name}"

/-- the option loop of a table-driven `UnmarshalCaddyfile` (options carry no nested blocks) -/
def parseBlock (schema : List Opt) : List (String × List String) → M → Except String M
  | [], m => .ok m
  | (name, args) :: rest, m =>
    match schema.find? (·.name == name) with
    | none => .error s!"unknown {name}"
    | some o => match applyOpt o args m with
      | .ok m' => parseBlock schema rest m'
      | .error e => .error e

/-- JSON of one accumulated value, `none` when `omitempty` drops it -/
def valJSON : Val → Option JV
  | .s v => if v.isEmpty then none else some (.str v)
  | .i v => if v = 0 then none else some (.num v)
  | .d v => if v = 0 then none else some (.num v)
  | .ss v => if v.isEmpty then none else some (.arr (v.map .str))
  | .f => some (.bool true)

/-- the JSON object of a module: one key per option that has a non-empty value, in table order -/
def tableJSON (schema : List Opt) (m : M) : List (String × JV) :=
  schema.filterMap fun o => (m o.name).bind fun v => (valJSON v).map fun j => (o.key, j)

/-! rendering option values back into a block (the documented syntax) -/
def showInt (i : Int) : String := i.repr

def showDur (ns : Int) : String := ns.toNat.repr ++ "ns"

def renderVal (k : String) : Val → (String × List String)
  | .s v => (k, [v])
  | .i v => (k, [showInt v])
  | .d ns => (k, [showDur ns])
  | .ss v => (k, v)
  | .f => (k, [])

def render (c : List (String × Val)) : List (String × List String) := c.map fun (k, v) => renderVal k v

def okVal (o : Opt) : Val → Bool
  | .s _ => o.conv == .str
  | .i _ => o.conv == .int
  | .d ns => o.conv == .dur && decide (0 ≤ ns)
  | .ss v => o.conv == .strs && !v.isEmpty
  | .f => o.conv == .flag

/-- a list of option values is well formed for a table: every option is in the table with a value of its kind, none twice -/
def wf (schema : List Opt) : List (String × Val) → Bool
  | [] => true
  | (k, v) :: rest => (match schema.find? (·.name == k) with | some o => okVal o v | none => false)
                      && !(rest.any (·.1 == k)) && wf schema rest

def asMap : List (String × Val) → M → M
  | [], m => m
  | (k, v) :: rest, m => asMap rest (m.set k v)

/-! ## the structural layer -/

abbrev LeafFn := String → Seg → Except String JV

def findDup (names : List String) : Option String :=
  match names with
  | [] => none
  | n :: rest => if rest.contains n then some n else findDup rest

/-- the entries of a matcher set written after `@name` / `not`: one matcher on the same line, or one per line in a block -/
def setEntries (s : Seg) : List Seg :=
  match s.args with
  | [] => s.block
  | m :: rest => [.mk m rest s.block]

/-- `ParseCaddyfileNestedMatcherSet`: tokens are grouped per matcher name (a repeated name is an error), every matcher module
unmarshals its segment, the result is the module map -/
def adaptMatcherSet (leafM : LeafFn) (entries : List Seg) : Except String JV := do
  match findDup (entries.map (·.name)) with
  | some n => throw s!"duplicate matcher module '{n}'"
  | none => pure ()
  let kvs ← entries.mapM fun e => do
    let j ← leafM e.name e
    pure (e.name, j)
  pure (.obj kvs)

/-- `ParseCaddyfileNestedHandlers`: each handler module unmarshals its segment; the module name is set inline -/
def adaptHandlers (leafH : LeafFn) (segs : List Seg) : Except String (List JV) :=
  segs.mapM fun e => do
    match ← leafH e.name e with
    | .obj kvs => pure (.obj (("handler", .str e.name) :: kvs.filter (·.1 != "handler")))
    | _ => throw "handler is not an object"

def optArr (k : String) (l : List JV) : List (String × JV) := if l.isEmpty then [] else [(k, .arr l)]

/-- `ParseCaddyfileNestedRoutes`; returns the JSON fields `routes` and `matching_timeout` (both `omitempty`) -/
def adaptRoutes (leafM leafH : LeafFn) (block : List Seg) : Except String (List (String × JV)) := do
  -- first pass: named matcher sets, matching_timeout, routes
  let named := block.filter fun s => s.name.length > 1 && s.name.startsWith "@"
  let rest := block.filter fun s => !(s.name.length > 1 && s.name.startsWith "@")
  match rest.find? fun s => s.name != "matching_timeout" && s.name != "route" with
  | some _ => throw "unexpected option"
  | none => pure ()
  match findDup (named.map (·.name)) with
  | some n => throw s!"duplicate matcher set '{n}'"
  | none => pure ()
  let touts := rest.filter (·.name == "matching_timeout")
  let timeout ← match touts with
    | [] => pure []
    | [t] => match t.args with
      | [a] => match parseDur? a with
        | some ns => pure (if ns = 0 then [] else [("matching_timeout", JV.num ns)])
        | none => throw "parsing duration"
      | _ => throw "matching_timeout arity"
    | _ => throw "duplicate option 'matching_timeout'"
  -- second pass: every named set is parsed (also the unused ones)
  let sets ← named.mapM fun s => do
    if s.args.isEmpty && s.block.isEmpty then throw "empty matcher set"
    let j ← adaptMatcherSet leafM (setEntries s)
    pure (s.name, j)
  -- third pass: routes in order
  let routes ← (rest.filter (·.name == "route")).mapM fun r => do
    let ms ← r.args.mapM fun n => match sets.lookup n with
      | some j => pure j
      | none => throw s!"undefined matcher set '{n}'"
    let hs ← adaptHandlers leafH r.block
    pure (JV.obj (optArr "match" ms ++ optArr "handle" hs))
  pure (optArr "routes" routes ++ timeout)

/-- `Server.UnmarshalCaddyfile` -/
def adaptServer (leafM leafH : LeafFn) (s : Seg) : Except String JV := do
  let fields ← adaptRoutes leafM leafH s.block
  pure (.obj (("listen", .arr ((s.name :: s.args).map .str)) :: fields))

/-- `parseLayer4` over all global `layer4` blocks (they are combined; servers are numbered in order) -/
def adaptApp (leafM leafH : LeafFn) (blocks : List Seg) : Except String JV := do
  match blocks.find? fun b => !b.args.isEmpty with
  | some _ => throw "layer4: no same-line options"
  | none => pure ()
  let servers ← (blocks.flatMap (·.block)).mapM (adaptServer leafM leafH)
  let named := (List.range servers.length).zip servers |>.map fun (i, j) => (s!"srv{i}", j)
  pure (.obj (if named.isEmpty then [] else [("servers", .obj named)]))

end L4.Config

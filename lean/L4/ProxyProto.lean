import L4.Basic
import L4.Gen.Consts
/-!
# PROXY protocol (C12): header grammar v1 / v2 written from the HAProxy specification, allow-list decision
-/
namespace L4.PP
open L4 L4.Gen

structure Addr where
  ip : Bytes        -- 4 (IPv4) or 16 (IPv6) bytes
  port : Nat
  deriving Repr, DecidableEq

inductive Proto | tcp | udp
  deriving Repr, DecidableEq

structure Hdr where
  proto : Proto
  src : Addr
  dst : Addr
  deriving Repr, DecidableEq

def sig : Bytes := l4proxyprotocol_headerV2Prefix

/-- v2 encoder (no TLVs), as `HeaderV2.WriteTo` of the library emits it for TCP/UDP addresses of one family;
mixed families are sent as an address-less header -/
def encV2 (h : Hdr) : Bytes :=
  let pr : Nat := match h.proto with | .tcp => 1 | .udp => 2
  if h.src.ip.length = 4 ∧ h.dst.ip.length = 4 then
    sig ++ [0x21, UInt8.ofNat (0x10 + pr)] ++ toBE 2 12 ++ h.src.ip ++ h.dst.ip ++ toBE 2 h.src.port ++ toBE 2 h.dst.port
  else if h.src.ip.length = 16 ∧ h.dst.ip.length = 16 then
    sig ++ [0x21, UInt8.ofNat (0x20 + pr)] ++ toBE 2 36 ++ h.src.ip ++ h.dst.ip ++ toBE 2 h.src.port ++ toBE 2 h.dst.port
  else sig ++ [0x21, 0x00] ++ toBE 2 0

inductive Parsed
  | proxy (h : Hdr) (len : Nat)      -- addresses declared, total header length
  | local_ (len : Nat)               -- LOCAL / UNSPEC: keep the connection's own addresses
  deriving Repr, DecidableEq

/-- v2 parser written from the specification: signature, version 2, command, family/protocol, length, address block -/
def parseV2 (b : Bytes) : Option Parsed :=
  if b.length < 16 ∨ b.take 12 ≠ sig then none else
  let vc := (b.getD 12 0).toNat
  let fp := (b.getD 13 0).toNat
  let len := be16 (b.getD 14 0) (b.getD 15 0)
  if vc / 16 ≠ 2 ∨ vc % 16 > 1 then none
  else if b.length < 16 + len then none
  else if vc % 16 = 0 then some (.local_ (16 + len))
  else
    let body := (b.drop 16).take len
    let pr? : Option Proto := if fp % 16 = 1 then some .tcp else if fp % 16 = 2 then some .udp else none
    match fp / 16, pr? with
    | 1, some pr =>
      if len < 12 then none else
      some (.proxy { proto := pr, src := ⟨body.take 4, beNat ((body.drop 8).take 2)⟩, dst := ⟨(body.drop 4).take 4, beNat ((body.drop 10).take 2)⟩ } (16 + len))
    | 2, some pr =>
      if len < 36 then none else
      some (.proxy { proto := pr, src := ⟨body.take 16, beNat ((body.drop 32).take 2)⟩, dst := ⟨(body.drop 16).take 16, beNat ((body.drop 34).take 2)⟩ } (16 + len))
    | 0, _ => some (.local_ (16 + len))
    | _, _ => none

/-! ## v1 (text) -/
def digits : Nat → Nat → List Nat
  | 0, _ => []
  | f+1, n => if n < 10 then [n] else digits f (n / 10) ++ [n % 10]

/-- decimal representation (`%d`) -/
def showDec (n : Nat) : Bytes := (digits (n + 1) n).map fun d => UInt8.ofNat (48 + d)

def dotted (ip : Bytes) : Bytes :=
  match ip with
  | [a, b, c, d] => showDec a.toNat ++ [46] ++ showDec b.toNat ++ [46] ++ showDec c.toNat ++ [46] ++ showDec d.toNat
  | _ => []

def str (s : String) : Bytes := s.toUTF8.toList

/-- v1 encoder for TCP over IPv4 (`PROXY TCP4 src dst sport dport\r\n`) -/
def proxyTcp4 : Bytes := [80, 82, 79, 88, 89, 32, 84, 67, 80, 52, 32]   -- "PROXY TCP4 "

def encV1 (h : Hdr) : Bytes :=
  proxyTcp4 ++ dotted h.src.ip ++ [32] ++ dotted h.dst.ip ++ [32] ++ showDec h.src.port ++ [32] ++ showDec h.dst.port ++ [13, 10]

/-! ## allow list: the handler trusts a peer iff no rules are configured or some rule's subnet contains its address
(rules are sorted by prefix length only to pick the timeout) -/
structure Rule where
  is6 : Bool
  addr : Nat
  bits : Nat
  deriving Repr, DecidableEq

def Rule.contains (r : Rule) (is6 : Bool) (ip : Nat) : Bool :=
  r.is6 == is6 && (let w := if is6 then 128 else 32; ip / 2 ^ (w - r.bits) == r.addr / 2 ^ (w - r.bits))

/-- `Handler.newConn ≠ nil` -/
def trusted (rules : List Rule) (is6 : Bool) (ip : Nat) : Bool :=
  rules.isEmpty || rules.any (·.contains is6 ip)

end L4.PP

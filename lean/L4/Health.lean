import L4.Basic
/-!
# Upstream health, failure windows, retries and limits (C11)

Operational model of the accounting in modules/l4proxy: `peer.fails / numConns / unhealthy`, `Handler.countFailure` (count now,
forget after `fail_duration`), `Upstream.healthy / full / available`, the retry loop of `Handler.Handle` gated by
`LoadBalancing.tryAgain`, the counting of proxied connections around `proxy`, and `doActiveHealthCheck`.
Time is a `Nat` (milliseconds); the forgetter goroutines are the `pending` list, fired by `advance` exactly when their
time has come.  Counters are `Int`, as in Go (`int32`): "never negative" is a theorem, not a type.
The selection policy is `first` (the policies themselves are C10's subject).
-/
namespace L4.Health

structure Cfg where
  ups : List (List Nat)      -- upstreams: the peers (ids) of each, in dial order
  maxConns : List Nat        -- per upstream, after Provision (unhealthy_connection_count copied in when 0); 0 = no limit
  passive : Bool             -- HealthChecks.Passive configured
  failDur : Nat              -- fail_duration (ms); 0 = failures are not remembered
  maxFails : Nat             -- after Provision (fail_duration > 0 and max_fails = 0 gives 1)
  tryDur : Nat               -- lb_try_duration (ms)
  tryInt : Nat               -- lb_try_interval (ms), after Provision (250 when try_duration > 0 and interval 0)
  deriving Repr

structure St where
  now : Nat := 0
  fails : Nat → Int := fun _ => 0
  conns : Nat → Int := fun _ => 0
  unhealthy : Nat → Bool := fun _ => false
  pending : List (Nat × Nat) := []     -- forgetters still asleep: (peer, time at which they wake)
  opened : List Nat := []              -- ghost: upstream index of every proxied connection still open
  flog : List (Nat × Nat) := []        -- ghost: every remembered dial failure (peer, time)
  up : Nat → Bool := fun _ => true     -- environment: the peer accepts connections
  sched : List (Nat × Nat × Bool) := [] -- environment: outages / recoveries still to come (time, peer, accepts)

def cnt (l : List (Nat × Nat)) (p : Nat) : Nat := l.countP (fun e => e.1 == p)

/-- time passes until `t`: every forgetter whose time has come decrements its peer's failure count -/
def advance (s : St) (t : Nat) : St :=
  let fired := s.pending.filter (fun e => e.2 ≤ t)
  let due := s.sched.filter (fun e => e.1 ≤ t)
  { s with now := max s.now t, pending := s.pending.filter (fun e => ¬ e.2 ≤ t), fails := fun p => s.fails p - (cnt fired p : Int),
           sched := s.sched.filter (fun e => ¬ e.1 ≤ t), up := due.foldl (fun f e => fun q => if q = e.2.1 then e.2.2 else f q) s.up }

/-- `Handler.countFailure` -/
def countFailure (c : Cfg) (s : St) (p : Nat) : St :=
  if c.passive ∧ c.failDur ≠ 0 then
    { s with fails := fun q => if q = p then s.fails q + 1 else s.fails q, pending := s.pending ++ [(p, s.now + c.failDur)], flog := s.flog ++ [(p, s.now)] }
  else s

def peersOf (c : Cfg) (u : Nat) : List Nat := c.ups.getD u []
def maxOf (c : Cfg) (u : Nat) : Nat := c.maxConns.getD u 0

/-- `Upstream.healthy` -/
def healthy (c : Cfg) (s : St) (u : Nat) : Bool :=
  (peersOf c u).all (fun p => !s.unhealthy p) &&
  (!(c.passive && decide (0 < c.maxFails)) || (peersOf c u).all (fun p => decide (s.fails p < (c.maxFails : Int))))

/-- `Upstream.full` -/
def full (c : Cfg) (s : St) (u : Nat) : Bool :=
  decide (maxOf c u ≠ 0) && (peersOf c u).any (fun p => decide ((maxOf c u : Int) ≤ s.conns p))

def available (c : Cfg) (s : St) (u : Nat) : Bool := healthy c s u && !full c s u

/-- `FirstSelection.Select` -/
def selectFirst (c : Cfg) (s : St) : Option Nat := (List.range c.ups.length).find? (available c s)

/-- `dialPeers`: the peers are dialed in order; the first one that refuses is counted as a failure and ends the attempt -/
def dialPeers (c : Cfg) (s : St) : List Nat → Bool × St
  | [] => (true, s)
  | p :: ps => if s.up p then dialPeers c s ps else (false, countFailure c s p)

def countConns (s : St) (ps : List Nat) (d : Int) : St :=
  { s with conns := fun q => s.conns q + d * (ps.count q : Int) }

inductive Outcome
  | proxied (u : Nat)        -- connected to upstream u; the connection stays open until `close`
  | noUpstream               -- "no upstreams available"
  | dialError                -- the last dial error
  deriving DecidableEq, Repr

/-- the retry loop of `Handle`; `att` collects the instants of the attempts (ghost) -/
def handleLoop (c : Cfg) (start : Nat) : Nat → St → Option Outcome → List Nat → Outcome × St × List Nat
  | 0, s, err, att => (err.getD .noUpstream, s, att)
  | fuel+1, s, err, att =>
    let att := att ++ [s.now]
    match selectFirst c s with
    | none =>
      let err := some (err.getD .noUpstream)
      if c.tryDur ≤ s.now - start then (err.getD .noUpstream, s, att)
      else handleLoop c start fuel (advance s (s.now + c.tryInt)) err att
    | some u =>
      match dialPeers c s (peersOf c u) with
      | (true, s') => (.proxied u, { countConns s' (peersOf c u) 1 with opened := u :: s'.opened }, att)
      | (false, s') =>
        if c.tryDur ≤ s'.now - start then (.dialError, s', att)
        else handleLoop c start fuel (advance s' (s'.now + c.tryInt)) (some .dialError) att

def handleFuel (c : Cfg) : Nat := if c.tryInt = 0 then 1 else c.tryDur / c.tryInt + 2

/-- `Handler.Handle` up to the moment the connection is proxied or refused -/
def handle (c : Cfg) (s : St) : Outcome × St × List Nat := handleLoop c s.now (handleFuel c) s none []

/-- the proxied connection ends: `Handle`'s deferred function gives the counts back -/
def closeConn (c : Cfg) (s : St) (u : Nat) : St :=
  if u ∈ s.opened then { countConns s (peersOf c u) (-1) with opened := s.opened.erase u } else s

/-- `doActiveHealthCheck` -/
def probe (s : St) (p : Nat) : St := { s with unhealthy := fun q => if q = p then !s.up p else s.unhealthy q }

inductive Op
  | advance (t : Nat)
  | handle
  | close (u : Nat)
  | probe (p : Nat)
  | setUp (p : Nat) (b : Bool)
  | plan (t : Nat) (p : Nat) (b : Bool)   -- environment: peer p will start / stop accepting at time t
  deriving Repr

def apply (c : Cfg) (s : St) : Op → St
  | .advance t => advance s t
  | .handle => (handle c s).2.1
  | .close u => closeConn c s u
  | .probe p => probe s p
  | .setUp p b => { s with up := fun q => if q = p then b else s.up q }
  | .plan t p b => { s with sched := s.sched ++ [(t, p, b)] }

def run (c : Cfg) (s : St) (ops : List Op) : St := ops.foldl (apply c) s

end L4.Health

/-! The UDP server loop as it was before the repair (`close(readCh)` in `Close`, closures announced by address): kept only
for the two witness theorems of C09. -/
namespace L4.UdpOld
abbrev Addr := Nat
abbrev Data := Nat
structure PC where
  addr : Addr
  readq : List Data := []
  chClosed : Bool := false
  delivered : List Data := []
  deriving Repr
structure St where
  packets : List (Addr × Data) := []
  closeq : List Addr := []
  assoc : Addr → Option Nat := fun _ => none
  conns : Nat → Option PC := fun _ => none
  nextId : Nat := 0
  crashed : Bool := false
inductive Act
  | arrive (a : Addr) (d : Data) | loopPkt | loopClose | connRead (k : Nat) | closeA (k : Nat) | closeB (k : Nat)
def upd (f : Nat → Option α) (k : Nat) (v : Option α) : Nat → Option α := fun j => if j = k then v else f j
def step (s : St) : Act → Option St
  | .arrive a d => if s.packets.length < 10 then some { s with packets := s.packets ++ [(a, d)] } else none
  | .loopPkt =>
    match s.packets with
    | [] => none
    | (a, d) :: rest =>
      match s.assoc a with
      | none => some { s with packets := rest, assoc := upd s.assoc a (some s.nextId), nextId := s.nextId + 1, conns := upd s.conns s.nextId (some { addr := a, readq := [d] }) }
      | some k =>
        match s.conns k with
        | none => none
        | some pc =>
          if pc.chClosed then some { s with packets := rest, crashed := true }   -- send on closed channel
          else if pc.readq.length < 5 then some { s with packets := rest, conns := upd s.conns k (some { pc with readq := pc.readq ++ [d] }) }
          else none                                                               -- loop blocked
  | .loopClose =>
    match s.closeq with
    | [] => none
    | a :: rest => some { s with closeq := rest, assoc := upd s.assoc a none }
  | .connRead k =>
    match s.conns k with
    | some pc => match pc.readq with
      | d :: r => if pc.chClosed then none else some { s with conns := upd s.conns k (some { pc with readq := r, delivered := pc.delivered ++ [d] }) }
      | [] => none
    | none => none
  | .closeA k =>
    match s.conns k with
    | some pc => if pc.chClosed then none else some { s with conns := upd s.conns k (some { pc with chClosed := true, readq := [] }) }
    | none => none
  | .closeB k =>
    match s.conns k with
    | some pc => if pc.chClosed ∧ s.closeq.length < 10 then some { s with closeq := s.closeq ++ [pc.addr] } else none
    | none => none
def runActs : St → List Act → Option St
  | s, [] => some s
  | s, a :: as => match step s a with | some s' => runActs s' as | none => none
/-- a same-address burst while the handler returns: the loop sends on the closed `readCh` -/
theorem send_on_closed_channel : (runActs {} [.arrive 7 1, .loopPkt, .closeA 0, .arrive 7 2, .loopPkt]).map (·.crashed) = some true := by decide
/-- a late closure notification of an ended association removes the newer association of the same address -/
theorem stale_close_forgets_newer : ((runActs {} [.arrive 7 1, .loopPkt, .connRead 0, .closeA 0, .closeB 0, .loopClose, .arrive 7 2, .loopPkt, .closeB 0, .loopClose]).map (fun s => s.assoc 7)) = some none := by decide

end L4.UdpOld

import L4.Prog
import L4.Gen.Consts
/-!
# Executable models of the small `ReadFull`-only matchers
ssh, xmpp, postgres, socks4, socks5, proxy_protocol, regexp — mirroring the Go code statement by statement;
every index / slice goes through the checked primitives of `Basic.lean` so that panic-freedom is a theorem.
-/
namespace L4.M
open L4

/-! ## ssh — `bytes.Equal(p, sshPrefix)` after `ReadFull(len(sshPrefix))` -/
def ssh : Prog :=
  .readFull Gen.l4ssh_sshPrefix.length fun p => .ret (if p = Gen.l4ssh_sshPrefix then .yes else .no)

/-! ## xmpp — `strings.Contains(string(p), xmppWord)` after `ReadFull(minXmppLength)` -/
def isInfix (w s : Bytes) : Bool :=
  match s with
  | [] => w.isEmpty
  | _ :: t => w.isPrefixOf s || isInfix w t

def xmpp : Prog :=
  .readFull Gen.l4xmpp_minXmppLength fun p => .ret (if isInfix Gen.l4xmpp_xmppWord.toUTF8.toList p then .yes else .no)

/-! ## proxy_protocol matcher -/
def proxyProto : Prog :=
  .readFull Gen.l4proxyprotocol_headerV2Prefix.length fun buf =>
    .ret (if Gen.l4proxyprotocol_headerV1Prefix.isPrefixOf buf then .yes
          else if buf = Gen.l4proxyprotocol_headerV2Prefix then .yes else .no)

/-! ## regexp — the compiled pattern is a parameter `re : Bytes → Bool` (Go's regexp package is trusted) -/
def regexp (count : Nat) (re : Bytes → Bool) : Prog :=
  let count := if count = 0 then Gen.l4regexp_minCount else count
  .readFull count fun buf => .ret (if re buf then .yes else .no)

/-! ## socks5 -/
def socks5 (methods : List Nat) : Prog :=
  let methods := if methods.isEmpty then [0, 1, 2] else methods
  .readFull 1 fun v =>
    if v ≠ [5] then .ret .no else
    .readFull 1 fun n =>
      .readFull (n.headD 0).toNat fun ms =>
        .ret (if ms.all (fun m => methods.contains m.toNat) then .yes else .no)

/-! ## socks4 — commands, ports, networks (CIDR containment over the 32-bit destination address) -/
structure Cidr4 where
  addr : Nat      -- 32-bit network address
  bits : Nat      -- prefix length 0..32
  deriving Repr

def Cidr4.contains (c : Cidr4) (ip : Nat) : Bool :=
  ip / 2 ^ (32 - c.bits) == c.addr / 2 ^ (32 - c.bits)

structure Socks4Cfg where
  commands : List Nat     -- provisioned command codes (default [1, 2])
  ports : List Nat
  cidrs : List Cidr4
  v6only : Bool := false  -- some configured network is IPv6-only: never contains an IPv4 address

def socks4Body (cfg : Socks4Cfg) (buf : Bytes) : Res Verdict := do
  let b0 ← idx buf 0 "socks4.buf[0]"
  if b0 ≠ 4 then return .no
  let b1 ← idx buf 1 "socks4.buf[1]"
  if !cfg.commands.contains b1.toNat then return .no
  if !cfg.ports.isEmpty then
    let p ← slice buf 2 4 "socks4.buf[2:4]"
    if !cfg.ports.contains (beNat p) then return .no
  if !cfg.cidrs.isEmpty || cfg.v6only then
    let a ← slice buf 4 8 "socks4.buf[4:8]"
    if !cfg.cidrs.any (·.contains (beNat a)) then return .no
  return .yes

def socks4 (cfg : Socks4Cfg) : Prog := .readFull 8 fun buf => .ofRes (socks4Body cfg buf)

/-! ## postgres -/

/-- the scanning loop of `message.ReadString`: `for ; end != maximum && b.data[end] != 0; end++ {}` -/
def pgScan (data : Bytes) : Nat → Nat → Res Nat
  | 0, e => .ok e
  | f+1, e =>
    if e = data.length then .ok e else do
      let b ← idx data e "postgres.ReadString.data[end]"
      if b = 0 then .ok e else pgScan data f (e + 1)

/-- `message.ReadString` (after the repair): returns the string and the new offset -/
def pgReadString (data : Bytes) (off : Nat) : Res (Bytes × Nat) :=
  if off ≥ data.length then .ok ([], data.length) else do
    let e ← pgScan data (data.length + 1) off
    let s ← slice data off e "postgres.ReadString.data[offset:end]"
    return (s, e + 1)

/-- the parameter loop; returns the number of parameters stored -/
def pgParams (data : Bytes) : Nat → Nat → Nat → Res Nat
  | 0, _, n => .ok n
  | f+1, off, n => do
    let (k, off1) ← pgReadString data off
    if k.isEmpty then return n
    let (_, off2) ← pgReadString data off1
    pgParams data f off2 (n + 1)

def pgBody (data : Bytes) : Res Verdict := do
  let c ← slice data 0 4 "postgres.ReadUint32"
  let code := beNat c
  if code = Gen.l4postgres_sslRequestCode then return .yes
  if code / 65536 < 3 then .err "pg protocol < 3.0 is not supported" else do
    let n ← pgParams data (data.length + 1) 4 0
    return (if n > 0 then .yes else .no)

def postgres : Prog :=
  .readFull Gen.l4postgres_initMessageSizeLength fun head =>
    let size := beNat head
    if size < Gen.l4postgres_initMessageSizeLength + 4 ∨ size > 2 * Gen.layer4_MaxMatchingBytes then .ret .no
    else .readFull (size - Gen.l4postgres_initMessageSizeLength) fun data => .ofRes (pgBody data)

end L4.M

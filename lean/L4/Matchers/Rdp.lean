import L4.Prog
import L4.Gen.Consts
/-!
# RDP: `MatchRDP.Match` (modules/l4rdp/matcher.go)

`io.ReadFull` of the 11-byte header (TPKT + X.224 CR), of the payload announced by the header, and of one extra byte
whose *absence* is required (the matcher rejects trailing data). The payload is cookie / token / custom info terminated
by CR LF, then an optional RDP_NEG_REQ and RDP_NEG_CORRELATION_INFO.
-/
namespace L4.Rdp
open L4 L4.Gen

/-- a `ReadFull` whose failure is not propagated: the RDP matcher probes for one trailing byte -/
def probe1 (rest : Bytes) : Bool := 1 ≤ rest.length

def strBytes (s : String) : Bytes := s.toUTF8.toList

/-- index+2 of the first CR LF in the payload, 0 if none (the `for index, b := range payloadBuf` loop) -/
def findCRLF (p : Bytes) : Nat → Nat → Res Nat
  | 0, _ => .ok 0
  | f+1, i =>
    if i ≥ p.length then .ok 0 else do
      let b ← idx p i "rdp.payloadBuf[index]"
      if b.toNat = l4rdp_ASCIIByteCR ∧ i + 1 < p.length then
        let b2 ← idx p (i + 1) "rdp.payloadBuf[index+1]"
        if b2.toNat = l4rdp_ASCIIByteLF then return i + 2
        else findCRLF p f (i + 1)
      else findCRLF p f (i + 1)

/-- `strconv.ParseUint(s, 10, bits)`: decimal digits only, non-empty, value < 2^bits -/
def parseDec (s : Bytes) (bits : Nat) : Option Nat :=
  if s.isEmpty ∨ !s.all (fun b => 48 ≤ b.toNat ∧ b.toNat ≤ 57) then none
  else
    let v := s.foldl (fun acc b => acc * 10 + (b.toNat - 48)) 0
    if v < 2 ^ bits then some v else none

/-- `strings.Split(s, ".")` -/
def splitDot (s : Bytes) : List Bytes :=
  let rec go : Bytes → Bytes → List Bytes → List Bytes
    | [], cur, acc => (cur.reverse :: acc).reverse
    | b :: bs, cur, acc => if b.toNat = l4rdp_RDPTokenOptionalCookieSeparator then go bs [] (cur.reverse :: acc) else go bs (b :: cur) acc
  go s [] []

structure Cidr4 where
  addr : Nat
  bits : Nat

def Cidr4.contains (c : Cidr4) (ip : Nat) : Bool := ip / 2 ^ (32 - c.bits) == c.addr / 2 ^ (32 - c.bits)

structure Cfg where
  cookieHash : Bytes := []          -- already truncated to RDPCookieHashBytesMax
  hasCookieRe : Bool := false
  cookieRe : Bytes → Bool := fun _ => true
  cookieIPs : List Cidr4 := []
  cookieIPsV6only : Bool := false   -- only IPv6 prefixes configured: nothing contains an IPv4 address
  cookiePorts : List Nat := []
  customInfo : Bytes := []
  hasCustomRe : Bool := false
  customRe : Bytes → Bool := fun _ => true

def Cfg.hasIPs (c : Cfg) : Bool := !c.cookieIPs.isEmpty || c.cookieIPsV6only

/-- the cookie block (`for RDPNegReqBytesStart >= RDPCookieBytesMin { … break }`) -/
def cookieOk (cfg : Cfg) (p : Bytes) (start : Nat) : Res Bool := do
  if start < l4rdp_RDPCookieBytesMin then return false
  let c ← slice p l4rdp_RDPCookieBytesStart (l4rdp_RDPCookieBytesStart + start) "rdp.payloadBuf[cookie]"
  let pre := strBytes l4rdp_RDPCookiePrefix
  if start > l4rdp_RDPCookieBytesMax ∨ !pre.isPrefixOf c then return false
  let hs := pre.length
  let ht := start - hs - 2
  let hash ← slice c hs (hs + ht) "rdp.c[hash]"
  if !cfg.cookieHash.isEmpty ∧ cfg.cookieHash ≠ hash then return false
  if cfg.hasCookieRe ∧ !cfg.cookieRe hash then return false
  return true

/-- the token block -/
def tokenOk (cfg : Cfg) (p : Bytes) (start : Nat) : Res Bool := do
  if start < l4rdp_RDPTokenBytesMin then return false
  let t ← slice p l4rdp_RDPTokenBytesStart (l4rdp_RDPTokenBytesStart + start) "rdp.payloadBuf[token]"
  -- RDPToken.FromBytes: 11 fixed bytes (big endian), rest optional; cannot fail for ≥ 11 bytes
  let version := (t.getD 0 0).toNat
  let reserved := (t.getD 1 0).toNat
  let length := be16 (t.getD 2 0) (t.getD 3 0)
  let li := (t.getD 4 0).toNat
  let typeCredit := (t.getD 5 0).toNat
  let dstRef := be16 (t.getD 6 0) (t.getD 7 0)
  let srcRef := be16 (t.getD 8 0) (t.getD 9 0)
  let classOpt := (t.getD 10 0).toNat
  let optional := t.drop 11
  if version ≠ l4rdp_RDPTokenVersion ∨ reserved ≠ l4rdp_RDPTokenReserved ∨ length ≠ start ∨
      li ≠ (length + 65536 - 5) % 256 ∨ typeCredit ≠ l4rdp_X224CrqTypeCredit ∨ dstRef ≠ l4rdp_X224CrqDstRef ∨
      srcRef ≠ l4rdp_X224CrqSrcRef ∨ classOpt ≠ l4rdp_X224CrqClassOptions then return false
  let l := length - l4rdp_RDPTokenBytesMin
  if l = 0 then return (!cfg.hasIPs && cfg.cookiePorts.isEmpty)
  if l < 2 then return false
  let ot := l - 2
  if ot < l4rdp_RDPTokenOptionalCookieBytesMin ∨ ot > l4rdp_RDPTokenOptionalCookieBytesMax then return false
  let c ← slice optional l4rdp_RDPTokenOptionalCookieBytesStart ot "rdp.t.Optional[cookie]"
  let pre := strBytes l4rdp_RDPTokenOptionalCookiePrefix
  if !pre.isPrefixOf c then return false
  match splitDot (c.drop pre.length) with
  | [ipS, portS, resS] =>
    if resS ≠ strBytes l4rdp_RDPTokenOptionalCookieReserved then return false
    match parseDec ipS 32, parseDec portS 16 with
    | some ipNum, some portNum =>
      -- little-endian bytes of the number, read back as a big-endian address / port
      let ipVal := beNat (toLE 4 ipNum)
      let portVal := beNat (toLE 2 portNum)
      if cfg.hasIPs ∧ !cfg.cookieIPs.any (·.contains ipVal) then return false
      if !cfg.cookiePorts.isEmpty ∧ !cfg.cookiePorts.contains portVal then return false
      return true
    | _, _ => return false
  | _ => return false

/-- the custom-info block -/
def customOk (cfg : Cfg) (p : Bytes) (start : Nat) : Res Bool := do
  if start < l4rdp_RDPCustomBytesMin then return false
  let c ← slice p l4rdp_RDPCustomBytesStart (l4rdp_RDPCustomBytesStart + start) "rdp.payloadBuf[custom]"
  if start > l4rdp_RDPCustomBytesMax then return false
  let it := start - l4rdp_RDPCustomInfoBytesStart - 2
  let info ← slice c l4rdp_RDPCustomInfoBytesStart (l4rdp_RDPCustomInfoBytesStart + it) "rdp.c[info]"
  if !cfg.customInfo.isEmpty ∧ cfg.customInfo ≠ info then return false
  if cfg.hasCustomRe ∧ !cfg.customRe info then return false
  return true

def bitOr (a b : Nat) : Nat := a ||| b
def bitAnd (a b : Nat) : Nat := a &&& b

/-- the RDP_NEG_CORRELATION_INFO block at `cs` (present when the request's flags announce it) -/
def corrPart (payload : Bytes) (cs total : Nat) : Res Verdict := do
  if cs + l4rdp_RDPCorrInfoBytesTotal > total then return .no
  let ci ← slice payload cs (cs + l4rdp_RDPCorrInfoBytesTotal) "rdp.payloadBuf[corrinfo]"
  -- RDPCorrInfo (little endian): Type u8, Flags u8, Length u16, Identity [16], Reserved [16]
  let cty := (ci.getD 0 0).toNat
  let cfl := (ci.getD 1 0).toNat
  let clen := leNat ((ci.drop 2).take 2)
  let ident := (ci.drop 4).take 16
  let resv := (ci.drop 20).take 16
  if cty ≠ l4rdp_RDPCorrInfoType ∨ cfl ≠ l4rdp_RDPCorrInfoFlags ∨ clen ≠ l4rdp_RDPCorrInfoLength ∨
      (ident.headD 0).toNat = l4rdp_RDPCorrInfoReserved ∨ (ident.headD 0).toNat = l4rdp_RDPCorrInfoIdentityF4 then return .no
  if ident.any (fun b => b.toNat = l4rdp_ASCIIByteCR) then return .no
  if resv.any (fun b => b.toNat ≠ l4rdp_RDPCorrInfoReserved) then return .no
  return .yes

/-- the optional RDP_NEG_REQ at `start` and what follows it -/
def negPart (payload : Bytes) (start total : Nat) : Res Verdict := do
  if start = total then return .yes
  if start + l4rdp_RDPNegReqBytesTotal > total then return .no
  let r ← slice payload start (start + l4rdp_RDPNegReqBytesTotal) "rdp.payloadBuf[negreq]"
  -- RDPNegReq (little endian): Type u8, Flags u8, Length u16, Protocols u32
  let ty := (r.getD 0 0).toNat
  let flags := (r.getD 1 0).toNat
  let len := leNat ((r.drop 2).take 2)
  let protos := leNat ((r.drop 4).take 4)
  if ty ≠ l4rdp_RDPNegReqType ∨ len ≠ l4rdp_RDPNegReqLength ∨ bitOr flags l4rdp_RDPNegReqFlagsAll ≠ l4rdp_RDPNegReqFlagsAll ∨
      bitOr protos l4rdp_RDPNegReqProtocolsAll ≠ l4rdp_RDPNegReqProtocolsAll ∨
      (bitAnd protos l4rdp_RDPNegReqProtoHybridEx = l4rdp_RDPNegReqProtoHybridEx ∧ bitAnd protos l4rdp_RDPNegReqProtoHybrid = 0) ∨
      (bitAnd protos l4rdp_RDPNegReqProtoHybrid = l4rdp_RDPNegReqProtoHybrid ∧ bitAnd protos l4rdp_RDPNegReqProtoSSL = 0) then
    return .no
  if bitAnd flags l4rdp_RDPNegReqFlagCorrInfo = 0 then
    return (if start + l4rdp_RDPNegReqBytesTotal < total then .no else .yes)
  corrPart payload (start + l4rdp_RDPNegReqBytesTotal) total

/-- the token block is only looked at when no cookie was found -/
def tokenStep (cfg : Cfg) (p : Bytes) (start : Nat) (hasCookie : Bool) : Res Bool :=
  if !hasCookie then tokenOk cfg p start else pure false

/-- the custom-info block is only looked at when neither a cookie nor a token was found -/
def customStep (cfg : Cfg) (p : Bytes) (start : Nat) (hasCookie hasToken : Bool) : Res Bool :=
  if !(hasCookie || hasToken) then customOk cfg p start else pure false

/-- everything after the three reads: `payload` has the announced length, `extra` tells whether a trailing byte exists -/
def body (cfg : Cfg) (payload : Bytes) (extra : Bool) : Res Verdict := do
  if extra then return .no
  let total := payload.length
  let start ← findCRLF payload (payload.length + 1) 0
  let hasCookie ← cookieOk cfg payload start
  if !hasCookie ∧ (!cfg.cookieHash.isEmpty ∨ cfg.hasCookieRe) then return .no
  let hasToken ← tokenStep cfg payload start hasCookie
  if !hasToken ∧ (cfg.hasIPs ∨ !cfg.cookiePorts.isEmpty) then return .no
  let hasCustom ← customStep cfg payload start hasCookie hasToken
  if !hasCustom ∧ (!cfg.customInfo.isEmpty ∨ cfg.hasCustomRe) then return .no
  if start > 0 ∧ !hasCookie ∧ !hasToken ∧ !hasCustom then return .no
  negPart payload start total

/-- header checks; returns the payload length to read -/
def header (h : Bytes) : Res (Option Nat) := do
  let tp ← slice h l4rdp_TPKTHeaderBytesStart (l4rdp_TPKTHeaderBytesStart + l4rdp_TPKTHeaderBytesTotal) "rdp.headerBuf[tpkt]"
  let version := (tp.getD 0 0).toNat
  let reserved := (tp.getD 1 0).toNat
  let hlen := be16 (tp.getD 2 0) (tp.getD 3 0)
  if version ≠ l4rdp_TPKTHeaderVersion ∨ reserved ≠ l4rdp_TPKTHeaderReserved ∨ hlen < l4rdp_RDPConnReqBytesMin ∨
      hlen > l4rdp_RDPConnReqBytesMax then return none
  let x ← slice h l4rdp_X224CrqBytesStart (l4rdp_X224CrqBytesStart + l4rdp_X224CrqBytesTotal) "rdp.headerBuf[x224]"
  let xlen := (x.getD 0 0).toNat
  let typeCredit := (x.getD 1 0).toNat
  let dstRef := be16 (x.getD 2 0) (x.getD 3 0)
  let srcRef := be16 (x.getD 4 0) (x.getD 5 0)
  let classOpt := (x.getD 6 0).toNat
  if typeCredit ≠ l4rdp_X224CrqTypeCredit ∨ dstRef ≠ l4rdp_X224CrqDstRef ∨ srcRef ≠ l4rdp_X224CrqSrcRef ∨
      classOpt ≠ l4rdp_X224CrqClassOptions ∨ xlen ≠ hlen - l4rdp_TPKTHeaderBytesTotal - 1 then return none
  let payloadTotal := xlen - (l4rdp_X224CrqBytesTotal - 1)
  if payloadTotal = 0 then return none
  return some payloadTotal

/-- `MatchRDP.Match` on the bytes available for matching (the third read is a probe, so this is not a `Prog`) -/
def matcher (cfg : Cfg) (bs : Bytes) : Verdict :=
  if bs.length < l4rdp_RDPConnReqBytesMin then .more else
  match header (bs.take l4rdp_RDPConnReqBytesMin) with
  | .panic _ => .panic
  | .err _ => .fail
  | .ok none => .no
  | .ok (some n) =>
    let rest := bs.drop l4rdp_RDPConnReqBytesMin
    if rest.length < n then .more else
    match body cfg (rest.take n) (probe1 (rest.drop n)) with
    | .ok v => v
    | .err _ => .fail
    | .panic _ => .panic

end L4.Rdp

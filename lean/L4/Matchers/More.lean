import L4.Prog
import L4.Gen.Consts
/-!
# TLS record framing, DNS framing + decision table, OpenVPN framing + plain mode, HTTP request-line test, clock, IP
Third-party parsers (`crypto/cryptobyte` results used by sub-matchers, `miekg/dns` Unpack, `net/http.ReadRequest`) are
parameters of these models.
-/
namespace L4.M
open L4 L4.Gen

/-! ## tls: record header, then the whole record; `sub` is the conjunction of the handshake sub-matchers on the parsed hello -/
def tls (sub : Bytes → Bool) : Prog :=
  .readFull 5 fun hdr =>
    if (hdr.headD 0).toNat ≠ 0x16 then .ret .no else
    .readFull (be16 (hdr.getD 3 0) (hdr.getD 4 0)) fun raw => .ret (if sub raw then .yes else .no)

/-! ## dns -/
structure DnsQ where
  classFound : Bool
  typeFound : Bool
  denied : Bool
  allowed : Bool
  deriving Repr

/-- what `dns.Msg.Unpack` + `Len()` report (parameter) -/
structure DnsMsg where
  len : Nat
  qs : List DnsQ
  response : Bool
  rcodeOk : Bool
  zero : Bool
  deriving Repr

structure DnsCfg where
  hasAllow : Bool
  hasDeny : Bool
  preferAllow : Bool
  defaultDeny : Bool

/-- the per-question decision of `MatchDNS.Match`; `true` = rejected -/
def dnsReject (cfg : DnsCfg) (q : DnsQ) : Bool :=
  if !q.classFound then true
  else if !q.typeFound then true
  else if !cfg.hasAllow && cfg.hasDeny && q.denied then true
  else if !cfg.hasDeny && cfg.hasAllow && !q.allowed then true
  else if q.denied then (!q.allowed || !cfg.preferAllow)
  else (!q.allowed && cfg.defaultDeny)

def dnsDecide (cfg : DnsCfg) (msgBytes : Nat) (m : Option DnsMsg) : Verdict :=
  match m with
  | none => .no
  | some m =>
    if m.len ≠ msgBytes then .no
    else if m.qs.isEmpty ∨ m.response ∨ !m.rcodeOk ∨ m.zero then .no
    else if (cfg.hasAllow ∨ cfg.hasDeny) ∧ m.qs.any (dnsReject cfg) then .no
    else .yes

def dnsMaxMsgSize : Nat := 65535

/-- TCP framing: 2-byte length, the message, and a probe for a trailing byte -/
def dnsTcp (cfg : DnsCfg) (unpack : Bytes → Option DnsMsg) (bs : Bytes) : Verdict :=
  if bs.length < 2 then .more else
  let n := be16 (bs.getD 0 0) (bs.getD 1 0)
  if n < l4dns_dnsHeaderBytes ∨ n > dnsMaxMsgSize then .no else
  let rest := bs.drop 2
  if rest.length < n then .more
  else if rest.length > n then .no
  else dnsDecide cfg n (unpack (rest.take n))

/-- UDP: the whole datagram (at least a header) -/
def dnsUdp (cfg : DnsCfg) (unpack : Bytes → Option DnsMsg) (bs : Bytes) : Verdict :=
  if bs.length < l4dns_dnsHeaderBytes then .more
  else if bs.length > dnsMaxMsgSize then .no
  else dnsDecide cfg (bs.length % 65536) (unpack bs)

/-! ## openvpn: framing and plain mode; the keyed modes are parameters -/
structure OvpnCfg where
  plain : Bool
  auth : Bool
  crypt : Bool
  crypt2 : Bool
  authOk : Bytes → Bool := fun _ => false
  cryptOk : Bytes → Bool := fun _ => false
  crypt2Ok : Bytes → Bool := fun _ => false

/-- `MessagePlain.FromBytesHeadless` + `Match` -/
def ovpnPlainOk (b : Bytes) : Bool :=
  b.length == l4openvpn_MessagePlainBytesTotalHL &&
  beNat (b.take l4openvpn_SessionIDBytesTotal) > 0 && (b.getD l4openvpn_SessionIDBytesTotal 0).toNat == 0 &&
  beNat (b.drop (b.length - l4openvpn_PacketIDBytesTotal)) == 0

def ovpnTry (cfg : OvpnCfg) (b : Bytes) : Bool :=
  (cfg.plain && ovpnPlainOk b) || (cfg.auth && cfg.authOk b) || (cfg.crypt && cfg.cryptOk b)

/-- the P_CONTROL_HARD_RESET_CLIENT_V3 (tls-crypt-v2) branch, also tried when a V2 message matched no enabled mode -/
def ovpnV3 (cfg : OvpnCfg) (isTcp : Bool) (l opcode : Nat) : Prog :=
  if opcode = l4openvpn_OpcodeControlHardResetClientV3 ∧ cfg.crypt2 then
    if isTcp then
      if l < l4openvpn_MessageCrypt2BytesMin then .ret .no else
      .readAtLeast (l - 1 + 1) (l - 1) fun b =>
        if b.length > l - 1 then .ret .no else .ret (if cfg.crypt2Ok b then .yes else .no)
    else
      .readAtLeast (l4openvpn_MessageCrypt2BytesMaxHL + 1) 1 fun b =>
        if b.length < l4openvpn_MessageCrypt2BytesMinHL ∨ b.length > l4openvpn_MessageCrypt2BytesMaxHL then .ret .no
        else .ret (if cfg.crypt2Ok b then .yes else .no)
  else .ret .no

/-- after the opcode byte: `l` is the TCP length field (0 for UDP) -/
def ovpnBody (cfg : OvpnCfg) (isTcp : Bool) (l : Nat) (op : UInt8) : Prog :=
  let keyId := op.toNat % 8
  let opcode := op.toNat / 8
  if keyId > 0 then .ret .no else
  if opcode = l4openvpn_OpcodeControlHardResetClientV2 ∧ (cfg.plain ∨ cfg.auth ∨ cfg.crypt) then
    if isTcp then
      if l > l4openvpn_MessageAuthBytesMax then .ret .no else
      .readAtLeast (l - 1 + 1) (l - 1) fun b =>
        if b.length > l - 1 then .ret .no
        else if ovpnTry cfg b then .ret .yes else ovpnV3 cfg isTcp l opcode
    else
      .readAtLeast (l4openvpn_MessageAuthBytesMaxHL + 1) 1 fun b =>
        if b.length < l4openvpn_MessagePlainBytesTotalHL ∨ b.length > l4openvpn_MessageAuthBytesMaxHL then .ret .no
        else if ovpnTry cfg b then .ret .yes else ovpnV3 cfg isTcp l opcode
  else ovpnV3 cfg isTcp l opcode

def openvpn (cfg : OvpnCfg) (isTcp : Bool) : Prog :=
  if isTcp then
    .readFull l4openvpn_LengthBytesTotal fun lb =>
      let l := beNat lb
      if l < l4openvpn_MessagePlainBytesTotal ∨ l > l4openvpn_MessageCrypt2BytesMax then .ret .no
      else .readFull 1 fun o => ovpnBody cfg true l (o.headD 0)
  else .readFull 1 fun o => ovpnBody cfg false 0 (o.headD 0)

/-! ## http: `isHttp` on the matching bytes; the request parser and the sub-matchers are a parameter -/
def indexOf (b : UInt8) : Bytes → Nat → Option Nat
  | [], _ => none
  | x :: xs, i => if x = b then some i else indexOf b xs (i + 1)

/-- `(needMore, matched)` -/
def isHttp (data : Bytes) : Res (Bool × Bool) :=
  match indexOf 0x0a data 0 with
  | none => .ok (true, false)
  | some i =>
    if i < 10 then .ok (true, false) else do
      let cr ← idx data (i - 1) "http.data[i-1]"
      let (s, e) := if cr = 0x0d then (i - 9 - 1, i - 3 - 1) else (i - 9, i - 3)
      let w ← slice data s e "http.data[start:end]"
      return (false, w = " HTTP/".toUTF8.toList)

def http (parse : Bytes → Verdict) (data : Bytes) : Verdict :=
  match isHttp data with
  | .panic _ => .panic
  | .err _ => .fail
  | .ok (true, _) => if data.length ≥ layer4_MaxMatchingBytes then .fail else .more
  | .ok (false, false) => .no
  | .ok (false, true) => parse data

/-! ## clock: seconds of the day in the configured zone within [after, before) after normalisation -/
def clockNorm (after before : Nat) : Nat × Nat :=
  let before := if before = 0 then 86400 else before
  if before < after then (before, after) else (after, before)

def clock (after before now : Nat) : Verdict :=
  let (a, b) := clockNorm after before
  if a ≤ now ∧ now < b then .yes else .no

/-! ## remote_ip / local_ip: first containing prefix; addresses as (is6, value) -/
structure Prefix where
  is6 : Bool
  addr : Nat
  bits : Nat

def Prefix.contains (p : Prefix) (is6 : Bool) (ip : Nat) : Bool :=
  p.is6 == is6 && (let w := if is6 then 128 else 32; ip / 2 ^ (w - p.bits) == p.addr / 2 ^ (w - p.bits))

def ipMatch (ps : List Prefix) (is6 : Bool) (ip : Nat) : Verdict :=
  if ps.any (·.contains is6 ip) then .yes else .no

end L4.M

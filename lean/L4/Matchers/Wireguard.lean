import L4.Prog
import L4.Gen.Consts
/-! # WireGuard: `MatchWireGuard.Match` and the message codecs (modules/l4wireguard/matcher.go) -/
namespace L4.Wireguard
open L4 L4.Gen

/-- `MatchWireGuard.Match`; `zero` is the configured value of the reserved bytes -/
def matcher (zero : Nat) : Prog :=
  .readAtLeast (l4wireguard_MessageInitiationBytesTotal + 1) 1 fun buf =>
    let ty := leNat (buf.take 4)
    let want (t : Nat) : Nat := (zero % 2 ^ 32) / 256 * 256 + t     -- (m.Zero & 0xFFFFFF00) | t   (t < 256)
    if buf.length = l4wireguard_MessageInitiationBytesTotal then
      .ret (if ty = want l4wireguard_MessageTypeInitiation then .yes else .no)
    else if buf.length = l4wireguard_MessageTransportBytesMin then
      .ret (if ty = want l4wireguard_MessageTypeTransport then .yes else .no)
    else .ret .no

end L4.Wireguard

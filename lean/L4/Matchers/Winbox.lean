import L4.Prog
import L4.Gen.Consts
/-!
# WinBox: `MatchWinbox.Match`, `MessageAuth.FromBytes/FromChunks/ToChunks/ToBytes` (modules/l4winbox/matcher.go)
-/
namespace L4.Winbox
open L4 L4.Gen

def isAlnum (b : UInt8) : Bool :=
  (48 ≤ b.toNat && b.toNat ≤ 57) || (65 ≤ b.toNat && b.toNat ≤ 90) || (97 ≤ b.toNat && b.toNat ≤ 122)

/-- `[-#.0-9@A-Z_a-z]` -/
def isMid (b : UInt8) : Bool :=
  isAlnum b || b.toNat == 45 || b.toNat == 35 || b.toNat == 46 || b.toNat == 64 || b.toNat == 95

/-- `MessageAuthUsernameRegexp = ^[0-9A-Za-z](?:[-#.0-9@A-Z_a-z]+[0-9A-Za-z])?$` -/
def userOk (u : Bytes) : Bool :=
  match u with
  | [] => false
  | [a] => isAlnum a
  | a :: rest => isAlnum a && rest.length ≥ 2 && isAlnum (rest.getLast!) && rest.dropLast.all isMid

structure Msg where
  parity : UInt8
  pk : Bytes
  user : Bytes
  deriving Repr, DecidableEq

def romonSuffix : Bytes := l4winbox_MessageAuthUsernameRoMONSuffix.toUTF8.toList

def hasSuffix (s suf : Bytes) : Bool := suf.length ≤ s.length && s.drop (s.length - suf.length) == suf

def Msg.romon (m : Msg) : Bool := hasSuffix m.user romonSuffix
def Msg.username (m : Msg) : Bytes := if m.romon then m.user.take (m.user.length - romonSuffix.length) else m.user

structure Chunk where
  bytes : Bytes
  len : Nat
  ty : Nat
  deriving Repr, DecidableEq

/-- index of the first delimiter -/
def findDelim : Bytes → Nat → Option Nat
  | [], _ => none
  | b :: bs, i => if b.toNat = l4winbox_MessageChunkBytesDelimiter then some i else findDelim bs (i + 1)

/-- `MessageAuth.FromChunks` -/
def fromChunks (chunks : List Chunk) : Res Msg := do
  if chunks.any (fun c => c.ty ≠ l4winbox_MessageChunkTypeAuth ∧ c.ty ≠ l4winbox_MessageChunkTypePrev) then
    .err "incorrect"
  else
    let src := (chunks.map fun c => c.bytes.take (min c.len c.bytes.length)).flatten
    match findDelim src 0 with
    | none => .err "incorrect"
    | some i =>
      if i = src.length - 1 then .err "incorrect"   -- no room for the parity byte
      else do
        let user ← slice src 0 i "winbox.src[:i]"
        let pk ← slice src (i + 1) (src.length - 1) "winbox.src[i+1:len-1]"
        let par ← idx src (src.length - 1) "winbox.src[len-1]"
        let m : Msg := { parity := par, pk := pk, user := user }
        if user.isEmpty ∨ pk.length ≠ l4winbox_MessageAuthPublicKeyBytesTotal ∨ par.toNat > 1 ∨ !userOk m.username then
          .err "incorrect"
        else return m

/-- the chunk loop of `MessageAuth.FromBytes` (after the repair: `q = ⌈l / 257⌉`) -/
def chunkLoop (src : Bytes) (q : Nat) : Nat → Nat → List Chunk → Res (List Chunk)
  | 0, _, acc => .ok acc.reverse
  | f+1, i, acc =>
    if i ≥ q then .ok acc.reverse else do
      let p := i * (l4winbox_MessageChunkBytesMax + 2)
      let len ← idx src p "winbox.src[p]"
      if (q > 1 ∧ i < q - 1 ∧ len.toNat ≠ l4winbox_MessageChunkBytesMax) ∨ src.length < p + 2 + len.toNat ∨
          (i = q - 1 ∧ src.length ≠ p + 2 + len.toNat) ∨
          len.toNat < l4winbox_MessageChunkBytesMin then .err "incorrect"
      else do
        let ty ← idx src (p + 1) "winbox.src[p+1]"
        if (i = 0 ∧ ty.toNat ≠ l4winbox_MessageChunkTypeAuth) ∨ (i > 0 ∧ ty.toNat ≠ l4winbox_MessageChunkTypePrev) then
          .err "incorrect"
        else do
          let b ← slice src (p + 2) (p + 2 + len.toNat) "winbox.src[p+2:p+2+len]"
          chunkLoop src q f (i + 1) ({ bytes := b, len := len.toNat, ty := ty.toNat } :: acc)

def fromBytes (src : Bytes) : Res Msg := do
  if src.length < l4winbox_MessageAuthBytesMin then .err "not enough" else
  let q := (src.length + l4winbox_MessageChunkBytesMax + 1) / (l4winbox_MessageChunkBytesMax + 2)
  let chunks ← chunkLoop src q q 0 []
  fromChunks chunks

/-- `MessageAuth.ToChunks` -/
def toChunksLoop (dst : Bytes) (l q : Nat) : Nat → Nat → List Chunk → List Chunk
  | 0, _, acc => acc.reverse
  | f+1, i, acc =>
    if i ≥ q then acc.reverse else
    let p := i * l4winbox_MessageChunkBytesMax
    let ll := min l4winbox_MessageChunkBytesMax (l - p)
    if ll = 0 then acc.reverse else
    let ty := if i = 0 then l4winbox_MessageChunkTypeAuth else l4winbox_MessageChunkTypePrev
    toChunksLoop dst l q f (i + 1) ({ bytes := (dst.drop p).take ll, len := ll % 256, ty := ty } :: acc)

def toChunks (m : Msg) : List Chunk :=
  let dst := m.user ++ [UInt8.ofNat l4winbox_MessageChunkBytesDelimiter] ++ m.pk ++ [m.parity]
  let l := m.pk.length + m.user.length + 2
  let q := l / l4winbox_MessageChunkBytesMax + 1
  toChunksLoop dst l q q 0 []

def toBytes (m : Msg) : Bytes :=
  ((toChunks m).map fun c => [UInt8.ofNat c.len, UInt8.ofNat c.ty] ++ c.bytes).flatten

structure Cfg where
  standard : Bool
  romon : Bool
  /-- configured exact user name (empty = none) -/
  username : Bytes
  /-- a username regexp is configured -/
  hasRe : Bool
  /-- the configured regexp (parameter: Go's regexp package) -/
  re : Bytes → Bool

/-- the decision after `FromBytes` -/
def decideMsg (cfg : Cfg) : Res Msg → Verdict
  | .panic _ => .panic
  | .err _ => .no
  | .ok msg =>
    if msg.romon ∧ !cfg.romon then .no
    else if !msg.romon ∧ !cfg.standard then .no
    else if !cfg.username.isEmpty ∧ cfg.username ≠ msg.username then .no
    else if cfg.username.isEmpty ∧ cfg.hasRe ∧ !cfg.re msg.username then .no
    else .yes

/-- bytes wanted after the 2-byte header: the first chunk, or everything a two-chunk message can hold -/
def wanted (h0 : Nat) : Nat := if h0 = l4winbox_MessageChunkBytesMax then l4winbox_MessageAuthBytesMax - 2 else h0

/-- the wait for the second chunk: `got` starts with a full first chunk that is not a message on its own -/
def secondChunk (cfg : Cfg) (hdr got : Bytes) (h0 : Nat) : Verdict :=
  if got.length < l4winbox_MessageChunkBytesMax + 2 then .more
  else if l4winbox_MessageChunkBytesMax + 2 + (got.getD l4winbox_MessageChunkBytesMax 0).toNat > wanted h0 then .no
  else if got.length < l4winbox_MessageChunkBytesMax + 2 + (got.getD l4winbox_MessageChunkBytesMax 0).toNat then .more
  else decideMsg cfg (fromBytes (hdr ++ got))

/-- the delimiter comes so early in a full first chunk that key and parity byte had to fit into it as well -/
def earlyDelim (p : Bytes) : Bool :=
  match findDelim p 0 with
  | some i => i + l4winbox_MessageAuthPublicKeyBytesTotal + 2 ≤ l4winbox_MessageChunkBytesMax
  | none => false

/-- what `Match` answers once `ReadAtLeast` has delivered `got` (at least `h0` bytes, at most `wanted h0 + 1`).
A full first chunk that is not a message on its own has to be followed by a second one: while that one is incomplete
the answer is "need more", not "no". -/
def afterRead (cfg : Cfg) (hdr got : Bytes) (h0 : Nat) : Verdict :=
  if got.length > wanted h0 then .no
  else if h0 = l4winbox_MessageChunkBytesMax then
    match fromBytes (hdr ++ got.take l4winbox_MessageChunkBytesMax) with
    | .panic _ => .panic
    | .err _ => if earlyDelim (got.take l4winbox_MessageChunkBytesMax) then .no else secondChunk cfg hdr got h0
    | .ok _ => decideMsg cfg (fromBytes (hdr ++ got))
  else decideMsg cfg (fromBytes (hdr ++ got))

/-- `MatchWinbox.Match` -/
def matcher (cfg : Cfg) : Prog :=
  .readFull 2 fun hdr =>
    let h0 := (hdr.headD 0).toNat
    let h1 := (hdr.getD 1 0).toNat
    if h0 < l4winbox_MessageAuthBytesMin - 2 ∨ h1 ≠ l4winbox_MessageChunkTypeAuth then .ret .no else
    .readAtLeast (wanted h0 + 1) h0 fun got => .ret (afterRead cfg hdr got h0)

/-- `MatchWinbox.Match` as it was before the repair: a fragment of a two-chunk message was answered with "no".
Kept for the witness theorem only. -/
def matcherOld (cfg : Cfg) : Prog :=
  .readFull 2 fun hdr =>
    let h0 := (hdr.headD 0).toNat
    let h1 := (hdr.getD 1 0).toNat
    if h0 < l4winbox_MessageAuthBytesMin - 2 ∨ h1 ≠ l4winbox_MessageChunkTypeAuth then .ret .no else
    .readAtLeast (wanted h0 + 1) h0 fun got =>
      .ret (if got.length > wanted h0 then .no else decideMsg cfg (fromBytes (hdr ++ got)))

end L4.Winbox

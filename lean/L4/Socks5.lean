import L4.Basic
/-!
# SOCKS5 handler (C16): `Socks5Handler.Provision` + the server dialogue of things-go/go-socks5 as the handler configures it

The handler's own logic is `Provision`: which commands the rule permits and whether user/password authentication is
required; the dialogue (method negotiation, RFC 1929 sub-negotiation, request dispatch) is the library's and is validated by
the differential, not proved against its source.
-/
namespace L4.Socks5

structure Cfg where
  /-- provisioned command codes (1 CONNECT, 2 BIND, 3 ASSOCIATE); `none` = a configured command is unknown (Provision fails) -/
  commandsRaw : List (Option Nat)
  /-- configured credentials after placeholder replacement (names may be empty) -/
  credentials : List (Bytes × Bytes)
  deriving Repr

structure Rule where
  connect : Bool
  bind : Bool
  associate : Bool
  deriving Repr, DecidableEq

/-- `Provision`: no commands configured = CONNECT + ASSOCIATE; otherwise exactly the configured ones -/
def rule (c : Cfg) : Option Rule :=
  if c.commandsRaw.isEmpty then some ⟨true, false, true⟩
  else if c.commandsRaw.any (·.isNone) then none
  else some ⟨c.commandsRaw.contains (some 1), c.commandsRaw.contains (some 2), c.commandsRaw.contains (some 3)⟩

/-- authentication is required as soon as any credentials entry is configured … -/
def authRequired (c : Cfg) : Bool := !c.credentials.isEmpty
/-- … and only entries with a non-empty user name can authenticate -/
def validLogin (c : Cfg) (user pass : Bytes) : Bool :=
  !user.isEmpty && c.credentials.any (fun e => e.1 == user && e.2 == pass)

structure Client where
  methods : List Nat            -- offered in the greeting
  login : Option (Bytes × Bytes)   -- RFC 1929 user / password sent if method 2 is selected
  cmd : Nat
  atypOk : Bool                 -- the request's address type is one the protocol defines
  deriving Repr

inductive Outcome
  | provisionError
  | noAcceptableMethod          -- reply 05 FF
  | authFailed                  -- reply 01 01
  | addrTypeNotSupported        -- reply 08
  | commandNotSupported         -- reply 07
  | ruleFailure                 -- reply 02
  | act (cmd : Nat)             -- an outbound connection / listener is created for this command
  deriving Repr, DecidableEq

def allowed (r : Rule) (cmd : Nat) : Bool :=
  (cmd == 1 && r.connect) || (cmd == 2 && r.bind) || (cmd == 3 && r.associate)

def methodOk (c : Cfg) (cl : Client) : Bool := if authRequired c then cl.methods.contains 2 else cl.methods.contains 0

def loginOk (c : Cfg) (cl : Client) : Bool :=
  !authRequired c || (match cl.login with | some (u, p) => validLogin c u p | none => false)

def serveWith (r : Rule) (c : Cfg) (cl : Client) : Outcome :=
  if !methodOk c cl then .noAcceptableMethod
  else if !loginOk c cl then .authFailed
  else if !cl.atypOk then .addrTypeNotSupported
  else if cl.cmd ≠ 1 ∧ cl.cmd ≠ 2 ∧ cl.cmd ≠ 3 then .commandNotSupported
  else if !allowed r cl.cmd then .ruleFailure
  else if cl.cmd = 2 then .commandNotSupported      -- the library has no BIND implementation: refused after the rule check
  else .act cl.cmd

def serve (c : Cfg) (cl : Client) : Outcome :=
  match rule c with
  | none => .provisionError
  | some r => serveWith r c cl

end L4.Socks5

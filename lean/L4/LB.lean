import L4.Basic
/-!
# Load-balancing selection policies (C10): modules/l4proxy/loadbalancing.go, upstream.go

A pool is a list of upstreams; availability is computed from the peers exactly as `Upstream.available`.
Randomness is an explicit oracle: a list of naturals consumed left to right (`Int()` = the value, `Intn(n)` = value mod n),
so every theorem holds for every outcome of the random source.
-/
namespace L4.LB

structure Peer where
  unhealthy : Bool
  fails : Nat
  conns : Nat
  deriving Repr, DecidableEq

structure Upstream where
  name : Bytes            -- `Upstream.String()`: the dial addresses joined by ","
  peers : List Peer
  maxConns : Nat          -- 0 = unlimited
  maxFails : Nat          -- 0 = passive health checks do not limit failures
  deriving Repr, DecidableEq

def Upstream.healthy (u : Upstream) : Bool :=
  u.peers.all (fun p => !p.unhealthy) && (u.maxFails == 0 || u.peers.all (fun p => p.fails < u.maxFails))

def Upstream.full (u : Upstream) : Bool :=
  u.maxConns != 0 && u.peers.any (fun p => p.conns ≥ u.maxConns)

def Upstream.available (u : Upstream) : Bool := u.healthy && !u.full

def Upstream.totalConns (u : Upstream) : Nat := (u.peers.map (·.conns)).sum

instance : Inhabited Upstream := ⟨{ name := [], peers := [], maxConns := 0, maxFails := 0 }⟩

abbrev Pool := List Upstream

/-- next value of the random source (0 when the scripted oracle is exhausted) -/
def rnd (o : List Nat) : Nat × List Nat :=
  match o with
  | [] => (0, [])
  | x :: xs => (x, xs)

/-! ## first -/
def first (pool : Pool) : Option Upstream := pool.find? (·.available)

/-! ## random: reservoir of size one over the available upstreams -/
def randomAux : Pool → Nat → Option Upstream → List Nat → Option Upstream
  | [], _, cur, _ => cur
  | u :: us, count, cur, o =>
    if !u.available then randomAux us count cur o
    else
      let (x, o') := rnd o
      if x % (count + 1) = 0 then randomAux us (count + 1) (some u) o' else randomAux us (count + 1) cur o'

def random (pool : Pool) (o : List Nat) : Option Upstream := randomAux pool 0 none o

/-! ## least_conn: uniformly among the available upstreams with the fewest connections -/
def leastConnAux : Pool → Option Nat → Nat → Option Upstream → List Nat → Option Upstream
  | [], _, _, best, _ => best
  | u :: us, least, count, best, o =>
    if !u.available then leastConnAux us least count best o
    else
      let t := u.totalConns
      let (least', count') := match least with
        | none => (t, 0)
        | some l => if t < l then (t, 0) else (l, count)
      if t = least' then
        let (x, o') := rnd o
        if x % (count' + 1) = 0 then leastConnAux us (some least') (count' + 1) (some u) o'
        else leastConnAux us (some least') (count' + 1) best o'
      else leastConnAux us (some least') count' best o

def leastConn (pool : Pool) (o : List Nat) : Option Upstream := leastConnAux pool none 0 none o

/-! ## round_robin: the counter is incremented before every probe; the probes visit n consecutive slots starting at the
slot the first increment designates (after the repair: a counter wrap can no longer make a slot be skipped) -/
def rrAux (pool : Pool) (n first : Nat) : Nat → Nat → Nat → Option Upstream × Nat
  | 0, _, robin => (none, robin)
  | k+1, i, robin =>
    let robin' := (robin + 1) % 2 ^ 32
    match pool[(first + i) % n]? with
    | some h => if h.available then (some h, robin') else rrAux pool n first k (i + 1) robin'
    | none => (none, robin')

/-- returns the chosen upstream and the new counter -/
def roundRobin (pool : Pool) (robin : Nat) : Option Upstream × Nat :=
  if pool.length = 0 then (none, robin)
  else rrAux pool pool.length (((robin + 1) % 2 ^ 32) % pool.length) pool.length 0 robin

/-! ## ip_hash: highest random weight (rendezvous) hashing with FNV-1a 32 -/
def fnv32a (b : Bytes) : Nat :=
  b.foldl (fun h x => ((h ^^^ x.toNat) * 16777619) % 2 ^ 32) 2166136261

def hrwAux : Pool → Bytes → Option (Upstream × Nat) → Option (Upstream × Nat)
  | [], _, best => best
  | u :: us, s, best =>
    if !u.available then hrwAux us s best
    else
      let h := fnv32a (u.name ++ s)
      match best with
      | none => hrwAux us s (some (u, h))
      | some (_, hb) => if h > hb then hrwAux us s (some (u, h)) else hrwAux us s best

def ipHash (pool : Pool) (ip : Bytes) : Option Upstream := (hrwAux pool ip none).map (·.1)

/-! ## random_choose k: reservoir of size k over the available upstreams, then least connections among them -/
def reservoir (k : Nat) : Pool → Nat → List Upstream → List Nat → List Upstream × List Nat
  | [], _, ch, o => (ch, o)
  | u :: us, seen, ch, o =>
    if !u.available then reservoir k us seen ch o
    else if ch.length < k then reservoir k us (seen + 1) (ch ++ [u]) o
    else
      let (x, o') := rnd o
      let j := x % (seen + 1)
      if j < k then reservoir k us (seen + 1) (ch.set j u) o' else reservoir k us (seen + 1) ch o'

/-- `leastConns(choices)`: the first candidate without connections, else uniformly among those with the fewest -/
def leastConnsOf (ch : List Upstream) (o : List Nat) : Option Upstream :=
  match ch.find? (fun u => u.totalConns = 0) with
  | some u => some u
  | none =>
    match ch with
    | [] => none
    | _ =>
      let m := (ch.map (·.totalConns)).foldl min (ch.headD default).totalConns
      let best := ch.filter (fun u => u.totalConns = m)
      let (x, _) := rnd o
      best[x % best.length]?

def randomChoose (choose : Nat) (pool : Pool) (o : List Nat) : Option Upstream :=
  let k := min choose pool.length
  let (ch, o') := reservoir k pool 0 [] o
  leastConnsOf ch o'

end L4.LB

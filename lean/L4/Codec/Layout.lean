import L4.Basic
import L4.Gen.Consts
/-! # Fixed-layout wire messages: one generic codec, both round-trip laws proved once for every layout (C18) -/
namespace L4.Layout

/-- field kinds of the fixed-layout wire messages (big/little endian naturals of k bytes, raw byte runs, tail) -/
inductive F where
  | be (k : Nat)      -- k-byte big-endian unsigned
  | le (k : Nat)      -- k-byte little-endian unsigned
  | raw (n : Nat)     -- exactly n bytes
  deriving Repr, DecidableEq

inductive Val where
  | num (n : Nat)
  | bytes (b : Bytes)
  deriving Repr, DecidableEq

def leBytes : Nat → Nat → Bytes
  | 0, _ => []
  | k+1, n => UInt8.ofNat (n % 256) :: leBytes k (n / 256)
def leVal : Bytes → Nat
  | [] => 0
  | b :: t => b.toNat + 256 * leVal t

theorem leBytes_length (k n : Nat) : (leBytes k n).length = k := by
  induction k generalizing n with
  | zero => rfl
  | succ k ih => simp [leBytes, ih]

theorem leVal_leBytes (k n : Nat) (h : n < 256 ^ k) : leVal (leBytes k n) = n := by
  induction k generalizing n with
  | zero => simp at h; subst h; rfl
  | succ k ih =>
    simp only [leBytes, leVal, UInt8.toNat_ofNat']
    have : n / 256 < 256 ^ k := by
      rw [Nat.pow_succ] at h; exact Nat.div_lt_of_lt_mul (by rw [Nat.mul_comm]; exact h)
    rw [ih _ this]; omega

theorem leBytes_leVal (b : Bytes) : leBytes b.length (leVal b) = b := by
  induction b with
  | nil => rfl
  | cons x t ih =>
    simp only [List.length_cons, leBytes, leVal]
    have hx := x.toNat_lt
    have e1 : (x.toNat + 256 * leVal t) % 256 = x.toNat := by omega
    have e2 : (x.toNat + 256 * leVal t) / 256 = leVal t := by omega
    rw [e1, e2, ih]; simp

theorem leVal_lt (b : Bytes) : leVal b < 256 ^ b.length := by
  induction b with
  | nil => simp [leVal]
  | cons x t ih =>
    simp only [leVal, List.length_cons, Nat.pow_succ]
    have := x.toNat_lt
    omega

def F.size : F → Nat | .be k => k | .le k => k | .raw n => n

def encF : F → Val → Option Bytes
  | .be k, .num n => if n < 256 ^ k then some (leBytes k n).reverse else none
  | .le k, .num n => if n < 256 ^ k then some (leBytes k n) else none
  | .raw m, .bytes b => if b.length = m then some b else none
  | _, _ => none

def decF : F → Bytes → Val
  | .be _, b => .num (leVal b.reverse)
  | .le _, b => .num (leVal b)
  | .raw _, b => .bytes b

def encode : List F → List Val → Option Bytes
  | [], [] => some []
  | f :: fs, v :: vs =>
    match encF f v, encode fs vs with
    | some a, some r => some (a ++ r)
    | _, _ => none
  | _, _ => none

/-- exact-length decode: rejects short and over-long input -/
def decode : List F → Bytes → Option (List Val)
  | [], [] => some []
  | [], _ :: _ => none
  | f :: fs, b => if b.length < f.size then none else
      match decode fs (b.drop f.size) with
      | some r => some (decF f (b.take f.size) :: r)
      | none => none

theorem encF_size (f : F) (v : Val) (a : Bytes) (h : encF f v = some a) : a.length = f.size := by
  cases f <;> cases v <;> simp [encF] at h
  · obtain ⟨_, rfl⟩ := h; simp [F.size, leBytes_length]
  · obtain ⟨_, rfl⟩ := h; simp [F.size, leBytes_length]
  · obtain ⟨h1, rfl⟩ := h; simp [F.size, h1]

theorem decF_encF (f : F) (v : Val) (a : Bytes) (h : encF f v = some a) : decF f a = v := by
  cases f <;> cases v <;> simp [encF] at h
  · obtain ⟨hn, rfl⟩ := h; simp [decF, leVal_leBytes _ _ hn]
  · obtain ⟨hn, rfl⟩ := h; simp [decF, leVal_leBytes _ _ hn]
  · obtain ⟨_, rfl⟩ := h; simp [decF]

theorem decode_encode (L : List F) (vs : List Val) (bs : Bytes) (h : encode L vs = some bs) :
    decode L bs = some vs := by
  induction L generalizing vs bs with
  | nil => cases vs <;> simp [encode] at h; subst h; rfl
  | cons f fs ih =>
    cases vs with
    | nil => simp [encode] at h
    | cons v vs =>
      simp only [encode] at h
      split at h
      · rename_i a r ha hr
        injection h with h; subst h
        have hs := encF_size f v a ha
        simp only [decode]
        rw [if_neg (by simp; omega)]
        rw [← hs, List.drop_left, List.take_left, ih vs r hr]
        simp [decF_encF f v a ha]
      · cases h

/-- decode accepts only exact-length input and encode reproduces it: no truncation, no padding -/
theorem encode_decode (L : List F) (vs : List Val) (bs : Bytes) (h : decode L bs = some vs) :
    encode L vs = some bs := by
  induction L generalizing vs bs with
  | nil => cases bs <;> simp [decode] at h; subst h; rfl
  | cons f fs ih =>
    simp only [decode] at h
    split at h
    · cases h
    · rename_i hl
      split at h
      · rename_i r hr
        injection h with h; subst h
        have := ih r _ hr
        simp only [encode, this]
        have hl' : f.size ≤ bs.length := by omega
        have hx : encF f (decF f (bs.take f.size)) = some (bs.take f.size) := by
          cases f with
          | be k =>
            simp only [encF, decF, F.size] at *
            have hlen : (List.take k bs).reverse.length = k := by simp; omega
            have := leBytes_leVal (List.take k bs).reverse
            rw [hlen] at this
            have hlt := leVal_lt (List.take k bs).reverse
            rw [hlen] at hlt
            rw [if_pos hlt, this]; simp
          | le k =>
            simp only [encF, decF, F.size] at *
            have hlen : (List.take k bs).length = k := by simp; omega
            have := leBytes_leVal (List.take k bs)
            rw [hlen] at this
            have hlt := leVal_lt (List.take k bs)
            rw [hlen] at hlt
            rw [if_pos hlt, this]
          | raw n => simp [encF, decF, F.size] at *; omega
        rw [hx]; simp
      · cases h


/-- total size of a layout -/
def size (L : List F) : Nat := (L.map F.size).sum

theorem decode_length (L : List F) (bs : Bytes) (vs : List Val) (h : decode L bs = some vs) : bs.length = size L := by
  induction L generalizing bs vs with
  | nil => cases bs <;> simp [decode] at h; simp [size]
  | cons f fs ih =>
    simp only [decode] at h
    split at h
    · cases h
    · split at h
      · rename_i r hr
        have := ih _ _ hr
        simp [size] at this ⊢
        omega
      · cases h

/-! ## the fixed-size message types of the repository as layouts -/
open L4.Gen

/-- rdp `TPKTHeader` (big endian): Version u8, Reserved u8, Length u16 -/
def tpkt : List F := [.be 1, .be 1, .be 2]
/-- rdp `X224Crq` (big endian): Length u8, TypeCredit u8, DstRef u16, SrcRef u16, ClassOptions u8 -/
def x224 : List F := [.be 1, .be 1, .be 2, .be 2, .be 1]
/-- rdp `RDPNegReq` (little endian): Type u8, Flags u8, Length u16, Protocols u32 -/
def negReq : List F := [.le 1, .le 1, .le 2, .le 4]
/-- rdp `RDPCorrInfo` (little endian): Type u8, Flags u8, Length u16, Identity [16], Reserved [16] -/
def corrInfo : List F := [.le 1, .le 1, .le 2, .raw 16, .raw 16]
/-- wireguard `MessageInitiation` (little endian): Type u32, Sender u32, Ephemeral [32], Static [48], Timestamp [28], MAC1 [16], MAC2 [16] -/
def wgInitiation : List F := [.le 4, .le 4, .raw 32, .raw 48, .raw 28, .raw 16, .raw 16]
/-- openvpn `MessagePlain` (big endian): opcode/key byte, LocalSessionID u64, PrevPacketIDsCount u8, ThisPacketID u32 -/
def ovpnPlain : List F := [.be 1, .be 8, .be 1, .be 4]

theorem sizes_match_constants :
    size tpkt = l4rdp_TPKTHeaderBytesTotal ∧ size x224 = l4rdp_X224CrqBytesTotal ∧ size negReq = l4rdp_RDPNegReqBytesTotal ∧
    size corrInfo = l4rdp_RDPCorrInfoBytesTotal ∧ size wgInitiation = l4wireguard_MessageInitiationBytesTotal ∧
    size ovpnPlain = l4openvpn_MessagePlainBytesTotal := by decide

end L4.Layout

import L4.Basic
/-!
# UDP server loop (C09): `Server.servePacket` and `packetConn` after the repair

Datagrams are identified by their global arrival number; `src` (ghost) maps a datagram to its sender. The reader goroutine
feeds `packets` (capacity 10); the loop owns the association table; every association has a queue `readq` (capacity 5) and
a `done` flag set once by `Close`; closures are announced on `closeCh` (capacity 10) carrying the association itself.
No channel other than `done` is ever closed.
-/
namespace L4.Udp

structure PC where
  addr : Nat
  readq : List Nat := []
  delivered : List Nat := []
  done : Bool := false
  deriving Repr

structure St where
  next : Nat := 0                          -- arrival counter
  src : Nat → Nat := fun _ => 0            -- ghost: sender of datagram s
  packets : List Nat := []                 -- channel reader → loop
  assoc : Nat → Option Nat := fun _ => none    -- udpConns: address → association id
  conns : Nat → Option PC := fun _ => none
  fresh : Nat := 0                         -- next association id
  closeCh : List Nat := []
  crashed : Bool := false

def upd {α} (f : Nat → α) (k : Nat) (v : α) : Nat → α := fun j => if j = k then v else f j

inductive Act
  | arrive (a : Nat)          -- a datagram from address a is read from the socket and sent to `packets`
  | loopPkt                   -- the loop takes the next datagram and routes it
  | loopDrop                  -- … or drops it: its association was closed while the loop waited for room in its queue
  | loopClose (k : Nat)       -- the loop takes the closure notification of association k (any queued one: the order in
                              -- which concurrent closers entered the channel is not observable)
  | read (k : Nat)            -- the handler of association k reads one datagram
  | idle (k : Nat)            -- idle expiry inside Read: notify the loop (the association is not yet closed)
  | close (k : Nat)           -- packetConn.Close(): done (once), drain, notify

def packetsCap := 10
def readCap := 5
def closeCap := 10

def step (s : St) : Act → Option St
  -- `packets` of the model holds the datagrams in the channel *and* the one the reader goroutine is blocked on while the channel
  -- (capacity `packetsCap`) is full: the reader reports an arrival before it sends, and a datagram waiting in the reader's hand
  -- is, for the loop, a datagram waiting in the queue — so the model's queue is unbounded
  | .arrive a =>
    some { s with next := s.next + 1, src := upd s.src s.next a, packets := s.packets ++ [s.next] }
  | .loopPkt =>
    match s.packets with
    | [] => none
    | p :: rest =>
      let a := s.src p
      let live : Option (Nat × PC) := match s.assoc a with
        | some k => match s.conns k with
          | some c => if c.done then none else some (k, c)
          | none => none
        | none => none
      match live with
      | some (k, c) =>
        if c.readq.length < readCap then
          some { s with packets := rest, conns := upd s.conns k (some { c with readq := c.readq ++ [p] }) }
        else none      -- the loop blocks until the handler reads or closes
      | none =>
        -- no association, or it is already closed: start a fresh one for this datagram
        some { s with packets := rest, fresh := s.fresh + 1, assoc := upd s.assoc a (some s.fresh),
                      conns := upd s.conns s.fresh (some { addr := a, readq := [p] }) }
  | .loopDrop =>
    match s.packets with
    | [] => none
    | p :: rest =>
      match s.assoc (s.src p) with
      | some k => match s.conns k with
        | some c => if c.done then some { s with packets := rest } else none
        | none => none
      | none => none
  | .loopClose k =>
    if k ∈ s.closeCh then
      match s.conns k with
      | some c => if s.assoc c.addr = some k then some { s with closeCh := s.closeCh.erase k, assoc := upd s.assoc c.addr none }
                  else some { s with closeCh := s.closeCh.erase k }
      | none => some { s with closeCh := s.closeCh.erase k }
    else none
  | .read k =>
    match s.conns k with
    | some c =>
      if c.done then none else
      match c.readq with
      | d :: r => some { s with conns := upd s.conns k (some { c with readq := r, delivered := c.delivered ++ [d] }) }
      | [] => none
    | none => none
  -- `closeCh` of the model holds the notifications in the channel *and* those whose senders are blocked on the full channel
  -- (capacity `closeCap`): a blocked closer has already marked its association done and drained its queue, which is all the
  -- loop can observe of it, so the two are not distinguished and the model's queue is unbounded
  | .idle k =>
    match s.conns k with
    | some c => if !c.done then some { s with closeCh := s.closeCh ++ [k] } else none
    | none => none
  | .close k =>
    match s.conns k with
    | some c =>
      some { s with conns := upd s.conns k (some { c with done := true, readq := [] }), closeCh := s.closeCh ++ [k] }
    | none => none

def runActs : St → List Act → Option St
  | s, [] => some s
  | s, a :: as => match step s a with | some s' => runActs s' as | none => none

/-- everything association `c` has received so far, in the order it received it -/
def PC.got (c : PC) : List Nat := c.delivered ++ c.readq

structure UInv (s : St) : Prop where
  nocrash : s.crashed = false
  mine : ∀ k c, s.conns k = some c → ∀ d ∈ c.got, s.src d = c.addr ∧ d < s.next
  ordered : ∀ k c, s.conns k = some c → c.got.Pairwise (· < ·)
  pk_sorted : s.packets.Pairwise (· < ·)
  pk_lt : ∀ p ∈ s.packets, p < s.next
  before : ∀ k c, s.conns k = some c → ∀ d ∈ c.got, ∀ p ∈ s.packets, d < p
  assoc_addr : ∀ a k, s.assoc a = some k → ∃ c, s.conns k = some c ∧ c.addr = a
  conn_lt : ∀ k c, s.conns k = some c → k < s.fresh
  assoc_lt : ∀ a k, s.assoc a = some k → k < s.fresh
  done_empty : ∀ k c, s.conns k = some c → c.done = true → c.readq = []

theorem inv_init : UInv {} := by
  constructor <;> simp

end L4.Udp

import L4.Codec.Layout
import L4.Matchers.Winbox
import L4.Drv.Tok
/-! driver for `codec` cases -/
namespace L4.Drv
open L4 L4.Layout

def showVal : Val → String
  | .num n => toString n
  | .bytes b => hexTok b

def showDec (L : List F) (bs : Bytes) : String :=
  match decode L bs with
  | some vs => "ok " ++ " ".intercalate (vs.map showVal)
  | none => "err"

/-- fixed head then free tail (RDPToken, wireguard transport): `binary.Read` fails on a short head -/
def showHeadTail (L : List F) (bs : Bytes) : String :=
  if bs.length < size L then "err" else
  match decode L (bs.take (size L)) with
  | some vs => "ok " ++ " ".intercalate (vs.map showVal) ++ " " ++ hexTok (bs.drop (size L))
  | none => "err"

def doCodec : P String := do
  let name ← tok
  let bs := unhexTok (← tok)
  match name with
  | "tpkt" => return showDec tpkt bs
  | "x224" => return showDec x224 bs
  | "negreq" => return showDec negReq bs
  | "corrinfo" => return showDec corrInfo bs
  | "wginit" => return showDec wgInitiation bs
  | "ovpnplain" =>
    -- MessagePlain.FromBytes also requires the opcode P_CONTROL_HARD_RESET_CLIENT_V2
    if bs.length = Gen.l4openvpn_MessagePlainBytesTotal ∧ (bs.headD 0).toNat / 8 ≠ Gen.l4openvpn_OpcodeControlHardResetClientV2 then return "err"
    else return showDec ovpnPlain bs
  | "rdptoken" => return showHeadTail [.be 1, .be 1, .be 2, .be 1, .be 1, .be 2, .be 2, .be 1] bs
  | "wgtransport" => return showHeadTail [.le 4, .le 4, .le 8] bs
  | "winboxauth" =>
    match Winbox.fromBytes bs with
    | .ok m => return s!"ok {m.parity.toNat} {hexTok m.pk} {hexTok m.user}"
    | .err _ => return "err"
    | .panic _ => return "panic"
  | _ => return "*"

end L4.Drv

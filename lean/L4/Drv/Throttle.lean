import L4.Throttle
import L4.Drv.Tok
namespace L4.Drv
open L4 L4.Throttle

def ratTok (num den : Nat) : Rat := (num : Rat) / (den : Rat)

/-- delays (ns) of a sequence of `ReserveN(t, n)` on one limiter; `dt` in ns -/
def bucketRun (l : Lim) (t : Rat) : List (Nat × Nat) → List Nat
  | [] => []
  | (dt, n) :: rest =>
    let t' := t + (dt : Rat) / 1000000000
    let l' := l.reserve t' n 0
    let d : Rat := if l'.tokens < 0 then (-l'.tokens / l.rate) * 1000000000 else 0
    d.floor.toNat :: bucketRun l' t' rest

def doThrottle : P String := do
  match (← tok) with
  | "prov" =>
    let rn ← nat; let rd ← nat; let b ← nat
    let r := ratTok rn rd
    return s!"burst={provBurst r b} has={if provHas r b then 1 else 0}"
  | "batch" =>
    let hasT ← nat; let tB ← nat; let hasL ← nat; let lB ← nat; let p ← nat
    let cf : Cfg := { hasT := hasT == 1, hasL := hasL == 1, tBurst := tB, tRate := 0, lBurst := lB, lRate := 0, latency := 0 }
    let b := batch cf p
    return s!"batch={b.floor}"
  | "bucket" =>
    let burst ← nat; let rn ← nat; let rd ← nat; let k ← nat
    let ops ← rep k do
      let dt ← nat; let n ← nat
      return (dt, n)
    let ds := bucketRun (Lim.new burst (ratTok rn rd)) 0 ops
    return " ".intercalate (ds.map toString)
  | _ => return "bad-op"

end L4.Drv

import L4.Relay
import L4.Gen.Facts
import L4.Drv.Tok
/-! driver for `relay` cases (C03): runs the relay model under a pseudo-random schedule until no action is enabled and prints
the terminal state in the format of the Go harness.  Scenarios with an abrupt close have schedule-dependent outcomes and are
answered `*` (judged by the oracle only). -/
namespace L4.Drv
open L4 L4.Relay

/-- chunk descriptor `g<base>.<span>.<seed>.<len>` shared with the harness -/
def relayChunk (t : String) : Bytes :=
  match (t.drop 1).toString.splitOn "." with
  | [b, sp, sd, l] =>
    let base := b.toNat!; let span := UInt64.ofNat sp.toNat!
    let rec go : Nat → UInt64 → Bytes → Bytes
      | 0, _, acc => acc.reverse
      | k+1, s, acc => let (v, s') := splitmix s; go k s' (UInt8.ofNat (base + (v % span).toNat) :: acc)
    go l.toNat! (UInt64.ofNat sd.toNat!) []
  | _ => []

def relayActs (k : Nat) : List Act :=
  [.pumpRead, .pumpEOF, .pumpErr, .pumpSignal, .rendezvous, .pumpClose, .mainWait, .mainCW, .mainRecv] ++
  (List.range k).flatMap fun i => [.copyRead i, .copyEOF i, .copyErr i, .upRespond i]

/-- run until stuck: at every step take the first enabled action of the list rotated by a pseudo-random offset -/
def relayRun : Nat → UInt64 → St → St
  | 0, _, s => s
  | fuel+1, seed, s =>
    let acts := relayActs s.k
    let (v, seed') := splitmix seed
    let off := (v % UInt64.ofNat acts.length).toNat
    match (acts.drop off ++ acts.take off).findSome? (step s) with
    | some s' => relayRun fuel seed' s'
    | none => s

def b2s (b : Bool) : String := if b then "1" else "0"

def doRelay : P String := do
  let k ← nat
  let fault ← nat
  let _mode ← nat
  let pre := relayChunk (← tok)
  let nc ← nat
  let cchunks ← rep nc (do return relayChunk (← tok))
  let ups ← rep k do
    let nn ← nat
    let now ← rep nn (do return relayChunk (← tok))
    let nh ← nat
    let held ← rep nh (do return relayChunk (← tok))
    return (now, held)
  let seed ← nat
  if fault != 0 then return "*"
  let s0 := init k Gen.fact_proxy_signal_chan_cap true (fun _ => true) pre cchunks true
    (fun i => (ups.getD i ([], [])).1) (fun i => (ups.getD i ([], [])).2) (fun _ => true)
  let steps := 16 + 4 * (nc + 1 + (ups.map fun u => u.1.length + u.2.length + 4).sum)
  let s := relayRun steps (UInt64.ofNat seed) s0
  let mut out := s!"ret={b2s (s.main == .returned)} cleof={b2s s.clEof}"
  for i in [0:k] do
    out := out ++ s!" | u{i} recv={digest (s.upRecv i)} eof={b2s (s.upEof i)} cl={digest (s.clRecv i)} closed={b2s (s.upClosed i)}"
  return out

end L4.Drv

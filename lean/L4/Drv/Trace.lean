import L4.Listener
import L4.Udp
import L4.Drv.Tok
/-! trace monitors (C13, C09): the harness records the hook events of a real execution (build tag `verif`); the monitor looks
for a linearisation of the log that is a run of the model — events of one connection keep their order, an event that is not
yet enabled waits (hooks fire after the operation they report, so another goroutine's report can overtake) — and then
**replays the linearisation through the model's own `runActs`**; only that replay decides acceptance. -/
namespace L4.Drv
open L4

namespace LT
open L4.Listener

inductive LEv
  | accept (c : Nat) | finish (c : Nat) | pipeStart (c : Nat) | pipeSend (c : Nat) | consume (c : Nat) | drain (c : Nat)
  | close | loopExit | closeChan
  deriving Repr, DecidableEq, Inhabited

/-- which goroutine reported the event: events of one goroutine keep their order.  `some (c+1)`: the handler goroutine of
connection `c`; `some 0`: the accept loop; `none`: free (consumers calling `Accept`, `Close`, the waiter) -/
def LEv.key : LEv → Option Nat
  | .finish c | .pipeStart c | .pipeSend c => some (c + 1)
  | .accept _ | .loopExit | .drain _ => some 0
  | _ => none

def LEv.act : LEv → Act
  | .accept c => .accept c | .finish c => .finish c | .pipeStart c => .pipeStart c | .pipeSend c => .pipeSend c
  | .consume c => .consume c | .drain c => .drain c | .close => .close | .loopExit => .loopExit | .closeChan => .closeChan

/-- the model step for a logged event -/
def tryEv (s : St) (e : LEv) : Option St := step s e.act

/-- first pending event that is enabled and not preceded by a pending event of the same connection -/
def firstReady (s : St) : List LEv → List LEv → Option (LEv × St × List LEv)
  | _, [] => none
  | seen, e :: rest =>
    let blocked := match e.key with
      | some k => seen.any (fun p => p.key == some k)
      | none => false
    if blocked then firstReady s (seen ++ [e]) rest
    else match tryEv s e with
      | some s' => some (e, s', seen ++ rest)
      | none => firstReady s (seen ++ [e]) rest

def drainPending : Nat → St → List LEv → List LEv → St × List LEv × List LEv
  | 0, s, pend, done => (s, pend, done)
  | f+1, s, pend, done =>
    match firstReady s [] pend with
    | some (e, s', pend') => drainPending f s' pend' (done ++ [e])
    | none => (s, pend, done)

def linearise : List LEv → St → List LEv → List LEv → St × List LEv × List LEv
  | [], s, pend, done => drainPending (pend.length + 1) s pend done
  | e :: rest, s, pend, done =>
    let (s1, pend1, done1) := drainPending (pend.length + 1) s (pend ++ [e]) done
    linearise rest s1 pend1 done1

end LT

def doLTrace : P String := do
  let cap ← nat
  let n ← nat
  let evs ← rep n do
    let t ← tok
    let c := ((t.drop 1).toString.toNat?).getD 0
    return match t.front with
      | 'a' => LT.LEv.accept c | 'f' => .finish c | 's' => .pipeStart c | 'p' => .pipeSend c
      | 'c' => .consume c | 'd' => .drain c | 'X' => .close | 'L' => .loopExit | _ => .closeChan
  -- the send into connChan happens between the reports `pipeStart c` (before it) and `pipeSend c` (after it returned): the
  -- model action may be placed anywhere after `pipeStart c`, so it becomes eligible there and the later report is dropped
  let evs := evs.flatMap fun e => match e with
    | .pipeStart c => [LT.LEv.pipeStart c, .pipeSend c]
    | .pipeSend _ => []
    | e => [e]
  let s0 : Listener.St := { cap := cap }
  let (_, pend, done) := LT.linearise evs s0 [] []
  if !pend.isEmpty then
    return s!"rejected: {pend.length} of {n} events cannot be placed (first: {repr pend.head!}; all: {repr pend})"
  -- the decision: the linearisation is a run of the model
  match Listener.runActs s0 (done.map LT.LEv.act) with
  | none => return "rejected: the linearisation is not a run of the model"
  | some s =>
    if s.crashed then return "rejected: crashed state"
    return "accepted"


namespace UT
open L4.Udp

inductive UEv
  | arrive (a : Nat) | new (k : Nat) | enq (k : Nat) | drop | lclose (k : Nat) | read (k : Nat) | close (k : Nat) | idle (k : Nat)
  deriving Repr, DecidableEq, Inhabited

/-- reporting goroutine: `some 0` the socket reader, `some 1` the server loop; handler-side events are free -/
def UEv.key : UEv → Option Nat
  | .arrive _ => some 0
  | .new _ | .enq _ | .drop | .lclose _ => some 1
  | _ => none

/-- the association the head datagram would be routed to: `some k` if its sender has a live association -/
def liveOfHead (s : St) : Option Nat :=
  match s.packets with
  | [] => none
  | p :: _ => match s.assoc (s.src p) with
    | some k => match s.conns k with
      | some c => if c.done then none else some k
      | none => none
    | none => none

/-- the model action a logged event stands for in state `s` (with the side conditions the event carries), if any -/
def actOf (s : St) : UEv → Option Act
  | .arrive a => some (.arrive a)
  | .new k => if liveOfHead s = none ∧ s.fresh = k ∧ !s.packets.isEmpty then some .loopPkt else none
  | .enq k =>
    match s.packets with
    | [] => none
    | p :: _ => if s.assoc (s.src p) = some k then
        (match s.conns k with
         | some c => if c.done then some .loopDrop else some .loopPkt   -- a send that raced with Close lands in a dead queue
         | none => none)
      else none
  | .drop => some .loopDrop
  | .lclose k => some (.loopClose k)
  | .read k => some (.read k)
  | .close k => some (.close k)
  | .idle k => some (.idle k)

/-- the association an event concerns -/
def UEv.assoc : UEv → Option Nat
  | .new k | .enq k | .lclose k | .read k | .close k | .idle k => some k
  | _ => none

/-- may `e` not be placed while `p` (logged earlier) is still waiting?  Events of one goroutine keep their order; so do the
the report of a closure (made before the closure is announced) relative to earlier reports about the same association; the
reports of enqueues and reads are made after the channel operation and may overtake anything that is still waiting. -/
def blocks (p e : UEv) : Bool :=
  (match e.key with | some k => p.key == some k | none => false) ||
  (match e with
   | .close k | .lclose k => p.assoc == some k   -- a closure is not placed while earlier reports about its association wait
   | _ => false)

def tryEv (s : St) (e : UEv) : Option (Act × St) :=
  match actOf s e with
  | some a => (step s a).map fun s' => (a, s')
  | none => none

/-- does the waiting report `p` really hold back `e`?  An enqueue into association `k` that cannot happen in the current state
(its queue is full) does not hold back the closure of `k`: in the real execution the loop's send was released by that very
closure (the datagram is dropped), and the loop reports it afterwards — possibly before the closer reports. -/
def holds (s : St) (p e : UEv) : Bool :=
  blocks p e &&
  (match e, p with
   | .close k, .enq k' => !(k == k' && (tryEv s p).isNone)
   | _, _ => true)

def firstReady (s : St) : List UEv → List UEv → Option (Act × St × List UEv)
  | _, [] => none
  | seen, e :: rest =>
    if seen.any (fun p => holds s p e) then firstReady s (seen ++ [e]) rest
    else match tryEv s e with
      | some (a, s') => some (a, s', seen ++ rest)
      | none => firstReady s (seen ++ [e]) rest

def drainPending : Nat → St → List UEv → List Act → St × List UEv × List Act
  | 0, s, pend, done => (s, pend, done)
  | f+1, s, pend, done =>
    match firstReady s [] pend with
    | some (a, s', pend') => drainPending f s' pend' (done ++ [a])
    | none => (s, pend, done)

def linearise : List UEv → St → List UEv → List Act → St × List UEv × List Act
  | [], s, pend, done => drainPending (pend.length + 1) s pend done
  | e :: rest, s, pend, done =>
    let (s1, pend1, done1) := drainPending (pend.length + 1) s (pend ++ [e]) done
    linearise rest s1 pend1 done1

end UT

def doUTrace : P String := do
  let n ← nat
  let evs ← rep n do
    let t ← tok
    let c := ((t.drop 1).toString.toNat?).getD 0
    return match t.front with
      | 'A' => UT.UEv.arrive c | 'N' => .new c | 'E' => .enq c | 'D' => .drop | 'C' => .lclose c
      | 'R' => .read c | 'X' => .close c | _ => .idle c
  let (_, pend, done) := UT.linearise evs {} [] []
  -- a report can also be late: a `Read` that took its datagram just before `Close` drained the queue may be reported after
  -- the `Close`.  Events left over are tried at earlier positions (latest first, within the last 600 actions); the replay
  -- below still decides.
  let (pend, done) := pend.foldl (init := (([] : List UT.UEv), done)) fun (left, done) e =>
    let n := done.length
    let rec tryAt : Nat → Nat → Option (List Udp.Act)
      | 0, _ => none
      | fuel+1, j =>
        let pre := done.take j
        let r := match Udp.runActs {} pre with
          | some sj => match UT.actOf sj e with
            | some a => if (Udp.runActs sj (a :: done.drop j)).isSome then some (pre ++ a :: done.drop j) else none
            | none => none
          | none => none
        match r with
        | some d => some d
        | none => if j = 0 then none else tryAt fuel (j - 1)
    match tryAt (min n 600 + 1) n with
    | some d => (left, d)
    | none => (left ++ [e], done)
  if !pend.isEmpty then
    return s!"rejected: {pend.length} of {n} events cannot be placed (first: {repr pend.head!})"
  match Udp.runActs {} done with
  | none => return "rejected: the linearisation is not a run of the model"
  | some s =>
    if s.crashed then return "rejected: crashed state"
    return "accepted"

end L4.Drv

import L4.Basic
/-! token-stream helpers for the line-protocol driver -/
namespace L4.Drv

abbrev P := StateM (List String)

def tok : P String := do
  match (← get) with
  | [] => return ""
  | t :: ts => set ts; return t

def nat : P Nat := do return (← tok).toNat!

def fnv32a (b : Bytes) : UInt32 :=
  b.foldl (fun h x => (h ^^^ x.toUInt32) * 16777619) 2166136261

def digest (b : Bytes) : String :=
  if b.length ≤ 48 then hexTok b else s!"len={b.length},fnv={(fnv32a b).toNat}"

/-- harness generator descriptor `g:<seed>:<len>` (bytes `next() % 3`) or hex -/
def genAlpha (seed : UInt64) (n : Nat) (alpha : UInt64) : Bytes :=
  let rec go : Nat → UInt64 → Bytes → Bytes
    | 0, _, acc => acc.reverse
    | k+1, s, acc => let (v, s') := splitmix s; go k s' ((v % alpha).toUInt8 :: acc)
  go n seed []

def bytesTok (t : String) : Bytes :=
  if t.startsWith "g:" then
    match t.splitOn ":" with
    | [_, s, l] => genAlpha (UInt64.ofNat s.toNat!) l.toNat! 3
    | _ => []
  else unhexTok t

def rep {α} (n : Nat) (p : P α) : P (List α) := do
  let mut out := #[]
  for _ in [0:n] do
    out := out.push (← p)
  return out.toList

end L4.Drv

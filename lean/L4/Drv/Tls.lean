import L4.Tls
import L4.Drv.Tok
namespace L4.Drv
open L4 L4.Tls

def natsStr (l : List Nat) : String := if l.isEmpty then "-" else ",".intercalate (l.map toString)

def doHello : P String := do
  let raw := unhexTok (← tok)
  let i := parseHello raw
  let ps := if i.protos.isEmpty then "-" else ",".intercalate (i.protos.map hexTok)
  return s!"v={i.version} sni={hexTok i.serverName} alpn={ps} vers={natsStr i.versions} suites={natsStr i.suites} curves={natsStr i.curves} exts={natsStr i.exts}"

end L4.Drv

import L4.Health
import L4.Drv.Tok
/-! driver for `health` cases (C11): replays a timed history of the harness through the model and prints what the harness
observes.  When a decision instant (an attempt of the retry loop, a sample, a probe) lies within 25 ms of an instant at which
the model's state changes by itself (a forgetter waking up, a planned outage / recovery) the comparison would depend on
scheduling noise and the history is answered `*`. -/
namespace L4.Drv
open L4 L4.Health

/-- `Handler.Provision` / `Upstream.provision`: the defaults -/
def provisionCfg (ups : List (List Nat × Nat)) (passive : Bool) (failDur maxFails ucc tryDur tryInt : Nat) : Cfg :=
  { ups := ups.map (·.1),
    maxConns := ups.map fun u => if passive ∧ ucc > 0 ∧ u.2 = 0 then ucc else u.2,
    passive := passive, failDur := failDur,
    maxFails := if passive ∧ failDur > 0 ∧ maxFails = 0 then 1 else maxFails,
    tryDur := tryDur, tryInt := if tryDur > 0 ∧ tryInt = 0 then 250 else tryInt }

def i2s (i : Int) : String := if i < 0 then s!"-{(-i).toNat}" else s!"{i.toNat}"

def doHealth : P String := do
  let nUp ← nat
  let ups ← rep nUp do
    let np ← nat
    let ps ← rep np nat
    let mc ← nat
    return (ps, mc)
  let passive := (← nat) == 1
  let failDur ← nat
  let maxFails ← nat
  let ucc ← nat
  let tryDur ← nat
  let tryInt ← nat
  let c := provisionCfg ups passive failDur maxFails ucc tryDur tryInt
  let nPeers := (ups.map (·.1.length)).sum
  let nEv ← nat
  let mut s : St := {}
  let mut outs : Array String := #[]
  let mut decisions : Array Nat := #[]
  let mut flips : Array Nat := #[]
  for _ in [0:nEv] do
    let _ ← tok   -- "a"
    let t ← nat
    s := advance s t
    let k ← tok
    match k with
    | "h" =>
      let (o, s', att) := handle c s
      s := s'
      decisions := decisions ++ att.toArray
      let os := match o with
        | .proxied u => s!"proxied:{u}"
        | .noUpstream => "noup"
        | .dialError => "dialerr"
      outs := outs.push s!"{os} r{att.length - 1}"
    | "c" =>
      let u ← nat
      s := closeConn c s u
      outs := outs.push "closed"
    | "u" =>
      let p ← nat
      let b ← nat
      s := apply c s (.setUp p (b == 1))
      outs := outs.push "u"
    | "pl" =>
      let at_ ← nat
      let p ← nat
      let b ← nat
      s := apply c s (.plan at_ p (b == 1))
      flips := flips.push at_
      outs := outs.push "pl"
    | "p" =>
      let p ← nat
      s := probe s p
      decisions := decisions.push t
      outs := outs.push "p"
    | "f" =>
      let p ← nat
      s := countFailure c s p
      outs := outs.push "f"
    | "s" =>
      decisions := decisions.push t
      let mut o := "s"
      for p in [0:nPeers] do
        o := o ++ s!" f{i2s (s.fails p)}c{i2s (s.conns p)}u{if s.unhealthy p then 1 else 0}"
      for u in [0:nUp] do
        o := o ++ s!" a{if available c s u then 1 else 0}"
      outs := outs.push o
    | _ => outs := outs.push "bad-op"
  let changes := flips ++ (s.flog.map fun e => e.2 + c.failDur).toArray
  let near := decisions.any fun d => changes.any fun ch => (d + 25 > ch) && (ch + 25 > d)
  if near then return "*"
  return " ; ".intercalate outs.toList

end L4.Drv

import L4.ProxyProto
import L4.Drv.Tok
namespace L4.Drv
open L4 L4.PP

def doPP : P String := do
  let ver ← nat
  let pr ← tok
  let src := unhexTok (← tok); let sp ← nat
  let dst := unhexTok (← tok); let dp ← nat
  let h : Hdr := { proto := if pr == "udp" then .udp else .tcp, src := ⟨src, sp⟩, dst := ⟨dst, dp⟩ }
  if ver == 2 then return hexTok (encV2 h)
  else if src.length = 4 ∧ dst.length = 4 then return hexTok (encV1 h)
  else return "*"   -- textual IPv6 form: net.IP.String() compression is not modelled

end L4.Drv

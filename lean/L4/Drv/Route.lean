import L4.Router
import L4.Drv.Tok
/-! driver for `route` cases: parses the harness' route description into the router model and prints the trace -/
namespace L4.Drv
open L4

/-- harness matcher `vm`: `io.ReadFull` of `need` bytes in matching mode, then the verdict by kind -/
def vmMatch (need kind b : Nat) : Matcher Src := fun cx =>
  let a := cx.avail
  if need ≤ a.length then
    match kind with
    | 0 => .yes
    | 1 => .no
    | 3 => .fail
    | _ => if need > 0 && (a.headD 0).toNat == b then .yes else .no
  else .more

/-- `io.ReadFull(cx, buf[:k])` outside matching mode, error ignored -/
def readFullH : Nat → Nat → Src → Bytes → Bytes × Src
  | 0, _, c, acc => (acc, c)
  | _, 0, c, acc => (acc, c)
  | fuel+1, k, c, acc =>
    match c.read k with
    | ((out, .none), c') => readFullH fuel (k - out.length) c' (acc ++ out)
    | ((out, _), c') => (acc ++ out, c')

def srcChunks : Src → Nat
  | .raw cs _ => cs.length
  | .l4 _ _ _ _ i => srcChunks i
  | .bufio _ _ i => srcChunks i
  | .limit _ i => srcChunks i
  | .tee _ i => srcChunks i

/-- marker event carrying bytes a handler consumed (printed as `read`) -/
def noteEv (b : Bytes) : Ev Src := .run 1000000 (.raw [b] false)
/-- marker event: a nested router fell through to the handler after the subroute (printed as `fall`) -/
def fallEv (b : Bytes) : Ev Src := .run 1000001 (.raw [b] false)

abbrev H := Src → List (Ev Src) × HRes Src

def hPlain (cons : Nat) (term : Bool) : H := fun cx =>
  let (got, cx') := if cons > 0 then readFullH (cons + srcChunks cx + 3) cons cx [] else ([], cx)
  let ev := if cons > 0 then [noteEv got] else []
  (ev, if term then .terminal else .next cx')

def hErr : H := fun _ => ([], .fail)

/-- chain of the handlers of one route (`next` of the last one is the router's `lastHandler`) -/
def chain : List H → H
  | [], cx => ([], .next cx)
  | h :: hs, cx =>
    match h cx with
    | (ev, .next cx') => let (ev2, r) := chain hs cx'; (ev ++ ev2, r)
    | (ev, r) => (ev, r)

mutual
  partial def pMatcher : P (Matcher Src) := do
    let t ← tok
    if t == "not" then
      let n ← nat
      let sets ← rep n pSet
      return notMatch sets
    else
      let need ← nat; let kind ← nat; let b ← nat
      return vmMatch need kind b
  partial def pSet : P (MatcherSet Src) := do
    let n ← nat
    rep n pMatcher
end

partial def pRoutes : P (List (Route Src)) := do
  let n ← nat
  rep n do
    let ns ← nat
    let sets ← rep ns pSet
    let nh ← nat
    let hs ← rep nh do
      let t ← tok
      if t == "e" then return hErr
      else if t == "s" then
        let inner ← pRoutes
        return (fun cx => match route srcOps inner 64 cx with
          | (evs, .next cx') => (evs ++ [fallEv cx'.avail], .next cx')
          | r => r : H)
      else
        let cons ← nat; let term ← nat
        return hPlain cons (term == 1)
    return ({ sets := sets, h := chain hs } : Route Src)

def pChunks : P (List Bytes) := do
  let n ← nat
  rep n do return bytesTok (← tok)

partial def showEv (path : String) : Ev Src → List String
  | .run 1000000 (.raw [b] false) => [s!"read {(path.dropEnd 1).toString} {digest b}"]
  | .run 1000001 (.raw [b] false) => [s!"fall {(path.dropEnd 1).toString} {digest b}"]
  | .run i cx => [s!"run {path}{i} {digest cx.avail}"]
  | .inner i e => showEv s!"{path}{i}." e
  | .outOfFuel => ["OUT-OF-FUEL"]
  | _ => []

def showTrace (tr : List (Ev Src)) (r : HRes Src) : String :=
  let evs := tr.flatMap (showEv "")
  let evs := match r with
    | .next cx => evs ++ [s!"fallback {digest cx.avail}"]
    | .fail => evs ++ ["error"]
    | .terminal => evs
  " / ".intercalate evs

def doRoute : P String := do
  let _cap ← nat
  let routes ← pRoutes
  let chunks ← pChunks
  -- `L1`: the socket reports the end of the stream together with the last bytes of the script
  let last := (← tok) == "L1"
  let (tr, r) := route srcOps routes 64 (.l4 [] 0 0 false (.raw chunks last))
  return showTrace tr r

end L4.Drv

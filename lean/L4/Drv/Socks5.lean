import L4.Socks5
import L4.Drv.Tok
namespace L4.Drv
open L4 L4.Socks5

def doSocks5 : P String := do
  let nc ← nat
  let cmds ← rep nc do
    let t ← tok
    return (if t == "x" then none else some t.toNat! : Option Nat)
  let ncr ← nat
  let creds ← rep ncr do
    let t ← tok
    match t.splitOn ":" with
    | [u, p] => return (unhexTok u, unhexTok p)
    | _ => return ([], [])
  let nm ← nat
  let methods ← rep nm nat
  let user := unhexTok (← tok)
  let pass := unhexTok (← tok)
  let cmd ← nat
  let atyp ← nat
  let cfg : Cfg := { commandsRaw := cmds, credentials := creds }
  -- the library picks the first offered method it supports, so method 2 is used only when authentication is required
  let cl : Client := { methods := methods, login := some (user, pass), cmd := cmd, atypOk := atyp == 1 }
  match serve cfg cl with
  | .provisionError => return "provision-error"
  | .noAcceptableMethod => return "no-acceptable-method"
  | .authFailed => return "auth-failed"
  | .addrTypeNotSupported => return "addr-type-not-supported"
  | .commandNotSupported => return "command-not-supported"
  | .ruleFailure => return "rule-failure"
  | .act c => return s!"act {c}"

end L4.Drv

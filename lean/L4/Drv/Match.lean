import L4.Matchers.Small
import L4.Matchers.Winbox
import L4.Matchers.Wireguard
import L4.Matchers.Rdp
import L4.Matchers.More
import L4.Drv.Tok
/-! driver for `match` cases -/
namespace L4.Drv
open L4 L4.M

def natList : P (List Nat) := do
  let n ← nat
  rep n nat

/-- regexp configuration token: `-` (none) or `p:<hex>` (anchored literal prefix) -/
def reTok (t : String) : Bool × (Bytes → Bool) :=
  if t == "-" then (false, fun _ => true)
  else (true, fun b => (unhexTok (t.drop 2).toString).isPrefixOf b)

def cidrs4 : P (List (Nat × Nat)) := do
  let n ← nat
  rep n do
    let a ← nat; let b ← nat
    return (a, b)

/-- matchers that are not `Prog`s are functions of the available bytes -/
def doMatch : P String := do
  let name ← tok
  if name == "rdp" then
    let chash := unhexTok (← tok)
    let (hasCre, cre) := reTok (← tok)
    let ips ← cidrs4
    let v6 ← nat
    let ports ← natList
    let cinfo := unhexTok (← tok)
    let (hasIre, ire) := reTok (← tok)
    let _tr ← tok
    let bs := unhexTok (← tok)
    let ips' : List Rdp.Cidr4 := ips.map fun (a, b) => ({ addr := a, bits := b } : Rdp.Cidr4)
    let cfg : Rdp.Cfg := { cookieHash := chash, hasCookieRe := hasCre, cookieRe := cre, cookieIPs := ips', cookieIPsV6only := v6 == 1, cookiePorts := ports, customInfo := cinfo, hasCustomRe := hasIre, customRe := ire }
    return (Rdp.matcher cfg bs).str
  if name == "dns" then
    let ha ← nat; let hd ← nat; let pa ← nat; let dd ← nat
    let _u ← tok
    let ok ← nat
    let um : Option DnsMsg ← if ok == 1 then do
        let len ← nat; let nq ← nat; let resp ← nat; let rc ← nat; let z ← nat
        let qs ← rep nq do
          let cf ← nat; let tf ← nat; let de ← nat; let al ← nat
          return ({ classFound := cf == 1, typeFound := tf == 1, denied := de == 1, allowed := al == 1 } : DnsQ)
        pure (some ({ len := len, qs := qs, response := resp == 1, rcodeOk := rc == 1, zero := z == 1 } : DnsMsg))
      else pure none
    let tr ← tok
    let bs := unhexTok (← tok)
    let cfg : DnsCfg := { hasAllow := ha == 1, hasDeny := hd == 1, preferAllow := pa == 1, defaultDeny := dd == 1 }
    return (if tr == "udp" then dnsUdp cfg (fun _ => um) bs else dnsTcp cfg (fun _ => um) bs).str
  if name == "http" then
    let _tr ← tok
    let bs := unhexTok (← tok)
    -- the request parser is a parameter: `*` marks verdicts the model does not determine
    match isHttp bs with
    | .ok (false, true) => return "*"
    | _ => return (http (fun _ => .yes) bs).str
  if name == "clock" then
    let a ← nat; let b ← nat; let now ← nat
    return (clock a b now).str
  if name == "ip" then
    let n ← nat
    let addrTok : P (Bool × Nat) := do
      let is6 ← nat
      let t ← tok
      return (is6 == 1, if t.startsWith "x" then beNat (unhex (t.drop 1).toString) else t.toNat!)
    let ps ← rep n do
      let (is6, a) ← addrTok
      let bits ← nat
      return ({ is6 := is6, addr := a, bits := bits } : Prefix)
    let (is6, ip) ← addrTok
    return (ipMatch ps is6 ip).str
  if name == "openvpn" then
    let pl ← nat; let au ← nat; let cr ← nat; let c2 ← nat
    let tr ← tok
    let bs := unhexTok (← tok)
    let cfg : OvpnCfg := { plain := pl == 1, auth := au == 1, crypt := cr == 1, crypt2 := c2 == 1 }
    return ((openvpn cfg (tr == "tcp")).run bs).str
  let prog : Prog ← match name with
    | "tls" => pure (tls fun _ => true)
    | "winbox" => do
      let std ← nat; let rom ← nat
      let user := unhexTok (← tok)
      let (hasRe, re) := reTok (← tok)
      pure (Winbox.matcher { standard := std == 1, romon := rom == 1, username := user, hasRe := hasRe, re := re })
    | "wireguard" => do
      let z ← nat
      pure (Wireguard.matcher z)
    | "ssh" => pure ssh
    | "xmpp" => pure xmpp
    | "pp" => pure proxyProto
    | "postgres" => pure postgres
    | "regexp" => do
      let count ← nat; let bit ← nat
      pure (regexp count (fun _ => bit == 1))
    | "socks5" => do
      let ms ← natList
      pure (socks5 ms)
    | "socks4" => do
      let cmds ← natList
      let ports ← natList
      let nc ← nat
      let cidrs ← rep nc do
        let a ← nat; let b ← nat
        return ({ addr := a, bits := b } : Cidr4)
      let v6 ← nat
      pure (socks4 { commands := cmds, ports := ports, cidrs := cidrs, v6only := v6 == 1 })
    | _ => pure (.ret .fail)
  let _tr ← tok
  let bs := unhexTok (← tok)
  return (prog.run bs).str

end L4.Drv

import L4.Matchers.Small
import L4.Matchers.Winbox
import L4.Matchers.Wireguard
import L4.Matchers.Rdp
import L4.Drv.Tok
/-! driver for `match` cases -/
namespace L4.Drv
open L4 L4.M

def natList : P (List Nat) := do
  let n ← nat
  rep n nat

/-- regexp configuration token: `-` (none) or `p:<hex>` (anchored literal prefix) -/
def reTok (t : String) : Bool × (Bytes → Bool) :=
  if t == "-" then (false, fun _ => true)
  else (true, fun b => (unhexTok (t.drop 2).toString).isPrefixOf b)

def cidrs4 : P (List (Nat × Nat)) := do
  let n ← nat
  rep n do
    let a ← nat; let b ← nat
    return (a, b)

/-- matchers that are not `Prog`s are functions of the available bytes -/
def doMatch : P String := do
  let name ← tok
  if name == "rdp" then
    let chash := unhexTok (← tok)
    let (hasCre, cre) := reTok (← tok)
    let ips ← cidrs4
    let v6 ← nat
    let ports ← natList
    let cinfo := unhexTok (← tok)
    let (hasIre, ire) := reTok (← tok)
    let _tr ← tok
    let bs := unhexTok (← tok)
    let ips' : List Rdp.Cidr4 := ips.map fun (a, b) => ({ addr := a, bits := b } : Rdp.Cidr4)
    let cfg : Rdp.Cfg := { cookieHash := chash, hasCookieRe := hasCre, cookieRe := cre, cookieIPs := ips', cookieIPsV6only := v6 == 1, cookiePorts := ports, customInfo := cinfo, hasCustomRe := hasIre, customRe := ire }
    return (Rdp.matcher cfg bs).str
  let prog : Prog ← match name with
    | "winbox" => do
      let std ← nat; let rom ← nat
      let user := unhexTok (← tok)
      let (hasRe, re) := reTok (← tok)
      pure (Winbox.matcher { standard := std == 1, romon := rom == 1, username := user, hasRe := hasRe, re := re })
    | "wireguard" => do
      let z ← nat
      pure (Wireguard.matcher z)
    | "ssh" => pure ssh
    | "xmpp" => pure xmpp
    | "pp" => pure proxyProto
    | "postgres" => pure postgres
    | "regexp" => do
      let count ← nat; let bit ← nat
      pure (regexp count (fun _ => bit == 1))
    | "socks5" => do
      let ms ← natList
      pure (socks5 ms)
    | "socks4" => do
      let cmds ← natList
      let ports ← natList
      let nc ← nat
      let cidrs ← rep nc do
        let a ← nat; let b ← nat
        return ({ addr := a, bits := b } : Cidr4)
      let v6 ← nat
      pure (socks4 { commands := cmds, ports := ports, cidrs := cidrs, v6only := v6 == 1 })
    | _ => pure (.ret .fail)
  let _tr ← tok
  let bs := unhexTok (← tok)
  return (prog.run bs).str

end L4.Drv

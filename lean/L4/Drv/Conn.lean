import L4.Conn
import L4.Drv.Tok
/-! driver for `conn` op-sequence cases against the layered connection model -/
namespace L4.Drv
open L4

def errCls : RErr → String
  | .none => "n" | .consumed => "c" | .eof => "e"

def genTok (t : String) : Bytes :=
  match t.splitOn ":" with
  | [_, s, l] => genAlpha (UInt64.ofNat s.toNat!) l.toNat! 251
  | _ => []

/-- reads until an error; returns the chunks read (latest first) and the final state -/
partial def drain (s : Src) (acc : List Bytes) (k : Nat) : List Bytes × Src :=
  if k = 0 then (acc, s) else
  match s.read 4096 with
  | ((d, .none), s') => drain s' (d :: acc) (k - 1)
  | ((d, _), s') => (d :: acc, s')

def teeOut (s : Src) : List String := s.teeLogs.map fun l => s!"tee:{digest l}"

partial def connOps (s : Src) (delivered : List Bytes) (matching : Bool) (out : Array String) : P (Array String) := do
  let t ← tok
  match t with
  | "" => return out
  | "rd" =>
    let n ← nat
    let ((d, e), s') := s.read n
    -- the error class of a zero-length read is not compared (see the harness)
    connOps s' (if matching then delivered else d :: delivered) matching (out.push s!"rd:{digest d}:{if n = 0 then "z" else errCls e}")
  | "pf" =>
    match s.prefetch with
    | .ok s' => connOps s' delivered matching (out.push "pf:ok")
    | .error .full => connOps s delivered matching (out.push "pf:full")
    | .error _ =>
      -- only a read error without bytes makes prefetch fail: nothing was consumed
      connOps s delivered matching (out.push "pf:err")
  | "fz" => connOps s.freeze delivered true (out.push "fz")
  | "uf" => connOps s.unfreeze delivered false (out.push "uf")
  | "mb" => connOps s delivered matching (out.push s!"mb:{digest s.avail}")
  | "wr" =>
    let kind ← nat; let p ← nat
    let w : Src → Src := match kind with
      | 1 => fun i => .bufio [] p i
      | 2 => fun i => .limit p i
      | 3 => fun i => .tee [] i
      | _ => fun i => i
    connOps (s.wrap w) delivered matching (out.push "wr")
  | "drain" =>
    let (all, s') := drain s delivered 400000
    return (out.push s!"drain:{digest all.reverse.flatten}") ++ (teeOut s').toArray
  | _ => return out.push "bad-op"

def doConn : P String := do
  let n ← nat
  let chunks ← rep n do return genTok (← tok)
  -- `L1`: the socket reports the end of the stream together with the last bytes of the script
  let last := (← tok) == "L1"
  let _nops ← nat
  let out ← connOps (.l4 [] 0 0 false (.raw chunks last)) ([] : List Bytes) false #[]
  return " ".intercalate out.toList

end L4.Drv

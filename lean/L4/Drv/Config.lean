import L4.Config
import L4.Drv.Tok
/-! driver for `cfg` cases (C15): the lexed tokens of a generated Caddyfile are grouped into segments, the `layer4` global
blocks are adapted by the Lean transcription (`adaptApp`) with table-driven leaf modules, and the JSON is printed in canonical
form (sorted keys).  Leaf modules without a table are looked up in the dictionary the harness sends (their JSON as the real
adapter produced it for the leaf alone): for them only the composition is compared. -/
namespace L4.Drv
open L4 L4.Config

partial def jvStr : JV → String
  | .null => "null"
  | .bool b => if b then "true" else "false"
  | .num n => showInt n
  | .str s => "\"" ++ hexTok s.toUTF8.toList ++ "\""     -- strings are compared by their bytes (hex)
  | .arr l => "[" ++ ",".intercalate (l.map jvStr) ++ "]"
  | .obj kvs =>
    let sorted := kvs.toArray.qsort (fun a b => a.1 < b.1) |>.toList
    "{" ++ ",".intercalate (sorted.map fun (k, v) => k ++ ":" ++ jvStr v) ++ "}"

/-- tokens `<hex>@<line>` → segments: a segment is the tokens of one line; a trailing `{` opens its block -/
partial def parseSegs : List (String × Nat) → List Seg → List Seg × List (String × Nat)
  | [], acc => (acc.reverse, [])
  | ("}", _) :: rest, acc => (acc.reverse, rest)
  | ("{", _) :: rest, acc =>
    let (blk, after) := parseSegs rest []
    parseSegs after (.mk "{" [] blk :: acc)
  | (name, line) :: rest, acc =>
    let sameLine := rest.takeWhile (fun t => t.2 == line)
    let after := rest.dropWhile (fun t => t.2 == line)
    match sameLine.getLast? with
    | some ("{", _) =>
      let args := (sameLine.dropLast).map (·.1)
      let (blk, after') := parseSegs after []
      parseSegs after' (.mk name args blk :: acc)
    | _ => parseSegs after (.mk name (sameLine.map (·.1)) [] :: acc)

def throttleTable : List Opt :=
  [⟨"latency", "latency", .dur⟩, ⟨"read_burst_size", "read_burst_size", .int⟩, ⟨"read_bytes_per_second", "read_bytes_per_second", .int⟩,
   ⟨"total_read_burst_size", "total_read_burst_size", .int⟩, ⟨"total_read_bytes_per_second", "total_read_bytes_per_second", .int⟩]
def ppHandlerTable : List Opt := [⟨"allow", "allow", .strs⟩, ⟨"timeout", "timeout", .dur⟩]

/-- a module whose block is a flat option table and that takes no same-line arguments -/
def tableLeaf (schema : List Opt) (s : Seg) : Except String JV := do
  if !s.args.isEmpty then throw "no same-line options"
  if s.block.any (fun o => !o.block.isEmpty) then throw "blocks are not supported"
  let m ← parseBlock schema (s.block.map fun o => (o.name, o.args)) (fun _ => none)
  pure (.obj (tableJSON schema m))

def noArgLeaf (s : Seg) : Except String JV :=
  if s.args.isEmpty && s.block.isEmpty then .ok (.obj []) else .error "no options"

def rangesLeaf (s : Seg) : Except String JV :=
  if s.args.isEmpty then .error "at least one range" else if !s.block.isEmpty then .error "blocks are not supported"
  else .ok (.obj [("ranges", .arr (s.args.map .str))])

def regexpLeaf (s : Seg) : Except String JV :=
  if !s.block.isEmpty then .error "blocks are not supported" else
  match s.args with
  | [p] => .ok (.obj (if p.isEmpty then [] else [("pattern", .str p)]))
  | [p, c] => match parseNat? c with
    | some n => if n < 65536 then .ok (.obj ((if n = 0 then [] else [("count", JV.num n)]) ++ (if p.isEmpty then [] else [("pattern", .str p)]))) else .error "count"
    | none => .error "count"
  | _ => .error "arity"

def proxyActive : List Opt :=
  [⟨"health_port", "port", .int⟩, ⟨"health_interval", "interval", .dur⟩, ⟨"health_timeout", "timeout", .dur⟩]
def proxyPassive : List Opt :=
  [⟨"fail_duration", "fail_duration", .dur⟩, ⟨"max_fails", "max_fails", .int⟩, ⟨"unhealthy_connection_count", "unhealthy_connection_count", .int⟩]
def proxyLB : List Opt := [⟨"lb_try_duration", "try_duration", .dur⟩, ⟨"lb_try_interval", "try_interval", .dur⟩]
def proxyTop : List Opt := [⟨"proxy_protocol", "proxy_protocol", .str⟩]
def proxyTable : List Opt := proxyActive ++ proxyPassive ++ proxyLB ++ proxyTop

/-- the proxy handler: same-line arguments are upstream addresses; `upstream <addr…>` adds one upstream dialing all of them;
`lb_policy <name>` selects a policy without options.  The health-check and load-balancing options live in nested objects that
are allocated as soon as one of their options is written — so a group is present in the JSON (possibly empty: all its fields
are `omitempty`) exactly when one of its options appears in the block, whatever its value. -/
def proxyLeaf (s : Seg) : Except String JV := do
  if s.block.any (fun o => !o.block.isEmpty) then throw "nested"
  let ups1 := s.args.map fun a => JV.obj [("dial", .arr [.str a])]
  let ups2 ← (s.block.filter (·.name == "upstream")).mapM fun o =>
    if o.args.isEmpty then throw "upstream without address" else pure (JV.obj [("dial", .arr (o.args.map .str))])
  let pol ← match s.block.filter (·.name == "lb_policy") with
    | [] => pure []
    | [o] => match o.args with
      | [n] => pure [("selection", JV.obj [("policy", .str n)])]
      | _ => throw "lb_policy with options"
    | _ => throw "duplicate lb_policy"
  let rest := s.block.filter fun o => o.name != "upstream" && o.name != "lb_policy"
  let m ← parseBlock proxyTable (rest.map fun o => (o.name, o.args)) (fun _ => none)
  let written (t : List Opt) : Bool := t.any fun o => (m o.name).isSome
  let active := if written proxyActive then [("active", JV.obj (tableJSON proxyActive m))] else []
  let passive := if written proxyPassive then [("passive", JV.obj (tableJSON proxyPassive m))] else []
  let hc := if active.isEmpty && passive.isEmpty then [] else [("health_checks", JV.obj (active ++ passive))]
  let lb := if written proxyLB || !pol.isEmpty then [("load_balancing", JV.obj (pol ++ tableJSON proxyLB m))] else []
  pure (.obj (optArr "upstreams" (ups1 ++ ups2) ++ hc ++ lb ++ tableJSON proxyTop m))

def segToks : Seg → List String
  | .mk n a b => n :: a ++ (if b.isEmpty then [] else ["{"] ++ goList b ++ ["}"])
where goList : List Seg → List String
  | [] => []
  | s :: r => segToks s ++ goList r

mutual
partial def leafM (dict : List (String × JV)) (name : String) (s : Seg) : Except String JV :=
  match name with
  | "not" => do
      let j ← adaptMatcherSet (leafM dict) (setEntries s)
      pure (.arr [j])
  | "ssh" | "xmpp" | "postgres" | "proxy_protocol" => noArgLeaf s
  | "remote_ip" | "local_ip" =>
      if s.args.contains "private_ranges" then dictLookup dict "m" s else rangesLeaf s
  | "regexp" => regexpLeaf s
  | _ => dictLookup dict "m" s
partial def leafH (dict : List (String × JV)) (name : String) (s : Seg) : Except String JV :=
  match name with
  | "subroute" => do
      if !s.args.isEmpty then throw "no same-line options"
      let f ← adaptRoutes (leafM dict) (leafH dict) s.block
      pure (.obj f)
  | "tee" => do
      if !s.args.isEmpty then throw "no same-line options"
      let hs ← adaptHandlers (leafH dict) s.block
      pure (.obj (optArr "branch" hs))
  | "echo" => noArgLeaf s
  | "throttle" => tableLeaf throttleTable s
  | "proxy_protocol" =>
      if s.block.any (fun o => o.args.contains "private_ranges") then dictLookup dict "h" s else tableLeaf ppHandlerTable s
  | "proxy" =>
      match proxyLeaf s with
      | .ok j => .ok j
      | .error "nested" => dictLookup dict "h" s
      | .error e => .error e
  | _ => dictLookup dict "h" s
partial def dictLookup (dict : List (String × JV)) (kind : String) (s : Seg) : Except String JV :=
  match dict.lookup (kind ++ " " ++ " ".intercalate (segToks s)) with
  | some j => .ok j
  | none => .error s!"unknown-leaf {kind} {s.name}"
end

/-- JSON values travel in a compact prefix form: n | t | f | i<int> | s<hex> | a<k> … | o<k> (<key> …)… -/
partial def readJV : P JV := do
  let t ← tok
  match t.front with
  | 'n' => return .null
  | 't' => return .bool true
  | 'f' => return .bool false
  | 'i' => return .num ((parseInt? (t.drop 1).toString).getD 0)
  | 's' => return .str (String.fromUTF8! (ByteArray.mk (unhexTok (t.drop 1).toString).toArray))
  | 'a' =>
    let k := (t.drop 1).toString.toNat!
    let l ← rep k readJV
    return .arr l
  | 'o' =>
    let k := (t.drop 1).toString.toNat!
    let kvs ← rep k do
      let key ← tok
      let v ← readJV
      return (key, v)
    return .obj kvs
  | _ => return .null

def hexStr (t : String) : String := String.fromUTF8! (ByteArray.mk (unhexTok t).toArray)

def doCfg : P String := do
  let nt ← nat
  let toks ← rep nt do
    let t ← tok
    match t.splitOn "@" with
    | [h, l] => return (hexStr h, l.toNat!)
    | _ => return ("", 0)
  let nd ← nat
  let dict ← rep nd do
    let kind ← tok
    let k ← nat
    let ts ← rep k (do return hexStr (← tok))
    let j ← readJV
    return (kind ++ " " ++ " ".intercalate ts, j)
  -- the global options block is the first top-level segment `{ … }`; the layer4 directives inside it are combined
  let (top, _) := parseSegs toks []
  let l4 := (top.flatMap fun g => if g.name == "{" then g.block else []).filter (·.name == "layer4")
  match adaptApp (leafM dict) (leafH dict) l4 with
  | .ok j => return jvStr (.obj [("apps", .obj [("layer4", j)])])
  | .error e => return s!"error {e}"

end L4.Drv

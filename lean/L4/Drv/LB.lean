import L4.LB
import L4.Drv.Tok
/-! driver for `lb` cases -/
namespace L4.Drv
open L4 L4.LB

def idxIn (pool : Pool) (u : Option Upstream) : Int :=
  match u with
  | none => -1
  | some x => match pool.findIdx? (· == x) with
    | some i => i
    | none => -2

/-- all oracle lists of length `d` with entries below `b` -/
def oracles : Nat → Nat → List (List Nat)
  | 0, _ => [[]]
  | d+1, b => (List.range b).flatMap fun x => (oracles d b).map (x :: ·)

def showSet (xs : List Int) : String :=
  "set:" ++ ",".intercalate ((xs.eraseDups.mergeSort (· ≤ ·)).map toString)

def doLB : P String := do
  let policy ← tok
  let choose ← if policy == "random_choose" then nat else pure 2
  let n ← nat
  let pool ← rep n do
    let name := unhexTok (← tok)
    let maxConns ← nat; let maxFails ← nat; let np ← nat
    let peers ← rep np do
      let u ← nat; let f ← nat; let c ← nat
      return ({ unhealthy := u == 1, fails := f, conns := c } : Peer)
    return ({ name := name, peers := peers, maxConns := maxConns, maxFails := maxFails } : Upstream)
  let ip := unhexTok (← tok)
  let robin0 ← nat
  let nsel ← nat
  -- note: two upstreams with identical fields are distinguished by position only when their names differ (they do)
  match policy with
  | "first" => return toString (idxIn pool (first pool))
  | "ip_hash" => return toString (idxIn pool (ipHash pool ip))
  | "round_robin" =>
    let mut robin := robin0
    let mut outs : Array String := #[]
    for _ in [0:nsel] do
      let (u, r') := roundRobin pool robin
      robin := r'
      outs := outs.push (toString (idxIn pool u))
    return ",".intercalate outs.toList ++ s!" robin={robin}"
  | "least_conn" => return showSet ((oracles (n + 1) (n + 1)).map fun o => idxIn pool (leastConn pool o))
  | "random" => return showSet ((oracles (n + 1) (n + 1)).map fun o => idxIn pool (random pool o))
  | "random_choose" => return showSet ((oracles (n + 1) (n + 1)).map fun o => idxIn pool (randomChoose choose pool o))
  | _ => return "bad-policy"

end L4.Drv

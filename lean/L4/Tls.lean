import L4.Basic
import L4.Gen.Consts
/-!
# TLS ClientHello parser (C07): `parseRawClientHello` (modules/l4tls/parsehello.go) over a cryptobyte-style reader

Every early `return` of the Go code is mirrored: the info gathered so far is returned (including fields assigned just
before the failing check). Only the fields the matchers and placeholders use are kept.
-/
namespace L4.Tls
open L4.Gen

def readU8 : Bytes → Option (Nat × Bytes)
  | b :: r => some (b.toNat, r)
  | [] => none
def readU16 : Bytes → Option (Nat × Bytes)
  | a :: b :: r => some (a.toNat * 256 + b.toNat, r)
  | _ => none
def readN (n : Nat) (s : Bytes) : Option (Bytes × Bytes) := if n ≤ s.length then some (s.take n, s.drop n) else none
def readLP8 (s : Bytes) : Option (Bytes × Bytes) := match readU8 s with | some (n, r) => readN n r | none => none
def readLP16 (s : Bytes) : Option (Bytes × Bytes) := match readU16 s with | some (n, r) => readN n r | none => none

structure Info where
  version : Nat := 0
  serverName : Bytes := []
  protos : List Bytes := []
  versions : List Nat := []
  suites : List Nat := []
  curves : List Nat := []
  exts : List Nat := []
  deriving Repr, DecidableEq

/-- `for !s.Empty() { ReadUint16 }` : none if an odd byte is left over; the elements read before the failure are kept by the caller -/
def u16List : Nat → Bytes → List Nat → List Nat × Bool
  | _, [], acc => (acc, true)
  | 0, _, acc => (acc, false)
  | f+1, s, acc => match readU16 s with
    | some (v, r) => u16List f r (acc ++ [v])
    | none => (acc, false)

/-- ALPN protocol list loop: returns the protocols appended so far and whether the loop completed -/
def protoList : Nat → Bytes → List Bytes → List Bytes × Bool
  | _, [], acc => (acc, true)
  | 0, _, acc => (acc, false)
  | f+1, s, acc => match readLP8 s with
    | some (p, r) => if p.isEmpty then (acc, false) else protoList f r (acc ++ [p])
    | none => (acc, false)

/-- server_name list loop: `(info, ok)` -/
def nameList : Nat → Bytes → Info → Info × Bool
  | _, [], i => (i, true)
  | 0, _, i => (i, false)
  | f+1, s, i =>
    match readU8 s with
    | none => (i, false)
    | some (ty, r) =>
      match readLP16 r with
      | none => (i, false)
      | some (name, rest) =>
        if name.isEmpty then (i, false)
        else if ty ≠ 0 then nameList f rest i
        else if !i.serverName.isEmpty then (i, false)       -- a second host_name
        else
          let i' := { i with serverName := name }
          if name.getLast? = some 46 then (i', false)          -- trailing dot: return with the name already set
          else nameList f rest i'

/-- generic "list of length-prefixed items that must be non-empty" loops whose content is not kept -/
def skipLP16Items (u32After : Bool) : Nat → Bytes → Bool
  | _, [] => true
  | 0, _ => false
  | f+1, s => match readLP16 s with
    | some (d, r) =>
      if d.isEmpty then false
      else if u32After then (if 4 ≤ r.length then skipLP16Items u32After f (r.drop 4) else false)
      else skipLP16Items u32After f r
    | none => false

def skipLP8Items : Nat → Bytes → Bool
  | _, [] => true
  | 0, _ => false
  | f+1, s => match readLP8 s with
    | some (d, r) => if d.isEmpty then false else skipLP8Items f r
    | none => false

def keyShares : Nat → Bytes → Bool
  | _, [] => true
  | 0, _ => false
  | f+1, s => match readU16 s with
    | some (_, r) => (match readLP16 r with
      | some (d, r2) => if d.isEmpty then false else keyShares f r2
      | none => false)
    | none => false

/-- one extension body: `(info, ok, rest of extData)`; `ok = false` is an early return; `last` = no extension follows -/
def extBody (t : Nat) (d : Bytes) (i : Info) (last : Bool) : Info × Bool × Bytes :=
  if t = l4tls_extensionServerName then
    match readLP16 d with
    | some (nl, rest) => if nl.isEmpty then (i, false, rest) else
        let (i', ok) := nameList nl.length nl i
        (i', ok, rest)
    | none => (i, false, d)
  else if t = l4tls_extensionStatusRequest then
    match readU8 d with
    | some (_, r) => (match readLP16 r with
      | some (_, r2) => (match readLP16 r2 with
        | some (_, r3) => (i, true, r3)
        | none => (i, false, r2))
      | none => (i, false, r))
    | none => (i, false, d)
  else if t = l4tls_extensionSupportedCurves then
    match readLP16 d with
    | some (cl, rest) => if cl.isEmpty then (i, false, rest) else
        let (cs, ok) := u16List cl.length cl i.curves
        ({ i with curves := cs }, ok, rest)
    | none => (i, false, d)
  else if t = l4tls_extensionSupportedPoints then
    match readLP8 d with
    | some (p, rest) => (i, !p.isEmpty, rest)
    | none => (i, false, d)
  else if t = l4tls_extensionSessionTicket then (i, true, [])
  else if t = l4tls_extensionSignatureAlgorithms ∨ t = l4tls_extensionSignatureAlgorithmsCert then
    match readLP16 d with
    | some (sl, rest) => if sl.isEmpty then (i, false, rest) else (i, (u16List sl.length sl []).2, rest)
    | none => (i, false, d)
  else if t = l4tls_extensionRenegotiationInfo then
    match readLP8 d with
    | some (_, rest) => (i, true, rest)
    | none => (i, false, d)
  else if t = l4tls_extensionALPN then
    match readLP16 d with
    | some (pl, rest) => if pl.isEmpty then (i, false, rest) else
        let (ps, ok) := protoList pl.length pl i.protos
        ({ i with protos := ps }, ok, rest)
    | none => (i, false, d)
  else if t = l4tls_extensionSCT then (i, true, d)
  else if t = l4tls_extensionSupportedVersions then
    match readLP8 d with
    | some (vl, rest) => if vl.isEmpty then (i, false, rest) else
        let (vs, ok) := u16List vl.length vl i.versions
        ({ i with versions := vs }, ok, rest)
    | none => (i, false, d)
  else if t = l4tls_extensionCookie then
    match readLP16 d with
    | some (c, rest) => (i, !c.isEmpty, rest)
    | none => (i, false, d)
  else if t = l4tls_extensionKeyShare then
    match readLP16 d with
    | some (ks, rest) => (i, keyShares ks.length ks, rest)
    | none => (i, false, d)
  else if t = l4tls_extensionEarlyData then (i, true, d)
  else if t = l4tls_extensionPSKModes then
    match readLP8 d with
    | some (_, rest) => (i, true, rest)
    | none => (i, false, d)
  else if t = l4tls_extensionPreSharedKey then
    if !last then (i, false, d) else
    match readLP16 d with
    | some (ids, r) =>
      if ids.isEmpty ∨ !skipLP16Items true ids.length ids then (i, false, r) else
      (match readLP16 r with
       | some (bs, r2) => if bs.isEmpty ∨ !skipLP8Items bs.length bs then (i, false, r2) else (i, true, r2)
       | none => (i, false, r))
    | none => (i, false, d)
  else (i, true, [])       -- unknown extension: `continue` (its data is not inspected)

/-- the extension loop -/
def parseExts : Nat → Bytes → Info → Info
  | _, [], i => i
  | 0, _, i => i
  | f+1, s, i =>
    match readU16 s with
    | none => i
    | some (t, r) =>
      match readLP16 r with
      | none => i
      | some (d, rest) =>
        let i1 := { i with exts := i.exts ++ [t] }
        let (i2, ok, left) := extBody t d i1 rest.isEmpty
        if !ok then i2
        else if !left.isEmpty then i2
        else parseExts f rest i2

def versionsFromMax (v : Nat) : List Nat := [0x0304, 0x0303, 0x0302, 0x0301].filter (· ≤ v)

def finish (i : Info) : Info := if i.versions.isEmpty then { i with versions := versionsFromMax i.version } else i

/-- `parseRawClientHello` on the handshake message (type, uint24 length, body) -/
def parseHello (data : Bytes) : Info :=
  finish <|
  match readN 4 data with
  | none => {}
  | some (_, s) =>
  match readU16 s with
  | none => {}
  | some (ver, s) =>
  let i : Info := { version := ver }
  match readN 32 s with
  | none => i
  | some (_, s) =>
  match readLP8 s with
  | none => i
  | some (_, s) =>
  match readLP16 s with
  | none => i
  | some (cs, s) =>
  let (suites, ok) := u16List cs.length cs []
  let i := { i with suites := suites }
  if !ok then i else
  match readLP8 s with
  | none => i
  | some (_, s) =>
  if s.isEmpty then i else
  match readLP16 s with
  | none => i
  | some (exts, rest) => if !rest.isEmpty then i else parseExts exts.length exts i

end L4.Tls

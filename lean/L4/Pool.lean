import L4.Basic
import L4.Gen.Facts
/-!
# Buffer-pool ownership (C08, C13): transition system over any number of connections
The pooled matching buffers of `bufPool`: `Get` on handle start, in-place prefetch writes, reads by handlers or by the
wrapped listener's consumer after hand-off, `Put` when the handler chain returns — and, depending on the regenerated fact
`putOnHijack`, also when the connection was hijacked.
-/
namespace L4.Pool
abbrev BufId := Nat
abbrev ConnId := Nat

inductive Phase | handling | hijacked | closed deriving DecidableEq, Repr

structure Conn where
  buf : BufId
  phase : Phase
  unread : Bool          -- has prefetched-but-unread bytes in the pooled array
  deriving Repr

structure St where
  pool : List BufId                  -- free buffers
  fresh : BufId                      -- next never-used id (sync.Pool.New)
  conns : ConnId → Option Conn
  writer : BufId → Option ConnId     -- who last wrote the array
  bad : Bool := false                -- a live connection read bytes written by another

structure Facts where
  putOnHijack : Bool                 -- does listener.handle Put the buffer even when hijacked?

inductive Act
  | start (c : ConnId)               -- handle(): bufPool.Get
  | prefetch (c : ConnId)            -- in-place prefetch into the pooled array
  | read (c : ConnId)                -- handler / consumer reads buffered bytes
  | finish (c : ConnId)              -- handler chain returned normally: Put + close
  | hijack (c : ConnId)              -- listenerHandler returned errHijacked
  | close (c : ConnId)               -- consumer closes hijacked conn

def upd (f : Nat → Option α) (k : Nat) (v : Option α) : Nat → Option α := fun j => if j = k then v else f j

def step (F : Facts) (s : St) : Act → Option St
  | .start c =>
    match s.conns c with
    | some _ => none
    | none =>
      match s.pool with
      | b :: rest => some { s with pool := rest, conns := upd s.conns c (some ⟨b, .handling, false⟩) }
      | [] => some { s with fresh := s.fresh + 1, conns := upd s.conns c (some ⟨s.fresh, .handling, false⟩) }
  | .prefetch c =>
    match s.conns c with
    | some ⟨b, .handling, _⟩ => some { s with conns := upd s.conns c (some ⟨b, .handling, true⟩), writer := upd s.writer b (some c) }
    | _ => none
  | .read c =>
    match s.conns c with
    | some ⟨b, ph, true⟩ =>
      if ph = .closed then none else
      some { s with conns := upd s.conns c (some ⟨b, ph, false⟩), bad := s.bad || (s.writer b != some c) }
    | _ => none
  | .finish c =>
    match s.conns c with
    | some ⟨b, .handling, _⟩ => some { s with pool := b :: s.pool, conns := upd s.conns c (some ⟨b, .closed, false⟩) }
    | _ => none
  | .hijack c =>
    match s.conns c with
    | some ⟨b, .handling, u⟩ =>
      some { s with pool := if F.putOnHijack then b :: s.pool else s.pool, conns := upd s.conns c (some ⟨b, .hijacked, u⟩) }
    | _ => none
  | .close c =>
    match s.conns c with
    | some ⟨b, .hijacked, _⟩ => some { s with conns := upd s.conns c (some ⟨b, .closed, false⟩) }
    | _ => none

def init : St := { pool := [], fresh := 0, conns := fun _ => none, writer := fun _ => none }

def runActs (F : Facts) : St → List Act → Option St
  | s, [] => some s
  | s, a :: as => match step F s a with | some s' => runActs F s' as | none => none

/-- witness for the current tree (putOnHijack = true): cross-talk in 6 steps -/
example : (runActs ⟨true⟩ init [.start 0, .prefetch 0, .hijack 0, .start 1, .prefetch 1, .read 0]).map (·.bad) = some true := by
  decide

/-- invariant for the repaired protocol -/
structure PInv (s : St) : Prop where
  notbad : s.bad = false
  live_not_pooled : ∀ c k, s.conns c = some k → k.phase ≠ .closed → k.buf ∉ s.pool
  live_distinct : ∀ c d k l, s.conns c = some k → s.conns d = some l → k.phase ≠ .closed → l.phase ≠ .closed → k.buf = l.buf → c = d
  conn_lt : ∀ c k, s.conns c = some k → k.buf < s.fresh
  pool_lt : ∀ b ∈ s.pool, b < s.fresh
  unread_mine : ∀ c k, s.conns c = some k → k.unread = true → k.phase ≠ .closed → s.writer k.buf = some c
  pool_nodup : s.pool.Nodup

theorem inv_init : PInv init := by
  constructor <;> simp [init]

theorem inv_step (s s' : St) (a : Act) (h : PInv s) (hs : step ⟨false⟩ s a = some s') : PInv s' := by
  obtain ⟨h1, h2, h3, h4, h5, h6, h7⟩ := h
  cases a with
  | start c =>
    simp only [step] at hs
    split at hs
    · cases hs
    · rename_i hc
      split at hs
      · rename_i b rest hp
        injection hs with hs; subst hs
        have hb : b ∈ s.pool := by rw [hp]; simp
        have hnd : b ∉ rest ∧ rest.Nodup := by rw [hp] at h7; simpa using h7
        have hsub : ∀ x, x ∈ rest → x ∈ s.pool := by intro x hx; rw [hp]; simp [hx]
        constructor <;> simp only [upd] <;> grind
      · rename_i hp
        injection hs with hs; subst hs
        constructor <;> simp only [upd] <;> grind
  | prefetch c =>
    simp only [step] at hs
    split at hs
    · injection hs with hs; subst hs
      constructor <;> simp only [upd] <;> grind
    · cases hs
  | read c =>
    simp only [step] at hs
    split at hs
    · split at hs
      · cases hs
      · injection hs with hs; subst hs
        constructor <;> simp only [upd] <;> grind
    · cases hs
  | finish c =>
    simp only [step] at hs
    split at hs
    · injection hs with hs; subst hs
      constructor <;> simp only [upd] <;> grind
    · cases hs
  | hijack c =>
    simp only [step] at hs
    split at hs
    · injection hs with hs; subst hs
      constructor <;> simp only [upd] <;> grind
    · cases hs
  | close c =>
    simp only [step] at hs
    split at hs
    · injection hs with hs; subst hs
      constructor <;> simp only [upd] <;> grind
    · cases hs

/-- every reachable state of the repaired protocol satisfies the invariant -/
theorem inv_run (acts : List Act) (s s' : St) (h : PInv s) (hr : runActs ⟨false⟩ s acts = some s') : PInv s' := by
  induction acts generalizing s with
  | nil => simp [runActs] at hr; subst hr; exact h
  | cons a as ih =>
    simp only [runActs] at hr
    split at hr
    · rename_i s1 hs
      exact ih s1 (inv_step s s1 a h hs) hr
    · cases hr

/-- what the extractor found in `listener.handle` / `Server.handle`: is the buffer returned to the pool on the hijack path?
The `Put` must be guarded by exactly `!errors.Is(err, errHijacked)`: a weaker guard returns the buffer of some hijacked connections. -/
def factsFromSource : Facts :=
  ⟨Gen.fact_listener_handle_bare_defer_put || (Gen.fact_listener_handle_any_put && !Gen.fact_listener_handle_put_guard_is_exactly_not_hijacked)⟩

end L4.Pool
